(* Eval/SpecRefines_Nodes1.v — node lemmas of impl_refines_spec: literals, traversals, index,
   unary and binary operators, conditional, tuple and object constructors. *)
From Coq Require Import QArith.
From HclV Require Import Base.Prelude Cty.Values Cty.Convert Cty.Ops Eval.Impl Eval.Spec
  Eval.SpecRefines_Base Eval.SpecRefines_Defs.
Open Scope Z_scope.

Local Opaque conv.

(* ---- using and composing refinement facts ------------------------------------------------- *)
Lemma refines1_use r s : refines1 r s -> has_unsupported (snd r) = false ->
  (has_errors (snd r) = true /\ s = SErr) \/
  (has_errors (snd r) = false /\ s = SOk (fst r) /\ good (fst r) = true).
Proof.
  intros R HU. destruct (R HU) as [R1 R2]. unfold result_of in R1.
  destruct (has_errors (snd r)) eqn:E; [left|right]; auto.
Qed.

Lemma refines1_bind v1 d1 s1 r d' (ks : val -> sres) :
  refines1 (v1, d1) s1 -> (s1 = SOk v1 -> good v1 = true -> refines1 (r, d') (ks v1)) ->
  refines1 (r, d1 ++ d') (match s1 with SOk v => ks v | SErr => SErr end).
Proof.
  intros R1 R2 HU. simpl in HU.
  rewrite has_unsupported_app in HU. apply orb_false_iff in HU as [HU1 HU2].
  destruct (refines1_use _ _ R1 HU1) as [[E ->]|[E [-> G]]]; simpl in E.
  - unfold result_of. simpl. rewrite has_errors_app, E. split; [reflexivity|discriminate].
  - specialize (R2 eq_refl G). destruct (R2 HU2) as [A B].
    unfold result_of in *. simpl in *. rewrite has_errors_app, E. simpl. auto.
Qed.

Lemma refines1_errs v ds : has_errors ds = true -> refines1 (v, ds) SErr.
Proof. intros E _. unfold result_of. simpl. rewrite E. split; [reflexivity|discriminate]. Qed.

Lemma le_S_inv a b : (S a <= S b)%nat -> (a <= b)%nat. Proof. lia. Qed.

(* ---- literals, parentheses, unwrapped interpolation, the anonymous symbol ------------------- *)
Lemma lit_refines f c anon v : lits_ok (ELit v) = true ->
  refines1 (eval (S f) c anon (ELit v)) (spec_eval (env_of c anon) (ELit v)).
Proof. intro L. rewrite eval_ELit. apply refines1_ok. exact L. Qed.

Lemma anon_refines f c anon : anon_ok anon = true -> dev_free (S f) c anon EAnon = true ->
  refines1 (eval (S f) c anon EAnon) (spec_eval (env_of c anon) EAnon).
Proof.
  intros A D. rewrite eval_EAnon. simpl in D. destruct anon as [v|]; [|discriminate].
  simpl. apply refines1_ok. exact A.
Qed.

(* ---- traversals -------------------------------------------------------------------------------- *)
Lemma trav_refines f c anon root steps :
  known_unmarked_ctx c = true -> lits_ok (EScopeTrav root steps) = true ->
  dev_free (S f) c anon (EScopeTrav root steps) = true ->
  refines1 (eval (S f) c anon (EScopeTrav root steps)) (spec_eval (env_of c anon) (EScopeTrav root steps)).
Proof.
  intros K L D. rewrite eval_EScopeTrav. unfold traverse_abs.
  pose proof (lookup_var_env c root false anon) as LV.
  set (E := env_of c anon) in *.
  cbn [spec_eval]. cbn [dev_free] in D. fold E in D. cbv zeta in D.
  destruct (lookup_var c root false) as [o b]. cbn [fst] in LV. rewrite <- LV in *.
  destruct o as [v|].
  - apply traverse_rel_refines; auto. eapply ctx_vars_good; eauto.
  - destruct b; apply refines1_err; discriminate.
Qed.

Lemma reltrav_refines f c anon src steps :
  IHf f -> known_unmarked_ctx c = true -> funcs_ok c -> anon_ok anon = true ->
  lits_ok (ERelTrav src steps) = true -> (expr_size (ERelTrav src steps) <= S f)%nat ->
  dev_free (S f) c anon (ERelTrav src steps) = true ->
  refines1 (eval (S f) c anon (ERelTrav src steps)) (spec_eval (env_of c anon) (ERelTrav src steps)).
Proof.
  intros IH K FO A L SZ D. rewrite eval_ERelTrav. cbn [spec_eval].
  cbn [lits_ok] in L. apply andb_true_iff in L as [L1 L2].
  cbn [dev_free] in D. apply andb_true_iff in D as [D1 D2].
  cbn [expr_size] in SZ. apply le_S_inv in SZ.
  pose proof (IH c anon src K FO A L1 SZ D1) as R1.
  destruct (eval f c anon src) as [v ds] eqn:EV.
  destruct (traverse_rel steps v []) as [r d'] eqn:TR.
  apply (refines1_bind v ds _ r d' (spec_steps steps) R1).
  intros E G. rewrite E in D2. rewrite <- TR. apply traverse_rel_refines; auto.
Qed.

Lemma paren_refines f c anon e :
  IHf f -> known_unmarked_ctx c = true -> funcs_ok c -> anon_ok anon = true ->
  lits_ok e = true -> (expr_size e <= f)%nat -> dev_free f c anon e = true ->
  refines1 (eval (S f) c anon (EParen e)) (spec_eval (env_of c anon) (EParen e)) /\
  refines1 (eval (S f) c anon (EWrap e)) (spec_eval (env_of c anon) (EWrap e)).
Proof. intros IH K FO A L SZ D. rewrite eval_EParen, eval_EWrap. cbn [spec_eval]. split; apply IH; auto. Qed.

(* ---- index operator ---------------------------------------------------------------------------- *)
Lemma index_node_refines f c anon a b :
  IHf f -> known_unmarked_ctx c = true -> funcs_ok c -> anon_ok anon = true ->
  lits_ok (EIndex a b) = true -> (expr_size (EIndex a b) <= S f)%nat ->
  dev_free (S f) c anon (EIndex a b) = true ->
  refines1 (eval (S f) c anon (EIndex a b)) (spec_eval (env_of c anon) (EIndex a b)).
Proof.
  intros IH K FO A L SZ D. rewrite eval_EIndex. cbn [spec_eval].
  cbn [lits_ok] in L. apply andb_true_iff in L as [L1 L2].
  cbn [dev_free] in D. apply andb_true_iff in D as [D1 D2].
  cbn [expr_size] in SZ.
  assert (refines1 (eval f c anon a) (spec_eval (env_of c anon) a)) as R1 by (apply IH; auto; lia).
  assert (refines1 (eval f c anon b) (spec_eval (env_of c anon) b)) as R2 by (apply IH; auto; lia).
  destruct (eval f c anon a) as [cv cds] eqn:EA.
  destruct (eval f c anon b) as [kv kds] eqn:EB.
  destruct (index cv kv) as [r ids] eqn:EI.
  apply (refines1_bind cv cds _ r (kds ++ ids)
          (fun cv => match spec_eval (env_of c anon) b with SOk kv => spec_index cv kv | SErr => SErr end) R1).
  intros E1 G1.
  apply (refines1_bind kv kds _ r ids (fun kv => spec_index cv kv) R2).
  intros E2 G2. rewrite <- EI. apply index_refines; auto.
Qed.

Lemma refines1_intro v ds s :
  (has_unsupported ds = false ->
   (has_errors ds = true /\ s = SErr) \/ (has_errors ds = false /\ s = SOk v /\ good v = true)) ->
  refines1 (v, ds) s.
Proof.
  intros H HU. simpl in HU. destruct (H HU) as [[E ->]|[E [-> G]]]; unfold result_of; simpl; rewrite E.
  - split; [reflexivity|discriminate].
  - split; auto.
Qed.

Ltac split_unsup HU :=
  repeat (rewrite has_unsupported_app in HU; apply orb_false_iff in HU;
          let H1 := fresh "HU" in destruct HU as [HU H1]).

(* ---- unary operators ----------------------------------------------------------------------------- *)
Lemma unop_refines f c anon op e :
  IHf f -> known_unmarked_ctx c = true -> funcs_ok c -> anon_ok anon = true ->
  lits_ok (EUn op e) = true -> (expr_size (EUn op e) <= S f)%nat ->
  dev_free (S f) c anon (EUn op e) = true ->
  refines1 (eval (S f) c anon (EUn op e)) (spec_eval (env_of c anon) (EUn op e)).
Proof.
  intros IH K FO A L SZ D. rewrite eval_EUn. cbn [spec_eval].
  cbn [lits_ok] in L. cbn [dev_free] in D. cbn [expr_size] in SZ. apply le_S_inv in SZ.
  pose proof (IH c anon e K FO A L SZ D) as R1.
  destruct (eval f c anon e) as [gv ds] eqn:EV.
  destruct (conv gv (unop_param op)) as [v| ce |] eqn:C.
  - destruct (has_errors ds) eqn:E.
    + apply refines1_intro. intro HU. left. split; auto.
      destruct (refines1_use _ _ R1 HU) as [[_ ->]|[E' _]]; [reflexivity|simpl in E'; congruence].
    + destruct (unmark v) as [vu vm] eqn:UM.
      assert (forall HU : has_unsupported ds = false,
              spec_eval (env_of c anon) e = SOk gv /\ good gv = true /\ vu = v /\ vm = []) as FACT.
      { intro HU. destruct (refines1_use _ _ R1 HU) as [[E' _]|[_ [S1 G]]]; [simpl in E'; congruence|].
        simpl in *. pose proof (conv_good _ _ _ G C) as Gv. rewrite (good_unmark v Gv) in UM.
        inversion UM; subst. auto. }
      destruct (call_unop op vu) as [r| oe |] eqn:CU; apply refines1_intro; intro HU.
      * destruct (FACT HU) as [S1 [G [-> ->]]]. right. rewrite E, S1. unfold spec_unop, to_type. rewrite C, CU.
        cbn [with_marks]. split; [reflexivity|split; [reflexivity|]]. eapply unop_good; eauto.
      * split_unsup HU. destruct (FACT HU) as [S1 [G [-> ->]]]. left. rewrite has_errors_app, E. simpl.
        rewrite S1. unfold spec_unop, to_type. rewrite C, CU. auto.
      * split_unsup HU. discriminate.
  - apply refines1_intro; intro HU. split_unsup HU. left. rewrite has_errors_app. simpl. rewrite orb_true_r.
    split; [reflexivity|]. destruct (refines1_use _ _ R1 HU) as [[_ ->]|[_ [-> _]]]; [reflexivity|].
    simpl. unfold spec_unop, to_type. rewrite C. reflexivity.
  - apply refines1_intro; intro HU. split_unsup HU. discriminate.
Qed.

(* ---- binary operators ------------------------------------------------------------------------- *)
Definition tru (v : val) : bool := match v with VBool true => true | _ => false end.
(* Operation.ShortCircuit as it appears in eval (EBin) *)
Definition sc_of (op : binop) (lu ru : val) (lds rds : list diag) : option (val * list diag) :=
  match op with
  | OpOr | OpAnd =>
      if negb (is_known lu) && negb (is_known ru)
      then if negb (has_errors lds) then Some (unk_bool_nn, lds) else None
      else
       match op with
       | OpOr =>
           if is_known lu && tru lu then Some (VBool true, lds)
           else if is_known ru && tru ru then Some (VBool true, rds)
           else if negb (is_known lu) && negb (tru ru) then Some (unk_bool_nn, lds)
           else if negb (is_known ru) && negb (tru lu) then Some (unk_bool_nn, rds)
           else None
       | _ =>
           if is_known lu && negb (tru lu) then Some (VBool false, lds)
           else if is_known ru && negb (tru ru) then Some (VBool false, rds)
           else if negb (is_known lu) && tru ru then Some (unk_bool_nn, lds)
           else if negb (is_known ru) && tru lu then Some (unk_bool_nn, rds)
           else None
       end
  | _ => None
  end.

Definition bin_tail (op : binop) (lu ru : val) (mk : marks) (lds rds : list diag) : val * list diag :=
  match sc_of op lu ru lds rds with
  | Some (v, ds) => (with_marks v mk, ds)
  | None =>
      if has_errors (lds ++ rds)
      then (with_marks (VUnk (binop_type op) rf_none) mk, lds ++ rds)
      else match call_binop op lu ru with
           | OOk res => (with_marks res mk, lds ++ rds)
           | OErr _ => (VUnk (binop_type op) rf_none, (lds ++ rds) ++ [derr S_OperationFailed []])
           | OUnsupported => (VUnk (binop_type op) rf_none, (lds ++ rds) ++ [dunsupported])
           end
  end.

Lemma eval_EBin' f c a op x y : eval (S f) c a (EBin op x y) =
  let '(glv, lds) := eval f c a x in
  let '(grv, rds) := eval f c a y in
  if has_unsupported lds || has_unsupported rds then (dyn_val, [dunsupported]) else
  match conv glv (binop_param op), conv grv (binop_param op) with
  | COk lv, COk rv =>
      let '(lu, lm) := unmark lv in let '(ru, rm) := unmark rv in
      bin_tail op lu ru (marks_union lm rm) lds rds
  | lc, rc =>
      (VUnk (binop_type op) rf_none,
       (match lc with COk _ => [] | CErr ce => [derr S_InvalidOperand [FConv ce]] | CUnsupported => [dunsupported] end ++
        match rc with COk _ => [] | CErr ce => [derr S_InvalidOperand [FConv ce]] | CUnsupported => [dunsupported] end)
       ++ lds ++ rds)
  end.
Proof.
  rewrite eval_EBin. destruct (eval f c a x) as [glv lds]. destruct (eval f c a y) as [grv rds].
  destruct (has_unsupported lds || has_unsupported rds); [reflexivity|].
  destruct (conv glv (binop_param op)); destruct (conv grv (binop_param op)); try reflexivity.
Qed.

Definition opnd (r : val * list diag) (s : sres) : Prop :=
  (has_errors (snd r) = true /\ s = SErr) \/
  (has_errors (snd r) = false /\ s = SOk (fst r) /\ good (fst r) = true).

Lemma marks_union_nil : marks_union [] [] = []. Proof. reflexivity. Qed.

Lemma sc_of_nonlogic op lu ru lds rds : binop_param op <> TBool -> sc_of op lu ru lds rds = None.
Proof. destruct op; simpl; try reflexivity; intro H; exfalso; apply H; reflexivity. Qed.

Lemma bin_tail_refines op glv grv lds rds sa sb lv rv lu lm ru rm :
  opnd (glv, lds) sa -> opnd (grv, rds) sb ->
  conv glv (binop_param op) = COk lv -> conv grv (binop_param op) = COk rv ->
  unmark lv = (lu, lm) -> unmark rv = (ru, rm) ->
  logic_dev_free op sa sb = true ->
  refines1 (bin_tail op lu ru (marks_union lm rm) lds rds)
           (match sa with SOk av => match sb with SOk bv => spec_binop op av bv | SErr => SErr end | SErr => SErr end).
Proof.
  intros HL HR CL CR UL UR DF.
  assert (forall v mk ds, has_errors ds = true -> refines1 (with_marks v mk, ds) SErr) as FIN
    by (intros; apply refines1_errs; auto).
  destruct HL as [[EL ->]|[EL [-> GL]]]; destruct HR as [[ER ->]|[ER [-> GR]]]; cbn [fst snd] in *.
  - (* both erroneous *)
    unfold bin_tail. destruct (sc_of op lu ru lds rds) as [[v ds]|] eqn:SC.
    + assert (ds = lds \/ ds = rds) as [-> | ->]; [|apply FIN; auto|apply FIN; auto].
      unfold sc_of in SC. destruct op; try discriminate SC;
        repeat match type of SC with (if ?c then _ else _) = _ => destruct c end;
        inversion SC; auto.
    + rewrite has_errors_app, EL. apply FIN. rewrite has_errors_app, EL. reflexivity.
  - (* left erroneous, right fine *)
    pose proof (conv_good _ _ _ GR CR) as Grv. rewrite (good_unmark rv Grv) in UR. inversion UR; subst ru rm.
    unfold bin_tail. destruct (sc_of op lu rv lds rds) as [[v ds]|] eqn:SC.
    + assert (ds = lds) as ->; [|apply FIN; auto].
      assert (binop_param op = TBool \/ binop_param op <> TBool) as [P|P]
        by (destruct op; simpl; auto; right; discriminate);
        [|rewrite sc_of_nonlogic in SC; [discriminate SC|exact P]].
      destruct (binop_shape op grv rv GR CR P) as [[y ->]| ->];
        unfold logic_dev_free, bool_class in DF; rewrite P in CR; rewrite CR in DF;
        unfold sc_of in SC; destruct op; try discriminate P; cbn in SC, DF;
        try (destruct y; cbn in SC, DF); try discriminate DF;
        repeat match type of SC with (if ?c then _ else _) = _ => destruct c end;
        inversion SC; auto.
    + rewrite has_errors_app, EL. apply FIN. rewrite has_errors_app, EL. reflexivity.
  - (* left fine, right erroneous *)
    pose proof (conv_good _ _ _ GL CL) as Glv. rewrite (good_unmark lv Glv) in UL. inversion UL; subst lu lm.
    unfold bin_tail. destruct (sc_of op lv ru lds rds) as [[v ds]|] eqn:SC.
    + assert (ds = rds) as ->; [|apply FIN; auto].
      assert (binop_param op = TBool \/ binop_param op <> TBool) as [P|P]
        by (destruct op; simpl; auto; right; discriminate);
        [|rewrite sc_of_nonlogic in SC; [discriminate SC|exact P]].
      destruct (binop_shape op glv lv GL CL P) as [[y ->]| ->];
        unfold logic_dev_free, bool_class in DF; rewrite P in CL; rewrite CL in DF;
        unfold sc_of in SC; destruct op; try discriminate P; cbn in SC, DF;
        try (destruct y; cbn in SC, DF); try discriminate DF;
        repeat match type of SC with (if ?c then _ else _) = _ => destruct c end;
        inversion SC; auto.
    + rewrite has_errors_app, EL, ER. apply FIN. rewrite has_errors_app, ER, orb_true_r. reflexivity.
  - (* both fine *)
    pose proof (conv_good _ _ _ GL CL) as Glv. rewrite (good_unmark lv Glv) in UL. inversion UL; subst lu lm.
    pose proof (conv_good _ _ _ GR CR) as Grv. rewrite (good_unmark rv Grv) in UR. inversion UR; subst ru rm.
    rewrite marks_union_nil. unfold spec_binop, to_type. rewrite CL, CR.
    assert (refines1
      (if has_errors (lds ++ rds)
       then (with_marks (VUnk (binop_type op) rf_none) [], lds ++ rds)
       else match call_binop op lv rv with
            | OOk res => (with_marks res [], lds ++ rds)
            | OErr _ => (VUnk (binop_type op) rf_none, (lds ++ rds) ++ [derr S_OperationFailed []])
            | OUnsupported => (VUnk (binop_type op) rf_none, (lds ++ rds) ++ [dunsupported])
            end)
      (match call_binop op lv rv with OOk r => SOk r | _ => SErr end)) as GEN.
    { rewrite has_errors_app, EL, ER. cbn [orb].
      destruct (call_binop op lv rv) as [res| oe |] eqn:CB; apply refines1_intro; intro HU.
      - right. rewrite has_errors_app, EL, ER. cbn [with_marks]. repeat split; auto. exact (binop_good op glv grv lv rv res GL GR CL CR CB).
      - left. rewrite has_errors_app. simpl. rewrite orb_true_r. auto.
      - split_unsup HU. discriminate. }
    unfold bin_tail.
    assert (binop_param op = TBool \/ binop_param op <> TBool) as [P|P]
      by (destruct op; simpl; auto; right; discriminate);
      [|rewrite sc_of_nonlogic; [exact GEN|exact P]].
    destruct (binop_shape op glv lv GL CL P) as [[x ->]| ->];
    destruct (binop_shape op grv rv GR CR P) as [[y ->]| ->];
      unfold logic_dev_free, bool_class in DF; rewrite P in CL, CR; rewrite CL, CR in DF;
      destruct op; try discriminate P;
      try destruct x; try destruct y; cbn in DF; try discriminate DF;
      cbn [sc_of is_known unmark fst tru negb andb]; try exact GEN;
      cbn [call_binop andb orb with_marks]; apply refines1_intro; intro HU; right; auto.
Qed.

Lemma opnd_of r s : refines1 r s -> has_unsupported (snd r) = false -> opnd r s.
Proof. intros R HU. exact (refines1_use r s R HU). Qed.

Lemma binop_refines f c anon op x y :
  IHf f -> known_unmarked_ctx c = true -> funcs_ok c -> anon_ok anon = true ->
  lits_ok (EBin op x y) = true -> (expr_size (EBin op x y) <= S f)%nat ->
  dev_free (S f) c anon (EBin op x y) = true ->
  refines1 (eval (S f) c anon (EBin op x y)) (spec_eval (env_of c anon) (EBin op x y)).
Proof.
  intros IH K FO A L SZ D. rewrite eval_EBin'. cbn [spec_eval].
  cbn [lits_ok] in L. apply andb_true_iff in L as [L1 L2].
  cbn [dev_free] in D. apply andb_true_iff in D as [D D3]. apply andb_true_iff in D as [D1 D2].
  cbn [expr_size] in SZ.
  assert (refines1 (eval f c anon x) (spec_eval (env_of c anon) x)) as R1 by (apply IH; auto; lia).
  assert (refines1 (eval f c anon y) (spec_eval (env_of c anon) y)) as R2 by (apply IH; auto; lia).
  destruct (eval f c anon x) as [glv lds] eqn:EX. destruct (eval f c anon y) as [grv rds] eqn:EY.
  destruct (has_unsupported lds || has_unsupported rds) eqn:HU0; [apply refines1_unsup|].
  apply orb_false_iff in HU0 as [HUl HUr].
  pose proof (opnd_of _ _ R1 HUl) as OL. pose proof (opnd_of _ _ R2 HUr) as OR.
  set (sa := spec_eval (env_of c anon) x) in *. set (sb := spec_eval (env_of c anon) y) in *.
  destruct (conv glv (binop_param op)) as [lv| ce |] eqn:CL.
  - destruct (conv grv (binop_param op)) as [rv| ce |] eqn:CR.
    + destruct (unmark lv) as [lu lm] eqn:UL. destruct (unmark rv) as [ru rm] eqn:UR.
      eapply bin_tail_refines; eauto.
    + replace (match sa with SOk av => match sb with SOk bv => spec_binop op av bv | SErr => SErr end | SErr => SErr end)
        with SErr; [apply refines1_errs; rewrite !has_errors_app; simpl; rewrite ?orb_true_r; reflexivity|].
      destruct OL as [[_ ->]|[_ [-> _]]]; [reflexivity|]. destruct OR as [[_ ->]|[_ [-> _]]]; [reflexivity|].
      cbn [fst]. unfold spec_binop, to_type. rewrite CL, CR. reflexivity.
    + intro HU. simpl in HU. discriminate HU.
  - replace (match sa with SOk av => match sb with SOk bv => spec_binop op av bv | SErr => SErr end | SErr => SErr end)
      with SErr; [apply refines1_errs; rewrite !has_errors_app; simpl; reflexivity|].
    destruct OL as [[_ ->]|[_ [-> _]]]; [reflexivity|]. destruct OR as [[_ ->]|[_ [-> _]]]; [reflexivity|].
    cbn [fst]. unfold spec_binop, to_type. rewrite CL. reflexivity.
  - intro HU. simpl in HU. discriminate HU.
Qed.

(* ---- conditional ------------------------------------------------------------------------------ *)
Section TyInd.
  Variable P : ty -> Prop.
  Hypothesis Hs : P TStr. Hypothesis Hn : P TNum. Hypothesis Hb : P TBool. Hypothesis Hd : P TDyn.
  Hypothesis Hl : forall t, P t -> P (TList t).
  Hypothesis Hset : forall t, P t -> P (TSet t).
  Hypothesis Hm : forall t, P t -> P (TMap t).
  Hypothesis Ht : forall ts, Forall P ts -> P (TTuple ts).
  Hypothesis Ho : forall fs, Forall (fun p => P (snd p)) fs -> P (TObj fs).
  Fixpoint ty_ind2 (t : ty) : P t :=
    let fix go (l : list ty) : Forall P l :=
      match l with [] => Forall_nil _ | x :: r => Forall_cons _ (ty_ind2 x) (go r) end in
    let fix gokv (l : list (list Z * ty)) : Forall (fun p => P (snd p)) l :=
      match l with [] => Forall_nil _ | x :: r => Forall_cons _ (ty_ind2 (snd x)) (gokv r) end in
    match t with
    | TStr => Hs | TNum => Hn | TBool => Hb | TDyn => Hd
    | TList x => Hl x (ty_ind2 x) | TSet x => Hset x (ty_ind2 x) | TMap x => Hm x (ty_ind2 x)
    | TTuple ts => Ht ts (go ts) | TObj fs => Ho fs (gokv fs)
    end.
End TyInd.

Lemma str_eqb_refl s : str_eqb s s = true.
Proof. apply zlist_eqb_eq. reflexivity. Qed.

Lemma ty_eqb_refl : forall t, ty_eqb t t = true.
Proof.
  induction t using ty_ind2; simpl; auto.
  - induction H as [|x r Hx Hr IH]; [reflexivity|]. rewrite Hx. simpl. exact IH.
  - induction H as [|[k x] r Hx Hr IH]; [reflexivity|]. simpl in Hx. rewrite str_eqb_refl, Hx. simpl. exact IH.
Qed.

Local Transparent conv.
Local Opaque conv_exists.
Lemma conv_same v t : is_marked v = false -> ty_eqb (type_of v) t = true -> conv v t = COk v.
Proof.
  intros M T. unfold conv. cbn [convert]. destruct v; try discriminate M; rewrite T; reflexivity.
Qed.
Lemma conv_dyn v : is_marked v = false -> conv v TDyn = COk v.
Proof.
  intros M. unfold conv. cbn [convert]. destruct v; try discriminate M;
    match goal with |- (if ?c then _ else _) = _ => destruct c; reflexivity end.
Qed.
Lemma spec_unify_nodyn a b : ty_eqb a TDyn = false -> ty_eqb b TDyn = false -> spec_unify a b = unify a b.
Proof. intros A B. destruct a; try discriminate A; destruct b; try discriminate B; reflexivity. Qed.
Local Opaque conv.

(* the result-type computation of ConditionalExpr.Value, as it appears in eval *)
Definition cond_uni (tv fv : val) : option (ty * bool * bool) + bool :=
  if is_dyn_null tv then inl (Some (type_of fv, true, false))
  else if is_dyn_null fv then inl (Some (type_of tv, false, true))
  else if ty_eqb (type_of tv) TDyn || ty_eqb (type_of fv) TDyn then inl (Some (TDyn, false, false))
  else match unify (type_of tv) (type_of fv) with
       | UOk t => inl (Some (t, negb (ty_eqb (type_of tv) t), negb (ty_eqb (type_of fv) t)))
       | UNone => inr false
       | UUnsupported => inr true
       end.

Definition pick_conv (needconv : bool) (bv : val) (rt : ty) : cres := if needconv then conv bv rt else COk bv.

Lemma ty_eqb_dyn t : ty_eqb t TDyn = true -> t = TDyn.
Proof. destruct t; simpl; try discriminate; reflexivity. Qed.

Lemma is_dyn_null_type v : is_dyn_null v = true -> v = VNull TDyn.
Proof. destruct v; try discriminate. destruct t; try discriminate. reflexivity. Qed.

Lemma good_dyn_is_dyn_null v : good v = true -> ty_eqb (type_of v) TDyn = true -> is_dyn_null v = true.
Proof. intros G T. rewrite (good_dyn_null v G T). reflexivity. Qed.

(* both arms fine *)
Lemma cond_uni_clean tv fv :
  good tv = true -> good fv = true ->
  match cond_uni tv fv with
  | inl (Some (rt, tc, fc)) =>
      spec_unify (type_of tv) (type_of fv) = UOk rt /\
      pick_conv tc tv rt = conv tv rt /\ pick_conv fc fv rt = conv fv rt
  | inl None => False
  | inr false => spec_unify (type_of tv) (type_of fv) = UNone
  | inr true => True
  end.
Proof.
  intros Gt Gf. unfold cond_uni.
  pose proof (good_is_marked _ Gt) as Mt. pose proof (good_is_marked _ Gf) as Mf.
  destruct (is_dyn_null tv) eqn:DT.
  { rewrite (is_dyn_null_type _ DT). simpl. repeat split.
    unfold pick_conv. symmetry. apply conv_same; auto. apply ty_eqb_refl. }
  destruct (is_dyn_null fv) eqn:DF.
  { rewrite (is_dyn_null_type _ DF). simpl. repeat split.
    - destruct (type_of tv); reflexivity.
    - unfold pick_conv. symmetry. apply conv_same; auto. apply ty_eqb_refl. }
  destruct (ty_eqb (type_of tv) TDyn) eqn:TT.
  { rewrite (good_dyn_is_dyn_null _ Gt TT) in DT. discriminate. }
  destruct (ty_eqb (type_of fv) TDyn) eqn:TF.
  { rewrite (good_dyn_is_dyn_null _ Gf TF) in DF. discriminate. }
  cbn [orb]. rewrite (spec_unify_nodyn _ _ TT TF).
  destruct (unify (type_of tv) (type_of fv)) as [t| |]; auto.
  repeat split; unfold pick_conv.
  - destruct (ty_eqb (type_of tv) t) eqn:E; cbn [negb]; [symmetry; apply conv_same; auto|reflexivity].
  - destruct (ty_eqb (type_of fv) t) eqn:E; cbn [negb]; [symmetry; apply conv_same; auto|reflexivity].
Qed.

(* the other arm erroneous, its residual value dynamically typed and unmarked *)
Lemma cond_uni_left tv fv :
  good tv = true -> ty_eqb (type_of fv) TDyn = true -> is_marked fv = false ->
  exists rt tc fc, cond_uni tv fv = inl (Some (rt, tc, fc)) /\ pick_conv tc tv rt = COk tv.
Proof.
  intros Gt TF Mf. unfold cond_uni. pose proof (good_is_marked _ Gt) as Mt.
  destruct (is_dyn_null tv) eqn:DT.
  { do 3 eexists. split; [reflexivity|]. unfold pick_conv. rewrite (ty_eqb_dyn _ TF). apply conv_dyn; auto. }
  destruct (is_dyn_null fv) eqn:DF.
  { do 3 eexists. split; reflexivity. }
  rewrite TF, orb_true_r. do 3 eexists. split; reflexivity.
Qed.
Lemma cond_uni_right tv fv :
  good fv = true -> ty_eqb (type_of tv) TDyn = true -> is_marked tv = false ->
  exists rt tc fc, cond_uni tv fv = inl (Some (rt, tc, fc)) /\ pick_conv fc fv rt = COk fv.
Proof.
  intros Gf TT Mt. unfold cond_uni. pose proof (good_is_marked _ Gf) as Mf.
  destruct (is_dyn_null tv) eqn:DT.
  { do 3 eexists. split; reflexivity. }
  destruct (is_dyn_null fv) eqn:DF.
  { do 3 eexists. split; [reflexivity|]. unfold pick_conv. rewrite (ty_eqb_dyn _ TT). apply conv_dyn; auto. }
  rewrite TT. cbn [orb]. do 3 eexists. split; reflexivity.
Qed.

Lemma cond_uni_not_none tv fv : cond_uni tv fv <> inl None.
Proof.
  unfold cond_uni. destruct (is_dyn_null tv); [discriminate|]. destruct (is_dyn_null fv); [discriminate|].
  destruct (_ || _); [discriminate|]. destruct (unify _ _); discriminate.
Qed.

Lemma dyn_unmarked_deep_marks v : ty_eqb (type_of v) TDyn = true -> is_marked v = false -> deep_marks v = [].
Proof. intros T M. destruct v; simpl in T; try discriminate; try reflexivity. Qed.

Lemma unmark_unmarked v : is_marked v = false -> unmark v = (v, []).
Proof. destruct v; try reflexivity. discriminate. Qed.

Lemma refines1_bad v ds s :
  has_unsupported ds = true \/ (has_errors ds = true /\ s = SErr) -> refines1 (v, ds) s.
Proof.
  intros [H|[H ->]].
  - intro HU. simpl in HU. congruence.
  - apply refines1_errs. exact H.
Qed.

Ltac crush_head := repeat lazymatch goal with
  | |- refines1 (match ?x with _ => _ end) _ => destruct x
  end.

Lemma to_bool_null t : to_bool (VNull t) = None.
Proof.
  unfold to_bool. destruct (conv (VNull t) TBool) eqn:C; try reflexivity.
  destruct (conv_null_shape _ _ _ C) as [t' ->]. reflexivity.
Qed.

Lemma cond_refines f c anon p t e :
  IHf f -> known_unmarked_ctx c = true -> funcs_ok c -> anon_ok anon = true ->
  lits_ok (ECond p t e) = true -> (expr_size (ECond p t e) <= S f)%nat ->
  dev_free (S f) c anon (ECond p t e) = true ->
  refines1 (eval (S f) c anon (ECond p t e)) (spec_eval (env_of c anon) (ECond p t e)).
Proof.
  intros IH K FO A L SZ D. rewrite eval_ECond. cbn [spec_eval].
  cbn [lits_ok] in L. apply andb_true_iff in L as [L L3]. apply andb_true_iff in L as [L1 L2].
  cbn [dev_free] in D. apply andb_true_iff in D as [D D4]. apply andb_true_iff in D as [D D3].
  apply andb_true_iff in D as [D1 D2].
  cbn [expr_size] in SZ.
  assert (refines1 (eval f c anon p) (spec_eval (env_of c anon) p)) as Rp by (apply IH; auto; lia).
  assert (refines1 (eval f c anon t) (spec_eval (env_of c anon) t)) as Rt by (apply IH; auto; lia).
  assert (refines1 (eval f c anon e) (spec_eval (env_of c anon) e)) as Re by (apply IH; auto; lia).
  set (sp := spec_eval (env_of c anon) p) in *. set (st := spec_eval (env_of c anon) t) in *.
  set (se := spec_eval (env_of c anon) e) in *.
  destruct (eval f c anon t) as [tv tds] eqn:ET. destruct (eval f c anon e) as [fv fds] eqn:EE.
  destruct (has_unsupported tds || has_unsupported fds) eqn:HU0; [apply refines1_unsup|].
  apply orb_false_iff in HU0 as [HUt HUe].
  pose proof (refines1_use _ _ Rt HUt) as OT. pose proof (refines1_use _ _ Re HUe) as OE.
  cbn [fst snd] in OT, OE.
  (* what the side condition says about an erroneous unselected arm *)
  assert (forall pv, sp = SOk pv -> to_bool pv = Some true -> forall tv', st = SOk tv' -> se = SErr ->
          ty_eqb (type_of fv) TDyn = true /\ is_marked fv = false) as DT.
  { intros pv SP TB tv' ST SE. rewrite SP, TB in D4. cbv zeta iota in D4. fold st se in D4.
    rewrite ST, SE, EE in D4. cbn [fst] in D4.
    apply andb_true_iff in D4 as [X Y]. split; auto. destruct (is_marked fv); auto; discriminate. }
  assert (forall pv, sp = SOk pv -> to_bool pv = Some false -> forall fv', se = SOk fv' -> st = SErr ->
          ty_eqb (type_of tv) TDyn = true /\ is_marked tv = false) as DE.
  { intros pv SP TB fv' SE ST. rewrite SP, TB in D4. cbv zeta iota in D4. fold st se in D4.
    rewrite ST, SE, ET in D4. cbn [fst] in D4.
    apply andb_true_iff in D4 as [X Y]. split; auto. destruct (is_marked tv); auto; discriminate. }
  clear D4.
  match goal with |- refines1 (match ?U with _ => _ end) _ =>
    change U with (cond_uni tv fv); destruct (cond_uni tv fv) as [[[[rt tc] fc]|]|[|]] eqn:UNI end.
  3: apply refines1_unsup.
  2: exfalso; eapply cond_uni_not_none; eauto.
  2: { (* inconsistent types: the specification errs as well *)
    assert (spec_cond sp st se = SErr) as ->; [|apply refines1_err; discriminate].
    unfold spec_cond. destruct sp as [pv|] eqn:SP; [|reflexivity]. destruct (to_bool pv) as [b|] eqn:TB; [|reflexivity].
    destruct OT as [[ErT ST]|[ErT [ST GT]]]; destruct OE as [[ErE SE]|[ErE [SE GE]]]; rewrite ST, SE.
    - destruct b; reflexivity.
    - destruct b; [reflexivity|]. exfalso. destruct (DE pv eq_refl TB fv SE ST) as [X Y].
      destruct (cond_uni_right tv fv GE X Y) as [r1 [r2 [r3 [U _]]]]. congruence.
    - destruct b; [|reflexivity]. exfalso. destruct (DT pv eq_refl TB tv ST SE) as [X Y].
      destruct (cond_uni_left tv fv GT X Y) as [r1 [r2 [r3 [U _]]]]. congruence.
    - pose proof (cond_uni_clean tv fv GT GE) as CU. rewrite UNI in CU. rewrite CU. destruct b; reflexivity. }
  destruct (eval f c anon p) as [cv cds] eqn:EP.
  destruct (has_unsupported cds) eqn:HUp.
  { crush_head; apply refines1_bad; left; rewrite ?has_unsupported_app, HUp; reflexivity. }
  destruct (refines1_use _ _ Rp HUp) as [[ErP SP]|[ErP [SP GP]]]; cbn [fst snd] in *.
  { rewrite SP. cbn [spec_cond].
    crush_head; apply refines1_bad; right; rewrite ?has_errors_app, ErP; auto. }
  rewrite SP. unfold spec_cond.
  destruct (is_null cv) eqn:NC.
  { rewrite good_is_null in NC by auto. destruct cv; try discriminate NC. rewrite to_bool_null.
    apply refines1_errs. rewrite has_errors_app. simpl. apply orb_true_r. }
  rewrite (good_unmark cv GP). destruct (unmark tv) as [tu tm] eqn:UT. destruct (unmark fv) as [fu fm] eqn:UF.
  rewrite (good_is_known cv GP). cbn [negb].
  unfold to_bool. destruct (conv cv TBool) as [cb| ce |] eqn:CB.
  2: { apply refines1_errs. rewrite has_errors_app. simpl. apply orb_true_r. }
  2: { apply refines1_bad. left. rewrite has_unsupported_app. simpl. apply orb_true_r. }
  destruct cb; try (apply refines1_bad; left; rewrite has_unsupported_app; simpl; apply orb_true_r).
  assert (to_bool cv = Some b) as TB by (unfold to_bool; rewrite CB; reflexivity).
  destruct b.
  - (* the true arm is selected *)
    destruct OT as [[ErT ST]|[ErT [ST GT]]]; rewrite ST.
    { crush_head; apply refines1_bad; right; rewrite ?has_errors_app, ErT, ?orb_true_r; auto. }
    rewrite (good_unmark tv GT) in UT. inversion UT; subst tu tm.
    destruct OE as [[ErE SE]|[ErE [SE GE]]]; rewrite SE.
    + destruct (DT cv SP TB tv ST SE) as [X Y].
      destruct (cond_uni_left tv fv GT X Y) as [r1 [r2 [r3 [U PK]]]]. rewrite UNI in U. inversion U; subst r1 r2 r3.
      rewrite (unmark_unmarked fv Y) in UF. inversion UF; subst fu fm.
      rewrite (dyn_unmarked_deep_marks fv X Y).
      cbn [marks_unions fold_right marks_union].
      unfold pick_conv in PK. destruct tc; [rewrite PK|]; cbn [with_marks];
        apply refines1_intro; intro HU; right; rewrite has_errors_app, ErP, ErT; auto.
    + rewrite (good_unmark fv GE) in UF. inversion UF; subst fu fm.
      rewrite (proj2 (good_deep fv GE)).
      cbn [marks_unions fold_right marks_union].
      pose proof (cond_uni_clean tv fv GT GE) as CU. rewrite UNI in CU. destruct CU as [SU [PK _]].
      rewrite SU. unfold to_type. unfold pick_conv in PK. destruct tc.
      * destruct (conv tv rt) as [r| ce |] eqn:CT; cbn [with_marks]; apply refines1_intro; intro HU.
        -- right. rewrite has_errors_app, ErP, ErT. repeat split; auto. exact (conv_good _ _ _ GT CT).
        -- left. rewrite !has_errors_app. simpl. rewrite !orb_true_r. auto.
        -- exfalso. simpl in HU. rewrite !has_unsupported_app in HU. simpl in HU. rewrite ?orb_true_r in HU. discriminate.
      * rewrite <- PK. cbn [with_marks]. apply refines1_intro; intro HU; right.
        rewrite has_errors_app, ErP, ErT; auto.
  - (* the false arm is selected *)
    destruct OE as [[ErE SE]|[ErE [SE GE]]]; rewrite SE.
    { destruct st; crush_head; apply refines1_bad; right; rewrite ?has_errors_app, ErE, ?orb_true_r; auto. }
    rewrite (good_unmark fv GE) in UF. inversion UF; subst fu fm.
    destruct OT as [[ErT ST]|[ErT [ST GT]]]; rewrite ST.
    + destruct (DE cv SP TB fv SE ST) as [X Y].
      destruct (cond_uni_right tv fv GE X Y) as [r1 [r2 [r3 [U PK]]]]. rewrite UNI in U. inversion U; subst r1 r2 r3.
      rewrite (unmark_unmarked tv Y) in UT. inversion UT; subst tu tm.
      rewrite (dyn_unmarked_deep_marks tv X Y).
      cbn [marks_unions fold_right marks_union].
      unfold pick_conv in PK. destruct fc; [rewrite PK|]; cbn [with_marks];
        apply refines1_intro; intro HU; right; rewrite has_errors_app, ErP, ErE; auto.
    + rewrite (good_unmark tv GT) in UT. inversion UT; subst tu tm.
      rewrite (proj2 (good_deep tv GT)).
      cbn [marks_unions fold_right marks_union].
      pose proof (cond_uni_clean tv fv GT GE) as CU. rewrite UNI in CU. destruct CU as [SU [_ PK]].
      rewrite SU. unfold to_type. unfold pick_conv in PK. destruct fc.
      * destruct (conv fv rt) as [r| ce |] eqn:CT; cbn [with_marks]; apply refines1_intro; intro HU.
        -- right. rewrite has_errors_app, ErP, ErE. repeat split; auto. exact (conv_good _ _ _ GE CT).
        -- left. rewrite !has_errors_app. simpl. rewrite !orb_true_r. auto.
        -- exfalso. simpl in HU. rewrite !has_unsupported_app in HU. simpl in HU. rewrite ?orb_true_r in HU. discriminate.
      * rewrite <- PK. cbn [with_marks]. apply refines1_intro; intro HU; right.
        rewrite has_errors_app, ErP, ErE; auto.
Qed.

(* ---- sequences of sub-evaluations ------------------------------------------------------------ *)
Lemma map_refines {A} (g : A -> val * list diag) (sg : A -> sres) (l : list A) :
  Forall (fun x => refines1 (g x) (sg x)) l ->
  has_unsupported (concat (map snd (map g l))) = false ->
  (has_errors (concat (map snd (map g l))) = true /\ all_sok (map sg l) = None) \/
  (has_errors (concat (map snd (map g l))) = false /\
   all_sok (map sg l) = Some (map fst (map g l)) /\ goods (map fst (map g l)) = true).
Proof.
  induction 1 as [|x r Hx Hr IH]; intro HU; simpl in *.
  - right. auto.
  - rewrite has_unsupported_app in HU. apply orb_false_iff in HU as [HU1 HU2].
    rewrite has_errors_app.
    destruct (refines1_use _ _ Hx HU1) as [[E ->]|[E [-> G]]].
    + left. rewrite E. auto.
    + rewrite E. cbn [orb]. destruct (IH HU2) as [[E2 S2]|[E2 [S2 G2]]].
      * left. rewrite S2. auto.
      * right. rewrite S2. unfold goods in *. simpl. rewrite G, G2. auto.
Qed.

Lemma expr_size_in e es : In e es -> (expr_size e <= fold_right (fun a n => expr_size a + n) 0 es)%nat.
Proof.
  induction es as [|x r IH]; simpl; intros []; subst; [lia|]. specialize (IH H). lia.
Qed.

Lemma children_refine f c anon es :
  IHf f -> known_unmarked_ctx c = true -> funcs_ok c -> anon_ok anon = true ->
  forallb lits_ok es = true -> (fold_right (fun a n => expr_size a + n) 0 es <= f)%nat ->
  forallb (dev_free f c anon) es = true ->
  Forall (fun e => refines1 (eval f c anon e) (spec_eval (env_of c anon) e)) es.
Proof.
  intros IH K FO A L SZ D. apply Forall_forall. intros e Hin.
  rewrite forallb_forall in L, D. apply IH; auto.
  pose proof (expr_size_in e es Hin). lia.
Qed.

(* ---- tuple constructor ---------------------------------------------------------------------- *)
Lemma tuple_refines f c anon es :
  IHf f -> known_unmarked_ctx c = true -> funcs_ok c -> anon_ok anon = true ->
  lits_ok (ETuple es) = true -> (expr_size (ETuple es) <= S f)%nat ->
  dev_free (S f) c anon (ETuple es) = true ->
  refines1 (eval (S f) c anon (ETuple es)) (spec_eval (env_of c anon) (ETuple es)).
Proof.
  intros IH K FO A L SZ D. rewrite eval_ETuple. cbn [spec_eval].
  cbn [lits_ok] in L. cbn [dev_free] in D. cbn [expr_size] in SZ. apply le_S_inv in SZ.
  pose proof (children_refine f c anon es IH K FO A L SZ D) as CH.
  apply refines1_intro. intro HU.
  destruct (map_refines _ _ es CH HU) as [[E S]|[E [S G]]]; rewrite S; [left|right]; auto.
  repeat split; auto. rewrite good_VTuple. exact G.
Qed.

(* ---- object constructor keys ------------------------------------------------------------------ *)
Lemma key_identifier_literal_name e : key_identifier e = literal_name e.
Proof. destruct e; try reflexivity. Qed.

Lemma objkey_refines f c anon w force :
  IHf f -> known_unmarked_ctx c = true -> funcs_ok c -> anon_ok anon = true ->
  lits_ok (EObjKey w force) = true -> (expr_size (EObjKey w force) <= S f)%nat ->
  dev_free (S f) c anon (EObjKey w force) = true ->
  refines1 (eval (S f) c anon (EObjKey w force)) (spec_eval (env_of c anon) (EObjKey w force)).
Proof.
  intros IH K FO A L SZ D. rewrite eval_EObjKey. cbn [spec_eval].
  cbn [lits_ok] in L. cbn [dev_free] in D. cbn [expr_size] in SZ. apply le_S_inv in SZ.
  destruct force; cbn [negb].
  - apply IH; auto.
  - change (key_identifier w) with (literal_name w) in *.
    destruct (literal_name w) as [n|] eqn:LN.
    + destruct w; try (apply refines1_ok; reflexivity).
      match goal with |- refines1 (match ?s with _ => _ end) _ => destruct s; [apply refines1_ok; reflexivity|discriminate LN] end.
    + destruct w; try (apply IH; auto; fail).
      match goal with |- refines1 (match ?s with _ => _ end) _ => destruct s; [apply IH; auto|discriminate D] end.
Qed.

(* ---- object constructor ------------------------------------------------------------------------ *)
(* the loop body of ObjectConsExpr.Value, extracted from eval *)
Definition obj_step (f : nat) (c : ctx) (anon : option val) :
  list (list Z * val) * list marks * bool * list diag -> expr * expr ->
  list (list Z * val) * list marks * bool * list diag :=
  ltac:(let t := eval cbn [eval eval_with] in (fun items => eval (S f) c anon (EObj items)) in
        match t with context [fold_left ?F _ _] =>
          let F' := eval pattern (eval_with index) in F in
          match F' with ?G _ => let r := eval cbv beta in (G eval) in exact r end end).

Lemma eval_EObj' f c a items : eval (S f) c a (EObj items) =
  let '(vals, mks, known, ds) := fold_left (obj_step f c a) items ([], [], true, []) in
  if negb known then (with_marks dyn_val (marks_unions mks), ds)
  else (with_marks (VObj vals) (marks_unions mks), ds).
Proof. reflexivity. Qed.

Lemma str_eqb_eq a b : str_eqb a b = true <-> a = b.
Proof. apply zlist_eqb_eq. Qed.
Lemma str_eqb_sym a b : str_eqb a b = str_eqb b a.
Proof.
  destruct (str_eqb a b) eqn:E1; destruct (str_eqb b a) eqn:E2; auto.
  - apply str_eqb_eq in E1. subst. rewrite str_eqb_refl in E2. discriminate.
  - apply str_eqb_eq in E2. subst. rewrite str_eqb_refl in E1. discriminate.
Qed.
Lemma assoc_get_set_other {A} n s (v : A) l : str_eqb n s = false -> assoc_get n (assoc_set s v l) = assoc_get n l.
Proof.
  intro NS. induction l as [|[k' v'] r IH]; simpl.
  - rewrite NS. reflexivity.
  - destruct (str_eqb s k') eqn:E.
    + apply str_eqb_eq in E. subst k'. simpl. rewrite NS. reflexivity.
    + destruct (str_ltb s k'); simpl.
      * rewrite NS. reflexivity.
      * destruct (str_eqb n k'); auto.
Qed.

Definition st_diags (st : list (list Z * val) * list marks * bool * list diag) : list diag := snd st.

Lemma obj_step_prefix f c anon st it : exists x, st_diags (obj_step f c anon st it) = st_diags st ++ x.
Proof.
  destruct st as [[[vals mks] known] ds]. unfold obj_step, st_diags.
  destruct (eval f c anon (fst it)) as [k kds]. destruct (eval f c anon (snd it)) as [v vds].
  repeat match goal with
  | |- exists x, snd (if ?b then _ else _) = _ => destruct b
  | |- exists x, snd (let '(_, _) := ?b in _) = _ => destruct b
  | |- exists x, snd (match ?b with _ => _ end) = _ => destruct b
  end; cbn [snd]; eexists; rewrite <- ?app_assoc; reflexivity.
Qed.

Lemma obj_fold_prefix f c anon items : forall st, exists x,
  st_diags (fold_left (obj_step f c anon) items st) = st_diags st ++ x.
Proof.
  induction items as [|it r IH]; intro st; simpl.
  - exists []. rewrite app_nil_r. reflexivity.
  - destruct (IH (obj_step f c anon st it)) as [x E]. destruct (obj_step_prefix f c anon st it) as [y E2].
    rewrite E, E2. exists (y ++ x). rewrite app_assoc. reflexivity.
Qed.

Definition obj_final (st : list (list Z * val) * list marks * bool * list diag) : val * list diag :=
  let '(vals, mks, known, ds) := st in
  if negb known then (with_marks dyn_val (marks_unions mks), ds)
  else (with_marks (VObj vals) (marks_unions mks), ds).
Lemma obj_final_snd st : snd (obj_final st) = st_diags st.
Proof. destruct st as [[[vals mks] known] ds]. simpl. destruct known; reflexivity. Qed.

Definition obj_spec_rest (E : env) (items : list (expr * expr)) (acc : list (list Z * val)) : sres :=
  match all_sok (map (fun it => spec_eval E (fst it)) items),
        all_sok (map (fun it => spec_eval E (snd it)) items) with
  | Some ks, Some vs =>
      match all_some (map to_string ks) with
      | Some names => build_obj false (combine names vs) acc
      | None => SErr
      end
  | _, _ => SErr
  end.

Lemma obj_fold_bad f c anon items st s :
  has_unsupported (st_diags st) = true \/ (has_errors (st_diags st) = true /\ s = SErr) ->
  refines1 (obj_final (fold_left (obj_step f c anon) items st)) s.
Proof.
  intro H. destruct (obj_fold_prefix f c anon items st) as [x E].
  destruct (obj_final _) as [v ds] eqn:F.
  assert (ds = st_diags st ++ x) as -> by (rewrite <- E, <- obj_final_snd, F; reflexivity).
  apply refines1_bad. destruct H as [H|[H ->]]; [left|right].
  - rewrite has_unsupported_app, H. reflexivity.
  - rewrite has_errors_app, H. auto.
Qed.

Lemma conv_str_shape v r : good v = true -> is_null v = false -> conv v TStr = COk r -> exists s, r = VStr s.
Proof.
  intros G N C. pose proof (conv_good _ _ _ G C) as Gr.
  destruct (good_str_shape r Gr (conv_prim_type _ _ _ G C eq_refl)) as [H| ->]; auto.
  pose proof (conv_nonnull _ _ _ G N C) as X. discriminate X.
Qed.

Lemma obj_fold f c anon (E := env_of c anon) items :
  Forall (fun it => refines1 (eval f c anon (fst it)) (spec_eval E (fst it)) /\
                    refines1 (eval f c anon (snd it)) (spec_eval E (snd it))) items ->
  forall vals mks ds,
  has_errors ds = false -> Forall (fun m => m = []) mks -> goodkvs vals = true ->
  (forall ks names, all_sok (map (fun it => spec_eval E (fst it)) items) = Some ks ->
                    all_some (map to_string ks) = Some names ->
                    nodup_keys names = true /\ Forall (fun n => assoc_get n vals = None) names) ->
  refines1 (obj_final (fold_left (obj_step f c anon) items (vals, mks, true, ds)))
           (obj_spec_rest E items vals).
Proof.
  induction 1 as [|it rest [Rk Rv] Hrest IH]; intros vals mks ds ED MK GV ND.
  - simpl. rewrite (marks_unions_nils mks MK). cbn [with_marks].
    apply refines1_intro. intro HU. right. rewrite good_VObj. auto.
  - cbn [fold_left]. unfold obj_step at 2.
    destruct (eval f c anon (fst it)) as [k kds] eqn:EK. destruct (eval f c anon (snd it)) as [v vds] eqn:EV.
    assert (forall s, has_unsupported (ds ++ kds ++ vds) = true \/
                      (has_errors (ds ++ kds ++ vds) = true /\ s = SErr) ->
            refines1 (obj_final (fold_left (obj_step f c anon) rest
              (if has_errors kds
               then (vals, mks, false, ds ++ kds ++ vds)
               else
                if is_null k
                then (vals, mks, false, (ds ++ kds ++ vds) ++ [derr S_NullKey []])
                else
                 let '(ku, km) := unmark k in
                 match conv ku TStr with
                 | COk (VStr s0) => (assoc_set s0 v vals, mks ++ [km], true, ds ++ kds ++ vds)
                 | COk _ => (vals, mks ++ [km], false, ds ++ kds ++ vds)
                 | CErr ce => (vals, mks ++ [km], false, (ds ++ kds ++ vds) ++ [derr S_IncorrectKeyType [FConv ce]])
                 | CUnsupported => (vals, mks ++ [km], false, (ds ++ kds ++ vds) ++ [dunsupported])
                 end))) s) as BAD.
    { intros s H. set (D1 := ds ++ kds ++ vds) in *.
      repeat lazymatch goal with
      | |- refines1 (obj_final (fold_left _ _ (match ?x with _ => _ end))) _ => destruct x
      end; apply obj_fold_bad; unfold st_diags; cbn [snd];
      (destruct H as [H|[H ->]]; [left; rewrite ?has_unsupported_app, H; reflexivity
                                 |right; rewrite ?has_errors_app, H; auto]). }
    destruct (has_unsupported kds) eqn:HUk.
    { apply BAD. left. rewrite !has_unsupported_app, HUk, orb_true_r. reflexivity. }
    destruct (has_unsupported vds) eqn:HUv.
    { apply BAD. left. rewrite !has_unsupported_app, HUv, !orb_true_r. reflexivity. }
    unfold obj_spec_rest. cbn [map all_sok].
    destruct (refines1_use _ _ Rk HUk) as [[ErK SK]|[ErK [SK GK]]]; cbn [fst snd] in *; rewrite SK.
    { apply BAD. right. rewrite !has_errors_app, ErK, orb_true_r. auto. }
    destruct (refines1_use _ _ Rv HUv) as [[ErV SV]|[ErV [SV GV']]]; cbn [fst snd] in *; rewrite SV.
    { replace (match all_sok (map (fun it0 => spec_eval E (fst it0)) rest) with Some vs => Some (k :: vs) | None => None end) with
        (match all_sok (map (fun it0 => spec_eval E (fst it0)) rest) with Some vs => Some (k :: vs) | None => None end) by reflexivity.
      apply BAD. right. rewrite !has_errors_app, ErV, !orb_true_r. split; auto.
      destruct (all_sok (map (fun it0 => spec_eval E (fst it0)) rest)); reflexivity. }
    rewrite ErK.
    destruct (is_null k) eqn:NK.
    { (* null key *)
      assert (to_string k = None) as TS.
      { rewrite good_is_null in NK by auto. destruct k; try discriminate NK. unfold to_string.
        destruct (conv (VNull t) TStr) eqn:C; try reflexivity. destruct (conv_null_shape _ _ _ C) as [t' ->]. reflexivity. }
      match goal with |- refines1 _ ?s => assert (s = SErr) as -> end.
      { destruct (all_sok (map (fun it0 => spec_eval E (fst it0)) rest)); [|reflexivity].
        destruct (all_sok (map (fun it0 => spec_eval E (snd it0)) rest)); [|reflexivity].
        cbn [map all_some]. rewrite TS. reflexivity. }
      apply obj_fold_bad. right. unfold st_diags. cbn [snd]. rewrite has_errors_app. simpl. rewrite orb_true_r. auto. }
    rewrite (good_unmark k GK).
    destruct (conv k TStr) as [ks0| ce |] eqn:CK.
    3: { apply obj_fold_bad. left. unfold st_diags. cbn [snd]. rewrite has_unsupported_app. simpl. apply orb_true_r. }
    2: { match goal with |- refines1 _ ?s => assert (s = SErr) as -> end.
         { destruct (all_sok (map (fun it0 => spec_eval E (fst it0)) rest)); [|reflexivity].
           destruct (all_sok (map (fun it0 => spec_eval E (snd it0)) rest)); [|reflexivity].
           cbn [map all_some]. unfold to_string at 1. rewrite CK. reflexivity. }
         apply obj_fold_bad. right. unfold st_diags. cbn [snd]. rewrite has_errors_app. simpl. rewrite orb_true_r. auto. }
    destruct (conv_str_shape k ks0 GK NK CK) as [s ->].
    assert (to_string k = Some s) as TS by (unfold to_string; rewrite CK; reflexivity).
    (* the remaining items, with the new attribute recorded *)
    assert (refines1 (obj_final (fold_left (obj_step f c anon) rest (assoc_set s v vals, mks ++ [[]], true, ds ++ kds ++ vds)))
                     (obj_spec_rest E rest (assoc_set s v vals))) as NEXT.
    { apply IH.
      - rewrite !has_errors_app, ED, ErK, ErV. reflexivity.
      - apply Forall_app. split; auto.
      - apply goodkvs_set; auto.
      - intros ks' names' AK AN.
        destruct (ND (k :: ks') (s :: names')) as [N1 N2].
        { cbn [map all_sok]. rewrite SK, AK. reflexivity. }
        { cbn [map all_some]. rewrite TS, AN. reflexivity. }
        cbn [nodup_keys] in N1. apply andb_true_iff in N1 as [N1a N1b]. inversion N2 as [|? ? N2a N2b]; subst.
        split; auto. rewrite Forall_forall in *. intros n Hn.
        rewrite assoc_get_set_other; auto.
        destruct (str_eqb n s) eqn:X; auto. exfalso.
        apply negb_true_iff in N1a. rewrite <- not_true_iff_false in N1a. apply N1a.
        apply existsb_exists. exists n. split; auto. rewrite str_eqb_sym. exact X. }
    unfold obj_spec_rest in NEXT.
    destruct (all_sok (map (fun it0 => spec_eval E (fst it0)) rest)) as [ks'|] eqn:AK; [|exact NEXT].
    destruct (all_sok (map (fun it0 => spec_eval E (snd it0)) rest)) as [vs'|] eqn:AV; [|exact NEXT].
    cbn [map all_some]. rewrite TS.
    destruct (all_some (map to_string ks')) as [names'|] eqn:AN; [|exact NEXT].
    cbn [combine build_obj].
    destruct (ND (k :: ks') (s :: names')) as [N1 N2].
    { cbn [map all_sok]. rewrite SK, AK. reflexivity. }
    { cbn [map all_some]. rewrite TS, AN. reflexivity. }
    inversion N2 as [|? ? N2a N2b]; subst. rewrite N2a. exact NEXT.
Qed.

Lemma item_size_in (it : expr * expr) items : In it items ->
  (expr_size (fst it) + expr_size (snd it) <=
   fold_right (fun p n => expr_size (fst p) + expr_size (snd p) + n) 0 items)%nat.
Proof.
  induction items as [|x r IH]; simpl; intros []; subst; [lia|]. specialize (IH H). lia.
Qed.

Lemma objcons_refines f c anon items :
  IHf f -> known_unmarked_ctx c = true -> funcs_ok c -> anon_ok anon = true ->
  lits_ok (EObj items) = true -> (expr_size (EObj items) <= S f)%nat ->
  dev_free (S f) c anon (EObj items) = true ->
  refines1 (eval (S f) c anon (EObj items)) (spec_eval (env_of c anon) (EObj items)).
Proof.
  intros IH K FO A L SZ D. rewrite eval_EObj'.
  cbn [lits_ok] in L. cbn [dev_free] in D. apply andb_true_iff in D as [D1 D2].
  cbn [expr_size] in SZ. apply le_S_inv in SZ.
  change (spec_eval (env_of c anon) (EObj items)) with (obj_spec_rest (env_of c anon) items []).
  change (let '(vals, mks, known, ds) := fold_left (obj_step f c anon) items ([], [], true, []) in
          if negb known then (with_marks dyn_val (marks_unions mks), ds)
          else (with_marks (VObj vals) (marks_unions mks), ds))
    with (obj_final (fold_left (obj_step f c anon) items ([], [], true, []))).
  apply obj_fold; auto.
  - apply Forall_forall. intros it Hin. rewrite forallb_forall in L, D1.
    specialize (L it Hin). specialize (D1 it Hin).
    apply andb_true_iff in L as [La Lb]. apply andb_true_iff in D1 as [Da Db].
    pose proof (item_size_in it items Hin). split; apply IH; auto; lia.
  - intros ks names AK AN. rewrite AK, AN in D2. split; auto.
    apply Forall_forall. reflexivity.
Qed.
