(* Eval/EvalCheck.v — correspondence checker for the evaluator model.
   A case: context chain, expression (as dumped from the implementation's own
   parse), comparison mode, the value hcl returned and the summaries of its
   diagnostics (positive id = error, negative = warning), in order. *)
From Coq Require Import QArith String.
From HclV Require Import Base.Prelude Cty.Values Cty.Convert Cty.Ops Eval.Impl Eval.Funcs Eval.Vars.
Open Scope Z_scope.

(* mode 0: compare value and diagnostics exactly; 1: compare type and diagnostics only
   (numbers outside the exact domain); 2: skip (outside the model's universe) *)
Record ecase := mkCase { c_ctx : ctx; c_expr : expr; c_mode : Z; c_val : val; c_diags : list Z;
                          c_vars : list traversal (* hclsyntax.Variables(expr), in order *) }.

Definition step_eqb (a b : step) : bool :=
  match a, b with
  | SAttr x, SAttr y => str_eqb x y
  | SIndex x, SIndex y => val_eqb x y
  | _, _ => false
  end.
Definition trav_eqb (a b : traversal) : bool :=
  str_eqb (fst a) (fst b) && list_eqb step_eqb (snd a) (snd b).

Definition diag_ids (ds : list diag) : list Z :=
  map (fun d => if d_err d then d_sum d else - d_sum d) ds.

(* 0 = agree, 1 = disagree, 2 = skipped (unsupported by the model) *)
Definition eval_case_status (c : ecase) : Z :=
  if negb (list_eqb trav_eqb (variables (c_expr c)) (c_vars c)) then 1 else
  if c_mode c =? 2 then 2 else
  let '(v, ds) := value (c_ctx c) (c_expr c) in
  if has_unsupported ds then 2
  else if negb (zlist_eqb (diag_ids ds) (c_diags c)) then 1
  else if c_mode c =? 1 then (if ty_eqb (type_of v) (type_of (c_val c)) then 0 else 1)
  else if val_eqb v (c_val c) then 0 else 1.

Definition check_eval_case (c : ecase) : bool := negb (eval_case_status c =? 1).
Definition check_eval_cases (cs : list ecase) : list Z := failing check_eval_case cs.
Definition skipped_eval_cases (cs : list ecase) : list Z := failing (fun c => negb (eval_case_status c =? 2)) cs.
