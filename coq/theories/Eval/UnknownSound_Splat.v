(* Eval/UnknownSound_Splat.v — C05: soundness of SplatExpr.Value (ESplat): auto-upgrade of
   non-sequences (upgradedUnknown), result type computed from probes (resultTy), length
   refinement of the unknown list result. *)
From Coq Require Import QArith Qreduction.
From HclV Require Import Base.Prelude Cty.Values Cty.Convert Cty.Ops Eval.Impl Eval.Funcs
                         Eval.UnknownSound_Base Eval.UnknownSound_Known Eval.UnknownSound_Gamma
                         Eval.UnknownSound_Conv Eval.UnknownSound_Conv2 Eval.UnknownSound_Ops
                         Eval.UnknownSound_Num Eval.UnknownSound_Cond Eval.UnknownSound_Eq Eval.UnknownSound_Fn
                         Eval.UnknownSound_Frag Eval.UnknownSound_Inv Eval.UnknownSound_Core.
Open Scope Z_scope.
Local Strategy opaque [equals val_size unmark_deep deep_marks unify_n convert].
Notation ev_ := (eval_with index).

(* ---- the items of a sequence ------------------------------------------------------------------------------------ *)
Definition items (v : val) : list val :=
  match v with VList _ l | VSet _ l | VTuple l => l | _ => [] end.
Definition seq_shape (v : val) : bool :=
  match v with VList _ _ | VSet _ _ | VTuple _ => true | _ => false end.

Lemma map_snd_index_from : forall l z, map snd (index_from z l) = l.
Proof. induction l as [|x r IH]; intros z; simpl; [reflexivity|]. rewrite IH. reflexivity. Qed.

Lemma map_snd_elements v : seq_shape v = true -> map snd (elements v) = items v.
Proof.
  destruct v; try discriminate; intros _; simpl.
  - apply map_snd_index_from.
  - rewrite map_map. simpl. apply map_id.
  - apply map_snd_index_from.
Qed.

Lemma splat_rs_items (eve : val -> val * list diag) v : seq_shape v = true ->
  map (fun kv : val * val => eve (snd kv)) (elements v) = map eve (items v).
Proof. intros S. rewrite <- (map_snd_elements v S), map_map. reflexivity. Qed.

Lemma elements_nil_items v : seq_shape v = true -> (elements v = [] <-> items v = []).
Proof.
  intros S. rewrite <- (map_snd_elements v S). split; [intros ->; reflexivity|].
  destruct (elements v); [reflexivity|discriminate].
Qed.

Lemma items_inv v : inv v = true -> Forall (fun x => inv x = true) (items v).
Proof.
  intros I. destruct v; simpl; try constructor.
  - apply (Forall_inv_list _ _ I).
  - apply (Forall_inv_list t _ I).
  - apply (Forall_inv_tuple _ I).
Qed.

Lemma items_gsb vA vC : seq_shape vA = true -> gsb vA vC = true ->
  seq_shape vC = true /\ all2 gsb (items vA) (items vC) = true /\
  match vA, vC with
  | VList t _, VList t' _ | VSet t _, VSet t' _ => t = t'
  | VTuple _, VTuple _ => True
  | _, _ => False
  end.
Proof.
  intros S G. destruct vA; try discriminate S; simpl in G; destruct vC; try discriminate G; simpl.
  - apply andb_true_iff in G as [Gt G]. apply ty_eqb_eq in Gt. auto.
  - apply andb_true_iff in G as [Gt G]. apply ty_eqb_eq in Gt. auto.
  - auto.
Qed.

(* ---- both sources known: item by item -------------------------------------------------------------------------- *)
Definition item_facts2 (eveA eveC : val -> val * list diag) (xA xC : val) : Prop :=
  inv (fst (eveA xA)) = true /\ inv (fst (eveC xC)) = true /\
  gsb (fst (eveA xA)) (fst (eveC xC)) = true /\
  diag_ok (snd (eveA xA)) = true /\ diag_ok (snd (eveC xC)) = true.

Lemma items_no_errors (eve : val -> val * list diag) l :
  Forall (fun x => diag_ok (snd (eve x)) = true) l ->
  existsb (fun r : val * list diag => has_errors (snd r)) (map eve l) = false.
Proof.
  intros F. apply existsb_false_Forall. apply Forall_forall. intros r Hr.
  apply in_map_iff in Hr as [x [<- Hx]]. rewrite Forall_forall in F. destruct (diag_ok_elim _ (F x Hx)) as [He _]. exact He.
Qed.

Lemma facts2_vals eveA eveC lA lC : Forall2 (item_facts2 eveA eveC) lA lC ->
  all2 gsb (map fst (map eveA lA)) (map fst (map eveC lC)) = true /\
  Forall (fun x => diag_ok (snd (eveA x)) = true) lA /\ Forall (fun x => diag_ok (snd (eveC x)) = true) lC.
Proof.
  induction 1 as [|xA xC lA lC [_ [_ [G [D1 D2]]]] _ [IH1 [IH2 IH3]]]; simpl; [repeat split; constructor|].
  rewrite G, IH1. repeat split; [constructor; assumption|constructor; assumption].
Qed.

Lemma splat_known_gs evpA evpC eveA eveC svA svC dsA dsC :
  inv svA = true -> inv svC = true -> seq_shape svA = true -> gsb svA svC = true ->
  Forall2 (item_facts2 eveA eveC) (items svA) (items svC) ->
  (* a list result: not empty, element type (the type of the first item's result) without dynamic part *)
  (match svA with
   | VTuple _ => True
   | _ => match items svA with [] => False | x0 :: _ => has_dyn (type_of (fst (eveA x0))) = false end
   end) ->
  diag_ok (snd (splat_known evpA eveA (Some false) svA dsA)) = true ->
  diag_ok (snd (splat_known evpC eveC (Some false) svC dsC)) = true ->
  gsb (fst (splat_known evpA eveA (Some false) svA dsA)) (fst (splat_known evpC eveC (Some false) svC dsC)) = true.
Proof.
  intros IA IC SA G F L DA DC.
  destruct (items_gsb svA svC SA G) as [SC [Gi Tags]].
  destruct (facts2_vals eveA eveC _ _ F) as [Gv [FdA FdC]].
  unfold splat_known in DA, DC |- *.
  rewrite (splat_rs_items eveA svA SA) in DA |- *. rewrite (splat_rs_items eveC svC SC) in DC |- *.
  rewrite (items_no_errors eveA _ FdA) in DA |- *. rewrite (items_no_errors eveC _ FdC) in DC |- *.
  cbn [negb] in DA, DC |- *.
  destruct svA as [| | | | |tA lA|tA lA| |lA| |]; try discriminate SA;
    destruct svC as [| | | | |tC lC|tC lC| |lC| |]; try contradiction; cbn [type_of items] in *.
  - (* lists *)
    destruct lA as [|xA0 lA]; [contradiction|]. inversion F as [|? xC0 ? lC' [I0A [I0C [G0 _]]] F']; subst.
    cbn [map] in DA, DC, Gv |- *.
    destruct (forallb _ (map fst (map eveA lA))); [|kill DA]. destruct (forallb _ (map fst (map eveC lC'))); [|kill DC].
    cbn [fst gsb]. rewrite (gsb_type_eq _ _ G0 L), ty_eqb_refl. exact Gv.
  - (* sets *)
    destruct lA as [|xA0 lA]; [contradiction|]. inversion F as [|? xC0 ? lC' [I0A [I0C [G0 _]]] F']; subst.
    cbn [map] in DA, DC, Gv |- *.
    destruct (forallb _ (map fst (map eveA lA))); [|kill DA]. destruct (forallb _ (map fst (map eveC lC'))); [|kill DC].
    cbn [fst gsb]. rewrite (gsb_type_eq _ _ G0 L), ty_eqb_refl. exact Gv.
  - (* tuples *) cbn [fst gsb]. exact Gv.
Qed.

(* ---- unknown source (a sequence type), known concrete source ----------------------------------------------------- *)
Definition probe_facts (pA : val) (eveC : val -> val * list diag) (xC : val) : Prop :=
  inv (fst (eveC xC)) = true /\ gsb pA (fst (eveC xC)) = true /\ diag_ok (snd (eveC xC)) = true.

Lemma probe_vals pA eveC lC : has_dyn (type_of pA) = false -> Forall (probe_facts pA eveC) lC ->
  Forall (fun v => wholly_known v = true /\ inv v = true /\ type_of v = type_of pA) (map fst (map eveC lC)) /\
  Forall (fun x => diag_ok (snd (eveC x)) = true) lC.
Proof.
  intros Hd F. induction F as [|x l [I [G D]] _ [IH1 IH2]]; simpl; [split; constructor|].
  split; constructor; try assumption. repeat split; [apply (gsb_wk _ _ G)|exact I|apply (gsb_type_eq _ _ G Hd)].
Qed.

Lemma splat_unknown_list_gs evpA evpC eveC tA rA svC dsA dsC et :
  (tA = TList et \/ tA = TSet et) ->
  inv svC = true -> gsb (VUnk tA rA) svC = true -> null_shape svC = false ->
  inv (fst (evpA et)) = true -> has_dyn (type_of (fst (evpA et))) = false ->
  Forall (probe_facts (fst (evpA et)) eveC) (items svC) -> items svC <> [] ->
  diag_ok (snd (splat_known evpC eveC (Some false) svC dsC)) = true ->
  gsb (fst (splat_unknown evpA (VUnk tA rA) dsA)) (fst (splat_known evpC eveC (Some false) svC dsC)) = true.
Proof.
  intros HtA IC G NC IpA L1 PF Ne DC.
  simpl in G. unfold conc in G. apply andb_true_iff in G as [G Rr]. apply andb_true_iff in G as [WC Cf].
  pose proof (inv_not_marked _ IC) as MC.
  assert (SC : seq_shape svC = true /\ (rA = RWild \/ exists r, rA = RExact r /\ len_ok r (Z.of_nat (length (items svC))) = true)).
  { destruct HtA as [-> | ->].
    - destruct (conf_list_inv _ _ Cf) as [et' [TC _]]. destruct (wk_shape_list svC et' WC MC TC) as [->|[l ->]]; [discriminate NC|].
      split; [reflexivity|]. destruct rA as [|r]; [left; reflexivity|right; exists r; split; [reflexivity|exact Rr]].
    - destruct (type_of svC) eqn:TC; simpl in Cf; try discriminate Cf.
      destruct (wk_shape_set svC _ WC MC TC) as [->|[l ->]]; [discriminate NC|].
      split; [reflexivity|]. destruct rA as [|r]; [left; reflexivity|right; exists r; split; [reflexivity|exact Rr]]. }
  destruct SC as [SC HrA].
  destruct (probe_vals _ eveC _ L1 PF) as [Fv FdC].
  unfold splat_known in DC |- *. rewrite (splat_rs_items eveC svC SC) in DC |- *.
  rewrite (items_no_errors eveC _ FdC) in DC |- *. cbn [negb] in DC |- *.
  set (tp := type_of (fst (evpA et))) in *.
  (* the concrete result *)
  assert (RC : exists valsC, valsC = map fst (map eveC (items svC)) /\ valsC <> [] /\
               fst (match type_of svC with
                    | TList _ | TSet _ =>
                        match map fst (map eveC (items svC)) with
                        | [] => let '(rt, tds) := splat_rty evpC (type_of svC) in
                                (VList (match rt with TList t => t | _ => TDyn end) [], (dsC ++ concat (map snd (map eveC (items svC)))) ++ tds)
                        | v0 :: rest =>
                            if forallb (fun v => ty_eqb (type_of v) (type_of v0)) rest
                            then (VList (type_of v0) (map fst (map eveC (items svC))), dsC ++ concat (map snd (map eveC (items svC))))
                            else (dyn_val, (dsC ++ concat (map snd (map eveC (items svC)))) ++ [derr S_NestedSplat []])
                        end
                    | _ => (VTuple (map fst (map eveC (items svC))), dsC ++ concat (map snd (map eveC (items svC))))
                    end) = VList tp valsC).
  { exists (map fst (map eveC (items svC))). split; [reflexivity|]. split.
    - destruct (items svC); [contradiction Ne; reflexivity|discriminate].
    - destruct svC; try discriminate SC; cbn [type_of items] in *;
        try (destruct HtA as [-> | ->]; simpl in Cf; discriminate Cf).
      + destruct (map fst (map eveC l)) as [|v0 rest] eqn:Ev; [destruct l; [contradiction Ne; reflexivity|discriminate Ev]|].
        inversion Fv as [|? ? [_ [_ T0]] _]; subst.
        destruct (forallb (fun v => ty_eqb (type_of v) (type_of v0)) rest); [|kill DC]. cbn [fst]. rewrite T0. reflexivity.
      + destruct (map fst (map eveC l)) as [|v0 rest] eqn:Ev; [destruct l; [contradiction Ne; reflexivity|discriminate Ev]|].
        inversion Fv as [|? ? [_ [_ T0]] _]; subst.
        destruct (forallb (fun v => ty_eqb (type_of v) (type_of v0)) rest); [|kill DC]. cbn [fst]. rewrite T0. reflexivity. }
  destruct RC as [valsC [EvC [NvC ->]]]. rewrite <- EvC in Fv.
  assert (WcC : wholly_known (VList tp valsC) = true).
  { simpl. apply forallb_Forall. eapply Forall_impl; [|exact Fv]. intros v [W _]. exact W. }
  assert (IcC : inv (VList tp valsC) = true).
  { simpl. apply forallb_Forall. eapply Forall_impl; [|exact Fv]. intros v [_ [I T]]. rewrite T, ty_eqb_refl, I. reflexivity. }
  assert (LenC : length valsC = length (items svC)) by (rewrite EvC, !map_length; reflexivity).
  (* the abstract result *)
  unfold splat_unknown.
  assert (Ert : splat_rty evpA tA = (TList tp, snd (evpA et))).
  { unfold splat_rty, tp. destruct HtA as [-> | ->]; destruct (evpA et); reflexivity. }
  cbn [type_of]. rewrite Ert. cbn [fst].
  assert (Ematch : forall X Y : val, match tA with TList _ | TSet _ | TMap _ => X | _ => Y end = X)
    by (intros X Y; destruct HtA as [-> | ->]; reflexivity).
  rewrite Ematch.
  destruct HrA as [-> |[r [-> Lr]]].
  - simpl. unfold conc. rewrite WcC. simpl. rewrite conf_refl. reflexivity.
  - apply finish_len_gs; try assumption; try reflexivity.
    + discriminate.
    + intros _. simpl. rewrite LenC. exact Lr.
Qed.

Lemma splat_unknown_tuple_gs evpA evpC eveC ets rA svC dsA dsC :
  inv svC = true -> gsb (VUnk (TTuple ets) rA) svC = true -> null_shape svC = false ->
  Forall2 (fun et xC => probe_facts (fst (evpA et)) eveC xC) ets (items svC) ->
  diag_ok (snd (splat_known evpC eveC (Some false) svC dsC)) = true ->
  gsb (fst (splat_unknown evpA (VUnk (TTuple ets) rA) dsA)) (fst (splat_known evpC eveC (Some false) svC dsC)) = true.
Proof.
  intros IC G NC PF DC.
  simpl in G. unfold conc in G. apply andb_true_iff in G as [G _]. apply andb_true_iff in G as [WC Cf].
  destruct (conf_tuple_inv _ _ Cf) as [xs [TC _]].
  destruct (wk_shape_tuple svC xs WC (inv_not_marked _ IC) TC) as [->|[lc [-> _]]]; [discriminate NC|].
  cbn [items] in PF.
  assert (Fd : Forall (fun x => diag_ok (snd (eveC x)) = true) lc).
  { clear -PF. induction PF as [|et x ets lc [_ [_ D]] _ IH]; constructor; assumption. }
  unfold splat_known in DC |- *. rewrite (splat_rs_items eveC (VTuple lc) eq_refl) in DC |- *. cbn [items type_of] in DC |- *.
  rewrite (items_no_errors eveC _ Fd) in DC |- *. cbn [negb fst] in DC |- *.
  unfold splat_unknown. cbn [type_of splat_rty fst].
  assert (Eb : (if ty_eqb (TTuple (map (fun r : val * list diag => type_of (fst r)) (map evpA ets))) TDyn
                then VUnk (TTuple (map (fun r : val * list diag => type_of (fst r)) (map evpA ets))) rf_none
                else VUnk (TTuple (map (fun r : val * list diag => type_of (fst r)) (map evpA ets))) rf_notnull)
               = VUnk (TTuple (map (fun r : val * list diag => type_of (fst r)) (map evpA ets))) rf_notnull) by reflexivity.
  cbn [fst]. simpl. unfold conc. cbn [wholly_known type_of refn_ok andb]. rewrite andb_true_r.
  apply andb_true_iff. split.
  - apply forallb_Forall. clear -PF. induction PF as [|et x ets lc [_ [G _]] _ IH]; simpl; constructor; [apply (gsb_wk _ _ G)|exact IH].
  - simpl. clear -PF. induction PF as [|et x ets lc [_ [G _]] _ IH]; simpl; [reflexivity|].
    rewrite (gsb_type _ _ G). exact IH.
Qed.

(* ---- assembly ------------------------------------------------------------------------------------------------------ *)
Lemma conf_seq_ty h t : conf h t = true -> t <> TDyn -> seq_ty h = seq_ty t.
Proof. intros C N. destruct t; try contradiction; destruct h; simpl in C; try discriminate C; reflexivity. Qed.

Lemma forallb_elements_items (P : val -> bool) v : seq_shape v = true ->
  forallb (fun kv : val * val => P (snd kv)) (elements v) = forallb P (items v).
Proof.
  intros S. rewrite <- (map_snd_elements v S). induction (elements v) as [|kv r IH]; simpl; [reflexivity|]. rewrite IH. reflexivity.
Qed.

Lemma elements_head {A} (X : A) (F : val -> A) v : seq_shape v = true ->
  match elements v with [] => X | kv0 :: _ => F (snd kv0) end = match items v with [] => X | x0 :: _ => F x0 end.
Proof. destruct v; try discriminate; intros _; simpl; destruct l; reflexivity. Qed.

Lemma splat_sv_shape sv0 : inv sv0 = true -> null_shape sv0 = false -> is_known (splat_sv sv0) = true ->
  seq_shape (splat_sv sv0) = true.
Proof.
  intros I N K. unfold splat_sv in *. destruct (seq_ty (type_of sv0)) eqn:S; [|reflexivity].
  rewrite (inv_is_known _ I) in K. destruct sv0; try discriminate; try reflexivity; simpl in S; destruct t; discriminate.
Qed.

(* what [clean] says about the items of a known source *)
Definition items_clean (f : nat) (c : ctx) (each : expr) (sv : val) : Prop :=
  forallb (fun x => clean f c (Some x) each) (items sv) = true /\
  match sv with
  | VTuple _ => True
  | _ => match items sv with [] => False | x0 :: _ => has_dyn (type_of (fst (ev_ f c (Some x0) each))) = false end
  end.

Lemma clean_known_items f c each sv : seq_shape sv = true ->
  forallb (fun kv : val * val => clean f c (Some (snd kv)) each) (elements sv) &&
  match type_of sv with
  | TList _ | TSet _ =>
      match elements sv with
      | [] => false
      | kv0 :: _ => negb (has_dyn (type_of (fst (ev_ f c (Some (snd kv0)) each))))
      end
  | _ => true
  end = true -> items_clean f c each sv.
Proof.
  intros S H. apply andb_true_iff in H as [H1 H2]. rewrite (forallb_elements_items (fun x => clean f c (Some x) each) sv S) in H1.
  split; [exact H1|].
  destruct sv; try discriminate S; cbn [type_of] in H2; try exact I.
  - rewrite (elements_head false (fun x => negb (has_dyn (type_of (fst (ev_ f c (Some x) each))))) (VList t l) eq_refl) in H2.
    cbn [items] in *. destruct l; [discriminate|]. apply negb_true_iff in H2. exact H2.
  - rewrite (elements_head false (fun x => negb (has_dyn (type_of (fst (ev_ f c (Some x) each))))) (VSet t l) eq_refl) in H2.
    cbn [items] in *. destruct l; [discriminate|]. apply negb_true_iff in H2. exact H2.
Qed.

Lemma si_splat f src each : SI f -> forall cA cC anA anC,
  in_fragment (ESplat src each) -> ctx_rel cA cC -> anon_rel anA anC ->
  clean (S f) cA anA (ESplat src each) = true -> clean (S f) cC anC (ESplat src each) = true ->
  gsb (fst (ev_ (S f) cA anA (ESplat src each))) (fst (ev_ (S f) cC anC (ESplat src each))) = true.
Proof.
  intros IH cA cC anA anC Fr R Ra KA KC. destruct (frag_splat _ _ Fr) as [Fs Fe].
  apply clean_S in KA as [DA [KsA SubA]]. apply clean_S in KC as [DC [KsC SubC]].
  destruct (ev_ f cA anA src) as [sv0A dsA] eqn:EsA. destruct (ev_ f cC anC src) as [sv0C dsC] eqn:EsC.
  destruct (sub_facts f src cA cC anA anC _ _ _ _ IH Fs R Ra KsA KsC EsA EsC) as [IsA [IsC [Gs [DsA DsC]]]].
  rewrite (splat_eval_eq f cA anA src each sv0A dsA EsA IsA) in DA |- *.
  rewrite (splat_eval_eq f cC anC src each sv0C dsC EsC IsC) in DC |- *.
  cbn [fst] in SubA, SubC.
  set (evpA := fun et => ev_ f (empty_frame :: cA) (Some (VUnk et rf_none)) each) in *.
  set (eveA := fun x => ev_ f cA (Some x) each) in *.
  set (evpC := fun et => ev_ f (empty_frame :: cC) (Some (VUnk et rf_none)) each) in *.
  set (eveC := fun x => ev_ f cC (Some x) each) in *.
  pose proof (gsb_wk _ _ Gs) as WsC.
  (* facts about the evaluations of "each" *)
  assert (E1 : forall xA xC, inv xA = true -> inv xC = true -> gsb xA xC = true ->
            clean f cA (Some xA) each = true -> clean f cC (Some xC) each = true -> item_facts2 eveA eveC xA xC).
  { intros xA xC IxA IxC Gx K1 K2. unfold item_facts2, eveA, eveC.
    destruct (ev_ f cA (Some xA) each) as [vA dA] eqn:E1'. destruct (ev_ f cC (Some xC) each) as [vC dC] eqn:E2'.
    apply (sub_facts f each cA cC (Some xA) (Some xC) vA dA vC dC IH Fe R); try assumption. simpl. auto. }
  assert (E3 : forall xC, inv xC = true -> wholly_known xC = true ->
            clean f cC (Some xC) each = true -> item_facts2 eveC eveC xC xC).
  { intros xC IxC WxC K2. unfold item_facts2, eveC.
    destruct (ev_ f cC (Some xC) each) as [vC dC] eqn:E2'.
    apply (sub_facts f each cC cC (Some xC) (Some xC) vC dC vC dC IH Fe (ctx_rel_self _ _ R)); try assumption.
    simpl. repeat split; try assumption. apply gsb_refl_inv; assumption. }
  assert (E2 : forall et xC, inv xC = true -> wholly_known xC = true -> conf (type_of xC) et = true ->
            clean f (empty_frame :: cA) (Some (VUnk et rf_none)) each = true -> clean f cC (Some xC) each = true ->
            inv (fst (evpA et)) = true /\ probe_facts (fst (evpA et)) eveC xC).
  { intros et xC IxC WxC Cx K1 K2. unfold probe_facts, evpA, eveC.
    destruct (ev_ f (empty_frame :: cA) (Some (VUnk et rf_none)) each) as [vA dA] eqn:E1'.
    destruct (ev_ f cC (Some xC) each) as [vC dC] eqn:E2'.
    destruct (sub_facts f each (empty_frame :: cA) cC (Some (VUnk et rf_none)) (Some xC) vA dA vC dC IH Fe (CR_skipA _ _ R))
      as [I1 [I2 [G [_ D2]]]]; try assumption; [|auto].
    simpl. repeat split; try assumption. apply gsb_unk_none; assumption. }
  unfold splat_tail in DA, DC |- *.
  destruct (diag_ok_elim _ DsA) as [HeA _]. destruct (diag_ok_elim _ DsC) as [HeC _].
  rewrite HeA in DA |- *. rewrite HeC in DC |- *.
  rewrite (inv_is_null _ IsA) in SubA. rewrite (inv_is_null _ IsC) in SubC.
  (* 1. the abstract source is a known null *)
  destruct (null_shape sv0A) eqn:NA.
  { assert (EC0 : sv0C = sv0A) by (apply gsb_known_eq; [destruct sv0A; try discriminate NA; reflexivity|exact Gs]).
    subst sv0C. rewrite NA in DC |- *. destruct (negb (seq_ty (type_of sv0A))); [reflexivity|kill DA]. }
  (* the concrete result when the concrete source is not null and not dynamically typed *)
  assert (ConC : null_shape sv0C = false -> ty_eqb (type_of sv0C) TDyn = false ->
            is_known (splat_sv sv0C) = true /\ seq_shape (splat_sv sv0C) = true /\ splat_uu sv0C = Some false /\
            items_clean f cC each (splat_sv sv0C) /\
            wholly_known (fst (splat_known evpC eveC (Some false) (splat_sv sv0C) dsC)) = true).
  { intros NC TC. rewrite NC, TC in SubC, DC. cbn [orb] in SubC.
    pose proof (splat_sv_inv sv0C IsC) as IsvC.
    assert (WsvC : wholly_known (splat_sv sv0C) = true).
    { unfold splat_sv. destruct (seq_ty (type_of sv0C)); [exact WsC|]. simpl. rewrite WsC. reflexivity. }
    assert (KC0 : is_known (splat_sv sv0C) = true).
    { rewrite (inv_is_known _ IsvC). destruct (splat_sv sv0C); try reflexivity. discriminate WsvC. }
    assert (UC : splat_uu sv0C = Some false).
    { unfold splat_uu. rewrite (inv_is_known _ IsC). destruct sv0C; try discriminate WsC; try reflexivity;
        cbn [negb]; rewrite andb_false_r; reflexivity. }
    rewrite KC0 in SubC, DC. cbn [negb] in SubC, DC. rewrite UC in DC.
    pose proof (splat_sv_shape sv0C IsC NC KC0) as SC.
    pose proof (clean_known_items f cC each _ SC SubC) as IC2.
    repeat split; try assumption; try apply IC2.
    apply (gsb_wk (fst (splat_known evpC eveC (Some false) (splat_sv sv0C) dsC))).
    apply (splat_known_gs evpC evpC eveC eveC _ _ dsC dsC IsvC IsvC SC); try assumption.
    - apply gsb_refl_inv; assumption.
    - destruct IC2 as [Hc _]. rewrite forallb_Forall in Hc.
      pose proof (items_inv _ IsvC) as Fi.
      assert (Fw : Forall (fun x => wholly_known x = true) (items (splat_sv sv0C))).
      { destruct (splat_sv sv0C); try discriminate SC; simpl in WsvC |- *; apply forallb_Forall; exact WsvC. }
      clear -Hc Fi Fw E3. induction (items (splat_sv sv0C)) as [|x r IHr]; constructor.
      + inversion Hc; inversion Fi; inversion Fw; subst. apply E3; assumption.
      + inversion Hc; inversion Fi; inversion Fw; subst. apply IHr; assumption.
    - apply IC2. }
  (* 2. the concrete source is null (the abstract one is an unknown that may be null) *)
  destruct (null_shape sv0C) eqn:NC.
  { assert (UA : exists tA rA, sv0A = VUnk tA rA).
    { destruct sv0C; try discriminate NC. destruct sv0A; try discriminate IsA; try discriminate NA; simpl in Gs; try discriminate Gs.
      eexists; eexists; reflexivity. }
    destruct UA as [tA [rA ->]]. cbn [type_of] in DA, SubA |- *.
    destruct (ty_eqb tA TDyn) eqn:TA.
    { destruct (negb (seq_ty (type_of sv0C))); [reflexivity|kill DC]. }
    simpl in Gs. unfold conc in Gs. apply andb_true_iff in Gs as [Gs Rr]. apply andb_true_iff in Gs as [_ Cf].
    apply ty_eqb_neq in TA. rewrite (conf_seq_ty _ _ Cf TA) in DC |- *.
    unfold splat_sv in DA |- *. cbn [type_of] in DA |- *.
    destruct (seq_ty tA) eqn:SA; cbn [negb] in DC |- *; [kill DC|].
    cbn [is_known unmark fst negb] in DA |- *. unfold splat_uu in DA |- *. cbn [type_of is_known unmark fst] in DA |- *.
    rewrite SA in DA |- *. cbn [negb andb] in DA |- *.
    destruct rA as [|r]; [unfold splat_known in DA; kill DA|].
    destruct sv0C; try discriminate NC. simpl in Rr. apply negb_true_iff in Rr. rewrite Rr. reflexivity. }
  (* 3. both sources are not null *)
  destruct (ty_eqb (type_of sv0A) TDyn) eqn:TA.
  { (* dynamically typed abstract source *)
    destruct (ty_eqb (type_of sv0C) TDyn) eqn:TC.
    - exfalso. apply ty_eqb_eq in TC. apply (wk_type_not_dyn sv0C WsC (inv_not_marked _ IsC) NC TC).
    - destruct (ConC eq_refl eq_refl) as [KC0 [_ [UC [_ WrC]]]]. rewrite KC0, UC. cbn [negb fst].
      apply gsb_dyn_val. exact WrC. }
  pose proof (gsb_type _ _ Gs) as Cf. apply ty_eqb_neq in TA.
  assert (TC : ty_eqb (type_of sv0C) TDyn = false).
  { apply ty_eqb_neq. intros T. apply (wk_type_not_dyn sv0C WsC (inv_not_marked _ IsC) NC T). }
  destruct (ConC eq_refl TC) as [KC0 [SC [UC [[ClC LC] WrC]]]].
  rewrite TC in DC |- *. rewrite KC0, UC in DC |- *. cbn [negb] in DC |- *.
  cbn [orb] in SubA.
  pose proof (conf_seq_ty _ _ Cf TA) as Eseq.
  pose proof (splat_sv_inv sv0A IsA) as IsvA. pose proof (splat_sv_inv sv0C IsC) as IsvC.
  destruct (negb (is_known (splat_sv sv0A))) eqn:KA.
  - (* 3b. the abstract source is an unknown sequence *)
    assert (UA : seq_ty (type_of sv0A) = true /\ exists tA rA, sv0A = VUnk tA rA).
    { unfold splat_sv in KA. destruct (seq_ty (type_of sv0A)) eqn:SA; [|discriminate KA]. split; [reflexivity|].
      rewrite (inv_is_known _ IsA) in KA. destruct sv0A; try discriminate KA. eexists; eexists; reflexivity. }
    destruct UA as [SA [tA [rA ->]]]. cbn [type_of] in *.
    unfold splat_sv in SubA |- *. cbn [type_of] in SubA |- *. rewrite SA in SubA |- *. cbn [type_of] in SubA.
    assert (EsvC : splat_sv sv0C = sv0C) by (unfold splat_sv; rewrite Eseq, SA; reflexivity).
    rewrite EsvC in *.
    pose proof (items_inv _ IsC) as FiC.
    assert (FwC : Forall (fun x => wholly_known x = true) (items sv0C)).
    { destruct sv0C; try discriminate SC; simpl in WsC |- *; apply forallb_Forall; exact WsC. }
    rewrite forallb_Forall in ClC.
    destruct tA as [| | | |et|et| |ets|]; try discriminate SA.
    + (* list *)
      apply andb_true_iff in SubA as [KpA LpA]. apply negb_true_iff in LpA.
      destruct (conf_list_inv _ _ Cf) as [et' [TyC Cet]].
      assert (ShC : exists lc, sv0C = VList et' lc).
      { destruct (wk_shape_list sv0C et' WsC (inv_not_marked _ IsC) TyC) as [->|H]; [discriminate NC|exact H]. }
      destruct ShC as [lc ->]. cbn [items] in *.
      assert (PF : inv (fst (evpA et)) = true /\ Forall (probe_facts (fst (evpA et)) eveC) lc).
      { destruct lc as [|x0 lc]; [contradiction|]. split.
        - inversion ClC; inversion FiC; inversion FwC; subst.
          apply (E2 et x0); try assumption. rewrite (proj2 (inv_elem_list _ _ x0 IsC (or_introl eq_refl))). exact Cet.
        - apply Forall_forall. intros x Hx. rewrite Forall_forall in ClC, FiC, FwC.
          apply (E2 et x); auto. rewrite (proj2 (inv_elem_list _ _ x IsC Hx)). exact Cet. }
      destruct PF as [IpA PF].
      apply (splat_unknown_list_gs evpA evpC eveC (TList et) rA (VList et' lc) dsA dsC et); auto.
      cbn [items]. destruct lc; [contradiction|discriminate].
    + (* set *)
      apply andb_true_iff in SubA as [KpA LpA]. apply negb_true_iff in LpA.
      assert (ShC : exists et' lc, sv0C = VSet et' lc /\ conf et' et = true).
      { destruct (type_of sv0C) eqn:TyC; simpl in Cf; try discriminate Cf.
        destruct (wk_shape_set sv0C _ WsC (inv_not_marked _ IsC) TyC) as [->|[l ->]]; [discriminate NC|].
        eexists; eexists; split; [reflexivity|exact Cf]. }
      destruct ShC as [et' [lc [-> Cet]]]. cbn [items] in *.
      assert (PF : inv (fst (evpA et)) = true /\ Forall (probe_facts (fst (evpA et)) eveC) lc).
      { destruct lc as [|x0 lc]; [contradiction|]. split.
        - inversion ClC; inversion FiC; inversion FwC; subst.
          apply (E2 et x0); try assumption. rewrite (proj2 (inv_elem_list et' _ x0 IsC (or_introl eq_refl))). exact Cet.
        - apply Forall_forall. intros x Hx. rewrite Forall_forall in ClC, FiC, FwC.
          apply (E2 et x); auto. rewrite (proj2 (inv_elem_list et' _ x IsC Hx)). exact Cet. }
      destruct PF as [IpA PF].
      apply (splat_unknown_list_gs evpA evpC eveC (TSet et) rA (VSet et' lc) dsA dsC et); auto.
      cbn [items]. destruct lc; [contradiction|discriminate].
    + (* tuple *)
      destruct (conf_tuple_inv _ _ Cf) as [xs [TyC Cxs]].
      assert (ShC : exists lc, sv0C = VTuple lc /\ map type_of lc = xs).
      { destruct (wk_shape_tuple sv0C xs WsC (inv_not_marked _ IsC) TyC) as [->|H]; [discriminate NC|exact H]. }
      destruct ShC as [lc [-> Hxs]]. cbn [items] in *. subst xs.
      apply (splat_unknown_tuple_gs evpA evpC eveC ets rA (VTuple lc) dsA dsC); auto.
      cbn [items]. rewrite forallb_Forall in SubA.
      clear -SubA ClC FiC FwC Cxs E2. revert ets SubA Cxs.
      induction lc as [|x lc IHl]; intros [|et ets] SubA Cxs; simpl in Cxs; try discriminate; constructor.
      * apply andb_true_iff in Cxs as [C1 C2]. inversion SubA; inversion ClC; inversion FiC; inversion FwC; subst.
        apply (E2 et x); assumption.
      * apply andb_true_iff in Cxs as [C1 C2]. inversion SubA; inversion ClC; inversion FiC; inversion FwC; subst.
        apply IHl; assumption.
  - (* 3a / known source: item by item *)
    apply negb_false_iff in KA.
    pose proof (splat_sv_shape sv0A IsA NA KA) as SA.
    pose proof (clean_known_items f cA each _ SA SubA) as [ClA LA].
    assert (Gsv : gsb (splat_sv sv0A) (splat_sv sv0C) = true).
    { unfold splat_sv. rewrite Eseq. destruct (seq_ty (type_of sv0A)); [exact Gs|]. simpl. rewrite Gs. reflexivity. }
    destruct (items_gsb _ _ SA Gsv) as [_ [Gi _]].
    assert (F2 : Forall2 (item_facts2 eveA eveC) (items (splat_sv sv0A)) (items (splat_sv sv0C))).
    { pose proof (items_inv _ IsvA) as FiA. pose proof (items_inv _ IsvC) as FiC.
      rewrite forallb_Forall in ClA, ClC. apply all2_Forall2 in Gi.
      clear -Gi FiA FiC ClA ClC E1. induction Gi as [|xA xC lA lC G _ IHl]; constructor.
      - inversion FiA; inversion FiC; inversion ClA; inversion ClC; subst. apply E1; assumption.
      - inversion FiA; inversion FiC; inversion ClA; inversion ClC; subst. apply IHl; assumption. }
    (* upgradedUnknown *)
    destruct (splat_uu sv0A) as [[|]|] eqn:UA.
    + (* may be null: the abstract result is DynamicVal *)
      unfold splat_known at 1. cbn [fst]. apply gsb_dyn_val. exact WrC.
    + apply (splat_known_gs evpA evpC eveA eveC _ _ dsA dsC IsvA IsvC SA Gsv F2 LA DA DC).
    + unfold splat_known in DA. kill DA.
Qed.
