(* Eval/StaticCheck.v — correspondence checkers for the static-analysis model
   (Eval/Static.v): what hcl.AbsTraversalForExpr / RelTraversalForExpr /
   ExprAsKeyword / ExprList / ExprMap / ExprCall returned on the implementation's
   own parse of an expression, against as_traversal / … of the model, and what
   Traversal.TraverseAbs returned against traverse_abs.  Executed with vm_compute
   from generated case files (harness/cmd/c20). *)
From Coq Require Import QArith String.
From HclV Require Import Base.Prelude Cty.Values Cty.Convert Cty.Ops Eval.Impl Eval.Funcs Eval.Vars
  Eval.EvalCheck Eval.Static.
Open Scope Z_scope.
Open Scope list_scope.

(* ---- structural equality of expressions --------------------------------------------------- *)
Definition binop_tag (o : binop) : Z :=
  match o with
  | OpOr => 0 | OpAnd => 1 | OpEq => 2 | OpNe => 3 | OpGt => 4 | OpGe => 5 | OpLt => 6 | OpLe => 7
  | OpAdd => 8 | OpSub => 9 | OpMul => 10 | OpDiv => 11 | OpMod => 12
  end.
Definition unop_tag (o : unop) : Z := match o with OpNot => 0 | OpNeg => 1 end.

Fixpoint expr_eqb (a b : expr) {struct a} : bool :=
  match a, b with
  | ELit v, ELit w => val_eqb v w
  | EScopeTrav r s, EScopeTrav r' s' => str_eqb r r' && list_eqb step_eqb s s'
  | ERelTrav x s, ERelTrav y s' => expr_eqb x y && list_eqb step_eqb s s'
  | ECall n xs e, ECall n' ys e' =>
      str_eqb n n' && Bool.eqb e e' &&
      (fix go (xs ys : list expr) : bool :=
         match xs, ys with
         | [], [] => true
         | x :: xr, y :: yr => expr_eqb x y && go xr yr
         | _, _ => false
         end) xs ys
  | ECond c t f, ECond c' t' f' => expr_eqb c c' && expr_eqb t t' && expr_eqb f f'
  | EIndex c k, EIndex c' k' => expr_eqb c c' && expr_eqb k k'
  | ETuple xs, ETuple ys =>
      (fix go (xs ys : list expr) : bool :=
         match xs, ys with
         | [], [] => true
         | x :: xr, y :: yr => expr_eqb x y && go xr yr
         | _, _ => false
         end) xs ys
  | EObj xs, EObj ys =>
      (fix go (xs ys : list (expr * expr)) : bool :=
         match xs, ys with
         | [], [] => true
         | (k, v) :: xr, (k', v') :: yr => expr_eqb k k' && expr_eqb v v' && go xr yr
         | _, _ => false
         end) xs ys
  | EObjKey w f, EObjKey w' f' => expr_eqb w w' && Bool.eqb f f'
  | EFor kv vv c k v cd g, EFor kv' vv' c' k' v' cd' g' =>
      str_eqb kv kv' && str_eqb vv vv' && expr_eqb c c' &&
      match k, k' with Some p, Some q => expr_eqb p q | None, None => true | _, _ => false end &&
      expr_eqb v v' &&
      match cd, cd' with Some p, Some q => expr_eqb p q | None, None => true | _, _ => false end &&
      Bool.eqb g g'
  | ESplat s e, ESplat s' e' => expr_eqb s s' && expr_eqb e e'
  | EAnon, EAnon => true
  | EBin o l r, EBin o' l' r' => (binop_tag o =? binop_tag o') && expr_eqb l l' && expr_eqb r r'
  | EUn o x, EUn o' y => (unop_tag o =? unop_tag o') && expr_eqb x y
  | ETmpl xs, ETmpl ys =>
      (fix go (xs ys : list expr) : bool :=
         match xs, ys with
         | [], [] => true
         | x :: xr, y :: yr => expr_eqb x y && go xr yr
         | _, _ => false
         end) xs ys
  | EJoin x, EJoin y => expr_eqb x y
  | EWrap x, EWrap y => expr_eqb x y
  | EParen x, EParen y => expr_eqb x y
  | _, _ => false
  end.

Definition pair_expr_eqb (p q : expr * expr) : bool := expr_eqb (fst p) (fst q) && expr_eqb (snd p) (snd q).

(* ---- traversal cases ------------------------------------------------------------------------ *)

(* expression; AbsTraversalForExpr (None = error diagnostic); ExprAsKeyword; the scope and
   what TraverseAbs returned on it (mode 0: compare exactly, 1: type and diagnostics only,
   2: do not compare the traversal's value) *)
Record tcase := mkTC {
  tc_expr : expr;
  tc_trav : option traversal;
  tc_kw : list Z;
  tc_ctx : ctx;
  tc_mode : Z;
  tc_val : val;
  tc_diags : list Z
}.

Definition opt_trav_eqb (a b : option traversal) : bool :=
  match a, b with Some x, Some y => trav_eqb x y | None, None => true | _, _ => false end.

Definition steps_eqb (a b : list step) : bool := list_eqb step_eqb a b.

Definition check_trav_case (c : tcase) : bool :=
  opt_trav_eqb (abs_traversal_for_expr (tc_expr c)) (tc_trav c)
  && opt_trav_eqb (as_traversal (tc_expr c)) (tc_trav c)
  && str_eqb (expr_as_keyword (tc_expr c)) (tc_kw c)
  (* RelTraversalForExpr is checked by the harness to be the same steps with the root as an
     attribute; the model must say the same *)
  && match rel_traversal_for_expr (tc_expr c), tc_trav c with
     | Some rs, Some (root, steps) => steps_eqb rs (SAttr root :: steps)
     | None, None => true
     | _, _ => false
     end
  && match tc_trav c with
     | None => true
     | Some (root, steps) =>
         if tc_mode c =? 2 then true else
         let '(v, ds) := traverse_abs (tc_ctx c) root steps in
         if has_unsupported ds then true
         else zlist_eqb (diag_ids ds) (tc_diags c)
              && (if tc_mode c =? 1 then ty_eqb (type_of v) (type_of (tc_val c)) else val_eqb v (tc_val c))
     end.

Definition check_trav_cases (cs : list tcase) : list Z := failing check_trav_case cs.

(* ---- list / map / call cases ------------------------------------------------------------------ *)

Record pcase := mkPC {
  pc_expr : expr;
  pc_list : option (list expr);
  pc_map : option (list (expr * expr));
  pc_call : option (list Z * list expr)
}.

Definition check_parts_case (c : pcase) : bool :=
  match expr_list (pc_expr c), pc_list c with
  | Some a, Some b => list_eqb expr_eqb a b
  | None, None => true
  | _, _ => false
  end
  && match expr_map (pc_expr c), pc_map c with
     | Some a, Some b => list_eqb pair_expr_eqb a b
     | None, None => true
     | _, _ => false
     end
  && match expr_call (pc_expr c), pc_call c with
     | Some (n, a), Some (n', b) => str_eqb n n' && list_eqb expr_eqb a b
     | None, None => true
     | _, _ => false
     end.

Definition check_parts_cases (cs : list pcase) : list Z := failing check_parts_case cs.
