(* Eval/UnknownSound_Inv.v — C05: the side invariant [inv] is preserved by evaluation, construct by construct (all paths). *)
From Coq Require Import QArith Qreduction.
From HclV Require Import Base.Prelude Cty.Values Cty.Convert Cty.Ops Eval.Impl Eval.Funcs
                         Eval.UnknownSound_Base Eval.UnknownSound_Known Eval.UnknownSound_Gamma
                         Eval.UnknownSound_Conv Eval.UnknownSound_Conv2 Eval.UnknownSound_Ops
                         Eval.UnknownSound_Num Eval.UnknownSound_Cond Eval.UnknownSound_Eq Eval.UnknownSound_Fn
                         Eval.UnknownSound_Frag.
Open Scope Z_scope.
Local Strategy opaque [equals val_size unmark_deep deep_marks unify_n convert].
Notation ev_ := (eval_with index).

Lemma iv_un f op e' : IV f -> forall c anon, in_fragment (EUn op e') -> ctx_inv c -> anon_inv anon ->
  inv (fst (ev_ (S f) c anon (EUn op e'))) = true.
Proof.
  intros IH c anon Fr C A. pose proof (frag_un _ _ Fr) as H0. cbn [eval_with].
  pose proof (IH c anon e' H0 C A) as Ie. destruct (ev_ f c anon e') as [gv ds]. simpl in Ie.
  destruct (conv gv (unop_param op)) as [v| |] eqn:Ec; try reflexivity.
  destruct (has_errors ds); [reflexivity|].
  pose proof (conv_inv_pres _ _ _ Ie Ec) as Iv. rewrite (inv_unmark v Iv).
  destruct (call_unop op v) as [r| |] eqn:Eo; try reflexivity.
  simpl. apply (call_unop_inv op v r Iv Eo).
Qed.

Lemma iv_bin f op l r : IV f -> forall c anon, in_fragment (EBin op l r) -> ctx_inv c -> anon_inv anon ->
  inv (fst (ev_ (S f) c anon (EBin op l r))) = true.
Proof.
  intros IH c anon Fr C A. destruct (frag_bin _ _ _ Fr) as [Fl Frr]. cbn [eval_with].
  pose proof (IH c anon l Fl C A) as Il. destruct (ev_ f c anon l) as [glv lds]. simpl in Il.
  pose proof (IH c anon r Frr C A) as Ir. destruct (ev_ f c anon r) as [grv rds]. simpl in Ir.
  destruct (has_unsupported lds || has_unsupported rds); [reflexivity|].
  destruct (conv glv (binop_param op)) as [lv| |] eqn:Ecl; try reflexivity;
    try (destruct (conv grv (binop_param op)); reflexivity).
  destruct (conv grv (binop_param op)) as [rv| |] eqn:Ecr; try reflexivity.
  pose proof (conv_inv_pres _ _ _ Il Ecl) as Ilv. pose proof (conv_inv_pres _ _ _ Ir Ecr) as Irv.
  rewrite (inv_unmark lv Ilv), (inv_unmark rv Irv). rewrite marks_union_nil_nil.
  repeat destruct_goal_inv; try reflexivity.
  all: cbn [fst with_marks];
       match goal with
       | H : call_binop ?o ?x ?y = OOk ?res, I1 : inv ?x = true, I2 : inv ?y = true |- _ =>
           apply (call_binop_inv_all o x y res I1 I2 H)
       end.
Qed.

Lemma marks_union_nil_r_nil : forall m, marks_union [] m = m. Proof. reflexivity. Qed.

Lemma iv_cond f ce te fe : IV f -> forall c anon, in_fragment (ECond ce te fe) -> ctx_inv c -> anon_inv anon ->
  inv (fst (ev_ (S f) c anon (ECond ce te fe))) = true.
Proof.
  intros IH c anon Fr C A. destruct (frag_cond _ _ _ Fr) as [Fc [Ft Ff]]. cbn [eval_with].
  pose proof (IH c anon te Ft C A) as It. destruct (ev_ f c anon te) as [tv tds]. simpl in It.
  pose proof (IH c anon fe Ff C A) as If. destruct (ev_ f c anon fe) as [fv fds]. simpl in If.
  destruct (has_unsupported tds || has_unsupported fds); [reflexivity|].
  match goal with
  | |- inv (fst (match ?u with _ => _ end)) = true => destruct u as [[[[rt tconv] fconv]|]|[|]]
  end; try reflexivity.
  pose proof (IH c anon ce Fc C A) as Ic. destruct (ev_ f c anon ce) as [cv cds]. simpl in Ic.
  destruct (is_null cv); [reflexivity|].
  rewrite (inv_unmark cv Ic), (inv_unmark tv It), (inv_unmark fv If).
  rewrite (inv_deep_marks tv It), (inv_deep_marks fv If).
  change (marks_unions [[]; []; []]) with (@nil Z). rewrite marks_union_nil_nil.
  destruct (negb (is_known cv)).
  - match goal with
    | |- inv (fst ?X) = true => change X with (cond_unk rt cds [] tv fv)
    end. apply (cond_unk_inv rt cds tv fv It If).
  - destruct (conv cv TBool) as [cb| |]; try reflexivity.
    destruct cb as [| |[|]| | | | | | | |]; try reflexivity.
    + destruct tconv; [|exact It]. destruct (conv tv rt) as [r| |] eqn:Er; try reflexivity.
      cbn [fst with_marks]. apply (conv_inv_pres _ _ _ It Er).
    + destruct fconv; [|exact If]. destruct (conv fv rt) as [r| |] eqn:Er; try reflexivity.
      cbn [fst with_marks]. apply (conv_inv_pres _ _ _ If Er).
Qed.

Lemma iv_tuple f es : IV f -> forall c anon, in_fragment (ETuple es) -> ctx_inv c -> anon_inv anon ->
  inv (fst (ev_ (S f) c anon (ETuple es))) = true.
Proof.
  intros IH c anon Fr C A. pose proof (frag_tuple _ Fr) as Fes. cbn [eval_with]. cbn [fst inv].
  apply forallb_Forall. apply Forall_forall. intros x Hx.
  apply in_map_iff in Hx as [[v d] [<- Hin]]. apply in_map_iff in Hin as [e [Ee Hin]].
  rewrite Forall_forall in Fes. pose proof (IH c anon e (Fes e Hin) C A) as Ie. rewrite Ee in Ie. exact Ie.
Qed.

Lemma iv_index f a b : IV f -> forall c anon, in_fragment (EIndex a b) -> ctx_inv c -> anon_inv anon ->
  inv (fst (ev_ (S f) c anon (EIndex a b))) = true.
Proof.
  intros IH c anon Fr C A. destruct (frag_index _ _ Fr) as [Fa Fb]. cbn [eval_with].
  pose proof (IH c anon a Fa C A) as Ia. destruct (ev_ f c anon a) as [cv cds]. simpl in Ia.
  pose proof (IH c anon b Fb C A) as Ib. destruct (ev_ f c anon b) as [kv kds]. simpl in Ib.
  pose proof (index_inv cv kv Ia Ib) as Ii. destruct (index cv kv) as [r ids]. exact Ii.
Qed.

Lemma iv_reltrav f src steps : IV f -> forall c anon, in_fragment (ERelTrav src steps) -> ctx_inv c -> anon_inv anon ->
  inv (fst (ev_ (S f) c anon (ERelTrav src steps))) = true.
Proof.
  intros IH c anon Fr C A. destruct (frag_rel _ _ Fr) as [Fs Fst]. cbn [eval_with].
  pose proof (IH c anon src Fs C A) as Is. destruct (ev_ f c anon src) as [v ds]. simpl in Is.
  pose proof (traverse_rel_inv steps v [] Fst Is) as It. destruct (traverse_rel steps v []) as [r ds']. exact It.
Qed.

Lemma iv_scope root steps : forall c, forallb step_inv steps = true -> ctx_inv c ->
  inv (fst (traverse_abs c root steps)) = true.
Proof.
  intros c Fst C. unfold traverse_abs.
  destruct (lookup_var c root false) as [[v|] [|]] eqn:El; try reflexivity.
  - apply (traverse_rel_inv steps v [] Fst (lookup_var_inv _ _ _ _ _ C El)).
  - apply (traverse_rel_inv steps v [] Fst (lookup_var_inv _ _ _ _ _ C El)).
Qed.

Lemma iv_objkey f w force : IV f -> forall c anon, in_fragment (EObjKey w force) -> ctx_inv c -> anon_inv anon ->
  inv (fst (ev_ (S f) c anon (EObjKey w force))) = true.
Proof.
  intros IH c anon Fr C A. pose proof (frag_objkey _ _ Fr) as Fw. cbn [eval_with].
  destruct force; cbn [negb]; [apply (IH c anon w Fw C A)|].
  destruct w; try (destruct (literal_name _); [reflexivity|apply (IH c anon _ Fw C A)]).
  destruct steps; [reflexivity|reflexivity].
Qed.

(* templates *)
Definition tmpl_mk_nil (st : list Z * bool * marks * list diag) : Prop := let '(_, _, mk, _) := st in mk = [].

Lemma iv_tmpl f parts : IV f -> forall c anon, in_fragment (ETmpl parts) -> ctx_inv c -> anon_inv anon ->
  inv (fst (ev_ (S f) c anon (ETmpl parts))) = true.
Proof.
  intros IH c anon Fr C A. pose proof (frag_tmpl _ Fr) as Fp. cbn [eval_with].
  match goal with
  | |- context [fold_left ?stp parts ?init] => set (stepf := stp) in *; set (st0 := init) in *
  end.
  assert (Hfold : forall ps st, Forall in_fragment ps -> tmpl_mk_nil st -> tmpl_mk_nil (fold_left stepf ps st)).
  { induction ps as [|p ps IHp]; intros st Fps Hst; simpl; [exact Hst|].
    inversion Fps as [|? ? Fp1 Fps']; subst. apply IHp; [exact Fps'|].
    destruct st as [[[buf known] mk] ds]. simpl in Hst. subst mk. unfold stepf.
    pose proof (IH c anon p Fp1 C A) as Ip. destruct (ev_ f c anon p) as [pv pds]. simpl in Ip.
    destruct (is_null pv); [reflexivity|]. rewrite (inv_unmark pv Ip). rewrite marks_union_nil_nil.
    destruct (negb (is_known pv)); [reflexivity|].
    destruct (conv pv TStr) as [ks| |]; try reflexivity.
    destruct ks; try reflexivity. destruct (known && negb (has_errors (ds ++ pds))); reflexivity. }
  pose proof (Hfold parts st0 Fp eq_refl) as Hm.
  destruct (fold_left stepf parts st0) as [[[buf known] mk] ds]. simpl in Hm. subst mk.
  destruct (negb known); [|reflexivity].
  destruct (negb (has_errors ds) && negb (str_eqb buf [])); reflexivity.
Qed.

(* object constructor *)
Definition obj_inv_st (st : list (list Z * val) * list marks * bool * list diag) : Prop :=
  let '(vals, mks, _, _) := st in
  Forall (fun p => inv (snd p) = true) vals /\ Forall (fun m => m = []) mks.

Lemma assoc_set_inv k v (l : list (list Z * val)) :
  inv v = true -> Forall (fun p => inv (snd p) = true) l -> Forall (fun p => inv (snd p) = true) (assoc_set k v l).
Proof.
  intros Iv. induction l as [|[k' v'] r IHl]; intros F; simpl.
  - constructor; [exact Iv|constructor].
  - inversion F; subst. destruct (str_eqb k k'); [constructor; assumption|].
    destruct (str_ltb k k'); [constructor; [exact Iv|exact F]|]. constructor; auto.
Qed.

Lemma marks_unions_nil l : Forall (fun m => m = []) l -> marks_unions l = [].
Proof. induction 1 as [|m r Hm _ IHr]; [reflexivity|]. simpl. rewrite Hm, IHr. reflexivity. Qed.

Lemma iv_obj f items : IV f -> forall c anon, in_fragment (EObj items) -> ctx_inv c -> anon_inv anon ->
  inv (fst (ev_ (S f) c anon (EObj items))) = true.
Proof.
  intros IH c anon Fr C A. pose proof (frag_obj _ Fr) as Fi. cbn [eval_with].
  match goal with
  | |- context [fold_left ?stp items ?init] => set (stepf := stp) in *; set (st0 := init) in *
  end.
  assert (Hfold : forall its st, Forall (fun it => in_fragment (fst it) /\ in_fragment (snd it)) its ->
                    obj_inv_st st -> obj_inv_st (fold_left stepf its st)).
  { induction its as [|it its IHi]; intros st Fits Hst; simpl; [exact Hst|].
    inversion Fits as [|? ? [Fk Fv] Fits']; subst. apply IHi; [exact Fits'|].
    destruct st as [[[vals mks] known] ds]. destruct Hst as [Hv Hm]. unfold stepf.
    pose proof (IH c anon (fst it) Fk C A) as Ik. destruct (ev_ f c anon (fst it)) as [k kds]. simpl in Ik.
    pose proof (IH c anon (snd it) Fv C A) as Iv. destruct (ev_ f c anon (snd it)) as [v vds]. simpl in Iv.
    destruct (has_errors kds); [split; assumption|].
    destruct (is_null k); [split; assumption|].
    rewrite (inv_unmark k Ik).
    assert (Hm' : Forall (fun m : marks => m = []) (mks ++ [[]])).
    { apply Forall_app. split; [exact Hm|constructor; [reflexivity|constructor]]. }
    destruct (conv k TStr) as [ks| |]; try (split; assumption).
    destruct ks; try (split; assumption). split; [apply assoc_set_inv; assumption|exact Hm']. }
  assert (H0 : obj_inv_st st0) by (split; constructor).
  pose proof (Hfold items st0 Fi H0) as Hf.
  destruct (fold_left stepf items st0) as [[[vals mks] known] ds]. destruct Hf as [Hv Hm].
  rewrite (marks_unions_nil _ Hm). destruct (negb known); [reflexivity|].
  cbn [fst with_marks inv]. apply forallb_Forall. exact Hv.
Qed.


(* ---- function calls -------------------------------------------------------------------------------------------- *)
(* the per-argument step of FunctionCallExpr.Value (copy of Impl.v, ECall; checked by conversion) *)
Definition call_step (fnv : fn) (ev : expr -> val * list diag) (st : list val * list diag) (ia : nat * expr)
  : list val * list diag :=
  let '(vals, ds) := st in
  let '(v, ads) := ev (snd ia) in
  let ds := ds ++ ads in
  match param_for fnv (fst ia) with
  | None => (vals ++ [v], ds ++ [dunsupported])
  | Some p =>
      match conv v (p_ty p) with
      | COk v' => (vals ++ [v'], ds)
      | CErr ce => (vals ++ [v], ds ++ [derr S_InvalidFuncArg [FStr (p_name p) []; FConv ce]])
      | CUnsupported => (vals ++ [v], ds ++ [dunsupported])
      end
  end.

Lemma call_fold_inv fnv ev : forall items st,
  (forall ia, In ia items -> inv (fst (ev (snd ia))) = true) ->
  Forall (fun v => inv v = true) (fst st) ->
  Forall (fun v => inv v = true) (fst (fold_left (call_step fnv ev) items st)).
Proof.
  induction items as [|ia items IH]; intros st Hi Hs; simpl; [exact Hs|].
  apply IH; [intros x Hx; apply Hi; right; exact Hx|].
  destruct st as [vals ds]. unfold call_step. pose proof (Hi ia (or_introl eq_refl)) as Iv.
  destruct (ev (snd ia)) as [v ads]. simpl in Iv, Hs.
  assert (Hv : Forall (fun v0 => inv v0 = true) (vals ++ [v])) by (apply Forall_app; split; [exact Hs|repeat constructor; exact Iv]).
  destruct (param_for fnv (fst ia)) as [p|]; [|exact Hv].
  destruct (conv v (p_ty p)) as [v'| |] eqn:Ec; try exact Hv.
  simpl. apply Forall_app. split; [exact Hs|]. repeat constructor. apply (conv_inv_pres _ _ _ Iv Ec).
Qed.

Lemma index_from_inv : forall l z kv, Forall (fun x => inv x = true) l -> In kv (index_from z l) ->
  inv (fst kv) = true /\ inv (snd kv) = true.
Proof.
  induction l as [|x r IH]; intros z kv F Hin; simpl in Hin; [contradiction|].
  inversion F; subst. destruct Hin as [<-|Hin]; [split; [apply canon_nz|assumption]|apply (IH _ _ H2 Hin)].
Qed.

Lemma elements_inv cu kv : inv cu = true -> In kv (elements cu) -> inv (fst kv) = true /\ inv (snd kv) = true.
Proof.
  intros I Hin. destruct cu; simpl in Hin; try contradiction.
  - apply (index_from_inv l 0 kv); [|exact Hin]. apply Forall_forall. intros x Hx. apply (inv_elem_list _ _ _ I Hx).
  - apply in_map_iff in Hin as [x [<- Hin]]. simpl. destruct (inv_elem_list t _ _ I Hin). auto.
  - apply in_map_iff in Hin as [[k x] [<- Hin]]. simpl. split; [reflexivity|apply (inv_elem_map _ _ _ _ I Hin)].
  - apply (index_from_inv l 0 kv); [|exact Hin]. apply Forall_forall. intros x Hx. apply (inv_elem_tuple _ _ I Hx).
  - apply in_map_iff in Hin as [[k x] [<- Hin]]. simpl. split; [reflexivity|apply (inv_elem_obj _ _ _ I Hin)].
Qed.

Lemma ev_lit_inv f c anon v : inv v = true -> inv (fst (ev_ f c anon (ELit v))) = true.
Proof. intros I. destruct f; [reflexivity|exact I]. Qed.

Lemma iv_call f name args expand : IV f -> forall c anon, in_fragment (ECall name args expand) -> ctx_inv c -> anon_inv anon ->
  inv (fst (ev_ (S f) c anon (ECall name args expand))) = true.
Proof.
  intros IH c anon Fr C A. pose proof (frag_call _ _ _ Fr) as Fa. cbn [eval_with].
  destruct (lookup_fn c name false) as [[fnv|] sm] eqn:El; [|destruct sm; reflexivity].
  pose proof (lookup_fn_ok _ _ _ _ _ C El) as Ok.
  match goal with
  | |- inv (fst (match ?x with inl p => @?K p | inr r => _ end)) = true =>
      set (k := K); set (expanded := x);
      change (inv (fst (match expanded with inl p => k p | inr r => r end)) = true)
  end.
  assert (HK : forall args' ds0, (forall e, In e args' -> inv (fst (ev_ f c anon e)) = true) ->
            inv (fst (k (args', ds0, []))) = true).
  { intros args' ds0 Ha. unfold k.
    destruct (length args' <? length (f_params fnv))%nat; [reflexivity|].
    match goal with |- inv (fst (if ?cnd then _ else _)) = true => destruct cnd end; [reflexivity|].
    match goal with
    | |- context [fold_left ?stp ?items ?init] =>
        change (fold_left stp items init) with (fold_left (call_step fnv (ev_ f c anon)) items init)
    end.
    pose proof (call_fold_inv fnv (ev_ f c anon) (combine (seq 0 (length args')) args') ([], ds0)) as Hf.
    destruct (fold_left (call_step fnv (ev_ f c anon)) (combine (seq 0 (length args')) args') ([], ds0)) as [argvals ds].
    destruct (has_errors ds); [reflexivity|]. destruct (has_unsupported ds); [reflexivity|].
    destruct (fn_call fnv argvals) as [v| | |] eqn:Ec; try reflexivity.
    cbn [fst with_marks]. apply (fn_call_inv fnv argvals v Ok); [|exact Ec].
    apply Hf; [|constructor]. intros [i e] Hin. apply in_combine_r in Hin. simpl. apply Ha. exact Hin. }
  assert (Hargs : forall e, In e args -> inv (fst (ev_ f c anon e)) = true).
  { intros e Hin. rewrite Forall_forall in Fa. apply (IH c anon e (Fa e Hin) C A). }
  unfold expanded. destruct expand; [|apply HK; exact Hargs].
  destruct (rev args) as [|last init_rev] eqn:Er; [reflexivity|].
  assert (Hsplit : args = rev init_rev ++ [last]) by (rewrite <- (rev_involutive args), Er; reflexivity).
  pose proof (Hargs last ltac:(rewrite Hsplit; apply in_or_app; right; left; reflexivity)) as Ix.
  destruct (ev_ f c anon last) as [xv xds]. simpl in Ix.
  destruct (has_errors xds); [reflexivity|].
  assert (Fin : inv (fst (match (if is_null xv then inr (dyn_val, xds ++ [derr S_InvalidExpand []])
                 else if negb (is_known xv) then inr (with_same_marks dyn_val xv, xds)
                 else let '(xu, xm) := unmark xv in
                      inl (rev init_rev ++ map (fun kv : val * val => ELit (with_marks (snd kv) xm)) (elements xu), xds,
                           match elements xu with [] => xm | _ => [] end))
                 with inl p => k p | inr r => r end)) = true).
  { destruct (is_null xv); [reflexivity|].
    destruct (negb (is_known xv)); [rewrite (inv_with_same_marks _ _ Ix); reflexivity|].
    rewrite (inv_unmark xv Ix). cbv beta iota.
    match goal with
    | |- context [k (?a, ?b, ?m)] => assert (Em : m = []) by (destruct (elements xv); reflexivity); rewrite Em
    end. apply HK. intros e Hin. apply in_app_or in Hin as [Hin|Hin].
    - apply Hargs. rewrite Hsplit. apply in_or_app. left. exact Hin.
    - apply in_map_iff in Hin as [kv [<- Hkv]]. cbn [with_marks]. apply ev_lit_inv. apply (elements_inv xv kv Ix Hkv). }
  destruct (type_of xv); try reflexivity; try exact Fin.
  destruct (is_null xv); [reflexivity|]. rewrite (inv_with_same_marks _ _ Ix). reflexivity.
Qed.

(* ---- template join --------------------------------------------------------------------------------------------- *)
Lemma iv_join f te : IV f -> forall c anon, in_fragment (EJoin te) -> ctx_inv c -> anon_inv anon ->
  inv (fst (ev_ (S f) c anon (EJoin te))) = true.
Proof.
  intros IH c anon Fr C A. pose proof (frag_join _ Fr) as Ft. cbn [eval_with].
  pose proof (IH c anon te Ft C A) as It. destruct (ev_ f c anon te) as [tv ds]. simpl in It.
  destruct (ty_eqb (type_of tv) TDyn); [rewrite (inv_with_same_marks _ _ It); reflexivity|].
  destruct (negb (is_known tv)); [rewrite (inv_with_same_marks _ _ It); reflexivity|].
  rewrite (inv_unmark tv It). destruct tv; try reflexivity.
  match goal with
  | |- context [fold_left ?stp l ?init] => set (stepf := stp); set (st0 := init)
  end.
  assert (Hf : forall vs st, Forall (fun x => inv x = true) vs ->
            match st with inl (_, am, _) => am = [] | inr (r, _) => inv r = true end ->
            match fold_left stepf vs st with inl (_, am, _) => am = [] | inr (r, _) => inv r = true end).
  { induction vs as [|x vs IHv]; intros st Fv Hs; simpl; [exact Hs|].
    inversion Fv as [|? ? Ix Fv']; subst. apply IHv; [exact Fv'|].
    destruct st as [[[buf am] sds]|[r rds]]; [|exact Hs]. subst am. unfold stepf.
    destruct (is_null x); [reflexivity|].
    destruct (ty_eqb (type_of x) TDyn); [rewrite (inv_with_same_marks _ _ Ix); reflexivity|].
    destruct (conv x TStr) as [sv| |] eqn:Ec; try reflexivity.
    destruct (negb (is_known x)); [rewrite (inv_with_same_marks _ _ Ix); reflexivity|].
    rewrite (inv_unmark sv (conv_inv_pres _ _ _ Ix Ec)). destruct sv; reflexivity. }
  pose proof (Hf l st0 (Forall_inv_tuple _ It) eq_refl) as Hr.
  destruct (fold_left stepf l st0) as [[[buf am] fds]|[r rds]]; [subst am; reflexivity|exact Hr].
Qed.

(* ---- splat ------------------------------------------------------------------------------------------------------ *)
(* SplatExpr.Value after the evaluation of the source, for unmarked values, as a function of the two
   evaluators of the "each" part: [evp et] = the probe with an unknown item of type [et] in a child
   context (resultTy), [eve x] = the item [x] (copy of Impl.v, ESplat; [splat_eval_eq] proves the
   correspondence) *)
Definition splat_uu (sv0 : val) : option bool :=
  if negb (seq_ty (type_of sv0)) && negb (is_known sv0) then
    match sv0 with
    | VUnk _ (RExact r) => Some (negb (r_notnull r))
    | VUnk _ RWild => None
    | _ => Some false
    end
  else Some false.

Definition splat_rty (evp : ty -> val * list diag) (sty : ty) : ty * list diag :=
  match sty with
  | TList et | TSet et => let '(v, ids) := evp et in (TList (type_of v), ids)
  | TTuple ets =>
      let rs := map evp ets in
      (TTuple (map (fun r => type_of (fst r)) rs), concat (map snd rs))
  | _ => (TDyn, [])
  end.

Definition splat_unknown (evp : ty -> val * list diag) (sv : val) (ds : list diag) : val * list diag :=
  let sty := type_of sv in
  let '(rt, tds) := splat_rty evp sty in
  let ds := ds ++ tds in
  let base := if ty_eqb rt TDyn then VUnk rt rf_none else VUnk rt rf_notnull in
  let ret :=
    match rt, sty with
    | TList _, (TList _ | TSet _ | TMap _) =>
        match sv with
        | VUnk _ (RExact r) => finish_unknown rt (mkRefn true [] None None (r_lenlo r) (r_lenhi r))
        | _ => VUnk rt RWild
        end
    | _, _ => base
    end in
  (ret, ds).

Definition splat_known (evp : ty -> val * list diag) (eve : val -> val * list diag)
           (uu : option bool) (sv : val) (ds : list diag) : val * list diag :=
  let sty := type_of sv in
  let rs := map (fun kv : val * val => eve (snd kv)) (elements sv) in
  let vals := map fst rs in
  let ds := ds ++ concat (map snd rs) in
  let is_known_all := negb (existsb (fun r : val * list diag => has_errors (snd r)) rs) in
  match uu with
  | None => (dyn_val, ds ++ [dunsupported])
  | Some true => (dyn_val, ds)
  | Some false =>
      if negb is_known_all then (VUnk (fst (splat_rty evp sty)) rf_none, ds)
      else
      match sty with
      | TList _ | TSet _ =>
          match vals with
          | [] => let '(rt, tds) := splat_rty evp sty in
                  (VList (match rt with TList t => t | _ => TDyn end) [], ds ++ tds)
          | v0 :: rest =>
              if forallb (fun v => ty_eqb (type_of v) (type_of v0)) rest
              then (VList (type_of v0) vals, ds)
              else (dyn_val, ds ++ [derr S_NestedSplat []])
          end
      | _ => (VTuple vals, ds)
      end
  end.

Definition splat_tail (evp : ty -> val * list diag) (eve : val -> val * list diag) (sv0 : val) (ds : list diag)
  : val * list diag :=
  if has_errors ds then (dyn_val, ds)
  else if null_shape sv0 then
    (if negb (seq_ty (type_of sv0)) then (VTuple [], ds) else (dyn_val, ds ++ [derr S_SplatNull []]))
  else if ty_eqb (type_of sv0) TDyn then (dyn_val, ds)
  else
  let sv := splat_sv sv0 in
  if negb (is_known sv) then splat_unknown evp sv ds
  else splat_known evp eve (splat_uu sv0) sv ds.

Lemma splat_sv_inv sv0 : inv sv0 = true -> inv (splat_sv sv0) = true.
Proof. intros I. unfold splat_sv. destruct (seq_ty (type_of sv0)); [exact I|]. simpl. rewrite I. reflexivity. Qed.

Lemma splat_eval_eq f c anon src each sv0 ds :
  ev_ f c anon src = (sv0, ds) -> inv sv0 = true ->
  ev_ (S f) c anon (ESplat src each) =
  splat_tail (fun et => ev_ f (empty_frame :: c) (Some (VUnk et rf_none)) each) (fun x => ev_ f c (Some x) each) sv0 ds.
Proof.
  intros E I. cbn [eval_with]. rewrite E. unfold splat_tail.
  destruct (has_errors ds); [reflexivity|].
  rewrite (inv_is_null _ I). repeat rewrite (inv_with_same_marks _ _ I).
  destruct (null_shape sv0); [destruct (type_of sv0); reflexivity|].
  destruct (ty_eqb (type_of sv0) TDyn); [reflexivity|].
  rewrite (inv_unmark sv0 I). cbn [fst].
  pose proof (splat_sv_inv sv0 I) as Isv.
  assert (Esv : (if negb match type_of sv0 with TTuple _ | TList _ | TSet _ => true | _ => false end
                 then VTuple [sv0] else sv0) = splat_sv sv0).
  { unfold splat_sv, seq_ty. destruct (type_of sv0); reflexivity. }
  rewrite Esv. rewrite (inv_unmark _ Isv). unfold with_same_marks. rewrite ?(inv_marks_of _ Isv). cbn [with_marks].
  destruct (negb (is_known (splat_sv sv0))).
  - unfold splat_unknown, splat_rty. reflexivity.
  - unfold splat_known, splat_uu, splat_rty, seq_ty. cbn [fst with_marks].
    destruct (type_of sv0); reflexivity.
Qed.

Lemma splat_tail_inv evp eve sv0 ds :
  inv sv0 = true -> (forall x, inv x = true -> inv (fst (eve x)) = true) ->
  inv (fst (splat_tail evp eve sv0 ds)) = true.
Proof.
  intros I He. unfold splat_tail.
  destruct (has_errors ds); [reflexivity|].
  destruct (null_shape sv0); [destruct (negb (seq_ty (type_of sv0))); reflexivity|].
  destruct (ty_eqb (type_of sv0) TDyn); [reflexivity|].
  pose proof (splat_sv_inv sv0 I) as Isv.
  destruct (negb (is_known (splat_sv sv0))).
  - unfold splat_unknown. destruct (splat_rty evp (type_of (splat_sv sv0))) as [rt tds]. cbn [fst].
    destruct rt; try (destruct (ty_eqb _ TDyn); reflexivity).
    destruct (type_of (splat_sv sv0)); try reflexivity;
      (destruct (splat_sv sv0); try reflexivity; destruct r; try reflexivity; apply inv_finish_unknown; reflexivity).
  - unfold splat_known.
    assert (Hv : Forall (fun v => inv v = true)
                   (map fst (map (fun kv : val * val => eve (snd kv)) (elements (splat_sv sv0))))).
    { apply Forall_forall. intros v Hv. apply in_map_iff in Hv as [[v' d] [<- Hin]].
      apply in_map_iff in Hin as [kv [Ekv Hkv]]. pose proof (He (snd kv) (proj2 (elements_inv _ kv Isv Hkv))) as Hi.
      rewrite Ekv in Hi. exact Hi. }
    destruct (splat_uu sv0) as [[|]|]; try reflexivity.
    match goal with |- inv (fst (if ?cnd then _ else _)) = true => destruct cnd end; [reflexivity|].
    destruct (type_of (splat_sv sv0)); try (cbn [fst inv]; apply forallb_Forall; exact Hv).
    + destruct (map fst (map (fun kv : val * val => eve (snd kv)) (elements (splat_sv sv0)))) as [|v0 rest] eqn:Ev.
      * destruct (splat_rty evp _); reflexivity.
      * destruct (forallb (fun v => ty_eqb (type_of v) (type_of v0)) rest) eqn:Ft; [|reflexivity].
        cbn [fst inv]. inversion Hv as [|? ? Iv0 Hr]; subst. cbn [forallb]. rewrite ty_eqb_refl, Iv0. cbn [andb].
        apply forallb_Forall. rewrite forallb_Forall in Ft. rewrite Forall_forall in *. intros x Hx.
        rewrite (Ft x Hx), (Hr x Hx). reflexivity.
    + destruct (map fst (map (fun kv : val * val => eve (snd kv)) (elements (splat_sv sv0)))) as [|v0 rest] eqn:Ev.
      * destruct (splat_rty evp _); reflexivity.
      * destruct (forallb (fun v => ty_eqb (type_of v) (type_of v0)) rest) eqn:Ft; [|reflexivity].
        cbn [fst inv]. inversion Hv as [|? ? Iv0 Hr]; subst. cbn [forallb]. rewrite ty_eqb_refl, Iv0. cbn [andb].
        apply forallb_Forall. rewrite forallb_Forall in Ft. rewrite Forall_forall in *. intros x Hx.
        rewrite (Ft x Hx), (Hr x Hx). reflexivity.
Qed.

Lemma iv_splat f src each : IV f -> forall c anon, in_fragment (ESplat src each) -> ctx_inv c -> anon_inv anon ->
  inv (fst (ev_ (S f) c anon (ESplat src each))) = true.
Proof.
  intros IH c anon Fr C A. destruct (frag_splat _ _ Fr) as [Fs Fe].
  pose proof (IH c anon src Fs C A) as Is. destruct (ev_ f c anon src) as [sv0 ds] eqn:Es. simpl in Is.
  rewrite (splat_eval_eq f c anon src each sv0 ds Es Is).
  apply splat_tail_inv; [exact Is|]. intros x Ix. apply (IH c (Some x) each Fe C).
  intros v E. injection E as <-. exact Ix.
Qed.

(* ---- for expressions ---------------------------------------------------------------------------------------------- *)
(* ForExpr.Value after the evaluation of the collection, for an unmarked collection value, as a
   function of the evaluator [ev c' e] of sub-expressions in a child scope (copy of Impl.v, EFor;
   [for_eval_eq] proves the correspondence) *)
Section ForDefs.
  Variable ev : ctx -> expr -> val * list diag.
  Variable bind : val -> val -> ctx.
  Variables (keye : option expr) (vale : expr) (conde : option expr) (group : bool).

  Definition for_probe (ds0 : list diag) : (marks * list diag) + (val * list diag) :=
    match conde with
    | None => inl ([], ds0)
    | Some ce =>
        let '(r, cds) := ev (bind dyn_val dyn_val) ce in
        let ds := ds0 ++ cds in
        if is_null r then inr (dyn_val, ds ++ [derr S_ConditionIsNull []])
        else match conv r TBool with
             | CErr cer => inr (dyn_val, ds ++ [derr S_InvalidForCond [FConv cer]])
             | CUnsupported => inr (dyn_val, ds ++ [dunsupported])
             | COk _ => if has_errors cds then inr (dyn_val, ds) else inl (marks_of r, ds)
             end
    end.

  Definition ofor_step (ke : expr) (st : ofor_state) (kv : val * val) : ofor_state :=
    let '(vals, groups, mks, known, ds) := st in
    let cc := bind (fst kv) (snd kv) in
    let after_cond : (list marks * list diag) + (list marks * bool * list diag) :=
      match conde with
      | None => inl (mks, ds)
      | Some ce =>
          let '(inc, cds) := ev cc ce in
          let ds := ds ++ cds in
          if is_null inc then inr (mks, false, if known then ds ++ [derr S_InvalidForCond []] else ds)
          else
          let im := marks_of inc in
          let mks := mks ++ [im] in
          match conv inc TBool with
          | CErr cer => inr (mks, false, if known then ds ++ [derr S_InvalidForCond [FConv cer]] else ds)
          | CUnsupported => inr (mks, false, ds ++ [dunsupported])
          | COk b =>
              if negb (is_known b) then inr (mks, false, ds)
              else match fst (unmark b) with
                   | VBool false => inr (mks ++ [im], known, ds)
                   | _ => inl (mks ++ [im], ds)
                   end
          end
      end in
    match after_cond with
    | inr (mks, known', ds) => (vals, groups, mks, known', ds)
    | inl (mks, ds) =>
        let '(kraw, kds) := ev cc ke in
        let ds := ds ++ kds in
        if is_null kraw then (vals, groups, mks, false, if known then ds ++ [derr S_InvalidObjKey []] else ds)
        else
        let mks := mks ++ [marks_of kraw] in
        if negb (is_known kraw) then (vals, groups, mks, false, ds)
        else
        match conv kraw TStr with
        | CErr cer => (vals, groups, mks, false, if known then ds ++ [derr S_InvalidObjKey [FConv cer]] else ds)
        | CUnsupported => (vals, groups, mks, false, ds ++ [dunsupported])
        | COk kc =>
            match fst (unmark kc) with
            | VStr ks =>
                let '(v, vds) := ev cc vale in
                let ds := ds ++ vds in
                if group then
                  let old := match assoc_get ks groups with Some l => l | None => [] end in
                  (vals, assoc_set ks (old ++ [v]) groups, mks, known, ds)
                else
                  match assoc_get ks vals with
                  | Some _ =>
                      (vals, groups, mks, known,
                       ds ++ [derr S_DuplicateKey (if existsb (fun m => negb (zlist_eqb m [])) mks then [] else [FStr ks []])])
                  | None => (assoc_set ks v vals, groups, mks, known, ds)
                  end
            | _ => (vals, groups, mks, false, ds ++ [dunsupported])
            end
        end
    end.

  Definition tfor_step (st : tfor_state) (kv : val * val) : tfor_state :=
    let '(vals, mks, known, ds) := st in
    let cc := bind (fst kv) (snd kv) in
    let after_cond : (list marks * list diag) + (list marks * bool * list diag) :=
      match conde with
      | None => inl (mks, ds)
      | Some ce =>
          let '(inc, cds) := ev cc ce in
          let ds := ds ++ cds in
          if is_null inc then inr (mks, false, if known then ds ++ [derr S_InvalidForCond []] else ds)
          else
          let mks := mks ++ [marks_of inc] in
          if negb (is_known inc) then inr (mks, false, ds)
          else
          match conv inc TBool with
          | CErr cer => inr (mks, false, if known then ds ++ [derr S_InvalidForCond [FConv cer]] else ds)
          | CUnsupported => inr (mks, false, ds ++ [dunsupported])
          | COk b => match fst (unmark b) with
                     | VBool false => inr (mks, known, ds)
                     | _ => inl (mks, ds)
                     end
          end
      end in
    match after_cond with
    | inr (mks, known', ds) => (vals, mks, known', ds)
    | inl (mks, ds) =>
        let '(v, vds) := ev cc vale in
        (vals ++ [v], mks, known, ds ++ vds)
    end.

  Definition for_tail (cv0 : val) (ds0 : list diag) : val * list diag :=
    if null_shape cv0 then (dyn_val, ds0 ++ [derr S_IterNull []])
    else if ty_eqb (type_of cv0) TDyn then (dyn_val, ds0)
    else if negb (can_iterate cv0) then (dyn_val, ds0 ++ [derr S_IterNonIterable [FTy (type_of cv0)]])
    else
    match for_probe ds0 with
    | inr r => r
    | inl (condmk, ds1) =>
        if negb (is_known cv0) then (with_marks dyn_val (marks_union [] condmk), ds1)
        else
        match keye with
        | Some ke =>
            let '(vals, groups, mks, known, ds) := fold_left (ofor_step ke) (elements cv0) ([], [], [[]], true, ds1) in
            if negb known then (with_marks dyn_val (marks_unions mks), ds)
            else
            let vals' := if group then map (fun p : list Z * list val => (fst p, VTuple (snd p))) groups else vals in
            (with_marks (VObj vals') (marks_unions mks), ds)
        | None =>
            let '(vals, mks, known, ds) := fold_left tfor_step (elements cv0) ([], [[]], true, ds1) in
            if negb known then (with_marks dyn_val (marks_unions mks), ds)
            else (with_marks (VTuple vals) (marks_unions mks), ds)
        end
    end.
End ForDefs.

Lemma for_eval_eq f c anon kvar vvar coll keye vale conde group cv0 ds0 :
  ev_ f c anon coll = (cv0, ds0) -> inv cv0 = true ->
  ev_ (S f) c anon (EFor kvar vvar coll keye vale conde group) =
  for_tail (fun c' e => ev_ f c' anon e) (for_bind c kvar vvar) keye vale conde group cv0 ds0.
Proof.
  intros E I. cbn [eval_with]. rewrite E. unfold for_tail.
  rewrite (inv_is_null _ I). destruct (null_shape cv0); [reflexivity|].
  rewrite (inv_with_same_marks _ _ I). destruct (ty_eqb (type_of cv0) TDyn); [reflexivity|].
  rewrite (inv_unmark cv0 I). reflexivity.
Qed.

Definition mk_nil (l : list marks) : Prop := Forall (fun m => m = []) l.
Definition ofor_iv (st : ofor_state) : Prop :=
  let '(vals, groups, mks, _, _) := st in
  Forall (fun p => inv (snd p) = true) vals /\
  Forall (fun p => Forall (fun x => inv x = true) (snd p)) groups /\ mk_nil mks.
Definition tfor_iv (st : tfor_state) : Prop :=
  let '(vals, mks, _, _) := st in Forall (fun x => inv x = true) vals /\ mk_nil mks.

Lemma assoc_set_groups_inv k (l : list val) (groups : list (list Z * list val)) :
  Forall (fun x => inv x = true) l ->
  Forall (fun p => Forall (fun x => inv x = true) (snd p)) groups ->
  Forall (fun p => Forall (fun x => inv x = true) (snd p)) (assoc_set k l groups).
Proof.
  intros Gl. induction groups as [|[k' l'] r IH]; intros F; simpl.
  - constructor; [exact Gl|constructor].
  - inversion F; subst. destruct (str_eqb k k'); [constructor; assumption|].
    destruct (str_ltb k k'); [constructor; [exact Gl|exact F]|]. constructor; auto.
Qed.

Lemma mk_nil_snoc l m : mk_nil l -> m = [] -> mk_nil (l ++ [m]).
Proof. intros H E. apply Forall_app. split; [exact H|constructor; [exact E|constructor]]. Qed.

Lemma assoc_get_groups_inv k (groups : list (list Z * list val)) :
  Forall (fun p => Forall (fun x => inv x = true) (snd p)) groups ->
  Forall (fun x => inv x = true) (match assoc_get k groups with Some l => l | None => [] end).
Proof.
  induction groups as [|[k' l'] r IH]; intros F; simpl; [constructor|].
  inversion F; subst. destruct (str_eqb k k'); [assumption|auto].
Qed.

Ltac dgoal_st :=
  cbv zeta;
  match goal with
  | |- ?P (match ?x with _ => _ end) => destruct_scrut x
  end.

Ltac ofor_leaf :=
  cbv zeta; cbn [fst snd] in *; cbn [ofor_iv];
  (split; [first [assumption | apply assoc_set_inv; assumption]
          |split; [first [assumption
                         | apply assoc_set_groups_inv; [|assumption]; apply Forall_app; split;
                           [apply assoc_get_groups_inv; assumption|constructor; [assumption|constructor]] ]
                  |repeat (apply mk_nil_snoc); try assumption; apply inv_marks_of; assumption]]).

Definition for_sub (keye : option expr) (vale : expr) (conde : option expr) (e : expr) : Prop :=
  keye = Some e \/ vale = e \/ conde = Some e.

Lemma ofor_step_iv ev bind vale conde group ke st kv :
  (forall e, for_sub (Some ke) vale conde e -> inv (fst (ev (bind (fst kv) (snd kv)) e)) = true) ->
  ofor_iv st -> ofor_iv (ofor_step ev bind vale conde group ke st kv).
Proof.
  intros Hev Hst. destruct st as [[[[vals groups] mks] known] ds]. destruct Hst as [Hv [Hg Hm]].
  unfold ofor_step.
  pose proof (Hev ke (or_introl eq_refl)) as Ik. pose proof (Hev vale (or_intror (or_introl eq_refl))) as Iv.
  destruct conde as [ce|].
  - pose proof (Hev ce (or_intror (or_intror eq_refl))) as Ic.
    repeat dgoal_st; ofor_leaf.
  - repeat dgoal_st; ofor_leaf.
Qed.

Ltac tfor_leaf :=
  cbv zeta; cbn [fst snd] in *; cbn [tfor_iv];
  (split; [first [assumption | apply Forall_app; split; [assumption|constructor; [assumption|constructor]]]
          |repeat (apply mk_nil_snoc); try assumption; apply inv_marks_of; assumption]).

Lemma tfor_step_iv ev bind vale conde st kv :
  (forall e, for_sub None vale conde e -> inv (fst (ev (bind (fst kv) (snd kv)) e)) = true) ->
  tfor_iv st -> tfor_iv (tfor_step ev bind vale conde st kv).
Proof.
  intros Hev Hst. destruct st as [[[vals mks] known] ds]. destruct Hst as [Hv Hm].
  unfold tfor_step.
  pose proof (Hev vale (or_intror (or_introl eq_refl))) as Iv.
  destruct conde as [ce|].
  - pose proof (Hev ce (or_intror (or_intror eq_refl))) as Ic.
    repeat dgoal_st; tfor_leaf.
  - repeat dgoal_st; tfor_leaf.
Qed.

Lemma for_bind_inv c kvar vvar k v : ctx_inv c -> inv k = true -> inv v = true -> ctx_inv (for_bind c kvar vvar k v).
Proof.
  intros C Ik Iv. unfold for_bind, child_ctx. constructor; [|exact C]. split; [|intros fs E; discriminate].
  intros vs E. cbn [fvars] in E. injection E as <-. apply Forall_app. split.
  - destruct (str_eqb kvar [] || str_eqb kvar vvar); constructor; [exact Ik|constructor].
  - constructor; [exact Iv|constructor].
Qed.

Lemma fold_iv {S X} (step : S -> X -> S) (P : S -> Prop) (l : list X) :
  (forall st x, In x l -> P st -> P (step st x)) -> forall st, P st -> P (fold_left step l st).
Proof.
  induction l as [|x r IH]; intros H st Hs; [exact Hs|]. simpl. apply IH.
  - intros st' x' Hin. apply H. right. exact Hin.
  - apply H; [left; reflexivity|exact Hs].
Qed.

Lemma for_tail_inv ev bind keye vale conde group cv0 ds0 :
  inv cv0 = true ->
  (forall e, conde = Some e -> inv (fst (ev (bind dyn_val dyn_val) e)) = true) ->
  (forall kv e, In kv (elements cv0) -> for_sub keye vale conde e -> inv (fst (ev (bind (fst kv) (snd kv)) e)) = true) ->
  inv (fst (for_tail ev bind keye vale conde group cv0 ds0)) = true.
Proof.
  intros I Hp Hev. unfold for_tail.
  destruct (null_shape cv0); [reflexivity|]. destruct (ty_eqb (type_of cv0) TDyn); [reflexivity|].
  destruct (negb (can_iterate cv0)); [reflexivity|].
  assert (Pr : match for_probe ev bind conde ds0 with
               | inr r => inv (fst r) = true
               | inl (condmk, _) => condmk = []
               end).
  { unfold for_probe. destruct conde as [ce|]; [|reflexivity].
    pose proof (Hp ce eq_refl) as Ir. destruct (ev (bind dyn_val dyn_val) ce) as [r cds]. cbn [fst] in Ir.
    destruct (is_null r); [reflexivity|]. destruct (conv r TBool); try reflexivity.
    destruct (has_errors cds); [reflexivity|]. apply inv_marks_of. exact Ir. }
  destruct (for_probe ev bind conde ds0) as [[condmk ds1]|r]; [|exact Pr]. subst condmk.
  destruct (negb (is_known cv0)); [reflexivity|].
  destruct keye as [ke|].
  - assert (H : ofor_iv (fold_left (ofor_step ev bind vale conde group ke) (elements cv0) ([], [], [[]], true, ds1))).
    { apply fold_iv.
      - intros st kv Hin Hs. apply ofor_step_iv; [|exact Hs]. intros e He. apply Hev; [exact Hin|exact He].
      - cbn [ofor_iv]. repeat split; repeat constructor. }
    destruct (fold_left (ofor_step ev bind vale conde group ke) (elements cv0) ([], [], [[]], true, ds1))
      as [[[[vals groups] mks] known] ds]. destruct H as [Hv [Hg Hm]].
    rewrite (marks_unions_nil _ Hm). destruct (negb known); [reflexivity|]. cbn [with_marks fst].
    simpl. apply forallb_Forall. destruct group.
    + apply Forall_map. eapply Forall_impl; [|exact Hg]. intros [k l] Hl. cbn [fst snd] in *. simpl.
      apply forallb_Forall. exact Hl.
    + exact Hv.
  - assert (H : tfor_iv (fold_left (tfor_step ev bind vale conde) (elements cv0) ([], [[]], true, ds1))).
    { apply fold_iv.
      - intros st kv Hin Hs. apply tfor_step_iv; [|exact Hs]. intros e He. apply Hev; [exact Hin|exact He].
      - cbn [tfor_iv]. repeat split; repeat constructor. }
    destruct (fold_left (tfor_step ev bind vale conde) (elements cv0) ([], [[]], true, ds1))
      as [[[vals mks] known] ds]. destruct H as [Hv Hm].
    rewrite (marks_unions_nil _ Hm). destruct (negb known); [reflexivity|]. cbn [with_marks fst].
    simpl. apply forallb_Forall. exact Hv.
Qed.

Lemma iv_for f kvar vvar coll keye vale conde group : IV f -> forall c anon,
  in_fragment (EFor kvar vvar coll keye vale conde group) -> ctx_inv c -> anon_inv anon ->
  inv (fst (ev_ (S f) c anon (EFor kvar vvar coll keye vale conde group))) = true.
Proof.
  intros IH c anon Fr C A. destruct (frag_for _ _ _ _ _ _ _ Fr) as [Fc [Fk [Fv Fce]]].
  pose proof (IH c anon coll Fc C A) as Ic. destruct (ev_ f c anon coll) as [cv0 ds0] eqn:Ec. simpl in Ic.
  rewrite (for_eval_eq f c anon kvar vvar coll keye vale conde group cv0 ds0 Ec Ic).
  assert (Fs : forall e, for_sub keye vale conde e -> in_fragment e).
  { intros e [E|[E|E]]; [apply (Fk _ E)|subst; exact Fv|apply (Fce _ E)]. }
  apply for_tail_inv; [exact Ic| |].
  - intros e E. apply (IH _ anon e (Fce _ E)); [|exact A]. apply for_bind_inv; [exact C|reflexivity|reflexivity].
  - intros kv e Hin He. destruct (elements_inv _ _ Ic Hin) as [I1 I2].
    apply (IH _ anon e (Fs e He)); [|exact A]. apply for_bind_inv; assumption.
Qed.

Theorem iv_all : forall f, IV f.
Proof.
  induction f as [|f IH]; intros c anon e Fr C A; [reflexivity|].
  destruct e.
  - cbn [eval_with]. simpl. pose proof (frag_lit _ Fr) as Hl. unfold lit_ok in Hl. apply andb_true_iff in Hl. tauto.
  - cbn [eval_with]. apply (iv_scope root steps c (frag_scope _ _ Fr) C).
  - apply (iv_reltrav f e steps IH c anon Fr C A).
  - apply (iv_call f name args expand IH c anon Fr C A).
  - apply (iv_cond f e1 e2 e3 IH c anon Fr C A).
  - apply (iv_index f e1 e2 IH c anon Fr C A).
  - apply (iv_tuple f es IH c anon Fr C A).
  - apply (iv_obj f items IH c anon Fr C A).
  - apply (iv_objkey f e force IH c anon Fr C A).
  - apply (iv_for f kv vv e1 key e2 cond group IH c anon Fr C A).
  - apply (iv_splat f e1 e2 IH c anon Fr C A).
  - cbn [eval_with]. destruct anon as [a|]; [apply (A a eq_refl)|reflexivity].
  - apply (iv_bin f op e1 e2 IH c anon Fr C A).
  - apply (iv_un f op e IH c anon Fr C A).
  - apply (iv_tmpl f parts IH c anon Fr C A).
  - apply (iv_join f e IH c anon Fr C A).
  - cbn [eval_with]. apply (IH c anon e (frag_wrap _ Fr) C A).
  - cbn [eval_with]. apply (IH c anon e (frag_paren _ Fr) C A).
Qed.
