(* Eval/MarksNI_Funcs.v — C06: the contract on functions and its proof for the harness table. *)
From Coq Require Import QArith.
From HclV Require Import Base.Prelude Cty.Values Cty.Convert Cty.Ops Eval.Impl Eval.Funcs
     Eval.MarksNI Eval.MarksNI_Ops Eval.MarksNI_Index Eval.MarksNI_Conv.
Open Scope Z_scope.

(* THE CONTRACT: a function, called through function.Function.Call (fn_call: null / unknown /
   dynamic / mark handling of the parameters included), maps low-equivalent argument lists to
   low-equivalent results whenever both calls succeed.  "Mark-respecting" is part of it: if an
   argument differs under mark m, so may the result only under mark m. *)
(* every argument position has a parameter (FunctionCallExpr checks the argument count first) *)
Definition args_fit (f : fn) (n : nat) : Prop := forall i, (i < n)%nat -> param_for f i <> None.

Definition fn_ni (m : Z) (f : fn) : Prop :=
  forall args1 args2 v1 v2, Forall2 (leq m) args1 args2 -> args_fit f (length args1) ->
    fn_call f args1 = CallOk v1 -> fn_call f args2 = CallOk v2 -> leq m v1 v2.

(* No parameter type contains an object type.  (A restriction of the PROOF, not of the model:
   conversion to an object type looks attributes up by name, and the proof that this respects
   low-equivalence when the two argument types differ under a mark would need the invariant
   "attribute names are unique", which is not threaded through the evaluator.) *)
Definition params_noobj (f : fn) : bool :=
  forallb (fun p => noobj (p_ty p)) (f_params f) &&
  match f_varparam f with Some p => noobj (p_ty p) | None => true end.

(* results of successful calls are well-formed (no mark directly under a mark) *)
Definition fn_wf (f : fn) : Prop :=
  forall args v, Forall wf args -> fn_call f args = CallOk v -> wf v.

Definition fn_ok (m : Z) (f : fn) : Prop := fn_ni m f /\ params_noobj f = true /\ fn_wf f.

(* every function of every table of the context satisfies the contract *)
Definition funcs_ni (m : Z) (c : ctx) : Prop :=
  forall fr fs name f, In fr c -> ffuncs fr = Some fs -> assoc_get name fs = Some f -> fn_ok m f.

Lemma lookup_fn_in c name : forall b f b',
  lookup_fn c name b = (Some f, b') -> exists fr fs, In fr c /\ ffuncs fr = Some fs /\ assoc_get name fs = Some f.
Proof.
  induction c as [|fr r IH]; intros b f b' E; cbn [lookup_fn] in E; [discriminate E|].
  destruct (ffuncs fr) as [fs|] eqn:F.
  - destruct (assoc_get name fs) as [x|] eqn:G.
    + injection E as <- _. exists fr, fs. repeat split; auto. left; reflexivity.
    + destruct (IH _ _ _ E) as (fr' & fs' & A & B & C). exists fr', fs'. repeat split; auto. right; exact A.
  - destruct (IH _ _ _ E) as (fr' & fs' & A & B & C). exists fr', fs'. repeat split; auto. right; exact A.
Qed.

(* Sufficient condition: no parameter has AllowMarked.  Then Call itself strips all marks
   (deeply) from the arguments and re-applies them to the result, whatever the function does. *)
Definition all_unmarked (f : fn) : bool :=
  forallb (fun p => negb (p_marked p)) (f_params f) &&
  match f_varparam f with Some p => negb (p_marked p) | None => true end.

Lemma nth_opt_In {A} (l : list A) i x : nth_opt l i = Some x -> In x l.
Proof.
  revert i; induction l as [|a r IH]; intros i H; destruct i; cbn [nth_opt] in H; try discriminate.
  - injection H as ->. left; reflexivity.
  - right. eapply IH; eassumption.
Qed.

Lemma param_for_unmarked f i p : all_unmarked f = true -> param_for f i = Some p -> p_marked p = false.
Proof.
  unfold all_unmarked, param_for. intros H E. apply andb_true_iff in H as [H1 H2].
  destruct (nth_opt (f_params f) i) eqn:N.
  - injection E as <-. apply nth_opt_In in N. rewrite forallb_forall in H1. apply H1 in N.
    apply negb_true_iff in N. exact N.
  - rewrite E in H2. apply negb_true_iff in H2. exact H2.
Qed.

Lemma param_for_noobj f i p : params_noobj f = true -> param_for f i = Some p -> noobj (p_ty p) = true.
Proof.
  unfold params_noobj, param_for. intros H E. apply andb_true_iff in H as [H1 H2].
  destruct (nth_opt (f_params f) i) eqn:N.
  - injection E as <-. apply nth_opt_In in N. rewrite forallb_forall in H1. apply H1 in N. exact N.
  - rewrite E in H2. exact H2.
Qed.

Definition prep_of (f : fn) (i : nat) (args : list val) : list (val * marks) :=
  map (fun ia => match param_for f (fst ia) with
                 | Some p => if p_marked p then (snd ia, []) else (unmark_deep (snd ia), deep_marks (snd ia))
                 | None => (snd ia, []) end)
      (combine (seq i (length args)) args).

Lemma prep_snd f : all_unmarked f = true -> forall args i,
  (forall j, (j < length args)%nat -> param_for f (i + j) <> None) ->
  map snd (prep_of f i args) = map deep_marks args.
Proof.
  intros Hu. induction args as [|a r IH]; intros i Hfit; [reflexivity|].
  unfold prep_of. cbn [length seq combine map fst snd].
  destruct (param_for f i) as [p|] eqn:P.
  - rewrite (param_for_unmarked _ _ _ Hu P). cbn [snd]. f_equal. apply IH.
    intros j Hj. replace (S i + j)%nat with (i + S j)%nat by lia. apply Hfit. cbn [length]. lia.
  - exfalso. apply (Hfit O); [cbn [length]; lia|]. rewrite Nat.add_0_r. exact P.
Qed.

Lemma fn_call_ok f args v :
  fn_call f args = CallOk v ->
  exists d, call_check f 0 args = (None, d) /\
  exists x, v = with_marks x (marks_unions (map snd (prep_of f 0 args))).
Proof.
  unfold fn_call. destruct (call_check f 0 args) as [[r|] d] eqn:C.
  - intro H. exfalso.
    assert (X : forall args i r d, call_check f i args = (Some r, d) -> r <> CallOk v).
    { clear. induction args as [|a rr IH]; intros i r d E; cbn [call_check] in E; [discriminate E|].
      destruct (param_for f i); [|injection E as <- _; discriminate].
      destruct (is_null a && negb (p_null f0)); [injection E as <- _; discriminate|].
      destruct (ty_eqb (type_of a) TDyn).
      - destruct (negb (p_dyn f0)); [discriminate E|eapply IH; eassumption].
      - destruct (negb (conforms _ _ _)); [injection E as <- _; discriminate|eapply IH; eassumption]. }
    eapply X; eassumption.
  - intro H. exists d. split; [reflexivity|]. fold (prep_of f 0 args) in H.
    destruct d; [injection H as <-; eauto|].
    destruct (f_rettype f _); [|discriminate H].
    destruct (existsb _ _); [injection H as <-; eauto|].
    destruct (f_impl f _ _); try discriminate H. injection H as <-. eauto.
Qed.

Lemma leq_deep_list m l l' :
  Forall2 (leq m) l l' ->
  existsb (mark_mem m) (map deep_marks l) = existsb (mark_mem m) (map deep_marks l') /\
  (existsb (mark_mem m) (map deep_marks l) = false -> l = l').
Proof.
  intro H. apply deep_list; [|exact H]. apply Forall_forall. intros x _. apply leq_deep_all.
Qed.

Lemma all_unmarked_ni m f : all_unmarked f = true -> fn_ni m f.
Proof.
  intros Hu args1 args2 v1 v2 H Hfit E1 E2.
  destruct (leq_deep_list m _ _ H) as [A B].
  destruct (existsb (mark_mem m) (map deep_marks args1)) eqn:Em.
  - destruct (fn_call_ok _ _ _ E1) as (d1 & C1 & x1 & ->). destruct (fn_call_ok _ _ _ E2) as (d2 & C2 & x2 & ->).
    rewrite (prep_snd f Hu args1 0), (prep_snd f Hu args2 0).
    + apply stars_leq; apply with_marks_star; rewrite mark_mem_unions; congruence.
    + intros j Hj. apply Hfit. rewrite (Forall2_length _ _ _ H). exact Hj.
    + intros j Hj. apply Hfit. exact Hj.
  - rewrite (B eq_refl) in E1. rewrite E1 in E2. injection E2 as <-. apply leq_refl.
Qed.

(* ---- the harness table -------------------------------------------------------------------- *)
Lemma fn_upper_ni m : fn_ni m fn_upper.  Proof. apply all_unmarked_ni. reflexivity. Qed.
Lemma fn_sum_ni m : fn_ni m fn_sum.      Proof. apply all_unmarked_ni. reflexivity. Qed.
Lemma fn_fail_ni m : fn_ni m fn_fail.    Proof. apply all_unmarked_ni. reflexivity. Qed.
Lemma fn_isnull_ni m : fn_ni m fn_isnull. Proof. apply all_unmarked_ni. reflexivity. Qed.
Lemma fn_pair_ni m : fn_ni m fn_pair.    Proof. apply all_unmarked_ni. reflexivity. Qed.

(* ---- fn_first: the only harness function with AllowMarked parameters ------------------------ *)
Lemma first_param i : exists p, param_for fn_first i = Some p /\
  p_null p = true /\ p_unknown p = true /\ p_dyn p = true /\ p_marked p = true /\ p_ty p = TDyn.
Proof. destruct i; eexists; repeat split. Qed.

Lemma first_check : forall args i, call_check fn_first i args = (None, false).
Proof.
  induction args as [|a r IH]; intro i; cbn [call_check]; [reflexivity|].
  destruct (first_param i) as (p & -> & Hn & _ & Hd & _ & Ht). rewrite Hn, Hd, Ht, andb_false_r. cbn [negb].
  destruct (ty_eqb (type_of a) TDyn); [apply IH|]. cbn [conforms negb]. apply IH.
Qed.

Lemma first_prep : forall args i, prep_of fn_first i args = map (fun a => (a, [])) args.
Proof.
  induction args as [|a r IH]; intro i; unfold prep_of; cbn [length seq combine map fst snd]; [reflexivity|].
  destruct (first_param i) as (p & -> & _ & _ & _ & Hm & _). rewrite Hm. f_equal. apply IH.
Qed.

Lemma first_unknown : forall args i,
  existsb (fun ia : nat * val => match param_for fn_first (fst ia) with
                      | Some p => negb (is_known (snd ia)) && negb (p_unknown p)
                      | None => false end) (combine (seq i (length args)) args) = false.
Proof.
  induction args as [|a r IH]; intro i; cbn [length seq combine existsb fst snd]; [reflexivity|].
  destruct (first_param i) as (p & -> & _ & Hu & _). rewrite Hu, andb_false_r. apply IH.
Qed.

Lemma unions_nil (l : list val) : marks_unions (map snd (map (fun a : val => (a, @nil Z)) l)) = [].
Proof. induction l; cbn; auto. Qed.

Lemma fn_call_first a r : fn_call fn_first (a :: r) = CallOk a.
Proof.
  unfold fn_call. rewrite first_check. fold (prep_of fn_first 0 (a :: r)). rewrite first_prep, first_unknown.
  rewrite unions_nil. rewrite map_map. cbn [map fst f_rettype fn_first f_impl with_marks]. reflexivity.
Qed.
Lemma fn_call_first_nil : fn_call fn_first [] = CallErr.
Proof. reflexivity. Qed.

Lemma fn_first_ni m : fn_ni m fn_first.
Proof.
  intros args1 args2 v1 v2 H _ E1 E2. destruct H as [|a b r s Hab _]; [discriminate E1|].
  rewrite fn_call_first in E1, E2. injection E1 as <-. injection E2 as <-. exact Hab.
Qed.

(* ---- well-formedness of function results ------------------------------------------------------ *)

Lemma type_of_unmark_deep v : type_of (unmark_deep v) = type_of v.
Proof.
  induction v using val_ind'; cbn [unmark_deep type_of]; try reflexivity; try exact IHv.
  - f_equal. induction H as [|x r Hx _ IH]; cbn [map]; [reflexivity|]. rewrite Hx, IH. reflexivity.
  - f_equal. induction H as [|x r Hx _ IH]; cbn [map fst snd]; [reflexivity|]. rewrite Hx, IH. reflexivity.
Qed.

Lemma wf_unmark_deep v : wf v -> wf (unmark_deep v) /\ is_mark (unmark_deep v) = false.
Proof.
  unfold wf. induction v using val_ind'; cbn [unmark_deep wfb]; intro W; try (split; reflexivity).
  - split; [|reflexivity]. induction H as [|x r Hx _ IH]; cbn [map forallb] in *; [reflexivity|].
    apply andb_true_iff in W as [A B]. apply andb_true_iff in A as [A1 A2].
    rewrite type_of_unmark_deep, A1, (proj1 (Hx A2)), (IH B). reflexivity.
  - split; [|reflexivity]. induction H as [|x r Hx _ IH]; cbn [map forallb] in *; [reflexivity|].
    apply andb_true_iff in W as [A B]. apply andb_true_iff in A as [A1 A2].
    rewrite type_of_unmark_deep, A1, (proj1 (Hx A2)), (IH B). reflexivity.
  - split; [|reflexivity]. induction H as [|x r Hx _ IH]; cbn [map forallb snd] in *; [reflexivity|].
    apply andb_true_iff in W as [A B]. apply andb_true_iff in A as [A1 A2].
    rewrite type_of_unmark_deep, A1, (proj1 (Hx A2)), (IH B). reflexivity.
  - split; [|reflexivity]. induction H as [|x r Hx _ IH]; cbn [map forallb] in *; [reflexivity|].
    apply andb_true_iff in W as [A B]. rewrite (proj1 (Hx A)), (IH B). reflexivity.
  - split; [|reflexivity]. induction H as [|x r Hx _ IH]; cbn [map forallb snd] in *; [reflexivity|].
    apply andb_true_iff in W as [A B]. rewrite (proj1 (Hx A)), (IH B). reflexivity.
  - apply andb_true_iff in W as [_ W]. apply andb_true_iff in W as [_ W]. apply IHv, W.
Qed.

Lemma prep_wf f : forall args i, Forall wf args -> Forall wf (map fst (prep_of f i args)).
Proof.
  induction args as [|a r IH]; intros i W; unfold prep_of; cbn [length seq combine map]; [constructor|].
  inversion W as [|? ? Wa Wr]; subst. constructor; [|apply IH; exact Wr]. cbn [fst snd].
  destruct (param_for f i) as [p|]; [destruct (p_marked p)|]; cbn [fst]; try exact Wa. apply wf_unmark_deep, Wa.
Qed.

Lemma fn_wf_of_impl f :
  (forall args rt v, Forall wf args -> f_impl f args rt = OOk v -> wf v) -> fn_wf f.
Proof.
  intros Himpl args v W E. unfold fn_call in E. destruct (call_check f 0 args) as [[r|] d] eqn:C.
  - exfalso. destruct (fn_call_ok f args v) as (d' & C' & _); [unfold fn_call; rewrite C; exact E|congruence].
  - fold (prep_of f 0 args) in E. destruct d; [injection E as <-; apply wf_with_marks; reflexivity|].
    destruct (f_rettype f _); [|discriminate E].
    destruct (existsb _ _); [injection E as <-; apply wf_with_marks; reflexivity|].
    destruct (f_impl f _ _) eqn:I; try discriminate E. injection E as <-. apply wf_with_marks.
    eapply Himpl; [|exact I]. apply prep_wf, W.
Qed.

Lemma fn_upper_wf : fn_wf fn_upper.
Proof. apply fn_wf_of_impl. intros args rt v _ E. cbn in E. repeat bm E; try discriminate E. injection E as <-. reflexivity. Qed.
Lemma fn_fail_wf : fn_wf fn_fail.
Proof. apply fn_wf_of_impl. intros args rt v _ E. discriminate E. Qed.
Lemma fn_isnull_wf : fn_wf fn_isnull.
Proof. apply fn_wf_of_impl. intros args rt v _ E. cbn in E. repeat bm E; try discriminate E. injection E as <-. reflexivity. Qed.
Lemma fn_pair_wf : fn_wf fn_pair.
Proof.
  apply fn_wf_of_impl. intros args rt v W E. cbn in E. repeat bm E; try discriminate E. injection E as <-. subst.
  inversion W as [|? ? W1 W']; subst. inversion W' as [|? ? W2 _]; subst.
  unfold wf in *. cbn [wfb forallb]. rewrite W1, W2. reflexivity.
Qed.
Lemma fn_first_wf : fn_wf fn_first.
Proof.
  intros args v W E. destruct args as [|a r]; [discriminate E|]. rewrite fn_call_first in E. injection E as <-.
  inversion W; assumption.
Qed.
Lemma fn_sum_wf : fn_wf fn_sum.
Proof.
  apply fn_wf_of_impl. intros args rt v _ E. cbn [fn_sum f_impl] in E.
  assert (X : forall l acc, (forall x, acc = OOk x -> wf x) ->
     fold_left (fun acc a => match acc, a with
            | OOk (VNum x), VNum y => match num_add x y with Some n => OOk (VNum n) | None => OErr OEOther end
            | OOk _, _ => OUnsupported
            | o, _ => o
            end) l acc = OOk v -> wf v).
  { induction l as [|a l IHl]; cbn [fold_left]; intros acc Ha F; [apply Ha, F|].
    eapply IHl; [|exact F]. intros x Ex. repeat bm Ex; try discriminate Ex; injection Ex as <-; reflexivity. }
  eapply X; [|exact E]. intros x Ex. injection Ex as <-. reflexivity.
Qed.

Lemma fn_upper_ok m : fn_ok m fn_upper.  Proof. repeat split; [apply fn_upper_ni|apply fn_upper_wf]. Qed.
Lemma fn_sum_ok m : fn_ok m fn_sum.      Proof. repeat split; [apply fn_sum_ni|apply fn_sum_wf]. Qed.
Lemma fn_first_ok m : fn_ok m fn_first.  Proof. repeat split; [apply fn_first_ni|apply fn_first_wf]. Qed.
Lemma fn_fail_ok m : fn_ok m fn_fail.    Proof. repeat split; [apply fn_fail_ni|apply fn_fail_wf]. Qed.
Lemma fn_isnull_ok m : fn_ok m fn_isnull. Proof. repeat split; [apply fn_isnull_ni|apply fn_isnull_wf]. Qed.
Lemma fn_pair_ok m : fn_ok m fn_pair.    Proof. repeat split; [apply fn_pair_ni|apply fn_pair_wf]. Qed.
