(* Eval/UnknownSound_Ops.v — C05: hcl.Index, hcl.GetAttr, traversals and the operator functions
   preserve the side invariant [inv] and are monotone for the strict concretisation [gsb]. *)
From Coq Require Import QArith Qreduction.
From HclV Require Import Base.Prelude Cty.Values Cty.Convert Cty.Ops Eval.Impl
                         Eval.UnknownSound_Base Eval.UnknownSound_Known Eval.UnknownSound_Gamma
                         Eval.UnknownSound_Conv Eval.UnknownSound_Conv2.
Open Scope Z_scope.
Local Strategy opaque [equals val_size unmark_deep deep_marks unify_n convert].

(* ---- simplifications for mark-free values ------------------------------------------------------------ *)
Lemma inv_is_null v : inv v = true -> is_null v = null_shape v.
Proof. intros I. apply is_null_unmarked. apply inv_not_marked. exact I. Qed.
Lemma inv_with_same_marks v s : inv s = true -> with_same_marks v s = v.
Proof. intros I. unfold with_same_marks. rewrite (inv_marks_of s I). reflexivity. Qed.
Lemma inv_is_known v : inv v = true -> is_known v = match v with VUnk _ _ => false | _ => true end.
Proof. intros I. unfold is_known. rewrite (inv_unmark v I). reflexivity. Qed.
Lemma inv_dyn_val : inv dyn_val = true. Proof. reflexivity. Qed.
Lemma inv_unk_none t : inv (VUnk t rf_none) = true. Proof. reflexivity. Qed.

Lemma nth_opt_all2 {A B} (f : A -> B -> bool) la lc i :
  all2 f la lc = true ->
  match nth_opt la i, nth_opt lc i with
  | Some x, Some y => f x y = true
  | None, None => True
  | _, _ => False
  end.
Proof.
  revert lc i. induction la as [|x ra IH]; intros [|y rc] i H; simpl in *; try discriminate.
  - destruct i; exact I.
  - apply andb_true_iff in H as [H1 H2]. destruct i as [|i]; [exact H1|apply IH; exact H2].
Qed.

Lemma inv_nth_list t l i x : inv (VList t l) = true -> nth_opt l i = Some x -> inv x = true /\ type_of x = t.
Proof. intros I E. apply (inv_elem_list _ _ _ I (nth_opt_In _ _ _ E)). Qed.
Lemma inv_nth_tuple l i x : inv (VTuple l) = true -> nth_opt l i = Some x -> inv x = true.
Proof. intros I E. apply (inv_elem_tuple _ _ I (nth_opt_In _ _ _ E)). Qed.
Lemma inv_assoc_map t l k x : inv (VMap t l) = true -> assoc_get k l = Some x -> inv x = true /\ type_of x = t.
Proof. intros I E. apply assoc_get_In in E as [k' Hin]. apply (inv_elem_map _ _ _ _ I Hin). Qed.
Lemma inv_assoc_obj l k x : inv (VObj l) = true -> assoc_get k l = Some x -> inv x = true.
Proof. intros I E. apply assoc_get_In in E as [k' Hin]. apply (inv_elem_obj _ _ _ I Hin). Qed.

(* ---- hcl.Index: invariant ------------------------------------------------------------------------------ *)
Lemma index_known_inv cu ku v : inv cu = true -> index_known cu ku = Some v -> inv v = true.
Proof.
  intros I E. destruct cu; simpl in E; try discriminate.
  - destruct t; try discriminate. destruct ku; try discriminate.
    destruct (index_of_num n); [|discriminate]. destruct (nth_opt ts n0); [|discriminate]. injection E as <-. reflexivity.
  - destruct ku; try discriminate. destruct (index_of_num n); [|discriminate]. apply (inv_nth_list _ _ _ _ I E).
  - destruct ku; try discriminate. apply (inv_assoc_map _ _ _ _ I E).
  - destruct ku; try discriminate. destruct (index_of_num n); [|discriminate]. apply (inv_nth_tuple _ _ _ I E).
Qed.

Lemma index_inv coll key : inv coll = true -> inv key = true -> inv (fst (index coll key)) = true.
Proof.
  intros Ic Ik. unfold index.
  destruct (is_null coll); [reflexivity|]. destruct (is_null key); [reflexivity|].
  rewrite (inv_with_same_marks _ _ Ic), (inv_with_same_marks _ _ Ik).
  destruct (ty_eqb (type_of key) TDyn || ty_eqb (type_of coll) TDyn); [reflexivity|].
  rewrite (inv_unmark coll Ic).
  assert (Core : forall want,
    inv (fst match conv key want with
             | COk key' =>
                 let '(ku, km) := unmark key' in
                 match has_index coll ku with
                 | HTrue => match index_known coll ku with
                            | Some v => (with_marks (with_marks v []) km, [])
                            | None => (dyn_val, [dunsupported]) end
                 | HFalse => (dyn_val, [derr S_InvalidIndex []])
                 | HUnknown =>
                     match type_of coll with
                     | TList et | TMap et => (with_marks (with_same_marks (VUnk et rf_none) coll) km, [])
                     | TTuple _ => (with_marks dyn_val km, [])
                     | _ => (dyn_val, [dunsupported])
                     end
                 end
             | CErr e => (dyn_val, [derr S_InvalidIndex [FConv e]])
             | CUnsupported => (dyn_val, [dunsupported])
             end) = true).
  { intros want. destruct (conv key want) as [key'| |] eqn:Ek; try reflexivity.
    pose proof (conv_inv_pres _ _ _ Ik Ek) as Ik'. rewrite (inv_unmark key' Ik').
    destruct (has_index coll key').
    - destruct (index_known coll key') eqn:Ei; [|reflexivity]. simpl. apply (index_known_inv _ _ _ Ic Ei).
    - reflexivity.
    - destruct (type_of coll); try reflexivity; unfold with_same_marks; rewrite (inv_marks_of coll Ic); reflexivity. }
  destruct (type_of coll) eqn:Tc; try reflexivity; try (apply Core).
  (* object *)
  destruct (conv key TStr) as [key'| |] eqn:Ek; try reflexivity.
  pose proof (conv_inv_pres _ _ _ Ik Ek) as Ik'. rewrite (inv_unmark key' Ik').
  destruct (negb (is_known key'));
    [unfold with_same_marks; rewrite ?(inv_marks_of coll Ic), ?(inv_marks_of key' Ik'); reflexivity|]. simpl.
  destruct key'; try reflexivity. destruct (assoc_get s fs); [|reflexivity].
  destruct (negb (is_known coll)); [unfold with_same_marks; rewrite (inv_marks_of coll Ic); reflexivity|].
  destruct coll; try reflexivity. destruct (assoc_get s l) eqn:Ea; [|reflexivity].
  simpl. apply (inv_assoc_obj _ _ _ Ic Ea).
Qed.

(* ---- hcl.Index: what an error-free call on wholly known values returns ----------------------------------- *)
Definition index_spec (coll key r : val) : Prop :=
  null_shape coll = false /\ null_shape key = false /\
  match coll with
  | VList _ l | VTuple l =>
      exists n i, conv key TNum = COk (VNum n) /\ index_of_num n = Some i /\ nth_opt l i = Some r
  | VMap _ l | VObj l => exists s, conv key TStr = COk (VStr s) /\ assoc_get s l = Some r
  | _ => False
  end.

Lemma wk_type_not_dyn v : wholly_known v = true -> is_marked v = false -> null_shape v = false -> type_of v <> TDyn.
Proof. intros W M N T. destruct v; simpl in *; try discriminate. Qed.

Lemma conv_prim_known_shape u t r : wholly_known u = true -> inv u = true -> null_shape u = false ->
  is_prim t = true -> conv u t = COk r ->
  match t with TStr => exists s, r = VStr s | TNum => exists n, r = VNum n | TBool => exists b, r = VBool b | _ => True end.
Proof.
  intros W I N Hp E.
  assert (Hd : has_dyn t = false) by (destruct t; try discriminate; reflexivity).
  pose proof (conv_good _ _ _ (inv_good _ I W) E) as Gr. pose proof (conv_type _ _ _ E Hd) as Tr.
  pose proof (conv_inv_pres _ _ _ I E) as Ir. pose proof (inv_not_marked _ Ir) as Mr.
  assert (Nr : null_shape r = false).
  { destruct (null_shape r) eqn:Nr; [|reflexivity].
    rewrite (conv_null_inv _ _ _ E (inv_not_marked _ I) Nr) in N. discriminate. }
  destruct t; try discriminate.
  - destruct (good_str_shape r Gr Mr Tr) as [[s ->]| ->]; [eexists; reflexivity|discriminate].
  - destruct (good_num_shape r Gr Mr Tr) as [[s ->]| ->]; [eexists; reflexivity|discriminate].
  - destruct (good_bool_shape r Gr Mr Tr) as [[s ->]| ->]; [eexists; reflexivity|discriminate].
Qed.

Lemma index_known_spec coll key r ds :
  inv coll = true -> inv key = true -> wholly_known coll = true -> wholly_known key = true ->
  index coll key = (r, ds) -> diag_ok ds = true -> index_spec coll key r.
Proof.
  intros Ic Ik Wc Wk E D. unfold index in E.
  rewrite (inv_is_null _ Ic), (inv_is_null _ Ik) in E.
  destruct (null_shape coll) eqn:Nc; [pair_bad E|]. destruct (null_shape key) eqn:Nk; [pair_bad E|].
  pose proof (wk_type_not_dyn _ Wc (inv_not_marked _ Ic) Nc) as Tc.
  pose proof (wk_type_not_dyn _ Wk (inv_not_marked _ Ik) Nk) as Tk.
  apply ty_eqb_neq in Tc, Tk. rewrite Tc, Tk in E. cbn [orb] in E.
  rewrite (inv_unmark coll Ic) in E.
  split; [exact Nc|]. split; [exact Nk|].
  destruct coll; try discriminate Nc; try discriminate Wc; try discriminate Ic; simpl in E; try (pair_bad E).
  - (* list *)
    destruct (conv key TNum) as [key'| |] eqn:Ek; try (pair_bad E).
    destruct (conv_prim_known_shape key TNum key' Wk Ik Nk eq_refl Ek) as [n ->]. unfold has_index, index_known in E; cbn [type_of unmark with_marks] in E.
    destruct (index_of_num n) as [i|] eqn:Ei; cbv beta iota in E; [|pair_bad E].
    destruct (i <? length l)%nat; cbv beta iota in E; [|pair_bad E].
    destruct (nth_opt l i) eqn:En; cbv beta iota in E; [|pair_bad E]. injection E as <- _. exists n, i. auto.
  - (* map *)
    destruct (conv key TStr) as [key'| |] eqn:Ek; try (pair_bad E).
    destruct (conv_prim_known_shape key TStr key' Wk Ik Nk eq_refl Ek) as [s ->]. unfold has_index, index_known in E; cbn [type_of unmark with_marks] in E.
    destruct (assoc_get s l) eqn:Ea; cbv beta iota in E; [|pair_bad E]. injection E as <- _. exists s. auto.
  - (* tuple *)
    destruct (conv key TNum) as [key'| |] eqn:Ek; try (pair_bad E).
    destruct (conv_prim_known_shape key TNum key' Wk Ik Nk eq_refl Ek) as [n ->]. unfold has_index, index_known in E; cbn [type_of unmark with_marks] in E.
    destruct (index_of_num n) as [i|] eqn:Ei; cbv beta iota in E; [|pair_bad E].
    rewrite map_length in E. destruct (i <? length l)%nat; cbv beta iota in E; [|pair_bad E].
    destruct (nth_opt l i) eqn:En; cbv beta iota in E; [|pair_bad E]. injection E as <- _. exists n, i. auto.
  - (* object *)
    destruct (conv key TStr) as [key'| |] eqn:Ek; try (pair_bad E).
    destruct (conv_prim_known_shape key TStr key' Wk Ik Nk eq_refl Ek) as [s ->]. simpl in E.
    destruct (assoc_get s (map (fun p : list Z * val => (fst p, type_of (snd p))) l)); cbv beta iota in E; [|pair_bad E].
    destruct (assoc_get s l) eqn:Ea; cbv beta iota in E; [|pair_bad E]. injection E as <- _. exists s. auto.
Qed.

(* ---- hcl.Index: soundness ---------------------------------------------------------------------------- *)
Lemma conf_list_inv h e : conf h (TList e) = true -> exists e', h = TList e' /\ conf e' e = true.
Proof. destruct h; simpl; try discriminate. intros H. eexists. split; [reflexivity|exact H]. Qed.
Lemma conf_map_inv h e : conf h (TMap e) = true -> exists e', h = TMap e' /\ conf e' e = true.
Proof. destruct h; simpl; try discriminate. intros H. eexists. split; [reflexivity|exact H]. Qed.
Lemma conf_tuple_inv h ts : conf h (TTuple ts) = true -> exists xs, h = TTuple xs /\ all2 conf xs ts = true.
Proof. destruct h; simpl; try discriminate. intros H. eexists. split; [reflexivity|exact H]. Qed.
Lemma conf_obj_inv h fs : conf h (TObj fs) = true ->
  exists xs, h = TObj xs /\ all2 (fun p q => str_eqb (fst p) (fst q) && conf (snd p) (snd q)) xs fs = true.
Proof. destruct h; simpl; try discriminate. intros H. eexists. split; [reflexivity|exact H]. Qed.

Lemma assoc_get_conf k (xs fs : list (list Z * ty)) :
  all2 (fun p q => str_eqb (fst p) (fst q) && conf (snd p) (snd q)) xs fs = true ->
  match assoc_get k xs, assoc_get k fs with
  | Some a, Some b => conf a b = true
  | None, None => True
  | _, _ => False
  end.
Proof.
  revert fs. induction xs as [|[ka xa] ra IH]; intros [|[kc xc] rc] H; simpl in *; try discriminate; [exact I|].
  apply andb_true_iff in H as [H1 H2]. apply andb_true_iff in H1 as [Hk Hx]. apply str_eqb_eq in Hk. subst kc.
  destruct (str_eqb k ka); [exact Hx|apply IH; exact H2].
Qed.

Lemma assoc_get_map_type k (l : list (list Z * val)) :
  assoc_get k (map (fun p => (fst p, type_of (snd p))) l) = option_map type_of (assoc_get k l).
Proof. induction l as [|[k' v] r IH]; simpl; [reflexivity|]. destruct (str_eqb k k'); [reflexivity|exact IH]. Qed.

Lemma nth_opt_map {A B} (g : A -> B) l i : nth_opt (map g l) i = option_map g (nth_opt l i).
Proof. revert i. induction l as [|x r IH]; intros [|i]; simpl; try reflexivity. apply IH. Qed.

Lemma index_gs cA kA cC kC rA dA rC dC :
  inv cA = true -> inv kA = true -> inv cC = true -> inv kC = true ->
  gsb cA cC = true -> gsb kA kC = true ->
  index cA kA = (rA, dA) -> index cC kC = (rC, dC) -> diag_ok dA = true -> diag_ok dC = true ->
  gsb rA rC = true.
Proof.
  intros IcA IkA IcC IkC Gc Gk EA EC DA DC.
  pose proof (gsb_wk _ _ Gc) as WcC. pose proof (gsb_wk _ _ Gk) as WkC.
  pose proof (index_known_spec cC kC rC dC IcC IkC WcC WkC EC DC) as [NcC [NkC Spec]].
  assert (WrC : wholly_known rC = true).
  { pose proof (index_good cC kC rC dC (inv_good _ IcC WcC) (inv_good _ IkC WkC) EC DC) as G. apply good_iff in G. tauto. }
  pose proof (gsb_type _ _ Gc) as Tcf.
  unfold index in EA. rewrite (inv_is_null _ IcA), (inv_is_null _ IkA) in EA.
  destruct (null_shape cA) eqn:NcA; [pair_bad EA|]. destruct (null_shape kA) eqn:NkA; [pair_bad EA|].
  rewrite (inv_with_same_marks _ _ IcA), (inv_with_same_marks _ _ IkA) in EA.
  destruct (ty_eqb (type_of kA) TDyn || ty_eqb (type_of cA) TDyn).
  { injection EA as <- _. apply gsb_dyn_val. exact WrC. }
  rewrite (inv_unmark cA IcA) in EA.
  destruct (type_of cA) eqn:TcA; try (pair_bad EA).
  - (* list *)
    destruct (conf_list_inv _ _ Tcf) as [et' [TcC Cet]].
    destruct (conv kA TNum) as [kA'| |] eqn:EkA; try (pair_bad EA).
    pose proof (conv_inv_pres _ _ _ IkA EkA) as IkA'. rewrite (inv_unmark kA' IkA') in EA.
    destruct cC; try contradiction; try discriminate TcC. injection TcC as ->.
    destruct Spec as [n [i [EkC [Ei En]]]].
    pose proof (conv_gs_prim kA kC TNum kA' (VNum n) eq_refl IkA IkC Gk EkA EkC) as Gk'.
    destruct (has_index cA kA') eqn:Hi.
    + (* HTrue *)
      unfold has_index in Hi. rewrite TcA in Hi.
      destruct kA'; try discriminate. simpl in Gk'. destruct cA; try discriminate.
      simpl in Gc. apply andb_true_iff in Gc as [_ Gc]. apply num_leib_eq in Gk'. subst n0.
      simpl in EA. rewrite Ei in EA. pose proof (nth_opt_all2 gsb _ _ i Gc) as Hn. rewrite En in Hn.
      destruct (nth_opt l0 i); [|contradiction]. injection EA as <- _. exact Hn.
    + pair_bad EA.
    + (* HUnknown *)
      rewrite (inv_with_same_marks _ _ IcA) in EA. injection EA as <- _.
      apply gsb_unk_none; [exact WrC|]. destruct (inv_nth_list _ _ _ _ IcC En) as [_ ->]. exact Cet.
  - (* map *)
    destruct (conf_map_inv _ _ Tcf) as [et' [TcC Cet]].
    destruct (conv kA TStr) as [kA'| |] eqn:EkA; try (pair_bad EA).
    pose proof (conv_inv_pres _ _ _ IkA EkA) as IkA'. rewrite (inv_unmark kA' IkA') in EA.
    destruct cC; try contradiction; try discriminate TcC. injection TcC as ->.
    destruct Spec as [s [EkC Ea]].
    pose proof (conv_gs_prim kA kC TStr kA' (VStr s) eq_refl IkA IkC Gk EkA EkC) as Gk'.
    destruct (has_index cA kA') eqn:Hi.
    + unfold has_index in Hi. rewrite TcA in Hi.
      destruct kA'; try discriminate. simpl in Gk'. destruct cA; try discriminate.
      simpl in Gc. apply andb_true_iff in Gc as [_ Gc]. apply str_eqb_eq in Gk'. subst s0.
      simpl in EA. pose proof (assoc_get_all2 s _ _ Gc) as Hn. rewrite Ea in Hn.
      destruct (assoc_get s l0); [|contradiction]. injection EA as <- _. exact Hn.
    + pair_bad EA.
    + rewrite (inv_with_same_marks _ _ IcA) in EA. injection EA as <- _.
      apply gsb_unk_none; [exact WrC|]. destruct (inv_assoc_map _ _ _ _ IcC Ea) as [_ ->]. exact Cet.
  - (* tuple *)
    destruct (conf_tuple_inv _ _ Tcf) as [xs [TcC Cts]].
    destruct (conv kA TNum) as [kA'| |] eqn:EkA; try (pair_bad EA).
    pose proof (conv_inv_pres _ _ _ IkA EkA) as IkA'. rewrite (inv_unmark kA' IkA') in EA.
    destruct cC; try contradiction; try discriminate TcC. injection TcC as <-.
    destruct Spec as [n [i [EkC [Ei En]]]].
    pose proof (conv_gs_prim kA kC TNum kA' (VNum n) eq_refl IkA IkC Gk EkA EkC) as Gk'.
    destruct (has_index cA kA') eqn:Hi.
    + unfold has_index in Hi. rewrite TcA in Hi.
      destruct kA'; try discriminate. simpl in Gk'. apply num_leib_eq in Gk'. subst n0. rewrite Ei in Hi.
      destruct (index_known cA (VNum n)) as [v|] eqn:Ik; [|pair_bad EA]. injection EA as <- _.
      destruct cA; try discriminate; simpl in Ik.
      * (* unknown tuple *)
        simpl in TcA. subst t. rewrite Ei in Ik. destruct (nth_opt ts i) as [ti|] eqn:Eti; [|discriminate].
        injection Ik as <-. apply gsb_unk_none; [exact WrC|].
        pose proof (nth_opt_all2 conf _ _ i Cts) as Hn. rewrite nth_opt_map, En, Eti in Hn. exact Hn.
      * (* known tuple *)
        rewrite Ei in Ik. simpl in Gc. pose proof (nth_opt_all2 gsb _ _ i Gc) as Hn. rewrite Ik, En in Hn. exact Hn.
    + pair_bad EA.
    + injection EA as <- _. apply gsb_dyn_val. exact WrC.
  - (* object *)
    destruct (conf_obj_inv _ _ Tcf) as [xs [TcC Cfs]].
    destruct (conv kA TStr) as [kA'| |] eqn:EkA; try (pair_bad EA).
    pose proof (conv_inv_pres _ _ _ IkA EkA) as IkA'. rewrite (inv_unmark kA' IkA') in EA.
    destruct cC; try contradiction; try discriminate TcC. injection TcC as <-.
    destruct Spec as [s [EkC Ea]].
    pose proof (conv_gs_prim kA kC TStr kA' (VStr s) eq_refl IkA IkC Gk EkA EkC) as Gk'.
    destruct (negb (is_known kA')).
    { unfold with_same_marks in EA. rewrite ?(inv_marks_of cA IcA), ?(inv_marks_of kA' IkA') in EA.
      injection EA as <- _. apply gsb_dyn_val. exact WrC. }
    cbn [fst] in EA. destruct kA'; try (pair_bad EA). simpl in Gk'. apply str_eqb_eq in Gk'. subst s0.
    pose proof (assoc_get_conf s _ _ Cfs) as Hc. rewrite assoc_get_map_type, Ea in Hc. simpl in Hc.
    destruct (assoc_get s fs) as [at_|]; [|pair_bad EA].
    rewrite (inv_is_known _ IcA) in EA.
    destruct cA; try discriminate; simpl in EA.
    + (* unknown object *) injection EA as <- _. apply gsb_unk_none; [exact WrC|exact Hc].
    + (* known object *)
      simpl in Gc. pose proof (assoc_get_all2 s _ _ Gc) as Hn. rewrite Ea in Hn.
      destruct (assoc_get s l0); [|contradiction]. injection EA as <- _. exact Hn.
Qed.

(* ---- hcl.GetAttr ------------------------------------------------------------------------------------------ *)
Lemma get_attr_inv obj name : inv obj = true -> inv (fst (get_attr obj name)) = true.
Proof.
  intros I. unfold get_attr. destruct (is_null obj); [reflexivity|].
  rewrite (inv_unmark obj I).
  destruct (type_of obj) eqn:T; try reflexivity.
  - rewrite (inv_with_same_marks _ _ I). reflexivity.
  - destruct t; reflexivity.
  - destruct t; reflexivity.
  - destruct (negb (is_known obj)); [rewrite (inv_with_same_marks _ _ I); reflexivity|].
    destruct obj; try reflexivity. destruct (assoc_get name l) eqn:Ea; [|reflexivity].
    simpl. apply (inv_assoc_map _ _ _ _ I Ea).
  - destruct (assoc_get name fs); [|reflexivity].
    destruct (negb (is_known obj)); [rewrite (inv_with_same_marks _ _ I); reflexivity|].
    destruct obj; try reflexivity. destruct (assoc_get name l) eqn:Ea; [|reflexivity].
    simpl. apply (inv_assoc_obj _ _ _ I Ea).
Qed.

Lemma get_attr_known_spec obj name r ds :
  inv obj = true -> wholly_known obj = true -> get_attr obj name = (r, ds) -> diag_ok ds = true ->
  match obj with
  | VMap _ l | VObj l => assoc_get name l = Some r
  | _ => False
  end.
Proof.
  intros I W E D. unfold get_attr in E. rewrite (inv_is_null _ I) in E.
  destruct (null_shape obj) eqn:N; [pair_bad E|]. rewrite (inv_unmark obj I) in E.
  destruct obj; try discriminate N; try discriminate W; try discriminate I; simpl in E; try (pair_bad E).
  - destruct t; pair_bad E.
  - destruct t; pair_bad E.
  - destruct (assoc_get name l); [|pair_bad E]. injection E as <- _. reflexivity.
  - rewrite assoc_get_map_type in E. destruct (assoc_get name l); simpl in E; [|pair_bad E].
    injection E as <- _. reflexivity.
Qed.

Lemma get_attr_gs oA oC name rA dA rC dC :
  inv oA = true -> inv oC = true -> gsb oA oC = true ->
  get_attr oA name = (rA, dA) -> get_attr oC name = (rC, dC) -> diag_ok dA = true -> diag_ok dC = true ->
  gsb rA rC = true.
Proof.
  intros IA IC G EA EC DA DC.
  pose proof (gsb_wk _ _ G) as WC. pose proof (get_attr_known_spec oC name rC dC IC WC EC DC) as Spec.
  assert (WrC : wholly_known rC = true).
  { pose proof (get_attr_good oC name rC dC (inv_good _ IC WC) EC DC) as Gr. apply good_iff in Gr. tauto. }
  pose proof (gsb_type _ _ G) as Tcf.
  unfold get_attr in EA. rewrite (inv_is_null _ IA) in EA.
  destruct (null_shape oA) eqn:NA; [pair_bad EA|]. rewrite (inv_unmark oA IA) in EA.
  destruct (type_of oA) eqn:TA; try (pair_bad EA).
  - injection EA as <- _. rewrite (inv_with_same_marks _ _ IA). apply gsb_dyn_val. exact WrC.
  - destruct t; pair_bad EA.
  - destruct t; pair_bad EA.
  - (* map *)
    destruct (conf_map_inv _ _ Tcf) as [et' [TcC Cet]].
    destruct oC; try contradiction; try discriminate TcC. injection TcC as ->.
    rewrite (inv_is_known _ IA) in EA. destruct oA; try discriminate; simpl in EA.
    + injection EA as <- _. apply gsb_unk_none; [exact WrC|]. destruct (inv_assoc_map _ _ _ _ IC Spec) as [_ ->]. exact Cet.
    + simpl in G. apply andb_true_iff in G as [_ G]. pose proof (assoc_get_all2 name _ _ G) as Hn. rewrite Spec in Hn.
      destruct (assoc_get name l0); [|contradiction]. injection EA as <- _. exact Hn.
  - (* object *)
    destruct (conf_obj_inv _ _ Tcf) as [xs [TcC Cfs]].
    destruct oC; try contradiction; try discriminate TcC. injection TcC as <-.
    pose proof (assoc_get_conf name _ _ Cfs) as Hc. rewrite assoc_get_map_type, Spec in Hc. simpl in Hc.
    destruct (assoc_get name fs) as [at_|]; [|pair_bad EA].
    rewrite (inv_is_known _ IA) in EA. destruct oA; try discriminate; simpl in EA.
    + injection EA as <- _. apply gsb_unk_none; [exact WrC|exact Hc].
    + simpl in G. pose proof (assoc_get_all2 name _ _ G) as Hn. rewrite Spec in Hn.
      destruct (assoc_get name l0); [|contradiction]. injection EA as <- _. exact Hn.
Qed.

(* ---- relative traversals -------------------------------------------------------------------------------- *)
Definition step_inv (s : step) : bool :=
  match s with SAttr _ => true | SIndex k => wholly_known k && inv k end.

Lemma traverse_rel_inv : forall steps v acc,
  forallb step_inv steps = true -> inv v = true -> inv (fst (traverse_rel steps v acc)) = true.
Proof.
  induction steps as [|s r IH]; intros v acc So I; simpl; [exact I|].
  simpl in So. apply andb_true_iff in So as [So1 So2].
  destruct (match s with SAttr n => get_attr v n | SIndex k => index v k end) as [v' ds] eqn:Es.
  destruct (has_errors ds); [reflexivity|]. apply IH; [exact So2|].
  destruct s as [n|k]; simpl in So1.
  - pose proof (get_attr_inv v n I) as H. rewrite Es in H. exact H.
  - apply andb_true_iff in So1 as [_ Ik]. pose proof (index_inv v k I Ik) as H. rewrite Es in H. exact H.
Qed.

Lemma traverse_rel_gs : forall steps vA vC accA accC rA dA rC dC,
  forallb step_inv steps = true -> inv vA = true -> inv vC = true -> gsb vA vC = true ->
  traverse_rel steps vA accA = (rA, dA) -> traverse_rel steps vC accC = (rC, dC) ->
  diag_ok dA = true -> diag_ok dC = true -> gsb rA rC = true.
Proof.
  induction steps as [|s r IH]; intros vA vC accA accC rA dA rC dC So IA IC G EA EC DA DC; simpl in EA, EC.
  - injection EA as <- _. injection EC as <- _. exact G.
  - simpl in So. apply andb_true_iff in So as [So1 So2].
    destruct (match s with SAttr n => get_attr vA n | SIndex k => index vA k end) as [vA' dsA] eqn:EsA.
    destruct (match s with SAttr n => get_attr vC n | SIndex k => index vC k end) as [vC' dsC] eqn:EsC.
    destruct (has_errors dsA) eqn:HeA.
    { injection EA as _ <-. rewrite diag_ok_app, (diag_ok_has_errors _ HeA), andb_false_r in DA. discriminate. }
    destruct (has_errors dsC) eqn:HeC.
    { injection EC as _ <-. rewrite diag_ok_app, (diag_ok_has_errors _ HeC), andb_false_r in DC. discriminate. }
    pose proof (traverse_rel_acc_ok _ _ _ _ _ EA DA) as DaA. rewrite diag_ok_app in DaA. apply andb_true_iff in DaA as [_ DsA].
    pose proof (traverse_rel_acc_ok _ _ _ _ _ EC DC) as DaC. rewrite diag_ok_app in DaC. apply andb_true_iff in DaC as [_ DsC].
    apply (IH vA' vC' (accA ++ dsA) (accC ++ dsC) rA dA rC dC So2); try assumption.
    + destruct s as [n|k]; simpl in So1.
      * pose proof (get_attr_inv vA n IA) as H. rewrite EsA in H. exact H.
      * apply andb_true_iff in So1 as [_ Ik]. pose proof (index_inv vA k IA Ik) as H. rewrite EsA in H. exact H.
    + destruct s as [n|k]; simpl in So1.
      * pose proof (get_attr_inv vC n IC) as H. rewrite EsC in H. exact H.
      * apply andb_true_iff in So1 as [_ Ik]. pose proof (index_inv vC k IC Ik) as H. rewrite EsC in H. exact H.
    + destruct s as [n|k]; simpl in So1.
      * apply (get_attr_gs vA vC n vA' dsA vC' dsC IA IC G EsA EsC DsA DsC).
      * apply andb_true_iff in So1 as [Wk Ik].
        apply (index_gs vA k vC k vA' dsA vC' dsC IA Ik IC Ik G (gsb_refl_inv k Wk Ik) EsA EsC DsA DsC).
Qed.

(* ---- operator functions ---------------------------------------------------------------------------------- *)
Lemma refn_ok_notnull v : null_shape v = false -> refn_ok refn_notnull v = true.
Proof.
  intros N. destruct v; try reflexivity; try discriminate; simpl; unfold len_ok; simpl;
    rewrite andb_true_r; apply Z.leb_le; apply Nat2Z.is_nonneg.
Qed.

Lemma gsb_unk_notnull t v : wholly_known v = true -> type_of v = t -> null_shape v = false ->
  gsb (VUnk t rf_notnull) v = true.
Proof. intros W T N. simpl. unfold conc. rewrite W, T, conf_refl. simpl. apply refn_ok_notnull. exact N. Qed.

Lemma canon_num_neg n : canon_num (num_neg n) = true.
Proof. destruct n; unfold num_neg; [apply canon_nq|reflexivity]. Qed.
Lemma canon_num_add x y n : canon_num x = true -> canon_num y = true -> num_add x y = Some n -> canon_num n = true.
Proof.
  intros Cx Cy E. destruct x, y; unfold num_add in E.
  - injection E as <-. apply canon_nq.
  - injection E as <-. reflexivity.
  - injection E as <-. reflexivity.
  - destruct (Bool.eqb positive positive0); [injection E as <-; reflexivity|discriminate].
Qed.
Lemma canon_num_mul x y n : num_mul x y = Some n -> canon_num n = true.
Proof.
  intros E. destruct x, y; unfold num_mul in E; try (injection E as <-; apply canon_nq);
    match type of E with (if ?c then _ else _) = _ => destruct c end; try discriminate; injection E as <-; reflexivity.
Qed.
Lemma canon_num_div x y n : num_div x y = Some n -> canon_num n = true.
Proof.
  intros E. destruct x, y; unfold num_div in E; try discriminate.
  - destruct (Qnum q0 =? 0).
    + destruct (Qnum q =? 0); [discriminate|injection E as <-; reflexivity].
    + injection E as <-. apply canon_nq.
  - injection E as <-. apply canon_nz.
  - injection E as <-. reflexivity.
Qed.
Lemma canon_num_mod x y n : canon_num x = true -> num_mod x y = Some n -> canon_num n = true.
Proof.
  intros Cx E. destruct x, y; unfold num_mod in E.
  - destruct (Qnum q0 =? 0); injection E as <-; [exact Cx|apply canon_nq].
  - apply (canon_num_mul _ _ _ E).
  - apply (canon_num_mul _ _ _ E).
  - apply (canon_num_mul _ _ _ E).
Qed.

Lemma lift_marks_nil o : lift_marks [] o = o.
Proof. destruct o; reflexivity. Qed.

Lemma call_unop_inv op a r : inv a = true -> call_unop op a = OOk r -> inv r = true.
Proof.
  intros I E. destruct op; simpl in E.
  - rewrite (inv_unmark a I) in E. rewrite lift_marks_nil in E.
    destruct a; try discriminate; injection E as <-; reflexivity.
  - rewrite (inv_deep_marks a I), (inv_unmark_deep a I), lift_marks_nil in E.
    destruct a; try discriminate; injection E as <-; try reflexivity. cbn [inv]. apply canon_num_neg.
Qed.

(* shapes of mark-free values of primitive type *)
Lemma inv_bool_shape a : inv a = true -> type_of a = TBool ->
  (exists b, a = VBool b) \/ a = VNull TBool \/ exists r, a = VUnk TBool r.
Proof.
  intros I T. destruct a; simpl in *; try discriminate.
  - left. eexists. reflexivity.
  - right. left. congruence.
  - right. right. subst. eexists. reflexivity.
Qed.
Lemma inv_num_shape a : inv a = true -> type_of a = TNum ->
  (exists n, a = VNum n) \/ a = VNull TNum \/ exists r, a = VUnk TNum r.
Proof.
  intros I T. destruct a; simpl in *; try discriminate.
  - left. eexists. reflexivity.
  - right. left. congruence.
  - right. right. subst. eexists. reflexivity.
Qed.

Lemma call_unop_known_shape op c r : inv c = true -> wholly_known c = true -> type_of c = unop_param op ->
  call_unop op c = OOk r -> wholly_known r = true /\ type_of r = unop_type op /\ null_shape r = false.
Proof.
  intros I W T E. destruct op; simpl in T, E.
  - rewrite (inv_unmark c I), lift_marks_nil in E.
    destruct (inv_bool_shape c I T) as [[b ->]|[->|[r0 ->]]]; try discriminate. injection E as <-. auto.
  - rewrite (inv_deep_marks c I), (inv_unmark_deep c I), lift_marks_nil in E.
    destruct (inv_num_shape c I T) as [[b ->]|[->|[r0 ->]]]; try discriminate. injection E as <-. auto.
Qed.

Lemma call_unop_gs op a c ra rc :
  inv a = true -> inv c = true -> gsb a c = true -> type_of a = unop_param op ->
  call_unop op a = OOk ra -> call_unop op c = OOk rc -> gsb ra rc = true.
Proof.
  intros Ia Ic G Ta Ea Ec.
  assert (Tc : type_of c = unop_param op).
  { rewrite <- Ta. apply (gsb_type_eq a c G). rewrite Ta. destruct op; reflexivity. }
  pose proof (gsb_wk _ _ G) as Wc.
  destruct (call_unop_known_shape op c rc Ic Wc Tc Ec) as [Wr [Tr Nr]].
  destruct (wholly_known a) eqn:Wa.
  - rewrite (gsb_known_eq a c Wa G) in Ec. rewrite Ea in Ec. injection Ec as <-.
    apply gsb_refl_inv; [exact Wr|apply (call_unop_inv op a ra Ia Ea)].
  - assert (Ra : ra = VUnk (unop_type op) rf_notnull).
    { destruct op; simpl in Ta, Ea.
      - rewrite (inv_unmark a Ia), lift_marks_nil in Ea.
        destruct (inv_bool_shape a Ia Ta) as [[b ->]|[->|[r0 ->]]]; try discriminate. injection Ea as <-. reflexivity.
      - rewrite (inv_deep_marks a Ia), (inv_unmark_deep a Ia), lift_marks_nil in Ea.
        destruct (inv_num_shape a Ia Ta) as [[b ->]|[->|[r0 ->]]]; try discriminate. injection Ea as <-. reflexivity. }
    subst ra. apply gsb_unk_notnull; assumption.
Qed.

Definition is_eq_op (o : binop) : bool := match o with OpEq | OpNe => true | _ => false end.

Lemma call_binop_inv op a b r : is_eq_op op = false -> inv a = true -> inv b = true ->
  call_binop op a b = OOk r -> inv r = true.
Proof.
  intros Ho Ia Ib E. destruct op; try discriminate Ho; cbn [call_binop] in E.
  1,2: destruct a; try discriminate; destruct b; try discriminate; injection E as <-; reflexivity.
  1-4: destruct a; try discriminate; destruct b; try discriminate;
       try (injection E as <-; reflexivity);
       match type of E with (if ?c then _ else _) = _ => destruct c end; try discriminate; injection E as <-; reflexivity.
  all: destruct a; try discriminate; destruct b; try discriminate; try (injection E as <-; reflexivity).
  all: match type of E with match ?o with _ => _ end = _ => destruct o eqn:Eo end; try discriminate; injection E as <-; cbn [inv].
  - apply (canon_num_add _ _ _ Ia Ib Eo).
  - apply (canon_num_add n (num_neg n0) _ Ia (canon_num_neg n0) Eo).
  - apply (canon_num_mul _ _ _ Eo).
  - apply (canon_num_div _ _ _ Eo).
  - apply (canon_num_mod _ _ _ Ia Eo).
Qed.

Lemma call_binop_known_shape op c1 c2 r : is_eq_op op = false ->
  inv c1 = true -> inv c2 = true -> wholly_known c1 = true -> wholly_known c2 = true ->
  type_of c1 = binop_param op -> type_of c2 = binop_param op ->
  call_binop op c1 c2 = OOk r -> wholly_known r = true /\ type_of r = binop_type op /\ null_shape r = false.
Proof.
  intros Ho I1 I2 W1 W2 T1 T2 E. destruct op; try discriminate Ho; simpl in T1, T2; cbn [call_binop] in E.
  1,2: destruct (inv_bool_shape c1 I1 T1) as [[x ->]|[->|[r0 ->]]]; try discriminate;
       destruct (inv_bool_shape c2 I2 T2) as [[y ->]|[->|[r1 ->]]]; try discriminate; injection E as <-; auto.
  1-4: destruct (inv_num_shape c1 I1 T1) as [[x ->]|[->|[r0 ->]]]; try discriminate;
       destruct (inv_num_shape c2 I2 T2) as [[y ->]|[->|[r1 ->]]]; try discriminate; injection E as <-; auto.
  all: destruct (inv_num_shape c1 I1 T1) as [[x ->]|[->|[r0 ->]]]; try discriminate;
       destruct (inv_num_shape c2 I2 T2) as [[y ->]|[->|[r1 ->]]]; try discriminate;
       match type of E with match ?o with _ => _ end = _ => destruct o end; try discriminate; injection E as <-; auto.
Qed.

Lemma call_binop_unknown_result op a1 a2 r : is_eq_op op = false ->
  inv a1 = true -> inv a2 = true -> type_of a1 = binop_param op -> type_of a2 = binop_param op ->
  wholly_known a1 && wholly_known a2 = false ->
  call_binop op a1 a2 = OOk r -> r = VUnk (binop_type op) rf_notnull.
Proof.
  intros Ho I1 I2 T1 T2 W E. destruct op; try discriminate Ho; simpl in T1, T2; cbn [call_binop] in E.
  1,2: destruct (inv_bool_shape a1 I1 T1) as [[x ->]|[->|[r0 ->]]]; try discriminate;
       destruct (inv_bool_shape a2 I2 T2) as [[y ->]|[->|[r1 ->]]]; try discriminate; try (injection E as <-; reflexivity).
  1-4: destruct (inv_num_shape a1 I1 T1) as [[x ->]|[->|[r0 ->]]]; try discriminate;
       destruct (inv_num_shape a2 I2 T2) as [[y ->]|[->|[r1 ->]]]; try discriminate;
       match type of E with (if ?c then _ else _) = _ => destruct c end; try discriminate; injection E as <-; reflexivity.
  all: destruct (inv_num_shape a1 I1 T1) as [[x ->]|[->|[r0 ->]]]; try discriminate;
       destruct (inv_num_shape a2 I2 T2) as [[y ->]|[->|[r1 ->]]]; try discriminate; injection E as <-; reflexivity.
Qed.

Lemma call_binop_gs op a1 a2 c1 c2 ra rc : is_eq_op op = false ->
  inv a1 = true -> inv a2 = true -> inv c1 = true -> inv c2 = true ->
  gsb a1 c1 = true -> gsb a2 c2 = true ->
  type_of a1 = binop_param op -> type_of a2 = binop_param op ->
  call_binop op a1 a2 = OOk ra -> call_binop op c1 c2 = OOk rc -> gsb ra rc = true.
Proof.
  intros Ho Ia1 Ia2 Ic1 Ic2 G1 G2 T1 T2 Ea Ec.
  assert (Hd : has_dyn (binop_param op) = false) by (destruct op; try discriminate Ho; reflexivity).
  assert (Tc1 : type_of c1 = binop_param op) by (rewrite <- T1; apply (gsb_type_eq a1 c1 G1); rewrite T1; exact Hd).
  assert (Tc2 : type_of c2 = binop_param op) by (rewrite <- T2; apply (gsb_type_eq a2 c2 G2); rewrite T2; exact Hd).
  pose proof (gsb_wk _ _ G1) as W1. pose proof (gsb_wk _ _ G2) as W2.
  destruct (call_binop_known_shape op c1 c2 rc Ho Ic1 Ic2 W1 W2 Tc1 Tc2 Ec) as [Wr [Tr Nr]].
  destruct (wholly_known a1 && wholly_known a2) eqn:Wa.
  - apply andb_true_iff in Wa as [Wa1 Wa2].
    rewrite (gsb_known_eq a1 c1 Wa1 G1), (gsb_known_eq a2 c2 Wa2 G2) in Ec. rewrite Ea in Ec. injection Ec as <-.
    apply gsb_refl_inv; [exact Wr|apply (call_binop_inv op a1 a2 ra Ho Ia1 Ia2 Ea)].
  - rewrite (call_binop_unknown_result op a1 a2 ra Ho Ia1 Ia2 T1 T2 Wa Ea).
    apply gsb_unk_notnull; assumption.
Qed.
