(* Eval/Static.v — static analysis of native-syntax expressions: the providers
   AsTraversal / ExprList / ExprMap / ExprCall of hclsyntax/expression.go and the
   front ends hcl.AbsTraversalForExpr / RelTraversalForExpr / ExprAsKeyword
   (traversal_for_expr.go), hcl.ExprList (expr_list.go), hcl.ExprMap
   (expr_map.go), hcl.ExprCall (expr_call.go), hcl.UnwrapExpressionUntil
   (expr_unwrap.go).  Definitions only.

   A traversal is (root name, relative steps) as in Eval/Vars.v; the Go value
   `nil` (no traversal / no list / ...) is None. *)
From HclV Require Import Base.Prelude Cty.Values Cty.Ops Eval.Impl Eval.Vars.
Open Scope Z_scope.

Definition kw_null : list Z := [110;117;108;108].
Definition kw_true : list Z := [116;114;117;101].
Definition kw_false : list Z := [102;97;108;115;101].

(* ---- expr_unwrap.go ------------------------------------------------------------------ *)

(* hcl.unwrapExpression is `interface { UnwrapExpression() hcl.Expression }`.  The only
   hclsyntax node with a method of that name is ObjectConsKeyExpr, and its method returns
   hclsyntax.Expression — a different signature, so the type assertion in
   UnwrapExpression(Until) fails for EVERY native-syntax node (confirmed on the real code by
   harness/cmd/c20: hcl.ExprList / hcl.ExprCall on an object key fail).  Hence: *)
Definition unwrap_expression (e : expr) : option expr := None.

(* hcl.UnwrapExpressionUntil; None = nil.  fuel bounds the number of unwrapping rounds. *)
Fixpoint unwrap_expression_until (fuel : nat) (until : expr -> bool) (e : expr) : option expr :=
  if until e then Some e
  else match fuel with
       | O => None
       | S f => match unwrap_expression e with
                | None => None
                | Some e' => unwrap_expression_until f until e'
                end
       end.

(* ---- AsTraversal providers (hclsyntax/expression.go) ----------------------------------- *)

(* which node types have an AsTraversal method *)
Definition supports_as_traversal (e : expr) : bool :=
  match e with
  | ELit _ | EScopeTrav _ _ | ERelTrav _ _ | EObjKey _ _ => true
  | _ => false
  end.

(* LiteralValueExpr.AsTraversal: `e.Val.IsNull()` first (true also for a marked null), then
   `switch e.Val { case cty.True: … case cty.False: … }` — Go struct equality, which holds
   only for the unmarked known booleans. *)
Definition lit_as_traversal (v : val) : option traversal :=
  if is_null v then Some (kw_null, [])
  else match v with
       | VBool true => Some (kw_true, [])
       | VBool false => Some (kw_false, [])
       | _ => None
       end.

(* The traversal returned by hcl.AbsTraversalForExpr(e), None when it returns the
   "Invalid expression" diagnostic.  RelativeTraversalExpr.AsTraversal and
   ObjectConsKeyExpr.AsTraversal call hcl.AbsTraversalForExpr on their child; since no node
   unwraps (above), that is the child's own provider, which makes the recursion structural.
   [abs_traversal_for_expr] below is the literal transcription of the Go front end;
   StaticProofs.abs_traversal_for_expr_eq proves the two equal. *)
Fixpoint as_traversal (e : expr) : option traversal :=
  match e with
  | ELit v => lit_as_traversal v
  | EScopeTrav root steps => Some (root, steps)                 (* return e.Traversal *)
  | ERelTrav src steps =>
      match as_traversal src with                               (* hcl.AbsTraversalForExpr(e.Source) *)
      | None => None
      | Some (root, st) => Some (root, st ++ steps)
      end
  | EObjKey wrapped force =>
      if force then None else as_traversal wrapped              (* hcl.AbsTraversalForExpr(e.Wrapped) *)
  | _ => None
  end.

(* hcl.AbsTraversalForExpr: unwrap until a node supports AsTraversal, then ask it *)
Definition abs_traversal_for_expr (e : expr) : option traversal :=
  match unwrap_expression_until (expr_size e) supports_as_traversal e with
  | Some phys => as_traversal phys
  | None => None
  end.

(* hcl.RelTraversalForExpr: the root becomes an attribute step *)
Definition rel_traversal_for_expr (e : expr) : option (list step) :=
  match abs_traversal_for_expr e with
  | Some (root, steps) => Some (SAttr root :: steps)
  | None => None
  end.

(* hcl.ExprAsKeyword: the root name when the traversal has length 1, else "" *)
Definition expr_as_keyword (e : expr) : list Z :=
  match unwrap_expression_until (expr_size e) supports_as_traversal e with
  | Some phys => match as_traversal phys with
                 | Some (root, []) => root
                 | _ => []
                 end
  | None => []
  end.

(* ---- ExprList / ExprMap / ExprCall ----------------------------------------------------- *)

Definition supports_expr_list (e : expr) : bool := match e with ETuple _ => true | _ => false end.
Definition supports_expr_map (e : expr) : bool := match e with EObj _ => true | _ => false end.
Definition supports_expr_call (e : expr) : bool := match e with ECall _ _ _ => true | _ => false end.

(* TupleConsExpr.ExprList: the element expressions, in order (never nil) *)
Definition node_expr_list (e : expr) : option (list expr) :=
  match e with ETuple es => Some es | _ => None end.
(* ObjectConsExpr.ExprMap: (KeyExpr, ValueExpr) of every item, in order; the keys are the
   ObjectConsKeyExpr wrappers *)
Definition node_expr_map (e : expr) : option (list (expr * expr)) :=
  match e with EObj items => Some items | _ => None end.
(* FunctionCallExpr.ExprCall: Name and Args.  ExpandFinal is NOT part of hcl.StaticCall:
   `f(a...)` and `f(a)` have the same static call. *)
Definition node_expr_call (e : expr) : option (list Z * list expr) :=
  match e with ECall name args _ => Some (name, args) | _ => None end.

(* hcl.ExprList / hcl.ExprMap / hcl.ExprCall; None = the "Invalid expression" diagnostic *)
Definition expr_list (e : expr) : option (list expr) :=
  match unwrap_expression_until (expr_size e) supports_expr_list e with
  | Some phys => node_expr_list phys
  | None => None
  end.
Definition expr_map (e : expr) : option (list (expr * expr)) :=
  match unwrap_expression_until (expr_size e) supports_expr_map e with
  | Some phys => node_expr_map phys
  | None => None
  end.
Definition expr_call (e : expr) : option (list Z * list expr) :=
  match unwrap_expression_until (expr_size e) supports_expr_call e with
  | Some phys => node_expr_call phys
  | None => None
  end.

(* ---- shapes of expressions that have a static traversal -------------------------------- *)

(* What the chain of traversal nodes bottoms out in.  ShPlain: a scope traversal
   (variable reference) — the static traversal is what evaluation does.  ShKeyword: a
   literal (`true.a`, `null`): evaluation yields the literal, the static traversal names a
   VARIABLE called true/false/null (documented in LiteralValueExpr.AsTraversal).
   ShObjKey: an object-constructor key: evaluation yields the bare name as a string, or the
   "Ambiguous attribute key" error for a multi-step traversal (documented in
   ObjectConsKeyExpr.Value). *)
Inductive trav_shape := ShPlain | ShKeyword | ShObjKey.
Fixpoint trav_shape_of (e : expr) : option trav_shape :=
  match e with
  | EScopeTrav _ _ => Some ShPlain
  | ELit _ => Some ShKeyword
  | EObjKey _ _ => Some ShObjKey
  | ERelTrav src _ => trav_shape_of src
  | _ => None
  end.

(* number of nested nodes above the bottom of the chain: fuel needed to evaluate it *)
Fixpoint trav_depth (e : expr) : nat :=
  match e with
  | ERelTrav src _ => S (trav_depth src)
  | _ => O
  end.
