(* Eval/SpecRefines_Base.v — support lemmas for Eval/SpecRefines.v: the invariant
   "wholly known and unmarked" ([good]) and its preservation by the go-cty model
   (conversion, operators, index, attribute access), diagnostics bookkeeping. *)
From Coq Require Import QArith.
From HclV Require Import Base.Prelude Cty.Values Cty.Convert Cty.Ops Eval.Impl Eval.Spec.
Open Scope Z_scope.

(* ---- diagnostics ------------------------------------------------------------------ *)
Lemma has_errors_app a b : has_errors (a ++ b) = has_errors a || has_errors b.
Proof. unfold has_errors. apply existsb_app. Qed.
Lemma has_unsupported_app a b : has_unsupported (a ++ b) = has_unsupported a || has_unsupported b.
Proof. unfold has_unsupported. apply existsb_app. Qed.
Lemma has_errors_nil : has_errors [] = false. Proof. reflexivity. Qed.
Lemma has_unsupported_nil : has_unsupported [] = false. Proof. reflexivity. Qed.
Lemma has_errors_derr s f : has_errors [derr s f] = true. Proof. reflexivity. Qed.
Lemma has_unsupported_dunsupported : has_unsupported [dunsupported] = true. Proof. reflexivity. Qed.
Lemma has_unsupported_derr s f : s <> S_Unsupported -> has_unsupported [derr s f] = false.
Proof. intro H. unfold has_unsupported. simpl. apply Z.eqb_neq in H. rewrite H. reflexivity. Qed.

(* ---- the invariant ------------------------------------------------------------------ *)
Definition good (v : val) : bool := wholly_known v && negb (contains_marked v).
Definition goods (l : list val) : bool := forallb good l.
Definition goodkvs (l : list (list Z * val)) : bool := forallb (fun p => good (snd p)) l.

Lemma good_list_split (l : list val) :
  forallb wholly_known l && negb (existsb contains_marked l) = forallb good l.
Proof.
  induction l as [|x r IH]; simpl; [reflexivity|].
  rewrite <- IH. unfold good. rewrite negb_orb.
  destruct (wholly_known x), (contains_marked x), (forallb wholly_known r), (existsb contains_marked r); reflexivity.
Qed.
Lemma good_kvs_split (l : list (list Z * val)) :
  forallb (fun p => wholly_known (snd p)) l && negb (existsb (fun p => contains_marked (snd p)) l)
  = forallb (fun p => good (snd p)) l.
Proof.
  induction l as [|x r IH]; simpl; [reflexivity|].
  rewrite <- IH. unfold good. rewrite negb_orb.
  destruct (wholly_known (snd x)), (contains_marked (snd x)),
    (forallb (fun p => wholly_known (snd p)) r), (existsb (fun p => contains_marked (snd p)) r); reflexivity.
Qed.

Lemma good_VList t l : good (VList t l) = goods l. Proof. unfold good. simpl. apply good_list_split. Qed.
Lemma good_VSet t l : good (VSet t l) = goods l. Proof. unfold good. simpl. apply good_list_split. Qed.
Lemma good_VTuple l : good (VTuple l) = goods l. Proof. unfold good. simpl. apply good_list_split. Qed.
Lemma good_VMap t l : good (VMap t l) = goodkvs l. Proof. unfold good. simpl. apply good_kvs_split. Qed.
Lemma good_VObj l : good (VObj l) = goodkvs l. Proof. unfold good. simpl. apply good_kvs_split. Qed.
Lemma good_VMark m v : good (VMark m v) = false. Proof. unfold good. simpl. apply andb_false_r. Qed.
Lemma good_VUnk t r : good (VUnk t r) = false. Proof. reflexivity. Qed.

(* induction principle for the nested type val *)
Section ValInd.
  Variable P : val -> Prop.
  Hypothesis Hstr : forall s, P (VStr s).
  Hypothesis Hnum : forall n, P (VNum n).
  Hypothesis Hbool : forall b, P (VBool b).
  Hypothesis Hnull : forall t, P (VNull t).
  Hypothesis Hunk : forall t r, P (VUnk t r).
  Hypothesis Hlist : forall t l, Forall P l -> P (VList t l).
  Hypothesis Hset : forall t l, Forall P l -> P (VSet t l).
  Hypothesis Hmap : forall t l, Forall (fun p => P (snd p)) l -> P (VMap t l).
  Hypothesis Htuple : forall l, Forall P l -> P (VTuple l).
  Hypothesis Hobj : forall l, Forall (fun p => P (snd p)) l -> P (VObj l).
  Hypothesis Hmark : forall m v, P v -> P (VMark m v).
  Fixpoint val_ind2 (v : val) : P v :=
    let fix go (l : list val) : Forall P l :=
      match l with [] => Forall_nil _ | x :: r => Forall_cons _ (val_ind2 x) (go r) end in
    let fix gokv (l : list (list Z * val)) : Forall (fun p => P (snd p)) l :=
      match l with [] => Forall_nil _ | x :: r => Forall_cons _ (val_ind2 (snd x)) (gokv r) end in
    match v with
    | VStr s => Hstr s | VNum n => Hnum n | VBool b => Hbool b | VNull t => Hnull t | VUnk t r => Hunk t r
    | VList t l => Hlist t l (go l) | VSet t l => Hset t l (go l)
    | VMap t l => Hmap t l (gokv l) | VTuple l => Htuple l (go l) | VObj l => Hobj l (gokv l)
    | VMark m v' => Hmark m v' (val_ind2 v')
    end.
End ValInd.

Lemma map_id_Forall {A} (f : A -> A) (l : list A) : Forall (fun x => f x = x) l -> map f l = l.
Proof. induction 1; simpl; congruence. Qed.

Lemma marks_unions_nils (l : list marks) : Forall (fun m => m = []) l -> marks_unions l = [].
Proof. induction 1; simpl; [reflexivity|]. subst. rewrite IHForall. reflexivity. Qed.

Lemma good_deep : forall v, good v = true -> unmark_deep v = v /\ deep_marks v = [].
Proof.
  induction v using val_ind2; intro G; try (split; reflexivity); try discriminate.
  - rewrite good_VList in G. simpl.
    assert (Forall (fun x => unmark_deep x = x /\ deep_marks x = []) l) as F.
    { unfold goods in G. rewrite forallb_forall in G. rewrite Forall_forall in *. intros x Hx. apply H; auto. }
    split.
    + f_equal. apply map_id_Forall. eapply Forall_impl; [|exact F]. simpl. tauto.
    + apply marks_unions_nils. rewrite Forall_map. eapply Forall_impl; [|exact F]. simpl. tauto.
  - rewrite good_VSet in G. simpl.
    assert (Forall (fun x => unmark_deep x = x /\ deep_marks x = []) l) as F.
    { unfold goods in G. rewrite forallb_forall in G. rewrite Forall_forall in *. intros x Hx. apply H; auto. }
    split.
    + f_equal. apply map_id_Forall. eapply Forall_impl; [|exact F]. simpl. tauto.
    + apply marks_unions_nils. rewrite Forall_map. eapply Forall_impl; [|exact F]. simpl. tauto.
  - rewrite good_VMap in G. simpl.
    assert (Forall (fun p => unmark_deep (snd p) = snd p /\ deep_marks (snd p) = []) l) as F.
    { unfold goodkvs in G. rewrite forallb_forall in G. rewrite Forall_forall in *. intros x Hx. apply H; auto. }
    split.
    + f_equal. apply map_id_Forall. eapply Forall_impl; [|exact F]. simpl. intros [k x] [E _]. simpl in *. congruence.
    + apply marks_unions_nils. rewrite Forall_map. eapply Forall_impl; [|exact F]. simpl. tauto.
  - rewrite good_VTuple in G. simpl.
    assert (Forall (fun x => unmark_deep x = x /\ deep_marks x = []) l) as F.
    { unfold goods in G. rewrite forallb_forall in G. rewrite Forall_forall in *. intros x Hx. apply H; auto. }
    split.
    + f_equal. apply map_id_Forall. eapply Forall_impl; [|exact F]. simpl. tauto.
    + apply marks_unions_nils. rewrite Forall_map. eapply Forall_impl; [|exact F]. simpl. tauto.
  - rewrite good_VObj in G. simpl.
    assert (Forall (fun p => unmark_deep (snd p) = snd p /\ deep_marks (snd p) = []) l) as F.
    { unfold goodkvs in G. rewrite forallb_forall in G. rewrite Forall_forall in *. intros x Hx. apply H; auto. }
    split.
    + f_equal. apply map_id_Forall. eapply Forall_impl; [|exact F]. simpl. intros [k x] [E _]. simpl in *. congruence.
    + apply marks_unions_nils. rewrite Forall_map. eapply Forall_impl; [|exact F]. simpl. tauto.
  - rewrite good_VMark in G. discriminate.
Qed.

Lemma good_unmark v : good v = true -> unmark v = (v, []).
Proof. destruct v; try reflexivity. rewrite good_VMark. discriminate. Qed.
Lemma good_marks_of v : good v = true -> marks_of v = [].
Proof. intro G. unfold marks_of. rewrite good_unmark; auto. Qed.
Lemma with_marks_nil v : with_marks v [] = v. Proof. reflexivity. Qed.
Lemma good_is_known v : good v = true -> is_known v = true.
Proof. intro G. unfold is_known. rewrite good_unmark by auto. destruct v; try reflexivity; discriminate. Qed.
Lemma good_is_marked v : good v = true -> is_marked v = false.
Proof. destruct v; try reflexivity. rewrite good_VMark. discriminate. Qed.
Lemma good_is_null v : good v = true -> is_null v = match v with VNull _ => true | _ => false end.
Proof. intro G. unfold is_null. rewrite good_unmark by auto. reflexivity. Qed.
Lemma good_not_dyn v : good v = true -> is_null v = false -> ty_eqb (type_of v) TDyn = false.
Proof.
  intros G N. rewrite good_is_null in N by auto.
  destruct v; try reflexivity; try discriminate. rewrite good_VMark in G. discriminate.
Qed.
Lemma good_dyn_null v : good v = true -> ty_eqb (type_of v) TDyn = true -> v = VNull TDyn.
Proof.
  intros G T. destruct v; simpl in T; try discriminate.
  - destruct t; try discriminate. reflexivity.
  - rewrite good_VMark in G. discriminate.
Qed.

Lemma goods_nth l i v : goods l = true -> nth_opt l i = Some v -> good v = true.
Proof.
  revert i. induction l as [|x r IH]; intros i G H; destruct i; simpl in *; try discriminate.
  - apply andb_true_iff in G as [G _]. congruence.
  - apply andb_true_iff in G as [_ G]. eauto.
Qed.
Lemma goodkvs_get l k v : goodkvs l = true -> assoc_get k l = Some v -> good v = true.
Proof.
  induction l as [|[k' x] r IH]; simpl; intros G H; try discriminate.
  apply andb_true_iff in G as [G1 G2]. destruct (str_eqb k k'); [congruence|auto].
Qed.
Lemma goodkvs_set l k v : goodkvs l = true -> good v = true -> goodkvs (assoc_set k v l) = true.
Proof.
  induction l as [|[k' x] r IH]; simpl; intros G Gv.
  - rewrite Gv. reflexivity.
  - apply andb_true_iff in G as [G1 G2]. simpl in G1.
    destruct (str_eqb k k'); simpl.
    + rewrite Gv, G2. reflexivity.
    + destruct (str_ltb k k'); simpl.
      * rewrite Gv, G1, G2. reflexivity.
      * rewrite G1. simpl. auto.
Qed.
Lemma goods_app a b : goods (a ++ b) = goods a && goods b.
Proof. apply forallb_app. Qed.

(* ---- conversion preserves the invariant ----------------------------------------------- *)
Lemma all_ok_good {A} (g : A -> cres) (l : list A) :
  forall vs, all_ok (map g l) = inl (Some vs) ->
  (forall x r, In x l -> g x = COk r -> good r = true) -> goods vs = true /\ length vs = length l.
Proof.
  induction l as [|x r IH]; intros vs H G.
  - simpl in H. inversion H. split; reflexivity.
  - simpl in H.
    destruct (all_ok (map g r)) as [[vs'|]|e] eqn:E; try discriminate.
    + destruct (g x) eqn:Gx; try discriminate. inversion H; subst.
      destruct (IH vs' eq_refl) as [I1 I2]. { intros; eapply G; eauto. right; auto. }
      unfold goods in *. simpl. rewrite I1, I2. rewrite (G x v); auto. left; auto.
Qed.

Lemma all_ok_inr (l : list cres) e r : all_ok l = inr e -> e <> COk r.
Proof.
  revert e. induction l as [|c l IH]; intros e H; simpl in H; [discriminate|].
  destruct (all_ok l) as [[vs|]|e'] eqn:E.
  - destruct c; inversion H; subst; discriminate.
  - inversion H; discriminate.
  - inversion H; subst. apply IH. reflexivity.
Qed.

Lemma goodkvs_combine (ks : list (list Z)) (vs : list val) : goods vs = true -> goodkvs (combine ks vs) = true.
Proof.
  revert vs. induction ks as [|k r IH]; intros [|v vs] G; simpl; try reflexivity.
  simpl in G. apply andb_true_iff in G as [G1 G2]. rewrite G1. simpl. auto.
Qed.

Lemma In_combine_snd {A B} (l : list A) (l' : list B) p : In p (combine l l') -> In (fst p) l /\ In (snd p) l'.
Proof. destruct p. intro H. split; [eapply in_combine_l|eapply in_combine_r]; eauto. Qed.

Lemma goods_In l x : goods l = true -> In x l -> good x = true.
Proof. unfold goods. rewrite forallb_forall. auto. Qed.
Lemma goodkvs_In l p : goodkvs l = true -> In p l -> good (snd p) = true.
Proof. unfold goodkvs. rewrite forallb_forall. auto. Qed.

Local Opaque conv_exists ty_eqb dynamic_replace str_to_num num_to_str has_dyn conv_unknown_rf finish_unknown.

Lemma convert_good : forall fuel v want r, good v = true -> convert fuel v want = COk r -> good r = true.
Proof.
  induction fuel as [|f IH]; intros v want r G H; [discriminate|].
  destruct v; try (rewrite good_VMark in G; discriminate); try (rewrite good_VUnk in G; discriminate);
    cbn [convert] in H;
    match type of H with (if ?c then _ else _) = _ => destruct c; [inversion H; subst; exact G|] end;
    (destruct want; try (inversion H; subst; exact G));
    match type of H with (if ?c then _ else _) = _ => destruct c; try discriminate end;
    cbn [negb] in H; try discriminate;
    try (inversion H; subst; reflexivity).
  all: try (destruct (str_to_num s); inversion H; subst; reflexivity).
  all: try (repeat match type of H with (if ?c then _ else _) = _ => destruct c end; inversion H; subst; reflexivity).
  all: match type of H with context [all_ok ?l] =>
         destruct (all_ok l) as [[vs|]|?] eqn:E; try discriminate;
         [|exfalso; eapply all_ok_inr; eauto] end;
       try (destruct (has_dyn _); try discriminate); inversion H; subst; clear H;
       apply all_ok_good in E; [destruct E as [E _]| ];
       rewrite ?good_VList, ?good_VSet, ?good_VTuple, ?good_VMap, ?good_VObj in *;
       auto using goodkvs_combine.
  all: intros x r' Hin Hc.
  - eapply IH; eauto. eapply goods_In; eauto.
  - eapply IH; eauto. eapply goods_In; eauto.
  - eapply IH; eauto. eapply goodkvs_In in Hin; eauto.
  - eapply IH; eauto. eapply goods_In; eauto.
  - eapply IH; eauto. apply In_combine_snd in Hin. eapply goods_In; eauto. tauto.
  - eapply IH; eauto. eapply goodkvs_In in Hin; eauto.
  - destruct (assoc_get (fst x) l) eqn:A; try discriminate.
    eapply IH; eauto. eapply goodkvs_get; eauto.
Qed.

Lemma conv_good v t r : good v = true -> conv v t = COk r -> good r = true.
Proof. unfold conv. apply convert_good. Qed.

Local Transparent ty_eqb dynamic_replace.

Lemma ty_eqb_prim a t : is_prim t = true -> ty_eqb a t = true -> a = t.
Proof. destruct t; try discriminate; destruct a; simpl; try discriminate; reflexivity. Qed.

(* results of a conversion to a primitive type have that type *)
Lemma conv_prim_type v t r : good v = true -> conv v t = COk r -> is_prim t = true -> type_of r = t.
Proof.
  unfold conv. intros G H P.
  destruct v; try (rewrite good_VMark in G; discriminate); try (rewrite good_VUnk in G; discriminate);
    cbn [convert] in H.
  all: match type of H with (if ?c then _ else _) = _ => destruct c eqn:C end;
       [inversion H; subst; apply ty_eqb_prim in C; auto | ].
  all: destruct t; try discriminate P;
       match type of H with (if ?c then _ else _) = _ => destruct c; try discriminate end;
       cbn [negb] in H; try discriminate; try (inversion H; subst; reflexivity).
  all: try (destruct (str_to_num s); inversion H; subst; reflexivity).
  all: try (repeat match type of H with (if ?c then _ else _) = _ => destruct c end; inversion H; subst; reflexivity).
Qed.

Lemma good_bool_shape r : good r = true -> type_of r = TBool -> (exists b, r = VBool b) \/ r = VNull TBool.
Proof.
  intros G T. destruct r; simpl in T; try discriminate; subst; eauto.
  rewrite good_VMark in G. discriminate.
Qed.
Lemma good_num_shape r : good r = true -> type_of r = TNum -> (exists n, r = VNum n) \/ r = VNull TNum.
Proof.
  intros G T. destruct r; simpl in T; try discriminate; subst; eauto.
  rewrite good_VMark in G. discriminate.
Qed.
Lemma good_str_shape r : good r = true -> type_of r = TStr -> (exists s, r = VStr s) \/ r = VNull TStr.
Proof.
  intros G T. destruct r; simpl in T; try discriminate; subst; eauto.
  rewrite good_VMark in G. discriminate.
Qed.

(* a conversion to a type other than the dynamic pseudo-type never yields a dynamically typed value *)
Lemma dynamic_replace_not_dyn n h w : w <> TDyn -> dynamic_replace (S n) h w <> TDyn.
Proof.
  intro W. destruct w; simpl; try congruence.
  - destruct h; congruence.
  - destruct h; congruence.
  - destruct h; congruence.
  - destruct h; try congruence. destruct (_ =? _)%nat; congruence.
  - destruct h; congruence.
Qed.
Lemma ty_size_S t : exists n, ty_size t = S n.
Proof. destruct t; simpl; eauto. Qed.

Lemma conv_null_dyn v t : good v = true -> conv v t = COk (VNull TDyn) -> t = TDyn.
Proof.
  intros G H. destruct (ty_eqb t TDyn) eqn:T. { destruct t; try discriminate; reflexivity. } exfalso.
  unfold conv in H.
  destruct v; try (rewrite good_VMark in G; discriminate); try (rewrite good_VUnk in G; discriminate);
    cbn [convert] in H;
    (match type of H with (if ?c then _ else _) = _ => destruct c eqn:C end;
     [ inversion H; subst; simpl in C; destruct t; discriminate | ]).
  all: destruct t; try discriminate T.
  all: match type of H with (if ?c then _ else _) = _ => destruct c; try discriminate end; cbn [negb] in H; try discriminate.
  all: try (match type of H with context [all_ok ?l] =>
         destruct (all_ok l) as [[vs|]|?] eqn:E; try discriminate;
         try exact (all_ok_inr _ _ _ E H) end;
       destruct (has_dyn _); discriminate).
  - destruct (str_to_num s); discriminate.
  - repeat match type of H with (if ?c then _ else _) = _ => destruct c end; discriminate.
  - cbn [ty_size] in H. inversion H as [D]. destruct t0; try discriminate D; destruct (_ =? _)%nat; discriminate D.
  - cbn [ty_size] in H. inversion H as [D]. destruct t0; try discriminate D; destruct (_ =? _)%nat; discriminate D.
  - cbn [ty_size] in H. inversion H as [D]. destruct t0; try discriminate D; destruct (_ =? _)%nat; discriminate D.
  - cbn [ty_size] in H. inversion H as [D]. destruct t0; try discriminate D; destruct (_ =? _)%nat; discriminate D.
  - cbn [ty_size] in H. inversion H as [D]. destruct t0; try discriminate D; destruct (_ =? _)%nat; discriminate D.
Qed.
