(* Eval/SpecRefines_Base.v — support lemmas for Eval/SpecRefines.v: the invariant
   "wholly known and unmarked" ([good]) and its preservation by the go-cty model
   (conversion, operators, index, attribute access), diagnostics bookkeeping. *)
From Coq Require Import QArith.
From HclV Require Import Base.Prelude Cty.Values Cty.Convert Cty.Ops Eval.Impl Eval.Spec.
Open Scope Z_scope.

(* ---- diagnostics ------------------------------------------------------------------ *)
Lemma has_errors_app a b : has_errors (a ++ b) = has_errors a || has_errors b.
Proof. unfold has_errors. apply existsb_app. Qed.
Lemma has_unsupported_app a b : has_unsupported (a ++ b) = has_unsupported a || has_unsupported b.
Proof. unfold has_unsupported. apply existsb_app. Qed.
Lemma has_errors_nil : has_errors [] = false. Proof. reflexivity. Qed.
Lemma has_unsupported_nil : has_unsupported [] = false. Proof. reflexivity. Qed.
Lemma has_errors_derr s f : has_errors [derr s f] = true. Proof. reflexivity. Qed.
Lemma has_unsupported_dunsupported : has_unsupported [dunsupported] = true. Proof. reflexivity. Qed.
Lemma has_unsupported_derr s f : s <> S_Unsupported -> has_unsupported [derr s f] = false.
Proof. intro H. unfold has_unsupported. simpl. apply Z.eqb_neq in H. rewrite H. reflexivity. Qed.

(* ---- the invariant ------------------------------------------------------------------ *)
Definition good (v : val) : bool := wholly_known v && negb (contains_marked v).
Definition goods (l : list val) : bool := forallb good l.
Definition goodkvs (l : list (list Z * val)) : bool := forallb (fun p => good (snd p)) l.

Lemma good_list_split (l : list val) :
  forallb wholly_known l && negb (existsb contains_marked l) = forallb good l.
Proof.
  induction l as [|x r IH]; simpl; [reflexivity|].
  rewrite <- IH. unfold good. rewrite negb_orb.
  destruct (wholly_known x), (contains_marked x), (forallb wholly_known r), (existsb contains_marked r); reflexivity.
Qed.
Lemma good_kvs_split (l : list (list Z * val)) :
  forallb (fun p => wholly_known (snd p)) l && negb (existsb (fun p => contains_marked (snd p)) l)
  = forallb (fun p => good (snd p)) l.
Proof.
  induction l as [|x r IH]; simpl; [reflexivity|].
  rewrite <- IH. unfold good. rewrite negb_orb.
  destruct (wholly_known (snd x)), (contains_marked (snd x)),
    (forallb (fun p => wholly_known (snd p)) r), (existsb (fun p => contains_marked (snd p)) r); reflexivity.
Qed.

Lemma good_VList t l : good (VList t l) = goods l. Proof. unfold good. simpl. apply good_list_split. Qed.
Lemma good_VSet t l : good (VSet t l) = goods l. Proof. unfold good. simpl. apply good_list_split. Qed.
Lemma good_VTuple l : good (VTuple l) = goods l. Proof. unfold good. simpl. apply good_list_split. Qed.
Lemma good_VMap t l : good (VMap t l) = goodkvs l. Proof. unfold good. simpl. apply good_kvs_split. Qed.
Lemma good_VObj l : good (VObj l) = goodkvs l. Proof. unfold good. simpl. apply good_kvs_split. Qed.
Lemma good_VMark m v : good (VMark m v) = false. Proof. unfold good. simpl. apply andb_false_r. Qed.
Lemma good_VUnk t r : good (VUnk t r) = false. Proof. reflexivity. Qed.

(* induction principle for the nested type val *)
Section ValInd.
  Variable P : val -> Prop.
  Hypothesis Hstr : forall s, P (VStr s).
  Hypothesis Hnum : forall n, P (VNum n).
  Hypothesis Hbool : forall b, P (VBool b).
  Hypothesis Hnull : forall t, P (VNull t).
  Hypothesis Hunk : forall t r, P (VUnk t r).
  Hypothesis Hlist : forall t l, Forall P l -> P (VList t l).
  Hypothesis Hset : forall t l, Forall P l -> P (VSet t l).
  Hypothesis Hmap : forall t l, Forall (fun p => P (snd p)) l -> P (VMap t l).
  Hypothesis Htuple : forall l, Forall P l -> P (VTuple l).
  Hypothesis Hobj : forall l, Forall (fun p => P (snd p)) l -> P (VObj l).
  Hypothesis Hmark : forall m v, P v -> P (VMark m v).
  Fixpoint val_ind2 (v : val) : P v :=
    let fix go (l : list val) : Forall P l :=
      match l with [] => Forall_nil _ | x :: r => Forall_cons _ (val_ind2 x) (go r) end in
    let fix gokv (l : list (list Z * val)) : Forall (fun p => P (snd p)) l :=
      match l with [] => Forall_nil _ | x :: r => Forall_cons _ (val_ind2 (snd x)) (gokv r) end in
    match v with
    | VStr s => Hstr s | VNum n => Hnum n | VBool b => Hbool b | VNull t => Hnull t | VUnk t r => Hunk t r
    | VList t l => Hlist t l (go l) | VSet t l => Hset t l (go l)
    | VMap t l => Hmap t l (gokv l) | VTuple l => Htuple l (go l) | VObj l => Hobj l (gokv l)
    | VMark m v' => Hmark m v' (val_ind2 v')
    end.
End ValInd.

Lemma map_id_Forall {A} (f : A -> A) (l : list A) : Forall (fun x => f x = x) l -> map f l = l.
Proof. induction 1; simpl; congruence. Qed.

Lemma marks_unions_nils (l : list marks) : Forall (fun m => m = []) l -> marks_unions l = [].
Proof. induction 1; simpl; [reflexivity|]. subst. rewrite IHForall. reflexivity. Qed.

Lemma good_deep : forall v, good v = true -> unmark_deep v = v /\ deep_marks v = [].
Proof.
  induction v using val_ind2; intro G; try (split; reflexivity); try discriminate.
  - rewrite good_VList in G. simpl.
    assert (Forall (fun x => unmark_deep x = x /\ deep_marks x = []) l) as F.
    { unfold goods in G. rewrite forallb_forall in G. rewrite Forall_forall in *. intros x Hx. apply H; auto. }
    split.
    + f_equal. apply map_id_Forall. eapply Forall_impl; [|exact F]. simpl. tauto.
    + apply marks_unions_nils. rewrite Forall_map. eapply Forall_impl; [|exact F]. simpl. tauto.
  - rewrite good_VSet in G. simpl.
    assert (Forall (fun x => unmark_deep x = x /\ deep_marks x = []) l) as F.
    { unfold goods in G. rewrite forallb_forall in G. rewrite Forall_forall in *. intros x Hx. apply H; auto. }
    split.
    + f_equal. apply map_id_Forall. eapply Forall_impl; [|exact F]. simpl. tauto.
    + apply marks_unions_nils. rewrite Forall_map. eapply Forall_impl; [|exact F]. simpl. tauto.
  - rewrite good_VMap in G. simpl.
    assert (Forall (fun p => unmark_deep (snd p) = snd p /\ deep_marks (snd p) = []) l) as F.
    { unfold goodkvs in G. rewrite forallb_forall in G. rewrite Forall_forall in *. intros x Hx. apply H; auto. }
    split.
    + f_equal. apply map_id_Forall. eapply Forall_impl; [|exact F]. simpl. intros [k x] [E _]. simpl in *. congruence.
    + apply marks_unions_nils. rewrite Forall_map. eapply Forall_impl; [|exact F]. simpl. tauto.
  - rewrite good_VTuple in G. simpl.
    assert (Forall (fun x => unmark_deep x = x /\ deep_marks x = []) l) as F.
    { unfold goods in G. rewrite forallb_forall in G. rewrite Forall_forall in *. intros x Hx. apply H; auto. }
    split.
    + f_equal. apply map_id_Forall. eapply Forall_impl; [|exact F]. simpl. tauto.
    + apply marks_unions_nils. rewrite Forall_map. eapply Forall_impl; [|exact F]. simpl. tauto.
  - rewrite good_VObj in G. simpl.
    assert (Forall (fun p => unmark_deep (snd p) = snd p /\ deep_marks (snd p) = []) l) as F.
    { unfold goodkvs in G. rewrite forallb_forall in G. rewrite Forall_forall in *. intros x Hx. apply H; auto. }
    split.
    + f_equal. apply map_id_Forall. eapply Forall_impl; [|exact F]. simpl. intros [k x] [E _]. simpl in *. congruence.
    + apply marks_unions_nils. rewrite Forall_map. eapply Forall_impl; [|exact F]. simpl. tauto.
  - rewrite good_VMark in G. discriminate.
Qed.

Lemma good_unmark v : good v = true -> unmark v = (v, []).
Proof. destruct v; try reflexivity. rewrite good_VMark. discriminate. Qed.
Lemma good_marks_of v : good v = true -> marks_of v = [].
Proof. intro G. unfold marks_of. rewrite good_unmark; auto. Qed.
Lemma with_marks_nil v : with_marks v [] = v. Proof. reflexivity. Qed.
Lemma good_is_known v : good v = true -> is_known v = true.
Proof. intro G. unfold is_known. rewrite good_unmark by auto. destruct v; try reflexivity; discriminate. Qed.
Lemma good_is_marked v : good v = true -> is_marked v = false.
Proof. destruct v; try reflexivity. rewrite good_VMark. discriminate. Qed.
Lemma good_is_null v : good v = true -> is_null v = match v with VNull _ => true | _ => false end.
Proof. intro G. unfold is_null. rewrite good_unmark by auto. reflexivity. Qed.
Lemma good_not_dyn v : good v = true -> is_null v = false -> ty_eqb (type_of v) TDyn = false.
Proof.
  intros G N. rewrite good_is_null in N by auto.
  destruct v; try reflexivity; try discriminate. rewrite good_VMark in G. discriminate.
Qed.
Lemma good_dyn_null v : good v = true -> ty_eqb (type_of v) TDyn = true -> v = VNull TDyn.
Proof.
  intros G T. destruct v; simpl in T; try discriminate.
  - destruct t; try discriminate. reflexivity.
  - rewrite good_VMark in G. discriminate.
Qed.

Lemma goods_nth l i v : goods l = true -> nth_opt l i = Some v -> good v = true.
Proof.
  revert i. induction l as [|x r IH]; intros i G H; destruct i; simpl in *; try discriminate.
  - apply andb_true_iff in G as [G _]. congruence.
  - apply andb_true_iff in G as [_ G]. eauto.
Qed.
Lemma goodkvs_get l k v : goodkvs l = true -> assoc_get k l = Some v -> good v = true.
Proof.
  induction l as [|[k' x] r IH]; simpl; intros G H; try discriminate.
  apply andb_true_iff in G as [G1 G2]. destruct (str_eqb k k'); [congruence|auto].
Qed.
Lemma goodkvs_set l k v : goodkvs l = true -> good v = true -> goodkvs (assoc_set k v l) = true.
Proof.
  induction l as [|[k' x] r IH]; simpl; intros G Gv.
  - rewrite Gv. reflexivity.
  - apply andb_true_iff in G as [G1 G2]. simpl in G1.
    destruct (str_eqb k k'); simpl.
    + rewrite Gv, G2. reflexivity.
    + destruct (str_ltb k k'); simpl.
      * rewrite Gv, G1, G2. reflexivity.
      * rewrite G1. simpl. auto.
Qed.
Lemma goods_app a b : goods (a ++ b) = goods a && goods b.
Proof. apply forallb_app. Qed.

(* ---- conversion preserves the invariant ----------------------------------------------- *)
Lemma all_ok_good {A} (g : A -> cres) (l : list A) :
  forall vs, all_ok (map g l) = inl (Some vs) ->
  (forall x r, In x l -> g x = COk r -> good r = true) -> goods vs = true /\ length vs = length l.
Proof.
  induction l as [|x r IH]; intros vs H G.
  - simpl in H. inversion H. split; reflexivity.
  - simpl in H.
    destruct (all_ok (map g r)) as [[vs'|]|e] eqn:E; try discriminate.
    + destruct (g x) eqn:Gx; try discriminate. inversion H; subst.
      destruct (IH vs' eq_refl) as [I1 I2]. { intros; eapply G; eauto. right; auto. }
      unfold goods in *. simpl. rewrite I1, I2. rewrite (G x v); auto. left; auto.
Qed.

Lemma all_ok_inr (l : list cres) e r : all_ok l = inr e -> e <> COk r.
Proof.
  revert e. induction l as [|c l IH]; intros e H; simpl in H; [discriminate|].
  destruct (all_ok l) as [[vs|]|e'] eqn:E.
  - destruct c; inversion H; subst; discriminate.
  - inversion H; discriminate.
  - inversion H; subst. apply IH. reflexivity.
Qed.

Lemma goodkvs_combine (ks : list (list Z)) (vs : list val) : goods vs = true -> goodkvs (combine ks vs) = true.
Proof.
  revert vs. induction ks as [|k r IH]; intros [|v vs] G; simpl; try reflexivity.
  simpl in G. apply andb_true_iff in G as [G1 G2]. rewrite G1. simpl. auto.
Qed.

Lemma In_combine_snd {A B} (l : list A) (l' : list B) p : In p (combine l l') -> In (fst p) l /\ In (snd p) l'.
Proof. destruct p. intro H. split; [eapply in_combine_l|eapply in_combine_r]; eauto. Qed.

Lemma goods_In l x : goods l = true -> In x l -> good x = true.
Proof. unfold goods. rewrite forallb_forall. auto. Qed.
Lemma goodkvs_In l p : goodkvs l = true -> In p l -> good (snd p) = true.
Proof. unfold goodkvs. rewrite forallb_forall. auto. Qed.

Local Opaque conv_exists ty_eqb dynamic_replace str_to_num num_to_str has_dyn conv_unknown_rf finish_unknown.

Lemma convert_good : forall fuel v want r, good v = true -> convert fuel v want = COk r -> good r = true.
Proof.
  induction fuel as [|f IH]; intros v want r G H; [discriminate|].
  destruct v; try (rewrite good_VMark in G; discriminate); try (rewrite good_VUnk in G; discriminate);
    cbn [convert] in H;
    match type of H with (if ?c then _ else _) = _ => destruct c; [inversion H; subst; exact G|] end;
    (destruct want; try (inversion H; subst; exact G));
    match type of H with (if ?c then _ else _) = _ => destruct c; try discriminate end;
    cbn [negb] in H; try discriminate;
    try (inversion H; subst; reflexivity).
  all: try (destruct (str_to_num s); inversion H; subst; reflexivity).
  all: try (repeat match type of H with (if ?c then _ else _) = _ => destruct c end; inversion H; subst; reflexivity).
  all: match type of H with context [all_ok ?l] =>
         destruct (all_ok l) as [[vs|]|?] eqn:E; try discriminate;
         [|exfalso; eapply all_ok_inr; eauto] end;
       try (destruct (has_dyn _); try discriminate); inversion H; subst; clear H;
       apply all_ok_good in E; [destruct E as [E _]| ];
       rewrite ?good_VList, ?good_VSet, ?good_VTuple, ?good_VMap, ?good_VObj in *;
       auto using goodkvs_combine.
  all: intros x r' Hin Hc.
  - eapply IH; eauto. eapply goods_In; eauto.
  - eapply IH; eauto. eapply goods_In; eauto.
  - eapply IH; eauto. eapply goodkvs_In in Hin; eauto.
  - eapply IH; eauto. eapply goods_In; eauto.
  - eapply IH; eauto. apply In_combine_snd in Hin. eapply goods_In; eauto. tauto.
  - eapply IH; eauto. eapply goodkvs_In in Hin; eauto.
  - destruct (assoc_get (fst x) l) eqn:A; try discriminate.
    eapply IH; eauto. eapply goodkvs_get; eauto.
Qed.

Lemma conv_good v t r : good v = true -> conv v t = COk r -> good r = true.
Proof. unfold conv. apply convert_good. Qed.

Local Transparent ty_eqb dynamic_replace.

Lemma ty_eqb_prim a t : is_prim t = true -> ty_eqb a t = true -> a = t.
Proof. destruct t; try discriminate; destruct a; simpl; try discriminate; reflexivity. Qed.

(* results of a conversion to a primitive type have that type *)
Lemma conv_prim_type v t r : good v = true -> conv v t = COk r -> is_prim t = true -> type_of r = t.
Proof.
  unfold conv. intros G H P.
  destruct v; try (rewrite good_VMark in G; discriminate); try (rewrite good_VUnk in G; discriminate);
    cbn [convert] in H.
  all: match type of H with (if ?c then _ else _) = _ => destruct c eqn:C end;
       [inversion H; subst; apply ty_eqb_prim in C; auto | ].
  all: destruct t; try discriminate P;
       match type of H with (if ?c then _ else _) = _ => destruct c; try discriminate end;
       cbn [negb] in H; try discriminate; try (inversion H; subst; reflexivity).
  all: try (destruct (str_to_num s); inversion H; subst; reflexivity).
  all: try (repeat match type of H with (if ?c then _ else _) = _ => destruct c end; inversion H; subst; reflexivity).
Qed.

Lemma good_bool_shape r : good r = true -> type_of r = TBool -> (exists b, r = VBool b) \/ r = VNull TBool.
Proof.
  intros G T. destruct r; simpl in T; try discriminate; subst; eauto.
  rewrite good_VMark in G. discriminate.
Qed.
Lemma good_num_shape r : good r = true -> type_of r = TNum -> (exists n, r = VNum n) \/ r = VNull TNum.
Proof.
  intros G T. destruct r; simpl in T; try discriminate; subst; eauto.
  rewrite good_VMark in G. discriminate.
Qed.
Lemma good_str_shape r : good r = true -> type_of r = TStr -> (exists s, r = VStr s) \/ r = VNull TStr.
Proof.
  intros G T. destruct r; simpl in T; try discriminate; subst; eauto.
  rewrite good_VMark in G. discriminate.
Qed.

(* a conversion to a type other than the dynamic pseudo-type never yields a dynamically typed value *)
Lemma dynamic_replace_not_dyn n h w : w <> TDyn -> dynamic_replace (S n) h w <> TDyn.
Proof.
  intro W. destruct w; simpl; try congruence.
  - destruct h; congruence.
  - destruct h; congruence.
  - destruct h; congruence.
  - destruct h; try congruence. destruct (_ =? _)%nat; congruence.
  - destruct h; congruence.
Qed.
Lemma ty_size_S t : exists n, ty_size t = S n.
Proof. destruct t; simpl; eauto. Qed.

Lemma conv_null_dyn v t : good v = true -> conv v t = COk (VNull TDyn) -> t = TDyn.
Proof.
  intros G H. destruct (ty_eqb t TDyn) eqn:T. { destruct t; try discriminate; reflexivity. } exfalso.
  unfold conv in H.
  destruct v; try (rewrite good_VMark in G; discriminate); try (rewrite good_VUnk in G; discriminate);
    cbn [convert] in H;
    (match type of H with (if ?c then _ else _) = _ => destruct c eqn:C end;
     [ inversion H; subst; simpl in C; destruct t; discriminate | ]).
  all: destruct t; try discriminate T.
  all: match type of H with (if ?c then _ else _) = _ => destruct c; try discriminate end; cbn [negb] in H; try discriminate.
  all: try (match type of H with context [all_ok ?l] =>
         destruct (all_ok l) as [[vs|]|?] eqn:E; try discriminate;
         try exact (all_ok_inr _ _ _ E H) end;
       destruct (has_dyn _); discriminate).
  - destruct (str_to_num s); discriminate.
  - repeat match type of H with (if ?c then _ else _) = _ => destruct c end; discriminate.
  - cbn [ty_size] in H. inversion H as [D]. destruct t0; try discriminate D; destruct (_ =? _)%nat; discriminate D.
  - cbn [ty_size] in H. inversion H as [D]. destruct t0; try discriminate D; destruct (_ =? _)%nat; discriminate D.
  - cbn [ty_size] in H. inversion H as [D]. destruct t0; try discriminate D; destruct (_ =? _)%nat; discriminate D.
  - cbn [ty_size] in H. inversion H as [D]. destruct t0; try discriminate D; destruct (_ =? _)%nat; discriminate D.
  - cbn [ty_size] in H. inversion H as [D]. destruct t0; try discriminate D; destruct (_ =? _)%nat; discriminate D.
Qed.

Lemma conv_nonnull v t r : good v = true -> is_null v = false -> conv v t = COk r -> is_null r = false.
Proof.
  intros G N H. rewrite good_is_null in N by auto. unfold conv in H.
  destruct v; try discriminate N; try (rewrite good_VMark in G; discriminate); try (rewrite good_VUnk in G; discriminate);
    cbn [convert] in H;
    (match type of H with (if ?c then _ else _) = _ => destruct c eqn:C end;
     [ inversion H; subst; reflexivity | ]).
  all: destruct t; try (inversion H; subst; reflexivity; fail).
  all: match type of H with (if ?c then _ else _) = _ => destruct c; try discriminate end; cbn [negb] in H; try discriminate.
  all: try (match type of H with context [all_ok ?l] =>
         destruct (all_ok l) as [[vs|]|?] eqn:E; try discriminate;
         try exact (False_ind _ (all_ok_inr _ _ _ E H)) end;
       try (destruct (has_dyn _); try discriminate); inversion H; subst; reflexivity).
  all: try (inversion H; subst; reflexivity; fail).
  - destruct (str_to_num s); inversion H; reflexivity.
  - repeat match type of H with (if ?c then _ else _) = _ => destruct c end; inversion H; reflexivity.
Qed.

(* ---- operators ---------------------------------------------------------------------- *)
Definition boolres (o : ores) : Prop := forall r, o = OOk r -> exists x, r = VBool x.

Lemma all_eq_bool (g : val -> val -> ores) (ps : list (val * val)) :
  (forall p, In p ps -> boolres (g (fst p) (snd p))) ->
  forall acc, boolres acc ->
  boolres (fold_left (fun acc p =>
          match acc with
          | OOk (VBool true) =>
              match g (fst p) (snd p) with
              | OOk (VBool true) => OOk (VBool true)
              | other => other
              end
          | other => other
          end) ps acc).
Proof.
  induction ps as [|p ps IH]; intros G acc A; simpl; [exact A|].
  apply IH. { intros; apply G; right; auto. }
  destruct acc as [v| |]; try exact A. destruct v; try exact A. destruct b; try exact A.
  pose proof (G p (or_introl eq_refl)) as Gp.
  destruct (g (fst p) (snd p)) as [v| |]; try (intros r Hr; discriminate).
  destruct v; try exact Gp. destruct b; try exact Gp.
Qed.

Local Opaque wholly_known has_dyn ty_eqb val_eqb.

Lemma equals_good : forall fuel a b, good a = true -> good b = true -> boolres (equals fuel a b).
Proof.
  induction fuel as [|f IH]; intros a b Ga Gb; [intros r H; discriminate|].
  assert (forall la lb, goods la = true -> goods lb = true ->
          forall p, In p (combine la lb) -> boolres (equals f (fst p) (snd p))) as HL.
  { intros la lb G1 G2 p Hin. apply In_combine_snd in Hin as [I1 I2]. apply IH; [eapply goods_In; [exact G1|exact I1] | eapply goods_In; [exact G2|exact I2]]. }
  assert (forall la lb, goodkvs la = true -> goodkvs lb = true ->
          forall p, In p (combine (map snd la) (map snd lb)) -> boolres (equals f (fst p) (snd p))) as HK.
  { intros la lb G1 G2 p Hin. apply In_combine_snd in Hin as [I1 I2].
    apply in_map_iff in I1 as [x [E1 I1]]. apply in_map_iff in I2 as [y [E2 I2]].
    rewrite <- E1, <- E2. apply IH; [eapply goodkvs_In; [exact G1|exact I1] | eapply goodkvs_In; [exact G2|exact I2]]. }
  destruct a; try (rewrite good_VMark in Ga; discriminate); try (rewrite good_VUnk in Ga; discriminate);
  destruct b; try (rewrite good_VMark in Gb; discriminate); try (rewrite good_VUnk in Gb; discriminate);
  cbn [equals]; try (intros r H; inversion H; eauto; fail).
  all: rewrite ?good_VList, ?good_VSet, ?good_VTuple, ?good_VMap, ?good_VObj in *.
  all: repeat match goal with |- boolres (if ?c then _ else _) => destruct c end;
       try (intros r H; inversion H; eauto; fail).
  all: try (apply all_eq_bool; [eauto | intros r H; inversion H; eauto]).
Qed.

Local Opaque num_add num_mul num_div num_mod num_neg num_ltb good.

Lemma lift_marks_nil r : lift_marks [] r = r.
Proof. destruct r; reflexivity. Qed.

Lemma call_binop_eq a b : call_binop OpEq a b =
  lift_marks (marks_union (deep_marks a) (deep_marks b))
    (equals (S (val_size (unmark_deep a) + val_size (unmark_deep b))) (unmark_deep a) (unmark_deep b)).
Proof. reflexivity. Qed.
Lemma call_binop_ne a b : call_binop OpNe a b =
  lift_marks (marks_union (deep_marks a) (deep_marks b))
    (let r := equals (S (val_size (unmark_deep a) + val_size (unmark_deep b))) (unmark_deep a) (unmark_deep b) in
     match OpNe, r with
     | OpNe, OOk (VBool x) => OOk (VBool (negb x)) | _, _ => r end).
Proof. reflexivity. Qed.

Lemma binop_good_eq op a b r :
  good a = true -> good b = true -> binop_param op = TDyn ->
  call_binop op a b = OOk r -> exists x, r = VBool x.
Proof.
  intros Ga Gb D H.
  destruct (good_deep a Ga) as [Ua Ma]. destruct (good_deep b Gb) as [Ub Mb].
  destruct op; try discriminate D.
  + rewrite call_binop_eq, Ua, Ub, Ma, Mb in H.
    change (marks_union [] []) with (@nil Z) in H; rewrite lift_marks_nil in H.
    exact (equals_good _ _ _ Ga Gb _ H).
  + rewrite call_binop_ne, Ua, Ub, Ma, Mb in H.
    change (marks_union [] []) with (@nil Z) in H; rewrite lift_marks_nil in H.
    cbv zeta in H.
    destruct (equals _ a b) as [v| |] eqn:E; try discriminate.
    destruct (equals_good _ _ _ Ga Gb _ E) as [x0 ->]. inversion H. eauto.
Qed.

Lemma binop_good_bool op a b r :
  ((exists x, a = VBool x) \/ a = VNull TBool) -> ((exists x, b = VBool x) \/ b = VNull TBool) ->
  binop_param op = TBool -> call_binop op a b = OOk r -> exists x, r = VBool x.
Proof.
  intros [[xa ->]| ->] [[xb ->]| ->] P H; destruct op; try discriminate P; cbn [call_binop] in H;
    try discriminate H; inversion H; eauto.
Qed.

Lemma binop_good_num op a b r :
  ((exists x, a = VNum x) \/ a = VNull TNum) -> ((exists x, b = VNum x) \/ b = VNull TNum) ->
  binop_param op = TNum -> call_binop op a b = OOk r -> (exists x, r = VBool x) \/ (exists n, r = VNum n).
Proof.
  intros [[xa ->]| ->] [[xb ->]| ->] P H; destruct op; try discriminate P; cbn [call_binop] in H;
    try discriminate H; try (inversion H; eauto; fail);
    match type of H with match ?o with _ => _ end = _ => destruct o; inversion H; eauto end.
Qed.

Lemma binop_good op x y a b r :
  good x = true -> good y = true ->
  conv x (binop_param op) = COk a -> conv y (binop_param op) = COk b ->
  call_binop op a b = OOk r -> good r = true.
Proof.
  intros Gx Gy Ca Cb H.
  pose proof (conv_good _ _ _ Gx Ca) as Ga. pose proof (conv_good _ _ _ Gy Cb) as Gb.
  destruct (binop_param op) eqn:P; try (destruct op; discriminate P).
  - assert (is_prim TNum = true) as PP by reflexivity.
    pose proof (conv_prim_type _ _ _ Gx Ca PP) as Ta. pose proof (conv_prim_type _ _ _ Gy Cb PP) as Tb.
    destruct (binop_good_num op a b r (good_num_shape _ Ga Ta) (good_num_shape _ Gb Tb) P H) as [[z ->]|[z ->]]; reflexivity.
  - assert (is_prim TBool = true) as PP by reflexivity.
    pose proof (conv_prim_type _ _ _ Gx Ca PP) as Ta. pose proof (conv_prim_type _ _ _ Gy Cb PP) as Tb.
    destruct (binop_good_bool op a b r (good_bool_shape _ Ga Ta) (good_bool_shape _ Gb Tb) P H) as [z ->]; reflexivity.
  - destruct (binop_good_eq op a b r Ga Gb P H) as [z ->]. reflexivity.
Qed.

Lemma unop_good op x a r :
  good x = true -> conv x (unop_param op) = COk a -> call_unop op a = OOk r -> good r = true.
Proof.
  intros Gx Ca H. pose proof (conv_good _ _ _ Gx Ca) as Ga.
  assert (is_prim (unop_param op) = true) as P by (destruct op; reflexivity).
  pose proof (conv_prim_type _ _ _ Gx Ca P) as Ta.
  destruct op; simpl in Ta.
  - destruct (good_bool_shape _ Ga Ta) as [[xa ->]| ->]; simpl in H; inversion H; reflexivity.
  - destruct (good_num_shape _ Ga Ta) as [[xa ->]| ->]; cbn [call_unop unmark_deep deep_marks lift_marks with_marks] in H; inversion H; reflexivity.
Qed.

(* the implementation's unmark / call / re-mark sequence on good operands is the plain call *)
Lemma binop_shape op x a : good x = true -> conv x (binop_param op) = COk a ->
  binop_param op = TBool -> (exists b, a = VBool b) \/ a = VNull TBool.
Proof.
  intros G C P. apply good_bool_shape. eapply conv_good; eauto.
  rewrite <- P. eapply conv_prim_type; eauto. rewrite P. reflexivity.
Qed.

(* ---- hcl.Index / hcl.GetAttr against the specification's operators ------------------------ *)
Lemma conv_null_shape t w r : conv (VNull t) w = COk r -> exists t', r = VNull t'.
Proof.
  unfold conv. cbn [val_size convert]. intro H.
  destruct (ty_eqb (type_of (VNull t)) w); [inversion H; eauto|].
  destruct w; try (inversion H; eauto; fail);
  destruct (negb _); try discriminate; inversion H; eauto.
Qed.

Lemma nth_opt_lt {A} (l : list A) i : (i <? length l)%nat = true -> exists v, nth_opt l i = Some v.
Proof.
  revert i. induction l as [|x r IH]; intros [|i] H; simpl in *; try discriminate; eauto.
Qed.
Lemma nth_opt_ge {A} (l : list A) i : (i <? length l)%nat = false -> nth_opt l i = None.
Proof.
  revert i. induction l as [|x r IH]; intros [|i] H; simpl in *; try discriminate; eauto.
Qed.
Lemma assoc_get_map_ty (kvs : list (list Z * val)) k :
  assoc_get k (map (fun p => (fst p, type_of (snd p))) kvs) =
  match assoc_get k kvs with Some v => Some (type_of v) | None => None end.
Proof.
  induction kvs as [|[k' v] r IH]; simpl; [reflexivity|]. destruct (str_eqb k k'); auto.
Qed.

Local Opaque conv.

Definition refines1 (r : val * list diag) (s : sres) : Prop :=
  has_unsupported (snd r) = false ->
  result_of r = s /\ (has_errors (snd r) = false -> good (fst r) = true).

Lemma refines1_err s f : s <> S_Unsupported -> refines1 (dyn_val, [derr s f]) SErr.
Proof. intros _ _. split; [reflexivity|discriminate]. Qed.
Lemma refines1_unsup s : refines1 (dyn_val, [dunsupported]) s.
Proof. intro H. discriminate. Qed.
Lemma refines1_ok v : good v = true -> refines1 (v, []) (SOk v).
Proof. intros G _. split; [reflexivity|auto]. Qed.

Lemma index_refines coll key : good coll = true -> good key = true -> refines1 (index coll key) (spec_index coll key).
Proof.
  intros Gc Gk. unfold index.
  rewrite (good_is_null coll Gc).
  destruct coll; try (rewrite good_VMark in Gc; discriminate); try (rewrite good_VUnk in Gc; discriminate);
    try (apply refines1_err; discriminate).
  all: destruct (is_null key) eqn:NK.
  all: try (rewrite good_is_null in NK by auto; destruct key; try discriminate NK;
            match goal with |- refines1 _ ?s =>
              assert (s = SErr) as -> by
                (simpl; unfold to_type, to_string;
                 match goal with |- context [conv (VNull ?t) ?w] =>
                   destruct (conv (VNull t) w) eqn:C; try reflexivity;
                   destruct (conv_null_shape _ _ _ C) as [t' ->]; reflexivity end || reflexivity) end;
            apply refines1_err; discriminate).
  all: rewrite (good_not_dyn key Gk NK); cbn [type_of ty_eqb orb].
  all: try (apply refines1_err; discriminate).
  - (* list *)
    cbn [spec_index]. unfold to_type. destruct (conv key TNum) as [k'| |] eqn:C;
      [| apply refines1_err; discriminate | apply refines1_unsup].
    pose proof (conv_good _ _ _ Gk C) as Gk'. cbn [unmark]. rewrite (good_unmark k' Gk').
    destruct k'; try (rewrite good_VMark in Gk'; discriminate); try (rewrite good_VUnk in Gk'; discriminate);
      cbn [has_index type_of]; try (apply refines1_err; discriminate).
    cbn [index_known]. destruct (index_of_num n) as [i|] eqn:I; [|apply refines1_err; discriminate].
    destruct (i <? length l)%nat eqn:L.
    + destruct (nth_opt_lt l i L) as [v Hv]. rewrite Hv. cbn [with_marks]. apply refines1_ok.
      rewrite good_VList in Gc. eapply goods_nth; eauto.
    + rewrite (nth_opt_ge l i L). apply refines1_err; discriminate.
  - (* map *)
    cbn [spec_index]. unfold to_string. destruct (conv key TStr) as [k'| |] eqn:C;
      [| apply refines1_err; discriminate | apply refines1_unsup].
    pose proof (conv_good _ _ _ Gk C) as Gk'. cbn [unmark]. rewrite (good_unmark k' Gk').
    destruct k'; try (rewrite good_VMark in Gk'; discriminate); try (rewrite good_VUnk in Gk'; discriminate);
      cbn [has_index type_of]; try (apply refines1_err; discriminate).
    cbn [index_known]. destruct (assoc_get s l) as [v|] eqn:A; [|apply refines1_err; discriminate].
    cbn [with_marks]. apply refines1_ok. rewrite good_VMap in Gc. eapply goodkvs_get; eauto.
  - (* tuple *)
    cbn [spec_index]. unfold to_type. destruct (conv key TNum) as [k'| |] eqn:C;
      [| apply refines1_err; discriminate | apply refines1_unsup].
    pose proof (conv_good _ _ _ Gk C) as Gk'. cbn [unmark]. rewrite (good_unmark k' Gk').
    destruct k'; try (rewrite good_VMark in Gk'; discriminate); try (rewrite good_VUnk in Gk'; discriminate);
      cbn [has_index type_of]; try (apply refines1_err; discriminate).
    cbn [index_known]. destruct (index_of_num n) as [i|] eqn:I; [|apply refines1_err; discriminate].
    rewrite map_length. destruct (i <? length l)%nat eqn:L.
    + destruct (nth_opt_lt l i L) as [v Hv]. rewrite Hv. cbn [with_marks]. apply refines1_ok.
      rewrite good_VTuple in Gc. eapply goods_nth; eauto.
    + rewrite (nth_opt_ge l i L). apply refines1_err; discriminate.
  - (* object *)
    cbn [spec_index]. unfold to_string. destruct (conv key TStr) as [k'| |] eqn:C;
      [| apply refines1_err; discriminate | apply refines1_unsup].
    pose proof (conv_good _ _ _ Gk C) as Gk'. rewrite (good_is_known k' Gk'). cbn [negb].
    rewrite (good_unmark k' Gk'). cbn [fst].
    destruct k'; try (rewrite good_VMark in Gk'; discriminate); try (rewrite good_VUnk in Gk'; discriminate);
      try apply refines1_unsup.
    rewrite assoc_get_map_ty. destruct (assoc_get s l) as [v|] eqn:A; [|apply refines1_err; discriminate].
    cbn [is_known unmark fst negb]. rewrite A. cbn [with_marks]. apply refines1_ok.
    rewrite good_VObj in Gc. eapply goodkvs_get; eauto.
Qed.

Definition is_mapval (v : val) : bool := match v with VMap _ _ => true | _ => false end.

Lemma get_attr_refines obj name : good obj = true -> is_mapval obj = false ->
  refines1 (get_attr obj name) (spec_getattr obj name).
Proof.
  intros G NM. unfold get_attr. rewrite (good_is_null obj G).
  destruct obj; try (rewrite good_VMark in G; discriminate); try (rewrite good_VUnk in G; discriminate);
    try discriminate NM; cbn [type_of spec_getattr]; try (apply refines1_err; discriminate).
  - destruct t; try (apply refines1_err; discriminate).
  - destruct t; try (apply refines1_err; discriminate).
  - rewrite assoc_get_map_ty. destruct (assoc_get name l) as [v|] eqn:A; [|apply refines1_err; discriminate].
    cbn [is_known unmark fst negb]. rewrite A. cbn [with_marks]. apply refines1_ok.
    rewrite good_VObj in G. eapply goodkvs_get; eauto.
Qed.

(* literal values embedded in traversal steps *)
Definition step_ok (s : step) : bool := match s with SAttr _ => true | SIndex k => good k end.

(* side condition (deviation "attribute access on a map"): no SAttr step is applied to a map value *)
Fixpoint steps_dev_free (steps : list step) (v : val) : bool :=
  match steps with
  | [] => true
  | SAttr n :: r => negb (is_mapval v) &&
                    match spec_getattr v n with SOk v' => steps_dev_free r v' | SErr => true end
  | SIndex k :: r => match spec_index v k with SOk v' => steps_dev_free r v' | SErr => true end
  end.

Lemma traverse_rel_acc steps : forall v acc, exists ds', snd (traverse_rel steps v acc) = acc ++ ds'.
Proof.
  induction steps as [|s r IH]; intros v acc; simpl.
  - exists []. rewrite app_nil_r. reflexivity.
  - destruct (match s with SAttr n => get_attr v n | SIndex k => index v k end) as [v' ds].
    destruct (has_errors ds).
    + exists ds. reflexivity.
    + destruct (IH v' (acc ++ ds)) as [ds' E]. exists (ds ++ ds'). rewrite E, app_assoc. reflexivity.
Qed.

Lemma traverse_rel_refines steps : forall v acc,
  good v = true -> forallb step_ok steps = true -> steps_dev_free steps v = true ->
  has_errors acc = false ->
  refines1 (traverse_rel steps v acc) (spec_steps steps v).
Proof.
  induction steps as [|s r IH]; intros v acc G SO DF EA.
  - simpl. intros _. unfold result_of. simpl. rewrite EA. auto.
  - simpl in SO. apply andb_true_iff in SO as [SO1 SO2].
    assert (refines1 (match s with SAttr n => get_attr v n | SIndex k => index v k end)
                     (match s with SAttr n => spec_getattr v n | SIndex k => spec_index v k end)) as R1.
    { destruct s; simpl in DF.
      - apply andb_true_iff in DF as [D1 _]. apply get_attr_refines; auto. destruct (is_mapval v); auto; discriminate.
      - apply index_refines; auto. }
    cbn [traverse_rel].
    destruct (match s with SAttr n => get_attr v n | SIndex k => index v k end) as [v' ds] eqn:E1.
    intros HU.
    assert (has_unsupported ds = false) as HUds.
    { destruct (has_errors ds); simpl in HU.
      - rewrite has_unsupported_app in HU. apply orb_false_iff in HU. tauto.
      - destruct (traverse_rel_acc r v' (acc ++ ds)) as [ds' E]. rewrite E in HU.
        rewrite !has_unsupported_app in HU. apply orb_false_iff in HU as [HU _]. apply orb_false_iff in HU. tauto. }
    destruct (R1 HUds) as [R1a R1b]. unfold result_of in R1a. simpl in R1a, R1b.
    destruct (has_errors ds) eqn:ED.
    + split.
      * unfold result_of. simpl. rewrite has_errors_app, ED, orb_true_r.
        destruct s; cbn [spec_steps]; rewrite <- R1a; reflexivity.
      * simpl. rewrite has_errors_app, ED, orb_true_r. discriminate.
    + assert (spec_steps (s :: r) v = spec_steps r v') as ->.
      { destruct s; cbn [spec_steps]; rewrite <- R1a; reflexivity. }
      apply IH; auto.
      * destruct s; simpl in DF; rewrite <- R1a in DF.
        -- apply andb_true_iff in DF. tauto.
        -- exact DF.
      * rewrite has_errors_app, EA, ED. reflexivity.
Qed.
