(* Eval/UnknownSound_Check.v — C05: checker run by vm_compute on generated cases
   (twin of harness/cmd/c05): a pair of scopes (abstract / concrete instantiation), one
   expression, and what hcl returned for both.

   For each case: (a) the model reproduces both observed evaluations (correspondence);
   (b) when both are free of diagnostics the two MODEL results are related by [gammab]
   (the property); a violation is classified by whether the hypotheses of
   [unknown_sound_partial] hold (then it cannot happen: theorem) or not (a finding of the
   classes documented in UnknownSound.v: discarded diagnostics / untyped conditional arm, or a
   construct outside the fragment). *)
From Coq Require Import QArith.
From HclV Require Import Base.Prelude Cty.Values Cty.Convert Cty.Ops Eval.Impl Eval.Funcs
                         Eval.UnknownSound_Base Eval.UnknownSound_Known Eval.UnknownSound_Gamma
                         Eval.UnknownSound_Ops Eval.UnknownSound_Fn Eval.UnknownSound_Frag Eval.UnknownSound.
(* [in_fragmentb] covers every constructor of [expr]: the only syntactic restrictions left are on literals
   ([lit_ok]) and on traversal steps ([step_inv]); the semantic side conditions are in [clean]. *)
Open Scope Z_scope.

(* ---- boolean versions of the hypotheses --------------------------------------------------------------------- *)
Fixpoint in_fragmentb (e : expr) : bool :=
  match e with
  | ELit v => lit_ok v
  | EScopeTrav _ steps => forallb step_inv steps
  | ERelTrav s steps => in_fragmentb s && forallb step_inv steps
  | EIndex a b | EBin _ a b => in_fragmentb a && in_fragmentb b
  | ETuple es | ETmpl es => forallb in_fragmentb es
  | EObj items => forallb (fun it => in_fragmentb (fst it) && in_fragmentb (snd it)) items
  | EObjKey w _ | EUn _ w | EWrap w | EParen w => in_fragmentb w
  | EAnon => true
  | ECond a b c => in_fragmentb a && in_fragmentb b && in_fragmentb c
  | ECall _ args _ => forallb in_fragmentb args
  | EJoin te => in_fragmentb te
  | ESplat src each => in_fragmentb src && in_fragmentb each
  | EFor _ _ coll key vl cond _ =>
      in_fragmentb coll && match key with Some k => in_fragmentb k | None => true end &&
      in_fragmentb vl && match cond with Some ce => in_fragmentb ce | None => true end
  end.

Lemma in_fragmentb_sound : forall e, in_fragmentb e = true -> in_fragment e.
Proof.
  fix IH 1. intros e H. destruct e; simpl in H; try discriminate.
  - apply F_lit. exact H.
  - apply F_scope. exact H.
  - apply andb_true_iff in H as [H1 H2]. apply F_rel; [apply IH; exact H1|exact H2].
  - apply F_call. induction args as [|x r IHl]; [constructor|]. simpl in H. apply andb_true_iff in H as [H1 H2].
    constructor; [apply IH; exact H1|apply IHl; exact H2].
  - apply andb_true_iff in H as [H1 H2]. apply andb_true_iff in H1 as [H0 H1].
    apply F_cond; apply IH; assumption.
  - apply andb_true_iff in H as [H1 H2]. apply F_index; apply IH; assumption.
  - apply F_tuple. induction es as [|x r IHl]; [constructor|]. simpl in H. apply andb_true_iff in H as [H1 H2].
    constructor; [apply IH; exact H1|apply IHl; exact H2].
  - apply F_obj. induction items as [|[k v] r IHl]; [constructor|]. simpl in H. apply andb_true_iff in H as [H1 H2].
    apply andb_true_iff in H1 as [Hk Hv].
    constructor; [split; apply IH; assumption|apply IHl; exact H2].
  - apply F_objkey. apply IH. exact H.
  - apply andb_true_iff in H as [H Hc]. apply andb_true_iff in H as [H Hv]. apply andb_true_iff in H as [Hcl Hk].
    apply F_for; [apply IH; exact Hcl| |apply IH; exact Hv|].
    + destruct key as [k|]; intros k' E; [injection E as <-; apply IH; exact Hk|discriminate E].
    + destruct cond as [ce|]; intros ce' E; [injection E as <-; apply IH; exact Hc|discriminate E].
  - apply andb_true_iff in H as [H1 H2]. apply F_splat; apply IH; assumption.
  - apply F_anon.
  - apply andb_true_iff in H as [H1 H2]. apply F_bin; apply IH; assumption.
  - apply F_un. apply IH. exact H.
  - apply F_tmpl. induction parts as [|x r IHl]; [constructor|]. simpl in H. apply andb_true_iff in H as [H1 H2].
    constructor; [apply IH; exact H1|apply IHl; exact H2].
  - apply F_join. apply IH. exact H.
  - apply F_wrap. apply IH. exact H.
  - apply F_paren. apply IH. exact H.
Qed.

Definition var_relb (p q : list Z * val) : bool :=
  str_eqb (fst p) (fst q) && inv (snd p) && inv (snd q) && gsb (snd p) (snd q).
(* same frames; function tables are not compared: the harness passes the same table on both sides,
   and its functions satisfy the contract ([harness_funcs_ok], UnknownSound_Fn.v) *)
Definition frame_relb (fa fc : frame) : bool :=
  match fvars fa, fvars fc with
  | None, None => true
  | Some va, Some vc => all2 var_relb va vc
  | _, _ => false
  end.
Definition ctx_relb (ca cc : ctx) : bool := all2 frame_relb ca cc.

Lemma ctx_relb_sound ca cc : ctx_relb ca cc = true ->
  Forall2 (fun fa fc => ffuncs fa = ffuncs fc /\ (forall fs, ffuncs fa = Some fs -> Forall (fun p => fn_ok (snd p)) fs)) ca cc ->
  ctx_rel ca cc.
Proof.
  unfold ctx_relb. intros H F. apply all2_Forall2 in H.
  revert H. induction F as [|fa fc ca cc [Hf Hk] _ IH]; intros H; inversion H; subst; [apply CR_nil|].
  apply CR_cons; [|apply IH; assumption].
  split; [|split; [exact Hf|exact Hk]]. unfold frame_relb in H3.
  destruct (fvars fa) as [va|], (fvars fc) as [vc|]; try discriminate; [|exact I].
  apply all2_Forall2 in H3. eapply Forall2_impl_In; [|exact H3].
  intros p q _ _ Hpq. unfold var_relb in Hpq. unfold var_rel.
  repeat (apply andb_true_iff in Hpq as [Hpq ?]). apply str_eqb_eq in Hpq. auto.
Qed.

(* ---- cases ------------------------------------------------------------------------------------------------------ *)
(* mode 0: compare values exactly; 1: compare types only (numbers outside the exact domain); 2: skip *)
Record c05case := mkC05 {
  k_ctxA : ctx; k_ctxC : ctx; k_expr : expr; k_mode : Z;
  k_valA : val; k_diagsA : list Z;      (* observed abstract run: value, diagnostic summaries *)
  k_valC : val; k_diagsC : list Z }.    (* observed concrete run *)

Definition diag_ids (ds : list diag) : list Z := map (fun d => if d_err d then d_sum d else - d_sum d) ds.

(* 0 agree, 1 disagree, 2 skipped *)
Definition run_status (mode : Z) (c : ctx) (e : expr) (ov : val) (od : list Z) : Z :=
  if mode =? 2 then 2 else
  let '(v, ds) := value c e in
  if has_unsupported ds then 2
  else if negb (zlist_eqb (diag_ids ds) od) then 1
  else if mode =? 1 then (if ty_eqb (type_of v) (type_of ov) then 0 else 1)
  else if val_eqb v ov then 0 else 1.

Definition theorem_applies (k : c05case) : bool :=
  let f := S (expr_size (k_expr k)) in
  in_fragmentb (k_expr k) && ctx_relb (k_ctxA k) (k_ctxC k) &&
  clean f (k_ctxA k) None (k_expr k) && clean f (k_ctxC k) None (k_expr k).

(* 0 = both runs reproduced and consistent (or an error on one side: nothing to compare)
   1 = the model disagrees with an observed run
   2 = skipped (outside the model)
   3 = both runs free of diagnostics, results NOT related by gamma, hypotheses of the theorem not met
       (finding: discarded-diagnostic / untyped-arm conditional, or construct outside the fragment)
   4 = as 3 but the hypotheses ARE met: impossible for the model ([unknown_sound_partial]); would
       mean the checker itself is broken
   5 = concrete scope wholly known, concrete run error-free, result not wholly known
       (impossible for the model: [known_in_known_out]) *)
Definition c05_case_status (k : c05case) : Z :=
  let sA := run_status (k_mode k) (k_ctxA k) (k_expr k) (k_valA k) (k_diagsA k) in
  let sC := run_status (k_mode k) (k_ctxC k) (k_expr k) (k_valC k) (k_diagsC k) in
  if (sA =? 1) || (sC =? 1) then 1
  else if (sA =? 2) || (sC =? 2) then 2
  else
  let '(vA, dA) := value (k_ctxA k) (k_expr k) in
  let '(vC, dC) := value (k_ctxC k) (k_expr k) in
  if has_errors dA || has_errors dC then 0
  else if forallb (fun fr => match fvars fr with
                             | Some vs => forallb (fun p => good (snd p)) vs | None => true end) (k_ctxC k)
          && negb (wholly_known vC) then 5
  else if gammab vA vC then 0
  else if theorem_applies k then 4 else 3.

Definition check_c05_case (k : c05case) : bool :=
  let s := c05_case_status k in negb ((s =? 1) || (s =? 4) || (s =? 5)).
Definition check_c05_cases (ks : list c05case) : list Z := failing check_c05_case ks.
(* the property itself: indices of the cases whose two runs are inconsistent (findings) *)
Definition c05_violations (ks : list c05case) : list Z := failing (fun k => negb (c05_case_status k =? 3)) ks.
Definition c05_skipped (ks : list c05case) : list Z := failing (fun k => negb (c05_case_status k =? 2)) ks.
(* how many cases exercise the theorem's hypotheses *)
Definition c05_covered (ks : list c05case) : Z := Z.of_nat (length (filter theorem_applies ks)).
(* the same as a list of indices (the form the case files print): cases that do NOT meet the hypotheses *)
Definition c05_uncovered (ks : list c05case) : list Z := failing theorem_applies ks.

(* the two witnesses, as cases *)
Example c05_case_w1 :
  c05_case_status (mkC05 w1_ctxA w1_ctxC w1_expr_eq 0 (VBool true) [] (VBool false) []) = 3.
Proof. vm_compute. reflexivity. Qed.
Example c05_case_w2 :
  c05_case_status (mkC05 w2_ctxA w2_ctxC w2_expr_eq 0 (VBool true) [] (VBool false) []) = 3.
Proof. vm_compute. reflexivity. Qed.

(* cases of the constructs added to the fragment: the hypotheses of the theorem are met *)
Definition k_of (e : expr) (vA vC : val) : c05case :=
  mkC05 (Samples.mk vA) (Samples.mk vC) e 0 (fst (value (Samples.mk vA) e)) [] (fst (value (Samples.mk vC) e)) [].
Example c05_covered_constructs :
  forallb (fun k => theorem_applies k && (c05_case_status k =? 0))
    [ k_of (EFor [] [118] Samples.X None (EBin OpAdd Samples.V Samples.one) (Some (EBin OpGt Samples.V Samples.one)) false)
           Samples.ulist Samples.nlist;
      k_of (EFor [107] [118] Samples.X (Some (EScopeTrav [107] [])) Samples.V None true)
           (VMap TNum [([97], VUnk TNum rf_none)]) Samples.nmap;
      k_of (EFor [] [118] Samples.X None Samples.V None false) (VUnk (TList TNum) rf_none) Samples.nlist;
      k_of (ESplat Samples.X (EBin OpAdd EAnon Samples.one)) Samples.ulist Samples.nlist;
      k_of (ESplat Samples.X EAnon) (VUnk (TList TNum) (Samples.rl 2 (Some 3) true)) Samples.nlist;
      k_of (ESplat Samples.X EAnon) (VUnk TNum rf_none) (VNull TNum);
      k_of (ECall [117] [Samples.X] false) (VUnk TStr rf_none) (VStr [97]);
      k_of (ECall [115] [Samples.X] true) Samples.ulist Samples.nlist;
      k_of (EJoin (EFor [] [118] Samples.X None Samples.V None false)) Samples.ulist Samples.nlist ] = true.
Proof. vm_compute. reflexivity. Qed.
