(* Eval/MarksNI_Refuted.v — C06: concrete witnesses, checked by computation on the evaluator
   model, (a) for the choice of what ★ hides, (b) for every construct of the faithful model that
   violates the erasure statement and is therefore guarded by a side condition in [in_fragment].
   Mark label m = 1 throughout; s is the marked variable; the function table is the harness table.
   Classes: MARK-ONLY = the two results have equal content, one of them lacks the mark;
            TYPE-ONLY = both results contain the mark, a visible declared type differs.
   (Content-changing laundering paths found earlier — for over a dynamic collection, unknown
   expansion, object constructor with unknown key, conditional type unification, empty expansion,
   Index with a dynamic or unknown key — are fixed in the implementation and gone from the model.) *)
From Coq Require Import QArith.
From HclV Require Import Base.Prelude Cty.Values Cty.Convert Cty.Ops Eval.Impl Eval.Funcs
     Eval.MarksNI Eval.MarksNI_Ops Eval.MarksNI_Index Eval.MarksNI_Funcs Eval.MarksNI_Steps
     Eval.MarksNI_Eval Eval.MarksNI_Wf Eval.MarksNI_Main.
Open Scope Z_scope.

Definition n_s := [115]. Definition n_t := [116]. Definition n_l := [108]. Definition n_x := [120].
Definition n_sum := [115;117;109]. Definition n_first := [102;105;114;115;116].
Definition var (n : list Z) : expr := EScopeTrav n [].
Definition ctx_of (vars : list (list Z * val)) : ctx := [mkFrame (Some vars) (Some harness_funcs)].
Definition num (z : Z) : val := VNum (nz z).
Definition mk1 (v : val) : val := VMark [1] v.

Ltac low := repeat (first [constructor | split | reflexivity]).

(* the shape of a witness: two low-equivalent contexts, two results without any diagnostics,
   different observations *)
Definition witness (e : expr) (c1 c2 : ctx) : Prop :=
  low_eq 1 c1 c2 /\ exists v1 v2, value c1 e = (v1, []) /\ value c2 e = (v2, []) /\ erase 1 v1 <> erase 1 v2.
Ltac wit := split; [low|eexists; eexists; split; [vm_compute; reflexivity|split; [vm_compute; reflexivity|vm_compute; discriminate]]].

(* ---- (a) what ★ must hide -------------------------------------------------------------------- *)
(* [for x in s : x], s = marked [1] / marked [1, 2] (same type list(number), same mark): both
   results are marked, but their TYPES differ (tuple of 1 / of 2 elements). *)
Definition e_for := EFor [] n_x (var n_s) None (var n_x) None false.
Lemma star_type_not_stable :
  exists v1 v2,
    value (ctx_of [(n_s, mk1 (VList TNum [num 1]))]) e_for = (v1, []) /\
    value (ctx_of [(n_s, mk1 (VList TNum [num 1; num 2]))]) e_for = (v2, []) /\
    is_star 1 v1 = true /\ is_star 1 v2 = true /\ type_of v1 <> type_of v2.
Proof. eexists; eexists. repeat split; try (vm_compute; reflexivity). vm_compute. discriminate. Qed.

(* s == s, s = marked (1) [marked (2) 1] / marked (1) [2] (same type, same top-level mark): both
   results are marked with 1, but the MARK SETS differ ({1,2} / {1}): Equals hoists nested marks. *)
Definition e_eq := EBin OpEq (var n_s) (var n_s).
Lemma star_marks_not_stable :
  exists v1 v2,
    value (ctx_of [(n_s, mk1 (VTuple [VMark [2] (num 1)]))]) e_eq = (v1, []) /\
    value (ctx_of [(n_s, mk1 (VTuple [num 2]))]) e_eq = (v2, []) /\
    is_star 1 v1 = true /\ is_star 1 v2 = true /\ marks_of v1 <> marks_of v2.
Proof. eexists; eexists. repeat split; try (vm_compute; reflexivity). vm_compute. discriminate. Qed.

(* ---- (b) what remains false of the faithful model ------------------------------------------------ *)
(* MARK-ONLY.  true || t[s], t = [false], s = marked 0 / marked 5.  The right operand fails in the
   second run; its diagnostics are dropped by the short circuit (expression_ops.go, ShortCircuit
   returns lhsDiags) and with them the mark: marked true / unmarked true.
   Forces: nofail of both operands of && and ||. *)
Definition e_sc := EBin OpOr (ELit (VBool true)) (EIndex (var n_t) (var n_s)).
Lemma shortcircuit_refuted :
  witness e_sc (ctx_of [(n_s, mk1 (num 0)); (n_t, VTuple [VBool false])])
               (ctx_of [(n_s, mk1 (num 5)); (n_t, VTuple [VBool false])]).
Proof. wit. Qed.

(* MARK-ONLY here (content-changing variants exist: known finding cond-unselected-arm-error-dropped,
   e.g. false ? [ls[i]] : l, which is outside the model's universe: unification with a nested dynamic
   type).  true ? 1 : t[s], t = [7], s = marked 0 / marked 5: the unselected arm fails in the second
   run, ConditionalExpr.Value drops its diagnostics, the failed operation returned an unmarked
   DynamicVal: marked 1 / unmarked 1.  Forces: nofail te, nofail fe. *)
Definition e_cd := ECond (ELit (VBool true)) (ELit (num 1)) (EIndex (var n_t) (var n_s)).
Lemma cond_refuted_dropped_diags :
  witness e_cd (ctx_of [(n_s, mk1 (num 0)); (n_t, VTuple [num 7])])
               (ctx_of [(n_s, mk1 (num 5)); (n_t, VTuple [num 7])]).
Proof. wit. Qed.

(* TYPE-ONLY.  true ? [t[s]] : l, t = [1, "a"], l = list(number) [1, 2], s = marked 0 / marked 1.
   The result type is unified from both arms; the selected arm [t[s]] is converted to
   list(number) / list(string): the declared element type of the (unmarked) result list is visible,
   its only element is marked.  Forces: part (2) of cond_side. *)
Definition e_ce := ECond (ELit (VBool true)) (ETuple [EIndex (var n_t) (var n_s)]) (var n_l).
Definition c_ce (k : Z) := ctx_of [(n_l, VList TNum [num 1; num 2]); (n_s, mk1 (num k)); (n_t, VTuple [num 1; VStr [97]])].
Lemma cond_refuted_elem_type : witness e_ce (c_ce 0) (c_ce 1).
Proof. wit. Qed.

(* MARK-ONLY.  first(1, s...), s = marked [] / marked [5] (type list(number)); first has AllowMarked
   parameters and returns its first argument.  With an empty expansion the collection's marks go to
   the result (fix 663246c); with a non-empty one they go to the expanded arguments, which first
   ignores: marked 1 / unmarked 1.  Forces: expand_side (the expanded collection is not marked m). *)
Definition e_ef := ECall n_first [ELit (num 1); var n_s] true.
Lemma call_expand_refuted_first :
  witness e_ef (ctx_of [(n_s, mk1 (VList TNum []))]) (ctx_of [(n_s, mk1 (VList TNum [num 5]))]).
Proof. wit. Qed.

(* MARK-ONLY.  [for x in t : 1 if x], t = [unknown bool, s], s = marked null / marked true (type
   bool).  After the first (unknown) condition the result is no longer "known"; a NULL condition
   then raises no error and its marks are not collected (ForExpr.Value checks IsNull before Unmark):
   unmarked DynamicVal / marked DynamicVal.  Forces: nonnull of the condition (and, by the same
   code shape, of the key expression). *)
Definition e_fn := EFor [] n_x (var n_t) None (ELit (num 1)) (Some (var n_x)) false.
Definition c_fn (s : val) := ctx_of [(n_t, VTuple [VUnk TBool rf_none; mk1 s])].
Lemma for_refuted_null_cond : witness e_fn (c_fn (VNull TBool)) (c_fn (VBool true)).
Proof. wit. Qed.

(* TYPE-ONLY.  l[*][s], l = list(tuple([string, number])) [["a", 1]], s = marked 0 / marked 1: the
   element TYPE of the resulting list (string / number) is visible although every element is marked.
   Forces: the second alternative of splat_side (each_ty_stable: the type of each(item) depends only on
   the type of the item) for list / set sources and unknown tuples. *)
Definition e_sp := ESplat (var n_l) (EIndex EAnon (var n_s)).
Definition c_sp (k : Z) := ctx_of [(n_l, VList (TTuple [TStr; TNum]) [VTuple [VStr [97]; num 1]]); (n_s, mk1 (num k))].
Lemma splat_refuted_elem_type : witness e_sp (c_sp 0) (c_sp 1).
Proof. wit. Qed.

(* ---- the full statement is false ---------------------------------------------------------------- *)
Lemma funcs_ni_ctx_of vars : funcs_ni 1 (ctx_of vars).
Proof. intros fr fs name f [<-|[]] F G. injection F as <-. apply (harness_funcs_ok 1 name f G). Qed.

Theorem marks_noninterference_stmt_refuted : ~ marks_noninterference_stmt.
Proof.
  intro H.
  assert (X : erase 1 dyn_val = erase 1 (mk1 dyn_val)).
  { eapply (H 1 index_repaired (index_repaired_ni 1) (S (expr_size e_fn))
              (c_fn (VNull TBool)) (c_fn (VBool true)) None None e_fn);
      try exact I; try apply funcs_ni_ctx_of; try (low; fail);
      try (intros fr vs k v [<-|[]] F I0; injection F as <-; destruct I0 as [E|[]]; injection E as _ <-; reflexivity);
      try (vm_compute; reflexivity). }
  vm_compute in X. discriminate X.
Qed.

(* ---- a non-trivial instance of the theorem ------------------------------------------------------- *)
Definition ex_upper : list Z := [117;112;112;101;114].
Definition ex_ctx (s : val) : ctx :=
  [mkFrame (Some [(n_l, VObj [([107], num 7)]); (n_s, s)]) (Some harness_funcs)].
(* { for x in s : "${x}" => [upper(x), l["k"]] } *)
Definition ex_expr : expr :=
  EFor [] n_x (var n_s) (Some (ETmpl [var n_x]))
       (ETuple [ECall ex_upper [var n_x] false; EIndex (var n_l) (ELit (VStr [107]))])
       None false.

Lemma is_null_with_marks v ms : is_null (with_marks v ms) = is_null v.
Proof. destruct ms; [reflexivity|]. destruct v; reflexivity. Qed.

Lemma nonnull_tmpl idx Cx parts : nonnull idx Cx (ETmpl parts).
Proof.
  intros fuel c a _ _. destruct fuel as [|f]; [reflexivity|]. rewrite eval_tmpl_unfold.
  destruct (fold_left _ parts _) as [[[b k] mk] d]. cbn [fst]. rewrite is_null_with_marks.
  unfold tmpl_ret. destruct (negb k); [destruct (_ && _)|]; reflexivity.
Qed.

Lemma ex_in_fragment : in_fragment 1 index ctx_ok ex_expr.
Proof.
  unfold ex_expr. apply F_for.
  - apply F_scope.
  - apply F_tuple. constructor; [|constructor; [|constructor]].
    + apply F_call; [constructor; [apply F_scope|constructor]|discriminate].
    + apply F_index; [apply F_scope|apply F_lit; reflexivity|apply key_ok_index_lit].
  - intros ke E. injection E as <-. split; [apply F_tmpl; constructor; [apply F_scope|constructor]|apply nonnull_tmpl].
  - intros ce E. discriminate E.
Qed.

Lemma ex_ctx_ok s : wf s -> ctx_ok (ex_ctx s).
Proof.
  intro W. split.
  - intros fr vs k v [<-|[]] F I0. injection F as <-.
    destruct I0 as [E|[E|[]]]; injection E as _ <-; [reflexivity|exact W].
  - intros fr fs name f [<-|[]] F G. injection F as <-. apply (harness_funcs_ok 1 name f G).
Qed.

Lemma ex_funcs_ni s : funcs_ni 1 (ex_ctx s).
Proof. intros fr fs name f [<-|[]] F G. injection F as <-. apply (harness_funcs_ok 1 name f G). Qed.

Lemma example_nonvacuous :
  exists v1 v2,
    in_fragment 1 index ctx_ok ex_expr /\
    low_eq 1 (ex_ctx (mk1 (VList TStr [VStr [97]]))) (ex_ctx (mk1 (VList TStr [VStr [98]; VStr [99]]))) /\
    funcs_ni 1 (ex_ctx (mk1 (VList TStr [VStr [97]]))) /\
    ctx_ok (ex_ctx (mk1 (VList TStr [VStr [97]]))) /\ ctx_ok (ex_ctx (mk1 (VList TStr [VStr [98]; VStr [99]]))) /\
    value (ex_ctx (mk1 (VList TStr [VStr [97]]))) ex_expr = (v1, []) /\
    value (ex_ctx (mk1 (VList TStr [VStr [98]; VStr [99]]))) ex_expr = (v2, []) /\
    v1 <> v2 /\ erase 1 v1 = erase 1 v2.
Proof.
  eexists; eexists.
  split; [apply ex_in_fragment|]. split; [low|]. split; [apply ex_funcs_ni|].
  split; [apply ex_ctx_ok; reflexivity|]. split; [apply ex_ctx_ok; reflexivity|].
  split; [vm_compute; reflexivity|]. split; [vm_compute; reflexivity|].
  split; [vm_compute; discriminate|vm_compute; reflexivity].
Qed.
