(* Eval/MarksNI_Steps.v — C06: the bodies of the evaluator's folds as top-level functions
   (unfolding lemmas by reflexivity) and their value-level lemmas. *)
From Coq Require Import QArith.
From HclV Require Import Base.Prelude Cty.Values Cty.Convert Cty.Ops Eval.Impl
     Eval.MarksNI Eval.MarksNI_Ops Eval.MarksNI_Index Eval.MarksNI_Conv Eval.MarksNI_Funcs.
Open Scope Z_scope.

Definition is_sc (o : binop) : bool := match o with OpOr | OpAnd => true | _ => false end.

Ltac bad K :=
  first [ unclean K
        | apply clean_app in K; destruct K as [_ K]; unclean K
        | apply clean_app in K; destruct K as [_ K]; apply clean_app in K; destruct K as [_ K]; unclean K ].

(* Operation.ShortCircuit as a function: value and which side's diagnostics are returned *)
Definition tru (v : val) : bool := match v with VBool true => true | _ => false end.
Definition sc_val (op : binop) (lu ru : val) (lerr : bool) : option (val * bool) :=
  match op with
  | OpOr | OpAnd =>
      let fls (v : val) := negb (tru v) in
      let lk := is_known lu in let rk := is_known ru in
      if negb lk && negb rk then
        (if negb lerr then Some (unk_bool_nn, true) else None)
      else
      match op with
      | OpOr =>
          if lk && tru lu then Some (VBool true, true)
          else if rk && tru ru then Some (VBool true, false)
          else if negb lk && fls ru then Some (unk_bool_nn, true)
          else if negb rk && fls lu then Some (unk_bool_nn, false)
          else None
      | _ =>
          if lk && fls lu then Some (VBool false, true)
          else if rk && fls ru then Some (VBool false, false)
          else if negb lk && tru ru then Some (unk_bool_nn, true)
          else if negb rk && tru lu then Some (unk_bool_nn, false)
          else None
      end
  | _ => None
  end.

Lemma leq_known_tru m a b : leq m a b -> is_mark a = false -> is_known a = is_known b /\ tru a = tru b.
Proof.
  intros H Hm. leq_heads H; try discriminate Hm; try (injection H; intros; subst); split; reflexivity.
Qed.

Lemma sc_val_leq m op l1 l2 r1 r2 b :
  leq m l1 l2 -> leq m r1 r2 -> is_mark l1 = false -> is_mark r1 = false ->
  sc_val op l1 r1 b = sc_val op l2 r2 b.
Proof.
  intros Hl Hr Ml Mr. destruct (leq_known_tru _ _ _ Hl Ml) as [A B]. destruct (leq_known_tru _ _ _ Hr Mr) as [C D].
  unfold sc_val. rewrite A, B, C, D. reflexivity.
Qed.

Definition bin_tail (op : binop) (lu ru : val) (mk : marks) (lds rds : list diag) : val * list diag :=
  match option_map (fun p : val * bool => (fst p, if snd p then lds else rds)) (sc_val op lu ru (has_errors lds)) with
  | Some (v, ds) => (with_marks v mk, ds)
  | None =>
      let ds := lds ++ rds in
      if has_errors ds then (with_marks (VUnk (binop_type op) rf_none) mk, ds)
      else match call_binop op lu ru with
           | OOk res => (with_marks res mk, ds)
           | OErr _ => (VUnk (binop_type op) rf_none, ds ++ [derr S_OperationFailed []])
           | OUnsupported => (VUnk (binop_type op) rf_none, ds ++ [dunsupported])
           end
  end.

Lemma bin_tail_marked op lu ru mk lds rds v ds :
  bin_tail op lu ru mk lds rds = (v, ds) -> clean ds -> exists x, v = with_marks x mk.
Proof.
  unfold bin_tail. intros E K.
  destruct (option_map _ _) as [[sv sd]|].
  - injection E as <- _. eauto.
  - destruct (has_errors (lds ++ rds)); [injection E as <- _; eauto|].
    destruct (call_binop op lu ru); injection E as <- <-; eauto; exfalso; bad K.
Qed.

Lemma eval_bin_unfold idx f c a op l r :
  eval_with idx (S f) c a (EBin op l r) =
  let '(glv, lds) := eval_with idx f c a l in
  let lc := conv glv (binop_param op) in
  let ds1 := match lc with CErr ce => [derr S_InvalidOperand [FConv ce]] | CUnsupported => [dunsupported] | _ => [] end in
  let '(grv, rds) := eval_with idx f c a r in
  let rc := conv grv (binop_param op) in
  let ds2 := ds1 ++ match rc with CErr ce => [derr S_InvalidOperand [FConv ce]] | CUnsupported => [dunsupported] | _ => [] end in
  if has_unsupported lds || has_unsupported rds then (dyn_val, [dunsupported]) else
  match lc, rc with
  | COk lv, COk rv =>
      let '(lu, lm) := unmark lv in
      let '(ru, rm) := unmark rv in
      bin_tail op lu ru (marks_union lm rm) lds rds
  | _, _ => (VUnk (binop_type op) rf_none, ds2 ++ lds ++ rds)
  end.
Proof.
  cbn [eval_with]. destruct (eval_with idx f c a l) as [glv lds]. destruct (eval_with idx f c a r) as [grv rds].
  cbv zeta. destruct (has_unsupported lds || has_unsupported rds); [reflexivity|].
  destruct (conv glv (binop_param op)); try reflexivity.
  destruct (conv grv (binop_param op)); try reflexivity.
  destruct (unmark v) as [lu lm]. destruct (unmark v0) as [ru rm].
  unfold bin_tail, sc_val, tru.
  destruct op; try reflexivity; cbv zeta;
    repeat match goal with |- context [if ?b then _ else _] => destruct b end; reflexivity.
Qed.

Definition tmpl_step (ev : expr -> val * list diag) (st : list Z * bool * marks * list diag) (p : expr) :=
  let '(buf, known, mk, ds) := st in
  let '(pv, pds) := ev p in
  let ds := ds ++ pds in
  if is_null pv then (buf, known, mk, ds ++ [derr S_InvalidTemplateInterp []])
  else
  let '(pu, pm) := unmark pv in
  let mk := marks_union mk pm in
  if negb (is_known pv) then (buf, false, mk, ds)
  else match conv pu TStr with
       | CUnsupported => (buf, known, mk, ds ++ [dunsupported])
       | CErr ce => (buf, known, mk, ds ++ [derr S_InvalidTemplateInterp [FConv ce]])
       | COk (VStr s) => if known && negb (has_errors ds) then (buf ++ s, known, mk, ds) else (buf, known, mk, ds)
       | COk _ => (buf, known, mk, ds ++ [dunsupported])
       end.

Definition tmpl_ret (buf : list Z) (known : bool) (ds : list diag) : val :=
  if negb known then
    (if negb (has_errors ds) && negb (str_eqb buf [])
     then VUnk TStr (RExact (mkRefn true (firstn 128 buf) None None 0 None))
     else VUnk TStr rf_notnull)
  else VStr buf.

Lemma eval_tmpl_unfold idx f c a parts :
  eval_with idx (S f) c a (ETmpl parts) =
  let '(buf, known, mk, ds) := fold_left (tmpl_step (eval_with idx f c a)) parts ([], true, [], []) in
  (with_marks (tmpl_ret buf known ds) mk, ds).
Proof. reflexivity. Qed.

(* diagnostics only grow along a fold *)
Lemma fold_clean_mono {S X} (step : S -> X -> S) (dsf : S -> list diag) :
  (forall st x, exists e, dsf (step st x) = dsf st ++ e) ->
  forall l st, clean (dsf (fold_left step l st)) -> clean (dsf st).
Proof.
  intros Hs. induction l as [|x r IH]; intros st K; cbn [fold_left] in K; [exact K|].
  apply IH in K. destruct (Hs st x) as [e He]. rewrite He in K. apply clean_app in K as [K _]. exact K.
Qed.

Lemma is_known_hd v : is_known v = hd_known (fst (unmark v)).
Proof. destruct v; reflexivity. Qed.
Lemma is_null_hd v : is_null v = hd_null (fst (unmark v)).
Proof. destruct v; reflexivity. Qed.
Lemma leq_hd m a b : leq m a b -> is_mark a = false -> hd_known a = hd_known b /\ hd_null a = hd_null b.
Proof. intros H Hm. leq_heads H; try discriminate Hm; split; reflexivity. Qed.

Lemma tmpl_step_ds2 ev st p : exists x, snd (tmpl_step ev st p) = (snd st ++ snd (ev p)) ++ x.
Proof.
  destruct st as [[[buf known] mk] ds]. unfold tmpl_step. destruct (ev p) as [pv pds]. cbn [snd].
  repeat match goal with
         | |- context [match ?y with _ => _ end] => destruct y
         | |- context [if ?y then _ else _] => destruct y
         end; cbn [snd]; first [exists []; rewrite app_nil_r; reflexivity | eexists; reflexivity].
Qed.
Lemma tmpl_step_ds ev st p : exists x, snd (tmpl_step ev st p) = snd st ++ x.
Proof. destruct (tmpl_step_ds2 ev st p) as [x H]. rewrite H, <- app_assoc. eexists; reflexivity. Qed.

(* ---- template join ---------------------------------------------------------------------------- *)
Definition join_state := ((list Z * marks * list diag) + (val * list diag))%type.
Definition join_step (st : join_state) (v : val) : join_state :=
  match st with
  | inr r => inr r
  | inl (buf, am, ds) =>
      if is_null v then inl (buf, am, ds ++ [derr S_InvalidTemplateInterp []])
      else if ty_eqb (type_of v) TDyn then inr (with_same_marks (with_marks (VUnk TStr rf_none) am) v, ds)
      else match conv v TStr with
           | CUnsupported => inl (buf, am, ds ++ [dunsupported])
           | CErr ce => inl (buf, am, ds ++ [derr S_InvalidTemplateInterp [FConv ce]])
           | COk sv =>
               if negb (is_known v) then inr (with_same_marks (with_marks (VUnk TStr rf_none) am) v, ds)
               else let '(su, sm) := unmark sv in
                    match su with
                    | VStr s => inl (buf ++ s, marks_union am sm, ds)
                    | _ => inl (buf, am, ds ++ [dunsupported])
                    end
           end
  end.
Definition join_fin (st : join_state) : val * list diag :=
  match st with
  | inr r => r
  | inl (buf, am, ds) => (with_marks (VStr buf) am, ds)
  end.

Lemma eval_join_unfold idx f c a te :
  eval_with idx (S f) c a (EJoin te) =
  let '(tv, ds) := eval_with idx f c a te in
  if ty_eqb (type_of tv) TDyn then (with_same_marks (VUnk TStr rf_none) tv, ds)
  else if negb (is_known tv) then (with_same_marks (VUnk TStr rf_none) tv, ds)
  else
  let '(tu, tm) := unmark tv in
  match tu with
  | VTuple vs => join_fin (fold_left join_step vs (inl ([], tm, ds)))
  | _ => (dyn_val, ds ++ [dunsupported])
  end.
Proof. reflexivity. Qed.

Definition join_ds (st : join_state) : list diag :=
  match st with inl (_, _, ds) => ds | inr (_, ds) => ds end.
Lemma join_step_ds st v : exists x, join_ds (join_step st v) = join_ds st ++ x.
Proof.
  destruct st as [[[buf am] ds]|[r ds]]; cbn [join_step join_ds]; [|exists []; rewrite app_nil_r; reflexivity].
  repeat match goal with
         | |- context [match ?y with _ => _ end] => destruct y
         | |- context [if ?y then _ else _] => destruct y
         end; cbn [join_ds]; first [exists []; rewrite app_nil_r; reflexivity | eexists; reflexivity].
Qed.
Lemma join_fin_ds st : snd (join_fin st) = join_ds st.
Proof. destruct st as [[[buf am] ds]|[r ds]]; reflexivity. Qed.

Definition join_tainted (m : Z) (st : join_state) : bool :=
  match st with inl (_, am, _) => mark_mem m am | inr (r, _) => is_star m r end.

Lemma conv_star m v want r : is_star m v = true -> conv v want = COk r -> is_star m r = true.
Proof.
  destruct v; cbn [is_star]; try discriminate. intros Hs E. unfold conv in E. cbn [val_size] in E.
  rewrite convert_mark in E. destruct (convert _ v want); try discriminate E. injection E as <-.
  apply with_marks_star, Hs.
Qed.

Lemma join_step_taint m st v :
  join_tainted m st = true \/ (is_star m v = true /\ exists x, st = inl x) ->
  clean (join_ds (join_step st v)) -> join_tainted m (join_step st v) = true.
Proof.
  intros H K. destruct st as [[[buf am] ds]|[r ds]]; cbn [join_step join_tainted join_ds] in *.
  2:{ destruct H as [H|[_ [x H]]]; [exact H|discriminate H]. }
  assert (H' : mark_mem m am = true \/ is_star m v = true) by (destruct H as [H|[H _]]; auto). clear H.
  destruct (is_null v); [cbn [join_ds] in K; bad K|].
  destruct (ty_eqb (type_of v) TDyn).
  { cbn [join_tainted]. unfold with_same_marks. rewrite !is_star_with_marks.
    destruct H' as [H|H]; [rewrite H|rewrite (marks_of_star _ _ H)]; rewrite ?orb_true_r; reflexivity. }
  destruct (conv v TStr) as [sv| |] eqn:C; try (cbn [join_ds] in K; bad K).
  destruct (negb (is_known v)).
  { cbn [join_tainted]. unfold with_same_marks. rewrite !is_star_with_marks.
    destruct H' as [H|H]; [rewrite H|rewrite (marks_of_star _ _ H)]; rewrite ?orb_true_r; reflexivity. }
  destruct (unmark sv) as [su sm] eqn:U.
  destruct su; try (cbn [join_ds] in K; bad K).
  cbn [join_tainted]. rewrite mark_mem_union. destruct H' as [H|H]; [rewrite H; reflexivity|].
  pose proof (conv_star _ _ _ _ H C) as S. apply marks_of_star in S. unfold marks_of in S. rewrite U in S.
  cbn [snd] in S. rewrite S. apply orb_true_r.
Qed.

Lemma join_fold_taint m vs : forall st,
  join_tainted m st = true -> clean (join_ds (fold_left join_step vs st)) ->
  join_tainted m (fold_left join_step vs st) = true.
Proof.
  induction vs as [|v r IH]; intros st H K; cbn [fold_left] in *; [exact H|].
  apply IH; [|exact K]. apply join_step_taint; [left; exact H|].
  eapply (fold_clean_mono _ join_ds); [|exact K]. intros; apply join_step_ds.
Qed.

Lemma join_fin_star m st : join_tainted m st = true -> is_star m (fst (join_fin st)) = true.
Proof.
  destruct st as [[[buf am] ds]|[r ds]]; cbn [join_tainted join_fin fst]; [|auto].
  intro H. apply with_marks_star, H.
Qed.

Lemma marks_of_eq m a b : leq m a b -> is_star m a = false -> marks_of a = marks_of b.
Proof.
  intros L S. destruct (marks_of_leq _ _ _ L) as [[A _]|A]; [|exact A].
  rewrite (marks_of_nostar _ _ S) in A. discriminate A.
Qed.

Lemma unmark_fst_leq m a b : leq m a b -> is_star m a = false -> leq m (fst (unmark a)) (fst (unmark b)).
Proof.
  intros L S. destruct (unmark_leq _ _ _ L) as [[A _]|(_ & _ & C)]; [|exact C].
  pose proof (marks_of_nostar _ _ S) as X. unfold marks_of in X. congruence.
Qed.

Lemma type_of_unmark v : type_of v = type_of (fst (unmark v)).
Proof. destruct v; reflexivity. Qed.

Lemma leq_nostar_facts m v1 v2 :
  leq m v1 v2 -> is_star m v1 = false -> wf v1 ->
  is_null v1 = is_null v2 /\ is_known v1 = is_known v2 /\
  ty_eqb (type_of v1) TDyn = ty_eqb (type_of v2) TDyn.
Proof.
  intros H S W. rewrite !is_null_hd, !is_known_hd, (type_of_unmark v1), (type_of_unmark v2).
  destruct (unmark_leq _ _ _ H) as [[A _]|(_ & _ & C)].
  - pose proof (marks_of_nostar _ _ S) as X. unfold marks_of in X. congruence.
  - destruct (wf_unmark _ W) as [N _]. revert C N.
    generalize (fst (unmark v1)) (fst (unmark v2)). intros u1 u2 C N. change (leq m u1 u2) in C.
    leq_heads C; try discriminate N; try (injection C; intros; subst); repeat split; reflexivity.
Qed.

Definition join_rel (m : Z) (st1 st2 : join_state) : Prop :=
  (join_tainted m st1 = true /\ join_tainted m st2 = true) \/
  match st1, st2 with
  | inl (b1, am1, _), inl (b2, am2, _) => b1 = b2 /\ am1 = am2
  | inr (r1, _), inr (r2, _) => leq m r1 r2
  | _, _ => False
  end.

Lemma join_step_rel m st1 st2 v1 v2 :
  leq m v1 v2 -> wf v1 -> join_rel m st1 st2 ->
  clean (join_ds (join_step st1 v1)) -> clean (join_ds (join_step st2 v2)) ->
  join_rel m (join_step st1 v1) (join_step st2 v2).
Proof.
  intros Lv W [[T1 T2]|R] K1 K2.
  { left. split; apply join_step_taint; auto. }
  destruct st1 as [[[b1 am1] d1]|[r1 d1]], st2 as [[[b2 am2] d2]|[r2 d2]]; try contradiction.
  2:{ right. exact R. }
  destruct R as [-> ->].
  destruct (is_star m v1) eqn:S.
  { left. split; apply join_step_taint; try assumption; right; (split; [|eexists; reflexivity]); [exact S|].
    rewrite <- (leq_is_star _ _ _ Lv). exact S. }
  destruct (leq_nostar_facts _ _ _ Lv S W) as (Fn & Fk & Ft).
  cbn [join_step] in *. rewrite <- Fn, <- Ft, <- Fk in *.
  destruct (is_null v1); [cbn [join_ds] in K1; bad K1|].
  destruct (ty_eqb (type_of v1) TDyn).
  { right. apply with_same_marks_leq; [apply leq_refl|exact Lv]. }
  destruct (conv v1 TStr) as [s1| |] eqn:C1; try (cbn [join_ds] in K1; bad K1).
  destruct (conv v2 TStr) as [s2| |] eqn:C2; try (cbn [join_ds] in K2; bad K2).
  destruct (negb (is_known v1)).
  { right. apply with_same_marks_leq; [apply leq_refl|exact Lv]. }
  assert (Ls : leq m s1 s2) by (eapply (conv_leq_pd m TStr); [reflexivity|exact Lv|exact C1|exact C2]).
  destruct (unmark_rel _ _ _ Ls) as [Ms Xs].
  destruct (unmark s1) as [u1 sm1]. destruct (unmark s2) as [u2 sm2]. cbn [fst snd] in *.
  destruct u1; try (cbn [join_ds] in K1; bad K1). destruct u2; try (cbn [join_ds] in K2; bad K2).
  destruct (mark_mem m sm1) eqn:Z.
  - left. cbn [join_tainted]. rewrite !mark_mem_union, Z. destruct Ms as [[_ Q]|Q]; [rewrite Q|rewrite <- Q, Z];
      rewrite !orb_true_r; auto.
  - right. destruct Ms as [[P _]|Q]; [congruence|]. subst sm2. specialize (Xs eq_refl).
    unfold leq in Xs. cbn [erase] in Xs. injection Xs as ->. auto.
Qed.

Lemma join_fold_rel m vs1 vs2 :
  Forall2 (leq m) vs1 vs2 -> Forall wf vs1 ->
  forall st1 st2, join_rel m st1 st2 ->
  clean (join_ds (fold_left join_step vs1 st1)) -> clean (join_ds (fold_left join_step vs2 st2)) ->
  join_rel m (fold_left join_step vs1 st1) (fold_left join_step vs2 st2).
Proof.
  induction 1 as [|v1 v2 r1 r2 Lv _ IH]; intros Wf st1 st2 R K1 K2; cbn [fold_left] in *; [exact R|].
  inversion Wf as [|? ? Wv Wr]; subst.
  apply IH; [exact Wr| |exact K1|exact K2].
  apply join_step_rel; try assumption.
  - eapply (fold_clean_mono _ join_ds); [|exact K1]. intros; apply join_step_ds.
  - eapply (fold_clean_mono _ join_ds); [|exact K2]. intros; apply join_step_ds.
Qed.

Lemma join_fin_rel m st1 st2 : join_rel m st1 st2 -> leq m (fst (join_fin st1)) (fst (join_fin st2)).
Proof.
  intros [[T1 T2]|R].
  - apply stars_leq; apply join_fin_star; assumption.
  - destruct st1 as [[[b1 am1] d1]|[r1 d1]], st2 as [[[b2 am2] d2]|[r2 d2]]; try contradiction; cbn [join_fin fst].
    + destruct R as [-> ->]. apply leq_refl.
    + exact R.
Qed.

(* ---- object constructor ---------------------------------------------------------------------- *)
Definition obj_state := (list (list Z * val) * list marks * bool * list diag)%type.
Definition obj_step (ev : expr -> val * list diag) (st : obj_state) (it : expr * expr) : obj_state :=
  let '(vals, mks, known, ds) := st in
  let '(k, kds) := ev (fst it) in
  let '(v, vds) := ev (snd it) in
  let ds := ds ++ kds ++ vds in
  if has_errors kds then (vals, mks, false, ds)
  else if is_null k then (vals, mks, false, ds ++ [derr S_NullKey []])
  else
  let '(ku, km) := unmark k in
  let mks := mks ++ [km] in
  match conv ku TStr with
  | CUnsupported => (vals, mks, false, ds ++ [dunsupported])
  | CErr ce => (vals, mks, false, ds ++ [derr S_IncorrectKeyType [FConv ce]])
  | COk ks =>
      match ks with
      | VStr s => (assoc_set s v vals, mks, known, ds)
      | _ => (vals, mks, false, ds)
      end
  end.

Lemma eval_obj_unfold idx f c a items :
  eval_with idx (S f) c a (EObj items) =
  let '(vals, mks, known, ds) := fold_left (obj_step (eval_with idx f c a)) items ([], [], true, []) in
  if negb known then (with_marks dyn_val (marks_unions mks), ds)
  else (with_marks (VObj vals) (marks_unions mks), ds).
Proof. reflexivity. Qed.

Lemma obj_step_ds2 ev st it :
  exists x, snd (obj_step ev st it) = (snd st ++ snd (ev (fst it)) ++ snd (ev (snd it))) ++ x.
Proof.
  destruct st as [[[vals mks] known] ds]. unfold obj_step.
  destruct (ev (fst it)) as [k kds]. destruct (ev (snd it)) as [v vds]. cbn [snd].
  repeat match goal with
         | |- context [match ?y with _ => _ end] => destruct y
         | |- context [if ?y then _ else _] => destruct y
         end; cbn [snd]; first [exists []; rewrite app_nil_r; reflexivity | eexists; reflexivity].
Qed.
Lemma obj_step_ds ev st it : exists x, snd (obj_step ev st it) = snd st ++ x.
Proof. destruct (obj_step_ds2 ev st it) as [x H]. rewrite H, <- !app_assoc. eexists; reflexivity. Qed.

Definition obj_mks (st : obj_state) : list marks := snd (fst (fst st)).
Lemma obj_step_taint m ev st it :
  existsb (mark_mem m) (obj_mks st) = true -> existsb (mark_mem m) (obj_mks (obj_step ev st it)) = true.
Proof.
  destruct st as [[[vals mks] known] ds]. unfold obj_step, obj_mks. cbn [fst snd]. intro H.
  destruct (ev (fst it)) as [k kds]. destruct (ev (snd it)) as [v vds].
  repeat match goal with
         | |- context [match ?y with _ => _ end] => destruct y
         | |- context [if ?y then _ else _] => destruct y
         end; cbn [fst snd]; rewrite ?existsb_app, H; reflexivity.
Qed.

(* ---- function calls ---------------------------------------------------------------------------- *)
Definition call_step (ev : expr -> val * list diag) (fnv : fn) (st : list val * list diag) (ia : nat * expr) :=
  let '(vals, ds) := st in
  let '(v, ads) := ev (snd ia) in
  let ds := ds ++ ads in
  match param_for fnv (fst ia) with
  | None => (vals ++ [v], ds ++ [dunsupported])
  | Some p =>
      match conv v (p_ty p) with
      | COk v' => (vals ++ [v'], ds)
      | CErr ce => (vals ++ [v], ds ++ [derr S_InvalidFuncArg [FStr (p_name p) []; FConv ce]])
      | CUnsupported => (vals ++ [v], ds ++ [dunsupported])
      end
  end.

Definition call_tail (ev : expr -> val * list diag) (name : list Z) (fnv : fn) (args' : list expr) (ds0 : list diag)
           (emk : marks) : val * list diag :=
  let np := length (f_params fnv) in
  if (length args' <? np)%nat then (dyn_val, [derr S_NotEnoughArgs [FStr name []]])
  else if (match f_varparam fnv with None => true | Some _ => false end) && (np <? length args')%nat
  then (dyn_val, [derr S_TooManyArgs [FStr name []]])
  else
  let '(argvals, ds) := fold_left (call_step ev fnv) (combine (seq 0 (length args')) args') ([], ds0) in
  if has_errors ds then (dyn_val, ds)
  else if has_unsupported ds then (dyn_val, ds)
  else match fn_call fnv argvals with
       | CallOk v => (with_marks v emk, ds)
       | CallArgErr i => (dyn_val, ds ++ [derr S_InvalidFuncArg []])
       | CallErr => (dyn_val, ds ++ [derr S_ErrorInCall [FStr name []]])
       | CallUnsupported => (dyn_val, ds ++ [dunsupported])
       end.

(* argument expansion f(a, b, xs...) *)
Definition call_expanded (ev : expr -> val * list diag) (args : list expr)
  : (list expr * list diag * marks) + (val * list diag) :=
  match rev args with
  | [] => inr (dyn_val, [dunsupported])
  | last :: init_rev =>
      let '(xv, xds) := ev last in
      if has_errors xds then inr (dyn_val, xds)
      else
      match type_of xv with
      | TDyn => if is_null xv then inr (dyn_val, xds ++ [derr S_InvalidExpand []]) else inr (with_same_marks dyn_val xv, xds)
      | TTuple _ | TList _ | TSet _ =>
          if is_null xv then inr (dyn_val, xds ++ [derr S_InvalidExpand []])
          else if negb (is_known xv) then inr (with_same_marks dyn_val xv, xds)
          else
          let '(xu, xm) := unmark xv in
          inl (rev init_rev ++ map (fun kv => ELit (with_marks (snd kv) xm)) (elements xu), xds,
               match elements xu with [] => xm | _ => [] end)
      | _ => inr (dyn_val, xds ++ [derr S_InvalidExpand []])
      end
  end.

Lemma eval_call_unfold_x idx f c a name args :
  eval_with idx (S f) c a (ECall name args true) =
  match lookup_fn c name false with
  | (None, false) => (dyn_val, [derr S_FuncsNotAllowed []])
  | (None, true) => (dyn_val, [derr S_UnknownFunc [FStr name []]])
  | (Some fnv, _) =>
      match call_expanded (eval_with idx f c a) args with
      | inr r => r
      | inl (args', ds0, emk) => call_tail (eval_with idx f c a) name fnv args' ds0 emk
      end
  end.
Proof. reflexivity. Qed.

Lemma eval_call_unfold idx f c a name args :
  eval_with idx (S f) c a (ECall name args false) =
  match lookup_fn c name false with
  | (None, false) => (dyn_val, [derr S_FuncsNotAllowed []])
  | (None, true) => (dyn_val, [derr S_UnknownFunc [FStr name []]])
  | (Some fnv, _) => call_tail (eval_with idx f c a) name fnv args [] []
  end.
Proof. reflexivity. Qed.

Lemma call_step_ds2 ev fnv st ia : exists x, snd (call_step ev fnv st ia) = (snd st ++ snd (ev (snd ia))) ++ x.
Proof.
  destruct st as [vals ds]. unfold call_step. destruct (ev (snd ia)) as [v ads]. cbn [snd].
  repeat match goal with
         | |- context [match ?y with _ => _ end] => destruct y
         end; cbn [snd]; first [exists []; rewrite app_nil_r; reflexivity | eexists; reflexivity].
Qed.
Lemma call_step_ds ev fnv st ia : exists x, snd (call_step ev fnv st ia) = snd st ++ x.
Proof. destruct (call_step_ds2 ev fnv st ia) as [x H]. rewrite H, <- !app_assoc. eexists; reflexivity. Qed.

(* ---- conditional ------------------------------------------------------------------------------ *)
Definition cond_uni (tv fv : val) : option (ty * bool * bool) + bool :=
  if is_dyn_null tv then inl (Some (type_of fv, true, false))
  else if is_dyn_null fv then inl (Some (type_of tv, false, true))
  else if ty_eqb (type_of tv) TDyn || ty_eqb (type_of fv) TDyn then inl (Some (TDyn, false, false))
  else match unify (type_of tv) (type_of fv) with
       | UOk t => inl (Some (t, negb (ty_eqb (type_of tv) t), negb (ty_eqb (type_of fv) t)))
       | UNone => inr false
       | UUnsupported => inr true
       end.

(* observations of a branch value used by the unknown-condition path *)
Record bobs := mkObs { o_null : bool; o_dnn : option bool; o_ty : ty;
                       o_nlo : option (option (num * bool)); o_nhi : option (option (num * bool));
                       o_llo : option Z; o_lhi : option (option Z) }.
Definition obs_of (v : val) : bobs :=
  mkObs (hd_null v) (definitely_not_null v) (type_of v) (num_lo v) (num_hi v) (len_lo v) (len_hi v).

Definition cond_unk_obs (rt : ty) (t f : bobs) : val :=
  let nn := match o_dnn t, o_dnn f with
            | Some a, Some b => Some (a && b) | _, _ => None end in
  if o_null t && o_null f then VNull rt else
    match nn with
    | None => VUnk rt RWild
    | Some nnb =>
      if ty_eqb (o_ty t) TNum && ty_eqb (o_ty f) TNum then
        match o_nlo t, o_nlo f, o_nhi t, o_nhi f with
        | Some tlo, Some flo, Some thi, Some fhi =>
            let lo := match tlo, flo with
                      | Some (a, ai), Some (b, bi) =>
                          if num_ltb a b then Some (a, ai)
                          else if num_eqb a b then Some (b, ai || bi) else Some (b, bi)
                      | _, _ => None end in
            let hi := match thi, fhi with
                      | Some (a, ai), Some (b, bi) =>
                          if num_ltb b a then Some (a, ai)
                          else if num_eqb a b then Some (b, ai || bi) else Some (b, bi)
                      | _, _ => None end in
            let lo := match lo with Some (NInf false, _) => None | o => o end in
            let hi := match hi with Some (NInf true, _) => None | o => o end in
            finish_unknown TNum (mkRefn nnb [] lo hi 0 None)
        | _, _, _, _ => VUnk TNum RWild
        end
      else if is_collection (o_ty t) && is_collection (o_ty f) && ty_eqb (o_ty t) (o_ty f) then
        match o_llo t, o_llo f, o_lhi t, o_lhi f with
        | Some tl, Some fl, Some th, Some fh =>
            let lo := Z.min tl fl in
            let hi := match th, fh with Some a, Some b => Some (Z.max a b) | _, _ => None end in
            finish_unknown rt (mkRefn nnb [] None None lo hi)
        | _, _, _, _ => VUnk rt RWild
        end
      else VUnk rt (RExact (mkRefn nnb [] None None 0 None))
    end.

Definition cond_pick (rt : ty) (mk0 : marks) (cds : list diag) (bv : val) (bds : list diag) (needconv : bool)
           (other : val) : val * list diag :=
  let mk := marks_union mk0 (deep_marks other) in
  if needconv then
    match conv bv rt with
    | COk r => (with_marks r mk, cds ++ bds)
    | CErr ce => (with_marks (VUnk rt rf_none) mk, cds ++ bds ++ [derr S_InconsistentCond [FConv ce]])
    | CUnsupported => (dyn_val, cds ++ bds ++ [dunsupported])
    end
  else (with_marks bv mk, cds ++ bds).

Definition cond_tail (rt : ty) (tconv fconv : bool) (cv : val) (cds : list diag)
           (tv : val) (tds : list diag) (fv : val) (fds : list diag) : val * list diag :=
  if is_null cv then (VUnk rt rf_none, cds ++ [derr S_NullCondition []])
  else
  let '(cu, cm) := unmark cv in
  let '(tu, tm) := unmark tv in
  let '(fu, fm) := unmark fv in
  let mk := marks_unions [cm; tm; fm] in
  if negb (is_known cu) then
    (with_marks (cond_unk_obs rt (obs_of tu) (obs_of fu)) (marks_unions [mk; deep_marks tu; deep_marks fu]), cds)
  else
  match conv cu TBool with
  | CUnsupported => (VUnk rt rf_none, cds ++ [dunsupported])
  | CErr _ => (VUnk rt rf_none, cds ++ [derr S_IncorrectCondType []])
  | COk cb =>
      match cb with
      | VBool true => cond_pick rt mk cds tu tds tconv fu
      | VBool false => cond_pick rt mk cds fu fds fconv tu
      | _ => (dyn_val, cds ++ [dunsupported])
      end
  end.

Lemma eval_cond_unfold idx f c a ce te fe :
  eval_with idx (S f) c a (ECond ce te fe) =
  let '(tv, tds) := eval_with idx f c a te in
  let '(fv, fds) := eval_with idx f c a fe in
  if has_unsupported tds || has_unsupported fds then (dyn_val, [dunsupported]) else
  match cond_uni tv fv with
  | inr true => (dyn_val, [dunsupported])
  | inr false | inl None =>
      (dyn_val, [derr S_InconsistentCond (if contains_marked tv || contains_marked fv then []
                                          else [FTy (type_of tv); FTy (type_of fv)])])
  | inl (Some (rt, tconv, fconv)) =>
      let '(cv, cds) := eval_with idx f c a ce in
      cond_tail rt tconv fconv cv cds tv tds fv fds
  end.
Proof.
  unfold cond_tail.
  cbn [eval_with]. destruct (eval_with idx f c a te) as [tv tds]. destruct (eval_with idx f c a fe) as [fv fds].
  destruct (has_unsupported tds || has_unsupported fds); [reflexivity|].
  fold (cond_uni tv fv). destruct (cond_uni tv fv) as [[[[rt tconv] fconv]|]|[|]]; try reflexivity.
  destruct (eval_with idx f c a ce) as [cv cds]. destruct (is_null cv); [reflexivity|].
  destruct (unmark cv) as [cu cm]. destruct (unmark tv) as [tu tm]. destruct (unmark fv) as [fu fm].
  destruct (negb (is_known cu)); [|reflexivity].
  unfold cond_unk_obs, obs_of. cbn [o_null o_dnn o_ty o_nlo o_nhi o_llo o_lhi].
  destruct (hd_null tu && hd_null fu) eqn:Hn.
  { destruct tu; try discriminate Hn; destruct fu; try discriminate Hn; reflexivity. }
  assert (X : forall (A : Type) (a b : A), match tu, fu with VNull _, VNull _ => a | _, _ => b end = b).
  { intros. destruct tu; try reflexivity; destruct fu; try reflexivity; discriminate Hn. }
  rewrite X. clear X Hn.
  repeat match goal with
         | |- context [match ?y with _ => _ end] => destruct y eqn:?
         | |- context [if ?y then _ else _] => destruct y eqn:?
         end; reflexivity.
Qed.

Lemma obs_leq m a b :
  leq m a b -> is_mark a = false -> type_of a = type_of b -> (forall t, type_of a <> TSet t) ->
  obs_of a = obs_of b.
Proof.
  intros H N T NS. unfold obs_of. rewrite <- T.
  leq_heads H; try discriminate N; try (injection H; intros; subst; reflexivity).
  - injection H as -> H. apply map_erase_Forall2, Forall2_length in H.
    cbn [hd_null definitely_not_null num_lo num_hi len_lo len_hi length_int]. rewrite H. reflexivity.
  - exfalso. eapply NS. reflexivity.
  - injection H as -> H. apply map_erase_kv_Forall2, Forall2_length in H.
    cbn [hd_null definitely_not_null num_lo num_hi len_lo len_hi length_int]. rewrite H. reflexivity.
  - injection H as H. apply map_erase_Forall2, Forall2_length in H.
    cbn [hd_null definitely_not_null num_lo num_hi len_lo len_hi length_int]. rewrite H. reflexivity.
  - injection H as H. apply map_erase_kv_Forall2, Forall2_length in H.
    cbn [hd_null definitely_not_null num_lo num_hi len_lo len_hi length_int]. rewrite H. reflexivity.
Qed.

Lemma cond_pick_ds rt mk cds bv bds nc o : exists x, snd (cond_pick rt mk cds bv bds nc o) = cds ++ x.
Proof.
  unfold cond_pick. cbv zeta. destruct nc; [destruct (conv bv rt)|]; cbn [snd]; eexists; reflexivity.
Qed.
Lemma cond_tail_ds rt tc fc cv cds tv tds fv fds :
  exists x, snd (cond_tail rt tc fc cv cds tv tds fv fds) = cds ++ x.
Proof.
  unfold cond_tail. destruct (is_null cv); [eexists; reflexivity|].
  destruct (unmark cv) as [cu cm]. destruct (unmark tv) as [tu tm]. destruct (unmark fv) as [fu fm].
  destruct (negb (is_known cu)); [exists []; rewrite app_nil_r; reflexivity|].
  destruct (conv cu TBool) as [cb| |]; try (eexists; reflexivity).
  destruct cb; try (eexists; reflexivity). destruct b; apply cond_pick_ds.
Qed.

Lemma cond_pick_marked rt mk cds bv bds nc o v ds :
  cond_pick rt mk cds bv bds nc o = (v, ds) -> clean ds ->
  exists x, v = with_marks x (marks_union mk (deep_marks o)).
Proof.
  unfold cond_pick. cbv zeta. intros E K. destruct nc; [destruct (conv bv rt)|]; injection E as <- <-; eauto;
    exfalso; apply clean_app in K as [_ K]; bad K.
Qed.
(* every clean result carries (at least) the top-level marks of the three operands *)
Lemma cond_tail_marked rt tc fc cv cds tv tds fv fds v ds :
  cond_tail rt tc fc cv cds tv tds fv fds = (v, ds) -> clean ds ->
  exists x ms, v = with_marks x ms /\
    forall m, mark_mem m (marks_unions [marks_of cv; marks_of tv; marks_of fv]) = true -> mark_mem m ms = true.
Proof.
  unfold cond_tail, marks_of. intros E K. destruct (is_null cv); [injection E as <- <-; bad K|].
  destruct (unmark cv) as [cu cm]. destruct (unmark tv) as [tu tm]. destruct (unmark fv) as [fu fm]. cbn [snd].
  cbv zeta in E.
  destruct (negb (is_known cu)).
  { injection E as <- _. eexists _, (marks_unions [marks_unions [cm; tm; fm]; deep_marks tu; deep_marks fu]).
    split; [reflexivity|]. intros m H.
    rewrite mark_mem_unions. cbn [existsb]. rewrite H. reflexivity. }
  destruct (conv cu TBool) as [cb| |]; try (injection E as <- <-; bad K).
  destruct cb; try (injection E as <- <-; bad K).
  destruct b; destruct (cond_pick_marked _ _ _ _ _ _ _ _ _ E K) as [x ->]; eexists _, _; (split; [reflexivity|]);
    intros m H; rewrite mark_mem_union, H; reflexivity.
Qed.

Lemma cond_pick_leq m rt mk cds1 cds2 b1 b2 bd1 bd2 nc o1 o2 v1 v2 ds1 ds2 :
  leq m b1 b2 -> leq m o1 o2 -> wf b1 -> wf b2 -> (nc = true -> type_of b1 = type_of b2 \/ noobj rt = true) ->
  cond_pick rt mk cds1 b1 bd1 nc o1 = (v1, ds1) -> cond_pick rt mk cds2 b2 bd2 nc o2 = (v2, ds2) ->
  clean ds1 -> clean ds2 -> leq m v1 v2.
Proof.
  intros L Lo Wb1 Wb2 Hs E1 E2 K1 K2.
  destruct (mark_mem m (deep_marks o1)) eqn:Z.
  { (* the unselected result carries m somewhere: both results are marked *)
    destruct (cond_pick_marked _ _ _ _ _ _ _ _ _ E1 K1) as [x1 ->].
    destruct (cond_pick_marked _ _ _ _ _ _ _ _ _ E2 K2) as [x2 ->].
    apply stars_leq; apply with_marks_star; rewrite mark_mem_union; [rewrite Z|rewrite <- (leq_deep_mem m _ _ Lo), Z];
      apply orb_true_r. }
  pose proof (leq_deep_eq m _ _ Lo Z) as <-.
  unfold cond_pick in E1, E2. cbv zeta in E1, E2. destruct nc.
  - destruct (conv b1 rt) as [r1| |] eqn:C1; try (injection E1 as <- <-; exfalso; apply clean_app in K1 as [_ K1]; bad K1).
    destruct (conv b2 rt) as [r2| |] eqn:C2; try (injection E2 as <- <-; exfalso; apply clean_app in K2 as [_ K2]; bad K2).
    injection E1 as <- _. injection E2 as <- _. apply with_marks_leq; [|apply marks_rel_refl].
    exact (conv_leq m _ _ _ _ _ L Wb1 Wb2 (Hs eq_refl) C1 C2).
  - injection E1 as <- _. injection E2 as <- _. apply with_marks_leq; [exact L|apply marks_rel_refl].
Qed.

Lemma cond_tail_leq m rt tc fc cv1 cv2 cds1 cds2 tv1 tv2 td1 td2 fv1 fv2 fd1 fd2 v1 v2 ds1 ds2 :
  leq m cv1 cv2 -> leq m tv1 tv2 -> leq m fv1 fv2 ->
  is_star m cv1 = false -> is_star m tv1 = false -> is_star m fv1 = false ->
  wf cv1 -> wf tv1 -> wf tv2 -> wf fv1 -> wf fv2 ->
  (tc = true -> type_of tv1 = type_of tv2 \/ noobj rt = true) ->
  (fc = true -> type_of fv1 = type_of fv2 \/ noobj rt = true) ->
  cond_tail rt tc fc cv1 cds1 tv1 td1 fv1 fd1 = (v1, ds1) ->
  cond_tail rt tc fc cv2 cds2 tv2 td2 fv2 fd2 = (v2, ds2) ->
  clean ds1 -> clean ds2 -> leq m v1 v2.
Proof.
  intros Lc Lt Lf Sc St Sf Wc Wt1 Wt2 Wf1 Wf2 Ht Hf E1 E2 K1 K2. unfold cond_tail in E1, E2.
  rewrite (type_of_unmark tv1), (type_of_unmark tv2) in Ht. rewrite (type_of_unmark fv1), (type_of_unmark fv2) in Hf.
  apply wf_unmark in Wt1 as [_ Wt1]. apply wf_unmark in Wt2 as [_ Wt2].
  apply wf_unmark in Wf1 as [_ Wf1]. apply wf_unmark in Wf2 as [_ Wf2].
  destruct (leq_nostar_facts _ _ _ Lc Sc Wc) as (Nc & _ & _). rewrite <- Nc in E2.
  destruct (is_null cv1); [injection E1 as <- <-; bad K1|].
  pose proof (marks_of_eq _ _ _ Lc Sc) as Mc. pose proof (marks_of_eq _ _ _ Lt St) as Mt.
  pose proof (marks_of_eq _ _ _ Lf Sf) as Mf. unfold marks_of in Mc, Mt, Mf.
  pose proof (unmark_fst_leq _ _ _ Lc Sc) as Xc. pose proof (unmark_fst_leq _ _ _ Lt St) as Xt.
  pose proof (unmark_fst_leq _ _ _ Lf Sf) as Xf.
  destruct (wf_unmark _ Wc) as [Nkc _].
  destruct (unmark cv1) as [cu1 cm1]. destruct (unmark cv2) as [cu2 cm2].
  destruct (unmark tv1) as [tu1 tm1]. destruct (unmark tv2) as [tu2 tm2].
  destruct (unmark fv1) as [fu1 fm1]. destruct (unmark fv2) as [fu2 fm2]. cbn [fst snd] in *. subst cm2 tm2 fm2.
  destruct (leq_known_tru _ _ _ Xc Nkc) as [Kc _]. rewrite <- Kc in E2. cbv zeta in E1, E2.
  destruct (negb (is_known cu1)).
  { (* unknown condition: the marks anywhere inside both results are on the result *)
    injection E1 as <- _. injection E2 as <- _.
    destruct (mark_mem m (deep_marks tu1) || mark_mem m (deep_marks fu1)) eqn:Z.
    - apply stars_leq; rewrite is_star_with_marks, !mark_mem_union, mark_mem_nil, !orb_false_r;
        apply orb_true_iff; right; apply orb_true_iff; right.
      + exact Z.
      + rewrite <- (leq_deep_mem m _ _ Xt), <- (leq_deep_mem m _ _ Xf). exact Z.
    - apply orb_false_iff in Z as [Z1 Z2].
      rewrite <- (leq_deep_eq m _ _ Xt Z1), <- (leq_deep_eq m _ _ Xf Z2). apply leq_refl. }
  destruct (conv cu1 TBool) as [b1| |] eqn:C1; try (injection E1 as <- <-; bad K1).
  destruct (conv cu2 TBool) as [b2| |] eqn:C2; try (injection E2 as <- <-; bad K2).
  assert (Lb : leq m b1 b2) by (eapply (conv_leq_pd m TBool); [reflexivity|exact Xc|exact C1|exact C2]).
  leq_heads Lb; try (injection E1 as <- <-; bad K1).
  injection Lb as ->. destruct b0.
  - eapply cond_pick_leq; [exact Xt|exact Xf|exact Wt1|exact Wt2|exact Ht|exact E1|exact E2|exact K1|exact K2].
  - eapply cond_pick_leq; [exact Xf|exact Xt|exact Wf1|exact Wf2|exact Hf|exact E1|exact E2|exact K1|exact K2].
Qed.

Lemma is_dyn_null_leq m a b : leq m a b -> is_dyn_null a = is_dyn_null b.
Proof. intro H. leq_heads H; try reflexivity. injection H as ->. reflexivity. Qed.

Definition cond_ok_ty (T F : ty) : Prop :=
  T = TDyn \/ F = TDyn \/
  match unify T F with
  | UOk t => pd_ty t = true \/ (ty_eqb T t = true /\ ty_eqb F t = true)
  | _ => True
  end.

Lemma cond_uni_safe tv fv rt tc fc :
  cond_uni tv fv = inl (Some (rt, tc, fc)) -> cond_ok_ty (type_of tv) (type_of fv) ->
  (tc = true -> pd_ty rt = true \/ prim_head (fst (unmark tv)) = true) /\
  (fc = true -> pd_ty rt = true \/ prim_head (fst (unmark fv)) = true).
Proof.
  unfold cond_uni. intros E Hok.
  destruct (is_dyn_null tv) eqn:D1.
  { injection E as <- <- <-. split; [|discriminate]. intros _. right.
    destruct tv; try discriminate D1. reflexivity. }
  destruct (is_dyn_null fv) eqn:D2.
  { injection E as <- <- <-. split; [discriminate|]. intros _. right.
    destruct fv; try discriminate D2. reflexivity. }
  destruct (ty_eqb (type_of tv) TDyn || ty_eqb (type_of fv) TDyn) eqn:D3.
  { injection E as <- <- <-. split; discriminate. }
  apply orb_false_iff in D3 as [D3 D4].
  destruct Hok as [H|[H|H]]; [rewrite H in D3; discriminate D3|rewrite H in D4; discriminate D4|].
  destruct (unify (type_of tv) (type_of fv)) as [t| |]; try discriminate E.
  injection E as <- <- <-. destruct H as [H|[H1 H2]].
  - split; intros _; left; exact H.
  - rewrite H1, H2. split; discriminate.
Qed.

(* ---- for expressions ------------------------------------------------------------------------- *)

Definition leq_pair (m : Z) (p q : val * val) : Prop := leq m (fst p) (fst q) /\ leq m (snd p) (snd q).
Definition wf_pair (p : val * val) : Prop := wf (fst p) /\ wf (snd p).

Lemma index_from_leq m l1 l2 : Forall2 (leq m) l1 l2 -> forall i, Forall2 (leq_pair m) (index_from i l1) (index_from i l2).
Proof.
  induction 1 as [|a b r s Hab _ IH]; intro i; cbn [index_from]; constructor.
  - split; [apply leq_refl|exact Hab].
  - apply IH.
Qed.

Lemma elements_leq m v1 v2 : leq m v1 v2 -> is_mark v1 = false -> Forall2 (leq_pair m) (elements v1) (elements v2).
Proof.
  intros H N. leq_heads H; try discriminate N; clear N; cbn [elements]; try constructor.
  - injection H as _ H. apply map_erase_Forall2 in H. apply index_from_leq, H.
  - injection H as _ H. apply map_erase_Forall2 in H.
    induction H; cbn [map]; constructor; try assumption. split; assumption.
  - injection H as _ H. apply map_erase_kv_Forall2 in H.
    induction H as [|p q r s [A B] _ IH]; cbn [map]; constructor; try exact IH.
    split; cbn [fst snd]; [rewrite A; apply leq_refl|exact B].
  - injection H as H. apply map_erase_Forall2 in H. apply index_from_leq, H.
  - injection H as H. apply map_erase_kv_Forall2 in H.
    induction H as [|p q r s [A B] _ IH]; cbn [map]; constructor; try exact IH.
    split; cbn [fst snd]; [rewrite A; apply leq_refl|exact B].
Qed.

Lemma index_from_wf l : forallb wfb l = true -> forall i, Forall wf_pair (index_from i l).
Proof.
  induction l as [|x r IH]; intros H i; cbn [index_from forallb] in *; constructor.
  - apply andb_true_iff in H as [A _]. split; [reflexivity|exact A].
  - apply andb_true_iff in H as [_ B]. apply IH, B.
Qed.

Lemma elements_wf v : wf v -> Forall wf_pair (elements v).
Proof.
  unfold wf. destruct v; cbn [elements wfb]; intro H; try constructor.
  - apply index_from_wf. eapply wfl_weaken, H.
  - apply wfl_weaken in H. induction l as [|x r IH]; cbn [map forallb] in *; constructor.
    + apply andb_true_iff in H as [A _]. split; exact A.
    + apply andb_true_iff in H as [_ B]. apply IH, B.
  - apply wfm_weaken in H. induction l as [|x r IH]; cbn [map forallb] in *; constructor.
    + apply andb_true_iff in H as [A _]. split; [reflexivity|exact A].
    + apply andb_true_iff in H as [_ B]. apply IH, B.
  - apply index_from_wf, H.
  - induction l as [|x r IH]; cbn [map forallb] in *; constructor.
    + apply andb_true_iff in H as [A _]. split; [reflexivity|exact A].
    + apply andb_true_iff in H as [_ B]. apply IH, B.
Qed.

Definition for_bind (c : ctx) (kvar vvar : list Z) (k v : val) : ctx :=
  child_ctx c ((if str_eqb kvar [] || str_eqb kvar vvar then [] else [(kvar, k)]) ++ [(vvar, v)]).

Lemma for_bind_low_eq m c1 c2 kvar vvar k1 k2 v1 v2 :
  low_eq m c1 c2 -> leq m k1 k2 -> leq m v1 v2 ->
  low_eq m (for_bind c1 kvar vvar k1 v1) (for_bind c2 kvar vvar k2 v2).
Proof.
  intros H Hk Hv. unfold for_bind, child_ctx. constructor; [|exact H]. split; [|reflexivity].
  cbn [fvars leq_vars]. destruct (str_eqb kvar [] || str_eqb kvar vvar); cbn [app];
    repeat constructor; assumption.
Qed.

Lemma for_bind_funcs m c kvar vvar k v : funcs_ni m c -> funcs_ni m (for_bind c kvar vvar k v).
Proof.
  intros H fr fs name f [<-|I] F G; [discriminate F|]. eapply H; eassumption.
Qed.

Lemma for_bind_vars_wf kvar vvar k v :
  wf k -> wf v -> forall k' v', In (k', v') ((if str_eqb kvar [] || str_eqb kvar vvar then [] else [(kvar, k)]) ++ [(vvar, v)]) -> wf v'.
Proof.
  intros Wk Wv k' v' I. destruct (str_eqb kvar [] || str_eqb kvar vvar); cbn [app In] in I;
    repeat (destruct I as [I|I]; [injection I as _ <-; assumption|]); contradiction.
Qed.

Definition for_probe (ev : ctx -> expr -> val * list diag) (c : ctx) (kvar vvar : list Z)
           (conde : option expr) (ds0 : list diag) : (marks * list diag) + (val * list diag) :=
  match conde with
  | None => inl ([], ds0)
  | Some ce =>
      let '(r, cds) := ev (for_bind c kvar vvar dyn_val dyn_val) ce in
      let ds := ds0 ++ cds in
      if is_null r then inr (dyn_val, ds ++ [derr S_ConditionIsNull []])
      else match conv r TBool with
           | CErr cer => inr (dyn_val, ds ++ [derr S_InvalidForCond [FConv cer]])
           | CUnsupported => inr (dyn_val, ds ++ [dunsupported])
           | COk _ => if has_errors cds then inr (dyn_val, ds) else inl (marks_of r, ds)
           end
  end.

Definition forl_state := (list val * list marks * bool * list diag)%type.
Definition forl_step (ev : ctx -> expr -> val * list diag) (c : ctx) (kvar vvar : list Z)
           (conde : option expr) (vale : expr) (st : forl_state) (kv : val * val) : forl_state :=
  let '(vals, mks, known, ds) := st in
  let cc := for_bind c kvar vvar (fst kv) (snd kv) in
  let after_cond : (list marks * list diag) + (list marks * bool * list diag) :=
    match conde with
    | None => inl (mks, ds)
    | Some ce =>
        let '(inc, cds) := ev cc ce in
        let ds := ds ++ cds in
        if is_null inc then inr (mks, false, if known then ds ++ [derr S_InvalidForCond []] else ds)
        else
        let mks := mks ++ [marks_of inc] in
        if negb (is_known inc) then inr (mks, false, ds)
        else
        match conv inc TBool with
        | CErr cer => inr (mks, false, if known then ds ++ [derr S_InvalidForCond [FConv cer]] else ds)
        | CUnsupported => inr (mks, false, ds ++ [dunsupported])
        | COk b => match fst (unmark b) with
                   | VBool false => inr (mks, known, ds)
                   | _ => inl (mks, ds)
                   end
        end
    end in
  match after_cond with
  | inr (mks, known', ds) => (vals, mks, known', ds)
  | inl (mks, ds) =>
      let '(v, vds) := ev cc vale in
      (vals ++ [v], mks, known, ds ++ vds)
  end.

Definition foro_state := (list (list Z * val) * list (list Z * list val) * list marks * bool * list diag)%type.
Definition foro_step (ev : ctx -> expr -> val * list diag) (c : ctx) (kvar vvar : list Z)
           (conde : option expr) (ke vale : expr) (group : bool) (st : foro_state) (kv : val * val) : foro_state :=
  let '(vals, groups, mks, known, ds) := st in
  let cc := for_bind c kvar vvar (fst kv) (snd kv) in
  let after_cond : (list marks * list diag) + (list marks * bool * list diag) :=
    match conde with
    | None => inl (mks, ds)
    | Some ce =>
        let '(inc, cds) := ev cc ce in
        let ds := ds ++ cds in
        if is_null inc then inr (mks, false, if known then ds ++ [derr S_InvalidForCond []] else ds)
        else
        let im := marks_of inc in
        let mks := mks ++ [im] in
        match conv inc TBool with
        | CErr cer => inr (mks, false, if known then ds ++ [derr S_InvalidForCond [FConv cer]] else ds)
        | CUnsupported => inr (mks, false, ds ++ [dunsupported])
        | COk b =>
            if negb (is_known b) then inr (mks, false, ds)
            else match fst (unmark b) with
                 | VBool false => inr (mks ++ [im], known, ds)
                 | _ => inl (mks ++ [im], ds)
                 end
        end
    end in
  match after_cond with
  | inr (mks, known', ds) => (vals, groups, mks, known', ds)
  | inl (mks, ds) =>
      let '(kraw, kds) := ev cc ke in
      let ds := ds ++ kds in
      if is_null kraw then (vals, groups, mks, false, if known then ds ++ [derr S_InvalidObjKey []] else ds)
      else
      let mks := mks ++ [marks_of kraw] in
      if negb (is_known kraw) then (vals, groups, mks, false, ds)
      else
      match conv kraw TStr with
      | CErr cer => (vals, groups, mks, false, if known then ds ++ [derr S_InvalidObjKey [FConv cer]] else ds)
      | CUnsupported => (vals, groups, mks, false, ds ++ [dunsupported])
      | COk kc =>
          match fst (unmark kc) with
          | VStr ks =>
              let '(v, vds) := ev cc vale in
              let ds := ds ++ vds in
              if group then
                let old := match assoc_get ks groups with Some l => l | None => [] end in
                (vals, assoc_set ks (old ++ [v]) groups, mks, known, ds)
              else
                match assoc_get ks vals with
                | Some _ =>
                    (vals, groups, mks, known,
                     ds ++ [derr S_DuplicateKey (if existsb (fun m => negb (zlist_eqb m [])) mks then [] else [FStr ks []])])
                | None => (assoc_set ks v vals, groups, mks, known, ds)
                end
          | _ => (vals, groups, mks, false, ds ++ [dunsupported])
          end
      end
  end.

Lemma eval_for_unfold idx f c a kvar vvar coll keye vale conde group :
  eval_with idx (S f) c a (EFor kvar vvar coll keye vale conde group) =
  let ev := fun cc e => eval_with idx f cc a e in
  let '(cv0, ds0) := eval_with idx f c a coll in
  if is_null cv0 then (dyn_val, ds0 ++ [derr S_IterNull []])
  else if ty_eqb (type_of cv0) TDyn then (with_same_marks dyn_val cv0, ds0)
  else
  let '(cv, cmk) := unmark cv0 in
  if negb (can_iterate cv) then (dyn_val, ds0 ++ [derr S_IterNonIterable [FTy (type_of cv)]])
  else
  match for_probe ev c kvar vvar conde ds0 with
  | inr r => r
  | inl (condmk, ds1) =>
      if negb (is_known cv) then (with_marks dyn_val (marks_union cmk condmk), ds1)
      else
      match keye with
      | Some ke =>
          let '(vals, groups, mks, known, ds) :=
            fold_left (foro_step ev c kvar vvar conde ke vale group) (elements cv) ([], [], [cmk], true, ds1) in
          if negb known then (with_marks dyn_val (marks_unions mks), ds)
          else
          let vals' := if group then map (fun p => (fst p, VTuple (snd p))) groups else vals in
          (with_marks (VObj vals') (marks_unions mks), ds)
      | None =>
          let '(vals, mks, known, ds) :=
            fold_left (forl_step ev c kvar vvar conde vale) (elements cv) ([], [cmk], true, ds1) in
          if negb known then (with_marks dyn_val (marks_unions mks), ds)
          else (with_marks (VTuple vals) (marks_unions mks), ds)
      end
  end.
Proof. reflexivity. Qed.

Definition forl_mks (st : forl_state) : list marks := snd (fst (fst st)).
Ltac forl_cases ev inc vale :=
  destruct (is_null inc);
  [|destruct (negb (is_known inc));
    [|destruct (conv inc TBool) as [b| |];
      [destruct (fst (unmark b)) as [| |[|]| | | | | | | |]; try destruct (ev _ vale)| |]]].

Lemma forl_step_taint m ev c kvar vvar conde vale st kv :
  existsb (mark_mem m) (forl_mks st) = true ->
  existsb (mark_mem m) (forl_mks (forl_step ev c kvar vvar conde vale st kv)) = true.
Proof.
  destruct st as [[[vals mks] known] ds]. unfold forl_step, forl_mks. cbn [fst snd]. intro H.
  destruct conde as [ce|].
  - destruct (ev _ ce) as [inc cds]. forl_cases ev inc vale; cbn [fst snd]; rewrite ?existsb_app, H; reflexivity.
  - destruct (ev _ vale). cbn [fst snd]. exact H.
Qed.

Lemma forl_step_ds ev c kvar vvar conde vale st kv :
  exists x, snd (forl_step ev c kvar vvar conde vale st kv) = snd st ++ x.
Proof.
  destruct st as [[[vals mks] known] ds]. unfold forl_step. cbn [snd].
  destruct conde as [ce|].
  - destruct (ev _ ce) as [inc cds]. forl_cases ev inc vale; try destruct known; cbn [snd]; rewrite <- ?app_assoc; eexists; reflexivity.
  - destruct (ev _ vale). cbn [snd]. eexists; reflexivity.
Qed.



Lemma forl_step_ds2 ev c kvar vvar ce vale st kv :
  exists x, snd (forl_step ev c kvar vvar (Some ce) vale st kv)
            = (snd st ++ snd (ev (for_bind c kvar vvar (fst kv) (snd kv)) ce)) ++ x.
Proof.
  destruct st as [[[vals mks] known] ds]. unfold forl_step. cbn [snd].
  destruct (ev _ ce) as [inc cds]. cbn [snd].
  forl_cases ev inc vale; try destruct known; cbn [snd];
    first [exists []; rewrite app_nil_r; reflexivity | eexists; reflexivity].
Qed.

(* the class of a converted condition: false / anything else *)
Definition is_vfalse (v : val) : bool := match v with VBool false => true | _ => false end.
Lemma is_vfalse_leq m a b : leq m a b -> is_mark a = false -> is_vfalse a = is_vfalse b.
Proof. intros H N. leq_heads H; try discriminate N; try reflexivity. injection H as ->. reflexivity. Qed.

(* ---- for expressions: object result -------------------------------------------------------------- *)
Definition foro_mks (st : foro_state) : list marks := snd (fst (fst st)).

(* the object-for step as a composition: condition part, then key/value part *)
Definition foro_cond (ev : ctx -> expr -> val * list diag) (cc : ctx) (conde : option expr)
           (mks : list marks) (known : bool) (ds : list diag)
  : (list marks * list diag) + (list marks * bool * list diag) :=
  match conde with
  | None => inl (mks, ds)
  | Some ce =>
      let '(inc, cds) := ev cc ce in
      let ds := ds ++ cds in
      if is_null inc then inr (mks, false, if known then ds ++ [derr S_InvalidForCond []] else ds)
      else
      let im := marks_of inc in
      let mks := mks ++ [im] in
      match conv inc TBool with
      | CErr cer => inr (mks, false, if known then ds ++ [derr S_InvalidForCond [FConv cer]] else ds)
      | CUnsupported => inr (mks, false, ds ++ [dunsupported])
      | COk b =>
          if negb (is_known b) then inr (mks, false, ds)
          else match fst (unmark b) with
               | VBool false => inr (mks ++ [im], known, ds)
               | _ => inl (mks ++ [im], ds)
               end
      end
  end.

Definition foro_body (ev : ctx -> expr -> val * list diag) (cc : ctx) (ke vale : expr) (group : bool)
           (vals : list (list Z * val)) (groups : list (list Z * list val)) (known : bool)
           (mks : list marks) (ds : list diag) : foro_state :=
  let '(kraw, kds) := ev cc ke in
  let ds := ds ++ kds in
  if is_null kraw then (vals, groups, mks, false, if known then ds ++ [derr S_InvalidObjKey []] else ds)
  else
  let mks := mks ++ [marks_of kraw] in
  if negb (is_known kraw) then (vals, groups, mks, false, ds)
  else
  match conv kraw TStr with
  | CErr cer => (vals, groups, mks, false, if known then ds ++ [derr S_InvalidObjKey [FConv cer]] else ds)
  | CUnsupported => (vals, groups, mks, false, ds ++ [dunsupported])
  | COk kc =>
      match fst (unmark kc) with
      | VStr ks =>
          let '(v, vds) := ev cc vale in
          let ds := ds ++ vds in
          if group then
            let old := match assoc_get ks groups with Some l => l | None => [] end in
            (vals, assoc_set ks (old ++ [v]) groups, mks, known, ds)
          else
            match assoc_get ks vals with
            | Some _ =>
                (vals, groups, mks, known,
                 ds ++ [derr S_DuplicateKey (if existsb (fun m => negb (zlist_eqb m [])) mks then [] else [FStr ks []])])
            | None => (assoc_set ks v vals, groups, mks, known, ds)
            end
      | _ => (vals, groups, mks, false, ds ++ [dunsupported])
      end
  end.

Lemma foro_step_eq ev c kvar vvar conde ke vale group st kv :
  foro_step ev c kvar vvar conde ke vale group st kv =
  let '(vals, groups, mks, known, ds) := st in
  let cc := for_bind c kvar vvar (fst kv) (snd kv) in
  match foro_cond ev cc conde mks known ds with
  | inr (mks, known', ds) => (vals, groups, mks, known', ds)
  | inl (mks, ds) => foro_body ev cc ke vale group vals groups known mks ds
  end.
Proof. destruct st as [[[[vals groups] mks] known] ds]. reflexivity. Qed.

Ltac foro_cond_cases ev inc :=
  destruct (is_null inc);
  [|destruct (conv inc TBool) as [b| |];
    [destruct (negb (is_known b)); [|destruct (fst (unmark b)) as [| |[|]| | | | | | | |]]| |]].

Ltac ex_app := first [ eexists; reflexivity | exists []; rewrite app_nil_r; reflexivity ].

Lemma foro_cond_shape ev cc conde mks known ds :
  match foro_cond ev cc conde mks known ds with
  | inl (mks', ds') => (exists mx, mks' = mks ++ mx) /\ (exists dx, ds' = ds ++ dx)
  | inr (mks', _, ds') => (exists mx, mks' = mks ++ mx) /\ (exists dx, ds' = ds ++ dx)
  end.
Proof.
  unfold foro_cond. destruct conde as [ce|]; [|split; ex_app].
  destruct (ev cc ce) as [inc cds].
  foro_cond_cases ev inc; try destruct known; rewrite <- ?app_assoc; split; ex_app.
Qed.

Lemma foro_cond_ds2 ev cc ce mks known ds :
  exists dx, match foro_cond ev cc (Some ce) mks known ds with
             | inl (_, ds') => ds' = (ds ++ snd (ev cc ce)) ++ dx
             | inr (_, _, ds') => ds' = (ds ++ snd (ev cc ce)) ++ dx
             end.
Proof.
  unfold foro_cond. destruct (ev cc ce) as [inc cds]. cbn [snd].
  foro_cond_cases ev inc; try destruct known;
    first [ exists []; rewrite app_nil_r; reflexivity | eexists; reflexivity ].
Qed.

Ltac foro_body_cases ev cc kraw vale group :=
  destruct (is_null kraw);
  [|destruct (negb (is_known kraw));
    [|destruct (conv kraw TStr) as [kc| |];
      [destruct (fst (unmark kc)) as [ks| | | | | | | | | |];
       try (destruct (ev cc vale) as [v vds]; destruct group; [|destruct (assoc_get ks _)])| |]]].

Lemma foro_body_shape ev cc ke vale group vals groups known mks ds :
  (exists mx, foro_mks (foro_body ev cc ke vale group vals groups known mks ds) = mks ++ mx) /\
  (exists dx, snd (foro_body ev cc ke vale group vals groups known mks ds) = ds ++ snd (ev cc ke) ++ dx).
Proof.
  unfold foro_body, foro_mks. destruct (ev cc ke) as [kraw kds]. cbn [snd].
  foro_body_cases ev cc kraw vale group; try destruct known; cbn [fst snd]; rewrite <- ?app_assoc; split; ex_app.
Qed.

Lemma foro_step_shape ev c kvar vvar conde ke vale group st kv :
  (exists mx, foro_mks (foro_step ev c kvar vvar conde ke vale group st kv) = foro_mks st ++ mx) /\
  (exists dx, snd (foro_step ev c kvar vvar conde ke vale group st kv) = snd st ++ dx).
Proof.
  rewrite foro_step_eq. destruct st as [[[[vals groups] mks] known] ds]. cbv zeta.
  pose proof (foro_cond_shape ev (for_bind c kvar vvar (fst kv) (snd kv)) conde mks known ds) as H.
  destruct (foro_cond _ _ conde mks known ds) as [[mks' ds']|[[mks' kn'] ds']]; destruct H as [[mx ->] [dx ->]].
  - destruct (foro_body_shape ev (for_bind c kvar vvar (fst kv) (snd kv)) ke vale group vals groups known (mks ++ mx) (ds ++ dx))
      as ([my H1] & [dy H2]).
    rewrite H1, H2. unfold foro_mks. cbn [fst snd]. rewrite <- !app_assoc. split; eexists; reflexivity.
  - unfold foro_mks. cbn [fst snd]. split; eexists; reflexivity.
Qed.

Lemma foro_step_taint m ev c kvar vvar conde ke vale group st kv :
  existsb (mark_mem m) (foro_mks st) = true ->
  existsb (mark_mem m) (foro_mks (foro_step ev c kvar vvar conde ke vale group st kv)) = true.
Proof.
  intro H. destruct (foro_step_shape ev c kvar vvar conde ke vale group st kv) as ([mx ->] & _).
  rewrite existsb_app, H. reflexivity.
Qed.
Lemma foro_step_ds ev c kvar vvar conde ke vale group st kv :
  exists x, snd (foro_step ev c kvar vvar conde ke vale group st kv) = snd st ++ x.
Proof. destruct (foro_step_shape ev c kvar vvar conde ke vale group st kv) as (_ & [dx ->]). eexists; reflexivity. Qed.

(* association lists related pointwise *)
Definition rel_kv {A} (R : A -> A -> Prop) (p q : list Z * A) : Prop := fst p = fst q /\ R (snd p) (snd q).
Lemma assoc_get_rel {A} (R : A -> A -> Prop) k (l1 l2 : list (list Z * A)) :
  Forall2 (rel_kv R) l1 l2 ->
  match assoc_get k l1, assoc_get k l2 with
  | Some a, Some b => R a b
  | None, None => True
  | _, _ => False
  end.
Proof.
  induction 1 as [|[k1 a] [k2 b] r s [A0 B] _ IH]; cbn [assoc_get]; [exact I|].
  cbn [fst snd] in *. subst k2. destruct (str_eqb k k1); [exact B|exact IH].
Qed.
Lemma assoc_set_rel {A} (R : A -> A -> Prop) k v1 v2 (l1 l2 : list (list Z * A)) :
  Forall2 (rel_kv R) l1 l2 -> R v1 v2 -> Forall2 (rel_kv R) (assoc_set k v1 l1) (assoc_set k v2 l2).
Proof.
  intros H Hv. induction H as [|[k1 a] [k2 b] r s [A0 B] H IH]; cbn [assoc_set].
  - constructor; [split; auto|constructor].
  - cbn [fst snd] in *. subst k2. destruct (str_eqb k k1).
    + constructor; [split; auto|assumption].
    + destruct (str_ltb k k1).
      * constructor; [split; auto|]. constructor; [split; auto|assumption].
      * constructor; [split; auto|assumption].
Qed.

(* ---- for expressions: everything after the collection has been evaluated ------------------------- *)
Definition for_fin_l (st : forl_state) : val * list diag :=
  let '(vals, mks, known, ds) := st in
  if negb known then (with_marks dyn_val (marks_unions mks), ds)
  else (with_marks (VTuple vals) (marks_unions mks), ds).
Definition for_fin_o (group : bool) (st : foro_state) : val * list diag :=
  let '(vals, groups, mks, known, ds) := st in
  if negb known then (with_marks dyn_val (marks_unions mks), ds)
  else
  let vals' := if group then map (fun p => (fst p, VTuple (snd p))) groups else vals in
  (with_marks (VObj vals') (marks_unions mks), ds).

Definition for_tail (ev : ctx -> expr -> val * list diag) (c : ctx) (kvar vvar : list Z)
           (keye : option expr) (vale : expr) (conde : option expr) (group : bool)
           (cv0 : val) (ds0 : list diag) : val * list diag :=
  if is_null cv0 then (dyn_val, ds0 ++ [derr S_IterNull []])
  else if ty_eqb (type_of cv0) TDyn then (with_same_marks dyn_val cv0, ds0)
  else
  let '(cv, cmk) := unmark cv0 in
  if negb (can_iterate cv) then (dyn_val, ds0 ++ [derr S_IterNonIterable [FTy (type_of cv)]])
  else
  match for_probe ev c kvar vvar conde ds0 with
  | inr r => r
  | inl (condmk, ds1) =>
      if negb (is_known cv) then (with_marks dyn_val (marks_union cmk condmk), ds1)
      else
      match keye with
      | Some ke => for_fin_o group (fold_left (foro_step ev c kvar vvar conde ke vale group) (elements cv) ([], [], [cmk], true, ds1))
      | None => for_fin_l (fold_left (forl_step ev c kvar vvar conde vale) (elements cv) ([], [cmk], true, ds1))
      end
  end.

Lemma eval_for_unfold' idx f c a kvar vvar coll keye vale conde group :
  eval_with idx (S f) c a (EFor kvar vvar coll keye vale conde group) =
  let '(cv0, ds0) := eval_with idx f c a coll in
  for_tail (fun cc e => eval_with idx f cc a e) c kvar vvar keye vale conde group cv0 ds0.
Proof. reflexivity. Qed.

Lemma for_fin_l_ds st : snd (for_fin_l st) = snd st.
Proof. destruct st as [[[vals mks] known] ds]. cbn [for_fin_l]. destruct (negb known); reflexivity. Qed.
Lemma for_fin_o_ds group st : snd (for_fin_o group st) = snd st.
Proof. destruct st as [[[[vals groups] mks] known] ds]. cbn [for_fin_o]. destruct (negb known); reflexivity. Qed.

(* the probe: an [inr] outcome is never clean; an [inl] one extends the diagnostics *)
Lemma for_probe_shape ev c kvar vvar conde ds0 :
  match for_probe ev c kvar vvar conde ds0 with
  | inr (_, ds) => ~ clean ds
  | inl (_, ds1) =>
      match conde with
      | None => ds1 = ds0
      | Some ce => ds1 = ds0 ++ snd (ev (for_bind c kvar vvar dyn_val dyn_val) ce)
      end
  end.
Proof.
  unfold for_probe. destruct conde as [ce|]; [|reflexivity].
  destruct (ev _ ce) as [r cds]. cbn [snd].
  destruct (is_null r); [intro K; bad K|].
  destruct (conv r TBool); try (intro K; bad K).
  destruct (has_errors cds) eqn:He; [|reflexivity].
  intros [K _]. rewrite has_errors_app, He, orb_true_r in K. discriminate K.
Qed.

Lemma for_tail_ds ev c kvar vvar keye vale conde group cv0 ds0 :
  clean (snd (for_tail ev c kvar vvar keye vale conde group cv0 ds0)) -> clean ds0.
Proof.
  unfold for_tail. intro K.
  destruct (is_null cv0); [cbn [snd] in K; apply clean_app in K as [K _]; exact K|].
  destruct (ty_eqb (type_of cv0) TDyn); [exact K|].
  destruct (unmark cv0) as [cv cmk].
  destruct (negb (can_iterate cv)); [cbn [snd] in K; apply clean_app in K as [K _]; exact K|].
  pose proof (for_probe_shape ev c kvar vvar conde ds0) as P.
  destruct (for_probe ev c kvar vvar conde ds0) as [[condmk ds1]|[r ds]]; [|contradiction].
  assert (K1 : clean ds1).
  { destruct (negb (is_known cv)); [exact K|]. destruct keye as [ke|].
    - rewrite for_fin_o_ds in K. eapply (fold_clean_mono _ snd) in K; [exact K|]. intros; apply foro_step_ds.
    - rewrite for_fin_l_ds in K. eapply (fold_clean_mono _ snd) in K; [exact K|]. intros; apply forl_step_ds. }
  destruct conde as [ce|]; subst ds1; [apply clean_app in K1 as [K1 _]|]; exact K1.
Qed.

(* ---- splat ------------------------------------------------------------------------------------------ *)
Definition is_seq_ty (t : ty) : bool := match t with TTuple _ | TList _ | TSet _ => true | _ => false end.

(* resultTy(): the type of the splat result, probing Each with unknown items *)
Definition splat_result_ty (ev : ctx -> option val -> val * list diag) (c : ctx) (sty : ty) : ty * list diag :=
  match sty with
  | TList et | TSet et =>
      let '(v, ids) := ev (mkFrame None None :: c) (Some (VUnk et rf_none)) in
      (TList (type_of v), ids)
  | TTuple ets =>
      let rs := map (fun et => ev (mkFrame None None :: c) (Some (VUnk et rf_none))) ets in
      (TTuple (map (fun r => type_of (fst r)) rs), concat (map snd rs))
  | _ => (TDyn, [])
  end.

(* ev: the evaluation of Each, as a function of context and anonymous symbol *)
Definition splat_tail (ev : ctx -> option val -> val * list diag) (c : ctx) (sv0 : val) (ds : list diag) : val * list diag :=
  if has_errors ds then (dyn_val, ds)
  else
  let sty0 := type_of sv0 in
  let auto := negb (is_seq_ty sty0) in
  if is_null sv0 then
    (if auto then (with_same_marks (VTuple []) sv0, ds) else (dyn_val, ds ++ [derr S_SplatNull []]))
  else if ty_eqb sty0 TDyn then (with_same_marks dyn_val sv0, ds)
  else
  let upgraded_unknown : option bool :=
    if auto && negb (is_known sv0) then
      match fst (unmark sv0) with
      | VUnk _ (RExact r) => Some (negb (r_notnull r))
      | VUnk _ RWild => None
      | _ => Some false
      end
    else Some false in
  let sv := if auto then with_same_marks (VTuple [sv0]) sv0 else sv0 in
  let sty := type_of sv in
  let result_ty : ty * list diag := splat_result_ty ev c sty in
  if negb (is_known sv) then
    let '(rt, tds) := result_ty in
    let ds := ds ++ tds in
    let base := if ty_eqb rt TDyn then VUnk rt rf_none else VUnk rt rf_notnull in
    let ret :=
      match rt, sty with
      | TList _, (TList _ | TSet _ | TMap _) =>
          match fst (unmark sv) with
          | VUnk _ (RExact r) => finish_unknown rt (mkRefn true [] None None (r_lenlo r) (r_lenhi r))
          | _ => VUnk rt RWild
          end
      | _, _ => base
      end in
    (with_same_marks ret sv, ds)
  else
  let '(su, sm) := unmark sv in
  let rs := map (fun kv => ev c (Some (snd kv))) (elements su) in
  let vals := map fst rs in
  let ds := ds ++ concat (map snd rs) in
  let is_known_all := negb (existsb (fun r => has_errors (snd r)) rs) in
  match upgraded_unknown with
  | None => (dyn_val, ds ++ [dunsupported])
  | Some true => (with_marks dyn_val sm, ds)
  | Some false =>
      if negb is_known_all then (with_marks (VUnk (fst result_ty) rf_none) sm, ds)
      else
      match sty with
      | TList _ | TSet _ =>
          match vals with
          | [] => let '(rt, tds) := result_ty in
                  (with_marks (VList (match rt with TList t => t | _ => TDyn end) []) sm, ds ++ tds)
          | v0 :: rest =>
              if forallb (fun v => ty_eqb (type_of v) (type_of v0)) rest
              then (with_marks (VList (type_of v0) vals) sm, ds)
              else (dyn_val, ds ++ [derr S_NestedSplat []])
          end
      | _ => (with_marks (VTuple vals) sm, ds)
      end
  end.

Lemma eval_splat_unfold idx f c a src each :
  eval_with idx (S f) c a (ESplat src each) =
  let '(sv0, ds) := eval_with idx f c a src in
  splat_tail (fun cc an => eval_with idx f cc an each) c sv0 ds.
Proof. cbn [eval_with]. destruct (eval_with idx f c a src) as [sv0 ds]. unfold splat_tail, is_seq_ty. reflexivity. Qed.

Lemma splat_tail_star m ev c sv0 ds v d :
  is_star m sv0 = true -> splat_tail ev c sv0 ds = (v, d) -> clean d -> is_star m v = true.
Proof.
  intros S E K. unfold splat_tail in E.
  destruct (has_errors ds) eqn:He; [injection E as <- <-; destruct K; congruence|].
  destruct (is_null sv0).
  { destruct (negb (is_seq_ty (type_of sv0))); injection E as <- <-; [apply with_marks_star, marks_of_star, S|bad K]. }
  destruct (ty_eqb (type_of sv0) TDyn); [injection E as <- _; apply with_marks_star, marks_of_star, S|].
  cbv zeta in E.
  remember (if negb (is_seq_ty (type_of sv0)) then with_same_marks (VTuple [sv0]) sv0 else sv0) as sv eqn:Hsv.
  assert (Ssv : is_star m sv = true).
  { subst sv. destruct (negb (is_seq_ty (type_of sv0))); [apply with_marks_star, marks_of_star, S|exact S]. }
  clear Hsv.
  match type of E with context [if negb (is_known sv) then ?A else ?B] => destruct (negb (is_known sv)) end.
  { match type of E with (let '(rt, tds) := ?R in _) = _ => destruct R as [rt tds] end.
    injection E as <- _. apply with_marks_star, marks_of_star, Ssv. }
  pose proof (marks_of_star _ _ Ssv) as Ms. unfold marks_of in Ms.
  destruct (unmark sv) as [su sm]. cbn [snd] in Ms.
  match type of E with context [match ?U with None => _ | Some _ => _ end] => destruct U as [[|]|] end.
  - injection E as <- _. apply with_marks_star, Ms.
  - match type of E with context [if negb ?B then _ else _] => destruct (negb B) end.
    + injection E as <- _. apply with_marks_star, Ms.
    + destruct (type_of sv);
        try (injection E as <- _; apply with_marks_star, Ms).
      * destruct (map fst _) as [|v0 rest].
        -- match type of E with (let '(rt, tds) := ?R in _) = _ => destruct R as [rt tds] end.
           injection E as <- _. apply with_marks_star, Ms.
        -- destruct (forallb _ rest); injection E as <- <-; [apply with_marks_star, Ms|bad K].
      * destruct (map fst _) as [|v0 rest].
        -- match type of E with (let '(rt, tds) := ?R in _) = _ => destruct R as [rt tds] end.
           injection E as <- _. apply with_marks_star, Ms.
        -- destruct (forallb _ rest); injection E as <- <-; [apply with_marks_star, Ms|bad K].
  - injection E as <- <-. bad K.
Qed.

Lemma splat_tail_ds ev c sv0 ds : clean (snd (splat_tail ev c sv0 ds)) -> clean ds.
Proof.
  unfold splat_tail. intro K.
  destruct (has_errors ds) eqn:He; [exact K|].
  destruct (is_null sv0).
  { destruct (negb (is_seq_ty (type_of sv0))); cbn [snd] in K; [exact K|apply clean_app in K as [K _]; exact K]. }
  destruct (ty_eqb (type_of sv0) TDyn); [exact K|].
  cbv zeta in K.
  remember (if negb (is_seq_ty (type_of sv0)) then with_same_marks (VTuple [sv0]) sv0 else sv0) as sv eqn:Hsv. clear Hsv.
  match type of K with context [if negb (is_known sv) then ?A else ?B] => destruct (negb (is_known sv)) end.
  { match type of K with context [let '(rt, tds) := ?R in _] => destruct R as [rt tds] end.
    cbn [snd] in K. apply clean_app in K as [K _]. exact K. }
  destruct (unmark sv) as [su sm].
  match type of K with context [match ?U with None => _ | Some _ => _ end] => destruct U as [[|]|] end.
  - cbn [snd] in K. apply clean_app in K as [K _]. exact K.
  - match type of K with context [if negb ?B then _ else _] => destruct (negb B) end.
    + cbn [snd] in K. apply clean_app in K as [K _]. exact K.
    + destruct (type_of sv); try (cbn [snd] in K; apply clean_app in K as [K _]; exact K).
      * destruct (map fst _) as [|v0 rest].
        -- match type of K with context [let '(rt, tds) := ?R in _] => destruct R as [rt tds] end.
           cbn [snd] in K. apply clean_app in K as [K _]. apply clean_app in K as [K _]. exact K.
        -- destruct (forallb _ rest); cbn [snd] in K; repeat (apply clean_app in K as [K _]); exact K.
      * destruct (map fst _) as [|v0 rest].
        -- match type of K with context [let '(rt, tds) := ?R in _] => destruct R as [rt tds] end.
           cbn [snd] in K. apply clean_app in K as [K _]. apply clean_app in K as [K _]. exact K.
        -- destruct (forallb _ rest); cbn [snd] in K; repeat (apply clean_app in K as [K _]); exact K.
  - cbn [snd] in K. apply clean_app in K as [K _]. apply clean_app in K as [K _]. exact K.
Qed.

Lemma unmark_with_marks x ms : is_mark x = false -> unmark (with_marks x ms) = (x, ms).
Proof. intro N. destruct ms; destruct x; try discriminate N; reflexivity. Qed.

Lemma is_seq_ty_leq m a b : leq m a b -> is_star m a = false -> wf a ->
  is_seq_ty (type_of a) = is_seq_ty (type_of b).
Proof.
  intros L S W. rewrite (type_of_unmark a), (type_of_unmark b).
  pose proof (unmark_fst_leq _ _ _ L S) as Lu. destruct (wf_unmark _ W) as [N _].
  revert Lu N. generalize (fst (unmark a)) (fst (unmark b)). intros u1 u2 Lu N.
  leq_heads Lu; try discriminate N; try (injection Lu; intros; subst); reflexivity.
Qed.

Definition splat_upg (sv0 : val) : option bool :=
  match fst (unmark sv0) with
  | VUnk _ (RExact r) => Some (negb (r_notnull r))
  | VUnk _ RWild => None
  | _ => Some false
  end.
Lemma splat_upg_leq m a b : leq m a b -> is_star m a = false -> wf a -> splat_upg a = splat_upg b.
Proof.
  intros L S W. unfold splat_upg.
  pose proof (unmark_fst_leq _ _ _ L S) as Lu. destruct (wf_unmark _ W) as [N _].
  revert Lu N. generalize (fst (unmark a)) (fst (unmark b)). intros u1 u2 Lu N.
  leq_heads Lu; try discriminate N; try (injection Lu; intros; subst); reflexivity.
Qed.

(* the sources covered by the proof: not a list or set, and a tuple only when known *)
Definition splat_src_ok (v : val) : Prop :=
  match type_of v with
  | TList _ | TSet _ => False
  | TTuple _ => is_known v = true
  | _ => True
  end.

Lemma has_errors_concat (rs : list (val * list diag)) :
  existsb (fun r => has_errors (snd r)) rs = has_errors (concat (map snd rs)).
Proof.
  induction rs as [|r t IH]; cbn [existsb map concat]; [reflexivity|].
  rewrite has_errors_app, IH. reflexivity.
Qed.

Lemma splat_tail_nf ev c sv0 ds sv su sm v d :
  has_errors ds = false -> is_null sv0 = false -> ty_eqb (type_of sv0) TDyn = false ->
  sv = (if negb (is_seq_ty (type_of sv0)) then with_same_marks (VTuple [sv0]) sv0 else sv0) ->
  is_known sv = true -> unmark sv = (su, sm) ->
  (forall t, type_of sv <> TList t) -> (forall t, type_of sv <> TSet t) ->
  splat_tail ev c sv0 ds = (v, d) -> clean d ->
  d = ds ++ concat (map snd (map (fun kv => ev c (Some (snd kv))) (elements su))) /\
  match (if negb (is_seq_ty (type_of sv0)) && negb (is_known sv0) then splat_upg sv0 else Some false) with
  | Some true => v = with_marks dyn_val sm
  | Some false => v = with_marks (VTuple (map fst (map (fun kv => ev c (Some (snd kv))) (elements su)))) sm
  | None => False
  end.
Proof.
  intros He Hn Hd Hsv Hk Hu NL NS E K. unfold splat_tail in E. rewrite He, Hn, Hd in E. cbv zeta in E.
  rewrite <- Hsv in E. rewrite Hk in E. cbn [negb] in E. rewrite Hu in E.
  fold (splat_upg sv0) in E.
  destruct (if negb (is_seq_ty (type_of sv0)) && negb (is_known sv0) then splat_upg sv0 else Some false) as [[|]|].
  - injection E as <- <-. split; reflexivity.
  - rewrite has_errors_concat in E.
    destruct (has_errors (concat (map snd (map (fun kv => ev c (Some (snd kv))) (elements su))))) eqn:Hc.
    + cbn [negb] in E. injection E as <- <-. exfalso. destruct K as [K _]. rewrite has_errors_app, Hc, orb_true_r in K. discriminate K.
    + cbn [negb] in E. destruct (type_of sv) eqn:T; try (injection E as <- <-; split; reflexivity).
      * exfalso. eapply NL. reflexivity.
      * exfalso. eapply NS. reflexivity.
  - injection E as <- <-. exfalso. bad K.
Qed.

Lemma type_of_with_marks v ms : type_of (with_marks v ms) = type_of v.
Proof. destruct ms; [reflexivity|]. destruct v; reflexivity. Qed.

(* values of primitive / dynamic type carry marks at the top only *)
Lemma pd_prim_head a : wf a -> pd_ty (type_of a) = true -> prim_head (fst (unmark a)) = true.
Proof.
  intros W T. rewrite type_of_unmark in T. destruct (wf_unmark _ W) as [N _].
  destruct (fst (unmark a)); try discriminate N; try discriminate T; reflexivity.
Qed.

Lemma leq_pd_eq m a b : leq m a b -> is_star m a = false -> wf a -> pd_ty (type_of a) = true -> a = b.
Proof.
  intros L S W T. pose proof (pd_prim_head a W T) as P.
  pose proof (unmark_fst_leq _ _ _ L S) as Lu. pose proof (marks_of_eq _ _ _ L S) as Me. unfold marks_of in Me.
  assert (Eu : fst (unmark a) = fst (unmark b)).
  { apply (leq_prim_eq m); [exact Lu|]. destruct (fst (unmark a)); try discriminate P; exact I. }
  leq_heads L; cbn [unmark fst snd] in *; try congruence.
Qed.

(* ---- hcl.Index with a key that carries m: every collection but an object re-applies the key's marks *)
Lemma index_u_star_key m x cm k r ds :
  is_star m k = true -> is_obj (type_of x) = false ->
  index_u x cm k = (r, ds) -> clean ds -> is_star m r = true.
Proof.
  intros Sk Ho E K. unfold index_u in E.
  destruct (hd_null x); [injection E as <- <-; bad K|].
  destruct (is_null k); [injection E as <- <-; bad K|].
  destruct (ty_eqb (type_of k) TDyn || ty_eqb (type_of x) TDyn).
  { injection E as <- _. apply with_marks_star, marks_of_star, Sk. }
  assert (Fin : forall want v0,
            match conv k want with
            | COk key' =>
                let '(ku, km) := unmark key' in
                match has_index x ku with
                | HUnknown => (with_marks v0 km, [])
                | HFalse => (dyn_val, [derr S_InvalidIndex []])
                | HTrue => match index_known x ku with
                           | Some v => (with_marks (with_marks v cm) km, [])
                           | None => (dyn_val, [dunsupported]) end
                end
            | CErr e => (dyn_val, [derr S_InvalidIndex [FConv e]])
            | CUnsupported => (dyn_val, [dunsupported])
            end = (r, ds) -> is_star m r = true).
  { intros want v0 E0. destruct (conv k want) as [key'| |] eqn:C; try (injection E0 as <- <-; bad K).
    pose proof (marks_of_star _ _ (conv_star _ _ _ _ Sk C)) as Mk. unfold marks_of in Mk.
    destruct (unmark key') as [ku km]. cbn [snd] in Mk.
    destruct (has_index x ku); [|injection E0 as <- <-; bad K|injection E0 as <- _; apply with_marks_star, Mk].
    destruct (index_known x ku); injection E0 as <- <-; [apply with_marks_star, Mk|bad K]. }
  destruct (type_of x) eqn:T; try (injection E as <- <-; bad K); try discriminate Ho.
  - eapply (Fin TNum). exact E.
  - eapply (Fin TStr). exact E.
  - eapply (Fin TNum). exact E.
Qed.

Lemma leq_nostar_eq_or_cont m k1 k2 :
  leq m k1 k2 -> is_star m k1 = false -> wf k1 ->
  k1 = k2 \/ (cont_head (fst (unmark k1)) = true /\ cont_head (fst (unmark k2)) = true /\ marks_of k1 = marks_of k2).
Proof.
  intros L S W. pose proof (unmark_fst_leq _ _ _ L S) as Lu. pose proof (marks_of_eq _ _ _ L S) as Me.
  destruct (wf_unmark _ W) as [N _].
  destruct (prim_head (fst (unmark k1))) eqn:P.
  - left. assert (Eu : fst (unmark k1) = fst (unmark k2)).
    { apply (leq_prim_eq m); [exact Lu|]. destruct (fst (unmark k1)); try discriminate P; exact I. }
    unfold marks_of in Me. leq_heads L; cbn [unmark fst snd] in *; congruence.
  - right. split; [|split; [|exact Me]].
    + destruct (fst (unmark k1)); try discriminate P; try discriminate N; reflexivity.
    + revert Lu N P. generalize (fst (unmark k1)) (fst (unmark k2)). intros u1 u2 Lu N P.
      leq_heads Lu; try discriminate N; try discriminate P; reflexivity.
Qed.

Lemma conv_cont_not_ok k want r :
  cont_head (fst (unmark k)) = true -> pd_ty want = true -> is_dyn want = false -> conv k want <> COk r.
Proof.
  intros Hc Hp Hd. unfold conv. destruct k; try discriminate Hc; cbn [unmark fst] in Hc.
  1-5: rewrite convert_cont_head by (reflexivity || assumption); rewrite Hd; apply convert_cont_head_err; (reflexivity || assumption).
  cbn [val_size]. rewrite convert_mark.
  rewrite (convert_cont_head (val_size k) k) by assumption. rewrite Hd.
  destruct (convert 1 k want) eqn:C; try discriminate. exfalso. revert C. apply convert_cont_head_err; assumption.
Qed.

Lemma index_u_cont_key x cm k r ds :
  cont_head (fst (unmark k)) = true ->
  index_u x cm k = (r, ds) -> clean ds -> r = with_marks (with_marks dyn_val cm) (marks_of k).
Proof.
  intros Hc E K. unfold index_u in E.
  destruct (hd_null x); [injection E as <- <-; bad K|].
  destruct (is_null k); [injection E as <- <-; bad K|].
  destruct (ty_eqb (type_of k) TDyn || ty_eqb (type_of x) TDyn); [injection E as <- _; reflexivity|].
  exfalso.
  assert (NoT : forall r0, conv k TNum <> COk r0) by (intro; apply conv_cont_not_ok; auto).
  assert (NoS : forall r0, conv k TStr <> COk r0) by (intro; apply conv_cont_not_ok; auto).
  destruct (type_of x); cbv beta iota zeta in E; try (injection E as <- <-; bad K).
  - destruct (conv k TNum) eqn:C; [eapply NoT; reflexivity|injection E as <- <-; bad K|injection E as <- <-; bad K].
  - destruct (conv k TStr) eqn:C; [eapply NoS; reflexivity|injection E as <- <-; bad K|injection E as <- <-; bad K].
  - destruct (conv k TNum) eqn:C; [eapply NoT; reflexivity|injection E as <- <-; bad K|injection E as <- <-; bad K].
  - destruct (conv k TStr) eqn:C; [eapply NoS; reflexivity|injection E as <- <-; bad K|injection E as <- <-; bad K].
Qed.

(* hcl.Index is non-interfering on every collection that is not of object type, whatever the key *)
Lemma index_leq_nonobj m c1 c2 k1 k2 r1 r2 ds1 ds2 :
  leq m c1 c2 -> leq m k1 k2 -> wf c1 -> wf k1 ->
  is_obj (type_of c1) = false -> is_obj (type_of c2) = false ->
  index c1 k1 = (r1, ds1) -> index c2 k2 = (r2, ds2) -> clean ds1 -> clean ds2 -> leq m r1 r2.
Proof.
  intros Lc Lk Wc Wk O1 O2 E1 E2 K1 K2.
  destruct (is_star m k1) eqn:Sk.
  - (* the key carries m *)
    assert (Sk2 : is_star m k2 = true) by (rewrite <- (leq_is_star _ _ _ Lk); exact Sk).
    rewrite index_unfold in E1, E2. rewrite type_of_unmark in O1, O2.
    apply stars_leq; [exact (index_u_star_key m _ _ _ _ _ Sk O1 E1 K1)|exact (index_u_star_key m _ _ _ _ _ Sk2 O2 E2 K2)].
  - destruct (leq_nostar_eq_or_cont _ _ _ Lk Sk Wk) as [<-|(H1 & H2 & Me)].
    + exact (index_leq m c1 c2 k1 r1 r2 ds1 ds2 Lc Wc E1 E2 K1 K2).
    + rewrite index_unfold in E1, E2.
      rewrite (index_u_cont_key _ _ _ _ _ H1 E1 K1), (index_u_cont_key _ _ _ _ _ H2 E2 K2), Me.
      apply with_marks_leq; [|apply marks_rel_refl].
      apply with_marks_leq; [apply leq_refl|]. apply marks_of_leq, Lc.
Qed.

Lemma call_tail_ds0 ev name fnv l d0 emk : clean (snd (call_tail ev name fnv l d0 emk)) -> clean d0.
Proof.
  unfold call_tail. intro K.
  destruct (length l <? length (f_params fnv))%nat; [exfalso; cbn [snd] in K; bad K|].
  destruct (_ && _); [exfalso; cbn [snd] in K; bad K|].
  destruct (fold_left (call_step ev fnv) (combine (seq 0 (length l)) l) ([], d0)) as [av d] eqn:Fo.
  assert (Kd : clean d).
  { destruct (has_errors d); [exact K|]. destruct (has_unsupported d); [exact K|].
    destruct (fn_call fnv av); cbn [snd] in K; try exact K; apply clean_app in K as [K _]; exact K. }
  pose proof (fold_clean_mono (call_step ev fnv) snd (fun st x => call_step_ds ev fnv st x)
                (combine (seq 0 (length l)) l) ([], d0)) as M.
  rewrite Fo in M. apply M, Kd.
Qed.

(* ---- result types of GetAttr / Index / traversals are determined by the type of the operand ------- *)
Definition get_attr_ty (t : ty) (name : list Z) : option ty :=
  match t with
  | TObj fs => assoc_get name fs
  | TMap et => Some et
  | TDyn => Some TDyn
  | _ => None
  end.

Lemma wf_assoc_get_ty t k (l : list (list Z * val)) v :
  forallb (fun p => ty_eqb (type_of (snd p)) t && wfb (snd p)) l = true -> assoc_get k l = Some v -> type_of v = t.
Proof.
  induction l as [|[k' x] r IH]; cbn [forallb assoc_get snd]; intros H E; [discriminate|].
  apply andb_true_iff in H as [A B]. apply andb_true_iff in A as [A _]. apply ty_eqb_eq in A.
  destruct (str_eqb k k'); [injection E as <-; exact A|auto].
Qed.
Lemma wf_nth_opt_ty t (l : list val) i v :
  forallb (fun x => ty_eqb (type_of x) t && wfb x) l = true -> nth_opt l i = Some v -> type_of v = t.
Proof.
  revert i; induction l as [|x r IH]; intros i H E; destruct i; cbn [nth_opt forallb] in *; try discriminate;
    apply andb_true_iff in H as [A B]; [injection E as <-; apply andb_true_iff in A as [A _]; apply ty_eqb_eq, A|eauto].
Qed.
Lemma nth_opt_map {A B} (g : A -> B) (l : list A) i : nth_opt (map g l) i = option_map g (nth_opt l i).
Proof. revert i; induction l; intros [|i]; cbn; auto. Qed.

Lemma get_attr_u_type x om n r ds :
  wf x -> is_mark x = false -> get_attr_u x om n = (r, ds) -> clean ds -> get_attr_ty (type_of x) n = Some (type_of r).
Proof.
  intros W N E K. unfold get_attr_u in E. unfold get_attr_ty.
  destruct (hd_null x); [injection E as <- <-; bad K|].
  destruct (type_of x) eqn:T; try (injection E as <- <-; bad K).
  - injection E as <- _. rewrite type_of_with_marks. reflexivity.
  - destruct t; injection E as <- <-; bad K.
  - destruct t; injection E as <- <-; bad K.
  - destruct (negb (hd_known x)); [injection E as <- _; rewrite type_of_with_marks; reflexivity|].
    destruct x; try (injection E as <- <-; bad K). cbn [type_of] in T. injection T as ->.
    destruct (assoc_get n l) eqn:G; injection E as <- <-; [|bad K].
    rewrite type_of_with_marks. unfold wf in W. cbn [wfb] in W. f_equal. symmetry. eapply wf_assoc_get_ty; eassumption.
  - destruct (assoc_get n fs) as [at_|] eqn:G; [|injection E as <- <-; bad K].
    destruct (negb (hd_known x)); [injection E as <- _; rewrite type_of_with_marks; reflexivity|].
    destruct x; try (injection E as <- <-; bad K). cbn [type_of] in T. injection T as <-.
    rewrite assoc_get_map in G. destruct (assoc_get n l) eqn:G2; [|discriminate G]. cbn [option_map] in G.
    injection E as <- _. rewrite type_of_with_marks. symmetry. exact G.
Qed.

Lemma get_attr_type o n r ds :
  wf o -> get_attr o n = (r, ds) -> clean ds -> get_attr_ty (type_of o) n = Some (type_of r).
Proof.
  intros W E K. rewrite get_attr_unfold in E. rewrite type_of_unmark. destruct (wf_unmark _ W) as [N Wu].
  eapply get_attr_u_type; eassumption.
Qed.

Definition index_ty (t : ty) (k : val) : option ty :=
  if ty_eqb (type_of k) TDyn || ty_eqb t TDyn then Some TDyn
  else
  match t with
  | TList et | TMap et => Some et
  | TTuple ts =>
      match conv k TNum with
      | COk key' =>
          match fst (unmark key') with
          | VNum n => match index_of_num n with Some i => nth_opt ts i | None => None end
          | VUnk _ _ => Some TDyn
          | _ => None
          end
      | _ => None
      end
  | TObj fs =>
      match conv k TStr with
      | COk key' =>
          if negb (is_known key') then Some TDyn
          else match fst (unmark key') with
               | VStr name => assoc_get name fs
               | _ => None
               end
      | _ => None
      end
  | _ => None
  end.

Lemma index_u_type x cm k r ds :
  wf x -> is_mark x = false -> index_u x cm k = (r, ds) -> clean ds -> index_ty (type_of x) k = Some (type_of r).
Proof.
  intros W N E K. unfold index_u in E. unfold index_ty.
  destruct (hd_null x) eqn:Hn; [injection E as <- <-; bad K|].
  destruct (is_null k); [injection E as <- <-; bad K|].
  destruct (ty_eqb (type_of k) TDyn || ty_eqb (type_of x) TDyn).
  { injection E as <- _. rewrite !type_of_with_marks. reflexivity. }
  destruct (type_of x) eqn:T; cbv beta iota zeta in E; try (injection E as <- <-; bad K).
  - (* list *)
    destruct (conv k TNum) as [key'| |]; try (injection E as <- <-; bad K).
    destruct (unmark key') as [ku km].
    destruct (has_index x ku); [|injection E as <- <-; bad K|injection E as <- _; rewrite !type_of_with_marks; reflexivity].
    destruct (index_known x ku) as [v|] eqn:IK; injection E as <- <-; [|bad K].
    rewrite !type_of_with_marks. f_equal. symmetry.
    destruct x; cbn [type_of] in T; try discriminate T; try discriminate Hn; try discriminate N.
    + subst t0. cbn [index_known] in IK. discriminate IK.
    + injection T as ->. unfold index_known in IK. destruct ku; try discriminate IK.
      destruct (index_of_num n); [|discriminate IK].
      unfold wf in W. cbn [wfb] in W. eapply wf_nth_opt_ty; eassumption.
  - (* map *)
    destruct (conv k TStr) as [key'| |]; try (injection E as <- <-; bad K).
    destruct (unmark key') as [ku km].
    destruct (has_index x ku); [|injection E as <- <-; bad K|injection E as <- _; rewrite !type_of_with_marks; reflexivity].
    destruct (index_known x ku) as [v|] eqn:IK; injection E as <- <-; [|bad K].
    rewrite !type_of_with_marks. f_equal. symmetry.
    destruct x; cbn [type_of] in T; try discriminate T; try discriminate Hn; try discriminate N.
    + subst t0. cbn [index_known] in IK. discriminate IK.
    + injection T as ->. unfold index_known in IK. destruct ku; try discriminate IK.
      unfold wf in W. cbn [wfb] in W. eapply wf_assoc_get_ty; eassumption.
  - (* tuple *)
    destruct (conv k TNum) as [key'| |]; try (injection E as <- <-; bad K).
    destruct (unmark key') as [ku km] eqn:U. cbn [fst].
    unfold has_index in E. rewrite T in E.
    destruct ku; try (injection E as <- <-; bad K).
    + destruct (index_of_num n) as [i|] eqn:In; [|injection E as <- <-; bad K].
      destruct (i <? length ts)%nat; [|injection E as <- <-; bad K].
      destruct (index_known x (VNum n)) as [v|] eqn:IK; injection E as <- <-; [|bad K].
      rewrite !type_of_with_marks.
      destruct x; cbn [type_of] in T; try discriminate T; try discriminate Hn; try discriminate N.
      * subst t. cbn [index_known] in IK. rewrite In in IK. destruct (nth_opt ts i); [|discriminate IK].
        injection IK as <-. reflexivity.
      * injection T as <-. cbn [index_known] in IK. rewrite In in IK. rewrite nth_opt_map, IK. reflexivity.
    + injection E as <- _. rewrite !type_of_with_marks. reflexivity.
  - (* object *)
    destruct (conv k TStr) as [key'| |]; try (injection E as <- <-; bad K).
    destruct (negb (is_known key')); [injection E as <- _; rewrite !type_of_with_marks; reflexivity|].
    destruct (fst (unmark key')); try (injection E as <- <-; bad K).
    destruct (assoc_get s fs) as [at_|] eqn:G; [|injection E as <- <-; bad K].
    destruct (negb (hd_known x)); [injection E as <- _; rewrite type_of_with_marks; reflexivity|].
    destruct x; try (injection E as <- <-; bad K). cbn [type_of] in T. injection T as <-.
    rewrite assoc_get_map in G. destruct (assoc_get s l) eqn:G2; [|discriminate G]. cbn [option_map] in G.
    injection E as <- _. rewrite type_of_with_marks. symmetry. exact G.
Qed.

Lemma index_type c k r ds :
  wf c -> index c k = (r, ds) -> clean ds -> index_ty (type_of c) k = Some (type_of r).
Proof.
  intros W E K. rewrite index_unfold in E. rewrite type_of_unmark. destruct (wf_unmark _ W) as [N Wu].
  eapply index_u_type; eassumption.
Qed.

Fixpoint trav_ty (steps : list step) (t : ty) : option ty :=
  match steps with
  | [] => Some t
  | s :: r =>
      match (match s with SAttr n => get_attr_ty t n | SIndex k => index_ty t k end) with
      | Some t' => trav_ty r t'
      | None => None
      end
  end.

Lemma traverse_rel_unsup : forall st v acc r' ds',
  traverse_rel st v acc = (r', ds') -> has_unsupported acc = true -> has_unsupported ds' = true.
Proof.
  induction st as [|s0 st IHs]; intros v acc r' ds' E Hu; cbn [traverse_rel] in E.
  - injection E as _ <-. exact Hu.
  - destruct (match s0 with SAttr n => get_attr v n | SIndex k => index v k end) as [v' d].
    destruct (has_errors d).
    + injection E as _ <-. rewrite has_unsupported_app, Hu. reflexivity.
    + eapply IHs; [exact E|]. rewrite has_unsupported_app, Hu. reflexivity.
Qed.

Lemma traverse_rel_type steps : forall v acc r ds,
  wf v -> traverse_rel steps v acc = (r, ds) -> clean ds -> trav_ty steps (type_of v) = Some (type_of r).
Proof.
  induction steps as [|s st IH]; intros v acc r ds W E K; cbn [traverse_rel trav_ty] in *.
  - injection E as <- _. reflexivity.
  - destruct (match s with SAttr n => get_attr v n | SIndex k => index v k end) as [v' d] eqn:S.
    destruct (has_errors d) eqn:He.
    { injection E as <- <-. exfalso. destruct K as [A _]. rewrite has_errors_app, He, orb_true_r in A. discriminate. }
    assert (Hu : has_unsupported d = false).
    { destruct (has_unsupported d) eqn:U; [|reflexivity]. exfalso. destruct K as [_ B].
      rewrite (traverse_rel_unsup _ _ _ _ _ E) in B; [discriminate|]. rewrite has_unsupported_app, U. apply orb_true_r. }
    assert (Wv' : wf v').
    { destruct s; [pose proof (get_attr_wf v name W) as X|pose proof (index_wf v key W) as X]; rewrite S in X; exact X. }
    assert (T : (match s with SAttr n => get_attr_ty (type_of v) n | SIndex k => index_ty (type_of v) k end) = Some (type_of v')).
    { destruct s; [eapply get_attr_type|eapply index_type]; try eassumption; split; assumption. }
    rewrite T. eapply IH; eassumption.
Qed.

(* the elements of a well-formed list / set have its element type *)
Lemma elements_typed_list t l : wf (VList t l) -> Forall (fun kv : val * val => type_of (snd kv) = t) (elements (VList t l)).
Proof.
  unfold wf. cbn [wfb elements]. generalize 0. induction l as [|x r IH]; intros i H; cbn [index_from forallb] in *; constructor.
  - apply andb_true_iff in H as [A _]. apply andb_true_iff in A as [A _]. apply ty_eqb_eq, A.
  - apply andb_true_iff in H as [_ B]. apply IH, B.
Qed.
Lemma elements_typed_set t l : wf (VSet t l) -> Forall (fun kv : val * val => type_of (snd kv) = t) (elements (VSet t l)).
Proof.
  unfold wf. cbn [wfb elements]. induction l as [|x r IH]; intro H; cbn [map forallb] in *; constructor.
  - apply andb_true_iff in H as [A _]. apply andb_true_iff in A as [A _]. apply ty_eqb_eq, A.
  - apply andb_true_iff in H as [_ B]. apply IH, B.
Qed.

(* ---- splat over an unknown sequence / over a known list or set ------------------------------------- *)
Definition splat_unk_ret (rt : ty) (sv : val) : val :=
  match rt, type_of sv with
  | TList _, (TList _ | TSet _ | TMap _) =>
      match fst (unmark sv) with
      | VUnk _ (RExact r) => finish_unknown rt (mkRefn true [] None None (r_lenlo r) (r_lenhi r))
      | _ => VUnk rt RWild
      end
  | _, _ => if ty_eqb rt TDyn then VUnk rt rf_none else VUnk rt rf_notnull
  end.

Lemma splat_tail_unknown ev c sv0 ds :
  has_errors ds = false -> is_null sv0 = false -> ty_eqb (type_of sv0) TDyn = false ->
  is_seq_ty (type_of sv0) = true -> is_known sv0 = false ->
  splat_tail ev c sv0 ds =
  (with_same_marks (splat_unk_ret (fst (splat_result_ty ev c (type_of sv0))) sv0) sv0,
   ds ++ snd (splat_result_ty ev c (type_of sv0))).
Proof.
  intros He Hn Hd Hq Hk. unfold splat_tail. rewrite He, Hn, Hd, Hq. cbn [negb andb]. cbv zeta. rewrite Hk. cbn [negb].
  destruct (splat_result_ty ev c (type_of sv0)) as [rt tds]. reflexivity.
Qed.

Definition is_ls_ty (t : ty) : bool := match t with TList _ | TSet _ => true | _ => false end.

Lemma splat_tail_list ev c sv0 ds su sm v d :
  has_errors ds = false -> is_null sv0 = false -> ty_eqb (type_of sv0) TDyn = false ->
  is_ls_ty (type_of sv0) = true -> is_known sv0 = true -> unmark sv0 = (su, sm) ->
  splat_tail ev c sv0 ds = (v, d) -> clean d ->
  match map fst (map (fun kv => ev c (Some (snd kv))) (elements su)) with
  | [] => v = with_marks (VList (match fst (splat_result_ty ev c (type_of sv0)) with TList t => t | _ => TDyn end) []) sm /\
          d = (ds ++ concat (map snd (map (fun kv => ev c (Some (snd kv))) (elements su)))) ++ snd (splat_result_ty ev c (type_of sv0))
  | v0 :: rest =>
      forallb (fun x => ty_eqb (type_of x) (type_of v0)) rest = true /\
      v = with_marks (VList (type_of v0) (v0 :: rest)) sm /\
      d = ds ++ concat (map snd (map (fun kv => ev c (Some (snd kv))) (elements su)))
  end.
Proof.
  intros He Hn Hd Hl Hk Hu E K. unfold splat_tail in E.
  assert (Hq : is_seq_ty (type_of sv0) = true) by (destruct (type_of sv0); try discriminate Hl; reflexivity).
  rewrite He, Hn, Hd, Hq in E. cbn [negb andb] in E. cbv zeta in E. rewrite Hk in E. cbn [negb] in E. rewrite Hu in E.
  rewrite has_errors_concat in E.
  destruct (has_errors (concat (map snd (map (fun kv => ev c (Some (snd kv))) (elements su))))) eqn:Hc.
  { cbn [negb] in E. injection E as <- <-. exfalso. destruct K as [K _]. rewrite has_errors_app, Hc, orb_true_r in K. discriminate K. }
  cbn [negb] in E.
  destruct (type_of sv0) eqn:T; try discriminate Hl.
  - destruct (map fst _) as [|v0 rest].
    + destruct (splat_result_ty ev c (TList t)) as [rt tds]. injection E as <- <-. split; reflexivity.
    + destruct (forallb _ rest); injection E as <- <-; [repeat split; reflexivity|exfalso; bad K].
  - destruct (map fst _) as [|v0 rest].
    + destruct (splat_result_ty ev c (TSet t)) as [rt tds]. injection E as <- <-. split; reflexivity.
    + destruct (forallb _ rest); injection E as <- <-; [repeat split; reflexivity|exfalso; bad K].
Qed.

Definition splat_okb (v : val) : bool :=
  match type_of v with
  | TList _ | TSet _ => false
  | TTuple _ => is_known v
  | _ => true
  end.
Lemma splat_okb_ok v : splat_okb v = true <-> splat_src_ok v.
Proof.
  unfold splat_okb, splat_src_ok. destruct (type_of v); split; intro H; try reflexivity; try exact I; try discriminate;
    try contradiction; exact H.
Qed.

Definition seq_kind (t : ty) : Z := match t with TList _ => 1 | TSet _ => 2 | TTuple _ => 3 | _ => 0 end.
Lemma seq_kind_leq m a b : leq m a b -> is_star m a = false -> wf a -> seq_kind (type_of a) = seq_kind (type_of b).
Proof.
  intros L S W. rewrite (type_of_unmark a), (type_of_unmark b).
  pose proof (unmark_fst_leq _ _ _ L S) as Lu. destruct (wf_unmark _ W) as [N _].
  revert Lu N. generalize (fst (unmark a)) (fst (unmark b)). intros u1 u2 Lu N.
  leq_heads Lu; try discriminate N; try (injection Lu; intros; subst); reflexivity.
Qed.

(* low-equal, unstarred, unknown values are equal *)
Lemma leq_unknown_eq m a b : leq m a b -> is_star m a = false -> wf a -> is_known a = false -> a = b.
Proof.
  intros L S W K. pose proof (unmark_fst_leq _ _ _ L S) as Lu. pose proof (marks_of_eq _ _ _ L S) as Me.
  unfold marks_of in Me. rewrite is_known_hd in K.
  assert (Eu : fst (unmark a) = fst (unmark b)).
  { apply (leq_prim_eq m); [exact Lu|]. destruct (fst (unmark a)); try discriminate K; exact I. }
  leq_heads L; cbn [unmark fst snd] in *; congruence.
Qed.

(* a known, non-null value of list / set type is a list / set *)
Lemma known_list_shape x t : is_mark x = false -> type_of x = TList t -> hd_known x = true -> hd_null x = false ->
  exists l, x = VList t l.
Proof. destruct x; cbn; intros N T K Nn; try discriminate; try (injection T as ->); eauto. Qed.
Lemma known_set_shape x t : is_mark x = false -> type_of x = TSet t -> hd_known x = true -> hd_null x = false ->
  exists l, x = VSet t l.
Proof. destruct x; cbn; intros N T K Nn; try discriminate; try (injection T as ->); eauto. Qed.
