(* Eval/UnknownSound_Frag.v — C05: the fragment of the expression language covered by the soundness
   theorem ([in_fragment]), hereditarily clean evaluations ([clean]), related contexts
   ([ctx_rel]), and the two induction statements [IV] (side invariant) and [SI] (soundness). *)
From Coq Require Import QArith Qreduction.
From HclV Require Import Base.Prelude Cty.Values Cty.Convert Cty.Ops Eval.Impl Eval.Funcs
                         Eval.UnknownSound_Base Eval.UnknownSound_Known Eval.UnknownSound_Gamma
                         Eval.UnknownSound_Conv Eval.UnknownSound_Conv2 Eval.UnknownSound_Ops
                         Eval.UnknownSound_Num Eval.UnknownSound_Cond Eval.UnknownSound_Eq Eval.UnknownSound_Fn.
Open Scope Z_scope.
Local Strategy opaque [equals val_size unmark_deep deep_marks unify_n convert].
Notation ev_ := (eval_with index).

(* ---- the fragment ------------------------------------------------------------------------------------ *)
(* literals (and literal traversal keys): wholly known, unmarked, well typed, canonical numbers *)
Definition lit_ok (v : val) : bool := wholly_known v && inv v.

Inductive in_fragment : expr -> Prop :=
| F_lit v : lit_ok v = true -> in_fragment (ELit v)
| F_scope root steps : forallb step_inv steps = true -> in_fragment (EScopeTrav root steps)
| F_rel src steps : in_fragment src -> forallb step_inv steps = true -> in_fragment (ERelTrav src steps)
| F_index a b : in_fragment a -> in_fragment b -> in_fragment (EIndex a b)
| F_tuple es : Forall in_fragment es -> in_fragment (ETuple es)
| F_obj items : Forall (fun it => in_fragment (fst it) /\ in_fragment (snd it)) items -> in_fragment (EObj items)
| F_objkey w force : in_fragment w -> in_fragment (EObjKey w force)
| F_anon : in_fragment EAnon
| F_bin op l r : in_fragment l -> in_fragment r -> in_fragment (EBin op l r)
| F_un op e : in_fragment e -> in_fragment (EUn op e)
| F_cond c t f : in_fragment c -> in_fragment t -> in_fragment f -> in_fragment (ECond c t f)
| F_tmpl parts : Forall in_fragment parts -> in_fragment (ETmpl parts)
| F_wrap e : in_fragment e -> in_fragment (EWrap e)
| F_paren e : in_fragment e -> in_fragment (EParen e)
| F_call name args expand : Forall in_fragment args -> in_fragment (ECall name args expand)
| F_join te : in_fragment te -> in_fragment (EJoin te)
| F_splat src each : in_fragment src -> in_fragment each -> in_fragment (ESplat src each)
| F_for kv vv coll key vl cond group :
    in_fragment coll -> (forall k, key = Some k -> in_fragment k) -> in_fragment vl ->
    (forall ce, cond = Some ce -> in_fragment ce) -> in_fragment (EFor kv vv coll key vl cond group).

(* inversion lemmas (so that proofs do not depend on the list of constructors) *)
Lemma frag_lit v : in_fragment (ELit v) -> lit_ok v = true. Proof. inversion 1; assumption. Qed.
Lemma frag_scope r s : in_fragment (EScopeTrav r s) -> forallb step_inv s = true. Proof. inversion 1; assumption. Qed.
Lemma frag_rel e s : in_fragment (ERelTrav e s) -> in_fragment e /\ forallb step_inv s = true. Proof. inversion 1; auto. Qed.
Lemma frag_index a b : in_fragment (EIndex a b) -> in_fragment a /\ in_fragment b. Proof. inversion 1; auto. Qed.
Lemma frag_tuple es : in_fragment (ETuple es) -> Forall in_fragment es. Proof. inversion 1; assumption. Qed.
Lemma frag_obj items : in_fragment (EObj items) ->
  Forall (fun it => in_fragment (fst it) /\ in_fragment (snd it)) items. Proof. inversion 1; assumption. Qed.
Lemma frag_objkey w f : in_fragment (EObjKey w f) -> in_fragment w. Proof. inversion 1; assumption. Qed.
Lemma frag_bin op l r : in_fragment (EBin op l r) -> in_fragment l /\ in_fragment r. Proof. inversion 1; auto. Qed.
Lemma frag_un op e : in_fragment (EUn op e) -> in_fragment e. Proof. inversion 1; assumption. Qed.
Lemma frag_cond c t f : in_fragment (ECond c t f) -> in_fragment c /\ in_fragment t /\ in_fragment f. Proof. inversion 1; auto. Qed.
Lemma frag_tmpl ps : in_fragment (ETmpl ps) -> Forall in_fragment ps. Proof. inversion 1; assumption. Qed.
Lemma frag_wrap e : in_fragment (EWrap e) -> in_fragment e. Proof. inversion 1; assumption. Qed.
Lemma frag_paren e : in_fragment (EParen e) -> in_fragment e. Proof. inversion 1; assumption. Qed.
Lemma frag_call n args x : in_fragment (ECall n args x) -> Forall in_fragment args. Proof. inversion 1; assumption. Qed.
Lemma frag_join te : in_fragment (EJoin te) -> in_fragment te. Proof. inversion 1; assumption. Qed.
Lemma frag_splat s e : in_fragment (ESplat s e) -> in_fragment s /\ in_fragment e. Proof. inversion 1; auto. Qed.
Lemma frag_for kv vv coll key vl cond g : in_fragment (EFor kv vv coll key vl cond g) ->
  in_fragment coll /\ (forall k, key = Some k -> in_fragment k) /\ in_fragment vl /\ (forall ce, cond = Some ce -> in_fragment ce).
Proof. inversion 1; auto. Qed.

(* ---- hereditarily clean evaluations ------------------------------------------------------------------- *)
(* an arm of a conditional: a literal null, or a value whose type has no dynamic part *)
Definition arm_ok (v : val) : bool := is_dyn_null v || negb (has_dyn (type_of v)).

(* result type and conversion flags of a conditional (copy of the corresponding part of Impl.v, ECond;
   the correspondence is checked by conversion where it is used) *)
Definition cond_uni (tv fv : val) : option (ty * bool * bool) + bool :=
  if is_dyn_null tv then inl (Some (type_of fv, true, false))
  else if is_dyn_null fv then inl (Some (type_of tv, false, true))
  else if ty_eqb (type_of tv) TDyn || ty_eqb (type_of fv) TDyn then inl (Some (TDyn, false, false))
  else match unify (type_of tv) (type_of fv) with
       | UOk t => inl (Some (t, negb (ty_eqb (type_of tv) t), negb (ty_eqb (type_of fv) t)))
       | UNone => inr false
       | UUnsupported => inr true
       end.
(* the unified result type has no dynamic part (always the case for the model's [unify] on types
   without dynamic parts; assumed per evaluation instead of proved about [unify_n]) *)
Definition rt_ok (tv fv : val) : bool :=
  match cond_uni tv fv with
  | inl (Some (rt, _, _)) => negb (has_dyn rt) || (is_dyn_null tv && is_dyn_null fv)
  | _ => true
  end.


Definition empty_frame : frame := mkFrame None None.
(* splat: sequence types are iterated, anything else is wrapped in a one-element tuple *)
Definition seq_ty (t : ty) : bool := match t with TTuple _ | TList _ | TSet _ => true | _ => false end.
Definition splat_sv (sv0 : val) : val := if seq_ty (type_of sv0) then sv0 else VTuple [sv0].

(* for: the child scope of one element, and the test "this element passes the condition" *)
Definition for_bind (c : ctx) (kvar vvar : list Z) (k v : val) : ctx :=
  child_ctx c ((if str_eqb kvar [] || str_eqb kvar vvar then [] else [(kvar, k)]) ++ [(vvar, v)]).
Definition for_incl (inc : val) : bool :=
  negb (is_null inc) && is_known inc &&
  match conv inc TBool with
  | COk b => is_known b && match fst (unmark b) with VBool false => false | _ => true end
  | _ => false
  end.

(* [clean fuel c anon e]: the evaluation of [e] and of every sub-expression it evaluates raises no
   error and stays inside the model; at every conditional, both arms are [arm_ok].
   (false on constructors outside the fragment) *)
Fixpoint clean (fuel : nat) (c : ctx) (anon : option val) (e : expr) {struct fuel} : bool :=
  match fuel with
  | O => false
  | S f =>
      diag_ok (snd (ev_ (S f) c anon e)) &&
      match e with
      | ELit _ | EScopeTrav _ _ => true
      | EAnon => is_some anon          (* an unbound anonymous symbol evaluates to DynamicVal *)
      | EParen e' | EWrap e' | EUn _ e' | ERelTrav e' _ => clean f c anon e'
      | EObjKey w force =>
          if negb force then
            match w with
            | EScopeTrav _ (_ :: _) => true
            | _ => match literal_name w with Some _ => true | None => clean f c anon w end
            end
          else clean f c anon w
      | EIndex a b | EBin _ a b => clean f c anon a && clean f c anon b
      | ETuple es | ETmpl es => forallb (clean f c anon) es
      | EObj items => forallb (fun it => clean f c anon (fst it) && clean f c anon (snd it)) items
      | ECond ce te fe =>
          clean f c anon ce && clean f c anon te && clean f c anon fe &&
          arm_ok (fst (ev_ f c anon te)) && arm_ok (fst (ev_ f c anon fe)) &&
          rt_ok (fst (ev_ f c anon te)) (fst (ev_ f c anon fe))
      | ECall _ args _ => forallb (clean f c anon) args
      (* Go panics on a null tuple ("TemplateJoinExpr got null tuple"); the model does not *)
      | EJoin te => clean f c anon te && negb (is_null (fst (ev_ f c anon te)))
      (* splat: the evaluations of "each" that are actually performed (probes with an unknown item when the
         source is unknown, the items otherwise).  A list result takes its element type from the first
         item's result (from the probe when the source is unknown): that type must have no dynamic part;
         an EMPTY list or set is excluded (both runs would take the element type from a probe). *)
      | ESplat src each =>
          clean f c anon src &&
          (let sv0 := fst (ev_ f c anon src) in
           if is_null sv0 || ty_eqb (type_of sv0) TDyn then true
           else
           let sv := splat_sv sv0 in
           if negb (is_known sv) then
             match type_of sv with
             | TList et | TSet et =>
                 clean f (empty_frame :: c) (Some (VUnk et rf_none)) each &&
                 negb (has_dyn (type_of (fst (ev_ f (empty_frame :: c) (Some (VUnk et rf_none)) each))))
             | TTuple ets => forallb (fun et => clean f (empty_frame :: c) (Some (VUnk et rf_none)) each) ets
             | _ => true
             end
           else
             forallb (fun kv : val * val => clean f c (Some (snd kv)) each) (elements sv) &&
             match type_of sv with
             | TList _ | TSet _ =>
                 match elements sv with
                 | [] => false
                 | kv0 :: _ => negb (has_dyn (type_of (fst (ev_ f c (Some (snd kv0)) each))))
                 end
             | _ => true
             end)
      (* for: per element, the condition; if the element passes, the key and (key known) the value.
         The probe of the condition with placeholder bindings is not a sub-evaluation in this sense:
         only its diagnostics are used, and they are part of the result's. *)
      | EFor kvar vvar coll keye vale conde group =>
          clean f c anon coll &&
          (let cv0 := fst (ev_ f c anon coll) in
           if is_null cv0 || ty_eqb (type_of cv0) TDyn || negb (can_iterate cv0) || negb (is_known cv0) then true
           else
           forallb (fun kv : val * val =>
             let cc := for_bind c kvar vvar (fst kv) (snd kv) in
             match conde with None => true | Some ce => clean f cc anon ce end &&
             (if match conde with None => true | Some ce => for_incl (fst (ev_ f cc anon ce)) end
              then match keye with
                   | None => clean f cc anon vale
                   | Some ke => clean f cc anon ke &&
                                (if is_known (fst (ev_ f cc anon ke)) then clean f cc anon vale else true)
                   end
              else true)) (elements cv0))
      end
  end.

Lemma clean_diag_ok f c anon e : clean f c anon e = true -> diag_ok (snd (ev_ f c anon e)) = true.
Proof. destruct f as [|f]; [discriminate|]. cbn [clean]. intros H. apply andb_true_iff in H. tauto. Qed.

(* ---- related contexts ------------------------------------------------------------------------------------ *)
Definition var_rel (p q : list Z * val) : Prop :=
  fst p = fst q /\ inv (snd p) = true /\ inv (snd q) = true /\ gsb (snd p) (snd q) = true.
(* same variables (related values), same function table, every function satisfies the contract *)
Definition frame_rel (fa fc : frame) : Prop :=
  match fvars fa, fvars fc with
  | None, None => True
  | Some va, Some vc => Forall2 var_rel va vc
  | _, _ => False
  end /\ ffuncs fa = ffuncs fc /\
  (forall fs, ffuncs fa = Some fs -> Forall (fun p => fn_ok (snd p)) fs).
(* frame by frame; the abstract side may have additional empty frames (the child context in which
   SplatExpr computes its result type) *)
Inductive ctx_rel : ctx -> ctx -> Prop :=
| CR_nil : ctx_rel [] []
| CR_cons fa fc ca cc : frame_rel fa fc -> ctx_rel ca cc -> ctx_rel (fa :: ca) (fc :: cc)
| CR_skipA ca cc : ctx_rel ca cc -> ctx_rel (empty_frame :: ca) cc.
Definition anon_rel (a c : option val) : Prop :=
  match a, c with
  | None, None => True
  | Some x, Some y => inv x = true /\ inv y = true /\ gsb x y = true
  | _, _ => False
  end.

Definition frame_inv (fr : frame) : Prop :=
  (forall vs, fvars fr = Some vs -> Forall (fun p => inv (snd p) = true) vs) /\
  (forall fs, ffuncs fr = Some fs -> Forall (fun p => fn_ok (snd p)) fs).
Definition ctx_inv (c : ctx) : Prop := Forall frame_inv c.
Definition anon_inv (a : option val) : Prop := forall v, a = Some v -> inv v = true.

Lemma empty_frame_inv : frame_inv empty_frame.
Proof. split; intros x E; discriminate. Qed.

Lemma ctx_rel_inv ca cc : ctx_rel ca cc -> ctx_inv ca /\ ctx_inv cc.
Proof.
  induction 1 as [|fa fc ca cc [Hf [He Hk]] _ [IHa IHc]|ca cc _ [IHa IHc]]; [split; constructor| |].
  - split; (constructor; [|assumption]); split.
    + intros vs E. rewrite E in Hf. destruct (fvars fc) as [vc|]; [|contradiction].
      clear -Hf. induction Hf as [|p q va vc [_ [Hp _]] _ IH]; constructor; assumption.
    + exact Hk.
    + intros vs E. rewrite E in Hf. destruct (fvars fa) as [va|]; [|contradiction].
      clear -Hf. induction Hf as [|p q va vc [_ [_ [Hq _]]] _ IH]; constructor; assumption.
    + rewrite <- He. exact Hk.
  - split; [constructor; [exact empty_frame_inv|exact IHa]|exact IHc].
Qed.
Lemma anon_rel_inv a c : anon_rel a c -> anon_inv a /\ anon_inv c.
Proof.
  unfold anon_rel, anon_inv. destruct a, c; try contradiction.
  - intros [H1 [H2 _]]. split; intros v' E; injection E as <-; assumption.
  - intros _. split; intros v' E; discriminate.
Qed.

Lemma assoc_get_rel name va vc : Forall2 var_rel va vc ->
  match assoc_get name va, assoc_get name vc with
  | Some x, Some y => inv x = true /\ inv y = true /\ gsb x y = true
  | None, None => True
  | _, _ => False
  end.
Proof.
  induction 1 as [|[ka xa] [kc xc] va vc [Hk H] _ IH]; simpl; [exact I|].
  simpl in Hk. subst kc. destruct (str_eqb name ka); [exact H|exact IH].
Qed.

Lemma lookup_var_rel : forall ca cc name b, ctx_rel ca cc ->
  match lookup_var ca name b, lookup_var cc name b with
  | (Some x, _), (Some y, _) => inv x = true /\ inv y = true /\ gsb x y = true
  | (None, b1), (None, b2) => b1 = b2
  | _, _ => False
  end.
Proof.
  intros ca cc name b R. revert b.
  induction R as [|fa fc ca cc [Hf _] _ IH|ca cc _ IH]; intros b; simpl; [reflexivity| |apply IH].
  destruct (fvars fa) as [va|], (fvars fc) as [vc|]; try contradiction; [|apply IH].
  pose proof (assoc_get_rel name va vc Hf) as Hn.
  destruct (assoc_get name va), (assoc_get name vc); try contradiction; [exact Hn|apply IH].
Qed.

Lemma lookup_fn_rel : forall ca cc name b, ctx_rel ca cc -> lookup_fn ca name b = lookup_fn cc name b.
Proof.
  intros ca cc name b R. revert b.
  induction R as [|fa fc ca cc [_ [He _]] _ IH|ca cc _ IH]; intros b; simpl; [reflexivity| |apply IH].
  rewrite He. destruct (ffuncs fc) as [fs|]; [|apply IH]. destruct (assoc_get name fs); [reflexivity|apply IH].
Qed.

Lemma lookup_var_inv : forall c name b v b', ctx_inv c -> lookup_var c name b = (Some v, b') -> inv v = true.
Proof.
  induction c as [|fr r IH]; intros name b v b' C E; simpl in E; [discriminate|].
  inversion C as [|? ? [Hf _] Hr]; subst.
  destruct (fvars fr) as [vs|] eqn:Ev.
  - destruct (assoc_get name vs) eqn:Ea.
    + injection E as <- _. apply (assoc_get_good (fun v => inv v = true) _ _ _ (Hf vs eq_refl) Ea).
    + apply (IH name true v b' Hr E).
  - apply (IH name b v b' Hr E).
Qed.

Lemma lookup_fn_ok : forall c name b f b', ctx_inv c -> lookup_fn c name b = (Some f, b') -> fn_ok f.
Proof.
  induction c as [|fr r IH]; intros name b f b' C E; simpl in E; [discriminate|].
  inversion C as [|? ? [_ Hf] Hr]; subst.
  destruct (ffuncs fr) as [fs|] eqn:Ev.
  - destruct (assoc_get name fs) eqn:Ea.
    + injection E as <- _. apply (assoc_get_good fn_ok _ _ _ (Hf fs eq_refl) Ea).
    + apply (IH name true f b' Hr E).
  - apply (IH name b f b' Hr E).
Qed.

(* the concrete context is related to itself *)
Lemma ctx_rel_self ca cc : ctx_rel ca cc -> ctx_rel cc cc.
Proof.
  induction 1 as [|fa fc ca cc [Hf [He Hk]] _ IH|ca cc _ IH]; [constructor| |exact IH].
  constructor; [|exact IH]. split; [|split; [reflexivity|rewrite <- He; exact Hk]].
  destruct (fvars fa) as [va|], (fvars fc) as [vc|]; try contradiction; [|exact I].
  clear -Hf. induction Hf as [|p q va vc [_ [_ [Iq G]]] _ IH]; constructor; [|exact IH].
  repeat split; try assumption. apply gsb_refl_inv; [apply (gsb_wk _ _ G)|exact Iq].
Qed.
Lemma anon_rel_self a c : anon_rel a c -> anon_rel c c.
Proof.
  unfold anon_rel. destruct a, c; try contradiction; [|auto].
  intros [_ [I G]]. repeat split; try assumption. apply gsb_refl_inv; [apply (gsb_wk _ _ G)|exact I].
Qed.

(* ---- the two induction statements ---------------------------------------------------------------------------- *)
(* the side invariant is preserved by evaluation (all paths, errors included) *)
Definition IV (f : nat) : Prop := forall c anon e,
  in_fragment e -> ctx_inv c -> anon_inv anon -> inv (fst (ev_ f c anon e)) = true.

Definition SI (f : nat) : Prop := forall e cA cC anA anC,
  in_fragment e -> ctx_rel cA cC -> anon_rel anA anC ->
  clean f cA anA e = true -> clean f cC anC e = true ->
  gsb (fst (ev_ f cA anA e)) (fst (ev_ f cC anC e)) = true.

Ltac destruct_scrut_eq x :=
  lazymatch x with
  | match ?y with _ => _ end => destruct_scrut_eq y
  | _ => let H := fresh "Hd" in destruct x eqn:H
  end.
Ltac destruct_goal_inv :=
  match goal with
  | |- inv (fst (match ?x with _ => _ end)) = true => destruct_scrut_eq x
  end.

Lemma marks_union_nil_nil : marks_union [] [] = []. Proof. reflexivity. Qed.


Lemma clean_S f c an e : clean (S f) c an e = true ->
  diag_ok (snd (ev_ (S f) c an e)) = true /\
  match e with
  | ELit _ | EScopeTrav _ _ => True
  | EAnon => is_some an = true
  | EParen e' | EWrap e' | EUn _ e' | ERelTrav e' _ => clean f c an e' = true
  | EObjKey w force =>
      (if negb force then
         match w with
         | EScopeTrav _ (_ :: _) => true
         | _ => match literal_name w with Some _ => true | None => clean f c an w end
         end
       else clean f c an w) = true
  | EIndex a b | EBin _ a b => clean f c an a = true /\ clean f c an b = true
  | ETuple es | ETmpl es => forallb (clean f c an) es = true
  | EObj items => forallb (fun it => clean f c an (fst it) && clean f c an (snd it)) items = true
  | ECond ce te fe =>
      clean f c an ce = true /\ clean f c an te = true /\ clean f c an fe = true /\
      arm_ok (fst (ev_ f c an te)) = true /\ arm_ok (fst (ev_ f c an fe)) = true /\
      rt_ok (fst (ev_ f c an te)) (fst (ev_ f c an fe)) = true
  | ECall _ args _ => forallb (clean f c an) args = true
  | EJoin te => clean f c an te = true /\ is_null (fst (ev_ f c an te)) = false
  | ESplat src each =>
      clean f c an src = true /\
      (let sv0 := fst (ev_ f c an src) in
       if is_null sv0 || ty_eqb (type_of sv0) TDyn then true
       else
       let sv := splat_sv sv0 in
       if negb (is_known sv) then
         match type_of sv with
         | TList et | TSet et =>
             clean f (empty_frame :: c) (Some (VUnk et rf_none)) each &&
             negb (has_dyn (type_of (fst (ev_ f (empty_frame :: c) (Some (VUnk et rf_none)) each))))
         | TTuple ets => forallb (fun et => clean f (empty_frame :: c) (Some (VUnk et rf_none)) each) ets
         | _ => true
         end
       else
         forallb (fun kv : val * val => clean f c (Some (snd kv)) each) (elements sv) &&
         match type_of sv with
         | TList _ | TSet _ =>
             match elements sv with
             | [] => false
             | kv0 :: _ => negb (has_dyn (type_of (fst (ev_ f c (Some (snd kv0)) each))))
             end
         | _ => true
         end) = true
  | EFor kvar vvar coll keye vale conde group =>
      clean f c an coll = true /\
      (let cv0 := fst (ev_ f c an coll) in
       if is_null cv0 || ty_eqb (type_of cv0) TDyn || negb (can_iterate cv0) || negb (is_known cv0) then true
       else
       forallb (fun kv : val * val =>
         let cc := for_bind c kvar vvar (fst kv) (snd kv) in
         match conde with None => true | Some ce => clean f cc an ce end &&
         (if match conde with None => true | Some ce => for_incl (fst (ev_ f cc an ce)) end
          then match keye with
               | None => clean f cc an vale
               | Some ke => clean f cc an ke &&
                            (if is_known (fst (ev_ f cc an ke)) then clean f cc an vale else true)
               end
          else true)) (elements cv0)) = true
  end.
Proof.
  cbn [clean]. intros H. apply andb_true_iff in H as [H1 H2]. split; [exact H1|].
  destruct e; try exact I; try exact H2; try discriminate H2.
  - repeat (apply andb_true_iff in H2 as [H2 ?]). repeat split; assumption.
  - apply andb_true_iff in H2. exact H2.
  - apply andb_true_iff in H2. exact H2.
  - apply andb_true_iff in H2. exact H2.
  - apply andb_true_iff in H2. exact H2.
  - apply andb_true_iff in H2 as [H2 H3]. apply negb_true_iff in H3. split; assumption.
Qed.


Ltac kill D :=
  exfalso; cbn [snd app] in D; repeat rewrite diag_ok_app in D;
  rewrite ?diag_ok_cons_err, ?diag_ok_cons_unsup in D;
  rewrite ?andb_false_r, ?andb_false_l in D; cbn [andb] in D; discriminate D.
