(* Eval/UnknownSound_Fn.v — C05: the contract for functions called from expressions, and the proof
   that function.Function.Call ([fn_call], Impl.v) is monotone for the strict concretisation [gsb]
   under that contract; the six functions of the harness (Eval/Funcs.v) satisfy it.

   What go-cty does in Call, and what each case needs ([fn_contract_mono]):
   * an argument of DYNAMIC type for a parameter without AllowDynamicType: the call returns
     DynamicVal without running the function ("dynTypeArgs").  Sound as soon as the concrete call
     returns a wholly known value ([fn_known], UnknownSound_Known.v).
   * an UNKNOWN argument for a parameter without AllowUnknown: the call returns
     UnknownVal(declared return type) without running the function.  Sound iff the function's
     result has the declared return type ([fo_type]) and the declared type computed from the
     concrete arguments conforms to the one computed from the abstract arguments ([fo_rt]; trivial
     for a constant return type, and [gsb_type] for "the type of the first argument").
   * otherwise the implementation runs, possibly on unknown arguments (AllowUnknown parameters):
     it must itself be monotone on the arguments it accepts ([fo_impl]). *)
From Coq Require Import QArith Qreduction.
From HclV Require Import Base.Prelude Cty.Values Cty.Convert Cty.Ops Eval.Impl Eval.Funcs
                         Eval.UnknownSound_Base Eval.UnknownSound_Known Eval.UnknownSound_Gamma
                         Eval.UnknownSound_Conv Eval.UnknownSound_Conv2 Eval.UnknownSound_Ops.
Open Scope Z_scope.
Local Strategy opaque [equals val_size unmark_deep deep_marks unify_n convert].

(* ---- the contract ------------------------------------------------------------------------------------------ *)
(* parameters are declared with a primitive type or the dynamic pseudo-type (all functions of the
   harness; conversion to other parameter types is not covered by the conversion lemmas) *)
Definition param_simple (p : fparam) : bool := is_prim (p_ty p) || ty_eqb (p_ty p) TDyn.

(* the call would run the implementation: arguments accepted, no dynamic-type short-cut, no
   unknown-argument short-cut *)
Definition unknown_arg (f : fn) (args : list val) : bool :=
  existsb (fun ia => match param_for f (fst ia) with
                     | Some p => negb (is_known (snd ia)) && negb (p_unknown p)
                     | None => false end)
          (combine (seq 0 (length args)) args).
Definition accepted (f : fn) (args : list val) : Prop := call_check f 0 args = (None, false).
Definition callable (f : fn) (args : list val) : Prop := accepted f args /\ unknown_arg f args = false.

Record fn_ok (f : fn) : Prop := mkFnOk {
  fo_known : fn_known f;
  fo_params : Forall (fun p => param_simple p = true) (f_params f) /\
              (forall p, f_varparam f = Some p -> param_simple p = true);
  fo_inv : forall args rt v, Forall (fun a => inv a = true) args -> f_impl f args rt = OOk v -> inv v = true;
  fo_type : forall args rt v, Forall (fun a => inv a = true) args -> accepted f args ->
              f_rettype f args = Some rt -> f_impl f args rt = OOk v -> type_of v = rt;
  fo_rt : forall argsA argsC rtA rtC, Forall2 (fun a c => gsb a c = true) argsA argsC ->
              f_rettype f argsA = Some rtA -> f_rettype f argsC = Some rtC -> conf rtC rtA = true;
  fo_impl : forall argsA argsC rtA rtC vA vC,
              Forall (fun a => inv a = true) argsA -> Forall (fun a => inv a = true) argsC ->
              Forall2 (fun a c => gsb a c = true) argsA argsC -> callable f argsA -> callable f argsC ->
              f_impl f argsA rtA = OOk vA -> f_impl f argsC rtC = OOk vC -> gsb vA vC = true
}.

(* ---- function.Call on unmarked arguments --------------------------------------------------------------------- *)
Lemma prep_inv f args : Forall (fun a => inv a = true) args ->
  let prep := map (fun ia : nat * val =>
                     match param_for f (fst ia) with
                     | Some p => if p_marked p then (snd ia, []) else (unmark_deep (snd ia), deep_marks (snd ia))
                     | None => (snd ia, []) end) (combine (seq 0 (length args)) args) in
  map fst prep = args /\ marks_unions (map snd prep) = [].
Proof.
  intros F. cbv zeta. generalize 0%nat as k.
  induction F as [|a r Ia _ IH]; intros k; simpl; [split; reflexivity|].
  destruct (IH (S k)) as [H1 H2]. rewrite H1, H2.
  destruct (param_for f k) as [p|]; [destruct (p_marked p)|]; simpl;
    rewrite ?(inv_unmark_deep a Ia), ?(inv_deep_marks a Ia); split; reflexivity.
Qed.

Lemma unknown_arg_wk f args : Forall (fun a => wholly_known a = true /\ inv a = true) args -> unknown_arg f args = false.
Proof.
  intros F. unfold unknown_arg. apply existsb_false_Forall. apply Forall_forall. intros [i a] Hin.
  apply in_combine_r in Hin. rewrite Forall_forall in F. destruct (F a Hin) as [W I]. simpl.
  destruct (param_for f i); [|reflexivity]. rewrite (inv_is_known _ I). destruct a; try reflexivity. discriminate W.
Qed.

(* what a successful call returns *)
Lemma fn_call_cases f args v : Forall (fun a => inv a = true) args -> fn_call f args = CallOk v ->
  exists d, call_check f 0 args = (None, d) /\
  (d = true /\ v = dyn_val \/
   d = false /\ exists rt, f_rettype f args = Some rt /\
     (unknown_arg f args = true /\ v = VUnk rt rf_none \/
      unknown_arg f args = false /\ f_impl f args rt = OOk v)).
Proof.
  intros F E. unfold fn_call in E.
  destruct (call_check f 0 args) as [[r|] d] eqn:Ec.
  - exfalso. apply (call_check_not_ok f args 0 r d Ec v). exact E.
  - exists d. split; [reflexivity|].
    destruct (prep_inv f args F) as [P1 P2]. cbv zeta in P1, P2. rewrite P1, P2 in E. clear P1 P2.
    fold (unknown_arg f args) in E.
    destruct d; [left; injection E as <-; auto|right; split; [reflexivity|]].
    destruct (f_rettype f args) as [rt|]; [|discriminate]. exists rt. split; [reflexivity|].
    destruct (unknown_arg f args).
    + left. injection E as <-. auto.
    + right. split; [reflexivity|]. destruct (f_impl f args rt); try discriminate. injection E as <-. reflexivity.
Qed.

Lemma fn_call_inv f args v : fn_ok f -> Forall (fun a => inv a = true) args -> fn_call f args = CallOk v -> inv v = true.
Proof.
  intros Ok F E. destruct (fn_call_cases f args v F E) as [d [_ [[_ ->]|[_ [rt [_ [[_ ->]|[_ Ei]]]]]]]]; try reflexivity.
  apply (fo_inv f Ok args rt v F Ei).
Qed.

(* strict monotonicity of Call.  [arg_ok] (UnknownSound_Known.v) on the concrete arguments: wholly known,
   and an argument of dynamic type only for a parameter declared dynamic — guaranteed by the
   conversion of every argument to its parameter type that precedes the call. *)
Definition fn_mono_s (f : fn) : Prop := forall argsA argsC vA vC,
  Forall (fun a => inv a = true) argsA -> Forall (fun a => inv a = true) argsC ->
  Forall2 (fun a c => gsb a c = true) argsA argsC ->
  Forall2 (arg_ok f) (seq 0 (length argsC)) argsC ->
  fn_call f argsA = CallOk vA -> fn_call f argsC = CallOk vC -> gsb vA vC = true.

Theorem fn_contract_mono f : fn_ok f -> fn_mono_s f.
Proof.
  intros Ok argsA argsC vA vC IA IC G AC EA EC.
  pose proof (Forall2_arg_good f 0 argsC AC) as GC.
  assert (WC : Forall (fun a => wholly_known a = true /\ inv a = true) argsC).
  { rewrite Forall_forall in *. intros a Ha. split; [|apply IC; exact Ha].
    pose proof (GC a Ha) as Gd. apply good_iff in Gd. tauto. }
  pose proof (fn_call_good f argsC vC (fo_known f Ok) AC EC) as GvC. apply good_iff in GvC as [WvC _].
  destruct (fn_call_cases f argsC vC IC EC) as [dC [EcC HC]].
  pose proof (call_check_nodyn f (fo_known f Ok) argsC 0 dC AC EcC) as ->.
  destruct HC as [[Hd _]|[_ [rtC [ErC HC]]]]; [discriminate Hd|].
  rewrite (unknown_arg_wk f argsC WC) in HC. destruct HC as [[Hu _]|[_ EiC]]; [discriminate Hu|].
  pose proof (fo_type f Ok argsC rtC vC IC EcC ErC EiC) as TvC.
  destruct (fn_call_cases f argsA vA IA EA) as [dA [EcA HA]].
  destruct HA as [[_ ->]|[-> [rtA [ErA HA]]]].
  - (* dynamic-type short-cut *) apply gsb_dyn_val. exact WvC.
  - destruct HA as [[_ ->]|[UA EiA]].
    + (* unknown-argument short-cut *)
      apply gsb_unk_none; [exact WvC|]. rewrite TvC. apply (fo_rt f Ok argsA argsC rtA rtC G ErA ErC).
    + (* the implementation ran on both sides *)
      apply (fo_impl f Ok argsA argsC rtA rtC vA vC IA IC G); try assumption.
      * split; assumption.
      * split; [exact EcC|apply (unknown_arg_wk f argsC WC)].
Qed.

(* ---- the six functions of the harness ------------------------------------------------------------------------ *)
Lemma Forall2_gsb_known (la lc : list val) :
  Forall2 (fun a c => gsb a c = true) la lc -> Forall (fun a => wholly_known a = true) la -> lc = la.
Proof.
  induction 1 as [|a c la lc G _ IH]; intros W; [reflexivity|]. inversion W; subst.
  rewrite (gsb_known_eq a c H1 G), (IH H2). reflexivity.
Qed.

Lemma gsb_known_top_null a c : inv a = true -> is_known a = true -> gsb a c = true -> is_null c = is_null a.
Proof.
  intros Ia K G. rewrite (inv_is_known _ Ia) in K.
  destruct a; try discriminate K; try discriminate Ia; simpl in G; destruct c; try discriminate G; reflexivity.
Qed.

Lemma conforms_prim k have want : is_prim want = true -> conforms (S k) have want = ty_eqb have want.
Proof. intros P. destruct want; try discriminate P; destruct have; reflexivity. Qed.

Lemma fn_upper_ok : fn_ok fn_upper.
Proof.
  constructor.
  - exact fn_upper_known.
  - split; [repeat constructor|intros p E; discriminate].
  - intros args rt v F E. simpl in E. destruct args as [|[] [|]]; try discriminate. injection E as <-. reflexivity.
  - intros args rt v F A Er E. simpl in E, Er. destruct args as [|[] [|]]; try discriminate.
    injection E as <-. injection Er as <-. reflexivity.
  - intros argsA argsC rtA rtC G EA EC. simpl in EA, EC. injection EA as <-. injection EC as <-. reflexivity.
  - intros argsA argsC rtA rtC vA vC IA IC G CA CC EA EC. simpl in EA.
    destruct argsA as [|[] [|]]; try discriminate. injection EA as <-.
    assert (W1 : Forall (fun a => wholly_known a = true) [VStr s]) by (repeat constructor).
    rewrite (Forall2_gsb_known _ _ G W1) in EC. simpl in EC. injection EC as <-.
    simpl. apply str_eqb_refl.
Qed.

Definition sum_step (acc : ores) (a : val) : ores :=
  match acc, a with
  | OOk (VNum x), VNum y => match num_add x y with Some n => OOk (VNum n) | None => OErr OEOther end
  | OOk _, _ => OUnsupported
  | o, _ => o
  end.

Lemma sum_sticky_err args e : fold_left sum_step args (OErr e) = OErr e.
Proof. induction args as [|a r IH]; simpl; [reflexivity|exact IH]. Qed.
Lemma sum_sticky_uns args : fold_left sum_step args OUnsupported = OUnsupported.
Proof. induction args as [|a r IH]; simpl; [reflexivity|exact IH]. Qed.

Lemma sum_fold_shape : forall args x v, canon_num x = true -> Forall (fun a => inv a = true) args ->
  fold_left sum_step args (OOk (VNum x)) = OOk v ->
  (exists n, v = VNum n /\ canon_num n = true) /\ Forall (fun a => wholly_known a = true) args.
Proof.
  induction args as [|a r IH]; intros x v Cx F E; simpl in E.
  - injection E as <-. split; [eexists; split; [reflexivity|exact Cx]|constructor].
  - inversion F as [|? ? Ia Fr]; subst.
    destruct a; try (rewrite sum_sticky_uns in E; discriminate).
    destruct (num_add x n) as [m|] eqn:En; [|rewrite sum_sticky_err in E; discriminate].
    destruct (IH m v (canon_num_add _ _ _ Cx Ia En) Fr E) as [H1 H2]. split; [exact H1|constructor; [reflexivity|exact H2]].
Qed.

Lemma fn_sum_impl args rt : f_impl fn_sum args rt = fold_left sum_step args (OOk (VNum (nz 0))).
Proof. reflexivity. Qed.

Lemma fn_sum_ok : fn_ok fn_sum.
Proof.
  constructor.
  - exact fn_sum_known.
  - split; [constructor|intros p E; injection E as <-; reflexivity].
  - intros args rt v F E. rewrite fn_sum_impl in E.
    destruct (sum_fold_shape args _ v (canon_nz 0) F E) as [[n [-> Cn]] _]. exact Cn.
  - intros args rt v F A Er E. rewrite fn_sum_impl in E. simpl in Er. injection Er as <-.
    destruct (sum_fold_shape args _ v (canon_nz 0) F E) as [[n [-> Cn]] _]. reflexivity.
  - intros argsA argsC rtA rtC G EA EC. simpl in EA, EC. injection EA as <-. injection EC as <-. reflexivity.
  - intros argsA argsC rtA rtC vA vC IA IC G CA CC EA EC. rewrite fn_sum_impl in EA, EC.
    destruct (sum_fold_shape argsA _ vA (canon_nz 0) IA EA) as [[n [-> Cn]] WA].
    rewrite (Forall2_gsb_known _ _ G WA) in EC. rewrite EA in EC. injection EC as <-. simpl. apply num_leib_refl.
Qed.

Lemma fn_first_ok : fn_ok fn_first.
Proof.
  constructor.
  - exact fn_first_known.
  - split; [repeat constructor|intros p E; injection E as <-; reflexivity].
  - intros args rt v F E. simpl in E. destruct args as [|a r]; [discriminate|]. injection E as <-. inversion F; assumption.
  - intros args rt v F A Er E. simpl in E, Er. destruct args as [|a r]; [discriminate|].
    injection E as <-. injection Er as <-. reflexivity.
  - intros argsA argsC rtA rtC G EA EC. simpl in EA, EC. destruct G as [|a c la lc Gac _]; [discriminate|].
    injection EA as <-. injection EC as <-. apply (gsb_type a c Gac).
  - intros argsA argsC rtA rtC vA vC IA IC G CA CC EA EC. simpl in EA, EC.
    destruct G as [|a c la lc Gac _]; [discriminate|]. injection EA as <-. injection EC as <-. exact Gac.
Qed.

Lemma fn_fail_ok : fn_ok fn_fail.
Proof.
  constructor.
  - exact fn_fail_known.
  - split; [repeat constructor|intros p E; discriminate].
  - intros args rt v F E. discriminate.
  - intros args rt v F A Er E. discriminate.
  - intros argsA argsC rtA rtC G EA EC. simpl in EA, EC. injection EA as <-. injection EC as <-. reflexivity.
  - intros argsA argsC rtA rtC vA vC IA IC G CA CC EA EC. discriminate.
Qed.

Lemma fn_isnull_ok : fn_ok fn_isnull.
Proof.
  constructor.
  - exact fn_isnull_known.
  - split; [repeat constructor|intros p E; discriminate].
  - intros args rt v F E. simpl in E. destruct args as [|a [|]]; try discriminate. injection E as <-. reflexivity.
  - intros args rt v F A Er E. simpl in E, Er. destruct args as [|a [|]]; try discriminate.
    injection E as <-. injection Er as <-. reflexivity.
  - intros argsA argsC rtA rtC G EA EC. simpl in EA, EC. injection EA as <-. injection EC as <-. reflexivity.
  - intros argsA argsC rtA rtC vA vC IA IC G [_ UA] CC EA EC. simpl in EA.
    destruct argsA as [|a [|]]; try discriminate. injection EA as <-.
    inversion G as [|? c ? lc Gac Gr]; subst. inversion Gr; subst. simpl in EC. injection EC as <-.
    unfold unknown_arg in UA. simpl in UA. rewrite orb_false_r, andb_true_r in UA. apply negb_false_iff in UA.
    inversion IA; subst. rewrite (gsb_known_top_null a c H1 UA Gac). simpl. apply Bool.eqb_reflx.
Qed.

Lemma fn_pair_ok : fn_ok fn_pair.
Proof.
  constructor.
  - exact fn_pair_known.
  - split; [repeat constructor|intros p E; discriminate].
  - intros args rt v F E. simpl in E. destruct args as [|a [|b [|]]]; try discriminate. injection E as <-.
    inversion F as [|? ? Ia F']; subst. inversion F' as [|? ? Ib _]; subst. simpl. rewrite Ia, Ib. reflexivity.
  - intros args rt v F A Er E. simpl in E, Er. destruct args as [|a [|b [|]]]; try discriminate.
    injection E as <-. injection Er as <-.
    unfold accepted in A. cbn [call_check] in A.
    change (param_for fn_pair 0) with (Some (P [97] TStr false false false false)) in A.
    change (param_for fn_pair 1) with (Some (P [98] TNum true false false false)) in A.
    cbn [p_null p_dyn p_ty P negb] in A.
    destruct (is_null a && true); [discriminate|].
    destruct (ty_eqb (type_of a) TDyn); [discriminate|].
    rewrite (conforms_prim _ (type_of a) TStr eq_refl) in A.
    destruct (ty_eqb (type_of a) TStr) eqn:Ta; [|discriminate]. cbn [negb] in A.
    destruct (is_null b && false); [discriminate|].
    destruct (ty_eqb (type_of b) TDyn); [discriminate|].
    rewrite (conforms_prim _ (type_of b) TNum eq_refl) in A.
    destruct (ty_eqb (type_of b) TNum) eqn:Tb; [|discriminate].
    apply ty_eqb_eq in Ta, Tb. simpl. rewrite Ta, Tb. reflexivity.
  - intros argsA argsC rtA rtC G EA EC. simpl in EA, EC. injection EA as <-. injection EC as <-. reflexivity.
  - intros argsA argsC rtA rtC vA vC IA IC G CA CC EA EC. simpl in EA.
    destruct argsA as [|a [|b [|]]]; try discriminate. injection EA as <-.
    inversion G as [|? c ? lc Gac Gr]; subst. inversion Gr as [|? d ? ld Gbd Gr']; subst. inversion Gr'; subst.
    simpl in EC. injection EC as <-. simpl. rewrite Gac, Gbd. reflexivity.
Qed.

(* the function table of the harness *)
Definition harness_funcs : list (list Z * fn) :=
  [([102; 97; 105; 108], fn_fail); ([102; 105; 114; 115; 116], fn_first); ([105; 115; 110; 117; 108; 108], fn_isnull);
   ([112; 97; 105; 114], fn_pair); ([115; 117; 109], fn_sum); ([117; 112; 112; 101; 114], fn_upper)].
Lemma harness_funcs_ok : Forall (fun p => fn_ok (snd p)) harness_funcs.
Proof.
  unfold harness_funcs.
  apply Forall_cons; [exact fn_fail_ok|]. apply Forall_cons; [exact fn_first_ok|].
  apply Forall_cons; [exact fn_isnull_ok|]. apply Forall_cons; [exact fn_pair_ok|].
  apply Forall_cons; [exact fn_sum_ok|]. apply Forall_cons; [exact fn_upper_ok|]. apply Forall_nil.
Qed.
