(* Eval/Vars.v — model of hclsyntax.Variables (hclsyntax/variables.go): the
   variablesWalker with its stack of local scopes, walking each node's children
   in the order of its walkChildNodes (hclsyntax/expression*.go). Definitions only. *)
From HclV Require Import Base.Prelude Cty.Values Cty.Ops Eval.Impl.
Open Scope Z_scope.

Definition traversal := (list Z * list step)%type.     (* root name, relative steps *)

Definition localized (scopes : list (list (list Z))) (name : list Z) : bool :=
  existsb (fun names => existsb (str_eqb name) names) scopes.

Fixpoint vars_in (fuel : nat) (scopes : list (list (list Z))) (e : expr) {struct fuel} : list traversal :=
  match fuel with
  | O => []
  | S f =>
    let go := vars_in f scopes in
    match e with
    | ELit _ | EAnon => []
    | EScopeTrav root steps => if localized scopes root then [] else [(root, steps)]
    | ERelTrav src _ => go src
    | ECall _ args _ => flat_map go args
    | ECond c t fe => go c ++ go t ++ go fe
    | EIndex c k => go c ++ go k
    | ETuple es => flat_map go es
    | EObj items => flat_map (fun it => go (fst it) ++ go (snd it)) items
    | EObjKey w _ => match literal_name w with Some _ => [] | None => go w end
    | EFor kv vv coll key vl cond _ =>
        let names := (if str_eqb kv [] then [] else [kv]) ++ (if str_eqb vv [] then [] else [vv]) in
        let inner := vars_in f (scopes ++ [names]) in
        go coll
        ++ match key with Some k => inner k | None => [] end
        ++ inner vl
        ++ match cond with Some c => inner c | None => [] end
    | ESplat s each => go s ++ go each
    | EBin _ l r => go l ++ go r
    | EUn _ x => go x
    | ETmpl ps => flat_map go ps
    | EJoin t => go t
    | EWrap x | EParen x => go x
    end
  end.

(* hclsyntax.Variables / Expression.Variables *)
Definition variables (e : expr) : list traversal := vars_in (S (expr_size e)) [] e.
Definition var_roots (e : expr) : list (list Z) := map fst (variables e).
