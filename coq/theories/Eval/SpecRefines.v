(* Eval/SpecRefines.v — conformance of the implementation-shaped evaluator (Eval/Impl.v) with
   the specification semantics (Eval/Spec.v).

   impl_refines_spec: for every expression of the modelled AST, every context whose variables
   are wholly known and unmarked and whose functions satisfy [fn_ok], and every fuel >=
   expr_size e: if the evaluation is inside the model's universe (no "unsupported" marker) then
   the implementation's outcome (value, or "some error") is exactly the specification's —
   EXCEPT on the explicitly excluded shapes of [dev_free] (Eval/SpecRefines_Defs.v), each of
   which is shown to be a real difference by a [specdev_*_refuted] theorem below.
   Node lemmas: SpecRefines_Nodes1..3.v. *)
From Coq Require Import QArith String Ascii.
From HclV Require Import Base.Prelude Cty.Values Cty.Convert Cty.Ops Eval.Impl Eval.Funcs Eval.Spec
  Eval.SpecRefines_Base Eval.SpecRefines_Defs Eval.SpecRefines_Nodes1 Eval.SpecRefines_Nodes2
  Eval.SpecRefines_Nodes3.
Open Scope Z_scope.
Open Scope list_scope.

Lemma expr_size_pos e : (1 <= expr_size e)%nat.
Proof. destruct e; simpl; lia. Qed.

Theorem impl_refines_spec_gen : forall f, IHf f.
Proof.
  induction f as [|f IH]; intros c anon e K FO A L SZ D.
  - pose proof (expr_size_pos e). lia.
  - destruct e.
    + apply lit_refines; auto.
    + apply trav_refines; auto.
    + apply reltrav_refines; auto.
    + apply call_refines; auto.
    + apply cond_refines; auto.
    + apply index_node_refines; auto.
    + apply tuple_refines; auto.
    + apply objcons_refines; auto.
    + apply objkey_refines; auto.
    + apply for_refines; auto.
    + apply splat_refines; auto.
    + apply anon_refines; auto.
    + apply binop_refines; auto.
    + apply unop_refines; auto.
    + apply tmpl_refines; auto.
    + apply join_refines; auto.
    + cbn [lits_ok] in L. cbn [dev_free] in D. cbn [expr_size] in SZ. apply le_S_inv in SZ.
      apply (paren_refines f c anon e IH K FO A L SZ D).
    + cbn [lits_ok] in L. cbn [dev_free] in D. cbn [expr_size] in SZ. apply le_S_inv in SZ.
      apply (paren_refines f c anon e IH K FO A L SZ D).
Qed.

(* The statement in the form of DESIGN.md C01. *)
Theorem impl_refines_spec : forall (e : expr) (c : ctx) (fuel : nat) (v : val) (ds : list diag),
  known_unmarked_ctx c = true -> funcs_ok c -> lits_ok e = true ->
  (expr_size e <= fuel)%nat -> dev_free fuel c None e = true ->
  eval fuel c None e = (v, ds) -> has_unsupported ds = false ->
  result_of (v, ds) = spec_eval (env_of c None) e.
Proof.
  intros e c fuel v ds K FO L SZ D EV HU.
  pose proof (impl_refines_spec_gen fuel c None e K FO eq_refl L SZ D) as R.
  rewrite EV in R. destruct (R HU) as [R1 _]. exact R1.
Qed.

(* ... and the invariant that comes with it: an error-free result is wholly known and unmarked *)
Theorem impl_result_known_unmarked : forall (e : expr) (c : ctx) (fuel : nat) (v : val) (ds : list diag),
  known_unmarked_ctx c = true -> funcs_ok c -> lits_ok e = true ->
  (expr_size e <= fuel)%nat -> dev_free fuel c None e = true ->
  eval fuel c None e = (v, ds) -> has_unsupported ds = false -> has_errors ds = false ->
  wholly_known v = true /\ contains_marked v = false.
Proof.
  intros e c fuel v ds K FO L SZ D EV HU HE.
  pose proof (impl_refines_spec_gen fuel c None e K FO eq_refl L SZ D) as R.
  rewrite EV in R. destruct (R HU) as [_ R2]. specialize (R2 HE). simpl in R2.
  unfold good in R2. apply andb_true_iff in R2 as [R2 R3]. split; auto. apply negb_true_iff in R3. exact R3.
Qed.

(* hcl.Expression.Value *)
Corollary value_refines_spec : forall (e : expr) (c : ctx),
  known_unmarked_ctx c = true -> funcs_ok c -> lits_ok e = true ->
  dev_free (S (expr_size e)) c None e = true ->
  has_unsupported (snd (value c e)) = false ->
  result_of (value c e) = spec_eval (env_of c None) e.
Proof.
  intros e c K FO L D HU. unfold value in *.
  destruct (eval (S (expr_size e)) c None e) as [v ds] eqn:EV.
  apply (impl_refines_spec e c (S (expr_size e)) v ds); auto.
Qed.

(* ---- the function-table contract holds for the harness functions (Eval/Funcs.v) ---------------- *)
Lemma param_for_cases (f : fn) i p : param_for f i = Some p ->
  In p (f_params f) \/ f_varparam f = Some p.
Proof.
  unfold param_for. destruct (nth_opt (f_params f) i) eqn:N.
  - intro H. inversion H; subst. left. clear -N. revert i N. induction (f_params f) as [|x r IH]; intros [|i] N; simpl in N; try discriminate.
    + inversion N. left. reflexivity.
    + right. eapply IH; eauto.
  - auto.
Qed.

Ltac params_ok := intros i p H; apply param_for_cases in H; simpl in H;
  repeat (destruct H as [H|H]); try contradiction; try discriminate;
  try (inversion H; subst); try subst; unfold param_ok, P; simpl; intros; try congruence; try reflexivity.

Lemma fn_upper_ok : fn_ok fn_upper.
Proof.
  constructor; [params_ok|]. intros args rt v G RT H. simpl in H.
  destruct args as [|a [|b r]]; try discriminate; destruct a; try discriminate; inversion H; reflexivity.
Qed.
Lemma fn_sum_ok : fn_ok fn_sum.
Proof.
  constructor; [params_ok|]. intros args rt v G RT H. simpl in H.
  assert (forall acc, (forall x, acc = OOk x -> exists n, x = VNum n) ->
          forall x, fold_left (fun acc a => match acc, a with
            | OOk (VNum x), VNum y => match num_add x y with Some n => OOk (VNum n) | None => OErr OEOther end
            | OOk _, _ => OUnsupported | o, _ => o end) args acc = OOk x -> exists n, x = VNum n) as F.
  { clear. induction args as [|a r IH]; intros acc HA x; simpl; [apply HA|]. apply IH.
    intros y Hy. destruct acc as [w| |]; try discriminate. destruct w; try discriminate.
    destruct a; try discriminate. destruct (num_add n n0); inversion Hy; eauto. }
  assert (forall x, OOk (VNum (nz 0)) = OOk x -> exists n, x = VNum n) as B by (intros x Hx; inversion Hx; eauto).
  destruct (F (OOk (VNum (nz 0))) B v H) as [n ->].
  reflexivity.
Qed.
Lemma fn_first_ok : fn_ok fn_first.
Proof.
  constructor; [params_ok|]. intros args rt v G RT H. simpl in H.
  destruct args as [|a r]; try discriminate; inversion H; subst.
  unfold goods in G. simpl in G. apply andb_true_iff in G. tauto.
Qed.
Lemma fn_fail_ok : fn_ok fn_fail.
Proof. constructor; [params_ok|]. intros args rt v G RT H. discriminate. Qed.
Lemma fn_isnull_ok : fn_ok fn_isnull.
Proof.
  constructor; [params_ok|]. intros args rt v G RT H. simpl in H.
  destruct args as [|a [|b r]]; try discriminate; inversion H; reflexivity.
Qed.
Lemma fn_pair_ok : fn_ok fn_pair.
Proof.
  constructor; [params_ok|]. intros args rt v G RT H. simpl in H.
  destruct args as [|a [|b [|x r]]]; try discriminate; inversion H; subst.
  rewrite good_VTuple. exact G.
Qed.

(* the table used by the correspondence runs *)
Fixpoint bytes (s : string) : list Z :=
  match s with EmptyString => [] | String a r => Z.of_nat (nat_of_ascii a) :: bytes r end.
Definition harness_funcs : list (list Z * fn) :=
  [(bytes "upper", fn_upper); (bytes "sum", fn_sum); (bytes "first", fn_first);
   (bytes "fail", fn_fail); (bytes "isnull", fn_isnull); (bytes "pair", fn_pair)].
Lemma harness_funcs_ok : Forall (fun p => fn_ok (snd p)) harness_funcs.
Proof.
  unfold harness_funcs.
  repeat (apply Forall_cons; [simpl; first [apply fn_upper_ok|apply fn_sum_ok|apply fn_first_ok|apply fn_fail_ok|apply fn_isnull_ok|apply fn_pair_ok]|]).
  apply Forall_nil.
Qed.
Lemma harness_ctx_funcs_ok vars : funcs_ok [mkFrame vars (Some harness_funcs)].
Proof. constructor; [|constructor]. simpl. intros fs H. inversion H. apply harness_funcs_ok. Qed.

(* ---- the excluded shapes are real differences: witnesses --------------------------------------- *)
(* Every witness is a context c (wholly known, unmarked, harness functions) and an expression e,
   given with the HCL source it stands for, such that the implementation model and the
   specification disagree; each was found as a failing case of the corresponding node lemma.
   [dev_free] is false on each of them, i.e. the side condition of impl_refines_spec is what
   excludes them. *)
Definition wN (z : Z) := ELit (VNum (nz z)).
Definition wS (s : string) := ELit (VStr (bytes s)).
Definition wT := ELit (VBool true).
Definition wF := ELit (VBool false).
Definition wNull := ELit (VNull TDyn).
Definition wV (s : string) := EScopeTrav (bytes s) [].
Definition wK (s : string) := EObjKey (wV s) false.
Definition wvars : list (list Z * val) :=
  [(bytes "l", VList TNum [VNum (nz 1); VNum (nz 2)]);
   (bytes "m", VMap TNum [(bytes "a", VNum (nz 1))]);
   (bytes "o", VObj [(bytes "a", VNum (nz 1))]);
   (bytes "st", VSet TNum [VNum (nz 1); VNum (nz 2)])].
Definition wctx : ctx := [mkFrame (Some wvars) (Some harness_funcs)].

Definition deviates (c : ctx) (e : expr) (impl spec : sres) : Prop :=
  known_unmarked_ctx c = true /\ lits_ok e = true /\
  has_unsupported (snd (value c e)) = false /\
  result_of (value c e) = impl /\ spec_eval (env_of c None) e = spec /\ impl <> spec /\
  dev_free (S (expr_size e)) c None e = false.
Ltac witness := unfold deviates; repeat split; try (vm_compute; reflexivity); try discriminate.

(* `false && nosuchvar`: implementation false (the right operand's error is dropped by
   Operation.ShortCircuit); spec.md § Logic Operators has no short-circuit rule: both operands
   are evaluated and the undefined variable is an error. *)
Theorem specdev_logic_and_shortcircuit_refuted :
  deviates wctx (EBin OpAnd wF (wV "nosuchvar")) (SOk (VBool false)) SErr.
Proof. witness. Qed.
(* `true || nosuchvar`: implementation true; specification: error. *)
Theorem specdev_logic_or_shortcircuit_refuted :
  deviates wctx (EBin OpOr wT (wV "nosuchvar")) (SOk (VBool true)) SErr.
Proof. witness. Qed.
(* `true && null`: implementation false, no error (cty's False() on a null); § Logic Operators:
   "Logic operators apply only to boolean values" — a null is not one. *)
Theorem specdev_logic_and_null_refuted :
  deviates wctx (EBin OpAnd wT wNull) (SOk (VBool false)) SErr.
Proof. witness. Qed.
(* `null || true`: implementation true; specification: error. *)
Theorem specdev_logic_or_null_refuted :
  deviates wctx (EBin OpOr wNull wT) (SOk (VBool true)) SErr.
Proof. witness. Qed.
(* `{a = 1, a = 2}`: implementation {a = 2} (later wins silently); spec.md: an object type has
   a SET of attributes; § For Expressions: "duplicate attributes are not possible" (error).  The
   text is silent for the constructor itself. *)
Theorem specdev_objcons_dupkey_refuted :
  deviates wctx (EObj [(wK "a", wN 1); (wK "a", wN 2)]) (SOk (VObj [(bytes "a", VNum (nz 2))])) SErr.
Proof. witness. Qed.
(* `{o.a = 1}` (o = {a = 1}): implementation "Ambiguous attribute key" error; § Collection Values:
   objectelem = (Identifier | Expression) ...: o.a is an Expression, its value 1 names the key "1". *)
Theorem specdev_objkey_traversal_refuted :
  deviates wctx (EObj [(EObjKey (EScopeTrav (bytes "o") [SAttr (bytes "a")]) false, wN 1)])
           SErr (SOk (VObj [(bytes "1", VNum (nz 1))])).
Proof. witness. Qed.
(* `m.a` (m a map): implementation 1; § Attribute Access Operator: "can be applied to any value
   that has an object type" (maps are indexed, m["a"]). *)
Theorem specdev_getattr_map_refuted :
  deviates wctx (EScopeTrav (bytes "m") [SAttr (bytes "a")]) (SOk (VNum (nz 1))) SErr.
Proof. witness. Qed.
(* `l[*]` (l a list of number): implementation a LIST; § Splat Operators: "tuple[*].foo.bar[0] is
   approximately equivalent to [for v in tuple: v.foo.bar[0]]", which is a tuple. *)
Theorem specdev_splat_list_refuted :
  deviates wctx (ESplat (wV "l") EAnon)
           (SOk (VList TNum [VNum (nz 1); VNum (nz 2)])) (SOk (VTuple [VNum (nz 1); VNum (nz 2)])).
Proof. witness. Qed.
(* `true ? 1 : !"x"`: implementation "Inconsistent conditional result types" (the erroneous,
   unselected arm still has the static type bool); § Conditional Operator: "If either the second or
   third expressions produce errors when evaluated, these errors are passed through only if the
   erroneous expression is selected." *)
Theorem specdev_cond_typed_error_arm_refuted :
  deviates wctx (ECond wT (wN 1) (EUn OpNot (wS "x"))) SErr (SOk (VNum (nz 1))).
Proof. witness. Qed.
(* `true ? 1 : "${null}x"`: implementation "1" — the selected number is converted to string because
   the erroneous unselected arm is a template; same sentence. *)
Theorem specdev_cond_typed_error_arm_conv_refuted :
  deviates wctx (ECond wT (wN 1) (ETmpl [wNull; wS "x"])) (SOk (VStr (bytes "1"))) (SOk (VNum (nz 1))).
Proof. witness. Qed.
(* `[for v in [] : v if null]`: implementation error "Condition is null" from the type-check probe;
   § For Expressions: "The expression following if is evaluated once for each source element" — none. *)
Theorem specdev_for_probe_refuted :
  deviates wctx (EFor [] (bytes "v") (ETuple []) None (wV "v") (Some wNull) false) SErr (SOk (VTuple [])).
Proof. witness. Qed.
(* `sum(st...)` (st a set of number): implementation 3; § Functions and Function Calls: "the final
   argument expression must evaluate to either a list or tuple value." *)
Theorem specdev_expand_set_refuted :
  deviates wctx (ECall (bytes "sum") [wV "st"] true) (SOk (VNum (nz 3))) SErr.
Proof. witness. Qed.

(* The contract clause [param_ok]: a function whose dynamically-typed parameter accepts null but not
   dynamically-typed values, called with the literal `null` (a null of the dynamic pseudo-type):
   go-cty's Function.Call answers with an unknown although every argument is known; spec.md "Unknown
   Values": "Unknown values ... must never be returned from operations unless at least one operand
   is unknown or dynamic" and the call rules apply the dynamic-type clause to "the dynamic value". *)
Definition fn_probe : fn :=
  mkFn [mkParam (bytes "v") TDyn true false false false] None (fun _ => Some TBool)
       (fun args _ => match args with [a] => OOk (VBool (is_null a)) | _ => OUnsupported end).
Theorem specdev_call_dynnull_refuted :
  let c := [mkFrame (Some []) (Some [(bytes "probe", fn_probe)])] in
  let e := ECall (bytes "probe") [wNull] false in
  known_unmarked_ctx c = true /\ lits_ok e = true /\
  value c e = (dyn_val, []) /\ spec_eval (env_of c None) e = SOk (VBool true) /\
  ~ param_ok (mkParam (bytes "v") TDyn true false false false).
Proof.
  repeat split; try (vm_compute; reflexivity).
  intro H. specialize (H eq_refl eq_refl). discriminate H.
Qed.

(* Shapes that were candidates and turn out to CONFORM (checked instances; the general statement
   is impl_refines_spec): a `for` with duplicate keys and no grouping, a conditional with a null
   arm, fractional and negative indices, the legacy index, interpolation of null, `"${null}"`. *)
Example conforms_candidates :
  forallb (fun e => dev_free (S (expr_size e)) wctx None e &&
                    match result_of (value wctx e), spec_eval (env_of wctx None) e with
                    | SOk a, SOk b => val_eqb a b | SErr, SErr => true | _, _ => false end)
    [ EFor [] (bytes "v") (ETuple [wS "a"; wS "a"]) (Some (wV "v")) (wN 1) None false;   (* error *)
      ECond wT wNull (wN 1);                                                               (* null of number *)
      EIndex (ETuple [wN 1; wN 2]) (ELit (VNum (nq (1 # 2))));                             (* error *)
      EIndex (ETuple [wN 1; wN 2]) (wN (-1));                                              (* error *)
      EScopeTrav (bytes "l") [SIndex (VNum (nz 0))];                                       (* l.0 = 1 *)
      ETmpl [wS "x"; wNull];                                                               (* error *)
      EWrap wNull ] = true.
Proof. vm_compute. reflexivity. Qed.
