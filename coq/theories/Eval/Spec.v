(* Eval/Spec.v — SPECIFICATION semantics of HCL native-syntax expressions.

   Written from the TEXT of /repo/hclsyntax/spec.md ("Expressions", "Templates")
   and /repo/spec.md ("Values and Value Types", "Functions and Function Calls",
   "Type Conversions and Unification"), NOT from the Go code.  Compositional,
   for WHOLLY KNOWN, UNMARKED values only: no diagnostics, no unknowns, no marks;
   an erroneous expression is the single outcome [SErr].  [§ ...] quotes name the
   section of hclsyntax/spec.md unless prefixed by "spec.md".

   Shared with the implementation model: the AST [expr] (Eval/Impl.v), values
   [val], and the go-cty RULE SET for conversion / unification / equality /
   arithmetic ([conv], [unify], [call_binop], [call_unop], [elements] of Cty/*,
   "modelled, not verified"; prose-vs-go-cty differences: Eval/SpecMdRules.v).
   The EVALUATION RULES below (what is evaluated, in which scope, what is an
   error, how results are assembled) follow the specification text; where the
   text is silent the most literal reading is taken and marked (silent). *)
From Coq Require Import QArith.
From HclV Require Import Base.Prelude Cty.Values Cty.Convert Cty.Ops Eval.Impl.
Open Scope Z_scope.

Inductive sres := SOk (v : val) | SErr.

Notation "'do' x <- r ; k" := (match r with SOk x => k | SErr => SErr end)
  (at level 200, x name, r at level 100, k at level 200, only parsing).

(* spec.md "Expression Evaluation": a variable scope (map name -> value) and a
   function table.  [e_anon] is the element a splat operator is currently applied to. *)
Record env := mkEnv { e_vars : list (list Z * val); e_funs : list (list Z * fn); e_anon : option val }.

(* § Variables: "a child scope that incorporates the variables from its parent scope
   but (re-)defines zero or more names"; "the most locally-defined variable ... is used". *)
Definition bind_vars (E : env) (new : list (list Z * val)) : env := mkEnv (new ++ e_vars E) (e_funs E) (e_anon E).
Definition bind_anon (E : env) (v : val) : env := mkEnv (e_vars E) (e_funs E) (Some v).

(* ---- spec.md "Type Conversions and Unification" (go-cty rule set) ------------------- *)
Definition to_type (v : val) (t : ty) : sres := match conv v t with COk v' => SOk v' | _ => SErr end.
(* a non-null string, converting if needed; a null has no string representation *)
Definition to_string (v : val) : option (list Z) := match conv v TStr with COk (VStr s) => Some s | _ => None end.
Definition to_bool (v : val) : option bool := match conv v TBool with COk (VBool b) => Some b | _ => None end.
(* spec.md: "The dynamic pseudo-type unifies with any other type by selecting that other type." *)
Definition spec_unify (a b : ty) : ures :=
  match a, b with TDyn, _ => UOk b | _, TDyn => UOk a | _, _ => unify a b end.

Fixpoint all_sok (rs : list sres) : option (list val) :=
  match rs with
  | [] => Some []
  | SOk v :: r => match all_sok r with Some vs => Some (v :: vs) | None => None end
  | SErr :: _ => None
  end.
Fixpoint all_some {A} (os : list (option A)) : option (list A) :=
  match os with
  | [] => Some []
  | Some x :: r => match all_some r with Some xs => Some (x :: xs) | None => None end
  | None :: _ => None
  end.

(* ---- § Index Operator ---------------------------------------------------------------
   "can be applied to any value that has a tuple, object, map, or list type"; for tuple
   or list "the key expression must be an non-negative integer number", for object or
   map "a string"; "If the given key value is not of the appropriate type, a conversion
   is attempted"; "An error is produced if the given key expression does not correspond
   to an element in the collection".  A null collection has no elements (silent). *)
Definition spec_index (coll key : val) : sres :=
  match coll with
  | VList _ l | VTuple l =>
      do k <- to_type key TNum;
      match k with
      | VNum n => match index_of_num n with
                  | Some i => match nth_opt l i with Some v => SOk v | None => SErr end
                  | None => SErr end
      | _ => SErr end
  | VMap _ kvs | VObj kvs =>
      match to_string key with
      | Some s => match assoc_get s kvs with Some v => SOk v | None => SErr end
      | None => SErr end
  | _ => SErr
  end.

(* ---- § Attribute Access Operator -------------------------------------------------------
   "can be applied to any value that has an object type"; "An error is produced if the
   object ... does not have an attribute with the given name." *)
Definition spec_getattr (obj : val) (name : list Z) : sres :=
  match obj with
  | VObj kvs => match assoc_get name kvs with Some v => SOk v | None => SErr end
  | _ => SErr
  end.

(* a traversal is a chain of these two operators; the legacy index `.0` "must still be
   interpreted as an index operation" (it is an SIndex step in the AST) *)
Fixpoint spec_steps (steps : list step) (v : val) : sres :=
  match steps with
  | [] => SOk v
  | SAttr n :: r => do v' <- spec_getattr v n; spec_steps r v'
  | SIndex k :: r => do v' <- spec_index v k; spec_steps r v'
  end.

(* ---- § Operations ----------------------------------------------------------------------
   "Arithmetic operators apply only to number values", "Logic operators apply only to
   boolean values", "The four numeric comparison operators apply only to numbers", "The
   two equality operators apply to values of any type".  Operands of another type are
   converted (spec.md: "automatic type conversion is attempted").  BOTH operands are
   evaluated: the text has no short-circuit rule.  A null operand of an arithmetic,
   comparison or logic operator is not a number / boolean value: error (silent);
   equality accepts nulls (spec.md: "A null value of a particular type is equal to itself"). *)
Definition spec_unop (op : unop) (a : val) : sres :=
  do a' <- to_type a (unop_param op);
  match call_unop op a' with OOk r => SOk r | _ => SErr end.
Definition spec_binop (op : binop) (a b : val) : sres :=
  do a' <- to_type a (binop_param op);
  do b' <- to_type b (binop_param op);
  match call_binop op a' b' with OOk r => SOk r | _ => SErr end.

(* ---- § Conditional Operator -------------------------------------------------------------
   "The first expression is the predicate, which is evaluated and must produce a boolean
   result."  "The second and third expressions must be of the same type or must be able
   to unify into a common type ...  This unified type is the result type of the
   conditional, with both expressions converted as necessary to the unified type."
   "If either the second or third expressions produce errors when evaluated, these errors
   are passed through only if the erroneous expression is selected."  An erroneous
   unselected arm has no value, hence no type to unify with: the selected value is the
   result as it is. *)
Definition spec_cond (p t f : sres) : sres :=
  do pv <- p;
  match to_bool pv with
  | None => SErr
  | Some b =>
      do sv <- (if b then t else f);
      match t, f with
      | SOk tv, SOk fv => match spec_unify (type_of tv) (type_of fv) with
                          | UOk rt => to_type sv rt
                          | _ => SErr end
      | _, _ => SOk sv          (* the unselected arm is erroneous *)
      end
  end.

(* ---- § Templates --------------------------------------------------------------------------
   "An interpolation sequence evaluates an expression, converts the result to a string
   value, and replaces itself with the resulting string."  "If the expression result cannot
   be converted to a string, an error is produced."  The parts of a template "are evaluated
   and combined into a single string". *)
Definition spec_concat (vs : list val) : sres :=
  match all_some (map to_string vs) with Some ss => SOk (VStr (concat ss)) | None => SErr end.

(* ---- § Collection Values (object) / § For Expressions (object result) ----------------------
   spec.md: "Object types are constructed of a set of named attributes";  § For: "it is an
   error if two input elements produce the same result from the attribute name expression,
   since duplicate attributes are not possible" — the same reason is applied to the object
   constructor, about which the text is silent.  With grouping "each value in the resulting
   object is a tuple of all of the values that were produced against each distinct key". *)
Fixpoint build_obj (group : bool) (kvs : list (list Z * val)) (acc : list (list Z * val)) : sres :=
  match kvs with
  | [] => SOk (VObj acc)
  | (k, v) :: r =>
      match assoc_get k acc with
      | None => build_obj group r (assoc_set k (if group then VTuple [v] else v) acc)
      | Some (VTuple l) => if group then build_obj group r (assoc_set k (VTuple (l ++ [v])) acc) else SErr
      | Some _ => SErr
      end
  end.

(* an identifier in key position "is interpreted as a literal attribute name as opposed to
   a variable reference" (`null`, `true`, `false` are identifiers: § Keywords) *)
Definition key_identifier (e : expr) : option (list Z) :=
  match e with
  | EScopeTrav root [] => Some root
  | ELit (VNull _) => Some [110;117;108;108]
  | ELit (VBool true) => Some [116;114;117;101]
  | ELit (VBool false) => Some [102;97;108;115;101]
  | _ => None
  end.

(* ---- spec.md "Functions and Function Calls" -------------------------------------------------
   "For each of the function's positional parameters in sequence, take the next argument.
   If there are no more arguments, the call is erroneous."  "If the function has no variadic
   parameter, it is an error if any arguments remain".  Then per argument: "does not match
   the parameter's type specification, the call is erroneous" (after the automatic
   conversion to the parameter type, spec.md "Type Conversions": "automatic type conversion is
   attempted"); "is null and the parameter is not specified as accepting nulls, the call is
   erroneous".  The result is "the function's result value definition" applied to the
   arguments.  Two passes: map and convert the arguments, then check them. *)
Fixpoint spec_conv_args (f : fn) (i : nat) (args : list val) : option (list val) :=
  match args with
  | [] => Some []
  | a :: r =>
      match param_for f i with            (* the i-th positional parameter, else the variadic one *)
      | None => None
      | Some p =>
          match conv a (p_ty p), spec_conv_args f (S i) r with
          | COk a', Some r' => Some (a' :: r')
          | _, _ => None
          end
      end
  end.
Fixpoint spec_check_args (f : fn) (i : nat) (args : list val) : bool :=
  match args with
  | [] => true
  | a :: r =>
      match param_for f i with
      | None => false
      | Some p =>
          negb (is_null a && negb (p_null p))
          && conforms (S (ty_size (type_of a))) (type_of a) (p_ty p)      (* "matches" *)
          && spec_check_args f (S i) r
      end
  end.
Definition spec_call (f : fn) (args : list val) : sres :=
  let np := length (f_params f) in
  if (length args <? np)%nat then SErr
  else if (match f_varparam f with None => true | Some _ => false end) && (np <? length args)%nat then SErr
  else match spec_conv_args f 0 args with
       | None => SErr
       | Some args' =>
           if negb (spec_check_args f 0 args') then SErr else
           match f_rettype f args' with
           | None => SErr
           | Some rt => match f_impl f args' rt with OOk v => SOk v | _ => SErr end
           end
       end.
(* § Functions: "If the final argument expression is followed by the ellipsis symbol (...),
   the final argument expression must evaluate to either a list or tuple value.  The
   elements of the value are each mapped to a single parameter". *)
Definition expand_last (vs : list val) : option (list val) :=
  match rev vs with
  | VList _ l :: init | VTuple l :: init => Some (rev init ++ l)
  | _ => None
  end.

(* § For: "the keyword for followed by either one or two identifiers ... which define the
   temporary variable names";  "a local scope that defines the key and value variable names".
   (kvar = [] : no key identifier; both names equal: the value wins, silent.) *)
Definition for_scope (kvar vvar : list Z) (k v : val) : list (list Z * val) :=
  (if str_eqb kvar [] || str_eqb kvar vvar then [] else [(kvar, k)]) ++ [(vvar, v)].

Definition is_sequence (v : val) : bool :=
  match type_of v with TTuple _ | TList _ | TSet _ => true | _ => false end.

(* ---- the semantics ------------------------------------------------------------------------- *)
Fixpoint spec_eval (E : env) (e : expr) {struct e} : sres :=
  match e with
  (* § Literal Values; "( Expression )" *)
  | ELit v => SOk v
  | EParen e' => spec_eval E e'
  (* § Template Interpolation Unwrapping: "the result of the interpolation expression is
     returned verbatim, without conversion to string" *)
  | EWrap e' => spec_eval E e'

  (* § Variables and Variable Expressions, followed by index / attribute operators *)
  | EScopeTrav root steps =>
      match assoc_get root (e_vars E) with
      | Some v => spec_steps steps v
      | None => SErr
      end
  | ERelTrav src steps => do v <- spec_eval E src; spec_steps steps v
  | EIndex coll key => do cv <- spec_eval E coll; do kv <- spec_eval E key; spec_index cv kv

  (* § Collection Values *)
  | ETuple es =>
      match all_sok (map (spec_eval E) es) with Some vs => SOk (VTuple vs) | None => SErr end
  | EObj items =>
      match all_sok (map (fun it => spec_eval E (fst it)) items),
            all_sok (map (fun it => spec_eval E (snd it)) items) with
      | Some ks, Some vs =>
          match all_some (map to_string ks) with
          | Some names => build_obj false (combine names vs) []
          | None => SErr
          end
      | _, _ => SErr
      end
  | EObjKey wrapped force =>
      if force then spec_eval E wrapped
      else match key_identifier wrapped with
           | Some name => SOk (VStr name)
           | None => spec_eval E wrapped
           end

  (* § Operations *)
  | EUn op a => do av <- spec_eval E a; spec_unop op av
  | EBin op a b => do av <- spec_eval E a; do bv <- spec_eval E b; spec_binop op av bv
  (* § Conditional Operator (also the template `if` directive: "equivalent to the
     conditional expression", its arms being sub-templates) *)
  | ECond p t f => spec_cond (spec_eval E p) (spec_eval E t) (spec_eval E f)

  (* § Templates *)
  | ETmpl parts =>
      match all_sok (map (spec_eval E) parts) with Some vs => spec_concat vs | None => SErr end
  (* § Template For Directive: "equivalent to the for expression when producing a tuple
     ... The elements of the resulting tuple are all converted to strings and concatenated" *)
  | EJoin t =>
      do tv <- spec_eval E t;
      match tv with VTuple vs => spec_concat vs | _ => SErr end

  (* § Functions and Function Calls *)
  | ECall name args expand =>
      match assoc_get name (e_funs E), all_sok (map (spec_eval E) args) with
      | Some f, Some vs =>
          if expand then match expand_last vs with Some vs' => spec_call f vs' | None => SErr end
          else spec_call f vs
      | _, _ => SErr
      end

  (* § For Expressions: the collection "must evaluate to a value that can be iterated";
     "Tuple, object, list, map, and set types are iterable"; key/value per element and visit
     order: [elements].  The `if` expression "must evaluate to a boolean value; if true, the
     element will be evaluated as normal, while if false the element will be skipped".
     The element expression(s) "are both evaluated once for each element of the source
     collection".  Tuple for: "appending values to the tuple in visit order". *)
  | EFor kvar vvar coll keye vale conde group =>
      do cv <- spec_eval E coll;
      if is_null cv || negb (can_iterate cv) then SErr else
      let item (kv : val * val) : option (list (list Z * val)) :=   (* None: error; []: skipped *)
        let E' := bind_vars E (for_scope kvar vvar (fst kv) (snd kv)) in
        let keep := match conde with
                    | None => Some true
                    | Some ce => match spec_eval E' ce with SOk b => to_bool b | SErr => None end
                    end in
        match keep with
        | None => None
        | Some false => Some []
        | Some true =>
            let name := match keye with
                        | None => Some []
                        | Some ke => match spec_eval E' ke with SOk k => to_string k | SErr => None end
                        end in
            match name, spec_eval E' vale with
            | Some n, SOk v => Some [(n, v)]
            | _, _ => None
            end
        end in
      match all_some (map item (elements cv)) with
      | None => SErr
      | Some rows =>
          match keye with
          | None => SOk (VTuple (map snd (concat rows)))
          | Some _ => build_obj group (concat rows) []
          end
      end

  (* § Splat Operators: `tuple[*].foo.bar[0]` "is approximately equivalent to
     [for v in tuple: v.foo.bar[0]]" ([each] is the chain applied to the element [EAnon]);
     "if a splat operator is applied to a value that is not of tuple, list, or set type,
     the value is coerced automatically into a single-value list";  "If applied to a null
     value that is not tuple, list, or set, the result is always an empty tuple";  "It is
     illegal to apply a splat operator to a null value of tuple, list, or set type." *)
  | ESplat src each =>
      do sv <- spec_eval E src;
      if is_null sv then (if is_sequence sv then SErr else SOk (VTuple []))
      else
        let items := if is_sequence sv then map snd (elements sv) else [sv] in
        match all_sok (map (fun v => spec_eval (bind_anon E v) each) items) with
        | Some vs => SOk (VTuple vs)
        | None => SErr
        end
  | EAnon => match e_anon E with Some v => SOk v | None => SErr end
  end.

(* ---- relation to the implementation's evaluation context ------------------------------------
   An EvalContext chain is flattened, innermost frame first, so that the first binding of
   a name is the innermost one.  (The implementation distinguishes "no variables map at
   all" from "name not found"; both are errors.) *)
Definition env_of (c : ctx) (anon : option val) : env :=
  mkEnv (flat_map (fun f => match fvars f with Some vs => vs | None => [] end) c)
        (flat_map (fun f => match ffuncs f with Some fs => fs | None => [] end) c)
        anon.

Definition result_of (r : val * list diag) : sres := if has_errors (snd r) then SErr else SOk (fst r).

(* ---- spec_eval and the implementation model side by side ------------------------------------
   [result_of (value c e)] versus [spec_eval (env_of c None) e], computed by vm_compute, in the
   scope  l = list(number)[1,2]; m = map(number){a=1}; st = set(string){"x","y"}; o = {a=1};
   n = null string; s = "hi"  and the harness function table (upper, sum, first, fail, isnull,
   pair).  "=" : same outcome on both sides.  "DEV": differs (see Eval/SpecRefines.v).

     1 + 2 * 3                                   7                         =
     "a${1}b"                                    "a1b"                     =
     true ? 1 : "a"                              "1"                       =
     [for v in [1,2,3] : v * 2 if v != 2]        [2, 6]                    =
     {for k, v in {a=1,b=2} : v => k...}         {"1"=["a"],"2"=["b"]}     =
     [1,2,3][*]                                  [1, 2, 3]                 =
     null                                        null (dynamic)            =
     !true || false && true                      false                     =
     sum(1, 2, 3)  /  upper("abc")               6  /  "ABC"               =
     first([1,2]...)                             1                         =
     {a = 1}.a                                   1                         =
     [1,2][5]  /  {a = 1}["b"]                   error                     =
     "x" == 1                                    false                     =
     1 / 0                                       +Inf                      =  (go-cty arithmetic)
     5 % 3  /  -(1)                              2  /  -1                  =
     "${true}"                                   true (unwrapped)          =
     "%{ for x in [1,2] }${x}%{ endfor }"        "12"                      =
     "%{ if true }y%{ else }n%{ endif }"         "y"                       =
     null == null                                true                      =
     [null][0]                                   null                      =
     {(null) = 1}                                error                     =
     {"a" = 1, a = 2}                            impl {a=2} | spec error   DEV objcons_dupkey
     true ? null : 1                             null of number            =
     true ? [1] : ["a"]                          ["1"]                     =
     fail("x")  /  nosuchfn(1)                   error                     =
     pair("a", null)                             ["a", null of number]     =
     isnull(null)                                true                      =
     [for v in null : v]  /  [for v in 1 : v]    error                     =
     {for v in ["a","a"] : v => 1}               error (duplicate key)     =
     "a" + 1                                     error                     =
     "1" + 1  /  1 < "2"                         2  /  true                =
     null + 1                                    error                     =
     l.0  (legacy index)                         1                         =
     "abc".x                                     error                     =
     [{a=1},{a=2}][*].a                          [1, 2]                    =
     null[*]  /  1[*]                            []  /  [1]                =
     false && nosuchvar                          impl false | spec error   DEV logic_and_shortcircuit
     true && null                                impl false | spec error   DEV logic_and_null
     null || true                                impl true  | spec error   DEV logic_or_null
     m.a                                         impl 1     | spec error   DEV getattr_map
     l[*]                                        impl list  | spec tuple   DEV splat_list
     true ? 1 : !"x"                             impl error | spec 1       DEV cond_typed_error_arm
     [for v in [] : v if null]                   impl error | spec []      DEV for_probe
     {o.a = 1}                                   impl error | spec {"1"=1} DEV objkey_traversal
     "x${null}"                                  error                     =
     "${null}"                                   null (unwrapped)          =
     [1,2][0.5]  /  [1,2][-1]                    error                     =
     true ? {a=1} : {b=2}                        map(number){a=1}          =  (go-cty unification,
                                                                              prose: SpecMdRules.v)
     null ? 1 : 2                                error                     =
     "true" ? 1 : 2                              1                         =
     st[0]                                       error                     =
     false ? l[7] : 0                            0                         =                      *)
