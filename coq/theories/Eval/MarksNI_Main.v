(* Eval/MarksNI_Main.v — C06: the non-interference theorems in their final form; hcl.Index. *)
From Coq Require Import QArith.
From HclV Require Import Base.Prelude Cty.Values Cty.Convert Cty.Ops Eval.Impl
     Eval.MarksNI Eval.MarksNI_Ops Eval.MarksNI_Index Eval.MarksNI_Funcs Eval.MarksNI_Eval Eval.MarksNI_Wf.
Open Scope Z_scope.

(* ---- hcl.Index --------------------------------------------------------------------------------- *)
(* hcl.Index as it should be: the marks of the key are re-applied to every result.  (For the
   list / tuple / map branches with a known or unknown key hcl.Index already does it; the object
   branch and the two dynamic early returns do not.) *)
Definition index_repaired (coll key : val) : val * list diag :=
  let '(r, ds) := index coll key in (with_marks r (deep_marks key), ds).

Lemma index_repaired_agree coll key : deep_marks key = [] -> index_repaired coll key = index coll key.
Proof. unfold index_repaired. intros ->. destruct (index coll key). reflexivity. Qed.

Lemma index_repaired_wf c k : wf c -> wf k -> wf (fst (index_repaired c k)).
Proof.
  intros Wc _. unfold index_repaired. pose proof (index_wf c k Wc) as X. destruct (index c k) as [r ds].
  cbn [fst] in *. apply wf_with_marks, X.
Qed.
Lemma index_wf' c k : wf c -> wf k -> wf (fst (index c k)).
Proof. intros Wc _. apply index_wf, Wc. Qed.

(* index with the same key on both sides is non-interfering *)
Lemma index_ni_key m k : idx_ni_key m index k.
Proof.
  intros c1 c2 r1 r2 ds1 ds2 L W1 _ E1 E2 A1 A2 B1 B2.
  eapply index_leq; [exact L|exact W1|exact E1|exact E2|split; assumption|split; assumption].
Qed.

(* index_ni_partial: hcl.Index is non-interfering on all calls whose key does not carry m *)
Theorem index_ni_partial m :
  forall c1 c2 k1 k2 r1 r2 ds1 ds2,
    leq m c1 c2 -> leq m k1 k2 -> wf c1 ->
    mark_mem m (deep_marks k1) = false ->
    index c1 k1 = (r1, ds1) -> index c2 k2 = (r2, ds2) ->
    has_errors ds1 = false -> has_errors ds2 = false ->
    has_unsupported ds1 = false -> has_unsupported ds2 = false ->
    erase m r1 = erase m r2.
Proof.
  intros c1 c2 k1 k2 r1 r2 ds1 ds2 Lc Lk W Z E1 E2 A1 A2 B1 B2.
  rewrite <- (leq_deep_eq m _ _ Lk Z) in E2.
  eapply index_leq; [exact Lc|exact W|exact E1|exact E2|split; assumption|split; assumption].
Qed.

Theorem index_repaired_ni m : idx_ni m index_repaired.
Proof.
  intros c1 c2 k1 k2 r1 r2 ds1 ds2 Lc Lk W1 _ _ _ E1 E2 A1 A2 B1 B2. unfold index_repaired in E1, E2.
  destruct (index c1 k1) as [x1 d1] eqn:I1. destruct (index c2 k2) as [x2 d2] eqn:I2.
  injection E1 as <- <-. injection E2 as <- <-.
  destruct (mark_mem m (deep_marks k1)) eqn:Z.
  - apply stars_leq; apply with_marks_star; [exact Z|]. rewrite <- (leq_deep_mem m _ _ Lk). exact Z.
  - pose proof (leq_deep_eq m _ _ Lk Z) as <-.
    apply with_marks_leq; [|apply marks_rel_refl].
    eapply index_leq; [exact Lc|exact W1|exact I1|exact I2|split; assumption|split; assumption].
Qed.

(* index_ni_refuted: the real hcl.Index is NOT non-interfering.  Witness (m = 1): the object
   {a = "x", b = "y"} indexed by the MARKED KNOWN keys "a" and "b": the results "x" and "y" carry
   no mark (ops.go, Index, object branch: key.Unmark() and the marks are dropped).  The
   repository's own test suite pins this behaviour (ops_test.go "marked object key"). *)
Definition wit_obj : val := VObj [([97], VStr [120]); ([98], VStr [121])].
Definition wit_ka : val := VMark [1] (VStr [97]).
Definition wit_kb : val := VMark [1] (VStr [98]).

Theorem index_ni_refuted : ~ idx_ni 1 index.
Proof.
  intro H.
  assert (X : leq 1 (VStr [120]) (VStr [121])).
  { eapply (H wit_obj wit_obj wit_ka wit_kb); try reflexivity. }
  vm_compute in X. discriminate X.
Qed.

(* ---- the evaluator ----------------------------------------------------------------------------- *)
(* contexts whose functions return well-formed values *)
Definition funcs_wf (c : ctx) : Prop :=
  forall fr fs name f, In fr c -> ffuncs fr = Some fs -> assoc_get name fs = Some f -> fn_wf f.

(* The full statement (every expression).  It is FALSE of the faithful model: see
   MarksNI_Refuted.v.  What is proved is the same statement for the expressions of
   [in_fragment] (marks_noninterference_partial). *)
Definition marks_noninterference_stmt : Prop :=
  forall (m : Z) idx, idx_ni m idx ->
  forall fuel c1 c2 a1 a2 e v1 ds1 v2 ds2,
    low_eq m c1 c2 -> leq_opt m a1 a2 -> funcs_ni m c1 ->
    wf_ctx c1 -> wf_ctx c2 -> wf_opt a1 -> wf_opt a2 ->
    eval_with idx fuel c1 a1 e = (v1, ds1) -> eval_with idx fuel c2 a2 e = (v2, ds2) ->
    has_errors ds1 = false -> has_errors ds2 = false ->
    has_unsupported ds1 = false -> has_unsupported ds2 = false ->
    erase m v1 = erase m v2.

Theorem marks_noninterference_partial :
  forall (m : Z) (idx : val -> val -> val * list diag) (Cx : ctx -> Prop),
    (forall c, Cx c -> wf_ctx c) ->
    (forall c, Cx c -> funcs_wf c) ->
    (forall c k, wf c -> wf k -> wf (fst (idx c k))) ->
  forall fuel c1 c2 a1 a2 e v1 ds1 v2 ds2,
    in_fragment m idx Cx e ->
    low_eq m c1 c2 -> leq_opt m a1 a2 -> funcs_ni m c1 ->
    Cx c1 -> Cx c2 -> wf_opt a1 -> wf_opt a2 ->
    eval_with idx fuel c1 a1 e = (v1, ds1) -> eval_with idx fuel c2 a2 e = (v2, ds2) ->
    has_errors ds1 = false -> has_errors ds2 = false ->
    has_unsupported ds1 = false -> has_unsupported ds2 = false ->
    erase m v1 = erase m v2.
Proof.
  intros m idx Cx Hwf Hfw Hidx fuel c1 c2 a1 a2 e v1 ds1 v2 ds2 Fe HL HA HF C1 C2 W1 W2 E1 E2 A1 A2 B1 B2.
  eapply (ni_all m idx Cx Hwf); try eassumption; try (split; assumption).
  intros. eapply (eval_wf m idx Cx); eassumption.
Qed.

Lemma key_ok_repaired m key : key_ok m index_repaired key.
Proof. left. apply index_repaired_ni. Qed.
Lemma key_ok_index_lit m k : key_ok m index (ELit k).
Proof. right. exists k. split; [reflexivity|apply index_ni_key]. Qed.

(* with hcl.Index repaired: index expressions with arbitrary keys *)
Corollary marks_noninterference_repaired :
  forall (m : Z) (Cx : ctx -> Prop),
    (forall c, Cx c -> wf_ctx c) -> (forall c, Cx c -> funcs_wf c) ->
  forall fuel c1 c2 a1 a2 e v1 ds1 v2 ds2,
    in_fragment m index_repaired Cx e ->
    low_eq m c1 c2 -> leq_opt m a1 a2 -> funcs_ni m c1 ->
    Cx c1 -> Cx c2 -> wf_opt a1 -> wf_opt a2 ->
    eval_with index_repaired fuel c1 a1 e = (v1, ds1) -> eval_with index_repaired fuel c2 a2 e = (v2, ds2) ->
    has_errors ds1 = false -> has_errors ds2 = false ->
    has_unsupported ds1 = false -> has_unsupported ds2 = false ->
    erase m v1 = erase m v2.
Proof. intros m Cx H1 H2. apply marks_noninterference_partial; auto using index_repaired_wf. Qed.

(* the implementation as it is (eval = eval_with index) *)
Corollary marks_noninterference_eval :
  forall (m : Z) (Cx : ctx -> Prop),
    (forall c, Cx c -> wf_ctx c) -> (forall c, Cx c -> funcs_wf c) ->
  forall fuel c1 c2 a1 a2 e v1 ds1 v2 ds2,
    in_fragment m index Cx e ->
    low_eq m c1 c2 -> leq_opt m a1 a2 -> funcs_ni m c1 ->
    Cx c1 -> Cx c2 -> wf_opt a1 -> wf_opt a2 ->
    eval fuel c1 a1 e = (v1, ds1) -> eval fuel c2 a2 e = (v2, ds2) ->
    has_errors ds1 = false -> has_errors ds2 = false ->
    has_unsupported ds1 = false -> has_unsupported ds2 = false ->
    erase m v1 = erase m v2.
Proof. intros m Cx H1 H2. unfold eval. apply marks_noninterference_partial; auto using index_wf'. Qed.

(* hcl.Expression.Value *)
Corollary marks_noninterference_value :
  forall (m : Z) (Cx : ctx -> Prop),
    (forall c, Cx c -> wf_ctx c) -> (forall c, Cx c -> funcs_wf c) ->
  forall c1 c2 e v1 ds1 v2 ds2,
    in_fragment m index Cx e ->
    low_eq m c1 c2 -> funcs_ni m c1 -> Cx c1 -> Cx c2 ->
    value c1 e = (v1, ds1) -> value c2 e = (v2, ds2) ->
    has_errors ds1 = false -> has_errors ds2 = false ->
    has_unsupported ds1 = false -> has_unsupported ds2 = false ->
    erase m v1 = erase m v2.
Proof.
  intros m Cx H1 H2 c1 c2 e v1 ds1 v2 ds2 Fe HL HF C1 C2 E1 E2. unfold value in E1, E2.
  eapply (marks_noninterference_eval m Cx H1 H2); try eassumption; exact I.
Qed.
