(* Eval/MarksNI_Main.v — C06: the non-interference theorems in their final form; hcl.Index. *)
From Coq Require Import QArith.
From HclV Require Import Base.Prelude Cty.Values Cty.Convert Cty.Ops Eval.Impl Eval.Funcs
     Eval.MarksNI Eval.MarksNI_Ops Eval.MarksNI_Index Eval.MarksNI_Funcs Eval.MarksNI_Steps Eval.MarksNI_Eval Eval.MarksNI_Wf.
Open Scope Z_scope.

(* ---- hcl.Index --------------------------------------------------------------------------------- *)
(* hcl.Index as it should be: the marks of the key are re-applied to every result.  (For the
   list / tuple / map branches with a known or unknown key hcl.Index already does it; the object
   branch and the two dynamic early returns do not.) *)
Definition index_repaired (coll key : val) : val * list diag :=
  let '(r, ds) := index coll key in (with_marks r (deep_marks key), ds).

Lemma index_repaired_agree coll key : deep_marks key = [] -> index_repaired coll key = index coll key.
Proof. unfold index_repaired. intros ->. destruct (index coll key). reflexivity. Qed.

Lemma index_repaired_wf c k : wf c -> wf k -> wf (fst (index_repaired c k)).
Proof.
  intros Wc _. unfold index_repaired. pose proof (index_wf c k Wc) as X. destruct (index c k) as [r ds].
  cbn [fst] in *. apply wf_with_marks, X.
Qed.
Lemma index_wf' c k : wf c -> wf k -> wf (fst (index c k)).
Proof. intros Wc _. apply index_wf, Wc. Qed.

(* index with the same key on both sides is non-interfering *)
Lemma index_ni_key m k : idx_ni_key m index k.
Proof.
  intros c1 c2 r1 r2 ds1 ds2 L W1 _ E1 E2 A1 A2 B1 B2.
  eapply index_leq; [exact L|exact W1|exact E1|exact E2|split; assumption|split; assumption].
Qed.

(* index_ni_partial: hcl.Index is non-interfering on all calls whose key does not carry m *)
Theorem index_ni_partial m :
  forall c1 c2 k1 k2 r1 r2 ds1 ds2,
    leq m c1 c2 -> leq m k1 k2 -> wf c1 ->
    mark_mem m (deep_marks k1) = false ->
    index c1 k1 = (r1, ds1) -> index c2 k2 = (r2, ds2) ->
    has_errors ds1 = false -> has_errors ds2 = false ->
    has_unsupported ds1 = false -> has_unsupported ds2 = false ->
    erase m r1 = erase m r2.
Proof.
  intros c1 c2 k1 k2 r1 r2 ds1 ds2 Lc Lk W Z E1 E2 A1 A2 B1 B2.
  rewrite <- (leq_deep_eq m _ _ Lk Z) in E2.
  eapply index_leq; [exact Lc|exact W|exact E1|exact E2|split; assumption|split; assumption].
Qed.

Theorem index_repaired_ni m : idx_ni m index_repaired.
Proof.
  intros c1 c2 k1 k2 r1 r2 ds1 ds2 Lc Lk W1 _ _ _ E1 E2 A1 A2 B1 B2. unfold index_repaired in E1, E2.
  destruct (index c1 k1) as [x1 d1] eqn:I1. destruct (index c2 k2) as [x2 d2] eqn:I2.
  injection E1 as <- <-. injection E2 as <- <-.
  destruct (mark_mem m (deep_marks k1)) eqn:Z.
  - apply stars_leq; apply with_marks_star; [exact Z|]. rewrite <- (leq_deep_mem m _ _ Lk). exact Z.
  - pose proof (leq_deep_eq m _ _ Lk Z) as <-.
    apply with_marks_leq; [|apply marks_rel_refl].
    eapply index_leq; [exact Lc|exact W1|exact I1|exact I2|split; assumption|split; assumption].
Qed.

(* index_ni_refuted: the real hcl.Index is NOT non-interfering.  Witness (m = 1): the object
   {a = "x", b = "y"} indexed by the MARKED KNOWN keys "a" and "b": the results "x" and "y" carry
   no mark (ops.go, Index, object branch: key.Unmark() and the marks are dropped).  The
   repository's own test suite pins this behaviour (ops_test.go "marked object key"). *)
Definition wit_obj : val := VObj [([97], VStr [120]); ([98], VStr [121])].
Definition wit_ka : val := VMark [1] (VStr [97]).
Definition wit_kb : val := VMark [1] (VStr [98]).

Theorem index_ni_refuted : ~ idx_ni 1 index.
Proof.
  intro H.
  assert (X : leq 1 (VStr [120]) (VStr [121])).
  { eapply (H wit_obj wit_obj wit_ka wit_kb); try reflexivity. }
  vm_compute in X. discriminate X.
Qed.

(* ---- the evaluator ----------------------------------------------------------------------------- *)
(* contexts whose functions return well-formed values *)
Definition funcs_wf (c : ctx) : Prop :=
  forall fr fs name f, In fr c -> ffuncs fr = Some fs -> assoc_get name fs = Some f -> fn_wf f.

(* The full statement (every expression).  It is FALSE of the faithful model: see
   MarksNI_Refuted.v.  What is proved is the same statement for the expressions of
   [in_fragment] (marks_noninterference_partial). *)
Definition marks_noninterference_stmt : Prop :=
  forall (m : Z) idx, idx_ni m idx ->
  forall fuel c1 c2 a1 a2 e v1 ds1 v2 ds2,
    low_eq m c1 c2 -> leq_opt m a1 a2 -> funcs_ni m c1 ->
    wf_ctx c1 -> wf_ctx c2 -> wf_opt a1 -> wf_opt a2 ->
    eval_with idx fuel c1 a1 e = (v1, ds1) -> eval_with idx fuel c2 a2 e = (v2, ds2) ->
    has_errors ds1 = false -> has_errors ds2 = false ->
    has_unsupported ds1 = false -> has_unsupported ds2 = false ->
    erase m v1 = erase m v2.

Theorem marks_noninterference_partial :
  forall (m : Z) (idx : val -> val -> val * list diag) (Cx : ctx -> Prop),
    (forall c, Cx c -> wf_ctx c) ->
    (forall c, Cx c -> funcs_wf c) ->
    (forall c vars, Cx c -> (forall k v, In (k, v) vars -> wf v) -> Cx (child_ctx c vars)) ->
    (forall c, Cx c -> Cx (mkFrame None None :: c)) ->
    (forall c k, wf c -> wf k -> wf (fst (idx c k))) ->
  forall fuel c1 c2 a1 a2 e v1 ds1 v2 ds2,
    in_fragment m idx Cx e ->
    low_eq m c1 c2 -> leq_opt m a1 a2 -> funcs_ni m c1 ->
    Cx c1 -> Cx c2 -> wf_opt a1 -> wf_opt a2 ->
    eval_with idx fuel c1 a1 e = (v1, ds1) -> eval_with idx fuel c2 a2 e = (v2, ds2) ->
    has_errors ds1 = false -> has_errors ds2 = false ->
    has_unsupported ds1 = false -> has_unsupported ds2 = false ->
    erase m v1 = erase m v2.
Proof.
  intros m idx Cx Hwf Hfw Hch Hfr Hidx fuel c1 c2 a1 a2 e v1 ds1 v2 ds2 Fe HL HA HF C1 C2 W1 W2 E1 E2 A1 A2 B1 B2.
  eapply (ni_all m idx Cx Hwf Hch Hfr); try eassumption; try (split; assumption).
  intros. eapply (eval_wf m idx Cx); eassumption.
Qed.

(* hcl.Index is non-interfering on every collection that is not of object type, whatever the key
   (since f033bd0 the dynamic early exit keeps the marks of the key). *)
Theorem index_ni_nonobj m : idx_ni_nonobj m index.
Proof.
  intros c1 c2 k1 k2 r1 r2 ds1 ds2 Lc Lk Wc1 _ Wk1 _ O1 O2 E1 E2 A1 A2 B1 B2.
  eapply index_leq_nonobj; [exact Lc|exact Lk|exact Wc1|exact Wk1|exact O1|exact O2|exact E1|exact E2
                           |split; assumption|split; assumption].
Qed.

Lemma key_ok_repaired m Cx coll key : key_ok m index_repaired Cx coll key.
Proof. left. apply index_repaired_ni. Qed.
Lemma key_ok_index_lit m Cx coll k : key_ok m index Cx coll (ELit k).
Proof. right. left. exists k. split; [reflexivity|apply index_ni_key]. Qed.
Lemma key_ok_index_nonobj m Cx coll key : nonobj index Cx coll -> key_ok m index Cx coll key.
Proof. intro H. right. right. split; [apply index_ni_nonobj|exact H]. Qed.

(* with hcl.Index repaired: index expressions with arbitrary keys *)
Corollary marks_noninterference_repaired :
  forall (m : Z) (Cx : ctx -> Prop),
    (forall c, Cx c -> wf_ctx c) -> (forall c, Cx c -> funcs_wf c) ->
    (forall c vars, Cx c -> (forall k v, In (k, v) vars -> wf v) -> Cx (child_ctx c vars)) ->
    (forall c, Cx c -> Cx (mkFrame None None :: c)) ->
  forall fuel c1 c2 a1 a2 e v1 ds1 v2 ds2,
    in_fragment m index_repaired Cx e ->
    low_eq m c1 c2 -> leq_opt m a1 a2 -> funcs_ni m c1 ->
    Cx c1 -> Cx c2 -> wf_opt a1 -> wf_opt a2 ->
    eval_with index_repaired fuel c1 a1 e = (v1, ds1) -> eval_with index_repaired fuel c2 a2 e = (v2, ds2) ->
    has_errors ds1 = false -> has_errors ds2 = false ->
    has_unsupported ds1 = false -> has_unsupported ds2 = false ->
    erase m v1 = erase m v2.
Proof. intros m Cx H1 H2 H3 H4. apply marks_noninterference_partial; auto using index_repaired_wf. Qed.

(* the implementation as it is (eval = eval_with index) *)
Corollary marks_noninterference_eval :
  forall (m : Z) (Cx : ctx -> Prop),
    (forall c, Cx c -> wf_ctx c) -> (forall c, Cx c -> funcs_wf c) ->
    (forall c vars, Cx c -> (forall k v, In (k, v) vars -> wf v) -> Cx (child_ctx c vars)) ->
    (forall c, Cx c -> Cx (mkFrame None None :: c)) ->
  forall fuel c1 c2 a1 a2 e v1 ds1 v2 ds2,
    in_fragment m index Cx e ->
    low_eq m c1 c2 -> leq_opt m a1 a2 -> funcs_ni m c1 ->
    Cx c1 -> Cx c2 -> wf_opt a1 -> wf_opt a2 ->
    eval fuel c1 a1 e = (v1, ds1) -> eval fuel c2 a2 e = (v2, ds2) ->
    has_errors ds1 = false -> has_errors ds2 = false ->
    has_unsupported ds1 = false -> has_unsupported ds2 = false ->
    erase m v1 = erase m v2.
Proof. intros m Cx H1 H2 H3 H4. unfold eval. apply marks_noninterference_partial; auto using index_wf'. Qed.

(* hcl.Expression.Value *)
Corollary marks_noninterference_value :
  forall (m : Z) (Cx : ctx -> Prop),
    (forall c, Cx c -> wf_ctx c) -> (forall c, Cx c -> funcs_wf c) ->
    (forall c vars, Cx c -> (forall k v, In (k, v) vars -> wf v) -> Cx (child_ctx c vars)) ->
    (forall c, Cx c -> Cx (mkFrame None None :: c)) ->
  forall c1 c2 e v1 ds1 v2 ds2,
    in_fragment m index Cx e ->
    low_eq m c1 c2 -> funcs_ni m c1 -> Cx c1 -> Cx c2 ->
    value c1 e = (v1, ds1) -> value c2 e = (v2, ds2) ->
    has_errors ds1 = false -> has_errors ds2 = false ->
    has_unsupported ds1 = false -> has_unsupported ds2 = false ->
    erase m v1 = erase m v2.
Proof.
  intros m Cx H1 H2 H3 H4 c1 c2 e v1 ds1 v2 ds2 Fe HL HF C1 C2 E1 E2. unfold value in E1, E2.
  eapply (marks_noninterference_eval m Cx H1 H2 H3 H4); try eassumption; exact I.
Qed.

(* ---- the canonical class of contexts: all values well-formed, all functions well-behaved ------- *)
Definition ctx_ok (c : ctx) : Prop := wf_ctx c /\ funcs_wf c.

Lemma ctx_ok_wf c : ctx_ok c -> wf_ctx c.
Proof. intros [H _]; exact H. Qed.
Lemma ctx_ok_funcs c : ctx_ok c -> funcs_wf c.
Proof. intros [_ H]; exact H. Qed.
Lemma ctx_ok_child c vars : ctx_ok c -> (forall k v, In (k, v) vars -> wf v) -> ctx_ok (child_ctx c vars).
Proof.
  intros [H1 H2] Hv. split.
  - intros fr vs k v [<-|I] F Iv.
    + cbn [child_ctx fvars] in F. injection F as <-. eapply Hv; exact Iv.
    + eapply H1; eassumption.
  - intros fr fs name f [<-|I] F G; [discriminate F|]. eapply H2; eassumption.
Qed.

Lemma ctx_ok_frame c : ctx_ok c -> ctx_ok (mkFrame None None :: c).
Proof.
  intros [H1 H2]. split.
  - intros fr vs k v [<-|I] F Iv; [discriminate F|]. eapply H1; eassumption.
  - intros fr fs name f [<-|I] F G; [discriminate F|]. eapply H2; eassumption.
Qed.

Corollary marks_noninterference_value_ok :
  forall (m : Z) c1 c2 e v1 ds1 v2 ds2,
    in_fragment m index ctx_ok e ->
    low_eq m c1 c2 -> funcs_ni m c1 -> ctx_ok c1 -> ctx_ok c2 ->
    value c1 e = (v1, ds1) -> value c2 e = (v2, ds2) ->
    has_errors ds1 = false -> has_errors ds2 = false ->
    has_unsupported ds1 = false -> has_unsupported ds2 = false ->
    erase m v1 = erase m v2.
Proof. intro m. apply (marks_noninterference_value m ctx_ok ctx_ok_wf ctx_ok_funcs ctx_ok_child ctx_ok_frame). Qed.

Corollary marks_noninterference_eval_ok :
  forall (m : Z) fuel c1 c2 a1 a2 e v1 ds1 v2 ds2,
    in_fragment m index ctx_ok e ->
    low_eq m c1 c2 -> leq_opt m a1 a2 -> funcs_ni m c1 ->
    ctx_ok c1 -> ctx_ok c2 -> wf_opt a1 -> wf_opt a2 ->
    eval fuel c1 a1 e = (v1, ds1) -> eval fuel c2 a2 e = (v2, ds2) ->
    has_errors ds1 = false -> has_errors ds2 = false ->
    has_unsupported ds1 = false -> has_unsupported ds2 = false ->
    erase m v1 = erase m v2.
Proof. intro m. apply (marks_noninterference_eval m ctx_ok ctx_ok_wf ctx_ok_funcs ctx_ok_child ctx_ok_frame). Qed.

Corollary marks_noninterference_repaired_ok :
  forall (m : Z) fuel c1 c2 a1 a2 e v1 ds1 v2 ds2,
    in_fragment m index_repaired ctx_ok e ->
    low_eq m c1 c2 -> leq_opt m a1 a2 -> funcs_ni m c1 ->
    ctx_ok c1 -> ctx_ok c2 -> wf_opt a1 -> wf_opt a2 ->
    eval_with index_repaired fuel c1 a1 e = (v1, ds1) -> eval_with index_repaired fuel c2 a2 e = (v2, ds2) ->
    has_errors ds1 = false -> has_errors ds2 = false ->
    has_unsupported ds1 = false -> has_unsupported ds2 = false ->
    erase m v1 = erase m v2.
Proof. intro m. apply (marks_noninterference_repaired m ctx_ok ctx_ok_wf ctx_ok_funcs ctx_ok_child ctx_ok_frame). Qed.

(* the harness table *)
Definition harness_funcs : list (list Z * fn) :=
  [([102;97;105;108], fn_fail); ([102;105;114;115;116], fn_first); ([105;115;110;117;108;108], fn_isnull);
   ([112;97;105;114], fn_pair); ([115;117;109], fn_sum); ([117;112;112;101;114], fn_upper)].

Lemma harness_funcs_ok m : forall name f, assoc_get name harness_funcs = Some f -> fn_ok m f.
Proof.
  intros name f H. unfold harness_funcs in H. cbn [assoc_get] in H.
  repeat match type of H with
         | (if ?b then _ else _) = _ => destruct b; [injection H as <-|]
         end; try discriminate H;
    first [apply fn_fail_ok|apply fn_first_ok|apply fn_isnull_ok|apply fn_pair_ok|apply fn_sum_ok|apply fn_upper_ok].
Qed.
