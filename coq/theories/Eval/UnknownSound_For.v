(* Eval/UnknownSound_For.v — C05: soundness of ForExpr.Value (EFor): tuple-for and object-for, with
   condition, key expression and grouping; unknown collection, unknown condition, unknown key. *)
From Coq Require Import QArith Qreduction.
From HclV Require Import Base.Prelude Cty.Values Cty.Convert Cty.Ops Eval.Impl Eval.Funcs
                         Eval.UnknownSound_Base Eval.UnknownSound_Known Eval.UnknownSound_Gamma
                         Eval.UnknownSound_Conv Eval.UnknownSound_Conv2 Eval.UnknownSound_Ops
                         Eval.UnknownSound_Num Eval.UnknownSound_Cond Eval.UnknownSound_Eq Eval.UnknownSound_Fn
                         Eval.UnknownSound_Frag Eval.UnknownSound_Inv Eval.UnknownSound_Core.
Open Scope Z_scope.
Local Strategy opaque [equals val_size unmark_deep deep_marks unify_n convert].
Notation ev_ := (eval_with index).

(* ---- conversions to bool / string of known values ------------------------------------------------------ *)
Lemma conv_known_wk a want b : (want = TBool \/ want = TStr) -> inv a = true -> null_shape a = false ->
  conv a want = COk b -> (is_known a = true \/ is_known b = true) -> wholly_known a = true.
Proof.
  intros Hw I N E K. unfold conv in E. apply convert_inv in E.
  inversion E; subst; try (destruct Hw; discriminate); try reflexivity; try discriminate.
  - (* same type *)
    match goal with H : ty_eqb (type_of _) _ = true |- _ => apply ty_eqb_eq in H; rename H into Ht end.
    destruct b; simpl in *; try reflexivity; try discriminate;
      try (destruct Hw as [Hw|Hw]; rewrite Hw in Ht; discriminate).
    destruct K; discriminate.
  - (* unknown *)
    destruct K as [K|K]; [discriminate|].
    assert (Hd : has_dyn want = false) by (destruct Hw; subst; reflexivity).
    rewrite (dynamic_replace_nodyn _ _ _ Hd) in K.
    match type of K with context [conv_unknown_rf ?a ?b ?c] => destruct (conv_unknown_rf a b c) as [|x] end; [discriminate K|].
    unfold finish_unknown in K. destruct (negb (r_notnull x)); [discriminate K|].
    destruct Hw; subst; discriminate K.
Qed.

Lemma wk_is_known v : inv v = true -> wholly_known v = true -> is_known v = true.
Proof. intros I W. rewrite (inv_is_known _ I). destruct v; try reflexivity. discriminate W. Qed.

(* ---- the decisions taken for one element ------------------------------------------------------------------ *)
(* the condition: Some true = included, Some false = excluded, None = unknown / null / not a bool *)
Definition cond_dec (inc : val) : option bool :=
  if is_null inc then None
  else match conv inc TBool with
       | COk b => if negb (is_known b) then None
                  else match fst (unmark b) with VBool false => Some false | _ => Some true end
       | _ => None
       end.
Definition cond_unk (inc : val) : bool :=
  negb (is_null inc) && match conv inc TBool with COk b => negb (is_known b) | _ => false end.
(* the key: Some s = a known string, None = unknown / null / not a string *)
Definition key_dec (k : val) : option (list Z) :=
  if is_null k then None
  else if negb (is_known k) then None
  else match conv k TStr with
       | COk kc => match fst (unmark kc) with VStr ks => Some ks | _ => None end
       | _ => None
       end.
Definition key_unk (k : val) : bool := negb (is_null k) && negb (is_known k).

Lemma cond_dec_shape inc b : inv inc = true -> cond_dec inc = Some b ->
  wholly_known inc = true /\ null_shape inc = false /\ conv inc TBool = COk (VBool b).
Proof.
  intros I. unfold cond_dec. rewrite (inv_is_null _ I). destruct (null_shape inc) eqn:N; [discriminate|].
  destruct (conv inc TBool) as [bv| |] eqn:E; try discriminate.
  destruct (is_known bv) eqn:Kb; [|discriminate]. cbn [negb].
  pose proof (conv_known_wk inc TBool bv (or_introl eq_refl) I N E (or_intror Kb)) as W.
  destruct (conv_prim_known_shape inc TBool bv W I N eq_refl E) as [x ->]. cbn [unmark fst].
  destruct x; intros H; injection H as <-; auto.
Qed.

Lemma cond_dec_gs a c x y : inv a = true -> inv c = true -> gsb a c = true ->
  cond_dec a = Some x -> cond_dec c = Some y -> x = y.
Proof.
  intros Ia Ic G Ea Ec. destruct (cond_dec_shape a x Ia Ea) as [_ [_ Ca]]. destruct (cond_dec_shape c y Ic Ec) as [_ [_ Cc]].
  pose proof (conv_gs_prim a c TBool _ _ eq_refl Ia Ic G Ca Cc) as H. simpl in H. apply Bool.eqb_prop in H. exact H.
Qed.

Lemma cond_unk_wk c : inv c = true -> wholly_known c = true -> cond_unk c = false.
Proof.
  intros I W. unfold cond_unk. rewrite (inv_is_null _ I). destruct (null_shape c) eqn:N; [reflexivity|]. cbn [negb andb].
  destruct (conv c TBool) as [b| |] eqn:E; try reflexivity.
  destruct (conv_prim_known_shape c TBool b W I N eq_refl E) as [x ->]. reflexivity.
Qed.

Lemma for_incl_dec inc : inv inc = true -> cond_dec inc = Some true -> for_incl inc = true.
Proof.
  intros I E. destruct (cond_dec_shape inc true I E) as [W [N C]]. unfold for_incl.
  rewrite (inv_is_null _ I), N, (wk_is_known _ I W), C. reflexivity.
Qed.

(* TupleConsExpr's variant tests the condition value before its conversion *)
Definition cond_dec_t (inc : val) : option bool :=
  if is_null inc then None
  else if negb (is_known inc) then None
  else match conv inc TBool with
       | COk b => match fst (unmark b) with VBool false => Some false | _ => Some true end
       | _ => None
       end.
Lemma cond_dec_t_eq inc : inv inc = true -> cond_dec_t inc = cond_dec inc.
Proof.
  intros I. unfold cond_dec_t, cond_dec. rewrite (inv_is_null _ I). destruct (null_shape inc) eqn:N; [reflexivity|].
  destruct (conv inc TBool) as [b| |] eqn:E.
  - destruct (is_known inc) eqn:Ki; cbn [negb].
    + pose proof (conv_known_wk inc TBool b (or_introl eq_refl) I N E (or_introl Ki)) as W.
      destruct (conv_prim_known_shape inc TBool b W I N eq_refl E) as [x ->]. reflexivity.
    + destruct (is_known b) eqn:Kb; [|reflexivity].
      pose proof (conv_known_wk inc TBool b (or_introl eq_refl) I N E (or_intror Kb)) as W.
      rewrite (wk_is_known _ I W) in Ki. discriminate.
  - destruct (negb (is_known inc)); reflexivity.
  - destruct (negb (is_known inc)); reflexivity.
Qed.

Lemma key_dec_shape k s : inv k = true -> key_dec k = Some s ->
  wholly_known k = true /\ null_shape k = false /\ is_known k = true /\ conv k TStr = COk (VStr s).
Proof.
  intros I. unfold key_dec. rewrite (inv_is_null _ I). destruct (null_shape k) eqn:N; [discriminate|].
  destruct (is_known k) eqn:K; [|discriminate]. cbn [negb].
  destruct (conv k TStr) as [kc| |] eqn:E; try discriminate.
  pose proof (conv_known_wk k TStr kc (or_intror eq_refl) I N E (or_introl K)) as W.
  destruct (conv_prim_known_shape k TStr kc W I N eq_refl E) as [x ->]. cbn [unmark fst].
  intros H; injection H as <-; auto.
Qed.

Lemma key_dec_gs a c x y : inv a = true -> inv c = true -> gsb a c = true ->
  key_dec a = Some x -> key_dec c = Some y -> x = y.
Proof.
  intros Ia Ic G Ea Ec. destruct (key_dec_shape a x Ia Ea) as [_ [_ [_ Ca]]]. destruct (key_dec_shape c y Ic Ec) as [_ [_ [_ Cc]]].
  pose proof (conv_gs_prim a c TStr _ _ eq_refl Ia Ic G Ca Cc) as H. simpl in H. apply str_eqb_eq in H. exact H.
Qed.

Lemma key_unk_wk c : inv c = true -> wholly_known c = true -> key_unk c = false.
Proof. intros I W. unfold key_unk. rewrite (wk_is_known _ I W). apply andb_false_r. Qed.

(* ---- what one step of the loops does to the collected values --------------------------------------------- *)
Section Steps.
  Variable ev : ctx -> expr -> val * list diag.
  Variable bind : val -> val -> ctx.
  Variables (vale : expr) (conde : option expr) (group : bool).

  Definition for_dec (kv : val * val) : option bool :=
    match conde with None => Some true | Some ce => cond_dec (fst (ev (bind (fst kv) (snd kv)) ce)) end.

  Definition ocore := (list (list Z * val) * list (list Z * list val) * bool)%type.
  Definition ofor_core (st : ofor_state) : ocore := let '(vals, groups, _, known, _) := st in (vals, groups, known).
  Definition ostep_core (d : option bool) (kd : option (list Z)) (v : val) (s : ocore) : ocore :=
    let '(vals, groups, known) := s in
    match d with
    | None => (vals, groups, false)
    | Some false => (vals, groups, known)
    | Some true =>
        match kd with
        | None => (vals, groups, false)
        | Some ks =>
            if group then (vals, assoc_set ks (match assoc_get ks groups with Some l => l | None => [] end ++ [v]) groups, known)
            else match assoc_get ks vals with
                 | Some _ => (vals, groups, known)
                 | None => (assoc_set ks v vals, groups, known)
                 end
        end
    end.

  Lemma ofor_step_core ke st kv :
    ofor_core (ofor_step ev bind vale conde group ke st kv) =
    ostep_core (for_dec kv) (key_dec (fst (ev (bind (fst kv) (snd kv)) ke))) (fst (ev (bind (fst kv) (snd kv)) vale)) (ofor_core st).
  Proof.
    destruct st as [[[[vals groups] mks] known] ds]. unfold ofor_step, for_dec, cond_dec, key_dec. cbn [ofor_core ostep_core].
    destruct conde as [ce|].
    - repeat (cbv zeta; cbn [fst snd negb]; match goal with |- ofor_core (match ?x with _ => _ end) = _ => destruct_scrut x end);
        cbv zeta; cbn [fst snd negb ofor_core]; reflexivity.
    - repeat (cbv zeta; cbn [fst snd negb]; match goal with |- ofor_core (match ?x with _ => _ end) = _ => destruct_scrut x end);
        cbv zeta; cbn [fst snd negb ofor_core]; reflexivity.
  Qed.

  Definition tcore := (list val * bool)%type.
  Definition tfor_core (st : tfor_state) : tcore := let '(vals, _, known, _) := st in (vals, known).
  Definition tstep_core (d : option bool) (v : val) (s : tcore) : tcore :=
    let '(vals, known) := s in
    match d with
    | None => (vals, false)
    | Some false => (vals, known)
    | Some true => (vals ++ [v], known)
    end.
  Definition for_dec_t (kv : val * val) : option bool :=
    match conde with None => Some true | Some ce => cond_dec_t (fst (ev (bind (fst kv) (snd kv)) ce)) end.

  Lemma tfor_step_core st kv :
    tfor_core (tfor_step ev bind vale conde st kv) =
    tstep_core (for_dec_t kv) (fst (ev (bind (fst kv) (snd kv)) vale)) (tfor_core st).
  Proof.
    destruct st as [[[vals mks] known] ds]. unfold tfor_step, for_dec_t, cond_dec_t. cbn [tfor_core tstep_core].
    destruct conde as [ce|].
    - repeat (cbv zeta; cbn [fst snd negb]; match goal with |- tfor_core (match ?x with _ => _ end) = _ => destruct_scrut x end);
        cbv zeta; cbn [fst snd negb tfor_core]; reflexivity.
    - repeat (cbv zeta; cbn [fst snd negb]; match goal with |- tfor_core (match ?x with _ => _ end) = _ => destruct_scrut x end);
        cbv zeta; cbn [fst snd negb tfor_core]; reflexivity.
  Qed.
End Steps.

(* ---- diagnostics of one step --------------------------------------------------------------------------------- *)
Ltac dhead_ds D f :=
  match type of D with
  | diag_ok (f (match ?x with _ => _ end)) = true => destruct_scrut x
  end.

Lemma diag_ok_app_l a b : diag_ok (a ++ b) = true -> diag_ok a = true.
Proof. rewrite diag_ok_app. intros H. apply andb_true_iff in H. tauto. Qed.

Section StepDiags.
  Variable ev : ctx -> expr -> val * list diag.
  Variable bind : val -> val -> ctx.
  Variables (vale : expr) (conde : option expr) (group : bool).

  Lemma ofor_step_mono ke st kv :
    diag_ok (ofor_ds (ofor_step ev bind vale conde group ke st kv)) = true -> diag_ok (ofor_ds st) = true.
  Proof.
    destruct st as [[[[vals groups] mks] known] ds]. unfold ofor_step. intros D. cbn [ofor_ds].
    destruct conde as [ce|];
    repeat (cbv zeta in D; dhead_ds D ofor_ds); cbv zeta in D; cbn [ofor_ds] in D;
      try (destruct known); repeat (apply diag_ok_app_l in D); exact D.
  Qed.

  Lemma tfor_step_mono st kv :
    diag_ok (tfor_ds (tfor_step ev bind vale conde st kv)) = true -> diag_ok (tfor_ds st) = true.
  Proof.
    destruct st as [[[vals mks] known] ds]. unfold tfor_step. intros D. cbn [tfor_ds].
    destruct conde as [ce|];
    repeat (cbv zeta in D; dhead_ds D tfor_ds); cbv zeta in D; cbn [tfor_ds] in D;
      try (destruct known); repeat (apply diag_ok_app_l in D); exact D.
  Qed.

  (* while the result is still known, a step without diagnostics decides the condition unless the
     condition value is unknown, and obtains a key unless the key value is unknown *)
  Lemma ofor_step_diag ke st kv :
    snd (ofor_core st) = true ->
    diag_ok (ofor_ds (ofor_step ev bind vale conde group ke st kv)) = true ->
    (for_dec ev bind conde kv = None ->
     match conde with Some ce => cond_unk (fst (ev (bind (fst kv) (snd kv)) ce)) | None => false end = true) /\
    (for_dec ev bind conde kv = Some true -> key_dec (fst (ev (bind (fst kv) (snd kv)) ke)) = None ->
     key_unk (fst (ev (bind (fst kv) (snd kv)) ke)) = true).
  Proof.
    destruct st as [[[[vals groups] mks] known] ds]. cbn [ofor_core snd]. intros ->.
    unfold ofor_step, for_dec, cond_dec, cond_unk, key_dec, key_unk. intros D.
    destruct conde as [ce|];
    repeat (cbv zeta in D; cbn [fst snd] in D |- *; dhead_ds D ofor_ds); cbv zeta in D; cbn [ofor_ds fst snd negb andb] in D |- *;
      (split; intros; try discriminate; try reflexivity; try (kill D)).
  Qed.

  Lemma tfor_step_diag st kv :
    snd (tfor_core st) = true ->
    diag_ok (tfor_ds (tfor_step ev bind vale conde st kv)) = true ->
    for_dec_t ev bind conde kv = None ->
    match conde with
    | Some ce => let inc := fst (ev (bind (fst kv) (snd kv)) ce) in negb (is_null inc) && negb (is_known inc)
    | None => false
    end = true.
  Proof.
    destruct st as [[[vals mks] known] ds]. cbn [tfor_core snd]. intros ->.
    unfold tfor_step, for_dec_t, cond_dec_t. intros D.
    destruct conde as [ce|];
    repeat (cbv zeta in D; cbn [fst snd] in D |- *; dhead_ds D tfor_ds); cbv zeta in D; cbn [tfor_ds fst snd negb andb] in D |- *;
      (intros; try discriminate; try reflexivity; try (kill D)).
  Qed.
End StepDiags.

(* ---- related collected values ----------------------------------------------------------------------------------- *)
Definition kvrel {V W} (Rel : V -> W -> bool) (la : list (list Z * V)) (lc : list (list Z * W)) : bool :=
  all2 (fun p q => str_eqb (fst p) (fst q) && Rel (snd p) (snd q)) la lc.

Lemma assoc_get_kvrel {V W} (Rel : V -> W -> bool) k la lc : kvrel Rel la lc = true ->
  match assoc_get k la, assoc_get k lc with
  | Some a, Some c => Rel a c = true
  | None, None => True
  | _, _ => False
  end.
Proof.
  revert lc. induction la as [|[ka a] ra IH]; intros [|[kc c] rc] H; simpl in *; try discriminate; [exact I|].
  apply andb_true_iff in H as [H Hr]. apply andb_true_iff in H as [Hk Hv]. apply str_eqb_eq in Hk. subst kc.
  destruct (str_eqb k ka); [exact Hv|apply IH; exact Hr].
Qed.

Lemma assoc_set_kvrel {V W} (Rel : V -> W -> bool) k a c la lc : kvrel Rel la lc = true -> Rel a c = true ->
  kvrel Rel (assoc_set k a la) (assoc_set k c lc) = true.
Proof.
  intros H Hac. revert lc H. induction la as [|[ka xa] ra IH]; intros [|[kc xc] rc] H; simpl in *; try discriminate.
  - rewrite str_eqb_refl, Hac. reflexivity.
  - apply andb_true_iff in H as [H Hr]. apply andb_true_iff in H as [Hk Hv]. apply str_eqb_eq in Hk. subst kc.
    destruct (str_eqb k ka).
    + simpl. rewrite str_eqb_refl, Hac, Hr. reflexivity.
    + destruct (str_ltb k ka); simpl.
      * rewrite !str_eqb_refl, Hac, Hv, Hr. reflexivity.
      * rewrite str_eqb_refl, Hv. simpl. apply IH. exact Hr.
Qed.

Lemma all2_snoc {A B} (f : A -> B -> bool) la lc a c : all2 f la lc = true -> f a c = true -> all2 f (la ++ [a]) (lc ++ [c]) = true.
Proof.
  revert lc. induction la as [|x r IH]; intros [|y r'] H Hac; simpl in *; try discriminate.
  - rewrite Hac. reflexivity.
  - apply andb_true_iff in H as [H1 H2]. rewrite H1. simpl. apply IH; assumption.
Qed.

(* the relation between the abstract and the concrete loop state: the concrete result stays known;
   while the abstract one is known as well, the collected values correspond *)
Definition orel (sA sC : ocore) : Prop :=
  let '(valsA, groupsA, knownA) := sA in
  let '(valsC, groupsC, knownC) := sC in
  knownC = true /\ (knownA = true -> kvrel gsb valsA valsC = true /\ kvrel (all2 gsb) groupsA groupsC = true).

Lemma ostep_core_rel group dA dC kdA kdC vA vC sA sC :
  orel sA sC ->
  dC <> None -> (dC = Some true -> kdC <> None) ->
  (forall x, dA = Some x -> dC = Some x) ->
  (dA = Some true -> forall ks, kdA = Some ks -> kdC = Some ks /\ gsb vA vC = true) ->
  orel (ostep_core group dA kdA vA sA) (ostep_core group dC kdC vC sC).
Proof.
  destruct sA as [[valsA groupsA] knownA]. destruct sC as [[valsC groupsC] knownC].
  intros [-> R] HdC HkC Hd Hk. unfold ostep_core.
  destruct dC as [bC|]; [|contradiction HdC; reflexivity].
  destruct dA as [bA|].
  2:{ simpl. destruct bC; [|simpl; split; [reflexivity|discriminate]].
      destruct kdC as [ks|]; [|contradiction (HkC eq_refl); reflexivity].
      destruct group; [simpl; split; [reflexivity|discriminate]|].
      destruct (assoc_get ks valsC); simpl; (split; [reflexivity|discriminate]). }
  pose proof (Hd bA eq_refl) as E. injection E as E. subst bC.
  destruct bA; [|simpl; split; [reflexivity|exact R]].
  destruct kdA as [ks|].
  2:{ destruct kdC as [ks|]; [|contradiction (HkC eq_refl); reflexivity].
      destruct group; [simpl; split; [reflexivity|discriminate]|].
      destruct (assoc_get ks valsC); simpl; (split; [reflexivity|discriminate]). }
  destruct (Hk eq_refl ks eq_refl) as [-> G].
  destruct group.
  - simpl. split; [reflexivity|]. intros K. destruct (R K) as [Rv Rg]. split; [exact Rv|].
    apply assoc_set_kvrel; [exact Rg|]. apply all2_snoc; [|exact G].
    pose proof (assoc_get_kvrel (all2 gsb) ks _ _ Rg) as H.
    destruct (assoc_get ks groupsA), (assoc_get ks groupsC); try contradiction; [exact H|reflexivity].
  - destruct (assoc_get ks valsA) eqn:GA, (assoc_get ks valsC) eqn:GC; simpl; (split; [reflexivity|]); intros K;
      destruct (R K) as [Rv Rg]; pose proof (assoc_get_kvrel gsb ks _ _ Rv) as H; rewrite GA, GC in H; try contradiction.
    + split; assumption.
    + split; [|exact Rg]. apply assoc_set_kvrel; assumption.
Qed.

Definition trel (sA sC : tcore) : Prop :=
  let '(valsA, knownA) := sA in
  let '(valsC, knownC) := sC in
  knownC = true /\ (knownA = true -> all2 gsb valsA valsC = true).

Lemma tstep_core_rel dA dC vA vC sA sC :
  trel sA sC ->
  dC <> None ->
  (forall x, dA = Some x -> dC = Some x) ->
  (dA = Some true -> gsb vA vC = true) ->
  trel (tstep_core dA vA sA) (tstep_core dC vC sC).
Proof.
  destruct sA as [valsA knownA]. destruct sC as [valsC knownC].
  intros [-> R] HdC Hd Hv. unfold tstep_core.
  destruct dC as [bC|]; [|contradiction HdC; reflexivity].
  destruct dA as [bA|]; [|destruct bC; simpl; (split; [reflexivity|discriminate])].
  pose proof (Hd bA eq_refl) as E. injection E as E. subst bC.
  destruct bA; simpl; (split; [reflexivity|]); [|exact R].
  intros K. apply all2_snoc; [apply R; exact K|apply Hv; reflexivity].
Qed.

(* ---- the clean condition of one element (the body of [clean], EFor) ------------------------------------ *)
Section ElemClean.
  Variable cl : ctx -> expr -> bool.
  Variable ev : ctx -> expr -> val * list diag.
  Variable bind : val -> val -> ctx.
  Variables (keye : option expr) (vale : expr) (conde : option expr).

  Definition elem_clean (kv : val * val) : bool :=
    let cc := bind (fst kv) (snd kv) in
    match conde with None => true | Some ce => cl cc ce end &&
    (if match conde with None => true | Some ce => for_incl (fst (ev cc ce)) end
     then match keye with
          | None => cl cc vale
          | Some ke => cl cc ke && (if is_known (fst (ev cc ke)) then cl cc vale else true)
          end
     else true).

  Lemma elem_clean_cond kv ce : elem_clean kv = true -> conde = Some ce -> cl (bind (fst kv) (snd kv)) ce = true.
  Proof. unfold elem_clean. intros H ->. apply andb_true_iff in H. tauto. Qed.

  Lemma elem_clean_pass kv : elem_clean kv = true -> for_dec ev bind conde kv = Some true ->
    (forall ce, conde = Some ce -> inv (fst (ev (bind (fst kv) (snd kv)) ce)) = true) ->
    match keye with
    | None => cl (bind (fst kv) (snd kv)) vale
    | Some ke => cl (bind (fst kv) (snd kv)) ke && (if is_known (fst (ev (bind (fst kv) (snd kv)) ke)) then cl (bind (fst kv) (snd kv)) vale else true)
    end = true.
  Proof.
    unfold elem_clean, for_dec. intros H D Hi. apply andb_true_iff in H as [_ H].
    destruct conde as [ce|]; [|exact H]. rewrite (for_incl_dec _ (Hi ce eq_refl) D) in H. exact H.
  Qed.
End ElemClean.

(* ---- the loops, abstract against concrete ----------------------------------------------------------------- *)
Definition prel (a c : val * val) : Prop :=
  inv (fst a) = true /\ inv (fst c) = true /\ gsb (fst a) (fst c) = true /\
  inv (snd a) = true /\ inv (snd c) = true /\ gsb (snd a) (snd c) = true.

Lemma elements_prel xA xC : inv xA = true -> inv xC = true -> gsb xA xC = true -> is_known xA = true ->
  Forall2 prel (elements xA) (elements xC).
Proof.
  intros IA IC G K.
  assert (Q : forall la lc z, Forall (fun x => inv x = true) la -> Forall (fun x => inv x = true) lc -> all2 gsb la lc = true ->
            Forall2 prel (index_from z la) (index_from z lc)).
  { induction la as [|a la IHl]; intros [|c lc] z Fa Fc H; simpl in *; try discriminate; [constructor|].
    apply andb_true_iff in H as [H1 H2]. inversion Fa; inversion Fc; subst. constructor; [|apply IHl; assumption].
    unfold prel. cbn [fst snd]. pose proof (canon_nz z) as Cz.
    repeat split; try assumption. apply gsb_refl_inv; try reflexivity; exact Cz. }
  assert (Q3 : forall (la lc : list (list Z * val)),
            Forall (fun x => inv x = true) (map snd la) -> Forall (fun x => inv x = true) (map snd lc) ->
            all2 (fun p q => str_eqb (fst p) (fst q) && gsb (snd p) (snd q)) la lc = true ->
            Forall2 prel (map (fun p : list Z * val => (VStr (fst p), snd p)) la) (map (fun p : list Z * val => (VStr (fst p), snd p)) lc)).
  { induction la as [|[ka a] la IHl]; intros [|[kc c] lc] Fa Fc H; simpl in *; try discriminate; [constructor|].
    apply andb_true_iff in H as [H1 H2]. apply andb_true_iff in H1 as [Hk Hv].
    inversion Fa; inversion Fc; subst. constructor; [|apply IHl; assumption].
    unfold prel. cbn [fst snd]. repeat split; try assumption; try (simpl; exact Hk). }
  rewrite (inv_is_known _ IA) in K.
  destruct xA; try discriminate K; simpl in G; destruct xC; try discriminate G; try (simpl; constructor).
  - apply andb_true_iff in G as [_ G]. simpl. apply Q; [apply (Forall_inv_list _ _ IA)|apply (Forall_inv_list _ _ IC)|exact G].
  - apply andb_true_iff in G as [_ G]. simpl.
    assert (Q2 : forall la lc, Forall (fun x => inv x = true) la -> Forall (fun x => inv x = true) lc -> all2 gsb la lc = true ->
              Forall2 prel (map (fun x => (x, x)) la) (map (fun x => (x, x)) lc)).
    { clear. induction la as [|a la IHl]; intros [|c lc] Fa Fc H; simpl in *; try discriminate; [constructor|].
      apply andb_true_iff in H as [H1 H2]. inversion Fa; inversion Fc; subst. constructor; [|apply IHl; assumption].
      unfold prel. cbn [fst snd]. auto 10. }
    apply Q2; [apply (Forall_inv_list t _ IA)|apply (Forall_inv_list t0 _ IC)|exact G].
  - apply andb_true_iff in G as [_ G]. simpl.
    apply Q3; [apply (Forall_inv_map _ _ IA)|apply (Forall_inv_map _ _ IC)|exact G].
  - simpl. apply Q; [apply (Forall_inv_tuple _ IA)|apply (Forall_inv_tuple _ IC)|exact G].
  - simpl.
    apply Q3; [apply (Forall_inv_obj _ IA)|apply (Forall_inv_obj _ IC)|exact G].
Qed.

Lemma for_probe_ok ev bind conde ds0 :
  (forall ce, conde = Some ce -> inv (fst (ev (bind dyn_val dyn_val) ce)) = true) ->
  match for_probe ev bind conde ds0 with
  | inr r => diag_ok (snd r) = false
  | inl (mk, _) => mk = []
  end.
Proof.
  intros Hp. unfold for_probe. destruct conde as [ce|]; [|reflexivity].
  pose proof (Hp ce eq_refl) as Ir. destruct (ev (bind dyn_val dyn_val) ce) as [r cds]. cbn [fst] in Ir.
  destruct (is_null r); [cbn [snd]; rewrite diag_ok_app; apply andb_false_r|].
  destruct (conv r TBool); try (cbn [snd]; rewrite diag_ok_app; apply andb_false_r).
  destruct (has_errors cds) eqn:He; [|apply inv_marks_of; exact Ir].
  cbn [snd]. rewrite diag_ok_app. unfold diag_ok at 2. rewrite He. apply andb_false_r.
Qed.

Lemma kvrel_groups ga gc : kvrel (all2 gsb) ga gc = true ->
  kvrel gsb (map (fun p : list Z * list val => (fst p, VTuple (snd p))) ga)
            (map (fun p : list Z * list val => (fst p, VTuple (snd p))) gc) = true.
Proof.
  unfold kvrel. revert gc. induction ga as [|[k l] r IH]; intros [|[k' l'] r'] H; simpl in *; try discriminate; [reflexivity|].
  apply andb_true_iff in H as [H1 H2]. rewrite H1. simpl. apply IH. exact H2.
Qed.

Section Loops.
  Variables (clA clC : ctx -> expr -> bool).
  Variables (evA evC : ctx -> expr -> val * list diag).
  Variables (bindA bindC : val -> val -> ctx).
  Variables (keye : option expr) (vale : expr) (conde : option expr) (group : bool).

  Hypothesis Hpair : forall a c e, prel a c -> for_sub keye vale conde e ->
    clA (bindA (fst a) (snd a)) e = true -> clC (bindC (fst c) (snd c)) e = true ->
    inv (fst (evA (bindA (fst a) (snd a)) e)) = true /\ inv (fst (evC (bindC (fst c) (snd c)) e)) = true /\
    gsb (fst (evA (bindA (fst a) (snd a)) e)) (fst (evC (bindC (fst c) (snd c)) e)) = true.
  Hypothesis HselfC : forall a c e, prel a c -> for_sub keye vale conde e ->
    clC (bindC (fst c) (snd c)) e = true ->
    inv (fst (evC (bindC (fst c) (snd c)) e)) = true /\ wholly_known (fst (evC (bindC (fst c) (snd c)) e)) = true.
  (* invariants hold whatever is evaluated *)
  Hypothesis HinvA : forall a e, inv (fst a) = true -> inv (snd a) = true -> for_sub keye vale conde e ->
    inv (fst (evA (bindA (fst a) (snd a)) e)) = true.
  Hypothesis HinvC : forall c e, inv (fst c) = true -> inv (snd c) = true -> for_sub keye vale conde e ->
    inv (fst (evC (bindC (fst c) (snd c)) e)) = true.

  Lemma for_dec_pair a c : prel a c ->
    elem_clean clA evA bindA keye vale conde a = true -> elem_clean clC evC bindC keye vale conde c = true ->
    forall x y, for_dec evA bindA conde a = Some x -> for_dec evC bindC conde c = Some y -> x = y.
  Proof.
    intros P KA KC x y. unfold for_dec. destruct conde as [ce|] eqn:Ec; [|congruence].
    assert (Fs : for_sub keye vale (Some ce) ce) by (right; right; reflexivity).
    destruct (Hpair a c ce P Fs (elem_clean_cond _ _ _ _ _ _ _ _ KA eq_refl) (elem_clean_cond _ _ _ _ _ _ _ _ KC eq_refl)) as [Ia [Ic G]].
    apply (cond_dec_gs _ _ x y Ia Ic G).
  Qed.

  Lemma for_dec_C a c : prel a c -> elem_clean clC evC bindC keye vale conde c = true ->
    match conde with Some ce => cond_unk (fst (evC (bindC (fst c) (snd c)) ce)) | None => false end = false.
  Proof.
    intros P KC. destruct conde as [ce|] eqn:Ec; [|reflexivity].
    assert (Fs : for_sub keye vale (Some ce) ce) by (right; right; reflexivity).
    destruct (HselfC a c ce P Fs (elem_clean_cond _ _ _ _ _ _ _ _ KC eq_refl)) as [I W]. apply cond_unk_wk; assumption.
  Qed.

  Lemma ofor_pair_step ke a c stA stC : keye = Some ke -> prel a c ->
    elem_clean clA evA bindA keye vale conde a = true -> elem_clean clC evC bindC keye vale conde c = true ->
    orel (ofor_core stA) (ofor_core stC) ->
    diag_ok (ofor_ds (ofor_step evC bindC vale conde group ke stC c)) = true ->
    orel (ofor_core (ofor_step evA bindA vale conde group ke stA a)) (ofor_core (ofor_step evC bindC vale conde group ke stC c)).
  Proof.
    intros Ek P KA KC R DC. rewrite !ofor_step_core.
    assert (KnC : snd (ofor_core stC) = true).
    { destruct stA as [[[[? ?] ?] ?] ?], stC as [[[[? ?] ?] ?] ?]. simpl in R |- *. tauto. }
    destruct (ofor_step_diag evC bindC vale conde group ke stC c KnC DC) as [D1 D2].
    assert (FsK : for_sub keye vale conde ke) by (left; exact Ek).
    assert (FsV : for_sub keye vale conde vale) by (right; left; reflexivity).
    assert (IcA : forall ce, conde = Some ce -> inv (fst (evA (bindA (fst a) (snd a)) ce)) = true).
    { intros ce E. apply (HinvA a ce); [apply P|apply P|]. right; right; exact E. }
    assert (IcC : forall ce, conde = Some ce -> inv (fst (evC (bindC (fst c) (snd c)) ce)) = true).
    { intros ce E. apply (HinvC c ce); [apply P|apply P|]. right; right; exact E. }
    assert (HdC : for_dec evC bindC conde c <> None).
    { intros E. specialize (D1 E). rewrite (for_dec_C a c P KC) in D1. discriminate. }
    assert (HkC : for_dec evC bindC conde c = Some true -> key_dec (fst (evC (bindC (fst c) (snd c)) ke)) <> None).
    { intros E E2. specialize (D2 E E2).
      pose proof (elem_clean_pass _ _ _ _ _ _ _ KC E IcC) as Hp. rewrite Ek in Hp. apply andb_true_iff in Hp as [Hp _].
      destruct (HselfC a c ke P FsK Hp) as [I W]. rewrite (key_unk_wk _ I W) in D2. discriminate. }
    assert (Hd : forall x, for_dec evA bindA conde a = Some x -> for_dec evC bindC conde c = Some x).
    { intros x E. destruct (for_dec evC bindC conde c) as [y|] eqn:EC; [|contradiction HdC; reflexivity].
      rewrite (for_dec_pair a c P KA KC x y E EC). reflexivity. }
    apply ostep_core_rel; try assumption.
    intros EA ks EkA. pose proof (Hd _ EA) as EC.
    pose proof (elem_clean_pass _ _ _ _ _ _ _ KA EA IcA) as HpA. rewrite Ek in HpA. apply andb_true_iff in HpA as [HkA HvA].
    pose proof (elem_clean_pass _ _ _ _ _ _ _ KC EC IcC) as HpC. rewrite Ek in HpC. apply andb_true_iff in HpC as [HkC' HvC].
    destruct (Hpair a c ke P FsK HkA HkC') as [IkA [IkC Gk]].
    destruct (key_dec (fst (evC (bindC (fst c) (snd c)) ke))) as [ks'|] eqn:EkC; [|contradiction (HkC EC); reflexivity].
    rewrite (key_dec_gs _ _ ks ks' IkA IkC Gk EkA EkC). split; [reflexivity|].
    destruct (key_dec_shape _ _ IkA EkA) as [_ [_ [KkA _]]]. destruct (key_dec_shape _ _ IkC EkC) as [_ [_ [KkC _]]].
    rewrite KkA in HvA. rewrite KkC in HvC.
    destruct (Hpair a c vale P FsV HvA HvC) as [_ [_ G]]. exact G.
  Qed.

  Lemma ofor_fold_rel ke : forall la lc stA stC,
    Forall2 prel la lc ->
    Forall (fun a => elem_clean clA evA bindA keye vale conde a = true) la ->
    Forall (fun c => elem_clean clC evC bindC keye vale conde c = true) lc ->
    orel (ofor_core stA) (ofor_core stC) ->
    diag_ok (ofor_ds (fold_left (ofor_step evC bindC vale conde group ke) lc stC)) = true ->
    keye = Some ke ->
    orel (ofor_core (fold_left (ofor_step evA bindA vale conde group ke) la stA))
         (ofor_core (fold_left (ofor_step evC bindC vale conde group ke) lc stC)).
  Proof.
    induction la as [|a la IH]; intros lc stA stC F2 FA FC R DC; inversion F2; subst; [intros _; exact R|].
    inversion FA; inversion FC; subst. intros Ek. simpl in DC |- *. apply IH; try assumption.
    apply ofor_pair_step; try assumption.
    apply (fold_ds_ok _ ofor_ds (ofor_step_mono evC bindC vale conde group ke) _ _ DC).
  Qed.

  Lemma tfor_pair_step a c stA stC : keye = None -> prel a c ->
    elem_clean clA evA bindA keye vale conde a = true -> elem_clean clC evC bindC keye vale conde c = true ->
    trel (tfor_core stA) (tfor_core stC) ->
    diag_ok (tfor_ds (tfor_step evC bindC vale conde stC c)) = true ->
    trel (tfor_core (tfor_step evA bindA vale conde stA a)) (tfor_core (tfor_step evC bindC vale conde stC c)).
  Proof.
    intros Ek P KA KC R DC. rewrite !tfor_step_core.
    assert (KnC : snd (tfor_core stC) = true).
    { destruct stA as [[[? ?] ?] ?], stC as [[[? ?] ?] ?]. simpl in R |- *. tauto. }
    pose proof (tfor_step_diag evC bindC vale conde stC c KnC DC) as D1.
    assert (FsV : for_sub keye vale conde vale) by (right; left; reflexivity).
    assert (IcA : forall ce, conde = Some ce -> inv (fst (evA (bindA (fst a) (snd a)) ce)) = true).
    { intros ce E. apply (HinvA a ce); [apply P|apply P|]. right; right; exact E. }
    assert (IcC : forall ce, conde = Some ce -> inv (fst (evC (bindC (fst c) (snd c)) ce)) = true).
    { intros ce E. apply (HinvC c ce); [apply P|apply P|]. right; right; exact E. }
    assert (EtA : for_dec_t evA bindA conde a = for_dec evA bindA conde a).
    { unfold for_dec_t, for_dec. destruct conde as [ce|]; [|reflexivity]. apply cond_dec_t_eq. apply IcA. reflexivity. }
    assert (EtC : for_dec_t evC bindC conde c = for_dec evC bindC conde c).
    { unfold for_dec_t, for_dec. destruct conde as [ce|]; [|reflexivity]. apply cond_dec_t_eq. apply IcC. reflexivity. }
    assert (HdC : for_dec_t evC bindC conde c <> None).
    { intros E. specialize (D1 E). destruct conde as [ce|] eqn:Ec; [|discriminate]. cbv zeta in D1.
      assert (Fs : for_sub keye vale (Some ce) ce) by (right; right; reflexivity).
      destruct (HselfC a c ce P Fs (elem_clean_cond _ _ _ _ _ _ _ _ KC eq_refl)) as [I W].
      rewrite (wk_is_known _ I W), andb_false_r in D1. discriminate. }
    assert (Hd : forall x, for_dec_t evA bindA conde a = Some x -> for_dec_t evC bindC conde c = Some x).
    { intros x E. rewrite EtA in E. rewrite EtC in HdC |- *.
      destruct (for_dec evC bindC conde c) as [y|] eqn:EC; [|contradiction HdC; reflexivity].
      rewrite (for_dec_pair a c P KA KC x y E EC). reflexivity. }
    apply tstep_core_rel; try assumption.
    intros EA. pose proof (Hd _ EA) as EC. rewrite EtA in EA. rewrite EtC in EC.
    pose proof (elem_clean_pass _ _ _ _ _ _ _ KA EA IcA) as HpA. rewrite Ek in HpA.
    pose proof (elem_clean_pass _ _ _ _ _ _ _ KC EC IcC) as HpC. rewrite Ek in HpC.
    destruct (Hpair a c vale P FsV HpA HpC) as [_ [_ G]]. exact G.
  Qed.

  Lemma tfor_fold_rel : forall la lc stA stC,
    Forall2 prel la lc ->
    Forall (fun a => elem_clean clA evA bindA keye vale conde a = true) la ->
    Forall (fun c => elem_clean clC evC bindC keye vale conde c = true) lc ->
    trel (tfor_core stA) (tfor_core stC) ->
    diag_ok (tfor_ds (fold_left (tfor_step evC bindC vale conde) lc stC)) = true ->
    keye = None ->
    trel (tfor_core (fold_left (tfor_step evA bindA vale conde) la stA))
         (tfor_core (fold_left (tfor_step evC bindC vale conde) lc stC)).
  Proof.
    induction la as [|a la IH]; intros lc stA stC F2 FA FC R DC; inversion F2; subst; [intros _; exact R|].
    inversion FA; inversion FC; subst. intros Ek. simpl in DC |- *. apply IH; try assumption.
    apply tfor_pair_step; try assumption.
    apply (fold_ds_ok _ tfor_ds (tfor_step_mono evC bindC vale conde) _ _ DC).
  Qed.

  Lemma for_tail_gs cvA cvC dsA dsC :
    inv cvA = true -> inv cvC = true -> gsb cvA cvC = true ->
    (forall ce, conde = Some ce -> inv (fst (evA (bindA dyn_val dyn_val) ce)) = true) ->
    (forall ce, conde = Some ce -> inv (fst (evC (bindC dyn_val dyn_val) ce)) = true) ->
    (if is_null cvA || ty_eqb (type_of cvA) TDyn || negb (can_iterate cvA) || negb (is_known cvA) then true
     else forallb (elem_clean clA evA bindA keye vale conde) (elements cvA)) = true ->
    (if is_null cvC || ty_eqb (type_of cvC) TDyn || negb (can_iterate cvC) || negb (is_known cvC) then true
     else forallb (elem_clean clC evC bindC keye vale conde) (elements cvC)) = true ->
    diag_ok (snd (for_tail evA bindA keye vale conde group cvA dsA)) = true ->
    diag_ok (snd (for_tail evC bindC keye vale conde group cvC dsC)) = true ->
    (fst (for_tail evA bindA keye vale conde group cvA dsA) = dyn_val \/
     gsb (fst (for_tail evA bindA keye vale conde group cvA dsA)) (fst (for_tail evC bindC keye vale conde group cvC dsC)) = true) /\
    (is_known cvA = true -> ty_eqb (type_of cvA) TDyn = false ->
     fst (for_tail evC bindC keye vale conde group cvC dsC) <> dyn_val).
  Proof.
    intros IA IC G PA PC CA CC DA DC. pose proof (gsb_wk _ _ G) as WC.
    unfold for_tail in DA, DC |- *.
    (* the concrete side: a known collection *)
    rewrite (inv_is_null _ IC) in CC.
    destruct (null_shape cvC) eqn:NC; [kill DC|].
    pose proof (wk_type_not_dyn cvC WC (inv_not_marked _ IC) NC) as TC. apply ty_eqb_neq in TC. rewrite TC in DC, CC |- *.
    destruct (can_iterate cvC) eqn:ItC; cbn [negb] in DC, CC |- *; [|kill DC].
    pose proof (for_probe_ok evC bindC conde dsC PC) as PrC.
    destruct (for_probe evC bindC conde dsC) as [[mkC ds1C]|rC]; [|rewrite DC in PrC; discriminate]. subst mkC.
    rewrite (wk_is_known _ IC WC) in DC, CC |- *. cbn [negb orb] in DC, CC |- *.
    (* the abstract side *)
    rewrite (inv_is_null _ IA) in CA.
    destruct (null_shape cvA) eqn:NA; [kill DA|].
    destruct (ty_eqb (type_of cvA) TDyn) eqn:TA.
    { split; [left; reflexivity|intros _ H; discriminate H]. }
    destruct (can_iterate cvA) eqn:ItA; cbn [negb] in DA, CA |- *; [|kill DA].
    pose proof (for_probe_ok evA bindA conde dsA PA) as PrA.
    destruct (for_probe evA bindA conde dsA) as [[mkA ds1A]|rA]; [|rewrite DA in PrA; discriminate]. subst mkA.
    destruct (is_known cvA) eqn:KnA; cbn [negb orb] in DA, CA |- *.
    2:{ split; [left; reflexivity|intros H; discriminate H]. }
    pose proof (elements_prel cvA cvC IA IC G KnA) as F2.
    apply forallb_Forall in CA. apply forallb_Forall in CC.
    assert (HiA : forall kv e, In kv (elements cvA) -> for_sub keye vale conde e -> inv (fst (evA (bindA (fst kv) (snd kv)) e)) = true).
    { intros kv e Hin He. destruct (elements_inv _ _ IA Hin). apply HinvA; assumption. }
    assert (HiC : forall kv e, In kv (elements cvC) -> for_sub keye vale conde e -> inv (fst (evC (bindC (fst kv) (snd kv)) e)) = true).
    { intros kv e Hin He. destruct (elements_inv _ _ IC Hin). apply HinvC; assumption. }
    assert (Ek : (exists ke, keye = Some ke) \/ keye = None) by (destruct keye; [left; eexists; reflexivity|right; reflexivity]).
    destruct Ek as [[ke Ek]|Ek]; rewrite Ek in DA, DC, HiA, HiC |- *.
    - set (FA := fold_left (ofor_step evA bindA vale conde group ke) (elements cvA) ([], [], [[]], true, ds1A)) in *.
      set (FC := fold_left (ofor_step evC bindC vale conde group ke) (elements cvC) ([], [], [[]], true, ds1C)) in *.
      assert (DfC : diag_ok (ofor_ds FC) = true).
      { destruct FC as [[[[v g] m] k] d]. cbn [ofor_ds]. destruct (negb k); exact DC. }
      assert (R : orel (ofor_core FA) (ofor_core FC)).
      { apply ofor_fold_rel; try assumption. simpl. auto. }
      assert (VA : ofor_iv FA).
      { apply fold_iv; [|cbn [ofor_iv]; repeat split; repeat constructor].
        intros st kv Hin Hs. apply ofor_step_iv; [|exact Hs]. intros e He. apply HiA; assumption. }
      assert (VC : ofor_iv FC).
      { apply fold_iv; [|cbn [ofor_iv]; repeat split; repeat constructor].
        intros st kv Hin Hs. apply ofor_step_iv; [|exact Hs]. intros e He. apply HiC; assumption. }
      destruct FA as [[[[valsA groupsA] mksA] knownA] dA]. destruct FC as [[[[valsC groupsC] mksC] knownC] dC].
      cbn [ofor_core orel] in R. destruct R as [-> R]. destruct VA as [_ [_ MA]]. destruct VC as [_ [_ MC]].
      rewrite (marks_unions_nil _ MA), (marks_unions_nil _ MC). cbn [negb with_marks fst].
      split; [|intros _ _ H; discriminate H].
      destruct knownA; cbn [negb fst]; [right|left; reflexivity].
      destruct (R eq_refl) as [Rv Rg]. cbn [gsb]. destruct group; [apply kvrel_groups; exact Rg|exact Rv].
    - set (FA := fold_left (tfor_step evA bindA vale conde) (elements cvA) ([], [[]], true, ds1A)) in *.
      set (FC := fold_left (tfor_step evC bindC vale conde) (elements cvC) ([], [[]], true, ds1C)) in *.
      assert (DfC : diag_ok (tfor_ds FC) = true).
      { destruct FC as [[[v m] k] d]. cbn [tfor_ds]. destruct (negb k); exact DC. }
      assert (R : trel (tfor_core FA) (tfor_core FC)).
      { apply tfor_fold_rel; try assumption. simpl. auto. }
      assert (VA : tfor_iv FA).
      { apply fold_iv; [|cbn [tfor_iv]; repeat split; repeat constructor].
        intros st kv Hin Hs. apply tfor_step_iv; [|exact Hs]. intros e He. apply HiA; assumption. }
      assert (VC : tfor_iv FC).
      { apply fold_iv; [|cbn [tfor_iv]; repeat split; repeat constructor].
        intros st kv Hin Hs. apply tfor_step_iv; [|exact Hs]. intros e He. apply HiC; assumption. }
      destruct FA as [[[valsA mksA] knownA] dA]. destruct FC as [[[valsC mksC] knownC] dC].
      cbn [tfor_core trel] in R. destruct R as [-> R]. destruct VA as [_ MA]. destruct VC as [_ MC].
      rewrite (marks_unions_nil _ MA), (marks_unions_nil _ MC). cbn [negb with_marks fst].
      split; [|intros _ _ H; discriminate H].
      destruct knownA; cbn [negb fst]; [right|left; reflexivity].
      cbn [gsb]. apply R. reflexivity.
  Qed.
End Loops.

(* ---- ForExpr.Value ---------------------------------------------------------------------------------------------- *)
Lemma for_bind_rel cA cC kvar vvar a c : ctx_rel cA cC -> prel a c ->
  ctx_rel (for_bind cA kvar vvar (fst a) (snd a)) (for_bind cC kvar vvar (fst c) (snd c)).
Proof.
  intros R [I1 [I2 [G1 [I3 [I4 G2]]]]]. unfold for_bind, child_ctx. apply CR_cons; [|exact R].
  split; [|split; [reflexivity|intros fs E; discriminate]]. cbn [fvars].
  apply Forall2_app.
  - destruct (str_eqb kvar [] || str_eqb kvar vvar); constructor; [|constructor]. repeat split; assumption.
  - constructor; [|constructor]. repeat split; assumption.
Qed.

Lemma prel_self a c : prel a c -> prel c c.
Proof.
  intros [I1 [I2 [G1 [I3 [I4 G2]]]]]. unfold prel. repeat split; try assumption.
  - apply gsb_refl_inv; [apply (gsb_wk _ _ G1)|exact I2].
  - apply gsb_refl_inv; [apply (gsb_wk _ _ G2)|exact I4].
Qed.

Lemma si_for f kvar vvar coll keye vale conde group : SI f -> forall cA cC anA anC,
  in_fragment (EFor kvar vvar coll keye vale conde group) -> ctx_rel cA cC -> anon_rel anA anC ->
  clean (S f) cA anA (EFor kvar vvar coll keye vale conde group) = true ->
  clean (S f) cC anC (EFor kvar vvar coll keye vale conde group) = true ->
  gsb (fst (ev_ (S f) cA anA (EFor kvar vvar coll keye vale conde group)))
      (fst (ev_ (S f) cC anC (EFor kvar vvar coll keye vale conde group))) = true.
Proof.
  intros IH cA cC anA anC Fr R Ra KA KC. destruct (frag_for _ _ _ _ _ _ _ Fr) as [Fc [Fk [Fv Fce]]].
  apply clean_S in KA as [DA [KA' CA]]. apply clean_S in KC as [DC [KC' CC]].
  destruct (ev_ f cA anA coll) as [cvA dsA] eqn:EA. destruct (ev_ f cC anC coll) as [cvC dsC] eqn:EC.
  destruct (sub_facts f coll cA cC anA anC _ _ _ _ IH Fc R Ra KA' KC' EA EC) as [IA [IC [G [DsA DsC]]]].
  cbn [fst] in CA, CC.
  rewrite (for_eval_eq f cA anA kvar vvar coll keye vale conde group cvA dsA EA IA) in DA |- *.
  rewrite (for_eval_eq f cC anC kvar vvar coll keye vale conde group cvC dsC EC IC) in DC |- *.
  destruct (ctx_rel_inv _ _ R) as [CiA CiC]. destruct (anon_rel_inv _ _ Ra) as [AiA AiC].
  pose proof (ctx_rel_self _ _ R) as Rs. pose proof (anon_rel_self _ _ Ra) as Ras.
  assert (Fs : forall e, for_sub keye vale conde e -> in_fragment e).
  { intros e [E|[E|E]]; [apply (Fk _ E)|subst; exact Fv|apply (Fce _ E)]. }
  (* facts about the evaluations in the child scopes *)
  assert (Hp : forall (c1 c2 : ctx) an1 an2, ctx_rel c1 c2 -> anon_rel an1 an2 -> forall a c e, prel a c -> for_sub keye vale conde e ->
            clean f (for_bind c1 kvar vvar (fst a) (snd a)) an1 e = true ->
            clean f (for_bind c2 kvar vvar (fst c) (snd c)) an2 e = true ->
            inv (fst (ev_ f (for_bind c1 kvar vvar (fst a) (snd a)) an1 e)) = true /\
            inv (fst (ev_ f (for_bind c2 kvar vvar (fst c) (snd c)) an2 e)) = true /\
            gsb (fst (ev_ f (for_bind c1 kvar vvar (fst a) (snd a)) an1 e))
                (fst (ev_ f (for_bind c2 kvar vvar (fst c) (snd c)) an2 e)) = true).
  { intros c1 c2 an1 an2 R12 Ra12 a c e P He K1 K2.
    destruct (ev_ f (for_bind c1 kvar vvar (fst a) (snd a)) an1 e) as [v1 d1] eqn:E1.
    destruct (ev_ f (for_bind c2 kvar vvar (fst c) (snd c)) an2 e) as [v2 d2] eqn:E2.
    destruct (sub_facts f e _ _ an1 an2 _ _ _ _ IH (Fs e He) (for_bind_rel c1 c2 kvar vvar a c R12 P) Ra12 K1 K2 E1 E2) as [I1 [I2 [G12 _]]].
    cbn [fst]. auto. }
  assert (Hs : forall a c e, prel a c -> for_sub keye vale conde e ->
            clean f (for_bind cC kvar vvar (fst c) (snd c)) anC e = true ->
            inv (fst (ev_ f (for_bind cC kvar vvar (fst c) (snd c)) anC e)) = true /\
            wholly_known (fst (ev_ f (for_bind cC kvar vvar (fst c) (snd c)) anC e)) = true).
  { intros a c e P He K2. destruct (Hp cC cC anC anC Rs Ras c c e (prel_self _ _ P) He K2 K2) as [I1 [_ G12]].
    split; [exact I1|apply (gsb_wk _ _ G12)]. }
  assert (Hi : forall (c1 : ctx) an1, ctx_inv c1 -> anon_inv an1 -> forall (a : val * val) e, inv (fst a) = true -> inv (snd a) = true ->
            for_sub keye vale conde e -> inv (fst (ev_ f (for_bind c1 kvar vvar (fst a) (snd a)) an1 e)) = true).
  { intros c1 an1 C1 A1 a e I1 I2 He. apply (iv_all f _ an1 e (Fs e He)); [|exact A1]. apply for_bind_inv; assumption. }
  assert (HprA : forall ce, conde = Some ce -> inv (fst (ev_ f (for_bind cA kvar vvar dyn_val dyn_val) anA ce)) = true).
  { intros ce E. apply (iv_all f _ anA ce (Fce _ E)); [|exact AiA]. apply for_bind_inv; [exact CiA|reflexivity|reflexivity]. }
  assert (HprC : forall ce, conde = Some ce -> inv (fst (ev_ f (for_bind cC kvar vvar dyn_val dyn_val) anC ce)) = true).
  { intros ce E. apply (iv_all f _ anC ce (Fce _ E)); [|exact AiC]. apply for_bind_inv; [exact CiC|reflexivity|reflexivity]. }
  (* abstract against concrete *)
  destruct (for_tail_gs (fun c' e => clean f c' anA e) (fun c' e => clean f c' anC e)
              (fun c' e => ev_ f c' anA e) (fun c' e => ev_ f c' anC e)
              (for_bind cA kvar vvar) (for_bind cC kvar vvar) keye vale conde group
              (Hp cA cC anA anC R Ra) Hs (Hi cA anA CiA AiA) (Hi cC anC CiC AiC)
              cvA cvC dsA dsC IA IC G HprA HprC CA CC DA DC) as [[E|G1] _]; [|exact G1].
  rewrite E.
  (* the abstract result is unknown: the concrete one is wholly known (concrete against itself) *)
  pose proof (gsb_wk _ _ G) as WC.
  assert (Gs : gsb cvC cvC = true) by (apply gsb_refl_inv; assumption).
  destruct (for_tail_gs (fun c' e => clean f c' anC e) (fun c' e => clean f c' anC e)
              (fun c' e => ev_ f c' anC e) (fun c' e => ev_ f c' anC e)
              (for_bind cC kvar vvar) (for_bind cC kvar vvar) keye vale conde group
              (Hp cC cC anC anC Rs Ras) Hs (Hi cC anC CiC AiC) (Hi cC anC CiC AiC)
              cvC cvC dsC dsC IC IC Gs HprC HprC CC CC DC DC) as [[E2|G2] N2].
  - exfalso. apply N2; [apply (wk_is_known _ IC WC)| |exact E2].
    apply ty_eqb_neq. apply (wk_type_not_dyn cvC WC (inv_not_marked _ IC)).
    destruct (null_shape cvC) eqn:NC; [|reflexivity]. unfold for_tail in DC. rewrite NC in DC. kill DC.
  - apply gsb_dyn_val. apply (gsb_wk _ _ G2).
Qed.
