(* Eval/UnknownSound_Call.v — C05: soundness of FunctionCallExpr.Value (ECall), without and with
   expansion of the final argument, for functions satisfying the contract [fn_ok]. *)
From Coq Require Import QArith Qreduction.
From HclV Require Import Base.Prelude Cty.Values Cty.Convert Cty.Ops Eval.Impl Eval.Funcs
                         Eval.UnknownSound_Base Eval.UnknownSound_Known Eval.UnknownSound_Gamma
                         Eval.UnknownSound_Conv Eval.UnknownSound_Conv2 Eval.UnknownSound_Ops
                         Eval.UnknownSound_Num Eval.UnknownSound_Cond Eval.UnknownSound_Eq Eval.UnknownSound_Fn
                         Eval.UnknownSound_Frag Eval.UnknownSound_Inv Eval.UnknownSound_Core.
Open Scope Z_scope.
Local Strategy opaque [equals val_size unmark_deep deep_marks unify_n convert].
Notation ev_ := (eval_with index).

(* ---- conversion of an argument to the declared parameter type ---------------------------------------------- *)
Lemma conv_simple_gs t a c a' c' : is_prim t || ty_eqb t TDyn = true ->
  inv a = true -> inv c = true -> gsb a c = true ->
  conv a t = COk a' -> conv c t = COk c' -> gsb a' c' = true.
Proof.
  intros Hs Ia Ic G EA EC. apply orb_true_iff in Hs as [Hp|Hd].
  - apply (conv_gs_prim a c t a' c' Hp Ia Ic G EA EC).
  - apply ty_eqb_eq in Hd. subst t. rewrite (conv_dyn_id a a' Ia EA), (conv_dyn_id c c' Ic EC). exact G.
Qed.

Lemma param_for_simple f i p : fn_ok f -> param_for f i = Some p -> param_simple p = true.
Proof.
  intros Ok E. destruct (fo_params f Ok) as [Hp Hv]. unfold param_for in E.
  destruct (nth_opt (f_params f) i) eqn:En.
  - injection E as <-. apply nth_opt_In in En. rewrite Forall_forall in Hp. auto.
  - auto.
Qed.

(* ---- the argument fold ---------------------------------------------------------------------------------------- *)
Lemma call_step_parts fnv ev st ia : diag_ok (snd (call_step fnv ev st ia)) = true ->
  diag_ok (snd st) = true /\ diag_ok (snd (ev (snd ia))) = true /\
  exists p v', param_for fnv (fst ia) = Some p /\ conv (fst (ev (snd ia))) (p_ty p) = COk v' /\
               call_step fnv ev st ia = (fst st ++ [v'], snd st ++ snd (ev (snd ia))).
Proof.
  destruct st as [vals ds]. unfold call_step. destruct (ev (snd ia)) as [v ads]. cbn [fst snd]. intros D.
  destruct (param_for fnv (fst ia)) as [p|].
  - destruct (conv v (p_ty p)) as [v'| |] eqn:Ec; cbn [snd] in D.
    + rewrite diag_ok_app in D. apply andb_true_iff in D as [D1 D2]. repeat split; try assumption.
      exists p, v'. auto.
    + rewrite !diag_ok_app, andb_false_r in D. discriminate.
    + rewrite !diag_ok_app, andb_false_r in D. discriminate.
  - cbn [snd] in D. rewrite !diag_ok_app, andb_false_r in D. discriminate.
Qed.

Lemma call_step_mono fnv ev st ia : diag_ok (snd (call_step fnv ev st ia)) = true -> diag_ok (snd st) = true.
Proof. intros D. apply (call_step_parts fnv ev st ia D). Qed.

(* what is known about a pair of argument expressions *)
Definition pair_item (evA evC : expr -> val * list diag) (eA eC : expr) : Prop :=
  diag_ok (snd (evA eA)) = true -> diag_ok (snd (evC eC)) = true ->
  inv (fst (evA eA)) = true /\ inv (fst (evC eC)) = true /\ gsb (fst (evA eA)) (fst (evC eC)) = true.

Definition call_rel (fnv : fn) (k0 : nat) (stA stC : list val * list diag) : Prop :=
  length (fst stA) = k0 /\ length (fst stC) = k0 /\
  Forall2 (fun a c => gsb a c = true) (fst stA) (fst stC) /\
  Forall (fun a => inv a = true) (fst stA) /\ Forall (fun a => inv a = true) (fst stC) /\
  Forall2 (arg_ok fnv) (seq 0 k0) (fst stC).

Lemma call_fold_rel fnv evA evC : fn_ok fnv -> forall argsA argsC,
  Forall2 (pair_item evA evC) argsA argsC -> forall k0 stA stC,
  call_rel fnv k0 stA stC ->
  diag_ok (snd (fold_left (call_step fnv evA) (combine (seq k0 (length argsA)) argsA) stA)) = true ->
  diag_ok (snd (fold_left (call_step fnv evC) (combine (seq k0 (length argsC)) argsC) stC)) = true ->
  call_rel fnv (k0 + length argsA)
    (fold_left (call_step fnv evA) (combine (seq k0 (length argsA)) argsA) stA)
    (fold_left (call_step fnv evC) (combine (seq k0 (length argsC)) argsC) stC).
Proof.
  intros Ok argsA argsC F. induction F as [|eA eC argsA argsC Hp _ IH]; intros k0 stA stC R DA DC.
  - simpl. rewrite Nat.add_0_r. exact R.
  - simpl in DA, DC |- *.
    pose proof (fold_ds_ok (call_step fnv evA) snd (call_step_mono fnv evA) _ _ DA) as DsA.
    pose proof (fold_ds_ok (call_step fnv evC) snd (call_step_mono fnv evC) _ _ DC) as DsC.
    destruct (call_step_parts fnv evA stA (k0, eA) DsA) as [_ [DeA [pA [vA' [EpA [EcA EsA]]]]]].
    destruct (call_step_parts fnv evC stC (k0, eC) DsC) as [_ [DeC [pC [vC' [EpC [EcC EsC]]]]]].
    cbn [fst snd] in *. rewrite EpA in EpC. injection EpC as <-.
    destruct (Hp DeA DeC) as [IA [IC G]].
    replace (k0 + S (length argsA))%nat with (S k0 + length argsA)%nat by lia.
    apply IH; try assumption. rewrite EsA, EsC.
    destruct R as [LA [LC [Gv [IvA [IvC AC]]]]]. unfold call_rel. cbn [fst].
    pose proof (param_for_simple fnv k0 pA Ok EpA) as Hs. unfold param_simple in Hs.
    pose proof (conv_simple_gs _ _ _ _ _ Hs IA IC G EcA EcC) as G'.
    pose proof (conv_inv_pres _ _ _ IA EcA) as IA'. pose proof (conv_inv_pres _ _ _ IC EcC) as IC'.
    repeat split.
    + rewrite app_length. simpl. lia.
    + rewrite app_length. simpl. lia.
    + apply Forall2_app; [exact Gv|repeat constructor; exact G'].
    + apply Forall_app. split; [exact IvA|repeat constructor; exact IA'].
    + apply Forall_app. split; [exact IvC|repeat constructor; exact IC'].
    + rewrite seq_S. apply Forall2_app; [exact AC|]. constructor; [|constructor]. simpl. split.
      * apply inv_good; [exact IC'|]. apply (gsb_wk _ _ G').
      * intros p' Ep' T. rewrite EpA in Ep'. injection Ep' as <-. unfold conv in EcC. apply (convert_dyn_type _ _ _ _ EcC T).
Qed.

(* ---- the call after the (optional) expansion -------------------------------------------------------------------- *)
(* copy of Impl.v, ECall, the [inl (args', ds0, emk)] branch with emk = [] *)
Definition call_tail (fnv : fn) (name : list Z) (ev : expr -> val * list diag) (args' : list expr) (ds0 : list diag)
  : val * list diag :=
  let np := length (f_params fnv) in
  if (length args' <? np)%nat then (dyn_val, [derr S_NotEnoughArgs [FStr name []]])
  else if (match f_varparam fnv with None => true | Some _ => false end) && (np <? length args')%nat
  then (dyn_val, [derr S_TooManyArgs [FStr name []]])
  else
  let '(argvals, ds) := fold_left (call_step fnv ev) (combine (seq 0 (length args')) args') ([], ds0) in
  if has_errors ds then (dyn_val, ds)
  else if has_unsupported ds then (dyn_val, ds)
  else match fn_call fnv argvals with
       | CallOk v => (v, ds)
       | CallArgErr i => (dyn_val, ds ++ [derr S_InvalidFuncArg []])
       | CallErr => (dyn_val, ds ++ [derr S_ErrorInCall [FStr name []]])
       | CallUnsupported => (dyn_val, ds ++ [dunsupported])
       end.

Lemma call_tail_gs fnv name evA evC argsA argsC dsA0 dsC0 : fn_ok fnv ->
  Forall2 (pair_item evA evC) argsA argsC ->
  diag_ok (snd (call_tail fnv name evA argsA dsA0)) = true ->
  diag_ok (snd (call_tail fnv name evC argsC dsC0)) = true ->
  gsb (fst (call_tail fnv name evA argsA dsA0)) (fst (call_tail fnv name evC argsC dsC0)) = true.
Proof.
  intros Ok F DA DC.
  unfold call_tail in DA, DC |- *. cbv zeta in DA, DC |- *.
  destruct (length argsA <? length (f_params fnv))%nat; [discriminate DA|].
  destruct (length argsC <? length (f_params fnv))%nat; [discriminate DC|].
  match type of DA with context [if ?cnd then _ else _] => destruct cnd end; [discriminate DA|].
  match type of DC with context [if ?cnd then _ else _] => destruct cnd end; [discriminate DC|].
  assert (R0 : call_rel fnv 0 ([], dsA0) ([], dsC0)) by (repeat split; constructor).
  pose proof (call_fold_rel fnv evA evC Ok argsA argsC F 0%nat ([], dsA0) ([], dsC0) R0) as Hr.
  destruct (fold_left (call_step fnv evA) (combine (seq 0 (length argsA)) argsA) ([], dsA0)) as [avA dsA].
  destruct (fold_left (call_step fnv evC) (combine (seq 0 (length argsC)) argsC) ([], dsC0)) as [avC dsC].
  assert (DfA : diag_ok dsA = true).
  { destruct (has_errors dsA) eqn:He; [cbn [snd] in DA; rewrite (diag_ok_has_errors _ He) in DA; discriminate|].
    destruct (has_unsupported dsA) eqn:Hu; [cbn [snd] in DA; rewrite (diag_ok_has_unsupported _ Hu) in DA; discriminate|].
    apply diag_ok_intro; assumption. }
  assert (DfC : diag_ok dsC = true).
  { destruct (has_errors dsC) eqn:He; [cbn [snd] in DC; rewrite (diag_ok_has_errors _ He) in DC; discriminate|].
    destruct (has_unsupported dsC) eqn:Hu; [cbn [snd] in DC; rewrite (diag_ok_has_unsupported _ Hu) in DC; discriminate|].
    apply diag_ok_intro; assumption. }
  destruct (Hr DfA DfC) as [LA [LC [Gv [IvA [IvC AC]]]]]. cbn [fst snd] in *.
  destruct (diag_ok_elim _ DfA) as [HeA HuA]. destruct (diag_ok_elim _ DfC) as [HeC HuC].
  rewrite HeA, HuA in DA |- *. rewrite HeC, HuC in DC |- *.
  destruct (fn_call fnv avA) as [vA| | |] eqn:EA; try (kill DA).
  destruct (fn_call fnv avC) as [vC| | |] eqn:EC; try (kill DC).
  cbn [fst]. rewrite <- LC in AC.
  apply (fn_contract_mono fnv Ok avA avC vA vC IvA IvC Gv AC EA EC).
Qed.

Lemma pair_item_self evA evC eA eC : pair_item evA evC eA eC -> diag_ok (snd (evA eA)) = true -> pair_item evC evC eC eC.
Proof.
  intros H DA DC _. destruct (H DA DC) as [_ [IC G]]. repeat split; try assumption.
  apply gsb_refl_inv; [apply (gsb_wk _ _ G)|exact IC].
Qed.

Lemma all2_elements_gs xA xC : inv xA = true -> inv xC = true -> gsb xA xC = true ->
  match xA with VList _ _ | VSet _ _ | VTuple _ => true | _ => false end = true ->
  Forall2 (fun a c => inv (snd a) = true /\ inv (snd c) = true /\ gsb (snd a) (snd c) = true) (elements xA) (elements xC).
Proof.
  intros IA IC G Sh.
  assert (Q : forall la lc z, Forall (fun x => inv x = true) la -> Forall (fun x => inv x = true) lc -> all2 gsb la lc = true ->
            Forall2 (fun a c : val * val => inv (snd a) = true /\ inv (snd c) = true /\ gsb (snd a) (snd c) = true)
                    (index_from z la) (index_from z lc)).
  { induction la as [|a la IHl]; intros [|c lc] z Fa Fc H; simpl in *; try discriminate; [constructor|].
    apply andb_true_iff in H as [H1 H2]. inversion Fa; inversion Fc; subst. constructor; [simpl; auto|apply IHl; assumption]. }
  destruct xA; try discriminate Sh; simpl in G; destruct xC; try discriminate G.
  - apply andb_true_iff in G as [_ G]. simpl. apply Q; [apply (Forall_inv_list _ _ IA)|apply (Forall_inv_list _ _ IC)|exact G].
  - apply andb_true_iff in G as [_ G]. simpl.
    assert (Q2 : forall la lc, Forall (fun x => inv x = true) la -> Forall (fun x => inv x = true) lc -> all2 gsb la lc = true ->
              Forall2 (fun a c : val * val => inv (snd a) = true /\ inv (snd c) = true /\ gsb (snd a) (snd c) = true)
                      (map (fun x => (x, x)) la) (map (fun x => (x, x)) lc)).
    { clear. induction la as [|a la IHl]; intros [|c lc] Fa Fc H; simpl in *; try discriminate; [constructor|].
      apply andb_true_iff in H as [H1 H2]. inversion Fa; inversion Fc; subst. constructor; [simpl; auto|apply IHl; assumption]. }
    apply Q2; [apply (Forall_inv_list t _ IA)|apply (Forall_inv_list t0 _ IC)|exact G].
  - simpl. apply Q; [apply (Forall_inv_tuple _ IA)|apply (Forall_inv_tuple _ IC)|exact G].
Qed.

Lemma ev_lit_pair f cA cC anA anC a c : inv a = true -> inv c = true -> gsb a c = true ->
  pair_item (ev_ f cA anA) (ev_ f cC anC) (ELit a) (ELit c).
Proof.
  intros Ia Ic G DA DC. destruct f; [discriminate DA|]. cbn [eval_with fst]. auto.
Qed.

Ltac em_fix DA kA HkA xvA :=
  match type of DA with
  | context [kA (?a, ?b, ?m)] =>
      let Em := fresh "Em" in
      assert (Em : m = []) by (destruct (elements xvA); reflexivity);
      rewrite Em in DA |- *; rewrite HkA in DA |- *
  end.

Lemma si_call f name args expand : SI f -> forall cA cC anA anC,
  in_fragment (ECall name args expand) -> ctx_rel cA cC -> anon_rel anA anC ->
  clean (S f) cA anA (ECall name args expand) = true -> clean (S f) cC anC (ECall name args expand) = true ->
  gsb (fst (ev_ (S f) cA anA (ECall name args expand))) (fst (ev_ (S f) cC anC (ECall name args expand))) = true.
Proof.
  intros IH cA cC anA anC Fr R Ra KA KC. pose proof (frag_call _ _ _ Fr) as Fa.
  apply clean_S in KA as [DA KA']. apply clean_S in KC as [DC KC'].
  cbn [eval_with] in DA, DC |- *.
  rewrite (lookup_fn_rel cA cC name false R) in DA |- *.
  destruct (lookup_fn cC name false) as [[fnv|] sm] eqn:El; [|destruct sm; discriminate DA].
  destruct (ctx_rel_inv _ _ R) as [_ CiC]. pose proof (lookup_fn_ok _ _ _ _ _ CiC El) as Ok.
  set (evA := ev_ f cA anA) in *. set (evC := ev_ f cC anC) in *.
  (* the original arguments *)
  assert (PF : forall e, In e args -> pair_item evA evC e e).
  { intros e Hin _ _. rewrite forallb_Forall in KA', KC'. rewrite Forall_forall in *.
    unfold evA, evC. destruct (ev_ f cA anA e) as [vA dA] eqn:EA. destruct (ev_ f cC anC e) as [vC dC] eqn:EC.
    destruct (sub_facts f e cA cC anA anC vA dA vC dC IH (Fa e Hin) R Ra (KA' e Hin) (KC' e Hin) EA EC) as [I1 [I2 [G _]]].
    auto. }
  assert (PD : forall e, In e args -> diag_ok (snd (evA e)) = true /\ diag_ok (snd (evC e)) = true).
  { intros e Hin. rewrite forallb_Forall in KA', KC'. rewrite Forall_forall in *.
    split; [apply (clean_diag_ok _ _ _ _ (KA' e Hin))|apply (clean_diag_ok _ _ _ _ (KC' e Hin))]. }
  (* both sides: the continuation after the expansion *)
  match type of DA with
  | context [match ?x with inl p => @?K p | inr r => _ end] =>
      set (kA := K) in *; set (expA := x) in *
  end.
  match type of DC with
  | context [match ?x with inl p => @?K p | inr r => _ end] =>
      set (kC := K) in *; set (expC := x) in *
  end.
  change (diag_ok (snd (match expA with inl p => kA p | inr r => r end)) = true) in DA.
  change (diag_ok (snd (match expC with inl p => kC p | inr r => r end)) = true) in DC.
  change (gsb (fst (match expA with inl p => kA p | inr r => r end)) (fst (match expC with inl p => kC p | inr r => r end)) = true).
  assert (HkA : forall args' ds0, kA (args', ds0, []) = call_tail fnv name evA args' ds0) by (intros; reflexivity).
  assert (HkC : forall args' ds0, kC (args', ds0, []) = call_tail fnv name evC args' ds0) by (intros; reflexivity).
  destruct expand.
  2: { (* no expansion *)
    unfold expA, expC in DA, DC |- *. rewrite HkA in DA |- *. rewrite HkC in DC |- *.
    apply (call_tail_gs fnv name evA evC args args [] [] Ok); try assumption.
    clear -PF. induction args as [|e r IHr]; constructor; [apply PF; left; reflexivity|].
    apply IHr. intros e' Hin. apply PF. right. exact Hin. }
  (* expansion of the final argument *)
  unfold expA, expC in DA, DC |- *.
  destruct (rev args) as [|last init_rev] eqn:Er; [discriminate DA|].
  assert (Hsplit : args = rev init_rev ++ [last]) by (rewrite <- (rev_involutive args), Er; reflexivity).
  assert (Hlast : In last args) by (rewrite Hsplit; apply in_or_app; right; left; reflexivity).
  destruct (PD last Hlast) as [DlA DlC]. destruct (PF last Hlast DlA DlC) as [IxA [IxC Gx]].
  unfold evA in DA, IxA, Gx, DlA |- *. unfold evC in DC, IxC, Gx, DlC |- *.
  destruct (ev_ f cA anA last) as [xvA xdsA]. destruct (ev_ f cC anC last) as [xvC xdsC].
  fold evA in DA |- *. fold evC in DC |- *. cbn [fst snd] in IxA, IxC, Gx, DlA, DlC.
  destruct (diag_ok_elim _ DlA) as [HeA _]. destruct (diag_ok_elim _ DlC) as [HeC _].
  rewrite HeA in DA |- *. rewrite HeC in DC |- *.
  pose proof (gsb_wk _ _ Gx) as WxC.
  assert (Finit : Forall2 (pair_item evA evC) (rev init_rev) (rev init_rev)).
  { assert (Hi : forall e, In e (rev init_rev) -> pair_item evA evC e e).
    { intros e Hin. apply PF. rewrite Hsplit. apply in_or_app. left. exact Hin. }
    clear -Hi. induction (rev init_rev) as [|e r IHr]; constructor; [apply Hi; left; reflexivity|].
    apply IHr. intros e' Hin. apply Hi. right. exact Hin. }
  assert (FinitC : Forall2 (pair_item evC evC) (rev init_rev) (rev init_rev)).
  { assert (Hi : forall e, In e (rev init_rev) -> pair_item evC evC e e).
    { intros e Hin. assert (Hin' : In e args) by (rewrite Hsplit; apply in_or_app; left; exact Hin).
      apply (pair_item_self evA evC e e (PF e Hin') (proj1 (PD e Hin'))). }
    clear -Hi. induction (rev init_rev) as [|e r IHr]; constructor; [apply Hi; left; reflexivity|].
    apply IHr. intros e' Hin. apply Hi. right. exact Hin. }
  set (lit := fun (xm : marks) (kv : val * val) => ELit (with_marks (snd kv) xm)).
  (* the concrete side expands a known sequence *)
  assert (ConC : match xvC with VList _ _ | VSet _ _ | VTuple _ => true | _ => false end = true /\
                 diag_ok (snd (call_tail fnv name evC (rev init_rev ++ map (lit []) (elements xvC)) xdsC)) = true /\
                 fst (match (match type_of xvC with
                      | TDyn => if is_null xvC then inr (dyn_val, xdsC ++ [derr S_InvalidExpand []]) else inr (with_same_marks dyn_val xvC, xdsC)
                      | TList _ | TSet _ | TTuple _ =>
                          if is_null xvC then inr (dyn_val, xdsC ++ [derr S_InvalidExpand []])
                          else if negb (is_known xvC) then inr (with_same_marks dyn_val xvC, xdsC)
                          else let '(xu, xm) := unmark xvC in
                               inl (rev init_rev ++ map (lit xm) (elements xu), xdsC, match elements xu with [] => xm | _ => [] end)
                      | _ => inr (dyn_val, xdsC ++ [derr S_InvalidExpand []])
                      end) with inl p => kC p | inr r => r end)
                 = fst (call_tail fnv name evC (rev init_rev ++ map (lit []) (elements xvC)) xdsC)).
  { unfold lit. destruct xvC; try discriminate WxC; try discriminate IxC; cbn [type_of is_null unmark fst is_known negb] in DC |- *;
      try (kill DC); try (destruct t; kill DC).
    - match type of DC with context [kC (?a, ?b, ?m)] => assert (Em : m = []) by (destruct (elements (VList t l)); reflexivity) end.
      rewrite Em in DC |- *. rewrite HkC in DC |- *. auto.
    - match type of DC with context [kC (?a, ?b, ?m)] => assert (Em : m = []) by (destruct (elements (VSet t l)); reflexivity) end.
      rewrite Em in DC |- *. rewrite HkC in DC |- *. auto.
    - match type of DC with context [kC (?a, ?b, ?m)] => assert (Em : m = []) by (destruct (elements (VTuple l)); reflexivity) end.
      rewrite Em in DC |- *. rewrite HkC in DC |- *. auto. }
  destruct ConC as [ShC [DtC EtC]].
  change (fun kv : val * val => ELit (with_marks (snd kv) ?xm)) with (lit xm) in DC |- *.
  match goal with
  | |- gsb (fst ?X) (fst ?Y) = true => change (fst Y) with (fst (match (match type_of xvC with
                      | TDyn => if is_null xvC then inr (dyn_val, xdsC ++ [derr S_InvalidExpand []]) else inr (with_same_marks dyn_val xvC, xdsC)
                      | TList _ | TSet _ | TTuple _ =>
                          if is_null xvC then inr (dyn_val, xdsC ++ [derr S_InvalidExpand []])
                          else if negb (is_known xvC) then inr (with_same_marks dyn_val xvC, xdsC)
                          else let '(xu, xm) := unmark xvC in
                               inl (rev init_rev ++ map (lit xm) (elements xu), xdsC, match elements xu with [] => xm | _ => [] end)
                      | _ => inr (dyn_val, xdsC ++ [derr S_InvalidExpand []])
                      end) with inl p => kC p | inr r => r end))
  end.
  rewrite EtC. clear EtC DC.
  set (argsC' := rev init_rev ++ map (lit []) (elements xvC)) in *.
  (* the concrete result is wholly known *)
  assert (WrC : wholly_known (fst (call_tail fnv name evC argsC' xdsC)) = true).
  { apply (gsb_wk (fst (call_tail fnv name evC argsC' xdsC))).
    apply (call_tail_gs fnv name evC evC argsC' argsC' xdsC xdsC Ok); try assumption.
    unfold argsC'. apply Forall2_app; [exact FinitC|].
    assert (Fe : Forall (fun kv : val * val => inv (snd kv) = true /\ wholly_known (snd kv) = true) (elements xvC)).
    { apply Forall_forall. intros kv Hkv. split; [apply (elements_inv xvC kv IxC Hkv)|].
      pose proof (elements_good xvC kv (inv_good _ IxC WxC) Hkv) as [_ Gk]. apply good_iff in Gk. tauto. }
    clear -Fe. induction Fe as [|kv r [Ik Wk] _ IHr]; simpl; constructor; [|exact IHr].
    unfold lit. cbn [with_marks]. unfold evC. apply ev_lit_pair; [exact Ik|exact Ik|apply gsb_refl_inv; assumption]. }
  (* the abstract side *)
  destruct (type_of xvA) eqn:TA; try (kill DA).
  1: { (* dynamic type: nothing can be said *)
    destruct (is_null xvA); [kill DA|]. rewrite (inv_with_same_marks _ _ IxA). cbn [fst].
    apply gsb_dyn_val. exact WrC. }
  all: destruct (is_null xvA) eqn:NxA; [kill DA|].
  all: destruct (negb (is_known xvA)) eqn:Kx;
         [rewrite (inv_with_same_marks _ _ IxA); cbn [fst]; apply gsb_dyn_val; exact WrC|].
  all: rewrite (inv_unmark xvA IxA) in DA |- *; cbv beta iota in DA |- *.
  all: em_fix DA kA HkA xvA.
  all: assert (ShA : match xvA with VList _ _ | VSet _ _ | VTuple _ => true | _ => false end = true)
         by (rewrite (inv_is_known _ IxA) in Kx; destruct xvA; try discriminate TA; try discriminate Kx; try discriminate IxA;
             try discriminate NxA; reflexivity).
  all: apply (call_tail_gs fnv name evA evC _ argsC' xdsA xdsC Ok); try assumption.
  all: unfold argsC'; apply Forall2_app; [exact Finit|].
  all: pose proof (all2_elements_gs xvA xvC IxA IxC Gx ShA) as Fe.
  all: clear -Fe; induction Fe as [|ka kc ra rc [Ia [Ic G]] _ IHr]; simpl; constructor; [|exact IHr].
  all: unfold lit; cbn [with_marks]; unfold evA, evC; apply ev_lit_pair; assumption.
Qed.
