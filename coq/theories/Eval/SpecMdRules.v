(* Eval/SpecMdRules.v — the conversion and unification rules AS THE PROSE OF /repo/spec.md
   STATES THEM (section "Type Conversions and Unification"), next to the go-cty rule set
   that ships (Cty/Convert.v: [conv_ok], [unify]), and the list of rule SHAPES on which the
   two differ.

   [rules_agree_or_listed] is a FINITE EXPLORATION: it is decided by vm_compute over the
   explicit list [small_types] (69 types: the primitive types and the dynamic pseudo-type,
   collections of primitives, collections of those, tuples of length <= 2 and objects over
   the attribute names {a, b} with primitive components) and lifted to "for all a, b in
   small_types".  It is NOT a theorem about all types.  Each deviation shape comes with a
   [specmd_deviation_*] lemma carrying a concrete pair of types and, in its comment, an HCL
   expression that exhibits it on the implementation. *)
From Coq Require Import QArith.
From HclV Require Import Base.Prelude Cty.Values Cty.Convert.
Open Scope Z_scope.

(* ---- conversions (type level: does a conversion exist, safe or unsafe) ----------------------- *)
Fixpoint specmd_conv_exists (fuel : nat) (a b : ty) : bool :=
  match fuel with
  | O => false
  | S f =>
      (* "A given type can always be converted to itself, which is a no-op." *)
      if ty_eqb a b then true else
      match a, b with
      (* "Conversion from the dynamic pseudo-type to any other type always succeeds";
         "Conversion of any value to the dynamic pseudo-type is a no-op." *)
      | _, TDyn | TDyn, _ => true
      (* "Bidirectional conversions are available between the string and number types, and
         between the string and boolean types."  "No direct conversion is available between
         the bool and number types." *)
      | (TNum | TBool), TStr | TStr, (TNum | TBool) => true
      (* "Conversion from set types to list types is safe, as long as their element types are
         safely convertable";  "Conversion from list types to set types is unsafe, as long as
         their element types are convertable";  same-kind collections by element type (implied
         by "Two collection types of the same kind unify according to ... their element types") *)
      | (TList x | TSet x), (TList y | TSet y) => specmd_conv_exists f x y
      | TMap x, TMap y => specmd_conv_exists f x y
      (* "Conversion from tuple types to list types permitted if all of the tuple element types
         are convertable to the target list element type";  "Conversion from tuple types to set
         types is permitted, behaving as if the tuple type was first converted to a list" *)
      | TTuple xs, (TList y | TSet y) => forallb (fun x => specmd_conv_exists f x y) xs
      (* "Conversion from object types to map types is permitted if all of the object attribute
         types are convertable to the target map element type." *)
      | TObj fs, TMap y => forallb (fun p => specmd_conv_exists f (snd p) y) fs
      (* "Conversion from list and set types to tuple types is permitted, following the opposite
         steps as the converse conversions." *)
      | (TList x | TSet x), TTuple ys => forallb (fun y => specmd_conv_exists f x y) ys
      (* "Conversion from map types to object types is permitted if each map key corresponds to
         an attribute in the target object type." *)
      | TMap x, TObj ys => forallb (fun p => specmd_conv_exists f x (snd p)) ys
      (* "Conversion from one object type to another is permitted as long as the common attribute
         names have convertable types.  Any attribute present in the target type but not in the
         source type is populated with a null value of the appropriate type." *)
      | TObj xs, TObj ys =>
          forallb (fun p => match assoc_get (fst p) xs with
                            | Some t => specmd_conv_exists f t (snd p)
                            | None => true end) ys
      (* "Conversion from one tuple type to another is permitted as long as the tuples have the
         same length and the elements have convertable types." *)
      | TTuple xs, TTuple ys =>
          (length xs =? length ys)%nat && forallb (fun p => specmd_conv_exists f (fst p) (snd p)) (combine xs ys)
      | _, _ => false
      end
  end.
Definition specmd_conv_ok (a b : ty) : bool := specmd_conv_exists (ty_size a + ty_size b) a b.

(* "A string is converted to a number value by reversing the above mapping.  No exponent portion
   is allowed." (the mapping: decimal digits, then "a period . followed by a sequence of decimal
   digits") *)
Definition specmd_str_to_num (s : list Z) : option num :=
  if existsb (fun c => (c =? 101) || (c =? 69)) s then None else str_to_num s.

(* ---- unification of two types ------------------------------------------------------------------- *)
Fixpoint merge_attrs (fuel : nat) (u : ty -> ty -> option ty) (xs ys : list (list Z * ty)) : option (list (list Z * ty)) :=
  match fuel with
  | O => None
  | S f =>
      match xs, ys with
      | [], r | r, [] => Some r
      | (k, x) :: xs', (k', y) :: ys' =>
          if str_eqb k k' then
            match u x y, merge_attrs f u xs' ys' with
            | Some t, Some r => Some ((k, t) :: r) | _, _ => None end
          else if str_ltb k k' then
            match merge_attrs f u xs' ys with Some r => Some ((k, x) :: r) | None => None end
          else
            match merge_attrs f u xs ys' with Some r => Some ((k', y) :: r) | None => None end
      end
  end.

Fixpoint specmd_unify2 (fuel : nat) (a b : ty) : option ty :=
  match fuel with
  | O => None
  | S f =>
      let checked (r : ty) : option ty :=
        (* "unification fails if any of the given types are not convertable (per the above rules)
           to the selected result type" *)
        if specmd_conv_ok a r && specmd_conv_ok b r then Some r else None in
      if ty_eqb a b then Some a else
      match a, b with
      (* "The dynamic pseudo-type unifies with any other type by selecting that other type." *)
      | TDyn, t | t, TDyn => Some t
      (* "Number and bool types both unify with string by preferring string." *)
      | (TNum | TBool), TStr | TStr, (TNum | TBool) => Some TStr
      (* "Two collection types of the same kind unify according to the unification of their
         element types." *)
      | TList x, TList y => match specmd_unify2 f x y with Some t => Some (TList t) | None => None end
      | TSet x, TSet y => match specmd_unify2 f x y with Some t => Some (TSet t) | None => None end
      | TMap x, TMap y => match specmd_unify2 f x y with Some t => Some (TMap t) | None => None end
      (* "List and set types unify by preferring the list type." *)
      | TList x, TSet _ | TSet _, TList x => checked (TList x)
      (* "Map and object types unify by preferring the object type." *)
      | TMap _, TObj fs | TObj fs, TMap _ => checked (TObj fs)
      (* "List, set and tuple types unify by preferring the tuple type." *)
      | (TList _ | TSet _), TTuple ts | TTuple ts, (TList _ | TSet _) => checked (TTuple ts)
      (* "Two object types unify by constructing a new type whose attributes are the union of those
         of the two input types.  Any common attributes themselves have their types unified." *)
      | TObj xs, TObj ys =>
          match merge_attrs (S (length xs + length ys)) (specmd_unify2 f) xs ys with
          | Some r => checked (TObj r) | None => None end
      (* "Two tuple types of the same length unify constructing a new type of the same length whose
         elements are the unification of the corresponding elements in the two input types." *)
      | TTuple xs, TTuple ys =>
          if (length xs =? length ys)%nat then
            match (fix go (ps : list (ty * ty)) : option (list ty) :=
                     match ps with
                     | [] => Some []
                     | (x, y) :: r => match specmd_unify2 f x y, go r with
                                      | Some t, Some ts => Some (t :: ts) | _, _ => None end
                     end) (combine xs ys) with
            | Some ts => Some (TTuple ts)
            | None => None
            end
          else None
      | _, _ => None
      end
  end.
Definition specmd_unify (a b : ty) : option ty := specmd_unify2 (ty_size a + ty_size b) a b.

(* ---- the explored universe ------------------------------------------------------------------------ *)
Definition prims : list ty := [TStr; TNum; TBool].
Definition colls (es : list ty) : list ty := map TList es ++ map TSet es ++ map TMap es.
Definition tuples2 : list ty :=
  [TTuple []] ++ map (fun x => TTuple [x]) prims ++ flat_map (fun x => map (fun y => TTuple [x; y]) prims) prims.
Definition ka : list Z := [97].  Definition kb : list Z := [98].
Definition objs2 : list ty :=
  [TObj []] ++ map (fun x => TObj [(ka, x)]) prims ++ map (fun x => TObj [(kb, x)]) prims ++
  flat_map (fun x => map (fun y => TObj [(ka, x); (kb, y)]) prims) prims.
Definition small_types : list ty :=
  prims ++ [TDyn] ++ colls prims ++ colls (colls prims) ++ tuples2 ++ objs2.

Definition unify_agree (a b : ty) : bool :=
  match unify a b, specmd_unify a b with
  | UOk t, Some t' => ty_eqb t t'
  | UNone, None => true
  | UUnsupported, _ => true        (* outside the go-cty model: not compared *)
  | _, _ => false
  end.
Definition conv_agree (a b : ty) : bool := Bool.eqb (conv_ok a b) (specmd_conv_ok a b).

Definition disagreements : list (ty * ty * bool * bool) :=
  flat_map (fun a => flat_map (fun b =>
    if unify_agree a b && conv_agree a b then [] else [(a, b, unify_agree a b, conv_agree a b)]) small_types) small_types.

(* ---- the deviation shapes ---------------------------------------------------------------------------- *)
Definition is_seq (t : ty) : bool := match t with TList _ | TSet _ => true | _ => false end.
Definition keys_of (t : ty) : list (list Z) := match t with TObj fs => map fst fs | _ => [] end.
(* unification *)
Definition shape_obj_obj_attrs (a b : ty) : bool :=          (* objects with different attribute sets *)
  is_obj a && is_obj b && negb (list_eqb str_eqb (keys_of a) (keys_of b)).
Definition shape_map_obj (a b : ty) : bool := (is_map a && is_obj b) || (is_obj a && is_map b).
Definition shape_tuple_tuple_len (a b : ty) : bool :=
  is_tuple a && is_tuple b && negb (length (tuple_etys a) =? length (tuple_etys b))%nat.
Definition shape_seq_tuple (a b : ty) : bool := (is_seq a && is_tuple b) || (is_tuple a && is_seq b).
(* conversion a -> b *)
Definition shape_conv_obj_missing (a b : ty) : bool :=
  is_obj a && is_obj b && existsb (fun k => negb (existsb (str_eqb k) (keys_of a))) (keys_of b).
Definition shape_conv_seq_to_tuple (a b : ty) : bool := is_seq a && is_tuple b.

Definition shape_dyn_structured (a b : ty) : bool :=       (* dynamic with a collection / structural type *)
  (is_dyn a && negb (is_prim b) && negb (is_dyn b)) || (is_dyn b && negb (is_prim a) && negb (is_dyn a)).
Definition listed (a b : ty) : bool :=
  shape_dyn_structured a b || shape_obj_obj_attrs a b || shape_map_obj a b || shape_tuple_tuple_len a b || shape_seq_tuple a b
  || shape_conv_obj_missing a b || shape_conv_seq_to_tuple a b.

(* FINITE EXPLORATION over small_types x small_types (69 x 69 pairs), decided by vm_compute. *)
Definition explored : bool :=
  forallb (fun a => forallb (fun b => (unify_agree a b && conv_agree a b) || listed a b) small_types) small_types.
Lemma explored_true : explored = true.
Proof. vm_compute. reflexivity. Qed.

Theorem rules_agree_or_listed : forall a b, In a small_types -> In b small_types ->
  (unify_agree a b = true /\ conv_agree a b = true) \/ listed a b = true.
Proof.
  intros a b Ha Hb. pose proof explored_true as E. unfold explored in E.
  rewrite forallb_forall in E. specialize (E a Ha). rewrite forallb_forall in E. specialize (E b Hb).
  apply orb_true_iff in E as [E|E]; [left; apply andb_true_iff in E; exact E|right; exact E].
Qed.
(* size of the exploration, for the record: 69 types, 578 of the 4761 ordered pairs disagree, all listed *)
Lemma exploration_size : length small_types = 69%nat /\ length disagreements = 578%nat.
Proof. vm_compute. split; reflexivity. Qed.

(* ---- one concrete witness per shape -------------------------------------------------------------------- *)
(* object{a} U object{b}.  HCL: `true ? {a=1} : {b=2}` evaluates to a MAP {a=1};
   prose: "Two object types unify by constructing a new type whose attributes are the union". *)
Lemma specmd_deviation_obj_obj_attrs :
  unify (TObj [(ka, TNum)]) (TObj [(kb, TNum)]) = UOk (TMap TNum) /\
  specmd_unify (TObj [(ka, TNum)]) (TObj [(kb, TNum)]) = Some (TObj [(ka, TNum); (kb, TNum)]) /\
  shape_obj_obj_attrs (TObj [(ka, TNum)]) (TObj [(kb, TNum)]) = true.
Proof. vm_compute. repeat split; reflexivity. Qed.
(* map U object.  HCL (m a map of number): `true ? m : {a=1}` is a map;
   prose: "Map and object types unify by preferring the object type." *)
Lemma specmd_deviation_map_obj :
  unify (TMap TNum) (TObj [(ka, TNum)]) = UOk (TMap TNum) /\
  specmd_unify (TMap TNum) (TObj [(ka, TNum)]) = Some (TObj [(ka, TNum)]) /\
  shape_map_obj (TMap TNum) (TObj [(ka, TNum)]) = true.
Proof. vm_compute. repeat split; reflexivity. Qed.
(* tuples of different lengths.  HCL: `true ? [1] : [1, 2]` evaluates to a LIST [1];
   prose: only "Two tuple types of the same length unify" — no rule, i.e. an error. *)
Lemma specmd_deviation_tuple_tuple_len :
  unify (TTuple [TNum]) (TTuple [TNum; TNum]) = UOk (TList TNum) /\
  specmd_unify (TTuple [TNum]) (TTuple [TNum; TNum]) = None /\
  shape_tuple_tuple_len (TTuple [TNum]) (TTuple [TNum; TNum]) = true.
Proof. vm_compute. repeat split; reflexivity. Qed.
(* list U tuple.  HCL (l a list of number): `true ? l : [1]` is a list;
   prose: "List, set and tuple types unify by preferring the tuple type." *)
Lemma specmd_deviation_seq_tuple :
  unify (TList TNum) (TTuple [TNum]) = UOk (TList TNum) /\
  specmd_unify (TList TNum) (TTuple [TNum]) = Some (TTuple [TNum]) /\
  shape_seq_tuple (TList TNum) (TTuple [TNum]) = true.
Proof. vm_compute. repeat split; reflexivity. Qed.
(* dynamic U list(string): go-cty answers dynamic; prose: "The dynamic pseudo-type unifies with any
   other type by selecting that other type."  (Not reachable through the conditional operator, which
   treats the dynamic pseudo-type before unifying: Eval/Spec.v spec_unify.) *)
Lemma specmd_deviation_dyn_structured :
  unify TDyn (TList TStr) = UOk TDyn /\ specmd_unify TDyn (TList TStr) = Some (TList TStr) /\
  shape_dyn_structured TDyn (TList TStr) = true.
Proof. vm_compute. repeat split; reflexivity. Qed.
(* conversion object{a} -> object{a, b}: go-cty has none; prose: "Any attribute present in the target
   type but not in the source type is populated with a null value of the appropriate type."
   (It is what makes go-cty's unification of `true ? {a=1} : {b=2}` fall back to a map.) *)
Lemma specmd_deviation_conv_obj_missing :
  conv_ok (TObj [(ka, TNum)]) (TObj [(ka, TNum); (kb, TNum)]) = false /\
  specmd_conv_ok (TObj [(ka, TNum)]) (TObj [(ka, TNum); (kb, TNum)]) = true /\
  shape_conv_obj_missing (TObj [(ka, TNum)]) (TObj [(ka, TNum); (kb, TNum)]) = true.
Proof. vm_compute. repeat split; reflexivity. Qed.
(* conversion list(number) -> tuple[number]: go-cty has none; prose: "Conversion from list and set
   types to tuple types is permitted". *)
Lemma specmd_deviation_conv_seq_to_tuple :
  conv_ok (TList TNum) (TTuple [TNum]) = false /\ specmd_conv_ok (TList TNum) (TTuple [TNum]) = true /\
  shape_conv_seq_to_tuple (TList TNum) (TTuple [TNum]) = true.
Proof. vm_compute. repeat split; reflexivity. Qed.
(* string -> number with an exponent.  HCL: `"1e3" + 0` evaluates to 1000;
   prose: "No exponent portion is allowed." *)
Lemma specmd_deviation_str_exponent :
  str_to_num [49; 101; 51] = Some (nz 1000) /\ specmd_str_to_num [49; 101; 51] = None.
Proof. vm_compute. split; reflexivity. Qed.
(* Not expressible at type level (value-level rules of the prose that go-cty does not follow; stated in
   DESIGN.md C01, the model's [conv] does not cover map -> object): "It is an error to convert from a
   map value whose set of keys does not exactly match the target type's attributes." *)
