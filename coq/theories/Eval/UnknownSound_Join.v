(* Eval/UnknownSound_Join.v — C05: soundness of TemplateJoinExpr.Value (EJoin). *)
From Coq Require Import QArith Qreduction.
From HclV Require Import Base.Prelude Cty.Values Cty.Convert Cty.Ops Eval.Impl Eval.Funcs
                         Eval.UnknownSound_Base Eval.UnknownSound_Known Eval.UnknownSound_Gamma
                         Eval.UnknownSound_Conv Eval.UnknownSound_Conv2 Eval.UnknownSound_Ops
                         Eval.UnknownSound_Num Eval.UnknownSound_Cond Eval.UnknownSound_Eq Eval.UnknownSound_Fn
                         Eval.UnknownSound_Frag Eval.UnknownSound_Inv Eval.UnknownSound_Core.
Open Scope Z_scope.
Local Strategy opaque [equals val_size unmark_deep deep_marks unify_n convert].
Notation ev_ := (eval_with index).

Definition join_state := ((list Z * marks * list diag) + (val * list diag))%type.

(* the step of the loop over the tuple's elements (copy of Impl.v, EJoin; checked by conversion) *)
Definition join_step (st : join_state) (v : val) : join_state :=
  match st with
  | inr r => inr r
  | inl (buf, am, ds) =>
      if is_null v then inl (buf, am, ds ++ [derr S_InvalidTemplateInterp []])
      else if ty_eqb (type_of v) TDyn then inr (with_same_marks (with_marks (VUnk TStr rf_none) am) v, ds)
      else match conv v TStr with
           | CUnsupported => inl (buf, am, ds ++ [dunsupported])
           | CErr ce => inl (buf, am, ds ++ [derr S_InvalidTemplateInterp [FConv ce]])
           | COk sv =>
               if negb (is_known v) then inr (with_same_marks (with_marks (VUnk TStr rf_none) am) v, ds)
               else let '(su, sm) := unmark sv in
                    match su with
                    | VStr s => inl (buf ++ s, marks_union am sm, ds)
                    | _ => inl (buf, am, ds ++ [dunsupported])
                    end
           end
  end.

Lemma join_step_mono st v : diag_ok (join_ds (join_step st v)) = true -> diag_ok (join_ds st) = true.
Proof.
  destruct st as [[[buf am] ds]|[r rds]]; [|auto]. unfold join_step. intros D.
  repeat match type of D with
         | diag_ok (join_ds (match ?x with _ => _ end)) = true => destruct_scrut x
         end;
  cbn [join_ds] in D |- *; try exact D; rewrite diag_ok_app in D; apply andb_true_iff in D as [D _]; exact D.
Qed.

(* abstract state vs concrete state: the concrete loop never leaves the [inl] form; while the
   abstract one is in it, the two buffers are equal and no marks were collected *)
Definition join_rel (stA stC : join_state) : Prop :=
  match stC with
  | inr _ => False
  | inl (bC, mC, _) =>
      mC = [] /\
      match stA with
      | inl (bA, mA, _) => bA = bC /\ mA = []
      | inr (r, _) => r = VUnk TStr rf_none
      end
  end.

Lemma join_fold_rel : forall la lc stA stC,
  Forall (fun x => inv x = true) la -> Forall (fun x => inv x = true) lc -> all2 gsb la lc = true ->
  join_rel stA stC ->
  diag_ok (join_ds (fold_left join_step la stA)) = true ->
  diag_ok (join_ds (fold_left join_step lc stC)) = true ->
  join_rel (fold_left join_step la stA) (fold_left join_step lc stC).
Proof.
  induction la as [|a la IH]; intros [|c lc] stA stC Fa Fc G R DA DC; simpl in G; try discriminate; [exact R|].
  apply andb_true_iff in G as [Gac G]. inversion Fa as [|? ? Ia Fa']; inversion Fc as [|? ? Ic Fc']; subst.
  simpl in DA, DC |- *. apply IH; try assumption.
  pose proof (fold_ds_ok join_step join_ds join_step_mono lc _ DC) as DsC.
  pose proof (fold_ds_ok join_step join_ds join_step_mono la _ DA) as DsA.
  pose proof (gsb_wk _ _ Gac) as Wc.
  destruct stC as [[[bC mC] dC]|rc]; [|contradiction]. destruct R as [-> R].
  (* the concrete step *)
  unfold join_step in DsC |- * at 2. rewrite (inv_is_null _ Ic) in DsC |- *.
  destruct (null_shape c) eqn:Nc; [exfalso; cbn [join_ds] in DsC; rewrite diag_ok_app, andb_false_r in DsC; discriminate|].
  pose proof (wk_type_not_dyn c Wc (inv_not_marked _ Ic) Nc) as Tc. apply ty_eqb_neq in Tc. rewrite Tc in DsC |- *.
  destruct (conv c TStr) as [svC| |] eqn:EcC;
    try (exfalso; cbn [join_ds] in DsC; rewrite diag_ok_app, andb_false_r in DsC; discriminate).
  destruct (conv_prim_known_shape c TStr svC Wc Ic Nc eq_refl EcC) as [s ->].
  assert (Kc : is_known c = true) by (rewrite (inv_is_known _ Ic); destruct c; try reflexivity; discriminate Wc).
  rewrite Kc in DsC |- *. cbn [negb unmark] in DsC |- *.
  (* the abstract step *)
  destruct stA as [[[bA mA] dA]|[rA rdA]]; [|simpl; split; [reflexivity|exact R]].
  destruct R as [-> ->]. unfold join_step in DsA |- *. rewrite (inv_is_null _ Ia) in DsA |- *.
  destruct (null_shape a) eqn:Na; [exfalso; cbn [join_ds] in DsA; rewrite diag_ok_app, andb_false_r in DsA; discriminate|].
  destruct (ty_eqb (type_of a) TDyn).
  { simpl. split; [reflexivity|]. rewrite (inv_with_same_marks _ _ Ia). reflexivity. }
  destruct (conv a TStr) as [svA| |] eqn:EcA;
    try (exfalso; cbn [join_ds] in DsA; rewrite diag_ok_app, andb_false_r in DsA; discriminate).
  destruct (negb (is_known a)).
  { simpl. split; [reflexivity|]. rewrite (inv_with_same_marks _ _ Ia). reflexivity. }
  pose proof (conv_gs_prim a c TStr svA (VStr s) eq_refl Ia Ic Gac EcA EcC) as Gs.
  rewrite (inv_unmark svA (conv_inv_pres _ _ _ Ia EcA)) in DsA |- *.
  destruct svA; try (exfalso; cbn [join_ds] in DsA; rewrite diag_ok_app, andb_false_r in DsA; discriminate); try discriminate Gs.
  simpl in Gs. apply str_eqb_eq in Gs. subst s0. simpl. auto.
Qed.

Lemma si_join f te : SI f -> forall cA cC anA anC,
  in_fragment (EJoin te) -> ctx_rel cA cC -> anon_rel anA anC ->
  clean (S f) cA anA (EJoin te) = true -> clean (S f) cC anC (EJoin te) = true ->
  gsb (fst (ev_ (S f) cA anA (EJoin te))) (fst (ev_ (S f) cC anC (EJoin te))) = true.
Proof.
  intros IH cA cC anA anC Fr R Ra KA KC. pose proof (frag_join _ Fr) as Ft.
  apply clean_S in KA as [DA [KA' NA]]. apply clean_S in KC as [DC [KC' NC]].
  cbn [eval_with] in DA, DC |- *.
  destruct (ev_ f cA anA te) as [tvA dsA] eqn:EA. destruct (ev_ f cC anC te) as [tvC dsC] eqn:EC.
  destruct (sub_facts f te cA cC anA anC _ _ _ _ IH Ft R Ra KA' KC' EA EC) as [IA [IC [G [DsA DsC]]]].
  cbn [fst] in NA, NC. pose proof (gsb_wk _ _ G) as WC.
  rewrite (inv_is_null _ IC) in NC.
  pose proof (wk_type_not_dyn tvC WC (inv_not_marked _ IC) NC) as TC. apply ty_eqb_neq in TC.
  assert (KC0 : is_known tvC = true) by (rewrite (inv_is_known _ IC); destruct tvC; try reflexivity; discriminate WC).
  rewrite TC, KC0 in DC |- *. cbn [negb] in DC |- *. rewrite (inv_unmark tvC IC) in DC |- *.
  destruct tvC as [| | | | | | | |lc| |]; try (kill DC).
  change (fold_left _ lc (inl ([], [], dsC))) with (fold_left join_step lc (inl ([], [], dsC))) in DC |- *.
  (* the concrete result is a string *)
  assert (ConC : forall stA la, Forall (fun x => inv x = true) la -> all2 gsb la lc = true ->
            join_rel stA (inl ([], [], dsC)) ->
            diag_ok (join_ds (fold_left join_step la stA)) = true ->
            join_rel (fold_left join_step la stA) (fold_left join_step lc (inl ([], [], dsC)))).
  { intros stA la Fa Gl Rl Dl. apply join_fold_rel; try assumption; [apply (Forall_inv_tuple _ IC)|].
    destruct (fold_left join_step lc (inl ([], [], dsC))) as [[[b m] d]|[r d]]; exact DC. }
  assert (Self : join_rel (fold_left join_step lc (inl ([], [], dsC))) (fold_left join_step lc (inl ([], [], dsC)))).
  { apply ConC; [apply (Forall_inv_tuple _ IC)| |simpl; auto|].
    - clear -IC WC. simpl in WC. pose proof (Forall_inv_tuple _ IC) as F. rewrite forallb_Forall in WC.
      induction lc as [|x r IHr]; [reflexivity|]. inversion F; inversion WC; subst. simpl.
      rewrite (gsb_refl_inv x H5 H1). apply IHr; [|assumption|assumption]. simpl. apply forallb_Forall. assumption.
    - destruct (fold_left join_step lc (inl ([], [], dsC))) as [[[b m] d]|[r d]]; exact DC. }
  destruct (fold_left join_step lc (inl ([], [], dsC))) as [[[bC mC] dC]|[rC dC]] eqn:EfC; [|contradiction].
  destruct Self as [-> _]. cbn [with_marks fst].
  (* the abstract side *)
  destruct (ty_eqb (type_of tvA) TDyn).
  { rewrite (inv_with_same_marks _ _ IA). reflexivity. }
  destruct (negb (is_known tvA)).
  { rewrite (inv_with_same_marks _ _ IA). reflexivity. }
  rewrite (inv_unmark tvA IA) in DA |- *.
  destruct tvA as [| | | | | | | |la| |]; try (kill DA); try discriminate G.
  change (fold_left _ la (inl ([], [], dsA))) with (fold_left join_step la (inl ([], [], dsA))) in DA |- *.
  simpl in G.
  assert (DfA : diag_ok (join_ds (fold_left join_step la (inl ([], [], dsA)))) = true).
  { destruct (fold_left join_step la (inl ([], [], dsA))) as [[[b m] d]|[r d]]; exact DA. }
  pose proof (ConC (inl ([], [], dsA)) la (Forall_inv_tuple _ IA) G ltac:(simpl; auto) DfA) as Hr.
  destruct (fold_left join_step la (inl ([], [], dsA))) as [[[bA mA] dA]|[rA dA]]; simpl in Hr.
  - destruct Hr as [_ [-> ->]]. simpl. apply str_eqb_refl.
  - destruct Hr as [_ ->]. reflexivity.
Qed.
