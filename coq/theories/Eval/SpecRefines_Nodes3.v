(* Eval/SpecRefines_Nodes3.v — node lemmas of impl_refines_spec: for expressions and splat. *)
From Coq Require Import QArith.
From HclV Require Import Base.Prelude Cty.Values Cty.Convert Cty.Ops Eval.Impl Eval.Spec
  Eval.SpecRefines_Base Eval.SpecRefines_Defs Eval.SpecRefines_Nodes1 Eval.SpecRefines_Nodes2.
Open Scope Z_scope.
Local Opaque conv.

(* ---- for expressions: the two loops of ForExpr.Value, extracted from eval ------------------------ *)
Section ForSteps.
  Variables (f : nat) (c : ctx) (anon : option val) (kvar vvar : list Z) (coll ke vale : expr)
            (conde : option expr) (group : bool).

  Definition fortup_step :=
    ltac:(let t := eval cbn [eval eval_with] in (eval (S f) c anon (EFor kvar vvar coll None vale conde group)) in
          match t with context [fold_left ?F _ _] =>
            let F' := eval pattern (eval_with index) in F in
            match F' with ?G _ => let r := eval cbv beta in (G eval) in exact r end end).
  Definition forobj_step :=
    ltac:(let t := eval cbn [eval eval_with] in (eval (S f) c anon (EFor kvar vvar coll (Some ke) vale conde group)) in
          match t with context [fold_left ?F _ _] =>
            let F' := eval pattern (eval_with index) in F in
            match F' with ?G _ => let r := eval cbv beta in (G eval) in exact r end end).
End ForSteps.

(* the per-element function of the specification (the local [item] of spec_eval, EFor case) *)
Definition spec_for_item (E : env) (kvar vvar : list Z) (keye : option expr) (vale : expr)
  (conde : option expr) (kv : val * val) : option (list (list Z * val)) :=
  let E' := bind_vars E (for_scope kvar vvar (fst kv) (snd kv)) in
  let keep := match conde with
              | None => Some true
              | Some ce => match spec_eval E' ce with SOk b => to_bool b | SErr => None end
              end in
  match keep with
  | None => None
  | Some false => Some []
  | Some true =>
      let name := match keye with
                  | None => Some []
                  | Some ke => match spec_eval E' ke with SOk k => to_string k | SErr => None end
                  end in
      match name, spec_eval E' vale with
      | Some n, SOk v => Some [(n, v)]
      | _, _ => None
      end
  end.

Definition keep_of (E' : env) (conde : option expr) : option bool :=
  match conde with
  | None => Some true
  | Some ce => match spec_eval E' ce with SOk b => to_bool b | SErr => None end
  end.

(* what the node lemma knows about one element: its sub-evaluations refine *)
Definition for_elem_ok (f : nat) (c : ctx) (anon : option val) (kvar vvar : list Z)
  (keye : option expr) (vale : expr) (conde : option expr) (kv : val * val) : Prop :=
  let cc := child_ctx c (for_scope kvar vvar (fst kv) (snd kv)) in
  let E' := env_of cc anon in
  (forall ce, conde = Some ce -> refines1 (eval f cc anon ce) (spec_eval E' ce)) /\
  (keep_of E' conde = Some true ->
   (forall ke, keye = Some ke -> refines1 (eval f cc anon ke) (spec_eval E' ke)) /\
   refines1 (eval f cc anon vale) (spec_eval E' vale)).

Ltac destruct_inner t :=
  lazymatch t with
  | match ?b with _ => _ end => destruct_inner b
  | _ => destruct t
  end.

(* ---- tuple for ------------------------------------------------------------------------------------ *)
Definition fortup_final (st : list val * list marks * bool * list diag) : val * list diag :=
  let '(vals, mks, known, ds) := st in
  if negb known then (with_marks dyn_val (marks_unions mks), ds)
  else (with_marks (VTuple vals) (marks_unions mks), ds).
Definition ft_diags (st : list val * list marks * bool * list diag) : list diag := snd st.
Lemma fortup_final_snd st : snd (fortup_final st) = ft_diags st.
Proof. destruct st as [[[vals mks] known] ds]. simpl. destruct known; reflexivity. Qed.

Section TupFor.
  Variables (f : nat) (c : ctx) (anon : option val) (kvar vvar : list Z) (vale : expr) (conde : option expr).
  Let step := fortup_step f c anon kvar vvar vale conde.

  Lemma fortup_step_prefix st kv : exists x, ft_diags (step st kv) = ft_diags st ++ x.
  Proof.
    destruct st as [[[vals mks] known] ds]. unfold step, fortup_step, ft_diags. destruct known.
    all:     repeat match goal with
    | |- exists x, snd (match ?b with _ => _ end) = _ => destruct_inner b
    end; cbn [snd]; eexists; rewrite <- ?app_assoc; try reflexivity; rewrite app_nil_r; reflexivity.
  Qed.
  Lemma fortup_fold_prefix l : forall st, exists x, ft_diags (fold_left step l st) = ft_diags st ++ x.
  Proof.
    induction l as [|kv r IH]; intro st; simpl.
    - exists []. rewrite app_nil_r. reflexivity.
    - destruct (IH (step st kv)) as [x E]. destruct (fortup_step_prefix st kv) as [y E2].
      rewrite E, E2. exists (y ++ x). rewrite app_assoc. reflexivity.
  Qed.
  Lemma fortup_fold_bad l st s :
    has_unsupported (ft_diags st) = true \/ (has_errors (ft_diags st) = true /\ s = SErr) ->
    refines1 (fortup_final (fold_left step l st)) s.
  Proof.
    intro H. destruct (fortup_fold_prefix l st) as [x E].
    destruct (fortup_final _) as [v ds] eqn:F.
    assert (ds = ft_diags st ++ x) as -> by (rewrite <- E, <- fortup_final_snd, F; reflexivity).
    apply refines1_bad. destruct H as [H|[H ->]]; [left|right].
    - rewrite has_unsupported_app, H. reflexivity.
    - rewrite has_errors_app, H. auto.
  Qed.
End TupFor.

Lemma conv_bool_shape v r : good v = true -> is_null v = false -> conv v TBool = COk r -> exists b, r = VBool b.
Proof.
  intros G N C. pose proof (conv_good _ _ _ G C) as Gr.
  destruct (good_bool_shape r Gr (conv_prim_type _ _ _ G C eq_refl)) as [H| ->]; auto.
  pose proof (conv_nonnull _ _ _ G N C) as X. discriminate X.
Qed.
Lemma to_bool_null' v : good v = true -> is_null v = true -> to_bool v = None.
Proof.
  intros G N. rewrite good_is_null in N by auto. destruct v; try discriminate N. apply to_bool_null.
Qed.

Definition fortup_spec_rest (E : env) (kvar vvar : list Z) (vale : expr) (conde : option expr)
  (rest : list (val * val)) (vals : list val) : sres :=
  match all_some (map (spec_for_item E kvar vvar None vale conde) rest) with
  | None => SErr
  | Some rows => SOk (VTuple (vals ++ map snd (concat rows)))
  end.

Ltac crush_tup := repeat lazymatch goal with
  | |- refines1 (fortup_final (fold_left _ _ (match ?x with _ => _ end))) _ => destruct_inner x
  end.

Lemma fortup_fold f c anon kvar vvar vale conde (E := env_of c anon) rest :
  Forall (for_elem_ok f c anon kvar vvar None vale conde) rest ->
  forall vals mks ds, has_errors ds = false -> Forall (fun m => m = []) mks -> goods vals = true ->
  refines1 (fortup_final (fold_left (fortup_step f c anon kvar vvar vale conde) rest (vals, mks, true, ds)))
           (fortup_spec_rest E kvar vvar vale conde rest vals).
Proof.
  induction 1 as [|kv rest OK Hrest IH]; intros vals mks ds ED MK GV.
  - simpl. rewrite (marks_unions_nils mks MK). cbn [with_marks].
    apply refines1_intro. intro HU. right. unfold fortup_spec_rest. simpl. rewrite app_nil_r.
    rewrite good_VTuple. auto.
  - cbn [fold_left]. unfold fortup_spec_rest. cbn [map all_some].
    destruct OK as [OKc OKv]. cbv zeta in OKc, OKv.
    set (cc := child_ctx c (for_scope kvar vvar (fst kv) (snd kv))) in *.
    assert (env_of cc anon = bind_vars E (for_scope kvar vvar (fst kv) (snd kv))) as EE by reflexivity.
    (* the value part, once the element is kept *)
    assert (forall mks1 ds1, has_errors ds1 = false -> Forall (fun m => m = []) mks1 ->
            keep_of (env_of cc anon) conde = Some true ->
            refines1 (fortup_final (fold_left (fortup_step f c anon kvar vvar vale conde) rest
                        (let '(v, vds) := eval f cc anon vale in (vals ++ [v], mks1, true, ds1 ++ vds))))
                     (match (match (match spec_eval (env_of cc anon) vale with SOk v => Some [(@nil Z, v)] | SErr => None end) with
                             | Some x => match all_some (map (spec_for_item E kvar vvar None vale conde) rest) with
                                         | Some xs => Some (x :: xs) | None => None end
                             | None => None end) with
                      | Some rows => SOk (VTuple (vals ++ map snd (concat rows)))
                      | None => SErr end)) as VAL.
    { intros mks1 ds1 ED1 MK1 KP. destruct (OKv KP) as [_ Rv].
      destruct (eval f cc anon vale) as [v vds] eqn:EV.
      destruct (has_unsupported vds) eqn:HUv.
      { apply fortup_fold_bad. left. unfold ft_diags. cbn [snd]. rewrite has_unsupported_app, HUv. apply orb_true_r. }
      destruct (refines1_use _ _ Rv HUv) as [[Er S]|[Er [S G]]]; cbn [fst snd] in *; rewrite S.
      { apply fortup_fold_bad. right. unfold ft_diags. cbn [snd]. rewrite has_errors_app, Er, orb_true_r. auto. }
      specialize (IH (vals ++ [v]) mks1 (ds1 ++ vds)). unfold fortup_spec_rest in IH.
      destruct (all_some (map (spec_for_item E kvar vvar None vale conde) rest)) as [xs|].
      - cbn [concat map snd app]. replace (vals ++ v :: map snd (concat xs)) with ((vals ++ [v]) ++ map snd (concat xs))
          by (rewrite <- app_assoc; reflexivity).
        apply IH; auto. rewrite has_errors_app, ED1, Er; reflexivity.
        rewrite goods_app, GV. unfold goods. simpl. rewrite G. reflexivity.
      - apply IH; auto. rewrite has_errors_app, ED1, Er; reflexivity.
        rewrite goods_app, GV. unfold goods. simpl. rewrite G. reflexivity. }
    unfold spec_for_item at 1. cbv zeta. rewrite <- EE. fold (keep_of (env_of cc anon) conde).
    unfold fortup_step at 2.
    change (child_ctx c ((if str_eqb kvar [] || str_eqb kvar vvar then [] else [(kvar, fst kv)]) ++ [(vvar, snd kv)]))
      with cc.
    destruct conde as [ce|].
    + (* with an `if` clause *)
      specialize (OKc ce eq_refl).
      destruct (eval f cc anon ce) as [inc cds] eqn:EC.
      destruct (has_unsupported cds) eqn:HUc.
      { crush_tup; apply fortup_fold_bad; left; unfold ft_diags; cbn [snd];
          rewrite ?has_unsupported_app, HUc, ?orb_true_r; reflexivity. }
      cbn [keep_of] in *.
      destruct (refines1_use _ _ OKc HUc) as [[Er S]|[Er [S G]]]; cbn [fst snd] in *; rewrite S in *.
      { crush_tup; apply fortup_fold_bad; right; unfold ft_diags; cbn [snd];
          rewrite ?has_errors_app, Er, ?orb_true_r; auto. }
      destruct (is_null inc) eqn:NI.
      { rewrite (to_bool_null' inc G NI). apply fortup_fold_bad. right. unfold ft_diags. cbn [snd].
        rewrite !has_errors_app. simpl. rewrite !orb_true_r. auto. }
      rewrite (good_is_known inc G), (good_marks_of inc G). cbn [negb].
      unfold to_bool in *. destruct (conv inc TBool) as [b| cer |] eqn:CB.
      3: { apply fortup_fold_bad. left. unfold ft_diags. cbn [snd]. rewrite !has_unsupported_app. simpl. rewrite !orb_true_r. auto. }
      2: { apply fortup_fold_bad. right. unfold ft_diags. cbn [snd]. rewrite !has_errors_app. simpl. rewrite !orb_true_r. auto. }
      destruct (conv_bool_shape inc b G NI CB) as [x ->]. cbn [unmark fst].
      assert (Forall (fun m : list Z => m = []) (mks ++ [[]])) as MK' by (apply Forall_app; split; auto).
      assert (has_errors (ds ++ cds) = false) as ED' by (rewrite has_errors_app, ED, Er; reflexivity).
      destruct x.
      * apply VAL; auto.
      * specialize (IH vals (mks ++ [[]]) (ds ++ cds) ED' MK' GV). unfold fortup_spec_rest in IH.
        destruct (all_some (map (spec_for_item E kvar vvar None vale (Some ce)) rest)) as [xs|];
          cbn [concat app]; exact IH.
    + cbn [keep_of] in *. apply VAL; auto.
Qed.

(* ---- object for ------------------------------------------------------------------------------------ *)
Definition fo_state := (list (list Z * val) * list (list Z * list val) * list marks * bool * list diag)%type.
Definition group_vals (groups : list (list Z * list val)) : list (list Z * val) :=
  map (fun p => (fst p, VTuple (snd p))) groups.
Definition acc_of (group : bool) (vals : list (list Z * val)) (groups : list (list Z * list val)) :=
  if group then group_vals groups else vals.
Definition forobj_final (group : bool) (st : fo_state) : val * list diag :=
  let '(vals, groups, mks, known, ds) := st in
  if negb known then (with_marks dyn_val (marks_unions mks), ds)
  else (with_marks (VObj (if group then map (fun p => (fst p, VTuple (snd p))) groups else vals)) (marks_unions mks), ds).
Definition fo_diags (st : fo_state) : list diag := snd st.
Lemma forobj_final_snd g st : snd (forobj_final g st) = fo_diags st.
Proof. destruct st as [[[[vals groups] mks] known] ds]. simpl. destruct known; reflexivity. Qed.

Lemma assoc_get_group n groups :
  assoc_get n (group_vals groups) = match assoc_get n groups with Some l => Some (VTuple l) | None => None end.
Proof. induction groups as [|[k l] r IH]; simpl; [reflexivity|]. destruct (str_eqb n k); auto. Qed.
Lemma assoc_set_group n l groups :
  group_vals (assoc_set n l groups) = assoc_set n (VTuple l) (group_vals groups).
Proof.
  induction groups as [|[k l'] r IH]; simpl; [reflexivity|].
  destruct (str_eqb n k); [reflexivity|]. destruct (str_ltb n k); [reflexivity|]. simpl. rewrite IH. reflexivity.
Qed.

Section ObjFor.
  Variables (f : nat) (c : ctx) (anon : option val) (kvar vvar : list Z) (ke vale : expr)
            (conde : option expr) (group : bool).
  Let step := forobj_step f c anon kvar vvar ke vale conde group.

  Lemma forobj_step_prefix st kv : exists x, fo_diags (step st kv) = fo_diags st ++ x.
  Proof.
    destruct st as [[[[vals groups] mks] known] ds]. unfold step, forobj_step, fo_diags. destruct known.
    all: repeat match goal with
    | |- exists x, snd (match ?b with _ => _ end) = _ => destruct_inner b
    end; cbn [snd]; eexists; rewrite <- ?app_assoc; try reflexivity; rewrite app_nil_r; reflexivity.
  Qed.
  Lemma forobj_fold_prefix l : forall st, exists x, fo_diags (fold_left step l st) = fo_diags st ++ x.
  Proof.
    induction l as [|kv r IH]; intro st; simpl.
    - exists []. rewrite app_nil_r. reflexivity.
    - destruct (IH (step st kv)) as [x E]. destruct (forobj_step_prefix st kv) as [y E2].
      rewrite E, E2. exists (y ++ x). rewrite app_assoc. reflexivity.
  Qed.
  Lemma forobj_fold_bad l st s :
    has_unsupported (fo_diags st) = true \/ (has_errors (fo_diags st) = true /\ s = SErr) ->
    refines1 (forobj_final group (fold_left step l st)) s.
  Proof.
    intro H. destruct (forobj_fold_prefix l st) as [x E].
    destruct (forobj_final _ _) as [v ds] eqn:F.
    assert (ds = fo_diags st ++ x) as -> by (rewrite <- E, <- (forobj_final_snd group), F; reflexivity).
    apply refines1_bad. destruct H as [H|[H ->]]; [left|right].
    - rewrite has_unsupported_app, H. reflexivity.
    - rewrite has_errors_app, H. auto.
  Qed.
End ObjFor.

Definition forobj_spec_rest (E : env) (kvar vvar : list Z) (ke vale : expr) (conde : option expr) (group : bool)
  (rest : list (val * val)) (acc : list (list Z * val)) : sres :=
  match all_some (map (spec_for_item E kvar vvar (Some ke) vale conde) rest) with
  | None => SErr
  | Some rows => build_obj group (concat rows) acc
  end.

Ltac crush_obj := repeat lazymatch goal with
  | |- refines1 (forobj_final _ (fold_left _ _ (match ?x with _ => _ end))) _ => destruct_inner x
  end.

Lemma forobj_fold f c anon kvar vvar ke vale conde group (E := env_of c anon) rest :
  Forall (for_elem_ok f c anon kvar vvar (Some ke) vale conde) rest ->
  forall vals groups mks ds, has_errors ds = false -> Forall (fun m => m = []) mks ->
  goodkvs (acc_of group vals groups) = true ->
  refines1 (forobj_final group (fold_left (forobj_step f c anon kvar vvar ke vale conde group) rest
                                   (vals, groups, mks, true, ds)))
           (forobj_spec_rest E kvar vvar ke vale conde group rest (acc_of group vals groups)).
Proof.
  induction 1 as [|kv rest OK Hrest IH]; intros vals groups mks ds ED MK GA.
  - simpl. rewrite (marks_unions_nils mks MK). cbn [with_marks].
    apply refines1_intro. intro HU. right. unfold forobj_spec_rest. simpl.
    fold (group_vals groups). fold (acc_of group vals groups). rewrite good_VObj. auto.
  - cbn [fold_left]. unfold forobj_spec_rest. cbn [map all_some].
    destruct OK as [OKc OKv]. cbv zeta in OKc, OKv.
    set (cc := child_ctx c (for_scope kvar vvar (fst kv) (snd kv))) in *.
    assert (env_of cc anon = bind_vars E (for_scope kvar vvar (fst kv) (snd kv))) as EE by reflexivity.
    set (acc := acc_of group vals groups) in *.
    (* key and value, once the element is kept *)
    assert (forall mks1 ds1, has_errors ds1 = false -> Forall (fun m => m = []) mks1 ->
            keep_of (env_of cc anon) conde = Some true ->
            refines1 (forobj_final group (fold_left (forobj_step f c anon kvar vvar ke vale conde group) rest
              (let '(kraw, kds) := eval f cc anon ke in
               if is_null kraw then (vals, groups, mks1, false, (ds1 ++ kds) ++ [derr S_InvalidObjKey []])
               else if negb (is_known kraw) then (vals, groups, mks1 ++ [marks_of kraw], false, ds1 ++ kds)
               else match conv kraw TStr with
                    | COk kc =>
                        match fst (unmark kc) with
                        | VStr ks =>
                            let '(v, vds) := eval f cc anon vale in
                            if group
                            then (vals, assoc_set ks (match assoc_get ks groups with Some l => l | None => [] end ++ [v]) groups,
                                  mks1 ++ [marks_of kraw], true, (ds1 ++ kds) ++ vds)
                            else match assoc_get ks vals with
                                 | Some _ => (vals, groups, mks1 ++ [marks_of kraw], true,
                                              ((ds1 ++ kds) ++ vds) ++
                                              [derr S_DuplicateKey
                                                 (if existsb (fun m : list Z => negb (zlist_eqb m [])) (mks1 ++ [marks_of kraw])
                                                  then [] else [FStr ks []])])
                                 | None => (assoc_set ks v vals, groups, mks1 ++ [marks_of kraw], true, (ds1 ++ kds) ++ vds)
                                 end
                        | _ => (vals, groups, mks1 ++ [marks_of kraw], false, (ds1 ++ kds) ++ [dunsupported])
                        end
                    | CErr cer => (vals, groups, mks1 ++ [marks_of kraw], false, (ds1 ++ kds) ++ [derr S_InvalidObjKey [FConv cer]])
                    | CUnsupported => (vals, groups, mks1 ++ [marks_of kraw], false, (ds1 ++ kds) ++ [dunsupported])
                    end)))
              (match (match (match (match spec_eval (env_of cc anon) ke with SOk k => to_string k | SErr => None end),
                                   spec_eval (env_of cc anon) vale with
                             | Some n, SOk v => Some [(n, v)] | _, _ => None end) with
                      | Some x => match all_some (map (spec_for_item E kvar vvar (Some ke) vale conde) rest) with
                                  | Some xs => Some (x :: xs) | None => None end
                      | None => None end) with
               | Some rows => build_obj group (concat rows) acc
               | None => SErr end)) as VAL.
    { intros mks1 ds1 ED1 MK1 KP. destruct (OKv KP) as [Rk Rv]. specialize (Rk ke eq_refl).
      destruct (eval f cc anon ke) as [kraw kds] eqn:EK.
      destruct (has_unsupported kds) eqn:HUk.
      { crush_obj; apply forobj_fold_bad; left; unfold fo_diags; cbn [snd];
          rewrite ?has_unsupported_app, HUk, ?orb_true_r; reflexivity. }
      destruct (refines1_use _ _ Rk HUk) as [[Er S]|[Er [S G]]]; cbn [fst snd] in *; rewrite S.
      { crush_obj; apply forobj_fold_bad; right; unfold fo_diags; cbn [snd];
          rewrite ?has_errors_app, Er, ?orb_true_r; auto. }
      destruct (is_null kraw) eqn:NK.
      { rewrite (to_string_null kraw G NK). apply forobj_fold_bad. right. unfold fo_diags. cbn [snd].
        rewrite !has_errors_app. simpl. rewrite !orb_true_r. auto. }
      rewrite (good_is_known kraw G), (good_marks_of kraw G). cbn [negb].
      unfold to_string at 1. destruct (conv kraw TStr) as [kc| cer |] eqn:CK.
      3: { apply forobj_fold_bad. left. unfold fo_diags. cbn [snd]. rewrite !has_unsupported_app. simpl. rewrite !orb_true_r. auto. }
      2: { apply forobj_fold_bad. right. unfold fo_diags. cbn [snd]. rewrite !has_errors_app. simpl. rewrite !orb_true_r. auto. }
      destruct (conv_str_shape kraw kc G NK CK) as [ks ->]. cbn [unmark fst].
      destruct (eval f cc anon vale) as [v vds] eqn:EV.
      destruct (has_unsupported vds) eqn:HUv.
      { crush_obj; apply forobj_fold_bad; left; unfold fo_diags; cbn [snd];
          rewrite ?has_unsupported_app, HUv, ?orb_true_r; reflexivity. }
      destruct (refines1_use _ _ Rv HUv) as [[Erv Sv]|[Erv [Sv Gv]]]; cbn [fst snd] in *; rewrite Sv.
      { crush_obj; apply forobj_fold_bad; right; unfold fo_diags; cbn [snd];
          rewrite ?has_errors_app, Erv, ?orb_true_r; auto. }
      assert (Forall (fun m : list Z => m = []) (mks1 ++ [[]])) as MK' by (apply Forall_app; split; auto).
      assert (has_errors ((ds1 ++ kds) ++ vds) = false) as ED' by (rewrite !has_errors_app, ED1, Er, Erv; reflexivity).
      unfold forobj_spec_rest in IH.
      subst acc. unfold acc_of in *. destruct group.
      + (* grouping *)
        specialize (IH vals (assoc_set ks (match assoc_get ks groups with Some l => l | None => [] end ++ [v]) groups)
                       (mks1 ++ [[]]) ((ds1 ++ kds) ++ vds) ED' MK').
        rewrite assoc_set_group in IH.
        destruct (all_some (map (spec_for_item E kvar vvar (Some ke) vale conde) rest)) as [xs|].
        * cbn [concat app build_obj]. rewrite assoc_get_group.
          destruct (assoc_get ks groups) as [l|] eqn:AG; apply IH; apply goodkvs_set; auto.
          -- pose proof (goodkvs_get (group_vals groups) ks (VTuple l) GA) as X.
             rewrite assoc_get_group, AG in X. specialize (X eq_refl). rewrite good_VTuple in *.
             rewrite goods_app, X. unfold goods. simpl. rewrite Gv. reflexivity.
          -- rewrite good_VTuple. unfold goods. simpl. rewrite Gv. reflexivity.
        * destruct (assoc_get ks groups) as [l|] eqn:AG; apply IH; apply goodkvs_set; auto.
          -- pose proof (goodkvs_get (group_vals groups) ks (VTuple l) GA) as X.
             rewrite assoc_get_group, AG in X. specialize (X eq_refl). rewrite good_VTuple in *.
             rewrite goods_app, X. unfold goods. simpl. rewrite Gv. reflexivity.
          -- rewrite good_VTuple. unfold goods. simpl. rewrite Gv. reflexivity.
      + (* no grouping: a duplicate key is an error on both sides *)
        destruct (assoc_get ks vals) as [old|] eqn:AG.
        * replace (match match all_some (map (spec_for_item E kvar vvar (Some ke) vale conde) rest) with
                         | Some xs => Some ([(ks, v)] :: xs) | None => None end with
                   | Some rows => build_obj false (concat rows) vals | None => SErr end) with SErr.
          2: { destruct (all_some _); [|reflexivity]. cbn [concat app build_obj]. rewrite AG. destruct old; reflexivity. }
          apply forobj_fold_bad. right. unfold fo_diags. cbn [snd]. rewrite !has_errors_app. simpl. rewrite !orb_true_r. auto.
        * specialize (IH (assoc_set ks v vals) groups (mks1 ++ [[]]) ((ds1 ++ kds) ++ vds) ED' MK').
          destruct (all_some (map (spec_for_item E kvar vvar (Some ke) vale conde) rest)) as [xs|].
          -- cbn [concat app build_obj]. rewrite AG. apply IH. apply goodkvs_set; auto.
          -- apply IH. apply goodkvs_set; auto. }
    unfold spec_for_item at 1. cbv zeta. rewrite <- EE. fold (keep_of (env_of cc anon) conde).
    unfold forobj_step at 2.
    change (child_ctx c ((if str_eqb kvar [] || str_eqb kvar vvar then [] else [(kvar, fst kv)]) ++ [(vvar, snd kv)]))
      with cc.
    destruct conde as [ce|].
    + specialize (OKc ce eq_refl).
      destruct (eval f cc anon ce) as [inc cds] eqn:EC.
      destruct (has_unsupported cds) eqn:HUc.
      { crush_obj; apply forobj_fold_bad; left; unfold fo_diags; cbn [snd];
          rewrite ?has_unsupported_app, HUc, ?orb_true_r; reflexivity. }
      cbn [keep_of] in *.
      destruct (refines1_use _ _ OKc HUc) as [[Er S]|[Er [S G]]]; cbn [fst snd] in *; rewrite S in *.
      { crush_obj; apply forobj_fold_bad; right; unfold fo_diags; cbn [snd];
          rewrite ?has_errors_app, Er, ?orb_true_r; auto. }
      destruct (is_null inc) eqn:NI.
      { rewrite (to_bool_null' inc G NI). apply forobj_fold_bad. right. unfold fo_diags. cbn [snd].
        rewrite !has_errors_app. simpl. rewrite !orb_true_r. auto. }
      rewrite (good_marks_of inc G).
      unfold to_bool in *. destruct (conv inc TBool) as [b| cer |] eqn:CB.
      3: { apply forobj_fold_bad. left. unfold fo_diags. cbn [snd]. rewrite !has_unsupported_app. simpl. rewrite !orb_true_r. auto. }
      2: { apply forobj_fold_bad. right. unfold fo_diags. cbn [snd]. rewrite !has_errors_app. simpl. rewrite !orb_true_r. auto. }
      destruct (conv_bool_shape inc b G NI CB) as [x ->]. cbn [is_known unmark fst negb].
      assert (Forall (fun m : list Z => m = []) ((mks ++ [[]]) ++ [[]])) as MK'
        by (apply Forall_app; split; auto; apply Forall_app; split; auto).
      assert (has_errors (ds ++ cds) = false) as ED' by (rewrite has_errors_app, ED, Er; reflexivity).
      destruct x.
      * apply VAL; auto.
      * specialize (IH vals groups ((mks ++ [[]]) ++ [[]]) (ds ++ cds) ED' MK' GA). unfold forobj_spec_rest in IH.
        fold acc in IH.
        destruct (all_some (map (spec_for_item E kvar vvar (Some ke) vale (Some ce)) rest)) as [xs|];
          cbn [concat app]; exact IH.
    + cbn [keep_of] in *. apply VAL; auto.
Qed.

(* ---- the for node --------------------------------------------------------------------------------- *)
(* the type-check probe of the `if` clause with dynamic placeholders (copied from eval; checked by eval_EFor') *)
Definition for_probe (f : nat) (c : ctx) (anon : option val) (kvar vvar : list Z) (conde : option expr)
  (ds0 : list diag) : (marks * list diag) + (val * list diag) :=
  match conde with
  | None => inl ([], ds0)
  | Some ce =>
      let '(r, cds) := eval f (child_ctx c (for_scope kvar vvar dyn_val dyn_val)) anon ce in
      let ds := ds0 ++ cds in
      if is_null r then inr (dyn_val, ds ++ [derr S_ConditionIsNull []])
      else match conv r TBool with
           | CErr cer => inr (dyn_val, ds ++ [derr S_InvalidForCond [FConv cer]])
           | CUnsupported => inr (dyn_val, ds ++ [dunsupported])
           | COk _ => if has_errors cds then inr (dyn_val, ds) else inl (marks_of r, ds)
           end
  end.

Lemma eval_EFor' f c anon kvar vvar coll keye vale conde group :
  eval (S f) c anon (EFor kvar vvar coll keye vale conde group) =
  let '(cv0, ds0) := eval f c anon coll in
  if is_null cv0 then (dyn_val, ds0 ++ [derr S_IterNull []])
  else if ty_eqb (type_of cv0) TDyn then (with_same_marks dyn_val cv0, ds0)
  else let '(cv, cmk) := unmark cv0 in
  if negb (can_iterate cv) then (dyn_val, ds0 ++ [derr S_IterNonIterable [FTy (type_of cv)]])
  else match for_probe f c anon kvar vvar conde ds0 with
       | inr r => r
       | inl (condmk, ds1) =>
           if negb (is_known cv) then (with_marks dyn_val (marks_union cmk condmk), ds1)
           else match keye with
                | Some ke => forobj_final group
                    (fold_left (forobj_step f c anon kvar vvar ke vale conde group) (elements cv) ([], [], [cmk], true, ds1))
                | None => fortup_final
                    (fold_left (fortup_step f c anon kvar vvar vale conde) (elements cv) ([], [cmk], true, ds1))
                end
       end.
Proof.
  rewrite eval_EFor. destruct (eval f c anon coll) as [cv0 ds0].
  destruct (is_null cv0); [reflexivity|]. destruct (ty_eqb (type_of cv0) TDyn); [reflexivity|].
  destruct (unmark cv0) as [cv cmk]. destruct (negb (can_iterate cv)); [reflexivity|].
  destruct keye; reflexivity.
Qed.

Lemma for_probe_prefix f c anon kvar vvar conde ds0 :
  match for_probe f c anon kvar vvar conde ds0 with
  | inr r => exists x, snd r = ds0 ++ x
  | inl (_, ds1) => exists x, ds1 = ds0 ++ x
  end.
Proof.
  unfold for_probe. destruct conde as [ce|]; [|exists []; rewrite app_nil_r; reflexivity].
  destruct (eval f _ anon ce) as [r cds].
  destruct (is_null r); [cbn [snd]; eexists; rewrite <- app_assoc; reflexivity|].
  destruct (conv r TBool); [destruct (has_errors cds)| |]; cbn [snd]; eexists; rewrite <- ?app_assoc; reflexivity.
Qed.

Lemma index_from_good l : goods l = true -> forall i,
  Forall (fun kv => good (fst kv) = true /\ good (snd kv) = true) (index_from i l).
Proof.
  induction l as [|x r IH]; intros G i; simpl; constructor.
  - unfold goods in G. simpl in G. apply andb_true_iff in G. simpl. tauto.
  - apply IH. unfold goods in *. simpl in G. apply andb_true_iff in G. tauto.
Qed.
Lemma elements_good cv : good cv = true ->
  Forall (fun kv => good (fst kv) = true /\ good (snd kv) = true) (elements cv).
Proof.
  intro G. destruct cv; simpl; try constructor.
  - rewrite good_VList in G. apply index_from_good; auto.
  - rewrite good_VSet in G. apply Forall_forall. intros kv Hin. apply in_map_iff in Hin as [x [<- Hx]].
    simpl. pose proof (goods_In _ _ G Hx). auto.
  - rewrite good_VMap in G. apply Forall_forall. intros kv Hin. apply in_map_iff in Hin as [x [<- Hx]].
    simpl. pose proof (goodkvs_In _ _ G Hx). auto.
  - rewrite good_VTuple in G. apply index_from_good; auto.
  - rewrite good_VObj in G. apply Forall_forall. intros kv Hin. apply in_map_iff in Hin as [x [<- Hx]].
    simpl. pose proof (goodkvs_In _ _ G Hx). auto.
Qed.
Lemma for_scope_good kvar vvar k v : good k = true -> good v = true -> goodkvs (for_scope kvar vvar k v) = true.
Proof.
  intros Gk Gv. unfold for_scope. destruct (str_eqb kvar [] || str_eqb kvar vvar); simpl; rewrite ?Gk, ?Gv; reflexivity.
Qed.

Lemma for_refines f c anon kvar vvar coll keye vale conde group :
  IHf f -> known_unmarked_ctx c = true -> funcs_ok c -> anon_ok anon = true ->
  lits_ok (EFor kvar vvar coll keye vale conde group) = true ->
  (expr_size (EFor kvar vvar coll keye vale conde group) <= S f)%nat ->
  dev_free (S f) c anon (EFor kvar vvar coll keye vale conde group) = true ->
  refines1 (eval (S f) c anon (EFor kvar vvar coll keye vale conde group))
           (spec_eval (env_of c anon) (EFor kvar vvar coll keye vale conde group)).
Proof.
  intros IH K FO A L SZ D. rewrite eval_EFor'. cbn [spec_eval].
  cbn [lits_ok] in L. apply andb_true_iff in L as [L L4]. apply andb_true_iff in L as [L L3].
  apply andb_true_iff in L as [L1 L2].
  cbn [expr_size] in SZ. apply le_S_inv in SZ.
  cbn [dev_free] in D. apply andb_true_iff in D as [D1 D2].
  set (E := env_of c anon) in *.
  assert (refines1 (eval f c anon coll) (spec_eval E coll)) as Rc by (apply IH; auto; lia).
  destruct (eval f c anon coll) as [cv0 ds0] eqn:EC.
  (* everything the implementation returns carries ds0 *)
  assert (forall s, has_unsupported ds0 = true \/ (has_errors ds0 = true /\ s = SErr) ->
    refines1
      (if is_null cv0 then (dyn_val, ds0 ++ [derr S_IterNull []])
       else if ty_eqb (type_of cv0) TDyn then (with_same_marks dyn_val cv0, ds0)
       else let '(cv, cmk) := unmark cv0 in
       if negb (can_iterate cv) then (dyn_val, ds0 ++ [derr S_IterNonIterable [FTy (type_of cv)]])
       else match for_probe f c anon kvar vvar conde ds0 with
            | inr r => r
            | inl (condmk, ds1) =>
                if negb (is_known cv) then (with_marks dyn_val (marks_union cmk condmk), ds1)
                else match keye with
                     | Some ke => forobj_final group
                         (fold_left (forobj_step f c anon kvar vvar ke vale conde group) (elements cv) ([], [], [cmk], true, ds1))
                     | None => fortup_final
                         (fold_left (fortup_step f c anon kvar vvar vale conde) (elements cv) ([], [cmk], true, ds1))
                     end
            end) s) as BAD.
  { intros s H.
    assert (forall x, has_unsupported (ds0 ++ x) = true \/ (has_errors (ds0 ++ x) = true /\ s = SErr)) as H'.
    { intro x. destruct H as [H|[H ->]]; [left; rewrite has_unsupported_app, H|right; rewrite has_errors_app, H]; auto. }
    destruct (is_null cv0); [apply refines1_bad; apply H'|].
    destruct (ty_eqb (type_of cv0) TDyn); [apply refines1_bad; rewrite <- (app_nil_r ds0); apply H'|].
    destruct (unmark cv0) as [cv cmk]. destruct (negb (can_iterate cv)); [apply refines1_bad; apply H'|].
    pose proof (for_probe_prefix f c anon kvar vvar conde ds0) as PP.
    destruct (for_probe f c anon kvar vvar conde ds0) as [[condmk ds1]|[rv rds]].
    - destruct PP as [x ->]. destruct (negb (is_known cv)); [apply refines1_bad; apply H'|].
      destruct keye as [ke|]; [apply forobj_fold_bad|apply fortup_fold_bad]; apply H'.
    - destruct PP as [x PX]. cbn [snd] in PX. subst rds. apply refines1_bad. apply H'. }
  destruct (has_unsupported ds0) eqn:HU0; [apply BAD; auto|].
  destruct (refines1_use _ _ Rc HU0) as [[Er S]|[Er [S G]]]; cbn [fst snd] in *; rewrite S in *.
  { apply BAD. auto. }
  clear BAD.
  destruct (is_null cv0) eqn:NC.
  { cbn [orb]. apply refines1_errs. rewrite has_errors_app. simpl. apply orb_true_r. }
  rewrite (good_not_dyn cv0 G NC), (good_unmark cv0 G). cbn [orb].
  destruct (can_iterate cv0) eqn:CI; cbn [negb].
  2: { apply refines1_errs. rewrite has_errors_app. simpl. apply orb_true_r. }
  cbv beta iota in D2. cbn [orb negb] in D2. apply andb_true_iff in D2 as [D2 D3].
  rewrite (good_is_known cv0 G). cbn [negb].
  (* the probe passes by the side condition *)
  assert (exists mk x, for_probe f c anon kvar vvar conde ds0 = inl (mk, ds0 ++ x) /\
          (has_unsupported x = false -> has_errors x = false)) as [pmk [px [PR PX]]].
  { unfold for_probe. destruct conde as [ce|].
    - destruct (eval f (child_ctx c (for_scope kvar vvar dyn_val dyn_val)) anon ce) as [r cds].
      apply andb_true_iff in D2 as [D2 D2c]. apply andb_true_iff in D2 as [D2a D2b].
      apply negb_true_iff in D2a. apply negb_true_iff in D2b. rewrite D2b.
      destruct (conv r TBool); try discriminate D2c. rewrite D2a. do 2 eexists. split; [reflexivity|auto].
    - exists [], []. rewrite app_nil_r. split; auto. }
  rewrite PR.
  destruct (has_unsupported px) eqn:HUx.
  { destruct keye as [ke|]; [apply forobj_fold_bad|apply fortup_fold_bad]; left;
      unfold fo_diags, ft_diags; cbn [snd]; rewrite has_unsupported_app, HUx; apply orb_true_r. }
  specialize (PX eq_refl).
  assert (has_errors (ds0 ++ px) = false) as ED by (rewrite has_errors_app, Er, PX; reflexivity).
  (* every element's sub-evaluations refine *)
  assert (Forall (for_elem_ok f c anon kvar vvar keye vale conde) (elements cv0)) as OK.
  { pose proof (elements_good cv0 G) as EG. rewrite Forall_forall in *. intros kv Hin.
    destruct (EG kv Hin) as [Gk Gv]. rewrite forallb_forall in D3. specialize (D3 kv Hin).
    cbv zeta in D3. apply andb_true_iff in D3 as [D3a D3b].
    unfold for_elem_ok. cbv zeta.
    set (cc := child_ctx c (for_scope kvar vvar (fst kv) (snd kv))) in *.
    assert (known_unmarked_ctx cc = true) as Kc by (apply child_ctx_ok; auto; apply for_scope_good; auto).
    assert (funcs_ok cc) as FOc by (apply child_funcs_ok; auto).
    split.
    - intros ce ->. apply IH; auto. lia.
    - intro KP.
      assert ((match keye with Some ke => dev_free f cc anon ke | None => true end) && dev_free f cc anon vale = true) as D4.
      { destruct conde as [ce|]; cbn [keep_of] in KP; [|exact D3b].
        destruct (spec_eval (env_of cc anon) ce) as [b|]; [|discriminate KP]. rewrite KP in D3b. exact D3b. }
      apply andb_true_iff in D4 as [D4a D4b]. split.
      + intros ke ->. apply IH; auto. lia.
      + apply IH; auto. lia. }
  destruct keye as [ke|].
  - cbn [orb negb]. assert (acc_of group [] [] = []) as AE by (destruct group; reflexivity).
    match goal with |- refines1 _ ?s =>
      replace s with (forobj_spec_rest E kvar vvar ke vale conde group (elements cv0) (acc_of group [] []))
        by (unfold forobj_spec_rest; rewrite AE; reflexivity) end.
    apply forobj_fold; auto. rewrite AE. reflexivity.
  - change (refines1 (fortup_final
              (fold_left (fortup_step f c anon kvar vvar vale conde) (elements cv0) ([], [[]], true, ds0 ++ px)))
              (fortup_spec_rest E kvar vvar vale conde (elements cv0) [])).
    apply fortup_fold; auto.
Qed.

(* ---- splat ------------------------------------------------------------------------------------------ *)
Lemma has_errors_concat (l : list (list diag)) : has_errors (concat l) = existsb has_errors l.
Proof. induction l as [|x r IH]; simpl; [reflexivity|]. rewrite has_errors_app, IH. reflexivity. Qed.

Ltac crush_head2 := repeat lazymatch goal with
  | |- refines1 (match ?x with _ => _ end) _ => destruct_inner x
  end.

Lemma existsb_map_snd (l : list (val * list diag)) :
  existsb has_errors (map snd l) = existsb (fun r : val * list diag => has_errors (snd r)) l.
Proof. induction l as [|x r IH]; simpl; [reflexivity|]. rewrite IH. reflexivity. Qed.

Lemma splat_tail f c each E ds T (items : list (val * val)) :
  Forall (fun kv => refines1 (eval f c (Some (snd kv)) each) (spec_eval (bind_anon E (snd kv)) each)) items ->
  has_errors ds = false -> has_unsupported ds = false ->
  refines1
    (if negb (negb (existsb (fun r : val * list diag => has_errors (snd r))
                     (map (fun kv : val * val => eval f c (Some (snd kv)) each) items)))
     then (VUnk T rf_none, ds ++ concat (map snd (map (fun kv : val * val => eval f c (Some (snd kv)) each) items)))
     else (VTuple (map fst (map (fun kv : val * val => eval f c (Some (snd kv)) each) items)),
           ds ++ concat (map snd (map (fun kv : val * val => eval f c (Some (snd kv)) each) items))))
    (match all_sok (map (fun v => spec_eval (bind_anon E v) each) (map snd items)) with
     | Some x => SOk (VTuple x) | None => SErr end).
Proof.
  intros F Ed HUd.
  set (g := fun kv : val * val => eval f c (Some (snd kv)) each) in *.
  set (sg := fun kv : val * val => spec_eval (bind_anon E (snd kv)) each) in *.
  replace (map (fun v => spec_eval (bind_anon E v) each) (map snd items)) with (map sg items)
    by (unfold sg; rewrite map_map; reflexivity).
  pose proof (map_refines g sg items F) as MR.
  assert (existsb (fun r : val * list diag => has_errors (snd r)) (map g items) =
          has_errors (concat (map snd (map g items)))) as EX.
  { rewrite has_errors_concat. rewrite existsb_map_snd. reflexivity. }
  rewrite EX. destruct (has_errors (concat (map snd (map g items)))) eqn:HE; cbn [negb];
    apply refines1_intro; intro HU; rewrite has_unsupported_app, HUd in HU; cbn [orb] in HU;
    destruct (MR HU) as [[E1 S1]|[E1 [S1 G1]]]; try congruence; rewrite S1.
  - left. rewrite has_errors_app, HE, orb_true_r. auto.
  - right. rewrite has_errors_app, Ed, HE. repeat split; auto. rewrite good_VTuple. exact G1.
Qed.

Lemma splat_refines f c anon src each :
  IHf f -> known_unmarked_ctx c = true -> funcs_ok c -> anon_ok anon = true ->
  lits_ok (ESplat src each) = true -> (expr_size (ESplat src each) <= S f)%nat ->
  dev_free (S f) c anon (ESplat src each) = true ->
  refines1 (eval (S f) c anon (ESplat src each)) (spec_eval (env_of c anon) (ESplat src each)).
Proof.
  intros IH K FO A L SZ D. rewrite eval_ESplat. cbn [spec_eval].
  cbn [lits_ok] in L. apply andb_true_iff in L as [L1 L2].
  cbn [expr_size] in SZ. apply le_S_inv in SZ.
  cbn [dev_free] in D. apply andb_true_iff in D as [D1 D2].
  set (E := env_of c anon) in *.
  assert (refines1 (eval f c anon src) (spec_eval E src)) as Rs by (apply IH; auto; lia).
  destruct (eval f c anon src) as [sv0 ds] eqn:ES.
  destruct (has_errors ds) eqn:Er.
  { intro HU. cbn [snd] in HU. destruct (refines1_use _ _ Rs HU) as [[_ ->]|[X _]]; [|simpl in X; congruence].
    unfold result_of. simpl. rewrite Er. split; [reflexivity|discriminate]. }
  destruct (has_unsupported ds) eqn:HUd.
  { crush_head2; apply refines1_bad; left; rewrite ?has_unsupported_app, HUd; reflexivity. }
  destruct (refines1_use _ _ Rs HUd) as [[X _]|[_ [S G]]]; [simpl in X; congruence|].
  cbn [fst snd] in *. rewrite S in *. cbv beta iota in D2.
  destruct (is_null sv0) eqn:NS.
  { rewrite good_is_null in NS by auto. destruct sv0; try discriminate NS.
    destruct t; cbn [type_of negb is_sequence with_same_marks marks_of unmark snd with_marks];
      try (apply refines1_intro; intro HU; right; rewrite Er; auto; fail);
      apply refines1_errs; rewrite has_errors_app; simpl; apply orb_true_r. }
  cbn [negb andb] in D2. apply andb_true_iff in D2 as [D2 D3].
  rewrite (good_not_dyn sv0 G NS).
  destruct sv0; try discriminate NS; try discriminate D2;
    try (rewrite good_VMark in G; discriminate); try (rewrite good_VUnk in G; discriminate).
  all: assert (forall v, good v = true -> dev_free f c (Some v) each = true ->
               refines1 (eval f c (Some v) each) (spec_eval (bind_anon E v) each)) as EACH
         by (intros v Gv Dv; apply (IH c (Some v) each); auto; lia).
  all: cbn [type_of negb is_known unmark fst snd with_same_marks marks_of with_marks andb orb elements is_sequence map index_from] in *.
  (* scalars, maps, objects: upgraded to a single-element tuple *)
  1-4,6: match goal with |- context [bind_anon _ ?v] =>
      assert (dev_free f c (Some v) each = true) as DV
        by (cbn [forallb] in D3; apply andb_true_iff in D3; tauto);
      apply (splat_tail f c each E ds _ [(VNum (nz 0), v)]); auto;
      repeat constructor; cbn [snd]; apply EACH; auto end.
  (* tuple *)
  apply (splat_tail f c each E ds _ (index_from 0 l)); auto.
  rewrite map_snd_index_from in D3. rewrite good_VTuple in G.
  clear -EACH D3 G. generalize 0. induction l as [|x r IHl]; intro i; simpl; constructor.
  - cbn [snd]. simpl in D3. apply andb_true_iff in D3 as [D3a _]. unfold goods in G. simpl in G.
    apply andb_true_iff in G as [Gx _]. apply EACH; auto.
  - apply IHl.
    + simpl in D3. apply andb_true_iff in D3. tauto.
    + unfold goods in *. simpl in G. apply andb_true_iff in G. tauto.
Qed.
