(* Eval/SpecCheck.v — run-time SPEC ORACLE of C01 over the case format of Eval/EvalCheck.v.

   For every generated case (context, AST as dumped from the implementation's own parse, the
   value and diagnostics GO returned) the case files evaluate the specification semantics
   [spec_eval] and compare it with what Go observed:
     spec_status = 2  not applicable: comparison mode <> 0 (inexact numbers), scope not wholly
                      known / unmarked, literals not known, or outside the model's universe
                      (the implementation model says "unsupported");
                 = 0  Go's outcome (value, or "some error diagnostic") is the specification's;
                 = 1  Go differs from the specification.
   [dev_code] is [dev_free] (Eval/SpecRefines_Defs.v) returning WHICH exclusion is hit:
   0 = none (dev_code_free: dev_code = 0 <-> dev_free = true), 1..99 = a refuted deviation
   shape (specdev_*_refuted in Eval/SpecRefines.v), >= 100 = AST-shape / model-limitation guards
   that are not deviations.  impl_refines_spec says: status 1 with code 0 cannot happen for the
   MODEL; the exported list [spec_bad] checks it for the real GO outcomes on every run. *)
From Coq Require Import QArith String.
From HclV Require Import Base.Prelude Cty.Values Cty.Convert Cty.Ops Eval.Impl Eval.Funcs Eval.Vars
  Eval.EvalCheck Eval.Spec Eval.SpecRefines_Base Eval.SpecRefines_Defs.
Open Scope Z_scope.
Open Scope list_scope.

(* ---- deviation codes ------------------------------------------------------------------------ *)
Definition DC_LogicAndShortCircuit := 1.   (* specdev_logic_and_shortcircuit_refuted *)
Definition DC_LogicOrShortCircuit := 2.    (* specdev_logic_or_shortcircuit_refuted *)
Definition DC_LogicNullOperand := 3.       (* specdev_logic_and_null / specdev_logic_or_null *)
Definition DC_ObjConsDupKey := 5.          (* specdev_objcons_dupkey_refuted *)
Definition DC_ObjKeyTraversal := 6.        (* specdev_objkey_traversal_refuted *)
Definition DC_GetAttrMap := 7.             (* specdev_getattr_map_refuted *)
Definition DC_SplatListSet := 8.           (* specdev_splat_list_refuted *)
Definition DC_CondTypedErrorArm := 9.      (* specdev_cond_typed_error_arm(_conv)_refuted *)
Definition DC_ForProbe := 10.              (* specdev_for_probe_refuted *)
Definition DC_ExpandSet := 11.             (* specdev_expand_set_refuted *)
Definition DC_CallDynNull := 12.           (* specdev_call_dynnull_refuted: not a dev_free guard but the clause
                                              param_ok of the function contract funcs_ok; see ctx_params_ok *)
(* guards that are not deviations *)
Definition DC_AnonOutsideSplat := 100.     (* AST shape: EAnon without an enclosing splat *)
Definition DC_JoinNotFor := 101.           (* AST shape: EJoin of something else than a tuple for *)
Definition DC_ExpandNoArgs := 102.         (* AST shape: f(...) without a final argument *)
Definition DC_ExpandArgUnsupported := 103. (* model limitation: unsupported marker of the expanded argument *)
Definition DC_CondMarkedResidual := 104.   (* vacuous mark test on the erroneous unselected arm *)

Definition orz (a b : Z) : Z := if a =? 0 then b else a.
Fixpoint firstz {A} (F : A -> Z) (l : list A) : Z :=
  match l with [] => 0 | x :: r => orz (F x) (firstz F r) end.
Definition leafz (b : bool) (code : Z) : Z := if b then 0 else code.

Definition b_null c := match c with BNull => true | _ => false end.
Definition logic_code (op : binop) (a b : sres) : Z :=
  if b_null (bool_class a) || b_null (bool_class b) then DC_LogicNullOperand
  else match op with OpOr => DC_LogicOrShortCircuit | _ => DC_LogicAndShortCircuit end.

Fixpoint dev_code (fuel : nat) (c : ctx) (anon : option val) (e : expr) {struct fuel} : Z :=
  match fuel with
  | O => 0
  | S f =>
  let dc := dev_code f c anon in
  let E := env_of c anon in
  match e with
  | ELit _ => 0
  | EParen e' | EWrap e' | EUn _ e' => dc e'
  | EAnon => leafz (match anon with Some _ => true | None => false end) DC_AnonOutsideSplat
  | EScopeTrav root steps =>
      leafz (match assoc_get root (e_vars E) with Some v => steps_dev_free steps v | None => true end) DC_GetAttrMap
  | ERelTrav src steps =>
      orz (dc src)
          (leafz (match spec_eval E src with SOk v => steps_dev_free steps v | SErr => true end) DC_GetAttrMap)
  | EIndex a b => orz (dc a) (dc b)
  | ETuple es | ETmpl es => firstz dc es
  | EObjKey w force =>
      if force then dc w
      else match w with
           | EScopeTrav _ (_ :: _) => DC_ObjKeyTraversal
           | _ => match key_identifier w with Some _ => 0 | None => dc w end
           end
  | EObj items =>
      orz (firstz (fun it => orz (dc (fst it)) (dc (snd it))) items)
          (leafz (match all_sok (map (fun it => spec_eval E (fst it)) items) with
                  | Some ks => match all_some (map to_string ks) with Some names => nodup_keys names | None => true end
                  | None => true
                  end) DC_ObjConsDupKey)
  | EBin op a b =>
      orz (orz (dc a) (dc b))
          (leafz (logic_dev_free op (spec_eval E a) (spec_eval E b)) (logic_code op (spec_eval E a) (spec_eval E b)))
  | ECond p t fe =>
      orz (orz (orz (dc p) (dc t)) (dc fe))
      match spec_eval E p with
      | SOk pv =>
          match to_bool pv with
          | Some b =>
              let sel := if b then t else fe in let oth := if b then fe else t in
              match spec_eval E sel, spec_eval E oth with
              | SOk _, SErr => let rv := fst (eval f c anon oth) in
                               orz (leafz (ty_eqb (type_of rv) TDyn) DC_CondTypedErrorArm)
                                   (leafz (negb (is_marked rv)) DC_CondMarkedResidual)
              | _, _ => 0
              end
          | None => 0
          end
      | SErr => 0
      end
  | EJoin t => orz (dc t) (leafz (match t with EFor _ _ _ None _ _ _ => true | _ => false end) DC_JoinNotFor)
  | ECall _ args expand =>
      orz (firstz dc args)
      (if expand then
         match rev args with
         | [] => DC_ExpandNoArgs
         | last :: _ =>
             orz (leafz (match spec_eval E last with SOk v => negb (is_setval v) | SErr => true end) DC_ExpandSet)
                 (leafz (negb (has_unsupported (snd (eval f c anon last)))) DC_ExpandArgUnsupported)
         end
       else 0)
  | EFor kvar vvar coll keye vale conde group =>
      orz (dc coll)
      match spec_eval E coll with
      | SErr => 0
      | SOk cv =>
          if is_null cv || negb (can_iterate cv) then 0 else
          orz
          (leafz match conde with
                 | None => true
                 | Some ce =>
                     let '(r, cds) := eval f (child_ctx c (for_scope kvar vvar dyn_val dyn_val)) anon ce in
                     negb (has_errors cds) && negb (is_null r) &&
                     match conv r TBool with COk _ => true | _ => false end
                 end DC_ForProbe)
          (firstz (fun kv =>
            let cc := child_ctx c (for_scope kvar vvar (fst kv) (snd kv)) in
            let E' := env_of cc anon in
            orz match conde with
                | None => 0
                | Some ce => dev_code f cc anon ce
                end
            (if match conde with
                | None => true
                | Some ce => match spec_eval E' ce with
                             | SOk b => match to_bool b with Some true => true | _ => false end
                             | SErr => false end
                end
             then orz match keye with Some ke => dev_code f cc anon ke | None => 0 end
                      (dev_code f cc anon vale)
             else 0)) (elements cv))
      end
  | ESplat src each =>
      orz (dc src)
      match spec_eval E src with
      | SErr => 0
      | SOk sv =>
          if is_null sv then 0
          else orz (leafz (negb (is_listset sv)) DC_SplatListSet)
                   (firstz (fun v => dev_code f c (Some v) each)
                           (if is_sequence sv then map snd (elements sv) else [sv]))
      end
  end
  end.

(* ---- dev_code = 0 <-> dev_free ----------------------------------------------------------------- *)
Lemma orz_zero a b : orz a b = 0 <-> a = 0 /\ b = 0.
Proof.
  unfold orz. destruct (a =? 0) eqn:E.
  - apply Z.eqb_eq in E. subst. tauto.
  - apply Z.eqb_neq in E. split; [intro H; contradiction|tauto].
Qed.
Lemma leafz_zero b k : k <> 0 -> (leafz b k = 0 <-> b = true).
Proof. intro K. unfold leafz. destruct b; split; intro H; auto; try contradiction; try discriminate. Qed.
Lemma firstz_zero {A} (F : A -> Z) (f : A -> bool) (l : list A) :
  (forall x, In x l -> (F x = 0 <-> f x = true)) -> (firstz F l = 0 <-> forallb f l = true).
Proof.
  induction l as [|x r IH]; intro H; simpl; [tauto|].
  assert (firstz F r = 0 <-> forallb f r = true) as IHl by (apply IH; intros y Hy; apply H; right; exact Hy).
  rewrite orz_zero, andb_true_iff, (H x (or_introl eq_refl)), IHl. tauto.
Qed.
Lemma logic_code_nz op a b : logic_code op a b <> 0.
Proof. unfold logic_code. destruct (_ || _); [discriminate|]. destruct op; discriminate. Qed.

Ltac zb := repeat first [rewrite orz_zero | rewrite andb_true_iff | rewrite leafz_zero by (try discriminate; apply logic_code_nz)].

Theorem dev_code_free : forall fuel c anon e, dev_code fuel c anon e = 0 <-> dev_free fuel c anon e = true.
Proof.
  induction fuel as [|f IH]; intros c anon e; [simpl; tauto|].
  destruct e as [v | root steps | src steps | name args expand | p t fe | a b | es | items | w force
                 | kvar vvar coll keye vale conde group | src each | | op a b | op a | ps | t | a | a];
    cbn [dev_code dev_free]; try (simpl; tauto); try apply IH.
  - (* EScopeTrav *) zb. tauto.
  - (* ERelTrav *) zb. rewrite IH. tauto.
  - (* ECall *) zb. rewrite (firstz_zero _ (dev_free f c anon)) by (intros; apply IH).
    destruct expand; [|tauto]. destruct (rev args) as [|last r]; [split; intros [_ H]; discriminate|].
    zb. tauto.
  - (* ECond *) zb. rewrite !IH.
    destruct (spec_eval (env_of c anon) p) as [pv|]; [|tauto].
    destruct (to_bool pv) as [b|]; [|tauto]. cbv zeta.
    destruct (spec_eval (env_of c anon) (if b then t else fe)); [|tauto].
    destruct (spec_eval (env_of c anon) (if b then fe else t)); [tauto|].
    zb. tauto.
  - (* EIndex *) zb. rewrite !IH. tauto.
  - (* ETuple *) apply firstz_zero. intros; apply IH.
  - (* EObj *) zb.
    rewrite (firstz_zero _ (fun it => dev_free f c anon (fst it) && dev_free f c anon (snd it))).
    + tauto.
    + intros it _. zb. rewrite !IH. tauto.
  - (* EObjKey *) destruct force; [apply IH|].
    destruct w as [| r0 st0 | | | | | | | | | | | | | | | |]; try (destruct (key_identifier _); [tauto|apply IH]).
    destruct st0; [simpl; tauto|split; discriminate].
  - (* EFor *) zb. rewrite IH.
    destruct (spec_eval (env_of c anon) coll) as [cv|]; [|tauto].
    destruct (is_null cv || negb (can_iterate cv)); [tauto|].
    zb.
    match goal with |- context [firstz ?F (elements cv)] =>
      match goal with |- context [forallb ?g (elements cv)] =>
        rewrite (firstz_zero F g) end end.
    + tauto.
    + intros kv _. cbv zeta. zb.
      destruct conde as [ce|].
      * rewrite IH.
        destruct (match spec_eval _ ce with SOk b => match to_bool b with Some true => true | _ => false end | SErr => false end).
        -- zb. destruct keye as [ke|]; rewrite ?IH; tauto.
        -- tauto.
      * zb. destruct keye as [ke|]; rewrite ?IH; tauto.
  - (* ESplat *) zb. rewrite IH.
    destruct (spec_eval (env_of c anon) src) as [sv|]; [|tauto].
    destruct (is_null sv); [tauto|]. zb.
    rewrite (firstz_zero _ (fun v => dev_free f c (Some v) each)) by (intros; apply IH). tauto.
  - (* EAnon *) zb. tauto.
  - (* EBin *) zb. rewrite !IH. tauto.
  - (* ETmpl *) apply firstz_zero. intros; apply IH.
  - (* EJoin *) zb. rewrite IH. tauto.
Qed.

(* ---- the oracle over generated cases ----------------------------------------------------------- *)
Definition go_outcome (c : ecase) : sres :=
  if existsb (fun d => 0 <? d) (c_diags c) then SErr else SOk (c_val c).
Definition sres_eqb (a b : sres) : bool :=
  match a, b with SOk x, SOk y => val_eqb x y | SErr, SErr => true | _, _ => false end.

Definition spec_status (c : ecase) : Z :=
  let e := c_expr c in let cx := c_ctx c in
  if negb ((c_mode c =? 0) && known_unmarked_ctx cx && lits_ok e) then 2
  else if has_unsupported (snd (value cx e)) then 2
  else if sres_eqb (go_outcome c) (spec_eval (env_of cx None) e) then 0 else 1.

(* the decidable clause of funcs_ok: no parameter of any function of the context is dynamically
   typed, accepts null and does not accept dynamically typed values (param_ok) *)
Definition param_okb (p : fparam) : bool := negb (ty_eqb (p_ty p) TDyn && p_null p && negb (p_dyn p)).
Definition fn_params_okb (f : fn) : bool :=
  forallb param_okb (f_params f) && match f_varparam f with Some p => param_okb p | None => true end.
Definition ctx_params_ok (c : ctx) : bool :=
  forallb (fun fr => match ffuncs fr with Some fs => forallb (fun p => fn_params_okb (snd p)) fs | None => true end) c.

Lemma param_okb_ok p : param_okb p = true -> param_ok p.
Proof.
  unfold param_okb, param_ok. intros H T N. rewrite T, N in H. simpl in H.
  destruct (p_dyn p); [reflexivity|discriminate].
Qed.

(* deviation code of a case: the first dev_free exclusion, else DC_CallDynNull when the context
   violates the parameter clause of the function contract (the theorem's hypothesis funcs_ok) *)
Definition case_dev_code (c : ecase) : Z :=
  orz (dev_code (S (expr_size (c_expr c))) (c_ctx c) None (c_expr c))
      (leafz (ctx_params_ok (c_ctx c)) DC_CallDynNull).

(* (index, status, code); the code is only computed for applicable cases *)
Definition c01_verdicts (cs : list ecase) : list (Z * Z * Z) :=
  map (fun ic => let st := spec_status (snd ic) in
                 (fst ic, st, if st =? 2 then 0 else case_dev_code (snd ic)))
      (combine (map Z.of_nat (seq 0 (length cs))) cs).

(* Go differs from the specification outside every excluded shape: contradicts impl_refines_spec
   on real behaviour (model or hypotheses off, or a new deviation): must be [] *)
Definition c01_bad (vs : list (Z * Z * Z)) : list Z :=
  map (fun v => fst (fst v)) (filter (fun v => (snd (fst v) =? 1) && (snd v =? 0)) vs).
(* Go differs under a refuted deviation shape: (index, code), each code a known finding *)
Definition c01_dev (vs : list (Z * Z * Z)) : list (Z * Z) :=
  map (fun v => (fst (fst v), snd v))
      (filter (fun v => (snd (fst v) =? 1) && (0 <? snd v) && (snd v <? 100)) vs).
(* Go differs under an AST-shape / model-limitation guard: to be investigated *)
Definition c01_other (vs : list (Z * Z * Z)) : list (Z * Z) :=
  map (fun v => (fst (fst v), snd v)) (filter (fun v => (snd (fst v) =? 1) && (100 <=? snd v)) vs).
(* cases that meet every hypothesis of impl_refines_spec (and on which Go therefore agrees) *)
Definition c01_applicable (vs : list (Z * Z * Z)) : list Z :=
  map (fun v => fst (fst v)) (filter (fun v => negb (snd (fst v) =? 2) && (snd v =? 0)) vs).
(* excluded shapes on which Go nevertheless agrees with the specification (for the histogram) *)
Definition c01_excluded_agree (vs : list (Z * Z * Z)) : list (Z * Z) :=
  map (fun v => (fst (fst v), snd v)) (filter (fun v => (snd (fst v) =? 0) && negb (snd v =? 0)) vs).

Definition spec_bad_cases (cs : list ecase) : list Z := c01_bad (c01_verdicts cs).
Definition spec_dev_cases (cs : list ecase) : list (Z * Z) := c01_dev (c01_verdicts cs).
Definition spec_other_cases (cs : list ecase) : list (Z * Z) := c01_other (c01_verdicts cs).
Definition spec_applicable_cases (cs : list ecase) : list Z := c01_applicable (c01_verdicts cs).
