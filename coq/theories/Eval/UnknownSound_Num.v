(* Eval/UnknownSound_Num.v — C05: order facts about the boolean comparisons on [num]
   (rationals with two infinities) used by the numeric-bound merge. *)
From Coq Require Import QArith Qreduction Lqa.
From HclV Require Import Base.Prelude Cty.Values.
Open Scope Z_scope.

Definition num_leb (a b : num) : bool := negb (num_ltb b a).

Lemma q_ltb_lt x y : q_ltb x y = true <-> (x < y)%Q.
Proof.
  unfold q_ltb. rewrite negb_true_iff. split.
  - intros H. destruct (Qlt_le_dec x y) as [L|L]; [exact L|]. apply Qle_bool_iff in L. congruence.
  - intros H. destruct (Qle_bool y x) eqn:E; [|reflexivity]. apply Qle_bool_iff in E. lra.
Qed.
Lemma q_ltb_ge x y : q_ltb x y = false <-> (y <= x)%Q.
Proof.
  unfold q_ltb. rewrite negb_false_iff. apply Qle_bool_iff.
Qed.
Lemma q_eqb_eq x y : q_eqb x y = true <-> (x == y)%Q.
Proof. apply Qeq_bool_iff. Qed.
Lemma q_eqb_neq x y : q_eqb x y = false <-> ~ (x == y)%Q.
Proof.
  unfold q_eqb. split.
  - intros H E. apply Qeq_bool_iff in E. congruence.
  - intros H. destruct (Qeq_bool x y) eqn:E; [|reflexivity]. apply Qeq_bool_iff in E. contradiction.
Qed.

Ltac numb :=
  repeat match goal with
         | n : num |- _ => destruct n as [?q|[|]]
         end;
  simpl in *; unfold num_leb in *; simpl in *;
  repeat match goal with
         | H : negb _ = true |- _ => apply negb_true_iff in H
         | H : negb _ = false |- _ => apply negb_false_iff in H
         | |- negb _ = true => apply negb_true_iff
         | |- negb _ = false => apply negb_false_iff
         end;
  repeat match goal with
         | H : q_ltb _ _ = true |- _ => apply q_ltb_lt in H
         | H : q_ltb _ _ = false |- _ => apply q_ltb_ge in H
         | H : q_eqb _ _ = true |- _ => apply q_eqb_eq in H
         | H : q_eqb _ _ = false |- _ => apply q_eqb_neq in H
         end;
  try discriminate; try reflexivity;
  try (apply q_ltb_lt; lra); try (apply q_ltb_ge; lra); try (apply q_eqb_eq; lra);
  try (exfalso; lra).

Lemma num_ltb_irrefl m : num_ltb m m = false.
Proof. numb. Qed.
Lemma num_leb_refl m : num_leb m m = true.
Proof. numb. Qed.
Lemma num_lt_le_trans a b m : num_ltb a b = true -> num_leb b m = true -> num_ltb a m = true.
Proof. intros H1 H2. numb. Qed.
Lemma num_le_lt_trans a b m : num_leb a b = true -> num_ltb b m = true -> num_ltb a m = true.
Proof. intros H1 H2. numb. Qed.
Lemma num_lt_trans a b m : num_ltb a b = true -> num_ltb b m = true -> num_ltb a m = true.
Proof. intros H1 H2. numb. Qed.
Lemma num_lt_le a m : num_ltb a m = true -> num_leb a m = true.
Proof. intros H1. numb. Qed.
Lemma num_le_trans a b m : num_leb a b = true -> num_leb b m = true -> num_leb a m = true.
Proof. intros H1 H2. numb. Qed.
Lemma num_eq_le_l a b m : num_eqb a b = true -> num_leb a m = true -> num_leb b m = true.
Proof. intros H1 H2. numb. Qed.
Lemma num_eq_lt_l a b m : num_eqb a b = true -> num_ltb a m = true -> num_ltb b m = true.
Proof. intros H1 H2. numb. Qed.
Lemma num_eq_le_r a b m : num_eqb a b = true -> num_leb m a = true -> num_leb m b = true.
Proof. intros H1 H2. numb. Qed.
Lemma num_eq_lt_r a b m : num_eqb a b = true -> num_ltb m a = true -> num_ltb m b = true.
Proof. intros H1 H2. numb. Qed.
Lemma num_total a b : num_ltb a b = false -> num_eqb a b = false -> num_ltb b a = true.
Proof.
  intros H1 H2. numb.
Qed.
Lemma num_eqb_sym a b : num_eqb a b = true -> num_eqb b a = true.
Proof. intros H1. numb. Qed.
Lemma num_le_antisym a b m : num_leb a m = true -> num_leb m b = true -> num_eqb a b = true -> num_eqb a m = true.
Proof. intros H1 H2 H3. numb. Qed.
