(* Eval/MarksNI_Eval.v — C06: marks non-interference of the evaluator model, construct by
   construct, by induction on the fuel. *)
From Coq Require Import QArith.
From HclV Require Import Base.Prelude Cty.Values Cty.Convert Cty.Ops Eval.Impl
     Eval.MarksNI Eval.MarksNI_Ops Eval.MarksNI_Index Eval.MarksNI_Conv Eval.MarksNI_Funcs Eval.MarksNI_Steps.
Open Scope Z_scope.

Section NI.
  Variable m : Z.
  Variable idx : val -> val -> val * list diag.

  (* the class of contexts the side conditions speak about: well-formed values, closed under
     the child contexts the evaluator builds (for / splat) *)
  Variable Cx : ctx -> Prop.
  Hypothesis Cx_wf : forall c, Cx c -> wf_ctx c.
  Hypothesis Cx_child : forall c vars, Cx c -> (forall k v, In (k, v) vars -> wf v) -> Cx (child_ctx c vars).
  Hypothesis Cx_frame : forall c, Cx c -> Cx (mkFrame None None :: c).

  (* hcl.Index contract *)
  Definition idx_ni : Prop :=
    forall c1 c2 k1 k2 r1 r2 ds1 ds2,
      leq m c1 c2 -> leq m k1 k2 -> wf c1 -> wf c2 -> wf k1 -> wf k2 ->
      idx c1 k1 = (r1, ds1) -> idx c2 k2 = (r2, ds2) ->
      has_errors ds1 = false -> has_errors ds2 = false ->
      has_unsupported ds1 = false -> has_unsupported ds2 = false ->
      leq m r1 r2.
  (* the same for one fixed key *)
  Definition idx_ni_key (k : val) : Prop :=
    forall c1 c2 r1 r2 ds1 ds2,
      leq m c1 c2 -> wf c1 -> wf c2 ->
      idx c1 k = (r1, ds1) -> idx c2 k = (r2, ds2) ->
      has_errors ds1 = false -> has_errors ds2 = false ->
      has_unsupported ds1 = false -> has_unsupported ds2 = false ->
      leq m r1 r2.
  (* the same restricted to collections that are not of object type *)
  Definition idx_ni_nonobj : Prop :=
    forall c1 c2 k1 k2 r1 r2 ds1 ds2,
      leq m c1 c2 -> leq m k1 k2 -> wf c1 -> wf c2 -> wf k1 -> wf k2 ->
      is_obj (type_of c1) = false -> is_obj (type_of c2) = false ->
      idx c1 k1 = (r1, ds1) -> idx c2 k2 = (r2, ds2) ->
      has_errors ds1 = false -> has_errors ds2 = false ->
      has_unsupported ds1 = false -> has_unsupported ds2 = false ->
      leq m r1 r2.
  (* e never evaluates to a value of object type *)
  Definition nonobj (e : expr) : Prop :=
    forall fuel c a v ds, Cx c -> wf_opt a -> eval_with idx fuel c a e = (v, ds) ->
      has_errors ds = false -> is_obj (type_of v) = false.
  (* an index expression coll[key] is covered if hcl.Index is non-interfering, or the key is a
     literal, or the collection is never an object (list, tuple, map, dynamic) *)
  Definition key_ok (coll key : expr) : Prop :=
    idx_ni \/ (exists k, key = ELit k /\ idx_ni_key k) \/ (idx_ni_nonobj /\ nonobj coll).

  (* e never produces an error diagnostic (in contexts of the class) *)
  Definition nofail (e : expr) : Prop :=
    forall fuel c a, Cx c -> wf_opt a -> has_errors (snd (eval_with idx fuel c a e)) = false.

  (* e has the static type T: every error-free evaluation yields a value of type T *)
  Definition static_ty (e : expr) (T : ty) : Prop :=
    forall fuel c a v ds, Cx c -> wf_opt a -> eval_with idx fuel c a e = (v, ds) ->
      has_errors ds = false -> type_of v = T.

  (* the value of e never carries m below its top level *)
  Definition no_nested (e : expr) : Prop :=
    forall fuel c a v ds, Cx c -> wf_opt a -> eval_with idx fuel c a e = (v, ds) ->
      has_errors ds = false -> mark_mem m (deep_marks (fst (unmark v))) = false.

  (* Side condition of the conditional.
     (1) Both result expressions never fail.  The diagnostics of the branch that is not selected are
         DROPPED by ConditionalExpr.Value (with an unknown condition those of BOTH branches), and a
         failing operation returns an unmarked DynamicVal: whether the unselected arm fails may depend
         on marked data (cond_refuted_dropped_diags; known finding cond-unselected-arm-error-dropped).
     (2) Either no result carries m below its top level, or both results have static types.  The
         result type is unified from the types of both branches and is VISIBLE in the result (declared
         element types); the type of a selected arm such as [t[s]] may depend on marked data
         (cond_refuted_elem_type). *)
  Definition cond_static (te fe : expr) : Prop :=
    exists T F, static_ty te T /\ static_ty fe F.
  Definition cond_side (te fe : expr) : Prop :=
    nofail te /\ nofail fe /\ (cond_static te fe \/ (no_nested te /\ no_nested fe)).

  (* e never evaluates to null *)
  Definition nonnull (e : expr) : Prop :=
    forall fuel c a, Cx c -> wf_opt a -> is_null (fst (eval_with idx fuel c a e)) = false.

  (* Side condition of the splat src[*]each: EITHER the source is never a list or a set and never an
     unknown tuple (then no type is computed from the results of Each), OR the type of each(item)
     depends only on the type of the item: the declared element type of the resulting list (and the
     type of an unknown result) is computed from the types of the results of Each and is visible
     (splat_refuted_elem_type).  Attribute / literal-index traversals of the item, the usual
     form of Each, satisfy the second alternative (each_ty_stable_trav). *)
  Definition splat_simple (src : expr) : Prop :=
    forall fuel c a v ds, Cx c -> wf_opt a -> eval_with idx fuel c a src = (v, ds) ->
      has_errors ds = false -> splat_src_ok v.
  Definition each_ty_stable (each : expr) : Prop :=
    forall fuel c1 c2 x1 x2 v1 d1 v2 d2,
      Cx c1 -> Cx c2 -> low_eq m c1 c2 -> funcs_ni m c1 -> leq m x1 x2 -> wf x1 -> wf x2 ->
      type_of x1 = type_of x2 ->
      eval_with idx fuel c1 (Some x1) each = (v1, d1) -> eval_with idx fuel c2 (Some x2) each = (v2, d2) ->
      clean d1 -> clean d2 -> type_of v1 = type_of v2.
  Definition splat_side (src each : expr) : Prop := splat_simple src \/ each_ty_stable each.

  (* e never evaluates to a value that carries m at the top *)
  Definition nostar (e : expr) : Prop :=
    forall fuel c a v ds, Cx c -> wf_opt a -> eval_with idx fuel c a e = (v, ds) ->
      has_errors ds = false -> is_star m v = false.
  (* Side condition of argument expansion f(a, xs...): the expanded collection xs itself is not
     marked with m (its elements may be).  With xs marked, the number of arguments depends on
     hidden data, and a function with AllowMarked parameters need not propagate the marks of the
     expanded arguments to its result (call_expand_refuted_first). *)
  Definition expand_side (args : list expr) : Prop :=
    match rev args with l :: _ => nostar l | [] => True end.

  Inductive in_fragment : expr -> Prop :=
  | F_lit v : wf v -> in_fragment (ELit v)
  | F_paren e : in_fragment e -> in_fragment (EParen e)
  | F_wrap e : in_fragment e -> in_fragment (EWrap e)
  | F_anon : in_fragment EAnon
  | F_scope root steps : in_fragment (EScopeTrav root steps)
  | F_rel src steps : in_fragment src -> in_fragment (ERelTrav src steps)
  | F_index coll key : in_fragment coll -> in_fragment key -> key_ok coll key -> in_fragment (EIndex coll key)
  | F_tuple es : Forall in_fragment es -> in_fragment (ETuple es)
  | F_objkey w force : in_fragment w -> in_fragment (EObjKey w force)
  | F_un op e : in_fragment e -> in_fragment (EUn op e)
  | F_bin op l r : in_fragment l -> in_fragment r -> (is_sc op = true -> nofail l /\ nofail r) ->
                   in_fragment (EBin op l r)
  | F_tmpl parts : Forall in_fragment parts -> in_fragment (ETmpl parts)
  | F_join e : in_fragment e -> in_fragment (EJoin e)
  | F_call name args expand : Forall in_fragment args -> (expand = true -> expand_side args) ->
                              in_fragment (ECall name args expand)
  | F_cond ce te fe : in_fragment ce -> in_fragment te -> in_fragment fe -> cond_side te fe ->
                      in_fragment (ECond ce te fe)
  | F_for kv vv coll key vl cond group :
      in_fragment coll -> in_fragment vl ->
      (forall ke, key = Some ke -> in_fragment ke /\ nonnull ke) ->
      (forall ce, cond = Some ce -> in_fragment ce /\ nonnull ce) ->
      in_fragment (EFor kv vv coll key vl cond group)
  | F_splat src each : in_fragment src -> in_fragment each -> splat_side src each -> in_fragment (ESplat src each)
  | F_obj items : Forall (fun it => in_fragment (fst it) /\ in_fragment (snd it)) items -> in_fragment (EObj items).

  (* all values the evaluator produces are well-formed (discharged in MarksNI_Wf.v) *)
  Hypothesis Hwf_eval : forall fuel c a e v ds,
    Cx c -> wf_opt a -> in_fragment e -> eval_with idx fuel c a e = (v, ds) -> wf v.

  Definition ni_at (f : nat) (e : expr) : Prop :=
    forall c1 c2 a1 a2 v1 ds1 v2 ds2,
      low_eq m c1 c2 -> leq_opt m a1 a2 -> funcs_ni m c1 -> Cx c1 -> Cx c2 -> wf_opt a1 -> wf_opt a2 ->
      eval_with idx f c1 a1 e = (v1, ds1) -> eval_with idx f c2 a2 e = (v2, ds2) ->
      clean ds1 -> clean ds2 -> leq m v1 v2.

  Section Step.
    Variable f : nat.
    Hypothesis IH : forall e, in_fragment e -> ni_at f e.

    Ltac start := intros c1 c2 a1 a2 v1 ds1 v2 ds2 HL HA HF C1 C2 W1 W2 E1 E2 K1 K2; cbn [eval_with] in E1, E2.

    Ltac useIH Fe A1 A2 Ka Kb :=
      eapply (IH _ Fe); [eassumption|eassumption|eassumption|eassumption|eassumption|eassumption|eassumption
                        |exact A1|exact A2|exact Ka|exact Kb].

    Lemma lit_ni v : ni_at (S f) (ELit v).
    Proof. start. injection E1 as <- _. injection E2 as <- _. apply leq_refl. Qed.

    Lemma paren_ni e : in_fragment e -> ni_at (S f) (EParen e).
    Proof. intro Fe. start. eapply IH; eassumption. Qed.

    Lemma wrap_ni e : in_fragment e -> ni_at (S f) (EWrap e).
    Proof. intro Fe. start. eapply IH; eassumption. Qed.

    Lemma anon_ni : ni_at (S f) EAnon.
    Proof.
      start. injection E1 as <- _. injection E2 as <- _.
      destruct a1, a2; cbn in HA; try contradiction; [exact HA|apply leq_refl].
    Qed.

    Lemma scope_ni root steps : ni_at (S f) (EScopeTrav root steps).
    Proof. start. eapply traverse_abs_leq; eauto. Qed.

    Lemma rel_ni src steps : in_fragment src -> ni_at (S f) (ERelTrav src steps).
    Proof.
      intro Fs. start.
      destruct (eval_with idx f c1 a1 src) as [s1 d1] eqn:S1.
      destruct (eval_with idx f c2 a2 src) as [s2 d2] eqn:S2.
      destruct (traverse_rel steps s1 []) as [r1 e1] eqn:T1.
      destruct (traverse_rel steps s2 []) as [r2 e2] eqn:T2.
      injection E1 as <- <-. injection E2 as <- <-.
      apply clean_app in K1 as [K1a K1b]. apply clean_app in K2 as [K2a K2b].
      eapply traverse_rel_leq; [|eapply Hwf_eval; [exact C1|exact W1|exact Fs|exact S1]|exact T1|exact T2|exact K1b|exact K2b].
      eapply IH; eassumption.
    Qed.

    Lemma index_ni coll key : in_fragment coll -> in_fragment key -> key_ok coll key -> ni_at (S f) (EIndex coll key).
    Proof.
      intros Fc Fk Hk. start.
      destruct (eval_with idx f c1 a1 coll) as [cv1 cd1] eqn:A1.
      destruct (eval_with idx f c2 a2 coll) as [cv2 cd2] eqn:A2.
      destruct (eval_with idx f c1 a1 key) as [kv1 kd1] eqn:B1.
      destruct (eval_with idx f c2 a2 key) as [kv2 kd2] eqn:B2.
      destruct (idx cv1 kv1) as [r1 id1] eqn:I1. destruct (idx cv2 kv2) as [r2 id2] eqn:I2.
      injection E1 as <- <-. injection E2 as <- <-.
      apply clean_app in K1 as [K1a K1]. apply clean_app in K1 as [K1b K1c].
      apply clean_app in K2 as [K2a K2]. apply clean_app in K2 as [K2b K2c].
      assert (Lc : leq m cv1 cv2) by (useIH Fc A1 A2 K1a K2a).
      assert (Wc1 : wf cv1) by (eapply Hwf_eval; [exact C1|exact W1|exact Fc|exact A1]).
      assert (Wc2 : wf cv2) by (eapply Hwf_eval; [exact C2|exact W2|exact Fc|exact A2]).
      destruct K1c as [X1 Y1]. destruct K2c as [X2 Y2].
      destruct Hk as [Hk|[(k & -> & Hk)|[Hk Hno]]].
      - eapply Hk; [exact Lc| |exact Wc1|exact Wc2| | |exact I1|exact I2| | | |]; try assumption.
        + useIH Fk B1 B2 K1b K2b.
        + eapply Hwf_eval; [exact C1|exact W1|exact Fk|exact B1].
        + eapply Hwf_eval; [exact C2|exact W2|exact Fk|exact B2].
      - destruct f as [|f']; cbn [eval_with] in B1, B2.
        + injection B1 as <- <-. unclean K1b.
        + injection B1 as <- _. injection B2 as <- _.
          eapply Hk; [exact Lc|exact Wc1|exact Wc2|exact I1|exact I2| | | |]; assumption.
      - eapply Hk; [exact Lc| |exact Wc1|exact Wc2| | | | |exact I1|exact I2| | | |]; try assumption.
        + useIH Fk B1 B2 K1b K2b.
        + eapply Hwf_eval; [exact C1|exact W1|exact Fk|exact B1].
        + eapply Hwf_eval; [exact C2|exact W2|exact Fk|exact B2].
        + eapply (Hno f c1 a1); [exact C1|exact W1|exact A1|exact (proj1 K1a)].
        + eapply (Hno f c2 a2); [exact C2|exact W2|exact A2|exact (proj1 K2a)].
    Qed.

    Lemma map_ev_leq es : Forall in_fragment es ->
      forall c1 c2 a1 a2,
      low_eq m c1 c2 -> leq_opt m a1 a2 -> funcs_ni m c1 -> Cx c1 -> Cx c2 -> wf_opt a1 -> wf_opt a2 ->
      clean (concat (map snd (map (eval_with idx f c1 a1) es))) ->
      clean (concat (map snd (map (eval_with idx f c2 a2) es))) ->
      Forall2 (leq m) (map fst (map (eval_with idx f c1 a1) es)) (map fst (map (eval_with idx f c2 a2) es)).
    Proof.
      induction 1 as [|e r Fe _ IHr]; intros c1 c2 a1 a2 HL HA HF C1 C2 W1 W2 K1 K2; cbn [map concat] in *.
      - constructor.
      - apply clean_app in K1 as [K1a K1b]. apply clean_app in K2 as [K2a K2b].
        constructor; [|apply IHr; assumption].
        destruct (eval_with idx f c1 a1 e) as [x1 d1] eqn:A1. destruct (eval_with idx f c2 a2 e) as [x2 d2] eqn:A2.
        cbn [fst snd] in *. useIH Fe A1 A2 K1a K2a.
    Qed.

    Lemma tuple_ni es : Forall in_fragment es -> ni_at (S f) (ETuple es).
    Proof.
      intro Fe. start. injection E1 as <- <-. injection E2 as <- <-.
      apply leq_tuple. apply map_ev_leq; assumption.
    Qed.

    Lemma objkey_shape w force :
      exists k : option (val * list diag), forall c a,
        eval_with idx (S f) c a (EObjKey w force) = match k with Some r => r | None => eval_with idx f c a w end.
    Proof.
      destruct force; [exists None; reflexivity|].
      destruct w; try (exists None; reflexivity);
        try (destruct steps; [eexists (Some _)|eexists (Some _)]; intros; cbn [eval_with negb literal_name]; reflexivity).
      destruct v; try (exists None; reflexivity);
        try (eexists (Some _); intros; cbn [eval_with negb literal_name]; reflexivity).
      destruct b; eexists (Some _); intros; cbn [eval_with negb literal_name]; reflexivity.
    Qed.

    Lemma objkey_ni w force : in_fragment w -> ni_at (S f) (EObjKey w force).
    Proof.
      intro Fw. destruct (objkey_shape w force) as [[r|] Hk];
        intros c1 c2 a1 a2 v1 ds1 v2 ds2 HL HA HF C1 C2 W1 W2 E1 E2 K1 K2; rewrite Hk in E1, E2.
      - rewrite E1 in E2. injection E2 as <- _. apply leq_refl.
      - useIH Fw E1 E2 K1 K2.
    Qed.

    Lemma pd_unop op : pd_ty (unop_param op) = true.  Proof. destruct op; reflexivity. Qed.
    Lemma pd_binop op : pd_ty (binop_param op) = true.  Proof. destruct op; reflexivity. Qed.

    Lemma un_ni op e : in_fragment e -> ni_at (S f) (EUn op e).
    Proof.
      intro Fe. start.
      destruct (eval_with idx f c1 a1 e) as [g1 d1] eqn:A1. destruct (eval_with idx f c2 a2 e) as [g2 d2] eqn:A2.
      destruct (conv g1 (unop_param op)) as [x1| |] eqn:X1; try (injection E1 as <- <-; bad K1).
      destruct (conv g2 (unop_param op)) as [x2| |] eqn:X2; try (injection E2 as <- <-; bad K2).
      destruct (has_errors d1) eqn:He1; [injection E1 as <- <-; destruct K1; congruence|].
      destruct (has_errors d2) eqn:He2; [injection E2 as <- <-; destruct K2; congruence|].
      destruct (unmark x1) as [u1 m1] eqn:U1. destruct (unmark x2) as [u2 m2] eqn:U2.
      destruct (call_unop op u1) as [r1| |] eqn:R1; try (injection E1 as <- <-; bad K1).
      destruct (call_unop op u2) as [r2| |] eqn:R2; try (injection E2 as <- <-; bad K2).
      injection E1 as <- <-. injection E2 as <- <-.
      assert (Lg : leq m g1 g2) by (useIH Fe A1 A2 K1 K2).
      assert (Lx : leq m x1 x2) by (eapply conv_leq_pd; [apply pd_unop|exact Lg|exact X1|exact X2]).
      destruct (unmark_leq _ _ _ Lx) as [[P Q]|(P & Q & R)]; rewrite U1, U2 in *; cbn [fst snd] in *.
      - apply stars_leq; apply with_marks_star; assumption.
      - subst m2. apply with_marks_leq; [|apply marks_rel_refl]. eapply call_unop_leq; eassumption.
    Qed.

    Lemma sc_val_nonsc op a b e : is_sc op = false -> sc_val op a b e = None.
    Proof. destruct op; try discriminate; reflexivity. Qed.

    Lemma bin_ni op l r :
      in_fragment l -> in_fragment r -> (is_sc op = true -> nofail l /\ nofail r) -> ni_at (S f) (EBin op l r).
    Proof.
      intros Fl Fr Hsc. intros c1 c2 a1 a2 v1 ds1 v2 ds2 HL HA HF C1 C2 W1 W2 E1 E2 K1 K2.
      rewrite eval_bin_unfold in E1, E2.
      destruct (eval_with idx f c1 a1 l) as [g1 ld1] eqn:A1. destruct (eval_with idx f c1 a1 r) as [h1 rd1] eqn:B1.
      destruct (eval_with idx f c2 a2 l) as [g2 ld2] eqn:A2. destruct (eval_with idx f c2 a2 r) as [h2 rd2] eqn:B2.
      cbv zeta in E1, E2.
      destruct (has_unsupported ld1 || has_unsupported rd1) eqn:U1; [injection E1 as <- <-; unclean K1|].
      destruct (has_unsupported ld2 || has_unsupported rd2) eqn:U2; [injection E2 as <- <-; unclean K2|].
      apply orb_false_iff in U1 as [U1l U1r]. apply orb_false_iff in U2 as [U2l U2r].
      destruct (conv g1 (binop_param op)) as [lv1| |] eqn:CL1;
        destruct (conv h1 (binop_param op)) as [rv1| |] eqn:CR1;
        try (injection E1 as <- <-; cbn [app] in K1; unclean K1).
      destruct (conv g2 (binop_param op)) as [lv2| |] eqn:CL2;
        destruct (conv h2 (binop_param op)) as [rv2| |] eqn:CR2;
        try (injection E2 as <- <-; cbn [app] in K2; unclean K2).
      destruct (unmark lv1) as [lu1 lm1] eqn:UL1. destruct (unmark rv1) as [ru1 rm1] eqn:UR1.
      destruct (unmark lv2) as [lu2 lm2] eqn:UL2. destruct (unmark rv2) as [ru2 rm2] eqn:UR2.
      (* everything follows from the four operand evaluations being error-free *)
      assert (Main : has_errors ld1 = false -> has_errors rd1 = false ->
                     has_errors ld2 = false -> has_errors rd2 = false -> leq m v1 v2).
      { intros El1 Er1 El2 Er2.
        assert (Lg : leq m g1 g2) by (useIH Fl A1 A2 (conj El1 U1l) (conj El2 U2l)).
        assert (Lh : leq m h1 h2) by (useIH Fr B1 B2 (conj Er1 U1r) (conj Er2 U2r)).
        assert (Ll : leq m lv1 lv2) by (eapply conv_leq_pd; [apply pd_binop|exact Lg|exact CL1|exact CL2]).
        assert (Lr : leq m rv1 rv2) by (eapply conv_leq_pd; [apply pd_binop|exact Lh|exact CR1|exact CR2]).
        assert (Wl : wf lv1).
        { eapply conv_wf_pd; [apply pd_binop| |exact CL1]. eapply Hwf_eval; [exact C1|exact W1|exact Fl|exact A1]. }
        assert (Wr : wf rv1).
        { eapply conv_wf_pd; [apply pd_binop| |exact CR1]. eapply Hwf_eval; [exact C1|exact W1|exact Fr|exact B1]. }
        destruct (unmark_rel _ _ _ Ll) as [Ml Xl]. destruct (unmark_rel _ _ _ Lr) as [Mr Xr].
        apply wf_unmark in Wl as [Nl _]. apply wf_unmark in Wr as [Nr _].
        rewrite UL1, UL2 in *. rewrite UR1, UR2 in *. cbn [fst snd] in *.
        pose proof (marks_rel_union _ _ _ _ _ Ml Mr) as Mk.
        assert (Sub : mark_mem m (marks_union lm1 rm1) = false -> leq m lu1 lu2 /\ leq m ru1 ru2).
        { intro Z. rewrite mark_mem_union in Z. apply orb_false_iff in Z as [Z1 Z2]. auto. }
        destruct (mark_mem m (marks_union lm1 rm1)) eqn:Z.
        - (* tainted: both results carry m *)
          assert (Z2 : mark_mem m (marks_union lm2 rm2) = true).
          { destruct Mk as [[_ Q]|Q]; [exact Q|rewrite <- Q; exact Z]. }
          destruct (bin_tail_marked _ _ _ _ _ _ _ _ E1 K1) as [x1 ->].
          destruct (bin_tail_marked _ _ _ _ _ _ _ _ E2 K2) as [x2 ->].
          apply stars_leq; apply with_marks_star; assumption.
        - destruct (Sub eq_refl) as [P Q].
          assert (Em : marks_union lm1 rm1 = marks_union lm2 rm2).
          { destruct Mk as [[Q1 _]|Q1]; [congruence|exact Q1]. }
          unfold bin_tail in E1, E2. rewrite El1 in E1. rewrite El2 in E2.
          rewrite <- (sc_val_leq m op _ _ _ _ false P Q Nl Nr) in E2. rewrite <- Em in E2.
          destruct (sc_val op lu1 ru1 false) as [[sv side]|]; cbn [option_map fst snd] in E1, E2.
          + injection E1 as <- _. injection E2 as <- _. apply leq_refl.
          + rewrite has_errors_app, El1, Er1 in E1. rewrite has_errors_app, El2, Er2 in E2. cbn [orb] in E1, E2.
            destruct (call_binop op lu1 ru1) as [x1| |] eqn:R1; try (injection E1 as <- <-; bad K1).
            destruct (call_binop op lu2 ru2) as [x2| |] eqn:R2; try (injection E2 as <- <-; bad K2).
            injection E1 as <- _. injection E2 as <- _.
            apply with_marks_leq; [|apply marks_rel_refl]. exact (call_binop_leq m op _ _ _ _ _ _ P Q R1 R2). }
      destruct (is_sc op) eqn:Sc.
      - destruct (Hsc eq_refl) as [Nl Nr].
        pose proof (Nl f c1 a1 C1 W1) as X1. rewrite A1 in X1. pose proof (Nr f c1 a1 C1 W1) as Y1. rewrite B1 in Y1.
        pose proof (Nl f c2 a2 C2 W2) as X2. rewrite A2 in X2. pose proof (Nr f c2 a2 C2 W2) as Y2. rewrite B2 in Y2.
        apply Main; assumption.
      - unfold bin_tail in E1, E2. rewrite sc_val_nonsc in E1, E2 by exact Sc. cbn [option_map] in E1, E2.
        destruct (has_errors (ld1 ++ rd1)) eqn:H1; [injection E1 as <- <-; destruct K1; congruence|].
        destruct (has_errors (ld2 ++ rd2)) eqn:H2; [injection E2 as <- <-; destruct K2; congruence|].
        rewrite has_errors_app in H1, H2. apply orb_false_iff in H1 as [? ?]. apply orb_false_iff in H2 as [? ?].
        revert E1 E2. fold (bin_tail op lu1 ru1 (marks_union lm1 rm1) ld1 rd1). intros. apply Main; assumption.
    Qed.


    (* ---- templates ---- *)
    Definition tmpl_inv (s1 s2 : list Z * bool * marks * list diag) : Prop :=
      let '(b1, k1, mk1, _) := s1 in let '(b2, k2, mk2, _) := s2 in
      marks_rel m mk1 mk2 /\ (mark_mem m mk1 = false -> b1 = b2 /\ k1 = k2).

    Lemma tmpl_step_inv p c1 c2 a1 a2 st1 st2 :
      in_fragment p ->
      low_eq m c1 c2 -> leq_opt m a1 a2 -> funcs_ni m c1 -> Cx c1 -> Cx c2 -> wf_opt a1 -> wf_opt a2 ->
      tmpl_inv st1 st2 ->
      clean (snd (tmpl_step (eval_with idx f c1 a1) st1 p)) ->
      clean (snd (tmpl_step (eval_with idx f c2 a2) st2 p)) ->
      tmpl_inv (tmpl_step (eval_with idx f c1 a1) st1 p) (tmpl_step (eval_with idx f c2 a2) st2 p).
    Proof.
      intros Fp HL HA HF C1 C2 W1 W2 Inv K1 K2.
      assert (Kd1 : clean (snd st1 ++ snd (eval_with idx f c1 a1 p))).
      { destruct (tmpl_step_ds2 (eval_with idx f c1 a1) st1 p) as [x Hx]. rewrite Hx in K1.
        apply clean_app in K1 as [K1 _]. exact K1. }
      assert (Kd2 : clean (snd st2 ++ snd (eval_with idx f c2 a2 p))).
      { destruct (tmpl_step_ds2 (eval_with idx f c2 a2) st2 p) as [x Hx]. rewrite Hx in K2.
        apply clean_app in K2 as [K2 _]. exact K2. }
      pose proof (proj2 (proj1 (clean_app _ _) Kd1)) as Kp1.
      pose proof (proj2 (proj1 (clean_app _ _) Kd2)) as Kp2.
      destruct st1 as [[[b1 k1] mk1] d1]. destruct st2 as [[[b2 k2] mk2] d2].
      unfold tmpl_step in *. cbn [tmpl_inv] in Inv. destruct Inv as [Mk Eq].
      destruct (eval_with idx f c1 a1 p) as [pv1 pd1] eqn:A1. destruct (eval_with idx f c2 a2 p) as [pv2 pd2] eqn:A2.
      destruct (is_null pv1) eqn:N1; [cbn [snd] in K1; bad K1|].
      destruct (is_null pv2) eqn:N2; [cbn [snd] in K2; bad K2|].
      destruct (unmark pv1) as [pu1 pm1] eqn:U1. destruct (unmark pv2) as [pu2 pm2] eqn:U2.
      cbn [snd] in Kp1, Kp2, Kd1, Kd2.
      assert (Lp : leq m pv1 pv2) by (useIH Fp A1 A2 Kp1 Kp2).
      assert (Wp : wf pv1) by (eapply Hwf_eval; [exact C1|exact W1|exact Fp|exact A1]).
      destruct (unmark_rel _ _ _ Lp) as [Mp Xp]. apply wf_unmark in Wp as [Np _].
      rewrite U1, U2 in *. cbn [fst snd] in *.
      pose proof (marks_rel_union _ _ _ _ _ Mk Mp) as Mk'.
      assert (Goal' : forall b1' k1' dd1 b2' k2' dd2,
                 (mark_mem m (marks_union mk1 pm1) = false -> b1' = b2' /\ k1' = k2') ->
                 tmpl_inv (b1', k1', marks_union mk1 pm1, dd1) (b2', k2', marks_union mk2 pm2, dd2)).
      { intros. cbn [tmpl_inv]. split; assumption. }
      destruct (mark_mem m (marks_union mk1 pm1)) eqn:Z.
      { (* tainted from here on: only the marks matter *)
        repeat match goal with
               | |- context [match ?y with _ => _ end] => destruct y
               | |- context [if ?y then _ else _] => destruct y
               end; apply Goal'; intro; discriminate. }
      rewrite mark_mem_union in Z. apply orb_false_iff in Z as [Z1 Z2].
      destruct (Eq Z1) as [-> ->]. specialize (Xp Z2).
      destruct (leq_hd _ _ _ Xp Np) as [Hk _].
      rewrite !is_known_hd, U1, U2. cbn [fst]. rewrite <- Hk.
      rewrite !is_known_hd, U1 in K1. rewrite !is_known_hd, U2 in K2. cbn [fst] in K1, K2. rewrite <- Hk in K2.
      destruct (negb (hd_known pu1)); [apply Goal'; auto|].
      destruct (conv pu1 TStr) as [r1| |] eqn:R1; try (cbn [snd] in K1; bad K1).
      destruct (conv pu2 TStr) as [r2| |] eqn:R2; try (cbn [snd] in K2; bad K2).
      assert (Lr : leq m r1 r2) by (eapply (conv_leq_pd m TStr); [reflexivity|exact Xp|exact R1|exact R2]).
      rewrite (proj1 Kd1), (proj1 Kd2).
      leq_heads Lr; try (apply Goal'; auto; fail);
        try (cbn [snd] in K1; bad K1).
      injection Lr as ->. destruct (k2 && negb false); apply Goal'; auto.
    Qed.

    Lemma tmpl_fold_inv parts c1 c2 a1 a2 :
      Forall in_fragment parts ->
      low_eq m c1 c2 -> leq_opt m a1 a2 -> funcs_ni m c1 -> Cx c1 -> Cx c2 -> wf_opt a1 -> wf_opt a2 ->
      forall st1 st2, tmpl_inv st1 st2 ->
      clean (snd (fold_left (tmpl_step (eval_with idx f c1 a1)) parts st1)) ->
      clean (snd (fold_left (tmpl_step (eval_with idx f c2 a2)) parts st2)) ->
      tmpl_inv (fold_left (tmpl_step (eval_with idx f c1 a1)) parts st1)
               (fold_left (tmpl_step (eval_with idx f c2 a2)) parts st2).
    Proof.
      intros Fp HL HA HF C1 C2 W1 W2. induction Fp as [|p r Fp _ IHr]; intros st1 st2 Inv K1 K2; cbn [fold_left] in *.
      - exact Inv.
      - apply IHr; [|exact K1|exact K2].
        apply tmpl_step_inv; try assumption.
        + eapply (fold_clean_mono _ snd); [|exact K1]. intros; apply tmpl_step_ds.
        + eapply (fold_clean_mono _ snd); [|exact K2]. intros; apply tmpl_step_ds.
    Qed.

    Lemma tmpl_ni parts : Forall in_fragment parts -> ni_at (S f) (ETmpl parts).
    Proof.
      intro Fp. intros c1 c2 a1 a2 v1 ds1 v2 ds2 HL HA HF C1 C2 W1 W2 E1 E2 K1 K2.
      rewrite eval_tmpl_unfold in E1, E2.
      pose proof (tmpl_fold_inv parts c1 c2 a1 a2 Fp HL HA HF C1 C2 W1 W2 ([], true, [], []) ([], true, [], [])) as Inv.
      destruct (fold_left (tmpl_step (eval_with idx f c1 a1)) parts ([], true, [], [])) as [[[b1 k1] mk1] d1].
      destruct (fold_left (tmpl_step (eval_with idx f c2 a2)) parts ([], true, [], [])) as [[[b2 k2] mk2] d2].
      injection E1 as <- <-. injection E2 as <- <-. cbn [snd] in Inv.
      destruct Inv as [Mk Eq]; [split; [apply marks_rel_refl|auto]|exact K1|exact K2|].
      apply with_marks_leq'; [exact Mk|]. intro Z. destruct (Eq Z) as [-> ->].
      unfold tmpl_ret. rewrite (proj1 K1), (proj1 K2). apply leq_refl.
    Qed.

    Lemma wf_tuple_elems l : wf (VTuple l) -> Forall wf l.
    Proof. unfold wf. cbn [wfb]. intro H. apply Forall_forall. rewrite forallb_forall in H. exact H. Qed.

    Lemma join_ni te : in_fragment te -> ni_at (S f) (EJoin te).
    Proof.
      intro Ft. intros c1 c2 a1 a2 v1 ds1 v2 ds2 HL HA HF C1 C2 W1 W2 E1 E2 K1 K2.
      rewrite eval_join_unfold in E1, E2.
      destruct (eval_with idx f c1 a1 te) as [t1 d1] eqn:A1. destruct (eval_with idx f c2 a2 te) as [t2 d2] eqn:A2.
      (* the diagnostics of te are a prefix of the final ones *)
      assert (Kd : clean d1 /\ clean d2).
      { split.
        - destruct (ty_eqb (type_of t1) TDyn); [injection E1 as _ <-; exact K1|].
          destruct (negb (is_known t1)); [injection E1 as _ <-; exact K1|].
          destruct (unmark t1) as [u1 m1]. destruct u1; try (injection E1 as _ <-; apply clean_app in K1 as [K1 _]; exact K1).
          pose proof (f_equal snd E1) as X. rewrite join_fin_ds in X. cbn [snd] in X. rewrite <- X in K1.
          apply (fold_clean_mono _ join_ds (fun st v => join_step_ds st v)) in K1. exact K1.
        - destruct (ty_eqb (type_of t2) TDyn); [injection E2 as _ <-; exact K2|].
          destruct (negb (is_known t2)); [injection E2 as _ <-; exact K2|].
          destruct (unmark t2) as [u2 m2]. destruct u2; try (injection E2 as _ <-; apply clean_app in K2 as [K2 _]; exact K2).
          pose proof (f_equal snd E2) as X. rewrite join_fin_ds in X. cbn [snd] in X. rewrite <- X in K2.
          apply (fold_clean_mono _ join_ds (fun st v => join_step_ds st v)) in K2. exact K2. }
      destruct Kd as [Kd1 Kd2].
      assert (Lt : leq m t1 t2) by (useIH Ft A1 A2 Kd1 Kd2).
      assert (Wt : wf t1) by (eapply Hwf_eval; [exact C1|exact W1|exact Ft|exact A1]).
      (* every clean outcome carries the marks of the tuple *)
      assert (Star : forall t d v ds, is_star m t = true ->
                (if ty_eqb (type_of t) TDyn then (with_same_marks (VUnk TStr rf_none) t, d)
                 else if negb (is_known t) then (with_same_marks (VUnk TStr rf_none) t, d)
                 else let '(tu, tm) := unmark t in
                      match tu with
                      | VTuple vs => join_fin (fold_left join_step vs (inl ([], tm, d)))
                      | _ => (dyn_val, d ++ [dunsupported])
                      end) = (v, ds) -> clean ds -> is_star m v = true).
      { intros t d v ds St E K.
        destruct (ty_eqb (type_of t) TDyn); [injection E as <- _; apply with_marks_star, marks_of_star, St|].
        destruct (negb (is_known t)); [injection E as <- _; apply with_marks_star, marks_of_star, St|].
        pose proof (marks_of_star _ _ St) as Mt. unfold marks_of in Mt.
        destruct (unmark t) as [tu tm]. cbn [snd] in Mt.
        destruct tu; try (injection E as _ <-; bad K).
        pose proof (f_equal fst E) as X. cbn [fst] in X. rewrite <- X. apply join_fin_star.
        apply join_fold_taint; [exact Mt|]. rewrite <- join_fin_ds, E. exact K. }
      destruct (is_star m t1) eqn:S1.
      { apply stars_leq; [eapply Star; [exact S1|exact E1|exact K1]|].
        eapply Star; [|exact E2|exact K2]. rewrite <- (leq_is_star _ _ _ Lt). exact S1. }
      destruct (leq_nostar_facts _ _ _ Lt S1 Wt) as (_ & Fk & Ft').
      rewrite <- Ft', <- Fk in E2.
      destruct (ty_eqb (type_of t1) TDyn).
      { injection E1 as <- _. injection E2 as <- _. apply with_same_marks_leq; [apply leq_refl|exact Lt]. }
      destruct (negb (is_known t1)).
      { injection E1 as <- _. injection E2 as <- _. apply with_same_marks_leq; [apply leq_refl|exact Lt]. }
      destruct (unmark_leq _ _ _ Lt) as [[A _]|(A & B & C)].
      { pose proof (marks_of_nostar _ _ S1) as X. unfold marks_of in X. congruence. }
      destruct (wf_unmark _ Wt) as [N Wu].
      destruct (unmark t1) as [u1 m1]. destruct (unmark t2) as [u2 m2]. cbn [fst snd] in *. subst m2.
      leq_heads C; try discriminate N; try (injection E1 as _ <-; bad K1).
      injection C as C. apply map_erase_Forall2 in C.
      pose proof (f_equal fst E1) as X1. pose proof (f_equal fst E2) as X2. cbn [fst] in X1, X2. rewrite <- X1, <- X2.
      apply join_fin_rel. apply join_fold_rel; [exact C|apply wf_tuple_elems; exact Wu| | |].
      - right. split; reflexivity.
      - rewrite <- join_fin_ds, E1. exact K1.
      - rewrite <- join_fin_ds, E2. exact K2.
    Qed.

    (* ---- object constructor ---- *)
    Definition obj_rel (s1 s2 : obj_state) : Prop :=
      (existsb (mark_mem m) (obj_mks s1) = true /\ existsb (mark_mem m) (obj_mks s2) = true) \/
      (let '(v1, mk1, k1, _) := s1 in let '(v2, mk2, k2, _) := s2 in
       Forall2 (leq_kv m) v1 v2 /\ k1 = k2 /\ mk1 = mk2 /\ existsb (mark_mem m) mk1 = false).

    Lemma obj_step_rel it c1 c2 a1 a2 st1 st2 :
      in_fragment (fst it) -> in_fragment (snd it) ->
      low_eq m c1 c2 -> leq_opt m a1 a2 -> funcs_ni m c1 -> Cx c1 -> Cx c2 -> wf_opt a1 -> wf_opt a2 ->
      obj_rel st1 st2 ->
      clean (snd (obj_step (eval_with idx f c1 a1) st1 it)) ->
      clean (snd (obj_step (eval_with idx f c2 a2) st2 it)) ->
      obj_rel (obj_step (eval_with idx f c1 a1) st1 it) (obj_step (eval_with idx f c2 a2) st2 it).
    Proof.
      intros Fk Fv HL HA HF C1 C2 W1 W2 [[T1 T2]|R] K1 K2.
      { left. split; apply obj_step_taint; assumption. }
      assert (Kd1 : clean (snd (eval_with idx f c1 a1 (fst it))) /\ clean (snd (eval_with idx f c1 a1 (snd it)))).
      { destruct (obj_step_ds2 (eval_with idx f c1 a1) st1 it) as [x Hx]. rewrite Hx in K1.
        apply clean_app in K1 as [K1 _]. apply clean_app in K1 as [_ K1]. apply clean_app in K1. exact K1. }
      assert (Kd2 : clean (snd (eval_with idx f c2 a2 (fst it))) /\ clean (snd (eval_with idx f c2 a2 (snd it)))).
      { destruct (obj_step_ds2 (eval_with idx f c2 a2) st2 it) as [x Hx]. rewrite Hx in K2.
        apply clean_app in K2 as [K2 _]. apply clean_app in K2 as [_ K2]. apply clean_app in K2. exact K2. }
      destruct st1 as [[[vals1 mks1] kn1] d1]. destruct st2 as [[[vals2 mks2] kn2] d2].
      destruct R as (Rv & -> & -> & Tn). unfold obj_step in *.
      destruct (eval_with idx f c1 a1 (fst it)) as [k1 kd1] eqn:A1. destruct (eval_with idx f c2 a2 (fst it)) as [k2 kd2] eqn:A2.
      destruct (eval_with idx f c1 a1 (snd it)) as [x1 vd1] eqn:B1. destruct (eval_with idx f c2 a2 (snd it)) as [x2 vd2] eqn:B2.
      cbn [snd] in Kd1, Kd2. destruct Kd1 as [Kk1 Kv1]. destruct Kd2 as [Kk2 Kv2].
      rewrite (proj1 Kk1) in *. rewrite (proj1 Kk2) in *.
      assert (Lk : leq m k1 k2) by (useIH Fk A1 A2 Kk1 Kk2).
      assert (Lx : leq m x1 x2) by (useIH Fv B1 B2 Kv1 Kv2).
      assert (Wk : wf k1) by (eapply Hwf_eval; [exact C1|exact W1|exact Fk|exact A1]).
      destruct (is_null k1) eqn:N1; [cbn [snd] in K1; bad K1|].
      destruct (is_null k2) eqn:N2; [cbn [snd] in K2; bad K2|].
      destruct (unmark_rel _ _ _ Lk) as [Mk Xk]. destruct (wf_unmark _ Wk) as [Nk _].
      destruct (unmark k1) as [u1 m1]. destruct (unmark k2) as [u2 m2]. cbn [fst snd] in *.
      destruct (mark_mem m m1) eqn:Z.
      { (* the key carries m: tainted from here on *)
        assert (Z2 : mark_mem m m2 = true) by (destruct Mk as [[_ Q]|Q]; [exact Q|rewrite <- Q; exact Z]).
        left. unfold obj_mks.
        split; repeat match goal with
                      | |- context [match ?y with _ => _ end] => destruct y
                      end; cbn [fst snd]; rewrite existsb_app; cbn [existsb]; rewrite ?Z, ?Z2, ?orb_true_r; reflexivity. }
      assert (Em : m1 = m2) by (destruct Mk as [[Q _]|Q]; [congruence|exact Q]). subst m2. specialize (Xk eq_refl).
      destruct (conv u1 TStr) as [s1| |] eqn:S1; try (cbn [snd] in K1; bad K1).
      destruct (conv u2 TStr) as [s2| |] eqn:S2; try (cbn [snd] in K2; bad K2).
      assert (Ls : leq m s1 s2) by (eapply (conv_leq_pd m TStr); [reflexivity|exact Xk|exact S1|exact S2]).
      right. assert (Tn' : existsb (mark_mem m) (mks2 ++ [m1]) = false).
      { rewrite existsb_app, Tn. cbn [existsb]. rewrite Z. reflexivity. }
      leq_heads Ls; try (repeat split; auto; fail).
      injection Ls as ->. repeat split; auto. apply assoc_set_leq; assumption.
    Qed.

    Lemma obj_fold_rel items c1 c2 a1 a2 :
      Forall (fun it => in_fragment (fst it) /\ in_fragment (snd it)) items ->
      low_eq m c1 c2 -> leq_opt m a1 a2 -> funcs_ni m c1 -> Cx c1 -> Cx c2 -> wf_opt a1 -> wf_opt a2 ->
      forall st1 st2, obj_rel st1 st2 ->
      clean (snd (fold_left (obj_step (eval_with idx f c1 a1)) items st1)) ->
      clean (snd (fold_left (obj_step (eval_with idx f c2 a2)) items st2)) ->
      obj_rel (fold_left (obj_step (eval_with idx f c1 a1)) items st1)
              (fold_left (obj_step (eval_with idx f c2 a2)) items st2).
    Proof.
      intros Fi HL HA HF C1 C2 W1 W2. induction Fi as [|it r [Fk Fv] _ IHr]; intros st1 st2 R K1 K2; cbn [fold_left] in *.
      - exact R.
      - apply IHr; [|exact K1|exact K2].
        apply obj_step_rel; try assumption.
        + eapply (fold_clean_mono _ snd); [|exact K1]. intros; apply obj_step_ds.
        + eapply (fold_clean_mono _ snd); [|exact K2]. intros; apply obj_step_ds.
    Qed.

    Lemma objcons_ni items :
      Forall (fun it => in_fragment (fst it) /\ in_fragment (snd it)) items -> ni_at (S f) (EObj items).
    Proof.
      intro Fi. intros c1 c2 a1 a2 v1 ds1 v2 ds2 HL HA HF C1 C2 W1 W2 E1 E2 K1 K2.
      rewrite eval_obj_unfold in E1, E2.
      pose proof (obj_fold_rel items c1 c2 a1 a2 Fi HL HA HF C1 C2 W1 W2 ([], [], true, []) ([], [], true, [])) as R.
      destruct (fold_left (obj_step (eval_with idx f c1 a1)) items ([], [], true, [])) as [[[vals1 mks1] kn1] d1].
      destruct (fold_left (obj_step (eval_with idx f c2 a2)) items ([], [], true, [])) as [[[vals2 mks2] kn2] d2].
      cbn [snd] in R.
      assert (Kd : clean d1 /\ clean d2).
      { split; [destruct (negb kn1); injection E1 as _ <-; exact K1|destruct (negb kn2); injection E2 as _ <-; exact K2]. }
      destruct R as [[T1 T2]|(Rv & -> & -> & Tn)]; [right; repeat split; auto|exact (proj1 Kd)|exact (proj2 Kd)| |].
      - unfold obj_mks in T1, T2. cbn [fst snd] in T1, T2.
        apply stars_leq.
        + destruct (negb kn1); injection E1 as <- _; apply with_marks_star; rewrite mark_mem_unions; exact T1.
        + destruct (negb kn2); injection E2 as <- _; apply with_marks_star; rewrite mark_mem_unions; exact T2.
      - destruct (negb kn2); injection E1 as <- _; injection E2 as <- _;
          (apply with_marks_leq; [|apply marks_rel_refl]); [apply leq_refl|apply leq_obj; exact Rv].
    Qed.

    (* ---- function calls ---- *)
    (* two (possibly different) expressions evaluate to low-equal values *)
    Definition ni2 (e1 e2 : expr) : Prop :=
      forall c1 c2 a1 a2 v1 ds1 v2 ds2,
        low_eq m c1 c2 -> leq_opt m a1 a2 -> funcs_ni m c1 -> Cx c1 -> Cx c2 -> wf_opt a1 -> wf_opt a2 ->
        eval_with idx f c1 a1 e1 = (v1, ds1) -> eval_with idx f c2 a2 e2 = (v2, ds2) ->
        clean ds1 -> clean ds2 -> leq m v1 v2 /\ wf v1 /\ wf v2.

    Lemma ni2_frag e : in_fragment e -> ni2 e e.
    Proof.
      intros Fe c1 c2 a1 a2 v1 ds1 v2 ds2 HL HA HF C1 C2 W1 W2 E1 E2 K1 K2. split; [|split].
      - useIH Fe E1 E2 K1 K2.
      - eapply Hwf_eval; [exact C1|exact W1|exact Fe|exact E1].
      - eapply Hwf_eval; [exact C2|exact W2|exact Fe|exact E2].
    Qed.
    Lemma ni2_lit w1 w2 : leq m w1 w2 -> wf w1 -> wf w2 -> ni2 (ELit w1) (ELit w2).
    Proof.
      intros L Ww1 Ww2 c1 c2 a1 a2 v1 ds1 v2 ds2 _ _ _ _ _ _ _ E1 E2 K1 _.
      destruct f as [|f']; cbn [eval_with] in E1, E2; [injection E1 as <- <-; unclean K1|].
      injection E1 as <- _. injection E2 as <- _. auto.
    Qed.

    Lemma call_fold_rel fnv c1 c2 a1 a2 :
      params_noobj fnv = true ->
      low_eq m c1 c2 -> leq_opt m a1 a2 -> funcs_ni m c1 -> Cx c1 -> Cx c2 -> wf_opt a1 -> wf_opt a2 ->
      forall l1 l2, Forall2 ni2 l1 l2 -> forall i st1 st2,
      length (fst st1) = i -> Forall2 (leq m) (fst st1) (fst st2) -> args_fit fnv i ->
      clean (snd (fold_left (call_step (eval_with idx f c1 a1) fnv) (combine (seq i (length l1)) l1) st1)) ->
      clean (snd (fold_left (call_step (eval_with idx f c2 a2) fnv) (combine (seq i (length l2)) l2) st2)) ->
      Forall2 (leq m) (fst (fold_left (call_step (eval_with idx f c1 a1) fnv) (combine (seq i (length l1)) l1) st1))
                      (fst (fold_left (call_step (eval_with idx f c2 a2) fnv) (combine (seq i (length l2)) l2) st2)) /\
      args_fit fnv (length (fst (fold_left (call_step (eval_with idx f c1 a1) fnv) (combine (seq i (length l1)) l1) st1))).
    Proof.
      intros Hpd HL HA HF C1 C2 W1 W2. induction 1 as [|e1 e2 r1 r2 Ne _ IHr]; intros i st1 st2 Hlen Hv Hfit K1 K2;
        cbn [length seq combine fold_left] in *.
      - subst i. split; assumption.
      - assert (K1' : clean (snd (call_step (eval_with idx f c1 a1) fnv st1 (i, e1)))).
        { eapply (fold_clean_mono _ snd); [|exact K1]. intros; apply call_step_ds. }
        assert (K2' : clean (snd (call_step (eval_with idx f c2 a2) fnv st2 (i, e2)))).
        { eapply (fold_clean_mono _ snd); [|exact K2]. intros; apply call_step_ds. }
        assert (Ka1 : clean (snd (eval_with idx f c1 a1 e1))).
        { destruct (call_step_ds2 (eval_with idx f c1 a1) fnv st1 (i, e1)) as [x Hx]. rewrite Hx in K1'.
          apply clean_app in K1' as [K1' _]. apply clean_app in K1' as [_ K1']. exact K1'. }
        assert (Ka2 : clean (snd (eval_with idx f c2 a2 e2))).
        { destruct (call_step_ds2 (eval_with idx f c2 a2) fnv st2 (i, e2)) as [x Hx]. rewrite Hx in K2'.
          apply clean_app in K2' as [K2' _]. apply clean_app in K2' as [_ K2']. exact K2'. }
        apply IHr; try assumption; clear IHr K1 K2;
          destruct st1 as [vals1 d1]; destruct st2 as [vals2 d2]; unfold call_step in *; cbn [fst snd] in *;
          destruct (eval_with idx f c1 a1 e1) as [x1 ad1] eqn:A1; destruct (eval_with idx f c2 a2 e2) as [x2 ad2] eqn:A2;
          cbn [snd] in Ka1, Ka2;
          (destruct (param_for fnv i) as [p|] eqn:P; [|cbn [snd] in K1'; bad K1']);
          (destruct (conv x1 (p_ty p)) as [y1| |] eqn:Y1; try (cbn [snd] in K1'; bad K1'));
          (destruct (conv x2 (p_ty p)) as [y2| |] eqn:Y2; try (cbn [snd] in K2'; bad K2')); cbn [fst].
        + rewrite app_length. cbn [length]. lia.
        + apply Forall2_app_inv; [exact Hv|].
          destruct (Ne c1 c2 a1 a2 x1 ad1 x2 ad2 HL HA HF C1 C2 W1 W2 A1 A2 Ka1 Ka2) as (Lx & Wx1 & Wx2).
          eapply conv_leq; [exact Lx|exact Wx1|exact Wx2|right; eapply param_for_noobj; eassumption|exact Y1|exact Y2].
        + intros j Hj. destruct (Nat.eq_dec j i) as [->|Hne]; [congruence|]. apply Hfit. lia.
    Qed.

    Lemma call_tail_ni name fnv c1 c2 a1 a2 l1 l2 d1 d2 emk v1 ds1 v2 ds2 :
      fn_ok m fnv -> Forall2 ni2 l1 l2 ->
      low_eq m c1 c2 -> leq_opt m a1 a2 -> funcs_ni m c1 -> Cx c1 -> Cx c2 -> wf_opt a1 -> wf_opt a2 ->
      call_tail (eval_with idx f c1 a1) name fnv l1 d1 emk = (v1, ds1) ->
      call_tail (eval_with idx f c2 a2) name fnv l2 d2 emk = (v2, ds2) ->
      clean ds1 -> clean ds2 -> leq m v1 v2.
    Proof.
      intros (Hni & Hpd & _) Hl HL HA HF C1 C2 W1 W2 E1 E2 K1 K2.
      pose proof (Forall2_length _ _ _ Hl) as Len.
      unfold call_tail in E1, E2. rewrite <- Len in E2.
      destruct (length l1 <? length (f_params fnv))%nat; [injection E1 as <- <-; unclean K1|].
      destruct (_ && _); [injection E1 as <- <-; unclean K1|].
      pose proof (call_fold_rel fnv c1 c2 a1 a2 Hpd HL HA HF C1 C2 W1 W2 l1 l2 Hl 0%nat ([], d1) ([], d2)) as R.
      rewrite <- Len in R.
      destruct (fold_left (call_step (eval_with idx f c1 a1) fnv) (combine (seq 0 (length l1)) l1) ([], d1)) as [av1 e1].
      destruct (fold_left (call_step (eval_with idx f c2 a2) fnv) (combine (seq 0 (length l1)) l2) ([], d2)) as [av2 e2].
      cbn [fst snd] in R.
      destruct (has_errors e1) eqn:He1; [injection E1 as <- <-; destruct K1; congruence|].
      destruct (has_unsupported e1) eqn:Hu1; [injection E1 as <- <-; destruct K1; congruence|].
      destruct (has_errors e2) eqn:He2; [injection E2 as <- <-; destruct K2; congruence|].
      destruct (has_unsupported e2) eqn:Hu2; [injection E2 as <- <-; destruct K2; congruence|].
      destruct R as [Rv Rfit]; [reflexivity|constructor|intros j Hj; lia|split; assumption|split; assumption|].
      destruct (fn_call fnv av1) as [r1| | |] eqn:F1; try (injection E1 as <- <-; bad K1).
      destruct (fn_call fnv av2) as [r2| | |] eqn:F2; try (injection E2 as <- <-; bad K2).
      injection E1 as <- _. injection E2 as <- _. apply with_marks_leq; [|apply marks_rel_refl].
      eapply Hni; eassumption.
    Qed.

    Lemma Forall2_diag {A} (R : A -> A -> Prop) (P : A -> Prop) l :
      (forall x, P x -> R x x) -> Forall P l -> Forall2 R l l.
    Proof. intros H. induction 1; constructor; auto. Qed.

    Lemma call_ni name args : Forall in_fragment args -> ni_at (S f) (ECall name args false).
    Proof.
      intro Fa. intros c1 c2 a1 a2 v1 ds1 v2 ds2 HL HA HF C1 C2 W1 W2 E1 E2 K1 K2.
      rewrite eval_call_unfold in E1, E2. rewrite <- (lookup_fn_low_eq m name c1 c2 false HL) in E2.
      destruct (lookup_fn c1 name false) as [[fnv|] b] eqn:L.
      2:{ destruct b; injection E1 as <- <-; unclean K1. }
      destruct (lookup_fn_in _ _ _ _ _ L) as (fr & fs & I1 & I2 & I3).
      pose proof (HF fr fs name fnv I1 I2 I3) as Hok.
      eapply call_tail_ni; [exact Hok| |exact HL|exact HA|exact HF|exact C1|exact C2|exact W1|exact W2|exact E1|exact E2|exact K1|exact K2].
      eapply Forall2_diag; [apply ni2_frag|exact Fa].
    Qed.

    Lemma ty_dispatch {A} (t : ty) (x y z : A) :
      match t with TDyn => x | TTuple _ | TList _ | TSet _ => y | _ => z end
      = if ty_eqb t TDyn then x else if is_seq_ty t then y else z.
    Proof. destruct t; reflexivity. Qed.

    Lemma call_x_ni name args : Forall in_fragment args -> expand_side args -> ni_at (S f) (ECall name args true).
    Proof.
      intros Fa Hx. intros c1 c2 a1 a2 v1 ds1 v2 ds2 HL HA HF C1 C2 W1 W2 E1 E2 K1 K2.
      rewrite eval_call_unfold_x in E1, E2. rewrite <- (lookup_fn_low_eq m name c1 c2 false HL) in E2.
      destruct (lookup_fn c1 name false) as [[fnv|] b] eqn:L.
      2:{ destruct b; injection E1 as <- <-; unclean K1. }
      destruct (lookup_fn_in _ _ _ _ _ L) as (fr & fs & I1 & I2 & I3).
      pose proof (HF fr fs name fnv I1 I2 I3) as Hok.
      unfold call_expanded in E1, E2. unfold expand_side in Hx.
      destruct (rev args) as [|last init_rev] eqn:R; [injection E1 as <- <-; unclean K1|].
      assert (Ea : args = rev init_rev ++ [last]).
      { rewrite <- (rev_involutive args), R. reflexivity. }
      assert (Fl : in_fragment last /\ Forall in_fragment (rev init_rev)).
      { rewrite Ea in Fa. apply Forall_app in Fa as [F1 F2]. inversion F2; subst. split; assumption. }
      destruct Fl as [Fl Fi].
      destruct (eval_with idx f c1 a1 last) as [x1 xd1] eqn:A1. destruct (eval_with idx f c2 a2 last) as [x2 xd2] eqn:A2.
      rewrite !ty_dispatch in E1, E2.
      assert (Kx1 : clean xd1).
      { destruct (has_errors xd1); [injection E1 as _ <-; exact K1|].
        destruct (ty_eqb (type_of x1) TDyn); [destruct (is_null x1); injection E1 as _ <-; [exfalso; bad K1|exact K1]|].
        destruct (is_seq_ty (type_of x1)); [|injection E1 as _ <-; exfalso; bad K1].
        destruct (is_null x1); [injection E1 as _ <-; exfalso; bad K1|].
        destruct (negb (is_known x1)); [injection E1 as _ <-; exact K1|].
        destruct (unmark x1) as [xu xm]. eapply call_tail_ds0. rewrite E1. exact K1. }
      assert (Kx2 : clean xd2).
      { destruct (has_errors xd2); [injection E2 as _ <-; exact K2|].
        destruct (ty_eqb (type_of x2) TDyn); [destruct (is_null x2); injection E2 as _ <-; [exfalso; bad K2|exact K2]|].
        destruct (is_seq_ty (type_of x2)); [|injection E2 as _ <-; exfalso; bad K2].
        destruct (is_null x2); [injection E2 as _ <-; exfalso; bad K2|].
        destruct (negb (is_known x2)); [injection E2 as _ <-; exact K2|].
        destruct (unmark x2) as [xu xm]. eapply call_tail_ds0. rewrite E2. exact K2. }
      assert (Lx : leq m x1 x2) by (useIH Fl A1 A2 Kx1 Kx2).
      assert (Wx1 : wf x1) by (eapply Hwf_eval; [exact C1|exact W1|exact Fl|exact A1]).
      assert (Wx2 : wf x2) by (eapply Hwf_eval; [exact C2|exact W2|exact Fl|exact A2]).
      pose proof (Hx f c1 a1 x1 xd1 C1 W1 A1 (proj1 Kx1)) as Sx.
      destruct (leq_nostar_facts _ _ _ Lx Sx Wx1) as (Fn & Fk & Ft).
      pose proof (is_seq_ty_leq _ _ _ Lx Sx Wx1) as Fq.
      rewrite (proj1 Kx1) in E1. rewrite (proj1 Kx2), <- Fn, <- Fk, <- Ft, <- Fq in E2.
      destruct (ty_eqb (type_of x1) TDyn).
      { destruct (is_null x1); [injection E1 as <- <-; bad K1|]. injection E1 as <- _. injection E2 as <- _.
        apply with_same_marks_leq; [apply leq_refl|exact Lx]. }
      destruct (is_seq_ty (type_of x1)); [|injection E1 as <- <-; bad K1].
      destruct (is_null x1); [injection E1 as <- <-; bad K1|].
      destruct (negb (is_known x1)).
      { injection E1 as <- _. injection E2 as <- _. apply with_same_marks_leq; [apply leq_refl|exact Lx]. }
      pose proof (marks_of_eq _ _ _ Lx Sx) as Me. pose proof (unmark_fst_leq _ _ _ Lx Sx) as Lu.
      destruct (wf_unmark _ Wx1) as [Nu Wu1]. destruct (wf_unmark _ Wx2) as [_ Wu2]. unfold marks_of in Me.
      destruct (unmark x1) as [xu1 xm1]. destruct (unmark x2) as [xu2 xm2]. cbn [fst snd] in *. subst xm2.
      pose proof (elements_leq m _ _ Lu Nu) as Le.
      assert (Em : match elements xu2 with [] => xm1 | _ :: _ => [] end = match elements xu1 with [] => xm1 | _ :: _ => [] end).
      { destruct Le; reflexivity. }
      rewrite Em in E2.
      eapply call_tail_ni; [exact Hok| |exact HL|exact HA|exact HF|exact C1|exact C2|exact W1|exact W2|exact E1|exact E2|exact K1|exact K2].
      apply Forall2_app.
      - eapply Forall2_diag; [apply ni2_frag|exact Fi].
      - pose proof (elements_wf _ Wu1) as We1. pose proof (elements_wf _ Wu2) as We2.
        clear -Le We1 We2 IH. revert We1 We2. induction Le as [|p q r s [_ Lv] _ IHl]; intros We1 We2; cbn [map]; constructor.
        + inversion We1 as [|? ? [_ Wp] _]; subst. inversion We2 as [|? ? [_ Wq] _]; subst.
          apply ni2_lit; [apply with_marks_leq; [exact Lv|apply marks_rel_refl]|apply wf_with_marks, Wp|apply wf_with_marks, Wq].
        + inversion We1; subst. inversion We2; subst. apply IHl; assumption.
    Qed.

    (* ---- conditional ---- *)
    Lemma cond_ni ce te fe :
      in_fragment ce -> in_fragment te -> in_fragment fe -> cond_side te fe -> ni_at (S f) (ECond ce te fe).
    Proof.
      intros Fc Ft Ff (Nt & Nf & Hside).
      intros c1 c2 a1 a2 v1 ds1 v2 ds2 HL HA HF C1 C2 W1 W2 E1 E2 K1 K2.
      rewrite eval_cond_unfold in E1, E2.
      pose proof (Nt f c1 a1 C1 W1) as Et1. pose proof (Nf f c1 a1 C1 W1) as Ef1.
      pose proof (Nt f c2 a2 C2 W2) as Et2. pose proof (Nf f c2 a2 C2 W2) as Ef2.
      destruct (eval_with idx f c1 a1 te) as [tv1 td1] eqn:A1. destruct (eval_with idx f c1 a1 fe) as [fv1 fd1] eqn:B1.
      destruct (eval_with idx f c2 a2 te) as [tv2 td2] eqn:A2. destruct (eval_with idx f c2 a2 fe) as [fv2 fd2] eqn:B2.
      cbn [snd] in Et1, Ef1, Et2, Ef2.
      destruct (has_unsupported td1 || has_unsupported fd1) eqn:U1; [injection E1 as <- <-; unclean K1|].
      destruct (has_unsupported td2 || has_unsupported fd2) eqn:U2; [injection E2 as <- <-; unclean K2|].
      apply orb_false_iff in U1 as [U1t U1f]. apply orb_false_iff in U2 as [U2t U2f].
      assert (Lt : leq m tv1 tv2) by (useIH Ft A1 A2 (conj Et1 U1t) (conj Et2 U2t)).
      assert (Lf : leq m fv1 fv2) by (useIH Ff B1 B2 (conj Ef1 U1f) (conj Ef2 U2f)).
      assert (Wt : wf tv1) by (eapply Hwf_eval; [exact C1|exact W1|exact Ft|exact A1]).
      assert (Wf : wf fv1) by (eapply Hwf_eval; [exact C1|exact W1|exact Ff|exact B1]).
      destruct (cond_uni tv1 fv1) as [[[[rt1 tc1] fc1]|]|[|]] eqn:Un1; try (injection E1 as <- <-; unclean K1).
      destruct (cond_uni tv2 fv2) as [[[[rt2 tc2] fc2]|]|[|]] eqn:Un2; try (injection E2 as <- <-; unclean K2).
      destruct (eval_with idx f c1 a1 ce) as [cv1 cd1] eqn:D1. destruct (eval_with idx f c2 a2 ce) as [cv2 cd2] eqn:D2.
      assert (Kc1 : clean cd1).
      { destruct (cond_tail_ds rt1 tc1 fc1 cv1 cd1 tv1 td1 fv1 fd1) as [x Hx]. rewrite E1 in Hx. cbn [snd] in Hx.
        rewrite Hx in K1. apply clean_app in K1 as [K1 _]. exact K1. }
      assert (Kc2 : clean cd2).
      { destruct (cond_tail_ds rt2 tc2 fc2 cv2 cd2 tv2 td2 fv2 fd2) as [x Hx]. rewrite E2 in Hx. cbn [snd] in Hx.
        rewrite Hx in K2. apply clean_app in K2 as [K2 _]. exact K2. }
      assert (Lc : leq m cv1 cv2) by (useIH Fc D1 D2 Kc1 Kc2).
      assert (Wc : wf cv1) by (eapply Hwf_eval; [exact C1|exact W1|exact Fc|exact D1]).
      destruct (is_star m cv1 || is_star m tv1 || is_star m fv1) eqn:Z.
      - (* some operand carries m: so does every clean result *)
        destruct (cond_tail_marked _ _ _ _ _ _ _ _ _ _ _ E1 K1) as (x1 & ms1 & -> & M1).
        destruct (cond_tail_marked _ _ _ _ _ _ _ _ _ _ _ E2 K2) as (x2 & ms2 & -> & M2).
        assert (Z2 : is_star m cv2 || is_star m tv2 || is_star m fv2 = true).
        { rewrite <- (leq_is_star _ _ _ Lc), <- (leq_is_star _ _ _ Lt), <- (leq_is_star _ _ _ Lf). exact Z. }
        assert (G : forall a b c0, is_star m a || is_star m b || is_star m c0 = true ->
                      mark_mem m (marks_unions [marks_of a; marks_of b; marks_of c0]) = true).
        { intros a b c0 H. rewrite mark_mem_unions. cbn [existsb].
          destruct (is_star m a) eqn:Sa; [rewrite (marks_of_star _ _ Sa); reflexivity|].
          destruct (is_star m b) eqn:Sb; [rewrite (marks_of_star _ _ Sb); apply orb_true_r|].
          destruct (is_star m c0) eqn:Sc; [rewrite (marks_of_star _ _ Sc); rewrite !orb_true_r; reflexivity|].
          discriminate H. }
        apply stars_leq; apply with_marks_star; [apply M1|apply M2]; apply G; assumption.
      - apply orb_false_iff in Z as [Z Z3]. apply orb_false_iff in Z as [Z1 Z2].
        (* what the side condition (2) provides *)
        assert (Wt2 : wf tv2) by (eapply Hwf_eval; [exact C2|exact W2|exact Ft|exact A2]).
        assert (Wf2 : wf fv2) by (eapply Hwf_eval; [exact C2|exact W2|exact Ff|exact B2]).
        assert (Side : cond_uni tv2 fv2 = cond_uni tv1 fv1 /\ type_of tv1 = type_of tv2 /\ type_of fv1 = type_of fv2).
        { destruct Hside as [(T & F & St & Sf)|[Pt Pf]].
          - pose proof (St f c1 a1 tv1 td1 C1 W1 A1 Et1) as Tt1. pose proof (St f c2 a2 tv2 td2 C2 W2 A2 Et2) as Tt2.
            pose proof (Sf f c1 a1 fv1 fd1 C1 W1 B1 Ef1) as Tf1. pose proof (Sf f c2 a2 fv2 fd2 C2 W2 B2 Ef2) as Tf2.
            split; [|split; congruence].
            unfold cond_uni. rewrite <- (is_dyn_null_leq _ _ _ Lt), <- (is_dyn_null_leq _ _ _ Lf), Tt1, Tt2, Tf1, Tf2.
            reflexivity.
          - pose proof (Pt f c1 a1 tv1 td1 C1 W1 A1 Et1) as Pt1. pose proof (Pf f c1 a1 fv1 fd1 C1 W1 B1 Ef1) as Pf1.
            pose proof (leq_deep_eq m _ _ (unmark_fst_leq _ _ _ Lt Z2) Pt1) as Eu.
            pose proof (leq_deep_eq m _ _ (unmark_fst_leq _ _ _ Lf Z3) Pf1) as Ev.
            assert (Et : tv1 = tv2).
            { pose proof (marks_of_eq _ _ _ Lt Z2) as Me. unfold marks_of in Me. clear -Lt Eu Me.
              leq_heads Lt; cbn [unmark fst snd] in *; congruence. }
            assert (Ef : fv1 = fv2).
            { pose proof (marks_of_eq _ _ _ Lf Z3) as Me. unfold marks_of in Me. clear -Lf Ev Me.
              leq_heads Lf; cbn [unmark fst snd] in *; congruence. }
            subst tv2 fv2. repeat split; reflexivity. }
        destruct Side as (Eu & Tt & Tf).
        rewrite Eu, Un1 in Un2. injection Un2 as <- <- <-.
        eapply cond_tail_leq; [exact Lc|exact Lt|exact Lf|exact Z1|exact Z2|exact Z3|exact Wc|exact Wt|exact Wt2|exact Wf|exact Wf2
                              |intros _; left; exact Tt|intros _; left; exact Tf|exact E1|exact E2|exact K1|exact K2].
    Qed.

    (* ---- for expressions: tuple result ---- *)
    Lemma vfalse_match {A} (x y : A) v :
      match v with VBool false => x | _ => y end = if is_vfalse v then x else y.
    Proof. destruct v; try reflexivity. destruct b; reflexivity. Qed.

    Definition forl_rel (s1 s2 : forl_state) : Prop :=
      (existsb (mark_mem m) (forl_mks s1) = true /\ existsb (mark_mem m) (forl_mks s2) = true) \/
      (let '(v1, mk1, k1, _) := s1 in let '(v2, mk2, k2, _) := s2 in
       Forall2 (leq m) v1 v2 /\ mk1 = mk2 /\ k1 = k2 /\ existsb (mark_mem m) mk1 = false).

    Lemma child_ok c1 c2 kvar vvar kv1 kv2 :
      low_eq m c1 c2 -> funcs_ni m c1 -> Cx c1 -> Cx c2 ->
      leq_pair m kv1 kv2 -> wf_pair kv1 -> wf_pair kv2 ->
      low_eq m (for_bind c1 kvar vvar (fst kv1) (snd kv1)) (for_bind c2 kvar vvar (fst kv2) (snd kv2)) /\
      funcs_ni m (for_bind c1 kvar vvar (fst kv1) (snd kv1)) /\
      Cx (for_bind c1 kvar vvar (fst kv1) (snd kv1)) /\ Cx (for_bind c2 kvar vvar (fst kv2) (snd kv2)).
    Proof.
      intros HL HF C1 C2 [Lk Lv] [Wk1 Wv1] [Wk2 Wv2]. split; [|split; [|split]].
      - apply for_bind_low_eq; assumption.
      - apply for_bind_funcs; assumption.
      - apply Cx_child; [exact C1|apply for_bind_vars_wf; assumption].
      - apply Cx_child; [exact C2|apply for_bind_vars_wf; assumption].
    Qed.

    Lemma forl_step_rel c1 c2 a1 a2 kvar vvar conde vale st1 st2 kv1 kv2 :
      in_fragment vale -> (forall ce, conde = Some ce -> in_fragment ce /\ nonnull ce) ->
      low_eq m c1 c2 -> leq_opt m a1 a2 -> funcs_ni m c1 -> Cx c1 -> Cx c2 -> wf_opt a1 -> wf_opt a2 ->
      leq_pair m kv1 kv2 -> wf_pair kv1 -> wf_pair kv2 ->
      forl_rel st1 st2 ->
      clean (snd (forl_step (fun cc e => eval_with idx f cc a1 e) c1 kvar vvar conde vale st1 kv1)) ->
      clean (snd (forl_step (fun cc e => eval_with idx f cc a2 e) c2 kvar vvar conde vale st2 kv2)) ->
      forl_rel (forl_step (fun cc e => eval_with idx f cc a1 e) c1 kvar vvar conde vale st1 kv1)
               (forl_step (fun cc e => eval_with idx f cc a2 e) c2 kvar vvar conde vale st2 kv2).
    Proof.
      intros Fv Hc HL0 HA HF0 C10 C20 W1 W2 Lkv Wkv1 Wkv2 [[T1 T2]|R] K1 K2.
      { left. split; apply forl_step_taint; assumption. }
      destruct (child_ok c1 c2 kvar vvar kv1 kv2 HL0 HF0 C10 C20 Lkv Wkv1 Wkv2) as (HL & HF & C1 & C2).
      destruct st1 as [[[vals1 mks1] kn1] d1]. destruct st2 as [[[vals2 mks2] kn2] d2].
      destruct R as (Rv & -> & -> & Tn).
      destruct conde as [ce|].
      - destruct (Hc ce eq_refl) as [Fce Nn].
        pose proof (Nn f _ a1 C1 W1) as N1. pose proof (Nn f _ a2 C2 W2) as N2.
        assert (Kc1 : clean (snd (eval_with idx f (for_bind c1 kvar vvar (fst kv1) (snd kv1)) a1 ce))).
        { destruct (forl_step_ds2 (fun cc e => eval_with idx f cc a1 e) c1 kvar vvar ce vale (vals1, mks2, kn2, d1) kv1) as [x Hx].
          rewrite Hx in K1. apply clean_app in K1 as [K1 _]. apply clean_app in K1 as [_ K1]. exact K1. }
        assert (Kc2 : clean (snd (eval_with idx f (for_bind c2 kvar vvar (fst kv2) (snd kv2)) a2 ce))).
        { destruct (forl_step_ds2 (fun cc e => eval_with idx f cc a2 e) c2 kvar vvar ce vale (vals2, mks2, kn2, d2) kv2) as [x Hx].
          rewrite Hx in K2. apply clean_app in K2 as [K2 _]. apply clean_app in K2 as [_ K2]. exact K2. }
        unfold forl_step in *. cbv beta in *.
        destruct (eval_with idx f (for_bind c1 kvar vvar (fst kv1) (snd kv1)) a1 ce) as [inc1 cd1] eqn:A1.
        destruct (eval_with idx f (for_bind c2 kvar vvar (fst kv2) (snd kv2)) a2 ce) as [inc2 cd2] eqn:A2.
        cbn [fst snd] in N1, N2, Kc1, Kc2. rewrite N1 in *. rewrite N2 in *.
        assert (Li : leq m inc1 inc2) by (useIH Fce A1 A2 Kc1 Kc2).
        assert (Wi : wf inc1) by (eapply Hwf_eval; [exact C1|exact W1|exact Fce|exact A1]).
        destruct (is_star m inc1) eqn:Si.
        + (* the condition carries m *)
          assert (Si2 : is_star m inc2 = true) by (rewrite <- (leq_is_star _ _ _ Li); exact Si).
          left. unfold forl_mks. split.
          * destruct (negb (is_known inc1)); [|destruct (conv inc1 TBool) as [b| |]; [rewrite vfalse_match; destruct (is_vfalse _);
              [|destruct (eval_with idx f _ a1 vale)]| |]]; cbn [fst snd]; rewrite existsb_app; cbn [existsb];
              rewrite (marks_of_star _ _ Si), ?orb_true_r; reflexivity.
          * destruct (negb (is_known inc2)); [|destruct (conv inc2 TBool) as [b| |]; [rewrite vfalse_match; destruct (is_vfalse _);
              [|destruct (eval_with idx f _ a2 vale)]| |]]; cbn [fst snd]; rewrite existsb_app; cbn [existsb];
              rewrite (marks_of_star _ _ Si2), ?orb_true_r; reflexivity.
        + destruct (leq_nostar_facts _ _ _ Li Si Wi) as (_ & Fk & _).
          rewrite <- (marks_of_eq _ _ _ Li Si), <- Fk in *.
          assert (Tn' : existsb (mark_mem m) (mks2 ++ [marks_of inc1]) = false).
          { rewrite existsb_app, Tn. cbn [existsb]. rewrite (marks_of_nostar _ _ Si). reflexivity. }
          destruct (negb (is_known inc1)); [right; repeat split; auto|].
          destruct (conv_pd_cases m TBool inc1 inc2 eq_refl Li Si Wi) as [(b1 & b2 & E1 & E2 & Lb)|[E Hn]].
          * rewrite E1, E2 in *. rewrite !vfalse_match in *.
            assert (Sb : is_star m b1 = false) by (rewrite (conv_pd_is_star m TBool inc1 b1 eq_refl Wi E1); exact Si).
            assert (Wb : wf b1) by (eapply (conv_wf_pd TBool); [reflexivity|exact Wi|exact E1]).
            rewrite <- (is_vfalse_leq m _ _ (unmark_fst_leq _ _ _ Lb Sb) (proj1 (wf_unmark _ Wb))) in *.
            destruct (is_vfalse (fst (unmark b1))); [right; repeat split; auto|].
            destruct (eval_with idx f (for_bind c1 kvar vvar (fst kv1) (snd kv1)) a1 vale) as [x1 vd1] eqn:B1.
            destruct (eval_with idx f (for_bind c2 kvar vvar (fst kv2) (snd kv2)) a2 vale) as [x2 vd2] eqn:B2.
            cbn [snd] in K1, K2. apply clean_app in K1 as [_ Kv1]. apply clean_app in K2 as [_ Kv2].
            right. repeat split; auto. apply Forall2_app_inv; [exact Rv|]. useIH Fv B1 B2 Kv1 Kv2.
          * rewrite <- E in *. destruct (conv inc1 TBool) as [b| |] eqn:Q; [exfalso; eapply Hn; reflexivity| |].
            -- destruct kn2; [cbn [snd] in K1; bad K1|]. right. repeat split; auto.
            -- cbn [snd] in K1. bad K1.
      - unfold forl_step in *. cbv beta in *.
        destruct (eval_with idx f (for_bind c1 kvar vvar (fst kv1) (snd kv1)) a1 vale) as [x1 vd1] eqn:B1.
        destruct (eval_with idx f (for_bind c2 kvar vvar (fst kv2) (snd kv2)) a2 vale) as [x2 vd2] eqn:B2.
        cbn [snd] in K1, K2. apply clean_app in K1 as [_ Kv1]. apply clean_app in K2 as [_ Kv2].
        right. repeat split; auto. apply Forall2_app_inv; [exact Rv|]. useIH Fv B1 B2 Kv1 Kv2.
    Qed.

    (* ---- for expressions: object result ---- *)
    Definition tnt (mks : list marks) : bool := existsb (mark_mem m) mks.

    Definition co_rel (o1 o2 : (list marks * list diag) + (list marks * bool * list diag)) : Prop :=
      match o1, o2 with
      | inl (mk1, _), inl (mk2, _) => (tnt mk1 = true /\ tnt mk2 = true) \/ (mk1 = mk2 /\ tnt mk1 = false)
      | inr (mk1, k1, _), inr (mk2, k2, _) =>
          (tnt mk1 = true /\ tnt mk2 = true) \/ (mk1 = mk2 /\ k1 = k2 /\ tnt mk1 = false)
      | inl (mk1, _), inr (mk2, _, _) | inr (mk1, _, _), inl (mk2, _) => tnt mk1 = true /\ tnt mk2 = true
      end.

    Lemma foro_cond_rel cc1 cc2 a1 a2 conde mks known d1 d2 :
      (forall ce, conde = Some ce -> in_fragment ce /\ nonnull ce) ->
      low_eq m cc1 cc2 -> leq_opt m a1 a2 -> funcs_ni m cc1 -> Cx cc1 -> Cx cc2 -> wf_opt a1 -> wf_opt a2 ->
      tnt mks = false ->
      (forall ce, conde = Some ce -> clean (snd (eval_with idx f cc1 a1 ce)) /\ clean (snd (eval_with idx f cc2 a2 ce))) ->
      (match foro_cond (fun cc e => eval_with idx f cc a1 e) cc1 conde mks known d1 with
       | inl (_, ds) => clean ds | inr (_, _, ds) => clean ds end) ->
      (match foro_cond (fun cc e => eval_with idx f cc a2 e) cc2 conde mks known d2 with
       | inl (_, ds) => clean ds | inr (_, _, ds) => clean ds end) ->
      co_rel (foro_cond (fun cc e => eval_with idx f cc a1 e) cc1 conde mks known d1)
             (foro_cond (fun cc e => eval_with idx f cc a2 e) cc2 conde mks known d2).
    Proof.
      intros Hc HL HA HF C1 C2 W1 W2 Tn Kc K1 K2. unfold foro_cond in *.
      destruct conde as [ce|]; [|right; auto].
      destruct (Hc ce eq_refl) as [Fce Nn]. destruct (Kc ce eq_refl) as [Kc1 Kc2].
      pose proof (Nn f cc1 a1 C1 W1) as N1. pose proof (Nn f cc2 a2 C2 W2) as N2.
      destruct (eval_with idx f cc1 a1 ce) as [inc1 cd1] eqn:A1. destruct (eval_with idx f cc2 a2 ce) as [inc2 cd2] eqn:A2.
      cbn [fst snd] in *. rewrite N1 in *. rewrite N2 in *.
      assert (Li : leq m inc1 inc2) by (useIH Fce A1 A2 Kc1 Kc2).
      assert (Wi : wf inc1) by (eapply Hwf_eval; [exact C1|exact W1|exact Fce|exact A1]).
      destruct (is_star m inc1) eqn:Si.
      - assert (Si2 : is_star m inc2 = true) by (rewrite <- (leq_is_star _ _ _ Li); exact Si).
        assert (T1 : forall x, tnt ((mks ++ [marks_of inc1]) ++ x) = true).
        { intro x. unfold tnt. rewrite !existsb_app. cbn [existsb]. rewrite (marks_of_star _ _ Si), !orb_true_r. reflexivity. }
        assert (T2 : forall x, tnt ((mks ++ [marks_of inc2]) ++ x) = true).
        { intro x. unfold tnt. rewrite !existsb_app. cbn [existsb]. rewrite (marks_of_star _ _ Si2), !orb_true_r. reflexivity. }
        pose proof (T1 []) as T1'. pose proof (T2 []) as T2'. rewrite app_nil_r in T1', T2'.
        destruct (conv inc1 TBool) as [b1| |]; [destruct (negb (is_known b1)); [|rewrite vfalse_match; destruct (is_vfalse _)]| |];
          (destruct (conv inc2 TBool) as [b2| |]; [destruct (negb (is_known b2)); [|rewrite vfalse_match; destruct (is_vfalse _)]| |]);
          cbn [co_rel]; try (left; split; auto; fail); split; auto.
      - rewrite <- (marks_of_eq _ _ _ Li Si) in *.
        assert (Tn' : tnt (mks ++ [marks_of inc1]) = false).
        { unfold tnt in *. rewrite existsb_app, Tn. cbn [existsb]. rewrite (marks_of_nostar _ _ Si). reflexivity. }
        assert (Tn'' : tnt ((mks ++ [marks_of inc1]) ++ [marks_of inc1]) = false).
        { unfold tnt in *. rewrite existsb_app, Tn'. cbn [existsb]. rewrite (marks_of_nostar _ _ Si). reflexivity. }
        destruct (conv_pd_cases m TBool inc1 inc2 eq_refl Li Si Wi) as [(b1 & b2 & E1 & E2 & Lb)|[E Hn]].
        + rewrite E1, E2 in *. rewrite !vfalse_match in *.
          assert (Sb : is_star m b1 = false) by (rewrite (conv_pd_is_star m TBool inc1 b1 eq_refl Wi E1); exact Si).
          assert (Wb : wf b1) by (eapply (conv_wf_pd TBool); [reflexivity|exact Wi|exact E1]).
          destruct (leq_nostar_facts _ _ _ Lb Sb Wb) as (_ & Fk & _). rewrite <- Fk in *.
          rewrite <- (is_vfalse_leq m _ _ (unmark_fst_leq _ _ _ Lb Sb) (proj1 (wf_unmark _ Wb))) in *.
          destruct (negb (is_known b1)); [right; auto|].
          destruct (is_vfalse (fst (unmark b1))); right; auto.
        + rewrite <- E in *. destruct (conv inc1 TBool) as [b| |] eqn:Q; [exfalso; eapply Hn; reflexivity| |].
          * destruct known; [bad K1|]. right; auto.
          * bad K1.
    Qed.

    Definition grp_rel := Forall2 (rel_kv (Forall2 (leq m))).
    Definition foro_rel (s1 s2 : foro_state) : Prop :=
      (tnt (foro_mks s1) = true /\ tnt (foro_mks s2) = true) \/
      (let '(v1, g1, mk1, k1, _) := s1 in let '(v2, g2, mk2, k2, _) := s2 in
       Forall2 (leq_kv m) v1 v2 /\ grp_rel g1 g2 /\ mk1 = mk2 /\ k1 = k2 /\ tnt mk1 = false).

    Lemma foro_body_rel cc1 cc2 a1 a2 ke vale group vals1 vals2 g1 g2 known mks d1 d2 :
      in_fragment ke -> nonnull ke -> in_fragment vale ->
      low_eq m cc1 cc2 -> leq_opt m a1 a2 -> funcs_ni m cc1 -> Cx cc1 -> Cx cc2 -> wf_opt a1 -> wf_opt a2 ->
      Forall2 (leq_kv m) vals1 vals2 -> grp_rel g1 g2 -> tnt mks = false ->
      clean (snd (foro_body (fun cc e => eval_with idx f cc a1 e) cc1 ke vale group vals1 g1 known mks d1)) ->
      clean (snd (foro_body (fun cc e => eval_with idx f cc a2 e) cc2 ke vale group vals2 g2 known mks d2)) ->
      foro_rel (foro_body (fun cc e => eval_with idx f cc a1 e) cc1 ke vale group vals1 g1 known mks d1)
               (foro_body (fun cc e => eval_with idx f cc a2 e) cc2 ke vale group vals2 g2 known mks d2).
    Proof.
      intros Fk Nn Fv HL HA HF C1 C2 W1 W2 Rv Rg Tn K1 K2.
      assert (Kk1 : clean (snd (eval_with idx f cc1 a1 ke))).
      { destruct (foro_body_shape (fun cc e => eval_with idx f cc a1 e) cc1 ke vale group vals1 g1 known mks d1) as (_ & [dx Hx]).
        rewrite Hx in K1. apply clean_app in K1 as [_ K1]. apply clean_app in K1 as [K1 _]. exact K1. }
      assert (Kk2 : clean (snd (eval_with idx f cc2 a2 ke))).
      { destruct (foro_body_shape (fun cc e => eval_with idx f cc a2 e) cc2 ke vale group vals2 g2 known mks d2) as (_ & [dx Hx]).
        rewrite Hx in K2. apply clean_app in K2 as [_ K2]. apply clean_app in K2 as [K2 _]. exact K2. }
      pose proof (Nn f cc1 a1 C1 W1) as N1. pose proof (Nn f cc2 a2 C2 W2) as N2.
      unfold foro_body in *. cbv beta in *.
      destruct (eval_with idx f cc1 a1 ke) as [kr1 kd1] eqn:A1. destruct (eval_with idx f cc2 a2 ke) as [kr2 kd2] eqn:A2.
      cbn [fst snd] in N1, N2, Kk1, Kk2. rewrite N1 in *. rewrite N2 in *.
      assert (Lk : leq m kr1 kr2) by (useIH Fk A1 A2 Kk1 Kk2).
      assert (Wk : wf kr1) by (eapply Hwf_eval; [exact C1|exact W1|exact Fk|exact A1]).
      destruct (is_star m kr1) eqn:Sk.
      - assert (Sk2 : is_star m kr2 = true) by (rewrite <- (leq_is_star _ _ _ Lk); exact Sk).
        left. unfold foro_mks, tnt. split.
        + destruct (negb (is_known kr1)); [|destruct (conv kr1 TStr) as [kc| |];
            [destruct (fst (unmark kc)); try (destruct (eval_with idx f cc1 a1 vale); destruct group; [|destruct (assoc_get _ vals1)])| |]];
            cbn [fst snd]; rewrite existsb_app; cbn [existsb]; rewrite (marks_of_star _ _ Sk), ?orb_true_r; reflexivity.
        + destruct (negb (is_known kr2)); [|destruct (conv kr2 TStr) as [kc| |];
            [destruct (fst (unmark kc)); try (destruct (eval_with idx f cc2 a2 vale); destruct group; [|destruct (assoc_get _ vals2)])| |]];
            cbn [fst snd]; rewrite existsb_app; cbn [existsb]; rewrite (marks_of_star _ _ Sk2), ?orb_true_r; reflexivity.
      - destruct (leq_nostar_facts _ _ _ Lk Sk Wk) as (_ & Fkn & _).
        rewrite <- (marks_of_eq _ _ _ Lk Sk), <- Fkn in *.
        assert (Tn' : tnt (mks ++ [marks_of kr1]) = false).
        { unfold tnt in *. rewrite existsb_app, Tn. cbn [existsb]. rewrite (marks_of_nostar _ _ Sk). reflexivity. }
        destruct (negb (is_known kr1)); [right; repeat split; auto|].
        destruct (conv_pd_cases m TStr kr1 kr2 eq_refl Lk Sk Wk) as [(kc1 & kc2 & E1 & E2 & Lc)|[E Hn]].
        + rewrite E1, E2 in *.
          assert (Sc : is_star m kc1 = false) by (rewrite (conv_pd_is_star m TStr kr1 kc1 eq_refl Wk E1); exact Sk).
          assert (Wc : wf kc1) by (eapply (conv_wf_pd TStr); [reflexivity|exact Wk|exact E1]).
          pose proof (unmark_fst_leq _ _ _ Lc Sc) as Lu. destruct (wf_unmark _ Wc) as [Nu _].
          revert Lu Nu K1 K2. generalize (fst (unmark kc1)) (fst (unmark kc2)). intros u1 u2 Lu Nu K1 K2.
          leq_heads Lu; try discriminate Nu; try (cbn [snd] in K1; bad K1).
          injection Lu as ->.
          destruct (eval_with idx f cc1 a1 vale) as [x1 vd1] eqn:B1. destruct (eval_with idx f cc2 a2 vale) as [x2 vd2] eqn:B2.
          assert (Kv : clean vd1 /\ clean vd2).
          { destruct group; [|destruct (assoc_get s0 vals1); destruct (assoc_get s0 vals2)]; cbn [snd] in K1, K2;
              repeat (apply clean_app in K1; destruct K1 as [K1 ?]); repeat (apply clean_app in K2; destruct K2 as [K2 ?]);
              split; assumption. }
          destruct Kv as [Kv1 Kv2].
          assert (Lx : leq m x1 x2) by (useIH Fv B1 B2 Kv1 Kv2).
          destruct group.
          * right. repeat split; auto. apply assoc_set_rel; [exact Rg|].
            pose proof (assoc_get_rel (Forall2 (leq m)) s0 _ _ Rg) as G.
            destruct (assoc_get s0 g1), (assoc_get s0 g2); try contradiction;
              apply Forall2_app_inv; try assumption; constructor.
          * pose proof (assoc_get_leq m s0 _ _ Rv) as G.
            destruct (assoc_get s0 vals1), (assoc_get s0 vals2); try contradiction.
            -- cbn [snd] in K1. bad K1.
            -- right. repeat split; auto. apply assoc_set_leq; assumption.
        + rewrite <- E in *. destruct (conv kr1 TStr) as [b| |] eqn:Q; [exfalso; eapply Hn; reflexivity| |].
          * destruct known; [cbn [snd] in K1; bad K1|]. right. repeat split; auto.
          * cbn [snd] in K1. bad K1.
    Qed.

    Lemma foro_step_rel c1 c2 a1 a2 kvar vvar conde ke vale group st1 st2 kv1 kv2 :
      in_fragment vale -> in_fragment ke -> nonnull ke ->
      (forall ce, conde = Some ce -> in_fragment ce /\ nonnull ce) ->
      low_eq m c1 c2 -> leq_opt m a1 a2 -> funcs_ni m c1 -> Cx c1 -> Cx c2 -> wf_opt a1 -> wf_opt a2 ->
      leq_pair m kv1 kv2 -> wf_pair kv1 -> wf_pair kv2 ->
      foro_rel st1 st2 ->
      clean (snd (foro_step (fun cc e => eval_with idx f cc a1 e) c1 kvar vvar conde ke vale group st1 kv1)) ->
      clean (snd (foro_step (fun cc e => eval_with idx f cc a2 e) c2 kvar vvar conde ke vale group st2 kv2)) ->
      foro_rel (foro_step (fun cc e => eval_with idx f cc a1 e) c1 kvar vvar conde ke vale group st1 kv1)
               (foro_step (fun cc e => eval_with idx f cc a2 e) c2 kvar vvar conde ke vale group st2 kv2).
    Proof.
      intros Fv Fk Nk Hc HL0 HA HF0 C10 C20 W1 W2 Lkv Wkv1 Wkv2 [[T1 T2]|R] K1 K2.
      { left. split; apply foro_step_taint; assumption. }
      destruct (child_ok c1 c2 kvar vvar kv1 kv2 HL0 HF0 C10 C20 Lkv Wkv1 Wkv2) as (HL & HF & C1 & C2).
      rewrite !foro_step_eq in *.
      destruct st1 as [[[[vals1 g1] mks1] kn1] d1]. destruct st2 as [[[[vals2 g2] mks2] kn2] d2].
      destruct R as (Rv & Rg & -> & -> & Tn). cbv zeta in *.
      set (cc1 := for_bind c1 kvar vvar (fst kv1) (snd kv1)) in *.
      set (cc2 := for_bind c2 kvar vvar (fst kv2) (snd kv2)) in *.
      pose proof (foro_cond_shape (fun cc e => eval_with idx f cc a1 e) cc1 conde mks2 kn2 d1) as Sh1.
      pose proof (foro_cond_shape (fun cc e => eval_with idx f cc a2 e) cc2 conde mks2 kn2 d2) as Sh2.
      assert (Kc : forall ce, conde = Some ce ->
                 clean (snd (eval_with idx f cc1 a1 ce)) /\ clean (snd (eval_with idx f cc2 a2 ce))).
      { intros ce ->.
        destruct (foro_cond_ds2 (fun cc e => eval_with idx f cc a1 e) cc1 ce mks2 kn2 d1) as [x1 Hx1].
        destruct (foro_cond_ds2 (fun cc e => eval_with idx f cc a2 e) cc2 ce mks2 kn2 d2) as [x2 Hx2].
        split.
        - destruct (foro_cond _ cc1 (Some ce) mks2 kn2 d1) as [[mk ds]|[[mk kn] ds]]; subst ds.
          + destruct (foro_body_shape (fun cc e => eval_with idx f cc a1 e) cc1 ke vale group vals1 g1 kn2 mk
                        ((d1 ++ snd (eval_with idx f cc1 a1 ce)) ++ x1)) as (_ & [dx Hd]).
            rewrite Hd in K1. apply clean_app in K1 as [K1 _]. apply clean_app in K1 as [K1 _].
            apply clean_app in K1 as [_ K1]. exact K1.
          + cbn [snd] in K1. apply clean_app in K1 as [K1 _]. apply clean_app in K1 as [_ K1]. exact K1.
        - destruct (foro_cond _ cc2 (Some ce) mks2 kn2 d2) as [[mk ds]|[[mk kn] ds]]; subst ds.
          + destruct (foro_body_shape (fun cc e => eval_with idx f cc a2 e) cc2 ke vale group vals2 g2 kn2 mk
                        ((d2 ++ snd (eval_with idx f cc2 a2 ce)) ++ x2)) as (_ & [dx Hd]).
            rewrite Hd in K2. apply clean_app in K2 as [K2 _]. apply clean_app in K2 as [K2 _].
            apply clean_app in K2 as [_ K2]. exact K2.
          + cbn [snd] in K2. apply clean_app in K2 as [K2 _]. apply clean_app in K2 as [_ K2]. exact K2. }
      assert (Kd1 : match foro_cond (fun cc e => eval_with idx f cc a1 e) cc1 conde mks2 kn2 d1 with
                    | inl (_, ds) => clean ds | inr (_, _, ds) => clean ds end).
      { destruct (foro_cond _ cc1 conde mks2 kn2 d1) as [[mk ds]|[[mk kn] ds]]; [|exact K1].
        destruct (foro_body_shape (fun cc e => eval_with idx f cc a1 e) cc1 ke vale group vals1 g1 kn2 mk ds) as (_ & [dx Hd]).
        rewrite Hd in K1. apply clean_app in K1 as [K1 _]. exact K1. }
      assert (Kd2 : match foro_cond (fun cc e => eval_with idx f cc a2 e) cc2 conde mks2 kn2 d2 with
                    | inl (_, ds) => clean ds | inr (_, _, ds) => clean ds end).
      { destruct (foro_cond _ cc2 conde mks2 kn2 d2) as [[mk ds]|[[mk kn] ds]]; [|exact K2].
        destruct (foro_body_shape (fun cc e => eval_with idx f cc a2 e) cc2 ke vale group vals2 g2 kn2 mk ds) as (_ & [dx Hd]).
        rewrite Hd in K2. apply clean_app in K2 as [K2 _]. exact K2. }
      pose proof (foro_cond_rel cc1 cc2 a1 a2 conde mks2 kn2 d1 d2 Hc HL HA HF C1 C2 W1 W2 Tn Kc Kd1 Kd2) as CR.
      destruct (foro_cond _ cc1 conde mks2 kn2 d1) as [[mk1 ds1]|[[mk1 k1] ds1]];
        destruct (foro_cond _ cc2 conde mks2 kn2 d2) as [[mk2 ds2]|[[mk2 k2] ds2]]; cbn [co_rel] in CR.
      - destruct CR as [[T1 T2]|[-> Tn']].
        + left. split.
          * destruct (foro_body_shape (fun cc e => eval_with idx f cc a1 e) cc1 ke vale group vals1 g1 kn2 mk1 ds1) as ([mx ->] & _).
            unfold tnt in *. rewrite existsb_app, T1. reflexivity.
          * destruct (foro_body_shape (fun cc e => eval_with idx f cc a2 e) cc2 ke vale group vals2 g2 kn2 mk2 ds2) as ([mx ->] & _).
            unfold tnt in *. rewrite existsb_app, T2. reflexivity.
        + apply foro_body_rel; assumption.
      - destruct CR as [T1 T2]. left. split; [|exact T2].
        destruct (foro_body_shape (fun cc e => eval_with idx f cc a1 e) cc1 ke vale group vals1 g1 kn2 mk1 ds1) as ([mx ->] & _).
        unfold tnt in *. rewrite existsb_app, T1. reflexivity.
      - destruct CR as [T1 T2]. left. split; [exact T1|].
        destruct (foro_body_shape (fun cc e => eval_with idx f cc a2 e) cc2 ke vale group vals2 g2 kn2 mk2 ds2) as ([mx ->] & _).
        unfold tnt in *. rewrite existsb_app, T2. reflexivity.
      - destruct CR as [[T1 T2]|(-> & -> & Tn')]; [left; split; assumption|right; repeat split; auto].
    Qed.

    (* folds *)
    Lemma forl_fold_rel c1 c2 a1 a2 kvar vvar conde vale :
      in_fragment vale -> (forall ce, conde = Some ce -> in_fragment ce /\ nonnull ce) ->
      low_eq m c1 c2 -> leq_opt m a1 a2 -> funcs_ni m c1 -> Cx c1 -> Cx c2 -> wf_opt a1 -> wf_opt a2 ->
      forall l1 l2, Forall2 (leq_pair m) l1 l2 -> Forall wf_pair l1 -> Forall wf_pair l2 ->
      forall st1 st2, forl_rel st1 st2 ->
      clean (snd (fold_left (forl_step (fun cc e => eval_with idx f cc a1 e) c1 kvar vvar conde vale) l1 st1)) ->
      clean (snd (fold_left (forl_step (fun cc e => eval_with idx f cc a2 e) c2 kvar vvar conde vale) l2 st2)) ->
      forl_rel (fold_left (forl_step (fun cc e => eval_with idx f cc a1 e) c1 kvar vvar conde vale) l1 st1)
               (fold_left (forl_step (fun cc e => eval_with idx f cc a2 e) c2 kvar vvar conde vale) l2 st2).
    Proof.
      intros Fv Hc HL HA HF C1 C2 W1 W2. induction 1 as [|p q r s Lp _ IHr]; intros Wl1 Wl2 st1 st2 R K1 K2;
        cbn [fold_left] in *; [exact R|].
      inversion Wl1 as [|? ? Wp Wr]; subst. inversion Wl2 as [|? ? Wq Ws]; subst.
      apply IHr; try assumption. apply forl_step_rel; try assumption.
      - eapply (fold_clean_mono _ snd); [|exact K1]. intros; apply forl_step_ds.
      - eapply (fold_clean_mono _ snd); [|exact K2]. intros; apply forl_step_ds.
    Qed.

    Lemma foro_fold_rel c1 c2 a1 a2 kvar vvar conde ke vale group :
      in_fragment vale -> in_fragment ke -> nonnull ke ->
      (forall ce, conde = Some ce -> in_fragment ce /\ nonnull ce) ->
      low_eq m c1 c2 -> leq_opt m a1 a2 -> funcs_ni m c1 -> Cx c1 -> Cx c2 -> wf_opt a1 -> wf_opt a2 ->
      forall l1 l2, Forall2 (leq_pair m) l1 l2 -> Forall wf_pair l1 -> Forall wf_pair l2 ->
      forall st1 st2, foro_rel st1 st2 ->
      clean (snd (fold_left (foro_step (fun cc e => eval_with idx f cc a1 e) c1 kvar vvar conde ke vale group) l1 st1)) ->
      clean (snd (fold_left (foro_step (fun cc e => eval_with idx f cc a2 e) c2 kvar vvar conde ke vale group) l2 st2)) ->
      foro_rel (fold_left (foro_step (fun cc e => eval_with idx f cc a1 e) c1 kvar vvar conde ke vale group) l1 st1)
               (fold_left (foro_step (fun cc e => eval_with idx f cc a2 e) c2 kvar vvar conde ke vale group) l2 st2).
    Proof.
      intros Fv Fk Nk Hc HL HA HF C1 C2 W1 W2. induction 1 as [|p q r s Lp _ IHr]; intros Wl1 Wl2 st1 st2 R K1 K2;
        cbn [fold_left] in *; [exact R|].
      inversion Wl1 as [|? ? Wp Wr]; subst. inversion Wl2 as [|? ? Wq Ws]; subst.
      apply IHr; try assumption. apply foro_step_rel; try assumption.
      - eapply (fold_clean_mono _ snd); [|exact K1]. intros; apply foro_step_ds.
      - eapply (fold_clean_mono _ snd); [|exact K2]. intros; apply foro_step_ds.
    Qed.

    (* unary: a tainted start stays tainted *)
    Lemma forl_fold_taint ev c kvar vvar conde vale l : forall st,
      tnt (forl_mks st) = true -> tnt (forl_mks (fold_left (forl_step ev c kvar vvar conde vale) l st)) = true.
    Proof. induction l; intros st H; cbn [fold_left]; [exact H|]. apply IHl, forl_step_taint, H. Qed.
    Lemma foro_fold_taint ev c kvar vvar conde ke vale group l : forall st,
      tnt (foro_mks st) = true -> tnt (foro_mks (fold_left (foro_step ev c kvar vvar conde ke vale group) l st)) = true.
    Proof. induction l; intros st H; cbn [fold_left]; [exact H|]. apply IHl, foro_step_taint, H. Qed.

    Lemma can_iterate_leq a b : leq m a b -> is_mark a = false -> can_iterate a = can_iterate b.
    Proof. intros H N. leq_heads H; try discriminate N; try (injection H; intros; subst); reflexivity. Qed.

    (* a collection that carries m: every clean result carries m *)
    Lemma for_tail_star ev c kvar vvar keye vale conde group cv0 ds0 v ds :
      is_star m cv0 = true ->
      for_tail ev c kvar vvar keye vale conde group cv0 ds0 = (v, ds) -> clean ds -> is_star m v = true.
    Proof.
      intros Sc E K. unfold for_tail in E.
      destruct (is_null cv0); [injection E as <- <-; bad K|].
      destruct (ty_eqb (type_of cv0) TDyn); [injection E as <- _; apply with_marks_star, marks_of_star, Sc|].
      pose proof (marks_of_star _ _ Sc) as Mc. unfold marks_of in Mc.
      destruct (unmark cv0) as [cv cmk]. cbn [snd] in Mc.
      destruct (negb (can_iterate cv)); [injection E as <- <-; bad K|].
      pose proof (for_probe_shape ev c kvar vvar conde ds0) as P.
      destruct (for_probe ev c kvar vvar conde ds0) as [[condmk ds1]|[r dr]].
      2:{ injection E as <- <-. contradiction. }
      destruct (negb (is_known cv)).
      { injection E as <- _. apply with_marks_star. rewrite mark_mem_union, Mc. reflexivity. }
      destruct keye as [ke|].
      - pose proof (foro_fold_taint ev c kvar vvar conde ke vale group (elements cv) ([], [], [cmk], true, ds1)) as T.
        destruct (fold_left _ (elements cv) _) as [[[[vals groups] mks] known] dd]. cbn [for_fin_o] in E.
        unfold foro_mks, tnt in T. cbn [fst snd existsb] in T. rewrite Mc in T. specialize (T eq_refl).
        destruct (negb known); injection E as <- _; apply with_marks_star; rewrite mark_mem_unions; exact T.
      - pose proof (forl_fold_taint ev c kvar vvar conde vale (elements cv) ([], [cmk], true, ds1)) as T.
        destruct (fold_left _ (elements cv) _) as [[[vals mks] known] dd]. cbn [for_fin_l] in E.
        unfold forl_mks, tnt in T. cbn [fst snd existsb] in T. rewrite Mc in T. specialize (T eq_refl).
        destruct (negb known); injection E as <- _; apply with_marks_star; rewrite mark_mem_unions; exact T.
    Qed.

    Lemma for_ni kvar vvar coll keye vale conde group :
      in_fragment coll -> in_fragment vale ->
      (forall ke, keye = Some ke -> in_fragment ke /\ nonnull ke) ->
      (forall ce, conde = Some ce -> in_fragment ce /\ nonnull ce) ->
      ni_at (S f) (EFor kvar vvar coll keye vale conde group).
    Proof.
      intros Fc Fv Hk Hc. intros c1 c2 a1 a2 v1 ds1 v2 ds2 HL HA HF C1 C2 W1 W2 E1 E2 K1 K2.
      rewrite eval_for_unfold' in E1, E2.
      destruct (eval_with idx f c1 a1 coll) as [cv01 d01] eqn:A1. destruct (eval_with idx f c2 a2 coll) as [cv02 d02] eqn:A2.
      assert (K01 : clean d01) by (eapply for_tail_ds; rewrite E1; exact K1).
      assert (K02 : clean d02) by (eapply for_tail_ds; rewrite E2; exact K2).
      assert (Lc : leq m cv01 cv02) by (useIH Fc A1 A2 K01 K02).
      assert (Wc1 : wf cv01) by (eapply Hwf_eval; [exact C1|exact W1|exact Fc|exact A1]).
      assert (Wc2 : wf cv02) by (eapply Hwf_eval; [exact C2|exact W2|exact Fc|exact A2]).
      destruct (is_star m cv01) eqn:Sc.
      { apply stars_leq; [eapply for_tail_star; [exact Sc|exact E1|exact K1]|].
        eapply for_tail_star; [|exact E2|exact K2]. rewrite <- (leq_is_star _ _ _ Lc). exact Sc. }
      destruct (leq_nostar_facts _ _ _ Lc Sc Wc1) as (Fn & _ & Ft).
      unfold for_tail in E1, E2. rewrite <- Fn, <- Ft in E2.
      destruct (is_null cv01); [injection E1 as <- <-; bad K1|].
      destruct (ty_eqb (type_of cv01) TDyn).
      { injection E1 as <- _. injection E2 as <- _. apply with_same_marks_leq; [apply leq_refl|exact Lc]. }
      pose proof (marks_of_eq _ _ _ Lc Sc) as Mc. pose proof (unmark_fst_leq _ _ _ Lc Sc) as Lu.
      pose proof (marks_of_nostar _ _ Sc) as Mn. unfold marks_of in Mc, Mn.
      destruct (wf_unmark _ Wc1) as [Nu Wu1]. destruct (wf_unmark _ Wc2) as [_ Wu2].
      destruct (unmark cv01) as [cv1 cmk1]. destruct (unmark cv02) as [cv2 cmk2]. cbn [fst snd] in *. subst cmk2.
      rewrite <- (can_iterate_leq _ _ Lu Nu) in E2.
      destruct (negb (can_iterate cv1)); [injection E1 as <- <-; bad K1|].
      (* the probe *)
      pose proof (for_probe_shape (fun cc e => eval_with idx f cc a1 e) c1 kvar vvar conde d01) as P1.
      pose proof (for_probe_shape (fun cc e => eval_with idx f cc a2 e) c2 kvar vvar conde d02) as P2.
      destruct (for_probe _ c1 kvar vvar conde d01) as [[cm1 dp1]|[r1 dr1]] eqn:Pr1.
      2:{ injection E1 as <- <-. contradiction. }
      destruct (for_probe _ c2 kvar vvar conde d02) as [[cm2 dp2]|[r2 dr2]] eqn:Pr2.
      2:{ injection E2 as <- <-. contradiction. }
      destruct (leq_known_tru _ _ _ Lu Nu) as [Fk _]. rewrite <- Fk in E2.
      destruct (negb (is_known cv1)) eqn:Kn.
      { (* unknown collection *)
        injection E1 as <- <-. injection E2 as <- <-.
        apply with_marks_leq'; [|intros; apply leq_refl].
        apply marks_rel_union; [apply marks_rel_refl|].
        unfold for_probe in Pr1, Pr2. destruct conde as [ce|].
        - destruct (Hc ce eq_refl) as [Fce _].
          destruct (child_ok c1 c2 kvar vvar (dyn_val, dyn_val) (dyn_val, dyn_val) HL HF C1 C2) as (HL' & HF' & C1' & C2');
            try (split; reflexivity).
          cbn [fst snd] in HL', HF', C1', C2'.
          destruct (eval_with idx f (for_bind c1 kvar vvar dyn_val dyn_val) a1 ce) as [q1 qd1] eqn:Q1.
          destruct (eval_with idx f (for_bind c2 kvar vvar dyn_val dyn_val) a2 ce) as [q2 qd2] eqn:Q2.
          cbn [snd] in P1, P2. subst dp1 dp2.
          apply clean_app in K1 as [_ Kq1]. apply clean_app in K2 as [_ Kq2].
          destruct (is_null q1); [discriminate Pr1|]. destruct (is_null q2); [discriminate Pr2|].
          destruct (conv q1 TBool); try discriminate Pr1. destruct (conv q2 TBool); try discriminate Pr2.
          destruct (has_errors qd1); [discriminate Pr1|]. destruct (has_errors qd2); [discriminate Pr2|].
          injection Pr1 as <-. injection Pr2 as <-. apply marks_of_leq.
          eapply (IH _ Fce); [exact HL'|exact HA|exact HF'|exact C1'|exact C2'|exact W1|exact W2|exact Q1|exact Q2|exact Kq1|exact Kq2].
        - injection Pr1 as <- _. injection Pr2 as <- _. apply marks_rel_refl. }
      pose proof (elements_leq m _ _ Lu Nu) as Le.
      pose proof (elements_wf _ Wu1) as We1. pose proof (elements_wf _ Wu2) as We2.
      assert (Tc : tnt [cmk1] = false) by (unfold tnt; cbn [existsb]; rewrite Mn; reflexivity).
      destruct keye as [ke|].
      - destruct (Hk ke eq_refl) as [Fke Nke].
        pose proof (foro_fold_rel c1 c2 a1 a2 kvar vvar conde ke vale group Fv Fke Nke Hc HL HA HF C1 C2 W1 W2
                      _ _ Le We1 We2 ([], [], [cmk1], true, dp1) ([], [], [cmk1], true, dp2)) as R.
        rewrite <- (for_fin_o_ds group) in R. rewrite <- (for_fin_o_ds group (fold_left _ (elements cv2) _)) in R.
        rewrite E1, E2 in R. cbn [snd] in R.
        destruct R as [[T1 T2]|R]; [right; repeat split; auto; constructor|exact K1|exact K2| |].
        + destruct (fold_left _ (elements cv1) _) as [[[[vs1 g1] mk1] kn1] dd1].
          destruct (fold_left _ (elements cv2) _) as [[[[vs2 g2] mk2] kn2] dd2].
          unfold foro_mks in T1, T2. cbn [fst snd for_fin_o] in *.
          apply stars_leq.
          * destruct (negb kn1); injection E1 as <- _; apply with_marks_star; rewrite mark_mem_unions; exact T1.
          * destruct (negb kn2); injection E2 as <- _; apply with_marks_star; rewrite mark_mem_unions; exact T2.
        + destruct (fold_left _ (elements cv1) _) as [[[[vs1 g1] mk1] kn1] dd1].
          destruct (fold_left _ (elements cv2) _) as [[[[vs2 g2] mk2] kn2] dd2].
          destruct R as (Rv & Rg & -> & -> & _). cbn [for_fin_o] in E1, E2.
          destruct (negb kn2); injection E1 as <- _; injection E2 as <- _;
            (apply with_marks_leq; [|apply marks_rel_refl]); [apply leq_refl|].
          apply leq_obj. destruct group; [|exact Rv].
          clear -Rg. induction Rg as [|p q r s [A B] _ IHr]; cbn [map]; constructor; [|exact IHr].
          split; cbn [fst snd]; [exact A|apply leq_tuple; exact B].
      - pose proof (forl_fold_rel c1 c2 a1 a2 kvar vvar conde vale Fv Hc HL HA HF C1 C2 W1 W2
                      _ _ Le We1 We2 ([], [cmk1], true, dp1) ([], [cmk1], true, dp2)) as R.
        rewrite <- for_fin_l_ds in R. rewrite <- (for_fin_l_ds (fold_left _ (elements cv2) _)) in R.
        rewrite E1, E2 in R. cbn [snd] in R.
        destruct R as [[T1 T2]|R]; [right; repeat split; auto|exact K1|exact K2| |].
        + destruct (fold_left _ (elements cv1) _) as [[[vs1 mk1] kn1] dd1].
          destruct (fold_left _ (elements cv2) _) as [[[vs2 mk2] kn2] dd2].
          unfold forl_mks in T1, T2. cbn [fst snd for_fin_l] in *.
          apply stars_leq.
          * destruct (negb kn1); injection E1 as <- _; apply with_marks_star; rewrite mark_mem_unions; exact T1.
          * destruct (negb kn2); injection E2 as <- _; apply with_marks_star; rewrite mark_mem_unions; exact T2.
        + destruct (fold_left _ (elements cv1) _) as [[[vs1 mk1] kn1] dd1].
          destruct (fold_left _ (elements cv2) _) as [[[vs2 mk2] kn2] dd2].
          destruct R as (Rv & -> & -> & _). cbn [for_fin_l] in E1, E2.
          destruct (negb kn2); injection E1 as <- _; injection E2 as <- _;
            (apply with_marks_leq; [|apply marks_rel_refl]); [apply leq_refl|apply leq_tuple; exact Rv].
    Qed.

    (* ---- splat ---- *)
    Lemma map_ev_anon_leq each c1 c2 :
      in_fragment each -> low_eq m c1 c2 -> funcs_ni m c1 -> Cx c1 -> Cx c2 ->
      forall l1 l2, Forall2 (leq_pair m) l1 l2 -> Forall wf_pair l1 -> Forall wf_pair l2 ->
      clean (concat (map snd (map (fun kv => eval_with idx f c1 (Some (snd kv)) each) l1))) ->
      clean (concat (map snd (map (fun kv => eval_with idx f c2 (Some (snd kv)) each) l2))) ->
      Forall2 (leq m) (map fst (map (fun kv => eval_with idx f c1 (Some (snd kv)) each) l1))
                      (map fst (map (fun kv => eval_with idx f c2 (Some (snd kv)) each) l2)).
    Proof.
      intros Fe HL HF C1 C2. induction 1 as [|p q r s [_ Lv] _ IHr]; intros W1 W2 K1 K2; cbn [map concat] in *.
      - constructor.
      - inversion W1 as [|? ? [_ Wp] Wr]; subst. inversion W2 as [|? ? [_ Wq] Ws]; subst.
        apply clean_app in K1 as [K1a K1b]. apply clean_app in K2 as [K2a K2b].
        constructor; [|apply IHr; assumption].
        destruct (eval_with idx f c1 (Some (snd p)) each) as [x1 d1] eqn:A1.
        destruct (eval_with idx f c2 (Some (snd q)) each) as [x2 d2] eqn:A2. cbn [fst snd] in *.
        eapply (IH _ Fe c1 c2 (Some (snd p)) (Some (snd q)));
          [exact HL|exact Lv|exact HF|exact C1|exact C2|exact Wp|exact Wq|exact A1|exact A2|exact K1a|exact K2a].
    Qed.

    Lemma frame_ok c1 c2 :
      low_eq m c1 c2 -> funcs_ni m c1 -> Cx c1 -> Cx c2 ->
      low_eq m (mkFrame None None :: c1) (mkFrame None None :: c2) /\ funcs_ni m (mkFrame None None :: c1) /\
      Cx (mkFrame None None :: c1) /\ Cx (mkFrame None None :: c2).
    Proof.
      intros HL HF C1 C2. split; [|split; [|split]].
      - constructor; [split; [exact I|reflexivity]|exact HL].
      - intros fr fs name f0 [<-|I0] F G; [discriminate F|]. eapply HF; eassumption.
      - apply Cx_frame, C1.
      - apply Cx_frame, C2.
    Qed.

    (* resultTy() is the same in both runs when the type of Each's result depends on the item type only *)
    Lemma splat_rt_stable each c1 c2 sty :
      each_ty_stable each -> low_eq m c1 c2 -> funcs_ni m c1 -> Cx c1 -> Cx c2 ->
      clean (snd (splat_result_ty (fun cc an => eval_with idx f cc an each) c1 sty)) ->
      clean (snd (splat_result_ty (fun cc an => eval_with idx f cc an each) c2 sty)) ->
      fst (splat_result_ty (fun cc an => eval_with idx f cc an each) c1 sty)
      = fst (splat_result_ty (fun cc an => eval_with idx f cc an each) c2 sty).
    Proof.
      intros Hst HL HF C1 C2 K1 K2. destruct (frame_ok c1 c2 HL HF C1 C2) as (HL' & HF' & C1' & C2').
      assert (One : forall et v1 e1 v2 e2,
                eval_with idx f (mkFrame None None :: c1) (Some (VUnk et rf_none)) each = (v1, e1) ->
                eval_with idx f (mkFrame None None :: c2) (Some (VUnk et rf_none)) each = (v2, e2) ->
                clean e1 -> clean e2 -> type_of v1 = type_of v2).
      { intros et v1 e1 v2 e2 Y1 Y2 Ke1 Ke2.
        eapply (Hst f _ _ (VUnk et rf_none) (VUnk et rf_none)); [exact C1'|exact C2'|exact HL'|exact HF'|apply leq_refl
                 |reflexivity|reflexivity|reflexivity|exact Y1|exact Y2|exact Ke1|exact Ke2]. }
      unfold splat_result_ty in *. destruct sty; try reflexivity.
      - destruct (eval_with idx f (mkFrame None None :: c1) (Some (VUnk sty rf_none)) each) as [v1 e1] eqn:Y1.
        destruct (eval_with idx f (mkFrame None None :: c2) (Some (VUnk sty rf_none)) each) as [v2 e2] eqn:Y2.
        cbn [fst snd] in *. f_equal. eapply One; eassumption.
      - destruct (eval_with idx f (mkFrame None None :: c1) (Some (VUnk sty rf_none)) each) as [v1 e1] eqn:Y1.
        destruct (eval_with idx f (mkFrame None None :: c2) (Some (VUnk sty rf_none)) each) as [v2 e2] eqn:Y2.
        cbn [fst snd] in *. f_equal. eapply One; eassumption.
      - cbn [fst snd] in *. f_equal. induction ts as [|et r IHr]; cbn [map concat] in *; [reflexivity|].
        apply clean_app in K1 as [K1a K1b]. apply clean_app in K2 as [K2a K2b].
        destruct (eval_with idx f (mkFrame None None :: c1) (Some (VUnk et rf_none)) each) as [v1 e1] eqn:Y1.
        destruct (eval_with idx f (mkFrame None None :: c2) (Some (VUnk et rf_none)) each) as [v2 e2] eqn:Y2.
        cbn [fst snd] in *. f_equal; [eapply One; eassumption|apply IHr; assumption].
    Qed.

    Lemma splat_ni src each :
      in_fragment src -> in_fragment each -> splat_side src each -> ni_at (S f) (ESplat src each).
    Proof.
      intros Fs Fe Hside. intros c1 c2 a1 a2 v1 ds1 v2 ds2 HL HA HF C1 C2 W1 W2 E1 E2 K1 K2.
      rewrite eval_splat_unfold in E1, E2.
      destruct (eval_with idx f c1 a1 src) as [s1 d1] eqn:A1. destruct (eval_with idx f c2 a2 src) as [s2 d2] eqn:A2.
      assert (K01 : clean d1) by (eapply splat_tail_ds; rewrite E1; exact K1).
      assert (K02 : clean d2) by (eapply splat_tail_ds; rewrite E2; exact K2).
      assert (Ls : leq m s1 s2) by (useIH Fs A1 A2 K01 K02).
      assert (Ws1 : wf s1) by (eapply Hwf_eval; [exact C1|exact W1|exact Fs|exact A1]).
      assert (Ws2 : wf s2) by (eapply Hwf_eval; [exact C2|exact W2|exact Fs|exact A2]).
      destruct (is_star m s1) eqn:Sc.
      { apply stars_leq; [eapply splat_tail_star; [exact Sc|exact E1|exact K1]|].
        eapply splat_tail_star; [|exact E2|exact K2]. rewrite <- (leq_is_star _ _ _ Ls). exact Sc. }
      assert (Sc2 : is_star m s2 = false) by (rewrite <- (leq_is_star _ _ _ Ls); exact Sc).
      destruct (leq_nostar_facts _ _ _ Ls Sc Ws1) as (Fn & Fk & Ft).
      pose proof (is_seq_ty_leq _ _ _ Ls Sc Ws1) as Fq. pose proof (splat_upg_leq _ _ _ Ls Sc Ws1) as Fu.
      destruct (is_null s1) eqn:N1.
      { assert (N2' : is_null s2 = true) by (symmetry; exact Fn).
        unfold splat_tail in E1, E2. rewrite (proj1 K01), N1 in E1. rewrite (proj1 K02), N2', <- Fq in E2.
        destruct (negb (is_seq_ty (type_of s1))); injection E1 as <- <-; [|bad K1]. injection E2 as <- _.
        apply with_same_marks_leq; [apply leq_refl|exact Ls]. }
      destruct (ty_eqb (type_of s1) TDyn) eqn:D1.
      { assert (N2' : is_null s2 = false) by (symmetry; exact Fn).
        assert (D2' : ty_eqb (type_of s2) TDyn = true) by (symmetry; exact Ft).
        unfold splat_tail in E1, E2. rewrite (proj1 K01), N1, D1 in E1. rewrite (proj1 K02), N2', D2' in E2.
        injection E1 as <- _. injection E2 as <- _. apply with_same_marks_leq; [apply leq_refl|exact Ls]. }
      assert (N2 : is_null s2 = false) by (symmetry; exact Fn).
      assert (D2 : ty_eqb (type_of s2) TDyn = false) by (symmetry; exact Ft).
      pose proof (seq_kind_leq _ _ _ Ls Sc Ws1) as Fkd.
      destruct (splat_okb s1) eqn:Okb.
      2:{ (* a list or set source, or an unknown tuple: the type of Each's results matters *)
          destruct Hside as [Hs|Hst].
          { exfalso. pose proof (Hs f c1 a1 s1 d1 C1 W1 A1 (proj1 K01)) as X. apply splat_okb_ok in X. congruence. }
          assert (Hq : is_seq_ty (type_of s1) = true).
          { unfold splat_okb in Okb. destruct (type_of s1); try discriminate Okb; reflexivity. }
          assert (Hq2 : is_seq_ty (type_of s2) = true) by (rewrite <- Fq; exact Hq).
          destruct (is_known s1) eqn:Kn.
          - (* known list / set *)
            assert (Kn2 : is_known s2 = true) by (rewrite <- Fk; reflexivity).
            pose proof (unmark_fst_leq _ _ _ Ls Sc) as Lu. pose proof (marks_of_eq _ _ _ Ls Sc) as Me.
            destruct (wf_unmark _ Ws1) as [Nu1 Wu1]. destruct (wf_unmark _ Ws2) as [Nu2 Wu2].
            assert (Shape : exists t, (is_ls_ty (type_of s1) = true /\ is_ls_ty (type_of s2) = true /\ type_of s1 = type_of s2) /\
                       Forall (fun kv : val * val => type_of (snd kv) = t) (elements (fst (unmark s1))) /\
                       Forall (fun kv : val * val => type_of (snd kv) = t) (elements (fst (unmark s2)))).
            { rewrite is_known_hd in Kn. rewrite is_null_hd in N1. rewrite (type_of_unmark s1), (type_of_unmark s2).
              unfold splat_okb in Okb. rewrite is_known_hd, (type_of_unmark s1) in Okb.
              revert Lu Nu1 Wu1 Wu2 Kn N1 Okb. generalize (fst (unmark s1)) (fst (unmark s2)). intros u1 u2 Lu Nu1 Wu1 Wu2 Kn Nn Okb.
              destruct (type_of u1) eqn:T1; try discriminate Okb; try congruence.
              - destruct (known_list_shape u1 t Nu1 T1 Kn Nn) as [l1 ->].
                leq_heads Lu. injection Lu as -> _. exists t0. cbn [type_of is_ls_ty]. split; [auto|].
                split; apply elements_typed_list; assumption.
              - destruct (known_set_shape u1 t Nu1 T1 Kn Nn) as [l1 ->].
                leq_heads Lu. injection Lu as -> _. exists t0. cbn [type_of is_ls_ty]. split; [auto|].
                split; apply elements_typed_set; assumption. }
            destruct Shape as (t & (Hl1 & Hl2 & Tu) & Ty1 & Ty2).
            unfold marks_of in Me.
            destruct (unmark s1) as [u1 sm1] eqn:U1. destruct (unmark s2) as [u2 sm2] eqn:U2. cbn [fst snd] in *. subst sm2.
            pose proof (splat_tail_list _ c1 s1 d1 u1 sm1 v1 ds1 (proj1 K01) N1 D1 Hl1 Kn U1 E1 K1) as F1.
            pose proof (splat_tail_list _ c2 s2 d2 u2 sm1 v2 ds2 (proj1 K02) N2 D2 Hl2 Kn2 U2 E2 K2) as F2.
            pose proof (elements_leq m _ _ Lu Nu1) as Le.
            pose proof (elements_wf _ Wu1) as We1. pose proof (elements_wf _ Wu2) as We2.
            assert (Kr : clean (concat (map snd (map (fun kv => eval_with idx f c1 (Some (snd kv)) each) (elements u1)))) /\
                         clean (concat (map snd (map (fun kv => eval_with idx f c2 (Some (snd kv)) each) (elements u2))))).
            { split.
              - destruct (map fst (map _ (elements u1))) as [|a0 r0]; [destruct F1 as [_ ->]|destruct F1 as (_ & _ & ->)].
                + apply clean_app in K1 as [K1 _]. apply clean_app in K1 as [_ K1]. exact K1.
                + apply clean_app in K1 as [_ K1]. exact K1.
              - destruct (map fst (map _ (elements u2))) as [|a0 r0]; [destruct F2 as [_ ->]|destruct F2 as (_ & _ & ->)].
                + apply clean_app in K2 as [K2 _]. apply clean_app in K2 as [_ K2]. exact K2.
                + apply clean_app in K2 as [_ K2]. exact K2. }
            destruct Kr as [Kr1 Kr2].
            pose proof (map_ev_anon_leq each c1 c2 Fe HL HF C1 C2 _ _ Le We1 We2 Kr1 Kr2) as Lv.
            destruct Le as [|p q r s [_ Lpq] Lrs].
            + (* empty: the element type comes from the probe *)
              cbn [elements map] in F1, F2. destruct F1 as [-> ->]. destruct F2 as [-> ->].
              apply clean_app in K1 as [_ Kt1]. apply clean_app in K2 as [_ Kt2].
              rewrite <- Tu in Kt2 |- *.
              rewrite (splat_rt_stable each c1 c2 (type_of s1) Hst HL HF C1 C2 Kt1 Kt2). apply leq_refl.
            + cbn [map] in F1, F2, Lv.
              destruct (eval_with idx f c1 (Some (snd p)) each) as [y1 e1] eqn:Y1.
              destruct (eval_with idx f c2 (Some (snd q)) each) as [y2 e2] eqn:Y2. cbn [fst snd] in *.
              destruct F1 as (_ & -> & _). destruct F2 as (_ & -> & _).
              inversion We1 as [|? ? [_ Wp] _]; subst. inversion We2 as [|? ? [_ Wq] _]; subst.
              inversion Ty1 as [|? ? Tp _]; subst. inversion Ty2 as [|? ? Tq _]; subst.
              cbn [map concat] in Kr1, Kr2. apply clean_app in Kr1 as [Ke1 _]. apply clean_app in Kr2 as [Ke2 _].
              rewrite Y1 in Ke1. rewrite Y2 in Ke2. cbn [snd] in Ke1, Ke2.
              assert (Ty : type_of y1 = type_of y2).
              { eapply (Hst f c1 c2 (snd p) (snd q)); [exact C1|exact C2|exact HL|exact HF|exact Lpq|exact Wp|exact Wq
                                                      |congruence|exact Y1|exact Y2|exact Ke1|exact Ke2]. }
              rewrite Ty. apply with_marks_leq; [|apply marks_rel_refl]. apply leq_list. exact Lv.
          - (* unknown sequence: the values are equal, the result type comes from the probes *)
            pose proof (leq_unknown_eq _ _ _ Ls Sc Ws1 Kn) as <-.
            rewrite (splat_tail_unknown _ c1 s1 d1 (proj1 K01) N1 D1 Hq Kn) in E1.
            rewrite (splat_tail_unknown _ c2 s1 d2 (proj1 K02) N1 D1 Hq Kn) in E2.
            injection E1 as <- <-. injection E2 as <- <-.
            apply clean_app in K1 as [_ Kt1]. apply clean_app in K2 as [_ Kt2].
            rewrite (splat_rt_stable each c1 c2 (type_of s1) Hst HL HF C1 C2 Kt1 Kt2). apply leq_refl. }
      assert (Ok1 : splat_src_ok s1) by (apply splat_okb_ok; exact Okb).
      assert (Ok2 : splat_src_ok s2).
      { apply splat_okb_ok. rewrite <- Okb. unfold splat_okb.
        destruct (type_of s1), (type_of s2); cbn [seq_kind] in Fkd; try discriminate Fkd; try reflexivity.
        symmetry. exact Fk. }
      (* the known, non-list path *)
      assert (NF : forall s0 d0 v d (ev : ctx -> option val -> val * list diag) c,
                 wf s0 -> splat_src_ok s0 -> has_errors d0 = false -> is_null s0 = false -> ty_eqb (type_of s0) TDyn = false ->
                 splat_tail ev c s0 d0 = (v, d) -> clean d ->
                 exists su sm,
                   (if negb (is_seq_ty (type_of s0)) then su = VTuple [s0] else su = fst (unmark s0)) /\
                   sm = marks_of s0 /\
                   d = d0 ++ concat (map snd (map (fun kv => ev c (Some (snd kv))) (elements su))) /\
                   match (if negb (is_seq_ty (type_of s0)) && negb (is_known s0) then splat_upg s0 else Some false) with
                   | Some true => v = with_marks dyn_val sm
                   | Some false => v = with_marks (VTuple (map fst (map (fun kv => ev c (Some (snd kv))) (elements su)))) sm
                   | None => False
                   end).
      { intros s0 d0 v d ev c Ws Ok He Hn Hd E K.
        destruct (negb (is_seq_ty (type_of s0))) eqn:Au.
        - exists (VTuple [s0]), (marks_of s0). split; [reflexivity|]. split; [reflexivity|].
          pose proof (splat_tail_nf ev c s0 d0 (with_same_marks (VTuple [s0]) s0) (VTuple [s0]) (marks_of s0) v d He Hn Hd) as X.
          rewrite Au in X. apply X; try assumption.
          + reflexivity.
          + rewrite is_known_hd. unfold with_same_marks. rewrite unmark_with_marks by reflexivity. reflexivity.
          + unfold with_same_marks. apply unmark_with_marks. reflexivity.
          + intros t. unfold with_same_marks. rewrite type_of_with_marks. discriminate.
          + intros t. unfold with_same_marks. rewrite type_of_with_marks. discriminate.
        - exists (fst (unmark s0)), (marks_of s0). split; [reflexivity|]. split; [reflexivity|].
          apply negb_false_iff in Au. unfold splat_src_ok in Ok.
          pose proof (splat_tail_nf ev c s0 d0 s0 (fst (unmark s0)) (marks_of s0) v d He Hn Hd) as X.
          rewrite Au in X. cbn [negb andb] in X |- *. apply X; try assumption.
          + reflexivity.
          + destruct (type_of s0); try discriminate Au; try contradiction. exact Ok.
          + unfold marks_of. destruct (unmark s0); reflexivity.
          + intros t T. rewrite T in Ok. exact Ok.
          + intros t T. rewrite T in Ok. exact Ok. }
      destruct (NF s1 d1 v1 ds1 _ c1 Ws1 Ok1 (proj1 K01) N1 D1 E1 K1) as (su1 & sm1 & Hu1 & -> & -> & R1).
      destruct (NF s2 d2 v2 ds2 _ c2 Ws2 Ok2 (proj1 K02) N2 D2 E2 K2) as (su2 & sm2 & Hu2 & -> & -> & R2).
      rewrite <- Fq, <- Fk, <- Fu in R2. rewrite <- Fq in Hu2.
      assert (Lsu : leq m su1 su2 /\ is_mark su1 = false /\ wf su1 /\ wf su2).
      { destruct (negb (is_seq_ty (type_of s1))); subst su1 su2.
        - split; [apply leq_tuple; constructor; [exact Ls|constructor]|]. split; [reflexivity|].
          unfold wf in *. cbn [wfb forallb]. rewrite Ws1, Ws2. auto.
        - split; [apply unmark_fst_leq; assumption|]. split; [apply wf_unmark, Ws1|].
          split; [apply wf_unmark, Ws1|apply wf_unmark, Ws2]. }
      destruct Lsu as (Lsu & Nsu & Wsu1 & Wsu2).
      rewrite <- (marks_of_eq _ _ _ Ls Sc) in R2.
      destruct (if negb (is_seq_ty (type_of s1)) && negb (is_known s1) then splat_upg s1 else Some false) as [[|]|];
        try contradiction; subst v1 v2.
      - apply leq_refl.
      - apply with_marks_leq; [|apply marks_rel_refl]. apply leq_tuple.
        apply clean_app in K1 as [_ K1]. apply clean_app in K2 as [_ K2].
        apply map_ev_anon_leq; try assumption.
        + apply elements_leq; assumption.
        + apply elements_wf; assumption.
        + apply elements_wf; assumption.
    Qed.
  End Step.

  Theorem ni_all : forall f e, in_fragment e -> ni_at f e.
  Proof.
    induction f as [|f IH]; intros e Fe.
    - intros c1 c2 a1 a2 v1 ds1 v2 ds2 _ _ _ _ _ _ _ E1 _ K1 _. cbn [eval_with] in E1.
      injection E1 as <- <-. unclean K1.
    - destruct Fe.
      + apply lit_ni.
      + apply (paren_ni f IH); assumption.
      + apply (wrap_ni f IH); assumption.
      + apply anon_ni.
      + apply scope_ni.
      + apply (rel_ni f IH); assumption.
      + apply (index_ni f IH); assumption.
      + apply (tuple_ni f IH); assumption.
      + apply (objkey_ni f IH); assumption.
      + apply (un_ni f IH); assumption.
      + apply (bin_ni f IH); assumption.
      + apply (tmpl_ni f IH); assumption.
      + apply (join_ni f IH); assumption.
      + destruct expand; [apply (call_x_ni f IH); auto|apply (call_ni f IH); assumption].
      + apply (cond_ni f IH); assumption.
      + apply (for_ni f IH); assumption.
      + apply (splat_ni f IH); assumption.
      + apply (objcons_ni f IH); assumption.
  Qed.
  (* the usual forms of Each: the item itself, or an attribute / literal-index traversal of it *)
  Lemma each_ty_stable_anon : each_ty_stable EAnon.
  Proof.
    intros fuel c1 c2 x1 x2 v1 d1 v2 d2 _ _ _ _ _ _ _ T E1 E2 K1 _.
    destruct fuel; cbn [eval_with] in E1, E2; [injection E1 as <- <-; unclean K1|].
    injection E1 as <- _. injection E2 as <- _. exact T.
  Qed.

  Lemma each_ty_stable_trav steps : each_ty_stable (ERelTrav EAnon steps).
  Proof.
    intros fuel c1 c2 x1 x2 v1 d1 v2 d2 _ _ _ _ _ W1 W2 T E1 E2 K1 K2.
    destruct fuel as [|f]; cbn [eval_with] in E1, E2; [injection E1 as <- <-; unclean K1|].
    destruct f as [|f]; cbn [eval_with] in E1, E2.
    { destruct (traverse_rel steps dyn_val []) as [r e]. injection E1 as <- <-. unclean K1. }
    destruct (traverse_rel steps x1 []) as [r1 e1] eqn:T1. destruct (traverse_rel steps x2 []) as [r2 e2] eqn:T2.
    injection E1 as <- <-. injection E2 as <- <-. cbn [app] in K1, K2.
    pose proof (traverse_rel_type steps x1 [] r1 e1 W1 T1 K1) as A.
    pose proof (traverse_rel_type steps x2 [] r2 e2 W2 T2 K2) as B.
    rewrite T in A. congruence.
  Qed.
End NI.
