(* Eval/MarksNI_Eval.v — C06: marks non-interference of the evaluator model, construct by
   construct, by induction on the fuel. *)
From Coq Require Import QArith.
From HclV Require Import Base.Prelude Cty.Values Cty.Convert Cty.Ops Eval.Impl
     Eval.MarksNI Eval.MarksNI_Ops Eval.MarksNI_Index Eval.MarksNI_Funcs.
Open Scope Z_scope.

Definition is_sc (o : binop) : bool := match o with OpOr | OpAnd => true | _ => false end.

Ltac bad K :=
  first [ unclean K
        | apply clean_app in K; destruct K as [_ K]; unclean K
        | apply clean_app in K; destruct K as [_ K]; apply clean_app in K; destruct K as [_ K]; unclean K ].

(* Operation.ShortCircuit as a function: value and which side's diagnostics are returned *)
Definition tru (v : val) : bool := match v with VBool true => true | _ => false end.
Definition sc_val (op : binop) (lu ru : val) (lerr : bool) : option (val * bool) :=
  match op with
  | OpOr | OpAnd =>
      let fls (v : val) := negb (tru v) in
      let lk := is_known lu in let rk := is_known ru in
      if negb lk && negb rk then
        (if negb lerr then Some (unk_bool_nn, true) else None)
      else
      match op with
      | OpOr =>
          if lk && tru lu then Some (VBool true, true)
          else if rk && tru ru then Some (VBool true, false)
          else if negb lk && fls ru then Some (unk_bool_nn, true)
          else if negb rk && fls lu then Some (unk_bool_nn, false)
          else None
      | _ =>
          if lk && fls lu then Some (VBool false, true)
          else if rk && fls ru then Some (VBool false, false)
          else if negb lk && tru ru then Some (unk_bool_nn, true)
          else if negb rk && tru lu then Some (unk_bool_nn, false)
          else None
      end
  | _ => None
  end.

Lemma leq_known_tru m a b : leq m a b -> is_mark a = false -> is_known a = is_known b /\ tru a = tru b.
Proof.
  intros H Hm. leq_heads H; try discriminate Hm; try (injection H; intros; subst); split; reflexivity.
Qed.

Lemma sc_val_leq m op l1 l2 r1 r2 b :
  leq m l1 l2 -> leq m r1 r2 -> is_mark l1 = false -> is_mark r1 = false ->
  sc_val op l1 r1 b = sc_val op l2 r2 b.
Proof.
  intros Hl Hr Ml Mr. destruct (leq_known_tru _ _ _ Hl Ml) as [A B]. destruct (leq_known_tru _ _ _ Hr Mr) as [C D].
  unfold sc_val. rewrite A, B, C, D. reflexivity.
Qed.

Definition bin_tail (op : binop) (lu ru : val) (mk : marks) (lds rds : list diag) : val * list diag :=
  match option_map (fun p : val * bool => (fst p, if snd p then lds else rds)) (sc_val op lu ru (has_errors lds)) with
  | Some (v, ds) => (with_marks v mk, ds)
  | None =>
      let ds := lds ++ rds in
      if has_errors ds then (with_marks (VUnk (binop_type op) rf_none) mk, ds)
      else match call_binop op lu ru with
           | OOk res => (with_marks res mk, ds)
           | OErr _ => (VUnk (binop_type op) rf_none, ds ++ [derr S_OperationFailed []])
           | OUnsupported => (VUnk (binop_type op) rf_none, ds ++ [dunsupported])
           end
  end.

Lemma bin_tail_marked op lu ru mk lds rds v ds :
  bin_tail op lu ru mk lds rds = (v, ds) -> clean ds -> exists x, v = with_marks x mk.
Proof.
  unfold bin_tail. intros E K.
  destruct (option_map _ _) as [[sv sd]|].
  - injection E as <- _. eauto.
  - destruct (has_errors (lds ++ rds)); [injection E as <- _; eauto|].
    destruct (call_binop op lu ru); injection E as <- <-; eauto; exfalso; bad K.
Qed.

Lemma eval_bin_unfold idx f c a op l r :
  eval_with idx (S f) c a (EBin op l r) =
  let '(glv, lds) := eval_with idx f c a l in
  let lc := conv glv (binop_param op) in
  let ds1 := match lc with CErr ce => [derr S_InvalidOperand [FConv ce]] | CUnsupported => [dunsupported] | _ => [] end in
  let '(grv, rds) := eval_with idx f c a r in
  let rc := conv grv (binop_param op) in
  let ds2 := ds1 ++ match rc with CErr ce => [derr S_InvalidOperand [FConv ce]] | CUnsupported => [dunsupported] | _ => [] end in
  if has_unsupported lds || has_unsupported rds then (dyn_val, [dunsupported]) else
  match lc, rc with
  | COk lv, COk rv =>
      let '(lu, lm) := unmark lv in
      let '(ru, rm) := unmark rv in
      bin_tail op lu ru (marks_union lm rm) lds rds
  | _, _ => (VUnk (binop_type op) rf_none, ds2 ++ lds ++ rds)
  end.
Proof.
  cbn [eval_with]. destruct (eval_with idx f c a l) as [glv lds]. destruct (eval_with idx f c a r) as [grv rds].
  cbv zeta. destruct (has_unsupported lds || has_unsupported rds); [reflexivity|].
  destruct (conv glv (binop_param op)); try reflexivity.
  destruct (conv grv (binop_param op)); try reflexivity.
  destruct (unmark v) as [lu lm]. destruct (unmark v0) as [ru rm].
  unfold bin_tail, sc_val, tru.
  destruct op; try reflexivity; cbv zeta;
    repeat match goal with |- context [if ?b then _ else _] => destruct b end; reflexivity.
Qed.

Definition tmpl_step (ev : expr -> val * list diag) (st : list Z * bool * marks * list diag) (p : expr) :=
  let '(buf, known, mk, ds) := st in
  let '(pv, pds) := ev p in
  let ds := ds ++ pds in
  if is_null pv then (buf, known, mk, ds ++ [derr S_InvalidTemplateInterp []])
  else
  let '(pu, pm) := unmark pv in
  let mk := marks_union mk pm in
  if negb (is_known pv) then (buf, false, mk, ds)
  else match conv pu TStr with
       | CUnsupported => (buf, known, mk, ds ++ [dunsupported])
       | CErr ce => (buf, known, mk, ds ++ [derr S_InvalidTemplateInterp [FConv ce]])
       | COk (VStr s) => if known && negb (has_errors ds) then (buf ++ s, known, mk, ds) else (buf, known, mk, ds)
       | COk _ => (buf, known, mk, ds ++ [dunsupported])
       end.

Definition tmpl_ret (buf : list Z) (known : bool) (ds : list diag) : val :=
  if negb known then
    (if negb (has_errors ds) && negb (str_eqb buf [])
     then VUnk TStr (RExact (mkRefn true (firstn 128 buf) None None 0 None))
     else VUnk TStr rf_notnull)
  else VStr buf.

Lemma eval_tmpl_unfold idx f c a parts :
  eval_with idx (S f) c a (ETmpl parts) =
  let '(buf, known, mk, ds) := fold_left (tmpl_step (eval_with idx f c a)) parts ([], true, [], []) in
  (with_marks (tmpl_ret buf known ds) mk, ds).
Proof. reflexivity. Qed.

(* diagnostics only grow along a fold *)
Lemma fold_clean_mono {S X} (step : S -> X -> S) (dsf : S -> list diag) :
  (forall st x, exists e, dsf (step st x) = dsf st ++ e) ->
  forall l st, clean (dsf (fold_left step l st)) -> clean (dsf st).
Proof.
  intros Hs. induction l as [|x r IH]; intros st K; cbn [fold_left] in K; [exact K|].
  apply IH in K. destruct (Hs st x) as [e He]. rewrite He in K. apply clean_app in K as [K _]. exact K.
Qed.

Lemma is_known_hd v : is_known v = hd_known (fst (unmark v)).
Proof. destruct v; reflexivity. Qed.
Lemma is_null_hd v : is_null v = hd_null (fst (unmark v)).
Proof. destruct v; reflexivity. Qed.
Lemma leq_hd m a b : leq m a b -> is_mark a = false -> hd_known a = hd_known b /\ hd_null a = hd_null b.
Proof. intros H Hm. leq_heads H; try discriminate Hm; split; reflexivity. Qed.

Lemma tmpl_step_ds2 ev st p : exists x, snd (tmpl_step ev st p) = (snd st ++ snd (ev p)) ++ x.
Proof.
  destruct st as [[[buf known] mk] ds]. unfold tmpl_step. destruct (ev p) as [pv pds]. cbn [snd].
  repeat match goal with
         | |- context [match ?y with _ => _ end] => destruct y
         | |- context [if ?y then _ else _] => destruct y
         end; cbn [snd]; first [exists []; rewrite app_nil_r; reflexivity | eexists; reflexivity].
Qed.
Lemma tmpl_step_ds ev st p : exists x, snd (tmpl_step ev st p) = snd st ++ x.
Proof. destruct (tmpl_step_ds2 ev st p) as [x H]. rewrite H, <- app_assoc. eexists; reflexivity. Qed.

(* ---- template join ---------------------------------------------------------------------------- *)
Definition join_state := ((list Z * marks * list diag) + (val * list diag))%type.
Definition join_step (st : join_state) (v : val) : join_state :=
  match st with
  | inr r => inr r
  | inl (buf, am, ds) =>
      if is_null v then inl (buf, am, ds ++ [derr S_InvalidTemplateInterp []])
      else if ty_eqb (type_of v) TDyn then inr (with_same_marks (with_marks (VUnk TStr rf_none) am) v, ds)
      else match conv v TStr with
           | CUnsupported => inl (buf, am, ds ++ [dunsupported])
           | CErr ce => inl (buf, am, ds ++ [derr S_InvalidTemplateInterp [FConv ce]])
           | COk sv =>
               if negb (is_known v) then inr (with_same_marks (with_marks (VUnk TStr rf_none) am) v, ds)
               else let '(su, sm) := unmark sv in
                    match su with
                    | VStr s => inl (buf ++ s, marks_union am sm, ds)
                    | _ => inl (buf, am, ds ++ [dunsupported])
                    end
           end
  end.
Definition join_fin (st : join_state) : val * list diag :=
  match st with
  | inr r => r
  | inl (buf, am, ds) => (with_marks (VStr buf) am, ds)
  end.

Lemma eval_join_unfold idx f c a te :
  eval_with idx (S f) c a (EJoin te) =
  let '(tv, ds) := eval_with idx f c a te in
  if ty_eqb (type_of tv) TDyn then (with_same_marks (VUnk TStr rf_none) tv, ds)
  else if negb (is_known tv) then (with_same_marks (VUnk TStr rf_none) tv, ds)
  else
  let '(tu, tm) := unmark tv in
  match tu with
  | VTuple vs => join_fin (fold_left join_step vs (inl ([], tm, ds)))
  | _ => (dyn_val, ds ++ [dunsupported])
  end.
Proof. reflexivity. Qed.

Definition join_ds (st : join_state) : list diag :=
  match st with inl (_, _, ds) => ds | inr (_, ds) => ds end.
Lemma join_step_ds st v : exists x, join_ds (join_step st v) = join_ds st ++ x.
Proof.
  destruct st as [[[buf am] ds]|[r ds]]; cbn [join_step join_ds]; [|exists []; rewrite app_nil_r; reflexivity].
  repeat match goal with
         | |- context [match ?y with _ => _ end] => destruct y
         | |- context [if ?y then _ else _] => destruct y
         end; cbn [join_ds]; first [exists []; rewrite app_nil_r; reflexivity | eexists; reflexivity].
Qed.
Lemma join_fin_ds st : snd (join_fin st) = join_ds st.
Proof. destruct st as [[[buf am] ds]|[r ds]]; reflexivity. Qed.

Definition join_tainted (m : Z) (st : join_state) : bool :=
  match st with inl (_, am, _) => mark_mem m am | inr (r, _) => is_star m r end.

Lemma conv_star m v want r : is_star m v = true -> conv v want = COk r -> is_star m r = true.
Proof.
  destruct v; cbn [is_star]; try discriminate. intros Hs E. unfold conv in E. cbn [val_size] in E.
  rewrite convert_mark in E. destruct (convert _ v want); try discriminate E. injection E as <-.
  apply with_marks_star, Hs.
Qed.

Lemma join_step_taint m st v :
  join_tainted m st = true \/ (is_star m v = true /\ exists x, st = inl x) ->
  clean (join_ds (join_step st v)) -> join_tainted m (join_step st v) = true.
Proof.
  intros H K. destruct st as [[[buf am] ds]|[r ds]]; cbn [join_step join_tainted join_ds] in *.
  2:{ destruct H as [H|[_ [x H]]]; [exact H|discriminate H]. }
  assert (H' : mark_mem m am = true \/ is_star m v = true) by (destruct H as [H|[H _]]; auto). clear H.
  destruct (is_null v); [cbn [join_ds] in K; bad K|].
  destruct (ty_eqb (type_of v) TDyn).
  { cbn [join_tainted]. unfold with_same_marks. rewrite !is_star_with_marks.
    destruct H' as [H|H]; [rewrite H|rewrite (marks_of_star _ _ H)]; rewrite ?orb_true_r; reflexivity. }
  destruct (conv v TStr) as [sv| |] eqn:C; try (cbn [join_ds] in K; bad K).
  destruct (negb (is_known v)).
  { cbn [join_tainted]. unfold with_same_marks. rewrite !is_star_with_marks.
    destruct H' as [H|H]; [rewrite H|rewrite (marks_of_star _ _ H)]; rewrite ?orb_true_r; reflexivity. }
  destruct (unmark sv) as [su sm] eqn:U.
  destruct su; try (cbn [join_ds] in K; bad K).
  cbn [join_tainted]. rewrite mark_mem_union. destruct H' as [H|H]; [rewrite H; reflexivity|].
  pose proof (conv_star _ _ _ _ H C) as S. apply marks_of_star in S. unfold marks_of in S. rewrite U in S.
  cbn [snd] in S. rewrite S. apply orb_true_r.
Qed.

Lemma join_fold_taint m vs : forall st,
  join_tainted m st = true -> clean (join_ds (fold_left join_step vs st)) ->
  join_tainted m (fold_left join_step vs st) = true.
Proof.
  induction vs as [|v r IH]; intros st H K; cbn [fold_left] in *; [exact H|].
  apply IH; [|exact K]. apply join_step_taint; [left; exact H|].
  eapply (fold_clean_mono _ join_ds); [|exact K]. intros; apply join_step_ds.
Qed.

Lemma join_fin_star m st : join_tainted m st = true -> is_star m (fst (join_fin st)) = true.
Proof.
  destruct st as [[[buf am] ds]|[r ds]]; cbn [join_tainted join_fin fst]; [|auto].
  intro H. apply with_marks_star, H.
Qed.

Lemma type_of_unmark v : type_of v = type_of (fst (unmark v)).
Proof. destruct v; reflexivity. Qed.

Lemma leq_nostar_facts m v1 v2 :
  leq m v1 v2 -> is_star m v1 = false -> wf v1 ->
  is_null v1 = is_null v2 /\ is_known v1 = is_known v2 /\
  ty_eqb (type_of v1) TDyn = ty_eqb (type_of v2) TDyn.
Proof.
  intros H S W. rewrite !is_null_hd, !is_known_hd, (type_of_unmark v1), (type_of_unmark v2).
  destruct (unmark_leq _ _ _ H) as [[A _]|(_ & _ & C)].
  - pose proof (marks_of_nostar _ _ S) as X. unfold marks_of in X. congruence.
  - destruct (wf_unmark _ W) as [N _]. revert C N.
    generalize (fst (unmark v1)) (fst (unmark v2)). intros u1 u2 C N. change (leq m u1 u2) in C.
    leq_heads C; try discriminate N; try (injection C; intros; subst); repeat split; reflexivity.
Qed.

Definition join_rel (m : Z) (st1 st2 : join_state) : Prop :=
  (join_tainted m st1 = true /\ join_tainted m st2 = true) \/
  match st1, st2 with
  | inl (b1, am1, _), inl (b2, am2, _) => b1 = b2 /\ am1 = am2
  | inr (r1, _), inr (r2, _) => leq m r1 r2
  | _, _ => False
  end.

Lemma join_step_rel m st1 st2 v1 v2 :
  leq m v1 v2 -> wf v1 -> join_rel m st1 st2 ->
  clean (join_ds (join_step st1 v1)) -> clean (join_ds (join_step st2 v2)) ->
  join_rel m (join_step st1 v1) (join_step st2 v2).
Proof.
  intros Lv W [[T1 T2]|R] K1 K2.
  { left. split; apply join_step_taint; auto. }
  destruct st1 as [[[b1 am1] d1]|[r1 d1]], st2 as [[[b2 am2] d2]|[r2 d2]]; try contradiction.
  2:{ right. exact R. }
  destruct R as [-> ->].
  destruct (is_star m v1) eqn:S.
  { left. split; apply join_step_taint; try assumption; right; (split; [|eexists; reflexivity]); [exact S|].
    rewrite <- (leq_is_star _ _ _ Lv). exact S. }
  destruct (leq_nostar_facts _ _ _ Lv S W) as (Fn & Fk & Ft).
  cbn [join_step] in *. rewrite <- Fn, <- Ft, <- Fk in *.
  destruct (is_null v1); [cbn [join_ds] in K1; bad K1|].
  destruct (ty_eqb (type_of v1) TDyn).
  { right. apply with_same_marks_leq; [apply leq_refl|exact Lv]. }
  destruct (conv v1 TStr) as [s1| |] eqn:C1; try (cbn [join_ds] in K1; bad K1).
  destruct (conv v2 TStr) as [s2| |] eqn:C2; try (cbn [join_ds] in K2; bad K2).
  destruct (negb (is_known v1)).
  { right. apply with_same_marks_leq; [apply leq_refl|exact Lv]. }
  assert (Ls : leq m s1 s2) by (eapply (conv_leq_pd m TStr); [reflexivity|exact Lv|exact C1|exact C2]).
  destruct (unmark_rel _ _ _ Ls) as [Ms Xs].
  destruct (unmark s1) as [u1 sm1]. destruct (unmark s2) as [u2 sm2]. cbn [fst snd] in *.
  destruct u1; try (cbn [join_ds] in K1; bad K1). destruct u2; try (cbn [join_ds] in K2; bad K2).
  destruct (mark_mem m sm1) eqn:Z.
  - left. cbn [join_tainted]. rewrite !mark_mem_union, Z. destruct Ms as [[_ Q]|Q]; [rewrite Q|rewrite <- Q, Z];
      rewrite !orb_true_r; auto.
  - right. destruct Ms as [[P _]|Q]; [congruence|]. subst sm2. specialize (Xs eq_refl).
    unfold leq in Xs. cbn [erase] in Xs. injection Xs as ->. auto.
Qed.

Lemma join_fold_rel m vs1 vs2 :
  Forall2 (leq m) vs1 vs2 -> Forall wf vs1 ->
  forall st1 st2, join_rel m st1 st2 ->
  clean (join_ds (fold_left join_step vs1 st1)) -> clean (join_ds (fold_left join_step vs2 st2)) ->
  join_rel m (fold_left join_step vs1 st1) (fold_left join_step vs2 st2).
Proof.
  induction 1 as [|v1 v2 r1 r2 Lv _ IH]; intros Wf st1 st2 R K1 K2; cbn [fold_left] in *; [exact R|].
  inversion Wf as [|? ? Wv Wr]; subst.
  apply IH; [exact Wr| |exact K1|exact K2].
  apply join_step_rel; try assumption.
  - eapply (fold_clean_mono _ join_ds); [|exact K1]. intros; apply join_step_ds.
  - eapply (fold_clean_mono _ join_ds); [|exact K2]. intros; apply join_step_ds.
Qed.

Lemma join_fin_rel m st1 st2 : join_rel m st1 st2 -> leq m (fst (join_fin st1)) (fst (join_fin st2)).
Proof.
  intros [[T1 T2]|R].
  - apply stars_leq; apply join_fin_star; assumption.
  - destruct st1 as [[[b1 am1] d1]|[r1 d1]], st2 as [[[b2 am2] d2]|[r2 d2]]; try contradiction; cbn [join_fin fst].
    + destruct R as [-> ->]. apply leq_refl.
    + exact R.
Qed.

(* ---- object constructor ---------------------------------------------------------------------- *)
Definition obj_state := (list (list Z * val) * list marks * bool * list diag)%type.
Definition obj_step (ev : expr -> val * list diag) (st : obj_state) (it : expr * expr) : obj_state :=
  let '(vals, mks, known, ds) := st in
  let '(k, kds) := ev (fst it) in
  let '(v, vds) := ev (snd it) in
  let ds := ds ++ kds ++ vds in
  if has_errors kds then (vals, mks, false, ds)
  else if is_null k then (vals, mks, false, ds ++ [derr S_NullKey []])
  else
  let '(ku, km) := unmark k in
  let mks := mks ++ [km] in
  match conv ku TStr with
  | CUnsupported => (vals, mks, false, ds ++ [dunsupported])
  | CErr ce => (vals, mks, false, ds ++ [derr S_IncorrectKeyType [FConv ce]])
  | COk ks =>
      match ks with
      | VStr s => (assoc_set s v vals, mks, known, ds)
      | _ => (vals, mks, false, ds)
      end
  end.

Lemma eval_obj_unfold idx f c a items :
  eval_with idx (S f) c a (EObj items) =
  let '(vals, mks, known, ds) := fold_left (obj_step (eval_with idx f c a)) items ([], [], true, []) in
  if negb known then (with_marks dyn_val (marks_unions mks), ds)
  else (with_marks (VObj vals) (marks_unions mks), ds).
Proof. reflexivity. Qed.

Lemma obj_step_ds2 ev st it :
  exists x, snd (obj_step ev st it) = (snd st ++ snd (ev (fst it)) ++ snd (ev (snd it))) ++ x.
Proof.
  destruct st as [[[vals mks] known] ds]. unfold obj_step.
  destruct (ev (fst it)) as [k kds]. destruct (ev (snd it)) as [v vds]. cbn [snd].
  repeat match goal with
         | |- context [match ?y with _ => _ end] => destruct y
         | |- context [if ?y then _ else _] => destruct y
         end; cbn [snd]; first [exists []; rewrite app_nil_r; reflexivity | eexists; reflexivity].
Qed.
Lemma obj_step_ds ev st it : exists x, snd (obj_step ev st it) = snd st ++ x.
Proof. destruct (obj_step_ds2 ev st it) as [x H]. rewrite H, <- !app_assoc. eexists; reflexivity. Qed.

Definition obj_mks (st : obj_state) : list marks := snd (fst (fst st)).
Lemma obj_step_taint m ev st it :
  existsb (mark_mem m) (obj_mks st) = true -> existsb (mark_mem m) (obj_mks (obj_step ev st it)) = true.
Proof.
  destruct st as [[[vals mks] known] ds]. unfold obj_step, obj_mks. cbn [fst snd]. intro H.
  destruct (ev (fst it)) as [k kds]. destruct (ev (snd it)) as [v vds].
  repeat match goal with
         | |- context [match ?y with _ => _ end] => destruct y
         | |- context [if ?y then _ else _] => destruct y
         end; cbn [fst snd]; rewrite ?existsb_app, H; reflexivity.
Qed.

(* ---- function calls ---------------------------------------------------------------------------- *)
Definition call_step (ev : expr -> val * list diag) (fnv : fn) (st : list val * list diag) (ia : nat * expr) :=
  let '(vals, ds) := st in
  let '(v, ads) := ev (snd ia) in
  let ds := ds ++ ads in
  match param_for fnv (fst ia) with
  | None => (vals ++ [v], ds ++ [dunsupported])
  | Some p =>
      match conv v (p_ty p) with
      | COk v' => (vals ++ [v'], ds)
      | CErr ce => (vals ++ [v], ds ++ [derr S_InvalidFuncArg [FStr (p_name p) []; FConv ce]])
      | CUnsupported => (vals ++ [v], ds ++ [dunsupported])
      end
  end.

Definition call_tail (ev : expr -> val * list diag) (name : list Z) (fnv : fn) (args' : list expr) (ds0 : list diag) : val * list diag :=
  let np := length (f_params fnv) in
  if (length args' <? np)%nat then (dyn_val, [derr S_NotEnoughArgs [FStr name []]])
  else if (match f_varparam fnv with None => true | Some _ => false end) && (np <? length args')%nat
  then (dyn_val, [derr S_TooManyArgs [FStr name []]])
  else
  let '(argvals, ds) := fold_left (call_step ev fnv) (combine (seq 0 (length args')) args') ([], ds0) in
  if has_errors ds then (dyn_val, ds)
  else if has_unsupported ds then (dyn_val, ds)
  else match fn_call fnv argvals with
       | CallOk v => (v, ds)
       | CallArgErr i => (dyn_val, ds ++ [derr S_InvalidFuncArg []])
       | CallErr => (dyn_val, ds ++ [derr S_ErrorInCall [FStr name []]])
       | CallUnsupported => (dyn_val, ds ++ [dunsupported])
       end.

Lemma eval_call_unfold idx f c a name args :
  eval_with idx (S f) c a (ECall name args false) =
  match lookup_fn c name false with
  | (None, false) => (dyn_val, [derr S_FuncsNotAllowed []])
  | (None, true) => (dyn_val, [derr S_UnknownFunc [FStr name []]])
  | (Some fnv, _) => call_tail (eval_with idx f c a) name fnv args []
  end.
Proof. reflexivity. Qed.

Lemma call_step_ds2 ev fnv st ia : exists x, snd (call_step ev fnv st ia) = (snd st ++ snd (ev (snd ia))) ++ x.
Proof.
  destruct st as [vals ds]. unfold call_step. destruct (ev (snd ia)) as [v ads]. cbn [snd].
  repeat match goal with
         | |- context [match ?y with _ => _ end] => destruct y
         end; cbn [snd]; first [exists []; rewrite app_nil_r; reflexivity | eexists; reflexivity].
Qed.
Lemma call_step_ds ev fnv st ia : exists x, snd (call_step ev fnv st ia) = snd st ++ x.
Proof. destruct (call_step_ds2 ev fnv st ia) as [x H]. rewrite H, <- !app_assoc. eexists; reflexivity. Qed.

(* ---- conditional ------------------------------------------------------------------------------ *)
Definition cond_uni (tv fv : val) : option (ty * bool * bool) + bool :=
  if is_dyn_null tv then inl (Some (type_of fv, true, false))
  else if is_dyn_null fv then inl (Some (type_of tv, false, true))
  else if ty_eqb (type_of tv) TDyn || ty_eqb (type_of fv) TDyn then inl (Some (TDyn, false, false))
  else match unify (type_of tv) (type_of fv) with
       | UOk t => inl (Some (t, negb (ty_eqb (type_of tv) t), negb (ty_eqb (type_of fv) t)))
       | UNone => inr false
       | UUnsupported => inr true
       end.

(* observations of a branch value used by the unknown-condition path *)
Record bobs := mkObs { o_null : bool; o_dnn : option bool; o_ty : ty;
                       o_nlo : option (option (num * bool)); o_nhi : option (option (num * bool));
                       o_llo : option Z; o_lhi : option (option Z) }.
Definition obs_of (v : val) : bobs :=
  mkObs (hd_null v) (definitely_not_null v) (type_of v) (num_lo v) (num_hi v) (len_lo v) (len_hi v).

Definition cond_unk_obs (rt : ty) (t f : bobs) : val :=
  let nn := match o_dnn t, o_dnn f with
            | Some a, Some b => Some (a && b) | _, _ => None end in
  if o_null t && o_null f then VNull rt else
    match nn with
    | None => VUnk rt RWild
    | Some nnb =>
      if ty_eqb (o_ty t) TNum && ty_eqb (o_ty f) TNum then
        match o_nlo t, o_nlo f, o_nhi t, o_nhi f with
        | Some tlo, Some flo, Some thi, Some fhi =>
            let lo := match tlo, flo with
                      | Some (a, ai), Some (b, bi) =>
                          if num_ltb a b then Some (a, ai)
                          else if num_eqb a b then Some (b, ai || bi) else Some (b, bi)
                      | _, _ => None end in
            let hi := match thi, fhi with
                      | Some (a, ai), Some (b, bi) =>
                          if num_ltb b a then Some (a, ai)
                          else if num_eqb a b then Some (b, ai || bi) else Some (b, bi)
                      | _, _ => None end in
            let lo := match lo with Some (NInf false, _) => None | o => o end in
            let hi := match hi with Some (NInf true, _) => None | o => o end in
            finish_unknown TNum (mkRefn nnb [] lo hi 0 None)
        | _, _, _, _ => VUnk TNum RWild
        end
      else if is_collection (o_ty t) && is_collection (o_ty f) && ty_eqb (o_ty t) (o_ty f) then
        match o_llo t, o_llo f, o_lhi t, o_lhi f with
        | Some tl, Some fl, Some th, Some fh =>
            let lo := Z.min tl fl in
            let hi := match th, fh with Some a, Some b => Some (Z.max a b) | _, _ => None end in
            finish_unknown rt (mkRefn nnb [] None None lo hi)
        | _, _, _, _ => VUnk rt RWild
        end
      else VUnk rt (RExact (mkRefn nnb [] None None 0 None))
    end.

Definition cond_pick (rt : ty) (mk : marks) (cds : list diag) (bv : val) (bds : list diag) (needconv : bool) : val * list diag :=
  if needconv then
    match conv bv rt with
    | COk r => (with_marks r mk, cds ++ bds)
    | CErr ce => (with_marks (VUnk rt rf_none) mk, cds ++ bds ++ [derr S_InconsistentCond [FConv ce]])
    | CUnsupported => (dyn_val, cds ++ bds ++ [dunsupported])
    end
  else (with_marks bv mk, cds ++ bds).

Definition cond_tail (rt : ty) (tconv fconv : bool) (cv : val) (cds : list diag)
           (tv : val) (tds : list diag) (fv : val) (fds : list diag) : val * list diag :=
  if is_null cv then (VUnk rt rf_none, cds ++ [derr S_NullCondition []])
  else
  let '(cu, cm) := unmark cv in
  let '(tu, tm) := unmark tv in
  let '(fu, fm) := unmark fv in
  let mk := marks_unions [cm; tm; fm] in
  if negb (is_known cu) then (with_marks (cond_unk_obs rt (obs_of tu) (obs_of fu)) mk, cds)
  else
  match conv cu TBool with
  | CUnsupported => (VUnk rt rf_none, cds ++ [dunsupported])
  | CErr _ => (VUnk rt rf_none, cds ++ [derr S_IncorrectCondType []])
  | COk cb =>
      match cb with
      | VBool true => cond_pick rt mk cds tu tds tconv
      | VBool false => cond_pick rt mk cds fu fds fconv
      | _ => (dyn_val, cds ++ [dunsupported])
      end
  end.

Lemma eval_cond_unfold idx f c a ce te fe :
  eval_with idx (S f) c a (ECond ce te fe) =
  let '(tv, tds) := eval_with idx f c a te in
  let '(fv, fds) := eval_with idx f c a fe in
  if has_unsupported tds || has_unsupported fds then (dyn_val, [dunsupported]) else
  match cond_uni tv fv with
  | inr true => (dyn_val, [dunsupported])
  | inr false | inl None =>
      (dyn_val, [derr S_InconsistentCond (if contains_marked tv || contains_marked fv then []
                                          else [FTy (type_of tv); FTy (type_of fv)])])
  | inl (Some (rt, tconv, fconv)) =>
      let '(cv, cds) := eval_with idx f c a ce in
      cond_tail rt tconv fconv cv cds tv tds fv fds
  end.
Proof.
  unfold cond_tail.
  cbn [eval_with]. destruct (eval_with idx f c a te) as [tv tds]. destruct (eval_with idx f c a fe) as [fv fds].
  destruct (has_unsupported tds || has_unsupported fds); [reflexivity|].
  fold (cond_uni tv fv). destruct (cond_uni tv fv) as [[[[rt tconv] fconv]|]|[|]]; try reflexivity.
  destruct (eval_with idx f c a ce) as [cv cds]. destruct (is_null cv); [reflexivity|].
  destruct (unmark cv) as [cu cm]. destruct (unmark tv) as [tu tm]. destruct (unmark fv) as [fu fm].
  destruct (negb (is_known cu)); [|reflexivity].
  unfold cond_unk_obs, obs_of. cbn [o_null o_dnn o_ty o_nlo o_nhi o_llo o_lhi].
  destruct (hd_null tu && hd_null fu) eqn:Hn.
  { destruct tu; try discriminate Hn; destruct fu; try discriminate Hn; reflexivity. }
  assert (X : forall (A : Type) (a b : A), match tu, fu with VNull _, VNull _ => a | _, _ => b end = b).
  { intros. destruct tu; try reflexivity; destruct fu; try reflexivity; discriminate Hn. }
  rewrite X. clear X Hn.
  repeat match goal with
         | |- context [match ?y with _ => _ end] => destruct y eqn:?
         | |- context [if ?y then _ else _] => destruct y eqn:?
         end; reflexivity.
Qed.

Lemma obs_leq m a b :
  leq m a b -> is_mark a = false -> type_of a = type_of b -> (forall t, type_of a <> TSet t) ->
  obs_of a = obs_of b.
Proof.
  intros H N T NS. unfold obs_of. rewrite <- T.
  leq_heads H; try discriminate N; try (injection H; intros; subst; reflexivity).
  - injection H as -> H. apply map_erase_Forall2, Forall2_length in H.
    cbn [hd_null definitely_not_null num_lo num_hi len_lo len_hi length_int]. rewrite H. reflexivity.
  - exfalso. eapply NS. reflexivity.
  - injection H as -> H. apply map_erase_kv_Forall2, Forall2_length in H.
    cbn [hd_null definitely_not_null num_lo num_hi len_lo len_hi length_int]. rewrite H. reflexivity.
  - injection H as H. apply map_erase_Forall2, Forall2_length in H.
    cbn [hd_null definitely_not_null num_lo num_hi len_lo len_hi length_int]. rewrite H. reflexivity.
  - injection H as H. apply map_erase_kv_Forall2, Forall2_length in H.
    cbn [hd_null definitely_not_null num_lo num_hi len_lo len_hi length_int]. rewrite H. reflexivity.
Qed.

Lemma cond_pick_ds rt mk cds bv bds nc : exists x, snd (cond_pick rt mk cds bv bds nc) = cds ++ x.
Proof.
  unfold cond_pick. destruct nc; [destruct (conv bv rt)|]; cbn [snd]; eexists; reflexivity.
Qed.
Lemma cond_tail_ds rt tc fc cv cds tv tds fv fds :
  exists x, snd (cond_tail rt tc fc cv cds tv tds fv fds) = cds ++ x.
Proof.
  unfold cond_tail. destruct (is_null cv); [eexists; reflexivity|].
  destruct (unmark cv) as [cu cm]. destruct (unmark tv) as [tu tm]. destruct (unmark fv) as [fu fm].
  destruct (negb (is_known cu)); [exists []; rewrite app_nil_r; reflexivity|].
  destruct (conv cu TBool) as [cb| |]; try (eexists; reflexivity).
  destruct cb; try (eexists; reflexivity). destruct b; apply cond_pick_ds.
Qed.

Lemma cond_pick_marked rt mk cds bv bds nc v ds :
  cond_pick rt mk cds bv bds nc = (v, ds) -> clean ds -> exists x, v = with_marks x mk.
Proof.
  unfold cond_pick. intros E K. destruct nc; [destruct (conv bv rt)|]; injection E as <- <-; eauto;
    exfalso; apply clean_app in K as [_ K]; bad K.
Qed.
Lemma cond_tail_marked rt tc fc cv cds tv tds fv fds v ds :
  cond_tail rt tc fc cv cds tv tds fv fds = (v, ds) -> clean ds ->
  exists x, v = with_marks x (marks_unions [marks_of cv; marks_of tv; marks_of fv]).
Proof.
  unfold cond_tail, marks_of. intros E K. destruct (is_null cv); [injection E as <- <-; bad K|].
  destruct (unmark cv) as [cu cm]. destruct (unmark tv) as [tu tm]. destruct (unmark fv) as [fu fm]. cbn [snd].
  destruct (negb (is_known cu)); [injection E as <- _; eauto|].
  destruct (conv cu TBool) as [cb| |]; try (injection E as <- <-; bad K).
  destruct cb; try (injection E as <- <-; bad K). destruct b; eapply cond_pick_marked; eassumption.
Qed.

Lemma cond_pick_leq m rt mk cds1 cds2 b1 b2 bd1 bd2 nc v1 v2 ds1 ds2 :
  leq m b1 b2 -> (nc = true -> pd_ty rt = true \/ prim_head b1 = true) ->
  cond_pick rt mk cds1 b1 bd1 nc = (v1, ds1) -> cond_pick rt mk cds2 b2 bd2 nc = (v2, ds2) ->
  clean ds1 -> clean ds2 -> leq m v1 v2.
Proof.
  unfold cond_pick. intros L Hs E1 E2 K1 K2. destruct nc.
  - destruct (conv b1 rt) as [r1| |] eqn:C1; try (injection E1 as <- <-; exfalso; apply clean_app in K1 as [_ K1]; bad K1).
    destruct (conv b2 rt) as [r2| |] eqn:C2; try (injection E2 as <- <-; exfalso; apply clean_app in K2 as [_ K2]; bad K2).
    injection E1 as <- _. injection E2 as <- _. apply with_marks_leq; [|apply marks_rel_refl].
    destruct (Hs eq_refl) as [Hp|Hp].
    + eapply conv_leq_pd; eassumption.
    + assert (b1 = b2).
      { apply (leq_prim_eq m); [exact L|]. destruct b1; try discriminate Hp; exact I. }
      subst b2. rewrite C1 in C2. injection C2 as <-. apply leq_refl.
  - injection E1 as <- _. injection E2 as <- _. apply with_marks_leq; [exact L|apply marks_rel_refl].
Qed.

Lemma cond_tail_leq m rt tc fc cv1 cv2 cds1 cds2 tv1 tv2 td1 td2 fv1 fv2 fd1 fd2 v1 v2 ds1 ds2 :
  leq m cv1 cv2 -> leq m tv1 tv2 -> leq m fv1 fv2 ->
  is_star m cv1 = false -> is_star m tv1 = false -> is_star m fv1 = false ->
  wf cv1 -> wf tv1 -> wf fv1 ->
  obs_of (fst (unmark tv1)) = obs_of (fst (unmark tv2)) ->
  obs_of (fst (unmark fv1)) = obs_of (fst (unmark fv2)) ->
  (tc = true -> pd_ty rt = true \/ prim_head (fst (unmark tv1)) = true) ->
  (fc = true -> pd_ty rt = true \/ prim_head (fst (unmark fv1)) = true) ->
  cond_tail rt tc fc cv1 cds1 tv1 td1 fv1 fd1 = (v1, ds1) ->
  cond_tail rt tc fc cv2 cds2 tv2 td2 fv2 fd2 = (v2, ds2) ->
  clean ds1 -> clean ds2 -> leq m v1 v2.
Proof.
  intros Lc Lt Lf Sc St Sf Wc Wt Wf Ot Of Ht Hf E1 E2 K1 K2. unfold cond_tail in E1, E2.
  destruct (leq_nostar_facts _ _ _ Lc Sc Wc) as (Nc & _ & _). rewrite <- Nc in E2.
  destruct (is_null cv1); [injection E1 as <- <-; bad K1|].
  assert (U : forall a b, leq m a b -> is_star m a = false ->
              snd (unmark a) = snd (unmark b) /\ leq m (fst (unmark a)) (fst (unmark b))).
  { intros a b L S. destruct (unmark_leq _ _ _ L) as [[A _]|(A & _ & C)]; [|auto].
    pose proof (marks_of_nostar _ _ S) as X. unfold marks_of in X. congruence. }
  destruct (U _ _ Lc Sc) as [Mc Xc]. destruct (U _ _ Lt St) as [Mt Xt]. destruct (U _ _ Lf Sf) as [Mf Xf].
  destruct (wf_unmark _ Wc) as [Nkc _].
  destruct (unmark cv1) as [cu1 cm1]. destruct (unmark cv2) as [cu2 cm2].
  destruct (unmark tv1) as [tu1 tm1]. destruct (unmark tv2) as [tu2 tm2].
  destruct (unmark fv1) as [fu1 fm1]. destruct (unmark fv2) as [fu2 fm2]. cbn [fst snd] in *. subst cm2 tm2 fm2.
  destruct (leq_known_tru _ _ _ Xc Nkc) as [Kc _]. rewrite <- Kc in E2.
  destruct (negb (is_known cu1)).
  { injection E1 as <- _. injection E2 as <- _. rewrite Ot, Of. apply leq_refl. }
  destruct (conv cu1 TBool) as [b1| |] eqn:C1; try (injection E1 as <- <-; bad K1).
  destruct (conv cu2 TBool) as [b2| |] eqn:C2; try (injection E2 as <- <-; bad K2).
  assert (Lb : leq m b1 b2) by (eapply (conv_leq_pd m TBool); [reflexivity|exact Xc|exact C1|exact C2]).
  leq_heads Lb; try (injection E1 as <- <-; bad K1).
  injection Lb as ->. destruct b0.
  - eapply cond_pick_leq; [exact Xt|exact Ht|exact E1|exact E2|exact K1|exact K2].
  - eapply cond_pick_leq; [exact Xf|exact Hf|exact E1|exact E2|exact K1|exact K2].
Qed.

Lemma is_dyn_null_leq m a b : leq m a b -> is_dyn_null a = is_dyn_null b.
Proof. intro H. leq_heads H; try reflexivity. injection H as ->. reflexivity. Qed.

Definition cond_ok_ty (T F : ty) : Prop :=
  T = TDyn \/ F = TDyn \/
  match unify T F with
  | UOk t => pd_ty t = true \/ (ty_eqb T t = true /\ ty_eqb F t = true)
  | _ => True
  end.

Lemma cond_uni_safe tv fv rt tc fc :
  cond_uni tv fv = inl (Some (rt, tc, fc)) -> cond_ok_ty (type_of tv) (type_of fv) ->
  (tc = true -> pd_ty rt = true \/ prim_head (fst (unmark tv)) = true) /\
  (fc = true -> pd_ty rt = true \/ prim_head (fst (unmark fv)) = true).
Proof.
  unfold cond_uni. intros E Hok.
  destruct (is_dyn_null tv) eqn:D1.
  { injection E as <- <- <-. split; [|discriminate]. intros _. right.
    destruct tv; try discriminate D1. reflexivity. }
  destruct (is_dyn_null fv) eqn:D2.
  { injection E as <- <- <-. split; [discriminate|]. intros _. right.
    destruct fv; try discriminate D2. reflexivity. }
  destruct (ty_eqb (type_of tv) TDyn || ty_eqb (type_of fv) TDyn) eqn:D3.
  { injection E as <- <- <-. split; discriminate. }
  apply orb_false_iff in D3 as [D3 D4].
  destruct Hok as [H|[H|H]]; [rewrite H in D3; discriminate D3|rewrite H in D4; discriminate D4|].
  destruct (unify (type_of tv) (type_of fv)) as [t| |]; try discriminate E.
  injection E as <- <- <-. destruct H as [H|[H1 H2]].
  - split; intros _; left; exact H.
  - rewrite H1, H2. split; discriminate.
Qed.

Section NI.
  Variable m : Z.
  Variable idx : val -> val -> val * list diag.

  (* the class of contexts the side conditions speak about: well-formed values, closed under
     the child contexts the evaluator builds (for / splat) *)
  Variable Cx : ctx -> Prop.
  Hypothesis Cx_wf : forall c, Cx c -> wf_ctx c.
  Hypothesis Cx_child : forall c vars, Cx c -> (forall k v, In (k, v) vars -> wf v) -> Cx (child_ctx c vars).
  Hypothesis Cx_frame : forall c, Cx c -> Cx (mkFrame None None :: c).

  (* hcl.Index contract *)
  Definition idx_ni : Prop :=
    forall c1 c2 k1 k2 r1 r2 ds1 ds2,
      leq m c1 c2 -> leq m k1 k2 -> wf c1 -> wf c2 -> wf k1 -> wf k2 ->
      idx c1 k1 = (r1, ds1) -> idx c2 k2 = (r2, ds2) ->
      has_errors ds1 = false -> has_errors ds2 = false ->
      has_unsupported ds1 = false -> has_unsupported ds2 = false ->
      leq m r1 r2.
  (* the same for one fixed key *)
  Definition idx_ni_key (k : val) : Prop :=
    forall c1 c2 r1 r2 ds1 ds2,
      leq m c1 c2 -> wf c1 -> wf c2 ->
      idx c1 k = (r1, ds1) -> idx c2 k = (r2, ds2) ->
      has_errors ds1 = false -> has_errors ds2 = false ->
      has_unsupported ds1 = false -> has_unsupported ds2 = false ->
      leq m r1 r2.
  Definition key_ok (key : expr) : Prop := idx_ni \/ exists k, key = ELit k /\ idx_ni_key k.

  (* e never produces an error diagnostic (in contexts of the class) *)
  Definition nofail (e : expr) : Prop :=
    forall fuel c a, Cx c -> wf_opt a -> has_errors (snd (eval_with idx fuel c a e)) = false.

  (* e has the static type T: every error-free evaluation yields a value of type T *)
  Definition static_ty (e : expr) (T : ty) : Prop :=
    forall fuel c a v ds, Cx c -> wf_opt a -> eval_with idx fuel c a e = (v, ds) ->
      has_errors ds = false -> type_of v = T.

  (* Side condition of the conditional.  (1) Both result expressions never fail: the diagnostics
     of the branch that is not selected are DROPPED by ConditionalExpr.Value, so an error that
     depends on marked data would otherwise go unnoticed together with the marks of that
     branch (cond_refuted_dropped_diags).  (2) Both have a static type, no set type, and the
     unified result type needs no structural conversion: the result type is computed from the
     types of BOTH branches, so the type of a marked value selected by a marked index would
     otherwise leak into the conversion of the other, unmarked branch (cond_refuted_unify). *)
  Definition cond_side (te fe : expr) : Prop :=
    nofail te /\ nofail fe /\
    exists T F, static_ty te T /\ static_ty fe F /\
      (forall x, T <> TSet x) /\ (forall x, F <> TSet x) /\ cond_ok_ty T F.

  Inductive in_fragment : expr -> Prop :=
  | F_lit v : wf v -> in_fragment (ELit v)
  | F_paren e : in_fragment e -> in_fragment (EParen e)
  | F_wrap e : in_fragment e -> in_fragment (EWrap e)
  | F_anon : in_fragment EAnon
  | F_scope root steps : in_fragment (EScopeTrav root steps)
  | F_rel src steps : in_fragment src -> in_fragment (ERelTrav src steps)
  | F_index coll key : in_fragment coll -> in_fragment key -> key_ok key -> in_fragment (EIndex coll key)
  | F_tuple es : Forall in_fragment es -> in_fragment (ETuple es)
  | F_objkey w force : in_fragment w -> in_fragment (EObjKey w force)
  | F_un op e : in_fragment e -> in_fragment (EUn op e)
  | F_bin op l r : in_fragment l -> in_fragment r -> (is_sc op = true -> nofail l /\ nofail r) ->
                   in_fragment (EBin op l r)
  | F_tmpl parts : Forall in_fragment parts -> in_fragment (ETmpl parts)
  | F_join e : in_fragment e -> in_fragment (EJoin e)
  | F_call name args : Forall in_fragment args -> in_fragment (ECall name args false)
  | F_cond ce te fe : in_fragment ce -> in_fragment te -> in_fragment fe -> cond_side te fe ->
                      in_fragment (ECond ce te fe)
  | F_obj items : Forall (fun it => in_fragment (fst it) /\ in_fragment (snd it)) items -> in_fragment (EObj items).

  (* all values the evaluator produces are well-formed (discharged in MarksNI_Wf.v) *)
  Hypothesis Hwf_eval : forall fuel c a e v ds,
    Cx c -> wf_opt a -> in_fragment e -> eval_with idx fuel c a e = (v, ds) -> wf v.

  Definition ni_at (f : nat) (e : expr) : Prop :=
    forall c1 c2 a1 a2 v1 ds1 v2 ds2,
      low_eq m c1 c2 -> leq_opt m a1 a2 -> funcs_ni m c1 -> Cx c1 -> Cx c2 -> wf_opt a1 -> wf_opt a2 ->
      eval_with idx f c1 a1 e = (v1, ds1) -> eval_with idx f c2 a2 e = (v2, ds2) ->
      clean ds1 -> clean ds2 -> leq m v1 v2.

  Section Step.
    Variable f : nat.
    Hypothesis IH : forall e, in_fragment e -> ni_at f e.

    Ltac start := intros c1 c2 a1 a2 v1 ds1 v2 ds2 HL HA HF C1 C2 W1 W2 E1 E2 K1 K2; cbn [eval_with] in E1, E2.

    Ltac useIH Fe A1 A2 Ka Kb :=
      eapply (IH _ Fe); [eassumption|eassumption|eassumption|eassumption|eassumption|eassumption|eassumption
                        |exact A1|exact A2|exact Ka|exact Kb].

    Lemma lit_ni v : ni_at (S f) (ELit v).
    Proof. start. injection E1 as <- _. injection E2 as <- _. apply leq_refl. Qed.

    Lemma paren_ni e : in_fragment e -> ni_at (S f) (EParen e).
    Proof. intro Fe. start. eapply IH; eassumption. Qed.

    Lemma wrap_ni e : in_fragment e -> ni_at (S f) (EWrap e).
    Proof. intro Fe. start. eapply IH; eassumption. Qed.

    Lemma anon_ni : ni_at (S f) EAnon.
    Proof.
      start. injection E1 as <- _. injection E2 as <- _.
      destruct a1, a2; cbn in HA; try contradiction; [exact HA|apply leq_refl].
    Qed.

    Lemma scope_ni root steps : ni_at (S f) (EScopeTrav root steps).
    Proof. start. eapply traverse_abs_leq; eauto. Qed.

    Lemma rel_ni src steps : in_fragment src -> ni_at (S f) (ERelTrav src steps).
    Proof.
      intro Fs. start.
      destruct (eval_with idx f c1 a1 src) as [s1 d1] eqn:S1.
      destruct (eval_with idx f c2 a2 src) as [s2 d2] eqn:S2.
      destruct (traverse_rel steps s1 []) as [r1 e1] eqn:T1.
      destruct (traverse_rel steps s2 []) as [r2 e2] eqn:T2.
      injection E1 as <- <-. injection E2 as <- <-.
      apply clean_app in K1 as [K1a K1b]. apply clean_app in K2 as [K2a K2b].
      eapply traverse_rel_leq; [|eapply Hwf_eval; [exact C1|exact W1|exact Fs|exact S1]|exact T1|exact T2|exact K1b|exact K2b].
      eapply IH; eassumption.
    Qed.

    Lemma index_ni coll key : in_fragment coll -> in_fragment key -> key_ok key -> ni_at (S f) (EIndex coll key).
    Proof.
      intros Fc Fk Hk. start.
      destruct (eval_with idx f c1 a1 coll) as [cv1 cd1] eqn:A1.
      destruct (eval_with idx f c2 a2 coll) as [cv2 cd2] eqn:A2.
      destruct (eval_with idx f c1 a1 key) as [kv1 kd1] eqn:B1.
      destruct (eval_with idx f c2 a2 key) as [kv2 kd2] eqn:B2.
      destruct (idx cv1 kv1) as [r1 id1] eqn:I1. destruct (idx cv2 kv2) as [r2 id2] eqn:I2.
      injection E1 as <- <-. injection E2 as <- <-.
      apply clean_app in K1 as [K1a K1]. apply clean_app in K1 as [K1b K1c].
      apply clean_app in K2 as [K2a K2]. apply clean_app in K2 as [K2b K2c].
      assert (Lc : leq m cv1 cv2) by (useIH Fc A1 A2 K1a K2a).
      assert (Wc1 : wf cv1) by (eapply Hwf_eval; [exact C1|exact W1|exact Fc|exact A1]).
      assert (Wc2 : wf cv2) by (eapply Hwf_eval; [exact C2|exact W2|exact Fc|exact A2]).
      destruct K1c as [X1 Y1]. destruct K2c as [X2 Y2].
      destruct Hk as [Hk|(k & -> & Hk)].
      - eapply Hk; [exact Lc| |exact Wc1|exact Wc2| | |exact I1|exact I2| | | |]; try assumption.
        + useIH Fk B1 B2 K1b K2b.
        + eapply Hwf_eval; [exact C1|exact W1|exact Fk|exact B1].
        + eapply Hwf_eval; [exact C2|exact W2|exact Fk|exact B2].
      - destruct f as [|f']; cbn [eval_with] in B1, B2.
        + injection B1 as <- <-. unclean K1b.
        + injection B1 as <- _. injection B2 as <- _.
          eapply Hk; [exact Lc|exact Wc1|exact Wc2|exact I1|exact I2| | | |]; assumption.
    Qed.

    Lemma map_ev_leq es : Forall in_fragment es ->
      forall c1 c2 a1 a2,
      low_eq m c1 c2 -> leq_opt m a1 a2 -> funcs_ni m c1 -> Cx c1 -> Cx c2 -> wf_opt a1 -> wf_opt a2 ->
      clean (concat (map snd (map (eval_with idx f c1 a1) es))) ->
      clean (concat (map snd (map (eval_with idx f c2 a2) es))) ->
      Forall2 (leq m) (map fst (map (eval_with idx f c1 a1) es)) (map fst (map (eval_with idx f c2 a2) es)).
    Proof.
      induction 1 as [|e r Fe _ IHr]; intros c1 c2 a1 a2 HL HA HF C1 C2 W1 W2 K1 K2; cbn [map concat] in *.
      - constructor.
      - apply clean_app in K1 as [K1a K1b]. apply clean_app in K2 as [K2a K2b].
        constructor; [|apply IHr; assumption].
        destruct (eval_with idx f c1 a1 e) as [x1 d1] eqn:A1. destruct (eval_with idx f c2 a2 e) as [x2 d2] eqn:A2.
        cbn [fst snd] in *. useIH Fe A1 A2 K1a K2a.
    Qed.

    Lemma tuple_ni es : Forall in_fragment es -> ni_at (S f) (ETuple es).
    Proof.
      intro Fe. start. injection E1 as <- <-. injection E2 as <- <-.
      apply leq_tuple. apply map_ev_leq; assumption.
    Qed.

    Lemma objkey_shape w force :
      exists k : option (val * list diag), forall c a,
        eval_with idx (S f) c a (EObjKey w force) = match k with Some r => r | None => eval_with idx f c a w end.
    Proof.
      destruct force; [exists None; reflexivity|].
      destruct w; try (exists None; reflexivity);
        try (destruct steps; [eexists (Some _)|eexists (Some _)]; intros; cbn [eval_with negb literal_name]; reflexivity).
      destruct v; try (exists None; reflexivity);
        try (eexists (Some _); intros; cbn [eval_with negb literal_name]; reflexivity).
      destruct b; eexists (Some _); intros; cbn [eval_with negb literal_name]; reflexivity.
    Qed.

    Lemma objkey_ni w force : in_fragment w -> ni_at (S f) (EObjKey w force).
    Proof.
      intro Fw. destruct (objkey_shape w force) as [[r|] Hk];
        intros c1 c2 a1 a2 v1 ds1 v2 ds2 HL HA HF C1 C2 W1 W2 E1 E2 K1 K2; rewrite Hk in E1, E2.
      - rewrite E1 in E2. injection E2 as <- _. apply leq_refl.
      - useIH Fw E1 E2 K1 K2.
    Qed.

    Lemma pd_unop op : pd_ty (unop_param op) = true.  Proof. destruct op; reflexivity. Qed.
    Lemma pd_binop op : pd_ty (binop_param op) = true.  Proof. destruct op; reflexivity. Qed.

    Lemma un_ni op e : in_fragment e -> ni_at (S f) (EUn op e).
    Proof.
      intro Fe. start.
      destruct (eval_with idx f c1 a1 e) as [g1 d1] eqn:A1. destruct (eval_with idx f c2 a2 e) as [g2 d2] eqn:A2.
      destruct (conv g1 (unop_param op)) as [x1| |] eqn:X1; try (injection E1 as <- <-; bad K1).
      destruct (conv g2 (unop_param op)) as [x2| |] eqn:X2; try (injection E2 as <- <-; bad K2).
      destruct (has_errors d1) eqn:He1; [injection E1 as <- <-; destruct K1; congruence|].
      destruct (has_errors d2) eqn:He2; [injection E2 as <- <-; destruct K2; congruence|].
      destruct (unmark x1) as [u1 m1] eqn:U1. destruct (unmark x2) as [u2 m2] eqn:U2.
      destruct (call_unop op u1) as [r1| |] eqn:R1; try (injection E1 as <- <-; bad K1).
      destruct (call_unop op u2) as [r2| |] eqn:R2; try (injection E2 as <- <-; bad K2).
      injection E1 as <- <-. injection E2 as <- <-.
      assert (Lg : leq m g1 g2) by (useIH Fe A1 A2 K1 K2).
      assert (Lx : leq m x1 x2) by (eapply conv_leq_pd; [apply pd_unop|exact Lg|exact X1|exact X2]).
      destruct (unmark_leq _ _ _ Lx) as [[P Q]|(P & Q & R)]; rewrite U1, U2 in *; cbn [fst snd] in *.
      - apply stars_leq; apply with_marks_star; assumption.
      - subst m2. apply with_marks_leq; [|apply marks_rel_refl]. eapply call_unop_leq; eassumption.
    Qed.

    Lemma sc_val_nonsc op a b e : is_sc op = false -> sc_val op a b e = None.
    Proof. destruct op; try discriminate; reflexivity. Qed.

    Lemma bin_ni op l r :
      in_fragment l -> in_fragment r -> (is_sc op = true -> nofail l /\ nofail r) -> ni_at (S f) (EBin op l r).
    Proof.
      intros Fl Fr Hsc. intros c1 c2 a1 a2 v1 ds1 v2 ds2 HL HA HF C1 C2 W1 W2 E1 E2 K1 K2.
      rewrite eval_bin_unfold in E1, E2.
      destruct (eval_with idx f c1 a1 l) as [g1 ld1] eqn:A1. destruct (eval_with idx f c1 a1 r) as [h1 rd1] eqn:B1.
      destruct (eval_with idx f c2 a2 l) as [g2 ld2] eqn:A2. destruct (eval_with idx f c2 a2 r) as [h2 rd2] eqn:B2.
      cbv zeta in E1, E2.
      destruct (has_unsupported ld1 || has_unsupported rd1) eqn:U1; [injection E1 as <- <-; unclean K1|].
      destruct (has_unsupported ld2 || has_unsupported rd2) eqn:U2; [injection E2 as <- <-; unclean K2|].
      apply orb_false_iff in U1 as [U1l U1r]. apply orb_false_iff in U2 as [U2l U2r].
      destruct (conv g1 (binop_param op)) as [lv1| |] eqn:CL1;
        destruct (conv h1 (binop_param op)) as [rv1| |] eqn:CR1;
        try (injection E1 as <- <-; cbn [app] in K1; unclean K1).
      destruct (conv g2 (binop_param op)) as [lv2| |] eqn:CL2;
        destruct (conv h2 (binop_param op)) as [rv2| |] eqn:CR2;
        try (injection E2 as <- <-; cbn [app] in K2; unclean K2).
      destruct (unmark lv1) as [lu1 lm1] eqn:UL1. destruct (unmark rv1) as [ru1 rm1] eqn:UR1.
      destruct (unmark lv2) as [lu2 lm2] eqn:UL2. destruct (unmark rv2) as [ru2 rm2] eqn:UR2.
      (* everything follows from the four operand evaluations being error-free *)
      assert (Main : has_errors ld1 = false -> has_errors rd1 = false ->
                     has_errors ld2 = false -> has_errors rd2 = false -> leq m v1 v2).
      { intros El1 Er1 El2 Er2.
        assert (Lg : leq m g1 g2) by (useIH Fl A1 A2 (conj El1 U1l) (conj El2 U2l)).
        assert (Lh : leq m h1 h2) by (useIH Fr B1 B2 (conj Er1 U1r) (conj Er2 U2r)).
        assert (Ll : leq m lv1 lv2) by (eapply conv_leq_pd; [apply pd_binop|exact Lg|exact CL1|exact CL2]).
        assert (Lr : leq m rv1 rv2) by (eapply conv_leq_pd; [apply pd_binop|exact Lh|exact CR1|exact CR2]).
        assert (Wl : wf lv1).
        { eapply conv_wf_pd; [apply pd_binop| |exact CL1]. eapply Hwf_eval; [exact C1|exact W1|exact Fl|exact A1]. }
        assert (Wr : wf rv1).
        { eapply conv_wf_pd; [apply pd_binop| |exact CR1]. eapply Hwf_eval; [exact C1|exact W1|exact Fr|exact B1]. }
        destruct (unmark_rel _ _ _ Ll) as [Ml Xl]. destruct (unmark_rel _ _ _ Lr) as [Mr Xr].
        apply wf_unmark in Wl as [Nl _]. apply wf_unmark in Wr as [Nr _].
        rewrite UL1, UL2 in *. rewrite UR1, UR2 in *. cbn [fst snd] in *.
        pose proof (marks_rel_union _ _ _ _ _ Ml Mr) as Mk.
        assert (Sub : mark_mem m (marks_union lm1 rm1) = false -> leq m lu1 lu2 /\ leq m ru1 ru2).
        { intro Z. rewrite mark_mem_union in Z. apply orb_false_iff in Z as [Z1 Z2]. auto. }
        destruct (mark_mem m (marks_union lm1 rm1)) eqn:Z.
        - (* tainted: both results carry m *)
          assert (Z2 : mark_mem m (marks_union lm2 rm2) = true).
          { destruct Mk as [[_ Q]|Q]; [exact Q|rewrite <- Q; exact Z]. }
          destruct (bin_tail_marked _ _ _ _ _ _ _ _ E1 K1) as [x1 ->].
          destruct (bin_tail_marked _ _ _ _ _ _ _ _ E2 K2) as [x2 ->].
          apply stars_leq; apply with_marks_star; assumption.
        - destruct (Sub eq_refl) as [P Q].
          assert (Em : marks_union lm1 rm1 = marks_union lm2 rm2).
          { destruct Mk as [[Q1 _]|Q1]; [congruence|exact Q1]. }
          unfold bin_tail in E1, E2. rewrite El1 in E1. rewrite El2 in E2.
          rewrite <- (sc_val_leq m op _ _ _ _ false P Q Nl Nr) in E2. rewrite <- Em in E2.
          destruct (sc_val op lu1 ru1 false) as [[sv side]|]; cbn [option_map fst snd] in E1, E2.
          + injection E1 as <- _. injection E2 as <- _. apply leq_refl.
          + rewrite has_errors_app, El1, Er1 in E1. rewrite has_errors_app, El2, Er2 in E2. cbn [orb] in E1, E2.
            destruct (call_binop op lu1 ru1) as [x1| |] eqn:R1; try (injection E1 as <- <-; bad K1).
            destruct (call_binop op lu2 ru2) as [x2| |] eqn:R2; try (injection E2 as <- <-; bad K2).
            injection E1 as <- _. injection E2 as <- _.
            apply with_marks_leq; [|apply marks_rel_refl]. exact (call_binop_leq m op _ _ _ _ _ _ P Q R1 R2). }
      destruct (is_sc op) eqn:Sc.
      - destruct (Hsc eq_refl) as [Nl Nr].
        pose proof (Nl f c1 a1 C1 W1) as X1. rewrite A1 in X1. pose proof (Nr f c1 a1 C1 W1) as Y1. rewrite B1 in Y1.
        pose proof (Nl f c2 a2 C2 W2) as X2. rewrite A2 in X2. pose proof (Nr f c2 a2 C2 W2) as Y2. rewrite B2 in Y2.
        apply Main; assumption.
      - unfold bin_tail in E1, E2. rewrite sc_val_nonsc in E1, E2 by exact Sc. cbn [option_map] in E1, E2.
        destruct (has_errors (ld1 ++ rd1)) eqn:H1; [injection E1 as <- <-; destruct K1; congruence|].
        destruct (has_errors (ld2 ++ rd2)) eqn:H2; [injection E2 as <- <-; destruct K2; congruence|].
        rewrite has_errors_app in H1, H2. apply orb_false_iff in H1 as [? ?]. apply orb_false_iff in H2 as [? ?].
        revert E1 E2. fold (bin_tail op lu1 ru1 (marks_union lm1 rm1) ld1 rd1). intros. apply Main; assumption.
    Qed.


    (* ---- templates ---- *)
    Definition tmpl_inv (s1 s2 : list Z * bool * marks * list diag) : Prop :=
      let '(b1, k1, mk1, _) := s1 in let '(b2, k2, mk2, _) := s2 in
      marks_rel m mk1 mk2 /\ (mark_mem m mk1 = false -> b1 = b2 /\ k1 = k2).

    Lemma tmpl_step_inv p c1 c2 a1 a2 st1 st2 :
      in_fragment p ->
      low_eq m c1 c2 -> leq_opt m a1 a2 -> funcs_ni m c1 -> Cx c1 -> Cx c2 -> wf_opt a1 -> wf_opt a2 ->
      tmpl_inv st1 st2 ->
      clean (snd (tmpl_step (eval_with idx f c1 a1) st1 p)) ->
      clean (snd (tmpl_step (eval_with idx f c2 a2) st2 p)) ->
      tmpl_inv (tmpl_step (eval_with idx f c1 a1) st1 p) (tmpl_step (eval_with idx f c2 a2) st2 p).
    Proof.
      intros Fp HL HA HF C1 C2 W1 W2 Inv K1 K2.
      assert (Kd1 : clean (snd st1 ++ snd (eval_with idx f c1 a1 p))).
      { destruct (tmpl_step_ds2 (eval_with idx f c1 a1) st1 p) as [x Hx]. rewrite Hx in K1.
        apply clean_app in K1 as [K1 _]. exact K1. }
      assert (Kd2 : clean (snd st2 ++ snd (eval_with idx f c2 a2 p))).
      { destruct (tmpl_step_ds2 (eval_with idx f c2 a2) st2 p) as [x Hx]. rewrite Hx in K2.
        apply clean_app in K2 as [K2 _]. exact K2. }
      pose proof (proj2 (proj1 (clean_app _ _) Kd1)) as Kp1.
      pose proof (proj2 (proj1 (clean_app _ _) Kd2)) as Kp2.
      destruct st1 as [[[b1 k1] mk1] d1]. destruct st2 as [[[b2 k2] mk2] d2].
      unfold tmpl_step in *. cbn [tmpl_inv] in Inv. destruct Inv as [Mk Eq].
      destruct (eval_with idx f c1 a1 p) as [pv1 pd1] eqn:A1. destruct (eval_with idx f c2 a2 p) as [pv2 pd2] eqn:A2.
      destruct (is_null pv1) eqn:N1; [cbn [snd] in K1; bad K1|].
      destruct (is_null pv2) eqn:N2; [cbn [snd] in K2; bad K2|].
      destruct (unmark pv1) as [pu1 pm1] eqn:U1. destruct (unmark pv2) as [pu2 pm2] eqn:U2.
      cbn [snd] in Kp1, Kp2, Kd1, Kd2.
      assert (Lp : leq m pv1 pv2) by (useIH Fp A1 A2 Kp1 Kp2).
      assert (Wp : wf pv1) by (eapply Hwf_eval; [exact C1|exact W1|exact Fp|exact A1]).
      destruct (unmark_rel _ _ _ Lp) as [Mp Xp]. apply wf_unmark in Wp as [Np _].
      rewrite U1, U2 in *. cbn [fst snd] in *.
      pose proof (marks_rel_union _ _ _ _ _ Mk Mp) as Mk'.
      assert (Goal' : forall b1' k1' dd1 b2' k2' dd2,
                 (mark_mem m (marks_union mk1 pm1) = false -> b1' = b2' /\ k1' = k2') ->
                 tmpl_inv (b1', k1', marks_union mk1 pm1, dd1) (b2', k2', marks_union mk2 pm2, dd2)).
      { intros. cbn [tmpl_inv]. split; assumption. }
      destruct (mark_mem m (marks_union mk1 pm1)) eqn:Z.
      { (* tainted from here on: only the marks matter *)
        repeat match goal with
               | |- context [match ?y with _ => _ end] => destruct y
               | |- context [if ?y then _ else _] => destruct y
               end; apply Goal'; intro; discriminate. }
      rewrite mark_mem_union in Z. apply orb_false_iff in Z as [Z1 Z2].
      destruct (Eq Z1) as [-> ->]. specialize (Xp Z2).
      destruct (leq_hd _ _ _ Xp Np) as [Hk _].
      rewrite !is_known_hd, U1, U2. cbn [fst]. rewrite <- Hk.
      rewrite !is_known_hd, U1 in K1. rewrite !is_known_hd, U2 in K2. cbn [fst] in K1, K2. rewrite <- Hk in K2.
      destruct (negb (hd_known pu1)); [apply Goal'; auto|].
      destruct (conv pu1 TStr) as [r1| |] eqn:R1; try (cbn [snd] in K1; bad K1).
      destruct (conv pu2 TStr) as [r2| |] eqn:R2; try (cbn [snd] in K2; bad K2).
      assert (Lr : leq m r1 r2) by (eapply (conv_leq_pd m TStr); [reflexivity|exact Xp|exact R1|exact R2]).
      rewrite (proj1 Kd1), (proj1 Kd2).
      leq_heads Lr; try (apply Goal'; auto; fail);
        try (cbn [snd] in K1; bad K1).
      injection Lr as ->. destruct (k2 && negb false); apply Goal'; auto.
    Qed.

    Lemma tmpl_fold_inv parts c1 c2 a1 a2 :
      Forall in_fragment parts ->
      low_eq m c1 c2 -> leq_opt m a1 a2 -> funcs_ni m c1 -> Cx c1 -> Cx c2 -> wf_opt a1 -> wf_opt a2 ->
      forall st1 st2, tmpl_inv st1 st2 ->
      clean (snd (fold_left (tmpl_step (eval_with idx f c1 a1)) parts st1)) ->
      clean (snd (fold_left (tmpl_step (eval_with idx f c2 a2)) parts st2)) ->
      tmpl_inv (fold_left (tmpl_step (eval_with idx f c1 a1)) parts st1)
               (fold_left (tmpl_step (eval_with idx f c2 a2)) parts st2).
    Proof.
      intros Fp HL HA HF C1 C2 W1 W2. induction Fp as [|p r Fp _ IHr]; intros st1 st2 Inv K1 K2; cbn [fold_left] in *.
      - exact Inv.
      - apply IHr; [|exact K1|exact K2].
        apply tmpl_step_inv; try assumption.
        + eapply (fold_clean_mono _ snd); [|exact K1]. intros; apply tmpl_step_ds.
        + eapply (fold_clean_mono _ snd); [|exact K2]. intros; apply tmpl_step_ds.
    Qed.

    Lemma tmpl_ni parts : Forall in_fragment parts -> ni_at (S f) (ETmpl parts).
    Proof.
      intro Fp. intros c1 c2 a1 a2 v1 ds1 v2 ds2 HL HA HF C1 C2 W1 W2 E1 E2 K1 K2.
      rewrite eval_tmpl_unfold in E1, E2.
      pose proof (tmpl_fold_inv parts c1 c2 a1 a2 Fp HL HA HF C1 C2 W1 W2 ([], true, [], []) ([], true, [], [])) as Inv.
      destruct (fold_left (tmpl_step (eval_with idx f c1 a1)) parts ([], true, [], [])) as [[[b1 k1] mk1] d1].
      destruct (fold_left (tmpl_step (eval_with idx f c2 a2)) parts ([], true, [], [])) as [[[b2 k2] mk2] d2].
      injection E1 as <- <-. injection E2 as <- <-. cbn [snd] in Inv.
      destruct Inv as [Mk Eq]; [split; [apply marks_rel_refl|auto]|exact K1|exact K2|].
      apply with_marks_leq'; [exact Mk|]. intro Z. destruct (Eq Z) as [-> ->].
      unfold tmpl_ret. rewrite (proj1 K1), (proj1 K2). apply leq_refl.
    Qed.

    Lemma wf_tuple_elems l : wf (VTuple l) -> Forall wf l.
    Proof. unfold wf. cbn [wfb]. intro H. apply Forall_forall. rewrite forallb_forall in H. exact H. Qed.

    Lemma join_ni te : in_fragment te -> ni_at (S f) (EJoin te).
    Proof.
      intro Ft. intros c1 c2 a1 a2 v1 ds1 v2 ds2 HL HA HF C1 C2 W1 W2 E1 E2 K1 K2.
      rewrite eval_join_unfold in E1, E2.
      destruct (eval_with idx f c1 a1 te) as [t1 d1] eqn:A1. destruct (eval_with idx f c2 a2 te) as [t2 d2] eqn:A2.
      (* the diagnostics of te are a prefix of the final ones *)
      assert (Kd : clean d1 /\ clean d2).
      { split.
        - destruct (ty_eqb (type_of t1) TDyn); [injection E1 as _ <-; exact K1|].
          destruct (negb (is_known t1)); [injection E1 as _ <-; exact K1|].
          destruct (unmark t1) as [u1 m1]. destruct u1; try (injection E1 as _ <-; apply clean_app in K1 as [K1 _]; exact K1).
          pose proof (f_equal snd E1) as X. rewrite join_fin_ds in X. cbn [snd] in X. rewrite <- X in K1.
          apply (fold_clean_mono _ join_ds (fun st v => join_step_ds st v)) in K1. exact K1.
        - destruct (ty_eqb (type_of t2) TDyn); [injection E2 as _ <-; exact K2|].
          destruct (negb (is_known t2)); [injection E2 as _ <-; exact K2|].
          destruct (unmark t2) as [u2 m2]. destruct u2; try (injection E2 as _ <-; apply clean_app in K2 as [K2 _]; exact K2).
          pose proof (f_equal snd E2) as X. rewrite join_fin_ds in X. cbn [snd] in X. rewrite <- X in K2.
          apply (fold_clean_mono _ join_ds (fun st v => join_step_ds st v)) in K2. exact K2. }
      destruct Kd as [Kd1 Kd2].
      assert (Lt : leq m t1 t2) by (useIH Ft A1 A2 Kd1 Kd2).
      assert (Wt : wf t1) by (eapply Hwf_eval; [exact C1|exact W1|exact Ft|exact A1]).
      (* every clean outcome carries the marks of the tuple *)
      assert (Star : forall t d v ds, is_star m t = true ->
                (if ty_eqb (type_of t) TDyn then (with_same_marks (VUnk TStr rf_none) t, d)
                 else if negb (is_known t) then (with_same_marks (VUnk TStr rf_none) t, d)
                 else let '(tu, tm) := unmark t in
                      match tu with
                      | VTuple vs => join_fin (fold_left join_step vs (inl ([], tm, d)))
                      | _ => (dyn_val, d ++ [dunsupported])
                      end) = (v, ds) -> clean ds -> is_star m v = true).
      { intros t d v ds St E K.
        destruct (ty_eqb (type_of t) TDyn); [injection E as <- _; apply with_marks_star, marks_of_star, St|].
        destruct (negb (is_known t)); [injection E as <- _; apply with_marks_star, marks_of_star, St|].
        pose proof (marks_of_star _ _ St) as Mt. unfold marks_of in Mt.
        destruct (unmark t) as [tu tm]. cbn [snd] in Mt.
        destruct tu; try (injection E as _ <-; bad K).
        pose proof (f_equal fst E) as X. cbn [fst] in X. rewrite <- X. apply join_fin_star.
        apply join_fold_taint; [exact Mt|]. rewrite <- join_fin_ds, E. exact K. }
      destruct (is_star m t1) eqn:S1.
      { apply stars_leq; [eapply Star; [exact S1|exact E1|exact K1]|].
        eapply Star; [|exact E2|exact K2]. rewrite <- (leq_is_star _ _ _ Lt). exact S1. }
      destruct (leq_nostar_facts _ _ _ Lt S1 Wt) as (_ & Fk & Ft').
      rewrite <- Ft', <- Fk in E2.
      destruct (ty_eqb (type_of t1) TDyn).
      { injection E1 as <- _. injection E2 as <- _. apply with_same_marks_leq; [apply leq_refl|exact Lt]. }
      destruct (negb (is_known t1)).
      { injection E1 as <- _. injection E2 as <- _. apply with_same_marks_leq; [apply leq_refl|exact Lt]. }
      destruct (unmark_leq _ _ _ Lt) as [[A _]|(A & B & C)].
      { pose proof (marks_of_nostar _ _ S1) as X. unfold marks_of in X. congruence. }
      destruct (wf_unmark _ Wt) as [N Wu].
      destruct (unmark t1) as [u1 m1]. destruct (unmark t2) as [u2 m2]. cbn [fst snd] in *. subst m2.
      leq_heads C; try discriminate N; try (injection E1 as _ <-; bad K1).
      injection C as C. apply map_erase_Forall2 in C.
      pose proof (f_equal fst E1) as X1. pose proof (f_equal fst E2) as X2. cbn [fst] in X1, X2. rewrite <- X1, <- X2.
      apply join_fin_rel. apply join_fold_rel; [exact C|apply wf_tuple_elems; exact Wu| | |].
      - right. split; reflexivity.
      - rewrite <- join_fin_ds, E1. exact K1.
      - rewrite <- join_fin_ds, E2. exact K2.
    Qed.

    (* ---- object constructor ---- *)
    Definition obj_rel (s1 s2 : obj_state) : Prop :=
      (existsb (mark_mem m) (obj_mks s1) = true /\ existsb (mark_mem m) (obj_mks s2) = true) \/
      (let '(v1, mk1, k1, _) := s1 in let '(v2, mk2, k2, _) := s2 in
       Forall2 (leq_kv m) v1 v2 /\ k1 = k2 /\ mk1 = mk2 /\ existsb (mark_mem m) mk1 = false).

    Lemma obj_step_rel it c1 c2 a1 a2 st1 st2 :
      in_fragment (fst it) -> in_fragment (snd it) ->
      low_eq m c1 c2 -> leq_opt m a1 a2 -> funcs_ni m c1 -> Cx c1 -> Cx c2 -> wf_opt a1 -> wf_opt a2 ->
      obj_rel st1 st2 ->
      clean (snd (obj_step (eval_with idx f c1 a1) st1 it)) ->
      clean (snd (obj_step (eval_with idx f c2 a2) st2 it)) ->
      obj_rel (obj_step (eval_with idx f c1 a1) st1 it) (obj_step (eval_with idx f c2 a2) st2 it).
    Proof.
      intros Fk Fv HL HA HF C1 C2 W1 W2 [[T1 T2]|R] K1 K2.
      { left. split; apply obj_step_taint; assumption. }
      assert (Kd1 : clean (snd (eval_with idx f c1 a1 (fst it))) /\ clean (snd (eval_with idx f c1 a1 (snd it)))).
      { destruct (obj_step_ds2 (eval_with idx f c1 a1) st1 it) as [x Hx]. rewrite Hx in K1.
        apply clean_app in K1 as [K1 _]. apply clean_app in K1 as [_ K1]. apply clean_app in K1. exact K1. }
      assert (Kd2 : clean (snd (eval_with idx f c2 a2 (fst it))) /\ clean (snd (eval_with idx f c2 a2 (snd it)))).
      { destruct (obj_step_ds2 (eval_with idx f c2 a2) st2 it) as [x Hx]. rewrite Hx in K2.
        apply clean_app in K2 as [K2 _]. apply clean_app in K2 as [_ K2]. apply clean_app in K2. exact K2. }
      destruct st1 as [[[vals1 mks1] kn1] d1]. destruct st2 as [[[vals2 mks2] kn2] d2].
      destruct R as (Rv & -> & -> & Tn). unfold obj_step in *.
      destruct (eval_with idx f c1 a1 (fst it)) as [k1 kd1] eqn:A1. destruct (eval_with idx f c2 a2 (fst it)) as [k2 kd2] eqn:A2.
      destruct (eval_with idx f c1 a1 (snd it)) as [x1 vd1] eqn:B1. destruct (eval_with idx f c2 a2 (snd it)) as [x2 vd2] eqn:B2.
      cbn [snd] in Kd1, Kd2. destruct Kd1 as [Kk1 Kv1]. destruct Kd2 as [Kk2 Kv2].
      rewrite (proj1 Kk1) in *. rewrite (proj1 Kk2) in *.
      assert (Lk : leq m k1 k2) by (useIH Fk A1 A2 Kk1 Kk2).
      assert (Lx : leq m x1 x2) by (useIH Fv B1 B2 Kv1 Kv2).
      assert (Wk : wf k1) by (eapply Hwf_eval; [exact C1|exact W1|exact Fk|exact A1]).
      destruct (is_null k1) eqn:N1; [cbn [snd] in K1; bad K1|].
      destruct (is_null k2) eqn:N2; [cbn [snd] in K2; bad K2|].
      destruct (unmark_rel _ _ _ Lk) as [Mk Xk]. destruct (wf_unmark _ Wk) as [Nk _].
      destruct (unmark k1) as [u1 m1]. destruct (unmark k2) as [u2 m2]. cbn [fst snd] in *.
      destruct (mark_mem m m1) eqn:Z.
      { (* the key carries m: tainted from here on *)
        assert (Z2 : mark_mem m m2 = true) by (destruct Mk as [[_ Q]|Q]; [exact Q|rewrite <- Q; exact Z]).
        left. unfold obj_mks.
        split; repeat match goal with
                      | |- context [match ?y with _ => _ end] => destruct y
                      end; cbn [fst snd]; rewrite existsb_app; cbn [existsb]; rewrite ?Z, ?Z2, ?orb_true_r; reflexivity. }
      assert (Em : m1 = m2) by (destruct Mk as [[Q _]|Q]; [congruence|exact Q]). subst m2. specialize (Xk eq_refl).
      destruct (conv u1 TStr) as [s1| |] eqn:S1; try (cbn [snd] in K1; bad K1).
      destruct (conv u2 TStr) as [s2| |] eqn:S2; try (cbn [snd] in K2; bad K2).
      assert (Ls : leq m s1 s2) by (eapply (conv_leq_pd m TStr); [reflexivity|exact Xk|exact S1|exact S2]).
      right. assert (Tn' : existsb (mark_mem m) (mks2 ++ [m1]) = false).
      { rewrite existsb_app, Tn. cbn [existsb]. rewrite Z. reflexivity. }
      leq_heads Ls; try (repeat split; auto; fail).
      injection Ls as ->. repeat split; auto. apply assoc_set_leq; assumption.
    Qed.

    Lemma obj_fold_rel items c1 c2 a1 a2 :
      Forall (fun it => in_fragment (fst it) /\ in_fragment (snd it)) items ->
      low_eq m c1 c2 -> leq_opt m a1 a2 -> funcs_ni m c1 -> Cx c1 -> Cx c2 -> wf_opt a1 -> wf_opt a2 ->
      forall st1 st2, obj_rel st1 st2 ->
      clean (snd (fold_left (obj_step (eval_with idx f c1 a1)) items st1)) ->
      clean (snd (fold_left (obj_step (eval_with idx f c2 a2)) items st2)) ->
      obj_rel (fold_left (obj_step (eval_with idx f c1 a1)) items st1)
              (fold_left (obj_step (eval_with idx f c2 a2)) items st2).
    Proof.
      intros Fi HL HA HF C1 C2 W1 W2. induction Fi as [|it r [Fk Fv] _ IHr]; intros st1 st2 R K1 K2; cbn [fold_left] in *.
      - exact R.
      - apply IHr; [|exact K1|exact K2].
        apply obj_step_rel; try assumption.
        + eapply (fold_clean_mono _ snd); [|exact K1]. intros; apply obj_step_ds.
        + eapply (fold_clean_mono _ snd); [|exact K2]. intros; apply obj_step_ds.
    Qed.

    Lemma objcons_ni items :
      Forall (fun it => in_fragment (fst it) /\ in_fragment (snd it)) items -> ni_at (S f) (EObj items).
    Proof.
      intro Fi. intros c1 c2 a1 a2 v1 ds1 v2 ds2 HL HA HF C1 C2 W1 W2 E1 E2 K1 K2.
      rewrite eval_obj_unfold in E1, E2.
      pose proof (obj_fold_rel items c1 c2 a1 a2 Fi HL HA HF C1 C2 W1 W2 ([], [], true, []) ([], [], true, [])) as R.
      destruct (fold_left (obj_step (eval_with idx f c1 a1)) items ([], [], true, [])) as [[[vals1 mks1] kn1] d1].
      destruct (fold_left (obj_step (eval_with idx f c2 a2)) items ([], [], true, [])) as [[[vals2 mks2] kn2] d2].
      cbn [snd] in R.
      assert (Kd : clean d1 /\ clean d2).
      { split; [destruct (negb kn1); injection E1 as _ <-; exact K1|destruct (negb kn2); injection E2 as _ <-; exact K2]. }
      destruct R as [[T1 T2]|(Rv & -> & -> & Tn)]; [right; repeat split; auto|exact (proj1 Kd)|exact (proj2 Kd)| |].
      - unfold obj_mks in T1, T2. cbn [fst snd] in T1, T2.
        apply stars_leq.
        + destruct (negb kn1); injection E1 as <- _; apply with_marks_star; rewrite mark_mem_unions; exact T1.
        + destruct (negb kn2); injection E2 as <- _; apply with_marks_star; rewrite mark_mem_unions; exact T2.
      - destruct (negb kn2); injection E1 as <- _; injection E2 as <- _;
          (apply with_marks_leq; [|apply marks_rel_refl]); [apply leq_refl|apply leq_obj; exact Rv].
    Qed.

    (* ---- function calls (no argument expansion) ---- *)
    Lemma call_fold_rel fnv c1 c2 a1 a2 :
      params_pd fnv = true ->
      low_eq m c1 c2 -> leq_opt m a1 a2 -> funcs_ni m c1 -> Cx c1 -> Cx c2 -> wf_opt a1 -> wf_opt a2 ->
      forall l, Forall in_fragment l -> forall i st1 st2,
      length (fst st1) = i -> Forall2 (leq m) (fst st1) (fst st2) -> args_fit fnv i ->
      clean (snd (fold_left (call_step (eval_with idx f c1 a1) fnv) (combine (seq i (length l)) l) st1)) ->
      clean (snd (fold_left (call_step (eval_with idx f c2 a2) fnv) (combine (seq i (length l)) l) st2)) ->
      Forall2 (leq m) (fst (fold_left (call_step (eval_with idx f c1 a1) fnv) (combine (seq i (length l)) l) st1))
                      (fst (fold_left (call_step (eval_with idx f c2 a2) fnv) (combine (seq i (length l)) l) st2)) /\
      args_fit fnv (length (fst (fold_left (call_step (eval_with idx f c1 a1) fnv) (combine (seq i (length l)) l) st1))).
    Proof.
      intros Hpd HL HA HF C1 C2 W1 W2. induction 1 as [|e r Fe _ IHr]; intros i st1 st2 Hlen Hv Hfit K1 K2;
        cbn [length seq combine fold_left] in *.
      - subst i. split; assumption.
      - assert (K1' : clean (snd (call_step (eval_with idx f c1 a1) fnv st1 (i, e)))).
        { eapply (fold_clean_mono _ snd); [|exact K1]. intros; apply call_step_ds. }
        assert (K2' : clean (snd (call_step (eval_with idx f c2 a2) fnv st2 (i, e)))).
        { eapply (fold_clean_mono _ snd); [|exact K2]. intros; apply call_step_ds. }
        assert (Ka1 : clean (snd (eval_with idx f c1 a1 e))).
        { destruct (call_step_ds2 (eval_with idx f c1 a1) fnv st1 (i, e)) as [x Hx]. rewrite Hx in K1'.
          apply clean_app in K1' as [K1' _]. apply clean_app in K1' as [_ K1']. exact K1'. }
        assert (Ka2 : clean (snd (eval_with idx f c2 a2 e))).
        { destruct (call_step_ds2 (eval_with idx f c2 a2) fnv st2 (i, e)) as [x Hx]. rewrite Hx in K2'.
          apply clean_app in K2' as [K2' _]. apply clean_app in K2' as [_ K2']. exact K2'. }
        apply IHr; try assumption; clear IHr K1 K2;
          destruct st1 as [vals1 d1]; destruct st2 as [vals2 d2]; unfold call_step in *; cbn [fst snd] in *;
          destruct (eval_with idx f c1 a1 e) as [x1 ad1] eqn:A1; destruct (eval_with idx f c2 a2 e) as [x2 ad2] eqn:A2;
          cbn [snd] in Ka1, Ka2;
          (destruct (param_for fnv i) as [p|] eqn:P; [|cbn [snd] in K1'; bad K1']);
          (destruct (conv x1 (p_ty p)) as [y1| |] eqn:Y1; try (cbn [snd] in K1'; bad K1'));
          (destruct (conv x2 (p_ty p)) as [y2| |] eqn:Y2; try (cbn [snd] in K2'; bad K2')); cbn [fst].
        + rewrite app_length. cbn [length]. lia.
        + apply Forall2_app_inv; [exact Hv|].
          eapply conv_leq_pd; [eapply param_for_pd; eassumption| |exact Y1|exact Y2].
          useIH Fe A1 A2 Ka1 Ka2.
        + intros j Hj. destruct (Nat.eq_dec j i) as [->|Hne]; [congruence|]. apply Hfit. lia.
    Qed.

    Lemma call_ni name args : Forall in_fragment args -> ni_at (S f) (ECall name args false).
    Proof.
      intro Fa. intros c1 c2 a1 a2 v1 ds1 v2 ds2 HL HA HF C1 C2 W1 W2 E1 E2 K1 K2.
      rewrite eval_call_unfold in E1, E2. rewrite <- (lookup_fn_low_eq m name c1 c2 false HL) in E2.
      destruct (lookup_fn c1 name false) as [[fnv|] b] eqn:L.
      2:{ destruct b; injection E1 as <- <-; unclean K1. }
      destruct (lookup_fn_in _ _ _ _ _ L) as (fr & fs & I1 & I2 & I3).
      destruct (HF fr fs name fnv I1 I2 I3) as (Hni & Hpd & _).
      unfold call_tail in E1, E2.
      destruct (length args <? length (f_params fnv))%nat; [injection E1 as <- <-; unclean K1|].
      destruct (_ && _); [injection E1 as <- <-; unclean K1|].
      pose proof (call_fold_rel fnv c1 c2 a1 a2 Hpd HL HA HF C1 C2 W1 W2 args Fa 0%nat ([], []) ([], [])) as R.
      destruct (fold_left (call_step (eval_with idx f c1 a1) fnv) (combine (seq 0 (length args)) args) ([], [])) as [av1 d1].
      destruct (fold_left (call_step (eval_with idx f c2 a2) fnv) (combine (seq 0 (length args)) args) ([], [])) as [av2 d2].
      cbn [fst snd] in R.
      destruct (has_errors d1) eqn:He1; [injection E1 as <- <-; destruct K1; congruence|].
      destruct (has_unsupported d1) eqn:Hu1; [injection E1 as <- <-; destruct K1; congruence|].
      destruct (has_errors d2) eqn:He2; [injection E2 as <- <-; destruct K2; congruence|].
      destruct (has_unsupported d2) eqn:Hu2; [injection E2 as <- <-; destruct K2; congruence|].
      destruct R as [Rv Rfit]; [reflexivity|constructor|intros j Hj; lia|split; assumption|split; assumption|].
      destruct (fn_call fnv av1) as [r1| | |] eqn:F1; try (injection E1 as <- <-; bad K1).
      destruct (fn_call fnv av2) as [r2| | |] eqn:F2; try (injection E2 as <- <-; bad K2).
      injection E1 as <- _. injection E2 as <- _. eapply Hni; eassumption.
    Qed.

    (* ---- conditional ---- *)
    Lemma cond_ni ce te fe :
      in_fragment ce -> in_fragment te -> in_fragment fe -> cond_side te fe -> ni_at (S f) (ECond ce te fe).
    Proof.
      intros Fc Ft Ff (Nt & Nf & T & F & St & Sf & NsT & NsF & Hty).
      intros c1 c2 a1 a2 v1 ds1 v2 ds2 HL HA HF C1 C2 W1 W2 E1 E2 K1 K2.
      rewrite eval_cond_unfold in E1, E2.
      pose proof (Nt f c1 a1 C1 W1) as Et1. pose proof (Nf f c1 a1 C1 W1) as Ef1.
      pose proof (Nt f c2 a2 C2 W2) as Et2. pose proof (Nf f c2 a2 C2 W2) as Ef2.
      destruct (eval_with idx f c1 a1 te) as [tv1 td1] eqn:A1. destruct (eval_with idx f c1 a1 fe) as [fv1 fd1] eqn:B1.
      destruct (eval_with idx f c2 a2 te) as [tv2 td2] eqn:A2. destruct (eval_with idx f c2 a2 fe) as [fv2 fd2] eqn:B2.
      cbn [snd] in Et1, Ef1, Et2, Ef2.
      destruct (has_unsupported td1 || has_unsupported fd1) eqn:U1; [injection E1 as <- <-; unclean K1|].
      destruct (has_unsupported td2 || has_unsupported fd2) eqn:U2; [injection E2 as <- <-; unclean K2|].
      apply orb_false_iff in U1 as [U1t U1f]. apply orb_false_iff in U2 as [U2t U2f].
      assert (Lt : leq m tv1 tv2) by (useIH Ft A1 A2 (conj Et1 U1t) (conj Et2 U2t)).
      assert (Lf : leq m fv1 fv2) by (useIH Ff B1 B2 (conj Ef1 U1f) (conj Ef2 U2f)).
      assert (Wt : wf tv1) by (eapply Hwf_eval; [exact C1|exact W1|exact Ft|exact A1]).
      assert (Wf : wf fv1) by (eapply Hwf_eval; [exact C1|exact W1|exact Ff|exact B1]).
      pose proof (St f c1 a1 tv1 td1 C1 W1 A1 Et1) as Tt1. pose proof (St f c2 a2 tv2 td2 C2 W2 A2 Et2) as Tt2.
      pose proof (Sf f c1 a1 fv1 fd1 C1 W1 B1 Ef1) as Tf1. pose proof (Sf f c2 a2 fv2 fd2 C2 W2 B2 Ef2) as Tf2.
      assert (Eu : cond_uni tv2 fv2 = cond_uni tv1 fv1).
      { unfold cond_uni. rewrite <- (is_dyn_null_leq _ _ _ Lt), <- (is_dyn_null_leq _ _ _ Lf), Tt1, Tt2, Tf1, Tf2.
        reflexivity. }
      rewrite Eu in E2.
      destruct (cond_uni tv1 fv1) as [[[[rt tc] fc]|]|[|]] eqn:Un; try (injection E1 as <- <-; unclean K1).
      destruct (eval_with idx f c1 a1 ce) as [cv1 cd1] eqn:D1. destruct (eval_with idx f c2 a2 ce) as [cv2 cd2] eqn:D2.
      assert (Kc1 : clean cd1).
      { destruct (cond_tail_ds rt tc fc cv1 cd1 tv1 td1 fv1 fd1) as [x Hx]. rewrite E1 in Hx. cbn [snd] in Hx.
        rewrite Hx in K1. apply clean_app in K1 as [K1 _]. exact K1. }
      assert (Kc2 : clean cd2).
      { destruct (cond_tail_ds rt tc fc cv2 cd2 tv2 td2 fv2 fd2) as [x Hx]. rewrite E2 in Hx. cbn [snd] in Hx.
        rewrite Hx in K2. apply clean_app in K2 as [K2 _]. exact K2. }
      assert (Lc : leq m cv1 cv2) by (useIH Fc D1 D2 Kc1 Kc2).
      assert (Wc : wf cv1) by (eapply Hwf_eval; [exact C1|exact W1|exact Fc|exact D1]).
      destruct (is_star m cv1 || is_star m tv1 || is_star m fv1) eqn:Z.
      - (* some operand carries m: so does every clean result *)
        destruct (cond_tail_marked _ _ _ _ _ _ _ _ _ _ _ E1 K1) as [x1 ->].
        destruct (cond_tail_marked _ _ _ _ _ _ _ _ _ _ _ E2 K2) as [x2 ->].
        assert (Z2 : is_star m cv2 || is_star m tv2 || is_star m fv2 = true).
        { rewrite <- (leq_is_star _ _ _ Lc), <- (leq_is_star _ _ _ Lt), <- (leq_is_star _ _ _ Lf). exact Z. }
        assert (G : forall a b c0, is_star m a || is_star m b || is_star m c0 = true ->
                      mark_mem m (marks_unions [marks_of a; marks_of b; marks_of c0]) = true).
        { intros a b c0 H. rewrite mark_mem_unions. cbn [existsb].
          destruct (is_star m a) eqn:Sa; [rewrite (marks_of_star _ _ Sa); reflexivity|].
          destruct (is_star m b) eqn:Sb; [rewrite (marks_of_star _ _ Sb); apply orb_true_r|].
          destruct (is_star m c0) eqn:Sc; [rewrite (marks_of_star _ _ Sc); rewrite !orb_true_r; reflexivity|].
          discriminate H. }
        apply stars_leq; apply with_marks_star; apply G; assumption.
      - apply orb_false_iff in Z as [Z Z3]. apply orb_false_iff in Z as [Z1 Z2].
        assert (Hok : cond_ok_ty (type_of tv1) (type_of fv1)) by (rewrite Tt1, Tf1; exact Hty).
        destruct (cond_uni_safe _ _ _ _ _ Un Hok) as [Ht' Hf'].
        assert (OB : forall a b, leq m a b -> is_star m a = false -> wf a -> type_of a = type_of b ->
                      (forall x, type_of a <> TSet x) ->
                      obs_of (fst (unmark a)) = obs_of (fst (unmark b))).
        { intros a b L S W Ty Ns. destruct (unmark_leq _ _ _ L) as [[A _]|(_ & _ & C)].
          - pose proof (marks_of_nostar _ _ S) as X. unfold marks_of in X. congruence.
          - apply (obs_leq m); [exact C|apply wf_unmark, W|rewrite <- !type_of_unmark; exact Ty|].
            rewrite <- type_of_unmark. exact Ns. }
        eapply cond_tail_leq; [exact Lc|exact Lt|exact Lf|exact Z1|exact Z2|exact Z3|exact Wc|exact Wt|exact Wf
                              | | |exact Ht'|exact Hf'|exact E1|exact E2|exact K1|exact K2].
        + apply OB; try assumption; [congruence|rewrite Tt1; exact NsT].
        + apply OB; try assumption; [congruence|rewrite Tf1; exact NsF].
    Qed.
  End Step.

  Theorem ni_all : forall f e, in_fragment e -> ni_at f e.
  Proof.
    induction f as [|f IH]; intros e Fe.
    - intros c1 c2 a1 a2 v1 ds1 v2 ds2 _ _ _ _ _ _ _ E1 _ K1 _. cbn [eval_with] in E1.
      injection E1 as <- <-. unclean K1.
    - destruct Fe.
      + apply lit_ni.
      + apply (paren_ni f IH); assumption.
      + apply (wrap_ni f IH); assumption.
      + apply anon_ni.
      + apply scope_ni.
      + apply (rel_ni f IH); assumption.
      + apply (index_ni f IH); assumption.
      + apply (tuple_ni f IH); assumption.
      + apply (objkey_ni f IH); assumption.
      + apply (un_ni f IH); assumption.
      + apply (bin_ni f IH); assumption.
      + apply (tmpl_ni f IH); assumption.
      + apply (join_ni f IH); assumption.
      + apply (call_ni f IH); assumption.
      + apply (cond_ni f IH); assumption.
      + apply (objcons_ni f IH); assumption.
  Qed.
End NI.
