(* Eval/UnknownSound_Conv2.v — C05: conversion is monotone for [gsb] (structural part). *)
From Coq Require Import QArith Qreduction.
From HclV Require Import Base.Prelude Cty.Values Cty.Convert Cty.Ops Eval.Impl
                         Eval.UnknownSound_Base Eval.UnknownSound_Gamma Eval.UnknownSound_Conv.
Open Scope Z_scope.
Local Strategy opaque [equals val_size unmark_deep deep_marks unify_n].

(* ---- monotonicity of conversion for values whose type has no dynamic part ---------------------------- *)
Lemma zip_gs {A C} (R : A -> C -> Prop) (P1 : A -> val -> Prop) (P2 : C -> val -> Prop) la lc vs vs' :
  Forall2 R la lc -> Forall2 P1 la vs -> Forall2 P2 lc vs' ->
  (forall x y v v', In x la -> In y lc -> R x y -> P1 x v -> P2 y v' -> gsb v v' = true) ->
  all2 gsb vs vs' = true.
Proof.
  intros FR. revert vs vs'. induction FR as [|x y la lc Rxy _ IH]; intros vs vs' F1 F2 H;
    inversion F1; inversion F2; subst; simpl; [reflexivity|].
  apply andb_true_iff. split.
  - apply (H x y); try assumption; left; reflexivity.
  - apply IH; try assumption. intros x' y' v v' Hx Hy. apply H; right; assumption.
Qed.

Lemma assoc_get_all2 k (la lc : list (list Z * val)) :
  all2 (fun p q => str_eqb (fst p) (fst q) && gsb (snd p) (snd q)) la lc = true ->
  match assoc_get k la, assoc_get k lc with
  | Some xa, Some xc => gsb xa xc = true
  | None, None => True
  | _, _ => False
  end.
Proof.
  revert lc. induction la as [|[ka xa] ra IH]; intros [|[kc xc] rc] H; simpl in *; try discriminate; [exact I|].
  apply andb_true_iff in H as [H1 H2]. apply andb_true_iff in H1 as [Hk Hx]. apply str_eqb_eq in Hk. subst kc.
  destruct (str_eqb k ka); [exact Hx|apply IH; exact H2].
Qed.

Lemma all2_keys_fst (la lc : list (list Z * val)) :
  all2 (fun p q => str_eqb (fst p) (fst q) && gsb (snd p) (snd q)) la lc = true -> map fst la = map fst lc.
Proof.
  revert lc. induction la as [|[ka xa] ra IH]; intros [|[kc xc] rc] H; simpl in *; try discriminate; [reflexivity|].
  apply andb_true_iff in H as [H1 H2]. apply andb_true_iff in H1 as [Hk _]. apply str_eqb_eq in Hk. subst.
  f_equal. apply IH. exact H2.
Qed.

Lemma all2_combine_keys (ks : list (list Z)) vs vs' :
  length ks = length vs -> all2 gsb vs vs' = true ->
  all2 (fun p q : list Z * val => str_eqb (fst p) (fst q) && gsb (snd p) (snd q)) (combine ks vs) (combine ks vs') = true.
Proof.
  revert vs vs'. induction ks as [|k ks IH]; intros [|v vs] [|v' vs'] L H; simpl in *; try discriminate; try reflexivity.
  apply andb_true_iff in H as [H1 H2]. rewrite str_eqb_refl, H1. simpl. apply IH; [congruence|exact H2].
Qed.

Lemma all2_kv_Forall2 (la lc : list (list Z * val)) :
  all2 (fun p q => str_eqb (fst p) (fst q) && gsb (snd p) (snd q)) la lc = true ->
  Forall2 (fun p q => gsb (snd p) (snd q) = true) la lc.
Proof.
  intros H. apply all2_Forall2 in H. eapply Forall2_impl_In; [|exact H].
  intros p q _ _ Hpq. simpl in Hpq. apply andb_true_iff in Hpq. tauto.
Qed.

Lemma Forall2_combine_same {A B} (R : A -> A -> Prop) (la lc : list A) (ws : list B) :
  Forall2 R la lc -> Forall2 (fun p q => R (fst p) (fst q) /\ snd p = snd q) (combine la ws) (combine lc ws).
Proof.
  intros F. revert ws. induction F as [|x y la lc Rxy _ IH]; intros [|w ws]; simpl; constructor; auto.
Qed.

Lemma has_dyn_list_elem t l x : has_dyn (type_of (VList t l)) = false -> inv (VList t l) = true -> In x l ->
  has_dyn (type_of x) = false /\ inv x = true.
Proof. intros Hd I Hin. destruct (inv_elem_list _ _ _ I Hin) as [Ix Tx]. rewrite Tx. simpl in Hd. auto. Qed.
Lemma has_dyn_tuple_elem l x : has_dyn (type_of (VTuple l)) = false -> inv (VTuple l) = true -> In x l ->
  has_dyn (type_of x) = false /\ inv x = true.
Proof.
  intros Hd I Hin. split; [|apply (inv_elem_tuple _ _ I Hin)].
  simpl in Hd. apply existsb_false_Forall in Hd. rewrite Forall_forall in Hd. apply Hd. apply in_map. exact Hin.
Qed.
Lemma has_dyn_map_elem t l k x : has_dyn (type_of (VMap t l)) = false -> inv (VMap t l) = true -> In (k, x) l ->
  has_dyn (type_of x) = false /\ inv x = true.
Proof. intros Hd I Hin. destruct (inv_elem_map _ _ _ _ I Hin) as [Ix Tx]. rewrite Tx. simpl in Hd. auto. Qed.
Lemma has_dyn_obj_elem l k x : has_dyn (type_of (VObj l)) = false -> inv (VObj l) = true -> In (k, x) l ->
  has_dyn (type_of x) = false /\ inv x = true.
Proof.
  intros Hd I Hin. split; [|apply (inv_elem_obj _ _ _ I Hin)].
  simpl in Hd. apply existsb_false_Forall in Hd. rewrite Forall_forall in Hd.
  apply (Hd (k, type_of x)). apply (in_map (fun p : list Z * val => (fst p, type_of (snd p))) _ _ Hin).
Qed.

Lemma convert_known_gs f1 f2 a c want a' c' :
  inv a = true -> wholly_known a = true -> gsb a c = true ->
  convert f1 a want = COk a' -> convert f2 c want = COk c' -> gsb a' c' = true.
Proof.
  intros I W G E1 E2. rewrite (gsb_known_eq a c W G) in E2. rewrite <- (convert_fuel _ _ _ _ _ _ E1 E2).
  apply gsb_refl_inv.
  - pose proof (convert_good _ _ _ _ (inv_good _ I W) E1) as Ga. apply good_iff in Ga. tauto.
  - apply (convert_inv_pres _ _ _ _ I E1).
Qed.

Ltac same_contra P Tc :=
  match goal with
  | Hs : ty_eqb (type_of _) _ = true |- _ =>
      rewrite Tc in Hs; destruct P as [P1 _]; rewrite Hs in P1; discriminate
  end.

Lemma convert_gs_nodyn : forall f1 f2 a c want a' c',
  inv a = true -> inv c = true -> gsb a c = true ->
  has_dyn (type_of a) = false -> has_dyn want = false ->
  convert f1 a want = COk a' -> convert f2 c want = COk c' -> gsb a' c' = true.
Proof.
  induction f1 as [|f1 IH]; intros f2 a c want a' c' Ia Ic G Hda Hdw E1 E2; [discriminate|].
  destruct (wholly_known a) eqn:Wa; [apply (convert_known_gs _ _ _ _ _ _ _ Ia Wa G E1 E2)|].
  destruct f2 as [|f2]; [discriminate|].
  pose proof (gsb_type_eq a c G Hda) as Tc. pose proof (inv_not_marked _ Ic) as Mc.
  pose proof E1 as E1'. apply convert_inv in E1.
  destruct E1 as [m v want r' E|v want Hm Et|v Hm|t0 rf want P|t0 want P|n|b|s n En|s b Eb
                 |t0 l w vs P Hd F|t0 l w vs P Hd F|l w vs P Hd F|l ws vs P F
                 |t0 kvs w vs P Hd F|kvs w vs P Hd F|kvs ws vs P F];
    try discriminate Ia; try discriminate Wa; try discriminate Hdw.
  - (* same type *) apply ty_eqb_eq in Et. rewrite (convert_same_type _ _ _ _ Mc (eq_trans Tc Et) E2). exact G.
  - (* unknown *) rewrite (dynamic_replace_nodyn _ _ _ Hdw). simpl in G. apply (conv_unk_gs f2 t0 rf c want c' Ic G Hdw E2).
  - (* list -> list *)
    simpl in G. destruct c as [| | | | |t1 lc| | | | |]; try discriminate. apply andb_true_iff in G as [Gt G].
    apply ty_eqb_eq in Gt. subst t1. apply convert_inv in E2.
    inversion E2; subst; try discriminate; try pre_contra; try (same_contra P Tc).
    simpl. rewrite ty_eqb_refl. simpl. apply all2_Forall2 in G.
    eapply (zip_gs _ _ _ _ _ _ _ G F); [eassumption|]. intros x y v v' Hx Hy Rxy Hc1 Hc2. cbv beta in *.
    destruct (has_dyn_list_elem _ _ _ Hda Ia Hx) as [Hdx Ix]. destruct (inv_elem_list _ _ _ Ic Hy) as [Iy _].
    apply (IH _ _ _ _ _ _ Ix Iy Rxy Hdx Hd Hc1 Hc2).
  - (* set -> list *)
    simpl in G. destruct c as [| | | | | |t1 lc| | | |]; try discriminate. apply andb_true_iff in G as [Gt G].
    apply ty_eqb_eq in Gt. subst t1. apply convert_inv in E2.
    inversion E2; subst; try discriminate; try pre_contra; try (same_contra P Tc).
    simpl. rewrite ty_eqb_refl. simpl. apply all2_Forall2 in G.
    eapply (zip_gs _ _ _ _ _ _ _ G F); [eassumption|]. intros x y v v' Hx Hy Rxy Hc1 Hc2. cbv beta in *.
    destruct (has_dyn_list_elem t0 _ _ Hda Ia Hx) as [Hdx Ix]. destruct (inv_elem_list t0 _ _ Ic Hy) as [Iy _].
    apply (IH _ _ _ _ _ _ Ix Iy Rxy Hdx Hd Hc1 Hc2).
  - (* tuple -> list *)
    simpl in G. destruct c as [| | | | | | | |lc| |]; try discriminate. apply convert_inv in E2.
    inversion E2; subst; try discriminate; try pre_contra; try (same_contra P Tc).
    simpl. rewrite ty_eqb_refl. simpl. apply all2_Forall2 in G.
    eapply (zip_gs _ _ _ _ _ _ _ G F); [eassumption|]. intros x y v v' Hx Hy Rxy Hc1 Hc2. cbv beta in *.
    destruct (has_dyn_tuple_elem _ _ Hda Ia Hx) as [Hdx Ix]. pose proof (inv_elem_tuple _ _ Ic Hy) as Iy.
    apply (IH _ _ _ _ _ _ Ix Iy Rxy Hdx Hd Hc1 Hc2).
  - (* tuple -> tuple *)
    simpl in G. destruct c as [| | | | | | | |lc| |]; try discriminate. apply convert_inv in E2.
    inversion E2; subst; try discriminate.
    + same_contra P Tc.
    + simpl. apply all2_Forall2 in G. pose proof (Forall2_combine_same _ _ _ ws G) as G'.
      eapply (zip_gs _ _ _ _ _ _ _ G' F); [eassumption|].
      intros [x w] [y w'] v v' Hx Hy [Rxy Ew] Hc1 Hc2. simpl in *. subst w'.
      pose proof (in_combine_r _ _ _ _ Hx) as Hw. apply in_combine_l in Hx. apply in_combine_l in Hy.
      destruct (has_dyn_tuple_elem _ _ Hda Ia Hx) as [Hdx Ix]. pose proof (inv_elem_tuple _ _ Ic Hy) as Iy.
      apply existsb_false_Forall in Hdw. rewrite Forall_forall in Hdw.
      apply (IH _ _ _ _ _ _ Ix Iy Rxy Hdx (Hdw _ Hw) Hc1 Hc2).
  - (* map -> map *)
    simpl in G. destruct c as [| | | | | | |t1 lc| | |]; try discriminate. apply andb_true_iff in G as [Gt G].
    apply ty_eqb_eq in Gt. subst t1. apply convert_inv in E2.
    inversion E2; subst; try discriminate; try pre_contra; try (same_contra P Tc).
    simpl. rewrite ty_eqb_refl. simpl. rewrite <- (all2_keys_fst _ _ G).
    apply all2_combine_keys; [rewrite map_length; apply (Forall2_length _ _ _ F)|].
    eapply (zip_gs _ _ _ _ _ _ _ (all2_kv_Forall2 _ _ G) F); [eassumption|].
    intros [kx x] [ky y] v v' Hx Hy Rxy Hc1 Hc2. simpl in *.
    destruct (has_dyn_map_elem _ _ _ _ Hda Ia Hx) as [Hdx Ix]. destruct (inv_elem_map _ _ _ _ Ic Hy) as [Iy _].
    apply (IH _ _ _ _ _ _ Ix Iy Rxy Hdx Hd Hc1 Hc2).
  - (* object -> map *)
    simpl in G. destruct c as [| | | | | | | | |lc|]; try discriminate. apply convert_inv in E2.
    inversion E2; subst; try discriminate; try pre_contra; try (same_contra P Tc).
    simpl. rewrite ty_eqb_refl. simpl. rewrite <- (all2_keys_fst _ _ G).
    apply all2_combine_keys; [rewrite map_length; apply (Forall2_length _ _ _ F)|].
    eapply (zip_gs _ _ _ _ _ _ _ (all2_kv_Forall2 _ _ G) F); [eassumption|].
    intros [kx x] [ky y] v v' Hx Hy Rxy Hc1 Hc2. simpl in *.
    destruct (has_dyn_obj_elem _ _ _ Hda Ia Hx) as [Hdx Ix]. pose proof (inv_elem_obj _ _ _ Ic Hy) as Iy.
    apply (IH _ _ _ _ _ _ Ix Iy Rxy Hdx Hd Hc1 Hc2).
  - (* object -> object *)
    simpl in G. destruct c as [| | | | | | | | |lc|]; try discriminate. apply convert_inv in E2.
    inversion E2; subst; try discriminate.
    + same_contra P Tc.
    + simpl. apply all2_combine_keys; [rewrite map_length; apply (Forall2_length _ _ _ F)|].
      assert (Fe : Forall2 (fun p q : list Z * ty => p = q) ws ws) by (clear; induction ws; constructor; auto).
      eapply (zip_gs _ _ _ _ _ _ _ Fe F); [eassumption|].
      intros [k w] [k' w'] v v' Hx _ Epq Hc1 Hc2. injection Epq as <- <-. simpl in *.
      pose proof (assoc_get_all2 k _ _ G) as Ga.
      destruct (assoc_get k kvs) as [xa|] eqn:Exa; [|discriminate].
      destruct (assoc_get k lc) as [xc|] eqn:Exc; [|contradiction].
      apply assoc_get_In in Exa as [ka Hka]. apply assoc_get_In in Exc as [kc Hkc].
      destruct (has_dyn_obj_elem _ _ _ Hda Ia Hka) as [Hdx Ix]. pose proof (inv_elem_obj _ _ _ Ic Hkc) as Iy.
      apply existsb_false_Forall in Hdw. rewrite Forall_forall in Hdw.
      apply (IH _ _ _ _ _ _ Ix Iy Ga Hdx (Hdw _ Hx) Hc1 Hc2).
Qed.

(* conversion to a primitive type (operands, keys, template parts, conditions): any abstract value *)
Lemma conv_gs_prim a c want a' c' :
  is_prim want = true -> inv a = true -> inv c = true -> gsb a c = true ->
  conv a want = COk a' -> conv c want = COk c' -> gsb a' c' = true.
Proof.
  unfold conv. intros Hp Ia Ic G E1 E2.
  assert (Hdw : has_dyn want = false) by (destruct want; try discriminate; reflexivity).
  destruct (wholly_known a) eqn:Wa; [apply (convert_known_gs _ _ _ _ _ _ _ Ia Wa G E1 E2)|].
  destruct (has_dyn (type_of a)) eqn:Hda; [|apply (convert_gs_nodyn _ _ _ _ _ _ _ Ia Ic G Hda Hdw E1 E2)].
  pose proof E1 as E1'. apply convert_inv in E1.
  inversion E1; subst; try discriminate.
  - (* same type: the type of a is primitive, hence has no dynamic part *)
    apply ty_eqb_eq in H0. rewrite H0, Hdw in Hda. discriminate.
  - rewrite (dynamic_replace_nodyn _ _ _ Hdw). simpl in G.
    apply (conv_unk_gs _ t rf c want c' Ic G Hdw E2).
Qed.

(* conversion of a conditional's arm: the arm's type has no dynamic part *)
Lemma conv_gs_nodyn a c want a' c' :
  inv a = true -> inv c = true -> gsb a c = true ->
  has_dyn (type_of a) = false -> has_dyn want = false ->
  conv a want = COk a' -> conv c want = COk c' -> gsb a' c' = true.
Proof. unfold conv. intros Ia Ic G Hda Hdw E1 E2. apply (convert_gs_nodyn _ _ _ _ _ _ _ Ia Ic G Hda Hdw E1 E2). Qed.
