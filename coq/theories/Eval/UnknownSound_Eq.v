(* Eval/UnknownSound_Eq.v — C05: cty Equals (Cty/Ops.v [equals]) is monotone for [gsb]:
   whatever the abstract comparison answers (true, false, unknown bool) is consistent with the
   answer on every concretisation of the operands. *)
From Coq Require Import QArith Qreduction.
From HclV Require Import Base.Prelude Cty.Values Cty.Convert Cty.Ops Eval.Impl
                         Eval.UnknownSound_Base Eval.UnknownSound_Known Eval.UnknownSound_Gamma
                         Eval.UnknownSound_Conv Eval.UnknownSound_Conv2 Eval.UnknownSound_Ops.
Open Scope Z_scope.
Local Strategy opaque [val_size unmark_deep deep_marks unify_n convert].

(* ---- the answer on wholly known operands ------------------------------------------------------------------- *)
Definition ceq (a b : val) : bool :=
  if null_shape a && null_shape b then true
  else if null_shape a || null_shape b then false
  else if negb (ty_eqb (type_of a) (type_of b)) then false else val_eqb a b.

Lemma wk_plain_or_null v : wholly_known v = true -> is_marked v = false -> null_shape v = false -> plain v = true.
Proof. destruct v; simpl; try reflexivity; discriminate. Qed.

Lemma equals_known_spec f a b r :
  wholly_known a = true -> wholly_known b = true -> is_marked a = false -> is_marked b = false ->
  equals (S f) a b = OOk r -> r = VBool (ceq a b).
Proof.
  intros Wa Wb Ma Mb E. unfold ceq.
  destruct (null_shape a) eqn:Na; destruct (null_shape b) eqn:Nb; cbn [andb orb].
  - destruct a; try discriminate; destruct b; try discriminate. simpl in E. injection E as <-. reflexivity.
  - destruct a; try discriminate. destruct b; try discriminate; simpl in E; injection E as <-; reflexivity.
  - destruct b; try discriminate. destruct a; try discriminate; simpl in E; injection E as <-; reflexivity.
  - rewrite (equals_S_gen f a b (wk_plain_or_null a Wa Ma Na) (wk_plain_or_null b Wb Mb Nb)) in E.
    unfold equals_gen in E. rewrite Wa, Wb in E. cbn [andb negb orb] in E.
    destruct (has_dyn (type_of a) || has_dyn (type_of b)) eqn:C1.
    + destruct (ty_eqb (type_of a) (type_of b)) eqn:C2; [|discriminate].
      destruct (has_dyn (type_of a)) eqn:C3; [discriminate|].
      apply ty_eqb_eq in C2. rewrite <- C2, C3 in C1. discriminate.
    + destruct (negb (ty_eqb (type_of a) (type_of b))); injection E as <-; reflexivity.
Qed.

(* val_eqb on structures is elementwise *)
Lemma val_eqb_tuple l l' : val_eqb (VTuple l) (VTuple l') = all2 val_eqb l l'.
Proof. reflexivity. Qed.
Lemma val_eqb_list t t' l l' : val_eqb (VList t l) (VList t' l') = ty_eqb t t' && all2 val_eqb l l'.
Proof. reflexivity. Qed.
Lemma val_eqb_obj l l' :
  val_eqb (VObj l) (VObj l') = all2 (fun p q => str_eqb (fst p) (fst q) && val_eqb (snd p) (snd q)) l l'.
Proof.
  simpl. revert l'. induction l as [|[k x] r IH]; intros [|[k' y] r']; try reflexivity; simpl; rewrite IH; reflexivity.
Qed.
Lemma val_eqb_map t t' l l' :
  val_eqb (VMap t l) (VMap t' l') =
  ty_eqb t t' && all2 (fun p q => str_eqb (fst p) (fst q) && val_eqb (snd p) (snd q)) l l'.
Proof.
  simpl. f_equal. revert l'. induction l as [|[k x] r IH]; intros [|[k' y] r']; try reflexivity; simpl; rewrite IH; reflexivity.
Qed.

(* for wholly known values of the same type, [ceq] is [val_eqb] *)
Lemma ceq_val_eqb a b : type_of a = type_of b -> ceq a b = val_eqb a b.
Proof.
  intros T. unfold ceq. rewrite T, ty_eqb_refl. cbn [negb].
  destruct (null_shape a) eqn:Na; destruct (null_shape b) eqn:Nb; cbn [andb orb]; try reflexivity.
  - destruct a; try discriminate; destruct b; try discriminate. simpl in T. subst. simpl. rewrite ty_eqb_refl. reflexivity.
  - destruct a; try discriminate; destruct b; try discriminate; reflexivity.
  - destruct b; try discriminate; destruct a; try discriminate; reflexivity.
Qed.

(* ---- all_eq -------------------------------------------------------------------------------------------------- *)
Lemma all_eq_sticky f ps acc :
  (acc <> OOk (VBool true)) ->
  fold_left (fun acc p =>
    match acc with
    | OOk (VBool true) =>
        match equals f (fst p) (snd p) with
        | OOk (VBool true) => OOk (VBool true)
        | other => other
        end
    | other => other
    end) ps acc = acc.
Proof.
  intros H. induction ps as [|p ps IH]; simpl; [reflexivity|].
  destruct acc as [[]| |]; try exact IH. destruct b; [exfalso; apply H; reflexivity|exact IH].
Qed.

Lemma all_eq_cons f x y ps :
  all_eq f ((x, y) :: ps) =
  match equals f x y with
  | OOk (VBool true) => all_eq f ps
  | other => other
  end.
Proof.
  unfold all_eq. simpl.
  destruct (equals f x y) as [[]| |] eqn:E; try (apply all_eq_sticky; discriminate).
  destruct b; [reflexivity|]. apply all_eq_sticky; discriminate.
Qed.

(* the result of Equals is a known bool or the unknown not-null bool *)
Lemma equals_result_shape : forall f a b r, equals f a b = OOk r -> (exists x, r = VBool x) \/ r = unk_bool_nn.
Proof.
  induction f as [|f IH]; intros a b r E; [discriminate|].
  assert (AE : forall ps r0, all_eq f ps = OOk r0 -> (exists x, r0 = VBool x) \/ r0 = unk_bool_nn).
  { induction ps as [|[x y] ps IHp]; intros r0 Er.
    - injection Er as <-. left. eexists. reflexivity.
    - rewrite all_eq_cons in Er. destruct (equals f x y) as [v| |] eqn:Ex; try discriminate.
      destruct (IH x y v Ex) as [[bx ->]| ->].
      + destruct bx; [apply IHp; exact Er|injection Er as <-; left; eexists; reflexivity].
      + injection Er as <-. right. reflexivity. }
  destruct (plain a) eqn:Pa; [destruct (plain b) eqn:Pb|].
  - rewrite (equals_S_gen f a b Pa Pb) in E. unfold equals_gen in E.
    repeat match type of E with
           | (if ?c then _ else _) = _ => destruct c
           | match ?x with _ => _ end = _ => destruct x
           end; try discriminate; try (injection E as <-; left; eexists; reflexivity); try (apply (AE _ _ E)).
  - destruct b; try discriminate; destruct a; try discriminate; simpl in E;
      repeat match type of E with
             | (if ?c then _ else _) = _ => destruct c
             | match ?x with _ => _ end = _ => destruct x
             end; try discriminate; injection E as <-; try (left; eexists; reflexivity); right; reflexivity.
  - destruct a; try discriminate; destruct b; try discriminate; simpl in E;
      repeat match type of E with
             | (if ?c then _ else _) = _ => destruct c
             | match ?x with _ => _ end = _ => destruct x
             end; try discriminate; injection E as <-; try (left; eexists; reflexivity); right; reflexivity.
Qed.

(* ---- monotonicity ------------------------------------------------------------------------------------------------ *)
Lemma gsb_plain a a' : gsb a a' = true -> plain a = true -> plain a' = true /\ null_shape a' = false.
Proof. intros G P. destruct a; try discriminate P; simpl in G; destruct a'; try discriminate G; auto. Qed.

Lemma gsb_unk_bool_nn x : gsb unk_bool_nn (VBool x) = true.
Proof. reflexivity. Qed.

Lemma ceq_types_differ a b : null_shape a = false -> null_shape b = false -> type_of a <> type_of b -> ceq a b = false.
Proof.
  intros Na Nb T. unfold ceq. rewrite Na, Nb. cbn [andb orb].
  apply ty_eqb_neq in T. rewrite T. reflexivity.
Qed.
Lemma ceq_one_null_l a b : null_shape a = true -> null_shape b = false -> ceq a b = false.
Proof. intros Na Nb. unfold ceq. rewrite Na, Nb. reflexivity. Qed.
Lemma ceq_one_null_r a b : null_shape a = false -> null_shape b = true -> ceq a b = false.
Proof. intros Na Nb. unfold ceq. rewrite Na, Nb. reflexivity. Qed.

(* an unknown against a value that is not an unknown *)
Lemma equals_unk_gs tu ru k a' k' rA :
  inv k = true -> inv a' = true -> inv k' = true ->
  gsb (VUnk tu ru) a' = true -> gsb k k' = true -> is_known k = true ->
  (match ru with
   | RWild => OUnsupported
   | RExact x =>
       match k with
       | VNull _ => if r_notnull x then OOk (VBool false) else OOk unk_bool_nn
       | _ =>
           if negb (str_eqb (r_prefix x) []) || negb (rf_plain ru) || negb (r_lenlo x =? 0)
              || (match r_lenhi x with Some _ => true | None => false end)
           then OUnsupported
           else if has_dyn tu then
             (if ty_conf (type_of k) tu then OOk unk_bool_nn
              else if has_dyn (type_of k) then OUnsupported else OOk (VBool false))
           else if negb (ty_eqb tu (type_of k)) then
             (if has_dyn (type_of k) then OUnsupported else OOk (VBool false))
           else OOk unk_bool_nn
       end
   end) = OOk rA ->
  gsb rA (VBool (ceq a' k')) = true /\ gsb rA (VBool (ceq k' a')) = true.
Proof.
  intros Ik Ia' Ik' Ga Gk Kk E.
  destruct ru as [|x]; [discriminate|].
  simpl in Ga. unfold conc in Ga. apply andb_true_iff in Ga as [Ga Rr]. apply andb_true_iff in Ga as [Wa Cf].
  assert (Unk : forall b, gsb unk_bool_nn (VBool b) = true) by reflexivity.
  destruct k; try discriminate Ik; try discriminate Kk.
  4: { (* null *)
    apply gsb_known_eq in Gk; [|reflexivity]. subst k'.
    destruct (r_notnull x) eqn:Nn; injection E as <-; [|split; apply Unk].
    assert (Na : null_shape a' = false).
    { destruct a'; try reflexivity. simpl in Rr. rewrite Nn in Rr. discriminate. }
    rewrite (ceq_one_null_r a' (VNull t) Na eq_refl), (ceq_one_null_l (VNull t) a' eq_refl Na). split; reflexivity. }
  all: match type of E with (if ?c then _ else _) = _ => destruct c end; [discriminate|].
  all: destruct (has_dyn tu) eqn:Hd;
       [match type of E with (if ty_conf ?tk ?tw then _ else _) = _ => destruct (ty_conf tk tw) eqn:Ec end;
        [injection E as <-; split; apply Unk|];
        match type of E with (if ?c then _ else _) = _ => destruct c eqn:Hk end; [discriminate|];
        injection E as <-;
        pose proof (gsb_type_eq _ _ Gk Hk) as Tk;
        assert (Nk : null_shape k' = false) by (simpl in Gk; destruct k'; try discriminate Gk; reflexivity);
        (destruct (null_shape a') eqn:Na;
         [rewrite (ceq_one_null_l a' k' Na Nk), (ceq_one_null_r k' a' Nk Na); split; reflexivity|]);
        assert (Td : type_of a' <> type_of k') by (intros Q; rewrite Q, Tk in Cf; rewrite Cf in Ec; discriminate Ec);
        rewrite (ceq_types_differ a' k' Na Nk Td), (ceq_types_differ k' a' Nk Na (not_eq_sym Td)); split; reflexivity|].
  all: match type of E with (if negb (ty_eqb ?t1 ?tk) then _ else _) = _ => destruct (ty_eqb t1 tk) eqn:Et end;
       cbn [negb] in E; [injection E as <-; split; apply Unk|].
  all: match type of E with (if ?c then _ else _) = _ => destruct c eqn:Hk end; [discriminate|].
  all: injection E as <-.
  all: pose proof (conf_nodyn _ _ Hd Cf) as Ta.
  all: pose proof (gsb_type_eq _ _ Gk Hk) as Tk.
  all: assert (Nk : null_shape k' = false) by (simpl in Gk; destruct k'; try discriminate Gk; reflexivity).
  all: apply ty_eqb_neq in Et.
  all: destruct (null_shape a') eqn:Na;
       [rewrite (ceq_one_null_l a' k' Na Nk), (ceq_one_null_r k' a' Nk Na); split; reflexivity|].
  all: rewrite (ceq_types_differ a' k' Na Nk), (ceq_types_differ k' a' Nk Na); try (split; reflexivity); congruence.
Qed.

Definition EQS (f : nat) : Prop := forall a b a' b' rA,
  inv a = true -> inv b = true -> inv a' = true -> inv b' = true ->
  gsb a a' = true -> gsb b b' = true -> equals f a b = OOk rA ->
  gsb rA (VBool (ceq a' b')) = true.

Lemma all_eq_gs f : EQS f -> forall la lb la' lb' rA,
  Forall (fun x => inv x = true) la -> Forall (fun x => inv x = true) lb ->
  Forall (fun x => inv x = true) la' -> Forall (fun x => inv x = true) lb' ->
  all2 gsb la la' = true -> all2 gsb lb lb' = true -> length la = length lb ->
  Forall2 (fun x y => type_of x = type_of y) la' lb' ->
  all_eq f (combine la lb) = OOk rA ->
  gsb rA (VBool (all2 val_eqb la' lb')) = true.
Proof.
  intros IH. induction la as [|x la IHl]; intros lb la' lb' rA Ia Ib Ia' Ib' Ga Gb L T E.
  - destruct lb; [|discriminate L]. destruct la'; [|discriminate Ga]. destruct lb'; [|discriminate Gb].
    injection E as <-. reflexivity.
  - destruct lb as [|y lb]; [discriminate L|]. destruct la' as [|x' la']; [discriminate Ga|].
    destruct lb' as [|y' lb']; [discriminate Gb|].
    simpl in Ga, Gb. apply andb_true_iff in Ga as [Gx Ga]. apply andb_true_iff in Gb as [Gy Gb].
    inversion Ia as [|? ? Ix Ia0]; inversion Ib as [|? ? Iy Ib0]; inversion Ia' as [|? ? Ix' Ia0'];
      inversion Ib' as [|? ? Iy' Ib0']; inversion T as [|? ? ? ? Txy T0]; subst.
    simpl combine in E. rewrite all_eq_cons in E.
    destruct (equals f x y) as [v| |] eqn:Ex; try discriminate.
    pose proof (IH x y x' y' v Ix Iy Ix' Iy' Gx Gy Ex) as Gv.
    rewrite (ceq_val_eqb x' y' Txy) in Gv. simpl all2.
    destruct (equals_result_shape f x y v Ex) as [[bx ->]| ->].
    + simpl in Gv. apply Bool.eqb_prop in Gv. rewrite <- Gv.
      destruct bx; [|injection E as <-; reflexivity].
      apply (IHl lb la' lb' rA); try assumption. simpl in L. congruence.
    + injection E as <-. reflexivity.
Qed.

Lemma Forall_inv_list t l : inv (VList t l) = true -> Forall (fun x => inv x = true) l.
Proof. intros I. apply Forall_forall. intros x Hx. apply (inv_elem_list _ _ _ I Hx). Qed.
Lemma Forall_inv_tuple l : inv (VTuple l) = true -> Forall (fun x => inv x = true) l.
Proof. intros I. apply Forall_forall. intros x Hx. apply (inv_elem_tuple _ _ I Hx). Qed.
Lemma Forall_inv_obj l : inv (VObj l) = true -> Forall (fun x => inv x = true) (map snd l).
Proof.
  intros I. apply Forall_forall. intros x Hx. apply in_map_iff in Hx as [[k v] [<- Hin]]. apply (inv_elem_obj _ _ _ I Hin).
Qed.
Lemma Forall_inv_map t l : inv (VMap t l) = true -> Forall (fun x => inv x = true) (map snd l).
Proof.
  intros I. apply Forall_forall. intros x Hx. apply in_map_iff in Hx as [[k v] [<- Hin]]. apply (inv_elem_map _ _ _ _ I Hin).
Qed.

Lemma all2_kv_snd (la lc : list (list Z * val)) :
  all2 (fun p q => str_eqb (fst p) (fst q) && gsb (snd p) (snd q)) la lc = true ->
  all2 gsb (map snd la) (map snd lc) = true.
Proof.
  revert lc. induction la as [|[k x] r IH]; intros [|[k' y] r'] H; simpl in *; try discriminate; [reflexivity|].
  apply andb_true_iff in H as [H1 H2]. apply andb_true_iff in H1 as [_ H1]. rewrite H1. simpl. apply IH. exact H2.
Qed.

(* when the keys agree pairwise, the comparison of two association lists is the comparison of the values *)
Lemma all2_kv_val_eqb (l l' : list (list Z * val)) : map fst l = map fst l' ->
  all2 (fun p q => str_eqb (fst p) (fst q) && val_eqb (snd p) (snd q)) l l' = all2 val_eqb (map snd l) (map snd l').
Proof.
  revert l'. induction l as [|[k x] r IH]; intros [|[k' y] r'] H; simpl in *; try discriminate; [reflexivity|].
  injection H as -> H. rewrite str_eqb_refl. simpl. f_equal. apply IH. exact H.
Qed.
Lemma all2_kv_keys_differ (l l' : list (list Z * val)) : map fst l <> map fst l' ->
  all2 (fun p q => str_eqb (fst p) (fst q) && val_eqb (snd p) (snd q)) l l' = false.
Proof.
  revert l'. induction l as [|[k x] r IH]; intros [|[k' y] r'] H; simpl in *; try reflexivity.
  - contradiction H. reflexivity.
  - destruct (str_eqb k k') eqn:Ek; [|reflexivity]. apply str_eqb_eq in Ek. subst k'. simpl.
    rewrite IH; [apply andb_false_r|]. intros Hr. apply H. rewrite Hr. reflexivity.
Qed.

Lemma map_type_fst (l l' : list (list Z * val)) :
  map (fun p => (fst p, type_of (snd p))) l = map (fun p => (fst p, type_of (snd p))) l' ->
  map fst l = map fst l' /\ Forall2 (fun x y => type_of x = type_of y) (map snd l) (map snd l').
Proof.
  revert l'. induction l as [|[k x] r IH]; intros [|[k' y] r'] H; simpl in *; try discriminate.
  - split; [reflexivity|constructor].
  - injection H as -> T H. destruct (IH r' H) as [H1 H2]. split; [rewrite H1; reflexivity|constructor; assumption].
Qed.
Lemma map_type_tuple (l l' : list val) : map type_of l = map type_of l' ->
  Forall2 (fun x y => type_of x = type_of y) l l'.
Proof.
  revert l'. induction l as [|x r IH]; intros [|y r'] H; simpl in *; try discriminate; [constructor|].
  injection H as T H. constructor; [exact T|apply IH; exact H].
Qed.
Lemma list_same_type t (l l' : list val) :
  Forall (fun x => type_of x = t) l -> Forall (fun x => type_of x = t) l' -> length l = length l' ->
  Forall2 (fun x y => type_of x = type_of y) l l'.
Proof.
  intros F. revert l'. induction F as [|x r Hx _ IH]; intros [|y r'] F' L; simpl in *; try discriminate; [constructor|].
  inversion F'; subst. constructor; [congruence|apply IH; [assumption|congruence]].
Qed.

Lemma inv_list_types t l : inv (VList t l) = true -> Forall (fun x => type_of x = t) l.
Proof. intros I. apply Forall_forall. intros x Hx. apply (inv_elem_list _ _ _ I Hx). Qed.
Lemma inv_map_types t l : inv (VMap t l) = true -> Forall (fun x => type_of x = t) (map snd l).
Proof.
  intros I. apply Forall_forall. intros x Hx. apply in_map_iff in Hx as [[k v] [<- Hin]]. apply (inv_elem_map _ _ _ _ I Hin).
Qed.

Theorem equals_gs : forall f, EQS f.
Proof.
  induction f as [|f IH]; intros a b a' b' rA Ia Ib Ia' Ib' Ga Gb E; [discriminate|].
  assert (Unk : forall x, gsb unk_bool_nn (VBool x) = true) by reflexivity.
  destruct (plain a) eqn:Pa; [destruct (plain b) eqn:Pb|].
  - (* both operands known at the top *)
    destruct (gsb_plain a a' Ga Pa) as [Pa' Na']. destruct (gsb_plain b b' Gb Pb) as [Pb' Nb'].
    rewrite (equals_S_gen f a b Pa Pb) in E. unfold equals_gen in E.
    destruct (wholly_known a && wholly_known b) eqn:W.
    + apply andb_true_iff in W as [Wa Wb]. cbn [negb orb] in E.
      rewrite (gsb_known_eq a a' Wa Ga), (gsb_known_eq b b' Wb Gb).
      assert (Na : null_shape a = false) by (destruct a; try discriminate Pa; reflexivity).
      assert (Nb : null_shape b = false) by (destruct b; try discriminate Pb; reflexivity).
      unfold ceq. rewrite Na, Nb. cbn [andb orb].
      destruct (has_dyn (type_of a) || has_dyn (type_of b)) eqn:C1.
      * destruct (ty_eqb (type_of a) (type_of b)) eqn:C2; [|discriminate].
        destruct (has_dyn (type_of a)) eqn:C3; [discriminate|].
        apply ty_eqb_eq in C2. rewrite <- C2, C3 in C1. discriminate.
      * destruct (negb (ty_eqb (type_of a) (type_of b))); injection E as <-; simpl; first [reflexivity|apply Bool.eqb_reflx].
    + cbn [negb orb] in E.
      destruct (ty_eqb (type_of a) (type_of b)) eqn:C2; [|discriminate].
      destruct (has_dyn (type_of a)) eqn:C3; [discriminate|]. cbn [negb andb] in E.
      apply ty_eqb_eq in C2.
      pose proof (gsb_type_eq a a' Ga C3) as Ta'.
      assert (C3b : has_dyn (type_of b) = false) by (rewrite <- C2; exact C3).
      pose proof (gsb_type_eq b b' Gb C3b) as Tb'.
      assert (Tab : type_of a' = type_of b') by congruence.
      rewrite (ceq_val_eqb a' b' Tab).
      destruct a; try discriminate Pa; destruct b; try discriminate E; try discriminate C2.
      * (* lists *)
        simpl in Ga, Gb. destruct a' as [| | | | |t1 la'| | | | |]; try discriminate Ga.
        destruct b' as [| | | | |t2 lb'| | | | |]; try discriminate Gb.
        apply andb_true_iff in Ga as [Gt1 Ga]. apply andb_true_iff in Gb as [Gt2 Gb].
        apply ty_eqb_eq in Gt1, Gt2. subst t1 t2. simpl in C2. injection C2 as <-.
        rewrite val_eqb_list, ty_eqb_refl. cbn [andb].
        destruct (length l =? length l0)%nat eqn:L.
        -- apply Nat.eqb_eq in L.
           apply (all_eq_gs f IH l l0 la' lb' rA (Forall_inv_list _ _ Ia) (Forall_inv_list _ _ Ib)
                    (Forall_inv_list _ _ Ia') (Forall_inv_list _ _ Ib') Ga Gb L); [|exact E].
           apply (list_same_type t); [apply (inv_list_types _ _ Ia')|apply (inv_list_types _ _ Ib')|].
           rewrite <- (all2_length _ _ _ Ga), <- (all2_length _ _ _ Gb). exact L.
        -- injection E as <-. simpl.
           assert (Ln : length la' <> length lb').
           { rewrite <- (all2_length _ _ _ Ga), <- (all2_length _ _ _ Gb). apply Nat.eqb_neq. exact L. }
           destruct (all2 val_eqb la' lb') eqn:Ev; [|reflexivity]. exfalso. apply Ln. apply (all2_length _ _ _ Ev).
      * (* maps *)
        simpl in Ga, Gb. destruct a' as [| | | | | | |t1 la'| | |]; try discriminate Ga.
        destruct b' as [| | | | | | |t2 lb'| | |]; try discriminate Gb.
        apply andb_true_iff in Ga as [Gt1 Ga]. apply andb_true_iff in Gb as [Gt2 Gb].
        apply ty_eqb_eq in Gt1, Gt2. subst t1 t2. simpl in C2. injection C2 as <-.
        rewrite val_eqb_map, ty_eqb_refl. cbn [andb].
        pose proof (all2_keys_fst _ _ Ga) as Ka. pose proof (all2_keys_fst _ _ Gb) as Kb.
        destruct ((length l =? length l0)%nat && list_eqb str_eqb (map fst l) (map fst l0)) eqn:L.
        -- apply andb_true_iff in L as [L Lk]. apply Nat.eqb_eq in L.
           apply (list_eqb_eq str_eqb str_eqb_eq) in Lk.
           rewrite (all2_kv_val_eqb la' lb'); [|congruence].
           apply (all_eq_gs f IH (map snd l) (map snd l0) (map snd la') (map snd lb') rA
                    (Forall_inv_map _ _ Ia) (Forall_inv_map _ _ Ib) (Forall_inv_map _ _ Ia') (Forall_inv_map _ _ Ib')
                    (all2_kv_snd _ _ Ga) (all2_kv_snd _ _ Gb)); [rewrite !map_length; exact L| |exact E].
           apply (list_same_type t); [apply (inv_map_types _ _ Ia')|apply (inv_map_types _ _ Ib')|].
           rewrite !map_length. rewrite <- (all2_length _ _ _ Ga), <- (all2_length _ _ _ Gb). exact L.
        -- injection E as <-. simpl.
           destruct (all2 (fun p q : list Z * val => str_eqb (fst p) (fst q) && val_eqb (snd p) (snd q)) la' lb') eqn:Ev;
             [|reflexivity].
           exfalso. apply andb_false_iff in L as [L|L].
           ++ apply Nat.eqb_neq in L. apply L.
              rewrite (all2_length _ _ _ Ga), (all2_length _ _ _ Gb). apply (all2_length _ _ _ Ev).
           ++ assert (Kab : map fst la' = map fst lb').
              { destruct (list_eq_dec (list_eq_dec Z.eq_dec) (map fst la') (map fst lb')) as [H|H]; [exact H|].
                rewrite (all2_kv_keys_differ _ _ H) in Ev. discriminate. }
              assert (Lk : list_eqb str_eqb (map fst l) (map fst l0) = true)
                by (apply (list_eqb_eq str_eqb str_eqb_eq); congruence).
              congruence.
      * (* tuples *)
        simpl in Ga, Gb. destruct a' as [| | | | | | | |la'| |]; try discriminate Ga.
        destruct b' as [| | | | | | | |lb'| |]; try discriminate Gb.
        rewrite val_eqb_tuple. simpl in Tab. injection Tab as Tab.
        destruct (length l =? length l0)%nat eqn:L.
        -- apply Nat.eqb_eq in L.
           apply (all_eq_gs f IH l l0 la' lb' rA (Forall_inv_tuple _ Ia) (Forall_inv_tuple _ Ib)
                    (Forall_inv_tuple _ Ia') (Forall_inv_tuple _ Ib') Ga Gb L (map_type_tuple _ _ Tab) E).
        -- exfalso. apply Nat.eqb_neq in L. apply L. simpl in C2. injection C2 as C2.
           rewrite <- (map_length type_of l), C2, map_length. reflexivity.
      * (* objects *)
        simpl in Ga, Gb. destruct a' as [| | | | | | | | |la'|]; try discriminate Ga.
        destruct b' as [| | | | | | | | |lb'|]; try discriminate Gb.
        rewrite val_eqb_obj. simpl in Tab. injection Tab as Tab. destruct (map_type_fst _ _ Tab) as [Kab Tv].
        rewrite (all2_kv_val_eqb la' lb' Kab).
        apply (all_eq_gs f IH (map snd l) (map snd l0) (map snd la') (map snd lb') rA
                 (Forall_inv_obj _ Ia) (Forall_inv_obj _ Ib) (Forall_inv_obj _ Ia') (Forall_inv_obj _ Ib')
                 (all2_kv_snd _ _ Ga) (all2_kv_snd _ _ Gb)); [|exact Tv|exact E].
        simpl in C2. injection C2 as C2. rewrite !map_length.
        rewrite <- (map_length (fun p : list Z * val => (fst p, type_of (snd p))) l), C2, map_length. reflexivity.
  - (* a known at the top, b null or unknown *)
    destruct b as [| | |tb|tb rb| | | | | |]; try discriminate Pb; try discriminate Ib.
    + (* b null *)
      apply gsb_known_eq in Gb; [|reflexivity]. subst b'.
      destruct (gsb_plain a a' Ga Pa) as [_ Na'].
      rewrite (ceq_one_null_r a' (VNull tb) Na' eq_refl).
      destruct a; try discriminate Pa; simpl in E; injection E as <-; reflexivity.
    + (* b unknown *)
      assert (Ka : is_known a = true) by (destruct a; try discriminate Pa; reflexivity).
      apply (proj2 (equals_unk_gs tb rb a b' a' rA Ia Ib' Ia' Gb Ga Ka
                      ltac:(destruct a; try discriminate Pa; exact E))).
  - (* a null or unknown *)
    destruct a as [| | |ta|ta ra| | | | | |]; try discriminate Pa; try discriminate Ia.
    + (* a null *)
      apply gsb_known_eq in Ga; [|reflexivity]. subst a'.
      destruct b as [| | |tb|tb rb| | | | | |]; try discriminate Ib.
      all: try (assert (Nb' : null_shape b' = false) by (simpl in Gb; destruct b'; try discriminate Gb; reflexivity);
                rewrite (ceq_one_null_l (VNull ta) b' eq_refl Nb'); simpl in E; injection E as <-; reflexivity).
      * apply gsb_known_eq in Gb; [|reflexivity]. subst b'. simpl in E. injection E as <-. reflexivity.
      * (* null against unknown *)
        assert (Gn : gsb (VNull ta) (VNull ta) = true) by (simpl; apply ty_eqb_refl).
        apply (proj2 (equals_unk_gs tb rb (VNull ta) b' (VNull ta) rA eq_refl Ib' eq_refl Gb Gn eq_refl E)).
    + (* a unknown *)
      destruct b as [| | |tb|tb rb| | | | | |]; try discriminate Ib.
      all: try (apply (proj1 (equals_unk_gs ta ra _ a' b' rA Ib Ia' Ib' Ga Gb eq_refl E))).
      (* both unknown *)
      simpl in E. assert (ErA : rA = unk_bool_nn) by (destruct ra, rb; injection E as <-; reflexivity).
      subst rA. apply Unk.
Qed.

(* ---- the == and != operator functions ------------------------------------------------------------------------- *)
Lemma marks_union_nil_l m : marks_union [] m = m. Proof. reflexivity. Qed.
Lemma eq_res_inv a b : inv a = true -> inv b = true ->
  eq_res a b = equals (S (val_size a + val_size b)) a b.
Proof. intros Ia Ib. unfold eq_res. rewrite (inv_unmark_deep a Ia), (inv_unmark_deep b Ib). reflexivity. Qed.

Lemma call_binop_eq_inv op a b r : is_eq_op op = true -> inv a = true -> inv b = true ->
  call_binop op a b = OOk r -> inv r = true.
Proof.
  intros Ho Ia Ib E. destruct op; try discriminate Ho.
  - rewrite call_binop_eq in E. rewrite (inv_deep_marks a Ia), (inv_deep_marks b Ib), marks_union_nil_l in E.
    rewrite lift_marks_nil, (eq_res_inv a b Ia Ib) in E.
    destruct (equals_result_shape _ _ _ _ E) as [[x ->]| ->]; reflexivity.
  - rewrite call_binop_ne in E. rewrite (inv_deep_marks a Ia), (inv_deep_marks b Ib), marks_union_nil_l in E.
    rewrite lift_marks_nil, (eq_res_inv a b Ia Ib) in E.
    destruct (equals (S (val_size a + val_size b)) a b) as [v| |] eqn:Ee; try discriminate.
    destruct (equals_result_shape _ _ _ _ Ee) as [[x ->]| ->]; injection E as <-; reflexivity.
Qed.

Lemma call_binop_eq_gs op a b a' b' rA rC : is_eq_op op = true ->
  inv a = true -> inv b = true -> inv a' = true -> inv b' = true ->
  gsb a a' = true -> gsb b b' = true ->
  call_binop op a b = OOk rA -> call_binop op a' b' = OOk rC -> gsb rA rC = true.
Proof.
  intros Ho Ia Ib Ia' Ib' Ga Gb EA EC.
  pose proof (gsb_wk _ _ Ga) as Wa'. pose proof (gsb_wk _ _ Gb) as Wb'.
  destruct op; try discriminate Ho.
  - rewrite call_binop_eq in EA, EC.
    rewrite (inv_deep_marks a Ia), (inv_deep_marks b Ib), marks_union_nil_l, lift_marks_nil, (eq_res_inv a b Ia Ib) in EA.
    rewrite (inv_deep_marks a' Ia'), (inv_deep_marks b' Ib'), marks_union_nil_l, lift_marks_nil, (eq_res_inv a' b' Ia' Ib') in EC.
    rewrite (equals_known_spec _ a' b' rC Wa' Wb' (inv_not_marked _ Ia') (inv_not_marked _ Ib') EC).
    apply (equals_gs _ a b a' b' rA Ia Ib Ia' Ib' Ga Gb EA).
  - rewrite call_binop_ne in EA, EC.
    rewrite (inv_deep_marks a Ia), (inv_deep_marks b Ib), marks_union_nil_l, lift_marks_nil, (eq_res_inv a b Ia Ib) in EA.
    rewrite (inv_deep_marks a' Ia'), (inv_deep_marks b' Ib'), marks_union_nil_l, lift_marks_nil, (eq_res_inv a' b' Ia' Ib') in EC.
    destruct (equals (S (val_size a' + val_size b')) a' b') as [vC| |] eqn:EeC; try discriminate.
    pose proof (equals_known_spec _ a' b' vC Wa' Wb' (inv_not_marked _ Ia') (inv_not_marked _ Ib') EeC) as ->.
    injection EC as <-.
    destruct (equals (S (val_size a + val_size b)) a b) as [vA| |] eqn:EeA; try discriminate.
    pose proof (equals_gs _ a b a' b' vA Ia Ib Ia' Ib' Ga Gb EeA) as G.
    destruct (equals_result_shape _ _ _ _ EeA) as [[x ->]| ->]; injection EA as <-.
    + simpl in G. apply Bool.eqb_prop in G. subst x. simpl. apply Bool.eqb_reflx.
    + reflexivity.
Qed.

(* all binary operator functions *)
Lemma call_binop_inv_all op a b r : inv a = true -> inv b = true -> call_binop op a b = OOk r -> inv r = true.
Proof.
  intros Ia Ib E. destruct (is_eq_op op) eqn:Ho.
  - apply (call_binop_eq_inv op a b r Ho Ia Ib E).
  - apply (call_binop_inv op a b r Ho Ia Ib E).
Qed.

Lemma conv_dyn_id v r : inv v = true -> conv v TDyn = COk r -> r = v.
Proof.
  intros I E. unfold conv in E. apply convert_inv in E. pose proof (inv_not_marked _ I) as M.
  inversion E; subst; try reflexivity; try discriminate;
    try (match goal with P : conv_pre _ TDyn |- _ => destruct P as [_ [P2 _]]; exfalso; apply P2; reflexivity end).
Qed.
