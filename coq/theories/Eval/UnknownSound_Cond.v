(* Eval/UnknownSound_Cond.v — C05: the unknown-condition branch of ConditionalExpr.Value
   ([cond_unk], UnknownSound_Base.v): case analysis, invariant, and soundness of the refinement
   merge (numeric bounds, length bounds, not-null, both-null, collapse to a known value). *)
From Coq Require Import QArith Qreduction.
From HclV Require Import Base.Prelude Cty.Values Cty.Convert Cty.Ops Eval.Impl
                         Eval.UnknownSound_Base Eval.UnknownSound_Known Eval.UnknownSound_Gamma
                         Eval.UnknownSound_Conv Eval.UnknownSound_Conv2 Eval.UnknownSound_Ops
                         Eval.UnknownSound_Num.
Open Scope Z_scope.
Local Strategy opaque [equals val_size unmark_deep deep_marks unify_n convert].

Lemma canon_num_lo v o : inv v = true -> num_lo v = Some o -> canon_bound o = true.
Proof.
  intros I E. destruct v; simpl in E; try discriminate.
  - injection E as <-. exact I.
  - injection E as <-. reflexivity.
  - destruct r as [|x]; [discriminate|]. injection E as <-. simpl in I. unfold canon_refn in I.
    apply andb_true_iff in I. tauto.
Qed.
Lemma canon_num_hi v o : inv v = true -> num_hi v = Some o -> canon_bound o = true.
Proof.
  intros I E. destruct v; simpl in E; try discriminate.
  - injection E as <-. exact I.
  - injection E as <-. reflexivity.
  - destruct r as [|x]; [discriminate|]. injection E as <-. simpl in I. unfold canon_refn in I.
    apply andb_true_iff in I. tauto.
Qed.

(* the numeric bound merge of the unknown-condition branch, as written in the model *)
Definition merge_lo (tlo flo : option (num * bool)) : option (num * bool) :=
  let lo := match tlo, flo with
            | Some (a, ai), Some (b, bi) =>
                if num_ltb a b then Some (a, ai)
                else if num_eqb a b then Some (b, ai || bi) else Some (b, bi)
            | _, _ => None end in
  match lo with Some (NInf false, _) => None | o => o end.
Definition merge_hi (thi fhi : option (num * bool)) : option (num * bool) :=
  let hi := match thi, fhi with
            | Some (a, ai), Some (b, bi) =>
                if num_ltb b a then Some (a, ai)
                else if num_eqb a b then Some (b, ai || bi) else Some (b, bi)
            | _, _ => None end in
  match hi with Some (NInf true, _) => None | o => o end.
Definition merge_len_hi (th fh : option Z) : option Z :=
  match th, fh with Some a, Some b => Some (Z.max a b) | _, _ => None end.

Lemma canon_merge_lo tlo flo : canon_bound tlo = true -> canon_bound flo = true -> canon_bound (merge_lo tlo flo) = true.
Proof.
  intros C1 C2. unfold merge_lo. destruct tlo as [[a ai]|], flo as [[b bi]|]; try reflexivity. simpl in C1, C2.
  destruct (num_ltb a b); [destruct a as [|[|]]; simpl; auto|].
  destruct (num_eqb a b); destruct b as [|[|]]; simpl; auto.
Qed.
Lemma canon_merge_hi thi fhi : canon_bound thi = true -> canon_bound fhi = true -> canon_bound (merge_hi thi fhi) = true.
Proof.
  intros C1 C2. unfold merge_hi. destruct thi as [[a ai]|], fhi as [[b bi]|]; try reflexivity. simpl in C1, C2.
  destruct (num_ltb b a); [destruct a as [|[|]]; simpl; auto|].
  destruct (num_eqb a b); destruct b as [|[|]]; simpl; auto.
Qed.

(* [cond_unk] by cases *)
Definition cond_unk_body (rt : ty) (cds : list diag) (nnb : bool) (tu fu : val) : val * list diag :=
  if ty_eqb (type_of tu) TNum && ty_eqb (type_of fu) TNum then
    match num_lo tu, num_lo fu, num_hi tu, num_hi fu with
    | Some tlo, Some flo, Some thi, Some fhi =>
        (finish_unknown TNum (mkRefn nnb [] (merge_lo tlo flo) (merge_hi thi fhi) 0 None), cds)
    | _, _, _, _ => (VUnk TNum RWild, cds)
    end
  else if is_collection (type_of tu) && is_collection (type_of fu) && ty_eqb (type_of tu) (type_of fu) then
    match len_lo tu, len_lo fu, len_hi tu, len_hi fu with
    | Some tl, Some fl, Some th, Some fh =>
        (finish_unknown rt (mkRefn nnb [] None None (Z.min tl fl) (merge_len_hi th fh)), cds)
    | _, _, _, _ => (VUnk rt RWild, cds)
    end
  else (VUnk rt (RExact (mkRefn nnb [] None None 0 None)), cds).

Definition nn_of (tu fu : val) : option bool :=
  match definitely_not_null tu, definitely_not_null fu with
  | Some a, Some b => Some (a && b) | _, _ => None end.

Lemma cond_unk_cases rt cds tu fu :
  cond_unk rt cds [] tu fu =
  if null_shape tu && null_shape fu then (VNull rt, cds)
  else match nn_of tu fu with
       | None => (VUnk rt RWild, cds)
       | Some nnb => cond_unk_body rt cds nnb tu fu
       end.
Proof. unfold cond_unk, nn_of, cond_unk_body. destruct tu; destruct fu; reflexivity. Qed.

Lemma cond_unk_inv rt cds tu fu : inv tu = true -> inv fu = true -> inv (fst (cond_unk rt cds [] tu fu)) = true.
Proof.
  intros It If. rewrite cond_unk_cases.
  destruct (null_shape tu && null_shape fu); [reflexivity|].
  destruct (nn_of tu fu) as [nnb|]; [|reflexivity].
  unfold cond_unk_body.
  destruct (ty_eqb (type_of tu) TNum && ty_eqb (type_of fu) TNum).
  - destruct (num_lo tu) as [tlo|] eqn:E1; [|reflexivity]. destruct (num_lo fu) as [flo|] eqn:E2; [|reflexivity].
    destruct (num_hi tu) as [thi|] eqn:E3; [|reflexivity]. destruct (num_hi fu) as [fhi|] eqn:E4; [|reflexivity].
    cbn [fst]. apply inv_finish_unknown. unfold canon_refn. cbn [r_lo r_hi].
    rewrite (canon_merge_lo _ _ (canon_num_lo _ _ It E1) (canon_num_lo _ _ If E2)).
    rewrite (canon_merge_hi _ _ (canon_num_hi _ _ It E3) (canon_num_hi _ _ If E4)). reflexivity.
  - destruct (is_collection (type_of tu) && is_collection (type_of fu) && ty_eqb (type_of tu) (type_of fu)); [|reflexivity].
    destruct (len_lo tu); [|reflexivity]. destruct (len_lo fu); [|reflexivity].
    destruct (len_hi tu); [|reflexivity]. destruct (len_hi fu); [|reflexivity].
    cbn [fst]. apply inv_finish_unknown. reflexivity.
Qed.


(* ---- numeric bounds ----------------------------------------------------------------------------------------- *)
Lemma bound_lo_ok_eq o n : bound_lo_ok o n =
  match o with None => true | Some (b, true) => num_leb b n | Some (b, false) => num_ltb b n end.
Proof. destruct o as [[b [|]]|]; reflexivity. Qed.
Lemma bound_hi_ok_eq o n : bound_hi_ok o n =
  match o with None => true | Some (b, true) => num_leb n b | Some (b, false) => num_ltb n b end.
Proof. destruct o as [[b [|]]|]; reflexivity. Qed.

Lemma filter_lo_ok o m : bound_lo_ok o m = true ->
  bound_lo_ok (match o with Some (NInf false, _) => None | o' => o' end) m = true.
Proof. destruct o as [[[q|[|]] i]|]; auto. Qed.
Lemma filter_hi_ok o m : bound_hi_ok o m = true ->
  bound_hi_ok (match o with Some (NInf true, _) => None | o' => o' end) m = true.
Proof. destruct o as [[[q|[|]] i]|]; auto. Qed.

Lemma merge_lo_ok tlo flo m :
  bound_lo_ok tlo m = true \/ bound_lo_ok flo m = true -> bound_lo_ok (merge_lo tlo flo) m = true.
Proof.
  intros H. unfold merge_lo. cbv zeta.
  destruct tlo as [[a ai]|]; [|reflexivity]. destruct flo as [[b bi]|]; [|reflexivity].
  apply filter_lo_ok. rewrite !bound_lo_ok_eq in H.
  destruct (num_ltb a b) eqn:Lab.
  - rewrite bound_lo_ok_eq. destruct H as [H|H]; [exact H|].
    assert (L : num_ltb a m = true).
    { destruct bi; [apply (num_lt_le_trans a b m Lab H)|apply (num_lt_trans a b m Lab H)]. }
    destruct ai; [apply (num_lt_le _ _ L)|exact L].
  - destruct (num_eqb a b) eqn:Eab; rewrite bound_lo_ok_eq.
    + destruct H as [H|H].
      * destruct ai; cbn [orb].
        -- apply (num_eq_le_l a b m Eab H).
        -- pose proof (num_eq_lt_l a b m Eab H) as L. destruct bi; [apply (num_lt_le _ _ L)|exact L].
      * destruct bi; [rewrite orb_true_r; exact H|]. rewrite orb_false_r.
        destruct ai; [apply (num_lt_le _ _ H)|exact H].
    + pose proof (num_total a b Lab Eab) as Lba. destruct H as [H|H]; [|exact H].
      assert (L : num_ltb b m = true).
      { destruct ai; [apply (num_lt_le_trans b a m Lba H)|apply (num_lt_trans b a m Lba H)]. }
      destruct bi; [apply (num_lt_le _ _ L)|exact L].
Qed.

Lemma merge_hi_ok thi fhi m :
  bound_hi_ok thi m = true \/ bound_hi_ok fhi m = true -> bound_hi_ok (merge_hi thi fhi) m = true.
Proof.
  intros H. unfold merge_hi. cbv zeta.
  destruct thi as [[a ai]|]; [|reflexivity]. destruct fhi as [[b bi]|]; [|reflexivity].
  apply filter_hi_ok. rewrite !bound_hi_ok_eq in H.
  destruct (num_ltb b a) eqn:Lba.
  - rewrite bound_hi_ok_eq. destruct H as [H|H]; [exact H|].
    assert (L : num_ltb m a = true).
    { destruct bi; [apply (num_le_lt_trans m b a H Lba)|apply (num_lt_trans m b a H Lba)]. }
    destruct ai; [apply (num_lt_le _ _ L)|exact L].
  - destruct (num_eqb a b) eqn:Eab; rewrite bound_hi_ok_eq.
    + destruct H as [H|H].
      * destruct ai; cbn [orb].
        -- apply (num_eq_le_r a b m Eab H).
        -- pose proof (num_eq_lt_r a b m Eab H) as L. destruct bi; [apply (num_lt_le _ _ L)|exact L].
      * destruct bi; [rewrite orb_true_r; exact H|]. rewrite orb_false_r.
        destruct ai; [apply (num_lt_le _ _ H)|exact H].
    + assert (Lab : num_ltb a b = true).
      { apply num_total; [exact Lba|]. destruct (num_eqb b a) eqn:E; [|reflexivity].
        apply num_eqb_sym in E. congruence. }
      destruct H as [H|H]; [|exact H].
      assert (L : num_ltb m b = true).
      { destruct ai; [apply (num_le_lt_trans m a b H Lab)|apply (num_lt_trans m a b H Lab)]. }
      destruct bi; [apply (num_lt_le _ _ L)|exact L].
Qed.

(* what a number-typed arm says about a concrete value it is related to *)
Lemma arm_num_facts y x lo hi d :
  inv y = true -> inv x = true -> type_of y = TNum -> gsb y x = true ->
  num_lo y = Some lo -> num_hi y = Some hi -> definitely_not_null y = Some d ->
  (x = VNull TNum /\ d = false) \/
  (exists m, x = VNum m /\ bound_lo_ok lo m = true /\ bound_hi_ok hi m = true).
Proof.
  intros Iy Ix Ty G El Eh Ed.
  destruct (inv_num_shape y Iy Ty) as [[n ->]|[->|[r ->]]].
  - apply gsb_known_eq in G; [|reflexivity]. subst x. simpl in El, Eh. injection El as <-. injection Eh as <-.
    right. exists n. split; [reflexivity|]. simpl. rewrite num_ltb_irrefl. auto.
  - apply gsb_known_eq in G; [|reflexivity]. subst x. simpl in Ed. injection Ed as <-. left. auto.
  - destruct r as [|r0]; [discriminate Ed|]. simpl in El, Eh, Ed. injection El as <-. injection Eh as <-. injection Ed as <-.
    simpl in G. unfold conc in G. apply andb_true_iff in G as [G Rr]. apply andb_true_iff in G as [W Cf].
    pose proof (conf_nodyn _ TNum eq_refl Cf) as Tx.
    destruct (inv_num_shape x Ix Tx) as [[m ->]|[->|[r1 ->]]]; [| |discriminate W].
    + right. exists m. simpl in Rr. apply andb_true_iff in Rr. tauto.
    + left. simpl in Rr. apply negb_true_iff in Rr. auto.
Qed.

Lemma num_merge_gs tuA fuA x nnb tlo flo thi fhi :
  inv tuA = true -> inv fuA = true -> inv x = true -> type_of tuA = TNum -> type_of fuA = TNum ->
  nn_of tuA fuA = Some nnb ->
  num_lo tuA = Some tlo -> num_lo fuA = Some flo -> num_hi tuA = Some thi -> num_hi fuA = Some fhi ->
  gsb tuA x = true \/ gsb fuA x = true ->
  gsb (finish_unknown TNum (mkRefn nnb [] (merge_lo tlo flo) (merge_hi thi fhi) 0 None)) x = true.
Proof.
  intros It If Ix Tt Tf Enn E1 E2 E3 E4 G.
  unfold nn_of in Enn.
  destruct (definitely_not_null tuA) as [dt|] eqn:Edt; [|discriminate].
  destruct (definitely_not_null fuA) as [df|] eqn:Edf; [|discriminate]. injection Enn as <-.
  assert (F : (x = VNull TNum /\ dt && df = false) \/
              (exists m, x = VNum m /\ bound_lo_ok (merge_lo tlo flo) m = true /\ bound_hi_ok (merge_hi thi fhi) m = true)).
  { destruct G as [G|G].
    - destruct (arm_num_facts tuA x tlo thi dt It Ix Tt G E1 E3 Edt) as [[-> ->]|[m [-> [B1 B2]]]].
      + left. auto.
      + right. exists m. split; [reflexivity|]. split; [apply merge_lo_ok|apply merge_hi_ok]; auto.
    - destruct (arm_num_facts fuA x flo fhi df If Ix Tf G E2 E4 Edf) as [[-> ->]|[m [-> [B1 B2]]]].
      + left. rewrite andb_false_r. auto.
      + right. exists m. split; [reflexivity|]. split; [apply merge_lo_ok|apply merge_hi_ok]; auto. }
  pose proof (canon_merge_lo _ _ (canon_num_lo _ _ It E1) (canon_num_lo _ _ If E2)) as Clo.
  destruct F as [[-> Enn]|[m [-> [B1 B2]]]].
  - unfold finish_unknown. cbn [r_notnull]. rewrite Enn. reflexivity.
  - assert (Unk : gsb (VUnk TNum (RExact (mkRefn (dt && df) [] (merge_lo tlo flo) (merge_hi thi fhi) 0 None))) (VNum m) = true).
    { simpl. unfold conc. simpl. rewrite B1, B2. reflexivity. }
    unfold finish_unknown. cbn [r_notnull r_lo r_hi].
    destruct (negb (dt && df)); [exact Unk|].
    destruct (merge_lo tlo flo) as [[a [|]]|] eqn:Ea; try exact Unk.
    destruct (merge_hi thi fhi) as [[b [|]]|] eqn:Eb; try exact Unk.
    destruct (num_eqb a b) eqn:Eab; [|exact Unk].
    simpl. apply num_leib_eq. simpl in B1, B2, Clo.
    apply (canon_num_eq a m Clo Ix). apply (num_le_antisym a b m); assumption.
Qed.

(* ---- length bounds ------------------------------------------------------------------------------------------- *)
Lemma arm_len_facts y x lo hi d :
  inv y = true -> inv x = true -> is_collection (type_of y) = true -> has_dyn (type_of y) = false -> gsb y x = true ->
  len_lo y = Some lo -> len_hi y = Some hi -> definitely_not_null y = Some d ->
  type_of x = type_of y /\
  ((null_shape x = true /\ d = false) \/
   (null_shape x = false /\
    match x with VList _ _ | VSet _ _ | VMap _ _ => true | _ => false end = true /\
    (lo <=? length_int x) && match hi with Some h => length_int x <=? h | None => true end = true)).
Proof.
  intros Iy Ix Hc Hd G El Eh Ed. pose proof (gsb_type_eq y x G Hd) as Tx. split; [exact Tx|].
  pose proof (gsb_wk _ _ G) as Wx.
  destruct y; simpl in Hc; try discriminate Hc; try discriminate Iy.
  - (* null *) apply gsb_known_eq in G; [|reflexivity]. subst x. simpl in Ed. injection Ed as <-. left. auto.
  - (* unknown *)
    destruct r as [|r0]; [discriminate Ed|]. simpl in El, Eh, Ed. injection El as <-. injection Eh as <-. injection Ed as <-.
    simpl in G. unfold conc in G. apply andb_true_iff in G as [_ Rr]. simpl in Tx.
    destruct x; simpl in Tx; try (subst t; discriminate Hc); try discriminate Wx; try discriminate Ix.
    + left. simpl in Rr. apply negb_true_iff in Rr. auto.
    + right. split; [reflexivity|]. split; [reflexivity|]. exact Rr.
    + right. split; [reflexivity|]. split; [reflexivity|]. exact Rr.
    + right. split; [reflexivity|]. split; [reflexivity|]. exact Rr.
  - (* list *)
    simpl in G. destruct x; try discriminate. apply andb_true_iff in G as [_ G].
    simpl in El, Eh, Ed. injection El as <-. injection Eh as <-. right. split; [reflexivity|]. split; [reflexivity|].
    simpl. rewrite (all2_length _ _ _ G). rewrite !Z.leb_refl. reflexivity.
  - (* set *)
    simpl in G. destruct x; try discriminate. apply andb_true_iff in G as [_ G].
    simpl in El, Eh. destruct (forallb wholly_known l) eqn:Wl; [|discriminate].
    injection El as <-. injection Eh as <-. right. split; [reflexivity|]. split; [reflexivity|].
    simpl. rewrite (all2_length _ _ _ G). rewrite !Z.leb_refl. reflexivity.
  - (* map *)
    simpl in G. destruct x; try discriminate. apply andb_true_iff in G as [_ G].
    simpl in El, Eh, Ed. injection El as <-. injection Eh as <-. right. split; [reflexivity|]. split; [reflexivity|].
    simpl. rewrite (all2_length _ _ _ G). rewrite !Z.leb_refl. reflexivity.
Qed.

(* ---- the whole unknown-condition branch ------------------------------------------------------------------- *)
Lemma arm_null_fact y x d : inv y = true -> gsb y x = true -> null_shape x = true ->
  definitely_not_null y = Some d -> d = false.
Proof.
  intros Iy G N Ed. destruct y; simpl in Ed; try discriminate Iy;
    try (injection Ed as <-; simpl in G; destruct x; discriminate).
  - injection Ed as <-. reflexivity.
  - destruct r as [|r0]; [discriminate|]. injection Ed as <-. simpl in G. unfold conc in G.
    apply andb_true_iff in G as [_ Rr]. destruct x; try discriminate N. simpl in Rr.
    apply negb_true_iff in Rr. exact Rr.
Qed.

Definition coll_shape (v : val) : bool :=
  match v with VList _ _ | VSet _ _ | VMap _ _ => true | _ => false end.

(* the concrete result of the selected arm: the arm itself or its conversion to the result type *)
Definition picked (x : val) (rt : ty) (r : val) : Prop :=
  (r = x /\ type_of x = rt) \/ conv x rt = COk r.

Lemma picked_facts x rt r : inv x = true -> wholly_known x = true -> has_dyn rt = false -> picked x rt r ->
  wholly_known r = true /\ inv r = true /\ type_of r = rt /\
  (null_shape r = true -> null_shape x = true) /\
  (is_collection rt = true -> coll_shape x = true -> length_int r = length_int x).
Proof.
  intros Ix Wx Hd [[-> T]|E].
  - repeat split; auto.
  - pose proof (conv_good _ _ _ (inv_good _ Ix Wx) E) as Gr. apply good_iff in Gr as [Wr _].
    repeat split.
    + exact Wr.
    + apply (conv_inv_pres _ _ _ Ix E).
    + apply (conv_type _ _ _ E Hd).
    + apply (conv_null_inv _ _ _ E (inv_not_marked _ Ix)).
    + intros Hc Sh. unfold conv in E. apply (convert_len_pres _ _ _ _ E Hc). destruct x; try discriminate Sh; reflexivity.
Qed.

Lemma finish_noncoll rt x : is_collection rt = false -> r_lo x = None ->
  finish_unknown rt x = VUnk rt (RExact x).
Proof.
  intros Hc Hn. unfold finish_unknown. destruct (negb (r_notnull x)); [reflexivity|].
  destruct rt; try reflexivity; try discriminate Hc. rewrite Hn. reflexivity.
Qed.

Lemma finish_default_eq want nn :
  finish_unknown want (mkRefn nn [] None None 0 None) = VUnk want (RExact (mkRefn nn [] None None 0 None)).
Proof. unfold finish_unknown. simpl. destruct nn; simpl; [|reflexivity]. destruct want; reflexivity. Qed.

Lemma cond_unk_gs rt cds tuA fuA x r :
  inv tuA = true -> inv fuA = true -> inv x = true ->
  has_dyn rt = false ->
  (has_dyn (type_of tuA) = false \/ tuA = VNull TDyn) -> (has_dyn (type_of fuA) = false \/ fuA = VNull TDyn) ->
  (type_of tuA = TNum -> type_of fuA = TNum -> rt = TNum) ->
  (gsb tuA x = true \/ gsb fuA x = true) -> picked x rt r ->
  gsb (fst (cond_unk rt cds [] tuA fuA)) r = true.
Proof.
  intros It If Ix Hd At Af Hnum G P.
  assert (Wx : wholly_known x = true) by (destruct G as [G|G]; apply (gsb_wk _ _ G)).
  destruct (picked_facts x rt r Ix Wx Hd P) as [Wr [Ir [Tr [Nr Lr]]]].
  rewrite cond_unk_cases.
  destruct (null_shape tuA && null_shape fuA) eqn:Nb.
  { (* both arms null *)
    apply andb_true_iff in Nb as [N1 N2]. cbn [fst].
    assert (Nx : null_shape x = true).
    { destruct G as [G|G]; [destruct tuA|destruct fuA]; try discriminate;
        (apply gsb_known_eq in G; [subst x; reflexivity|reflexivity]). }
    assert (Nrr : null_shape r = true).
    { destruct P as [[-> _]|E]; [exact Nx|]. unfold conv in E. apply (convert_null_fwd _ _ _ _ E Nx). }
    destruct r; try discriminate Nrr. simpl in Tr. subst t. simpl. apply ty_eqb_refl. }
  destruct (nn_of tuA fuA) as [nnb|] eqn:Enn.
  2: { cbn [fst]. simpl. unfold conc. rewrite Wr, Tr, conf_refl. reflexivity. }
  assert (NN : null_shape r = true -> nnb = false).
  { intros N. specialize (Nr N). unfold nn_of in Enn.
    destruct (definitely_not_null tuA) as [dt|] eqn:Edt; [|discriminate].
    destruct (definitely_not_null fuA) as [df|] eqn:Edf; [|discriminate]. injection Enn as <-.
    destruct G as [G|G].
    - rewrite (arm_null_fact tuA x dt It G Nr Edt). reflexivity.
    - rewrite (arm_null_fact fuA x df If G Nr Edf). apply andb_false_r. }
  unfold cond_unk_body.
  destruct (ty_eqb (type_of tuA) TNum && ty_eqb (type_of fuA) TNum) eqn:Tn.
  { (* numeric bounds *)
    apply andb_true_iff in Tn as [T1 T2]. apply ty_eqb_eq in T1, T2. specialize (Hnum T1 T2). subst rt.
    assert (Erx : r = x).
    { destruct P as [[-> _]|E]; [reflexivity|].
      assert (Tx : type_of x = TNum).
      { destruct G as [G|G]; [rewrite <- T1|rewrite <- T2]; apply (gsb_type_eq _ _ G); [rewrite T1|rewrite T2]; reflexivity. }
      unfold conv in E. apply (convert_same_type _ _ _ _ (inv_not_marked _ Ix) Tx E). }
    subst r.
    destruct (num_lo tuA) as [tlo|] eqn:E1; [|cbn [fst]; simpl; unfold conc; rewrite Wr, Tr; reflexivity].
    destruct (num_lo fuA) as [flo|] eqn:E2; [|cbn [fst]; simpl; unfold conc; rewrite Wr, Tr; reflexivity].
    destruct (num_hi tuA) as [thi|] eqn:E3; [|cbn [fst]; simpl; unfold conc; rewrite Wr, Tr; reflexivity].
    destruct (num_hi fuA) as [fhi|] eqn:E4; [|cbn [fst]; simpl; unfold conc; rewrite Wr, Tr; reflexivity].
    cbn [fst]. apply (num_merge_gs tuA fuA x nnb tlo flo thi fhi It If Ix T1 T2 Enn E1 E2 E3 E4 G). }
  destruct (is_collection (type_of tuA) && is_collection (type_of fuA) && ty_eqb (type_of tuA) (type_of fuA)) eqn:Tc.
  2: { cbn [fst]. rewrite <- finish_default_eq. apply (unk_default_gs rt nnb r Wr Tr NN). }
  (* length bounds *)
  apply andb_true_iff in Tc as [Tc Teq]. apply andb_true_iff in Tc as [Ct Cf]. apply ty_eqb_eq in Teq.
  destruct (len_lo tuA) as [tl|] eqn:E1; [|cbn [fst]; simpl; unfold conc; rewrite Wr, Tr, conf_refl; reflexivity].
  destruct (len_lo fuA) as [fl|] eqn:E2; [|cbn [fst]; simpl; unfold conc; rewrite Wr, Tr, conf_refl; reflexivity].
  destruct (len_hi tuA) as [th|] eqn:E3; [|cbn [fst]; simpl; unfold conc; rewrite Wr, Tr, conf_refl; reflexivity].
  destruct (len_hi fuA) as [fh|] eqn:E4; [|cbn [fst]; simpl; unfold conc; rewrite Wr, Tr, conf_refl; reflexivity].
  cbn [fst].
  assert (Hdt : has_dyn (type_of tuA) = false).
  { destruct At as [H| ->]; [exact H|discriminate Ct]. }
  assert (Hdf : has_dyn (type_of fuA) = false).
  { destruct Af as [H| ->]; [exact H|discriminate Cf]. }
  unfold nn_of in Enn.
  destruct (definitely_not_null tuA) as [dt|] eqn:Edt; [|discriminate].
  destruct (definitely_not_null fuA) as [df|] eqn:Edf; [|discriminate]. injection Enn as Enn.
  assert (Facts : null_shape x = false ->
            coll_shape x = true /\
            (Z.min tl fl <=? length_int x) && match merge_len_hi th fh with Some h => length_int x <=? h | None => true end = true).
  { intros Nx. destruct G as [G|G].
    - destruct (arm_len_facts tuA x tl th dt It Ix Ct Hdt G E1 E3 Edt) as [_ [[N _]|[_ [Sh B]]]]; [congruence|].
      split; [exact Sh|]. apply andb_true_iff in B as [B1 B2]. apply andb_true_iff. split.
      + apply Z.leb_le. apply Z.leb_le in B1. lia.
      + unfold merge_len_hi. destruct th as [a|]; [|reflexivity]. destruct fh as [b|]; [|reflexivity].
        apply Z.leb_le. apply Z.leb_le in B2. lia.
    - destruct (arm_len_facts fuA x fl fh df If Ix Cf Hdf G E2 E4 Edf) as [_ [[N _]|[_ [Sh B]]]]; [congruence|].
      split; [exact Sh|]. apply andb_true_iff in B as [B1 B2]. apply andb_true_iff. split.
      + apply Z.leb_le. apply Z.leb_le in B1. lia.
      + unfold merge_len_hi. destruct th as [a|]; [|reflexivity]. destruct fh as [b|]; [|reflexivity].
        apply Z.leb_le. apply Z.leb_le in B2. lia. }
  destruct (is_collection rt) eqn:Crt.
  - apply finish_len_gs; try assumption.
    intros Nrf. assert (Nx : null_shape x = false).
    { destruct (null_shape x) eqn:Nx; [|reflexivity]. exfalso.
      destruct P as [[-> _]|E]; [congruence|]. unfold conv in E. rewrite (convert_null_fwd _ _ _ _ E Nx) in Nrf. discriminate. }
    destruct (Facts Nx) as [Sh B]. rewrite (Lr eq_refl Sh). exact B.
  - rewrite (finish_noncoll rt (mkRefn nnb [] None None (Z.min tl fl) (merge_len_hi th fh)) Crt eq_refl). simpl. unfold conc. rewrite Wr, Tr, conf_refl. simpl.
    destruct r; try reflexivity; simpl in *.
    + destruct nnb; [specialize (NN eq_refl); discriminate|reflexivity].
    + subst rt. discriminate.
    + subst rt. discriminate.
    + subst rt. discriminate.
Qed.
