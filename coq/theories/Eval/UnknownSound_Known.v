(* Eval/UnknownSound_Known.v — C05, converse part: an error-free evaluation in a scope
   without unknown values never produces an unknown value (whole language).

   [good v] = wholly known and mark-normal (UnknownSound_Base.v).  Every error path of the
   model that returns dyn_val / VUnk comes with an error (or S_Unsupported) diagnostic;
   that is what the per-construct lemmas below establish. *)
From Coq Require Import QArith Qreduction.
From HclV Require Import Base.Prelude Cty.Values Cty.Convert Cty.Ops Eval.Impl Eval.Funcs
                         Eval.UnknownSound_Base.
Open Scope Z_scope.

(* ---- hypotheses of the theorem --------------------------------------------------------- *)
(* literals and traversal keys of the expression are wholly known; the anonymous symbol is
   only used where it is bound ([bound] = an anon value is supplied, or we are inside the
   "each" part of a splat) *)
Definition step_ok (s : step) : bool := match s with SAttr _ => true | SIndex k => good k end.
Definition opt_ok {A} (f : A -> bool) (o : option A) : bool := match o with Some x => f x | None => true end.

Fixpoint expr_ok (bound : bool) (e : expr) : bool :=
  match e with
  | ELit v => good v
  | EScopeTrav _ steps => forallb step_ok steps
  | ERelTrav s steps => expr_ok bound s && forallb step_ok steps
  | ECall _ args _ => forallb (expr_ok bound) args
  | ECond a b c => expr_ok bound a && expr_ok bound b && expr_ok bound c
  | EIndex a b => expr_ok bound a && expr_ok bound b
  | ETuple es => forallb (expr_ok bound) es
  | EObj items => forallb (fun it => expr_ok bound (fst it) && expr_ok bound (snd it)) items
  | EObjKey w _ => expr_ok bound w
  | EFor _ _ coll key vl cond _ =>
      expr_ok bound coll && opt_ok (expr_ok bound) key && expr_ok bound vl && opt_ok (expr_ok bound) cond
  | ESplat s each => expr_ok bound s && expr_ok true each
  | EAnon => bound
  | EBin _ l r => expr_ok bound l && expr_ok bound r
  | EUn _ x => expr_ok bound x
  | ETmpl ps => forallb (expr_ok bound) ps
  | EJoin t | EWrap t | EParen t => expr_ok bound t
  end.

Definition is_some {A} (o : option A) : bool := match o with Some _ => true | None => false end.
Definition anon_good (a : option val) : Prop := forall v, a = Some v -> good v = true.

(* contract for the functions of the context: wholly known arguments give a wholly known
   result; a parameter of dynamic type that accepts null also accepts dynamically typed
   arguments (otherwise a literal null makes go-cty return DynamicVal: see
   [fn_null_dyn_refuted]) *)
Definition param_sane (p : fparam) : Prop := p_ty p = TDyn -> p_null p = true -> p_dyn p = true.
Definition fn_known (f : fn) : Prop :=
  (forall args rt v, Forall (fun a => good a = true) args -> f_impl f args rt = OOk v -> good v = true)
  /\ Forall param_sane (f_params f)
  /\ (forall p, f_varparam f = Some p -> param_sane p).

Definition frame_good (fr : frame) : Prop :=
  (forall vs, fvars fr = Some vs -> Forall (fun p => good (snd p) = true) vs) /\
  (forall fs, ffuncs fr = Some fs -> Forall (fun p => fn_known (snd p)) fs).
Definition ctx_good (c : ctx) : Prop := Forall frame_good c.

(* ---- values: small facts ----------------------------------------------------------------- *)
Lemma good_dyn_val : good dyn_val = false. Proof. reflexivity. Qed.

Lemma good_not_null_type v : good v = true -> is_null v = false -> type_of v <> TDyn.
Proof. intros G N T. rewrite (good_dyn_is_null v G T) in N. discriminate. Qed.

Lemma assoc_get_good {A} (Q : A -> Prop) k (l : list (list Z * A)) v :
  Forall (fun p => Q (snd p)) l -> assoc_get k l = Some v -> Q v.
Proof.
  intros F E. apply assoc_get_In in E as [k' Hin]. rewrite Forall_forall in F. apply (F (k', v) Hin).
Qed.

Lemma nth_opt_In {A} (l : list A) n x : nth_opt l n = Some x -> In x l.
Proof.
  revert n. induction l as [|y r IH]; intros [|n]; simpl; try discriminate.
  - intros E. inversion E. left. reflexivity.
  - intros E. right. apply (IH n E).
Qed.

Lemma good_unmark_fst v : good v = true -> good (fst (unmark v)) = true /\ is_marked (fst (unmark v)) = false.
Proof. intros G. destruct (unmark v) as [u m] eqn:E. simpl. apply (good_unmark v u m G E). Qed.

(* ---- hcl.Index --------------------------------------------------------------------------- *)
Lemma index_known_good cu ku v :
  good cu = true -> index_known cu ku = Some v -> good v = true.
Proof.
  intros G E. destruct cu; try (discriminate G); simpl in E; try discriminate; destruct ku; try discriminate.
  - (* VList, VNum *) destruct (index_of_num n); [|discriminate].
    apply nth_opt_In in E. apply good_VList in G. rewrite Forall_forall in G. auto.
  - (* VMap, VStr *) apply good_VMap in G. apply (assoc_get_good (fun v => good v = true) _ _ _ G E).
  - (* VTuple *) destruct (index_of_num n); [|discriminate].
    apply nth_opt_In in E. apply good_VTuple in G. rewrite Forall_forall in G. auto.
Qed.

Lemma has_index_good cu ku : good cu = true -> good ku = true -> has_index cu ku <> HUnknown.
Proof.
  intros Gc Gk. unfold has_index.
  destruct (type_of cu); try discriminate.
  - destruct ku; try discriminate. destruct cu; try discriminate.
    destruct (index_of_num n); [destruct (_ <? _)%nat|]; discriminate.
  - destruct ku; try discriminate. destruct cu; try discriminate.
    destruct (assoc_get s l); discriminate.
  - destruct ku; try discriminate.
    destruct (index_of_num n); [destruct (_ <? _)%nat|]; discriminate.
Qed.

Lemma index_good coll key v ds :
  good coll = true -> good key = true -> index coll key = (v, ds) -> diag_ok ds = true -> good v = true.
Proof.
  intros Gc Gk E D. unfold index in E.
  destruct (is_null coll) eqn:Nc; [pair_bad E|].
  destruct (is_null key) eqn:Nk; [pair_bad E|].
  pose proof (good_not_null_type _ Gc Nc) as Tc. pose proof (good_not_null_type _ Gk Nk) as Tk.
  apply ty_eqb_neq in Tc, Tk. rewrite Tc, Tk in E. cbn [orb] in E.
  assert (Core : forall want,
            match conv key want with
            | CUnsupported => (dyn_val, [dunsupported])
            | CErr e => (dyn_val, [derr S_InvalidIndex [FConv e]])
            | COk key' =>
                let '(cu, cm) := unmark coll in
                let '(ku, km) := unmark key' in
                match has_index cu ku with
                | HUnknown =>
                    match type_of coll with
                    | TTuple _ => (with_marks (with_same_marks dyn_val coll) km, [])
                    | TList et | TMap et => (with_marks (with_same_marks (VUnk et rf_none) coll) km, [])
                    | _ => (dyn_val, [dunsupported])
                    end
                | HFalse => (dyn_val, [derr S_InvalidIndex []])
                | HTrue =>
                    match index_known cu ku with
                    | Some v => (with_marks (with_marks v cm) km, [])
                    | None => (dyn_val, [dunsupported])
                    end
                end
            end = (v, ds) -> good v = true).
  { intros want E'. destruct (conv key want) as [key'| |] eqn:Ek; try (pair_bad E').
    pose proof (conv_good _ _ _ Gk Ek) as Gk'.
    destruct (unmark coll) as [cu cm] eqn:Uc. destruct (unmark key') as [ku km] eqn:Uk.
    destruct (good_unmark _ _ _ Gc Uc) as [Gcu _]. destruct (good_unmark _ _ _ Gk' Uk) as [Gku _].
    destruct (has_index cu ku) eqn:Hi.
    - destruct (index_known cu ku) eqn:Ik; [|pair_bad E'].
      inversion E'; subst. apply good_with_marks, good_with_marks. apply (index_known_good _ _ _ Gcu Ik).
    - pair_bad E'.
    - exfalso. apply (has_index_good cu ku Gcu Gku Hi). }
  destruct (type_of coll) eqn:Tyc; try (pair_bad E).
  - apply (Core TNum). exact E.
  - apply (Core TStr). exact E.
  - apply (Core TNum). exact E.
  - (* object *)
    destruct (conv key TStr) as [key'| |] eqn:Ek; try (pair_bad E).
    pose proof (conv_good _ _ _ Gk Ek) as Gk'.
    rewrite (good_is_known _ Gk') in E. cbn [negb] in E.
    destruct (fst (unmark key')); try (pair_bad E).
    destruct (assoc_get s fs); [|pair_bad E].
    rewrite (good_is_known _ Gc) in E. cbn [negb] in E.
    destruct (unmark coll) as [cu cm] eqn:Uc. destruct (good_unmark _ _ _ Gc Uc) as [Gcu _].
    destruct cu; try (pair_bad E).
    destruct (assoc_get s l) eqn:Ea; [|pair_bad E].
    inversion E; subst. apply good_with_marks. apply good_VObj in Gcu.
    apply (assoc_get_good (fun v => good v = true) _ _ _ Gcu Ea).
Qed.

(* ---- hcl.GetAttr ------------------------------------------------------------------------- *)
Lemma get_attr_good obj name v ds :
  good obj = true -> get_attr obj name = (v, ds) -> diag_ok ds = true -> good v = true.
Proof.
  intros G E D. unfold get_attr in E.
  destruct (is_null obj) eqn:N; [pair_bad E|].
  pose proof (good_not_null_type _ G N) as T.
  destruct (type_of obj) eqn:Ty; try (pair_bad E); try congruence.
  - destruct t; pair_bad E.
  - destruct t; pair_bad E.
  - rewrite (good_is_known _ G) in E. cbn [negb] in E.
    destruct (unmark obj) as [ou om] eqn:U. destruct (good_unmark _ _ _ G U) as [Gou _].
    destruct ou; try (pair_bad E).
    destruct (assoc_get name l) eqn:Ea; [|pair_bad E].
    injection E as <- <-. apply good_with_marks. apply good_VMap in Gou.
    apply (assoc_get_good (fun v => good v = true) _ _ _ Gou Ea).
  - destruct (assoc_get name fs); [|pair_bad E].
    rewrite (good_is_known _ G) in E. cbn [negb] in E.
    destruct (unmark obj) as [ou om] eqn:U. destruct (good_unmark _ _ _ G U) as [Gou _].
    destruct ou; try (pair_bad E).
    destruct (assoc_get name l) eqn:Ea; [|pair_bad E].
    injection E as <- <-. apply good_with_marks. apply good_VObj in Gou.
    apply (assoc_get_good (fun v => good v = true) _ _ _ Gou Ea).
Qed.

(* ---- traversals -------------------------------------------------------------------------- *)
Lemma traverse_rel_acc_ok : forall steps v acc r ds,
  traverse_rel steps v acc = (r, ds) -> diag_ok ds = true -> diag_ok acc = true.
Proof.
  induction steps as [|s rest IH]; intros v acc r ds E D; simpl in E.
  - injection E as _ <-. assumption.
  - destruct (match s with SAttr n => get_attr v n | SIndex k => index v k end) as [v' sds].
    destruct (has_errors sds).
    + injection E as _ <-. rewrite diag_ok_app in D. apply andb_true_iff in D as [D _]. assumption.
    + apply IH in E; [|assumption]. rewrite diag_ok_app in E. apply andb_true_iff in E as [E _]. assumption.
Qed.

Lemma traverse_rel_good : forall steps v acc r ds,
  forallb step_ok steps = true -> good v = true ->
  traverse_rel steps v acc = (r, ds) -> diag_ok ds = true -> good r = true.
Proof.
  induction steps as [|s rest IH]; intros v acc r ds So G E D; simpl in E.
  - injection E as <- <-. assumption.
  - simpl in So. apply andb_true_iff in So as [So1 So2].
    destruct (match s with SAttr n => get_attr v n | SIndex k => index v k end) as [v' sds] eqn:Es.
    destruct (has_errors sds) eqn:He.
    + injection E as <- <-. rewrite diag_ok_app in D. apply andb_true_iff in D as [_ D].
      unfold diag_ok in D. rewrite He in D. discriminate.
    + pose proof (traverse_rel_acc_ok _ _ _ _ _ E D) as Dacc.
      rewrite diag_ok_app in Dacc. apply andb_true_iff in Dacc as [_ Ds].
      apply (IH v' (acc ++ sds) r ds So2); try assumption.
      destruct s as [n|k]; simpl in So1.
      * apply (get_attr_good v n v' sds G Es Ds).
      * apply (index_good v k v' sds G So1 Es Ds).
Qed.

Lemma lookup_var_good : forall c name b v b',
  ctx_good c -> lookup_var c name b = (Some v, b') -> good v = true.
Proof.
  induction c as [|fr r IH]; intros name b v b' C E; simpl in E; [discriminate|].
  inversion C as [|? ? Hf Hr]; subst.
  destruct (fvars fr) as [vs|] eqn:Ev.
  - destruct (assoc_get name vs) eqn:Ea.
    + injection E as <- _. destruct Hf as [Hv _].
      apply (assoc_get_good (fun v => good v = true) _ _ _ (Hv vs Ev) Ea).
    + apply (IH name true v b' Hr E).
  - apply (IH name b v b' Hr E).
Qed.

Lemma traverse_abs_good c root steps v ds :
  ctx_good c -> forallb step_ok steps = true ->
  traverse_abs c root steps = (v, ds) -> diag_ok ds = true -> good v = true.
Proof.
  intros C So E D. unfold traverse_abs in E.
  destruct (lookup_var c root false) as [[x|] [|]] eqn:El; try (pair_bad E).
  - apply (traverse_rel_good steps x [] v ds So (lookup_var_good _ _ _ _ _ C El) E D).
  - apply (traverse_rel_good steps x [] v ds So (lookup_var_good _ _ _ _ _ C El) E D).
Qed.

Lemma lookup_fn_known : forall c name b f b',
  ctx_good c -> lookup_fn c name b = (Some f, b') -> fn_known f.
Proof.
  induction c as [|fr r IH]; intros name b f b' C E; simpl in E; [discriminate|].
  inversion C as [|? ? Hf Hr]; subst.
  destruct (ffuncs fr) as [fs|] eqn:Ev.
  - destruct (assoc_get name fs) eqn:Ea.
    + injection E as <- _. destruct Hf as [_ Hv].
      apply (assoc_get_good fn_known _ _ _ (Hv fs Ev) Ea).
    + apply (IH name true f b' Hr E).
  - apply (IH name b f b' Hr E).
Qed.

(* ---- operators ---------------------------------------------------------------------------- *)
Lemma call_unop_good op u r :
  good u = true -> is_marked u = false -> type_of u = unop_param op ->
  call_unop op u = OOk r -> good r = true.
Proof.
  intros G M T E. destruct op; simpl in T.
  - destruct (good_bool_shape u G M T) as [[b ->]| ->]; simpl in E; inversion E; reflexivity.
  - destruct (good_num_shape u G M T) as [[n ->]| ->]; simpl in E; inversion E; reflexivity.
Qed.

(* the generic branch of [equals] (both operands known at top level, not null, not marked) *)
Definition all_eq (f : nat) (ps : list (val * val)) : ores :=
  fold_left (fun acc p =>
    match acc with
    | OOk (VBool true) =>
        match equals f (fst p) (snd p) with
        | OOk (VBool true) => OOk (VBool true)
        | other => other
        end
    | other => other
    end) ps (OOk (VBool true)).

Definition equals_gen (f : nat) (a b : val) : ores :=
  if negb (wholly_known a && wholly_known b) || has_dyn (type_of a) || has_dyn (type_of b)
  then
    (if ty_eqb (type_of a) (type_of b) && negb (has_dyn (type_of a)) then
       match a, b with
       | VTuple la, VTuple lb => if (length la =? length lb)%nat then all_eq f (combine la lb) else OOk (VBool false)
       | VList _ la, VList _ lb => if (length la =? length lb)%nat then all_eq f (combine la lb) else OOk (VBool false)
       | VObj la, VObj lb => all_eq f (combine (map snd la) (map snd lb))
       | VMap _ la, VMap _ lb =>
           if (length la =? length lb)%nat && list_eqb str_eqb (map fst la) (map fst lb)
           then all_eq f (combine (map snd la) (map snd lb)) else OOk (VBool false)
       | _, _ => OUnsupported
       end
     else OUnsupported)
  else if negb (ty_eqb (type_of a) (type_of b)) then OOk (VBool false)
  else OOk (VBool (val_eqb a b)).

Definition plain (v : val) : bool :=
  match v with VMark _ _ | VUnk _ _ | VNull _ => false | _ => true end.

Lemma equals_S_gen f a b : plain a = true -> plain b = true -> equals (S f) a b = equals_gen f a b.
Proof.
  intros Pa Pb. destruct a; try discriminate Pa; destruct b; try discriminate Pb; reflexivity.
Qed.

Lemma equals_good : forall f a b r,
  good a = true -> good b = true -> is_marked a = false -> is_marked b = false ->
  equals f a b = OOk r -> good r = true.
Proof.
  intros f a b r Ga Gb Ma Mb E. destruct f as [|f]; [discriminate|].
  destruct (plain a) eqn:Pa; [destruct (plain b) eqn:Pb|].
  - rewrite (equals_S_gen f a b Pa Pb) in E. unfold equals_gen in E.
    apply good_iff in Ga as [Wa _]. apply good_iff in Gb as [Wb _]. rewrite Wa, Wb in E.
    cbn [andb negb orb] in E.
    destruct (has_dyn (type_of a) || has_dyn (type_of b)) eqn:C1.
    + destruct (ty_eqb (type_of a) (type_of b)) eqn:C2; [|discriminate].
      destruct (has_dyn (type_of a)) eqn:C3; [discriminate|].
      apply ty_eqb_eq in C2. rewrite <- C2, C3 in C1. discriminate.
    + destruct (negb (ty_eqb (type_of a) (type_of b))); inversion E; reflexivity.
  - destruct b; try discriminate; destruct a; try discriminate; simpl in E; inversion E; reflexivity.
  - destruct a; try discriminate; destruct b; try discriminate; simpl in E; inversion E; reflexivity.
Qed.

Lemma lift_marks_good m o r : lift_marks m o = OOk r -> exists r', o = OOk r' /\ r = with_marks r' m.
Proof. destruct o; simpl; intros E; inversion E. eexists. split; reflexivity. Qed.

Lemma call_binop_good op a b r :
  good a = true -> good b = true -> is_marked a = false -> is_marked b = false ->
  (binop_param op <> TDyn -> type_of a = binop_param op /\ type_of b = binop_param op) ->
  call_binop op a b = OOk r -> good r = true.
Proof.
  intros Ga Gb Ma Mb T E.
  assert (EqCase : forall o : binop,
            lift_marks (marks_union (deep_marks a) (deep_marks b))
              (match o, equals (S (val_size (unmark_deep a) + val_size (unmark_deep b))) (unmark_deep a) (unmark_deep b) with
               | OpNe, OOk (VBool x) => OOk (VBool (negb x))
               | _, r0 => r0 end) = OOk r -> good r = true).
  { intros o E'. apply lift_marks_good in E' as [r' [E' ->]]. apply good_with_marks.
    destruct (equals (S (val_size (unmark_deep a) + val_size (unmark_deep b))) (unmark_deep a) (unmark_deep b)) as [v| |] eqn:Ee.
    - pose proof (equals_good _ _ _ _ (unmark_deep_good _ Ga) (unmark_deep_good _ Gb)
                    (unmark_deep_not_marked a) (unmark_deep_not_marked b) Ee) as Gv.
      destruct o, v; simpl in E'. Show. all: inversion E'; subst; try exact Gv; reflexivity.
    - destruct o; discriminate.
    - destruct o; discriminate. }
  destruct op; try (apply (EqCase OpEq); exact E); try (apply (EqCase OpNe); exact E);
    destruct (T ltac:(discriminate)) as [Ta Tb]; simpl in Ta, Tb.
  1,2: destruct (good_bool_shape a Ga Ma Ta) as [[x ->]| ->];
       destruct (good_bool_shape b Gb Mb Tb) as [[y ->]| ->]; simpl in E; inversion E; reflexivity.
  all: destruct (good_num_shape a Ga Ma Ta) as [[x ->]| ->];
       destruct (good_num_shape b Gb Mb Tb) as [[y ->]| ->]; simpl in E; try discriminate;
       try (inversion E; reflexivity).
  all: match type of E with match ?o with _ => _ end = _ => destruct o end; inversion E; reflexivity.
Qed.
