(* Eval/UnknownSound_Known.v — C05, converse part: an error-free evaluation in a scope
   without unknown values never produces an unknown value (whole language).

   [good v] = wholly known and mark-normal (UnknownSound_Base.v).  Every error path of the
   model that returns dyn_val / VUnk comes with an error (or S_Unsupported) diagnostic;
   that is what the per-construct lemmas below establish. *)
From Coq Require Import QArith Qreduction.
From HclV Require Import Base.Prelude Cty.Values Cty.Convert Cty.Ops Eval.Impl Eval.Funcs
                         Eval.UnknownSound_Base.
Open Scope Z_scope.

(* ---- hypotheses of the theorem --------------------------------------------------------- *)
(* literals and traversal keys of the expression are wholly known; the anonymous symbol is
   only used where it is bound ([bound] = an anon value is supplied, or we are inside the
   "each" part of a splat) *)
Definition step_ok (s : step) : bool := match s with SAttr _ => true | SIndex k => good k end.
Definition opt_ok {A} (f : A -> bool) (o : option A) : bool := match o with Some x => f x | None => true end.

Fixpoint expr_ok (bound : bool) (e : expr) : bool :=
  match e with
  | ELit v => good v
  | EScopeTrav _ steps => forallb step_ok steps
  | ERelTrav s steps => expr_ok bound s && forallb step_ok steps
  | ECall _ args _ => forallb (expr_ok bound) args
  | ECond a b c => expr_ok bound a && expr_ok bound b && expr_ok bound c
  | EIndex a b => expr_ok bound a && expr_ok bound b
  | ETuple es => forallb (expr_ok bound) es
  | EObj items => forallb (fun it => expr_ok bound (fst it) && expr_ok bound (snd it)) items
  | EObjKey w _ => expr_ok bound w
  | EFor _ _ coll key vl cond _ =>
      expr_ok bound coll && opt_ok (expr_ok bound) key && expr_ok bound vl && opt_ok (expr_ok bound) cond
  | ESplat s each => expr_ok bound s && expr_ok true each
  | EAnon => bound
  | EBin _ l r => expr_ok bound l && expr_ok bound r
  | EUn _ x => expr_ok bound x
  | ETmpl ps => forallb (expr_ok bound) ps
  | EJoin t => expr_ok bound t && match t with EFor _ _ _ _ _ _ _ => true | _ => false end
  | EWrap t | EParen t => expr_ok bound t
  end.

Definition is_some {A} (o : option A) : bool := match o with Some _ => true | None => false end.
Definition anon_good (a : option val) : Prop := forall v, a = Some v -> good v = true.

(* EJoin (TemplateJoinExpr) is only ever built by the parser around a [for] expression; the
   restriction matters: with a null tuple Go panics and the model answers an unknown string
   (see [join_null_not_modelled]). *)

(* contract for the functions of the context: wholly known arguments give a wholly known
   result; a parameter of dynamic type that accepts null also accepts dynamically typed
   arguments (otherwise a literal null makes go-cty return DynamicVal: see
   [fn_null_dyn_refuted]) *)
Definition param_sane (p : fparam) : Prop := p_ty p = TDyn -> p_null p = true -> p_dyn p = true.
Definition fn_known (f : fn) : Prop :=
  (forall args rt v, Forall (fun a => good a = true) args -> f_impl f args rt = OOk v -> good v = true)
  /\ Forall param_sane (f_params f)
  /\ (forall p, f_varparam f = Some p -> param_sane p).

Definition frame_good (fr : frame) : Prop :=
  (forall vs, fvars fr = Some vs -> Forall (fun p => good (snd p) = true) vs) /\
  (forall fs, ffuncs fr = Some fs -> Forall (fun p => fn_known (snd p)) fs).
Definition ctx_good (c : ctx) : Prop := Forall frame_good c.

(* ---- values: small facts ----------------------------------------------------------------- *)
Lemma good_dyn_val : good dyn_val = false. Proof. reflexivity. Qed.

Lemma good_not_null_type v : good v = true -> is_null v = false -> type_of v <> TDyn.
Proof. intros G N T. rewrite (good_dyn_is_null v G T) in N. discriminate. Qed.

Lemma assoc_get_good {A} (Q : A -> Prop) k (l : list (list Z * A)) v :
  Forall (fun p => Q (snd p)) l -> assoc_get k l = Some v -> Q v.
Proof.
  intros F E. apply assoc_get_In in E as [k' Hin]. rewrite Forall_forall in F. apply (F (k', v) Hin).
Qed.

Lemma nth_opt_In {A} (l : list A) n x : nth_opt l n = Some x -> In x l.
Proof.
  revert n. induction l as [|y r IH]; intros [|n]; simpl; try discriminate.
  - intros E. inversion E. left. reflexivity.
  - intros E. right. apply (IH n E).
Qed.

Lemma good_unmark_fst v : good v = true -> good (fst (unmark v)) = true /\ is_marked (fst (unmark v)) = false.
Proof. intros G. destruct (unmark v) as [u m] eqn:E. simpl. apply (good_unmark v u m G E). Qed.

(* ---- hcl.Index --------------------------------------------------------------------------- *)
Lemma index_known_good cu ku v :
  good cu = true -> index_known cu ku = Some v -> good v = true.
Proof.
  intros G E. destruct cu; try (discriminate G); simpl in E; try discriminate; destruct ku; try discriminate.
  - (* VList, VNum *) destruct (index_of_num n); [|discriminate].
    apply nth_opt_In in E. apply good_VList in G. rewrite Forall_forall in G. auto.
  - (* VMap, VStr *) apply good_VMap in G. apply (assoc_get_good (fun v => good v = true) _ _ _ G E).
  - (* VTuple *) destruct (index_of_num n); [|discriminate].
    apply nth_opt_In in E. apply good_VTuple in G. rewrite Forall_forall in G. auto.
Qed.

Lemma has_index_good cu ku : good cu = true -> good ku = true -> has_index cu ku <> HUnknown.
Proof.
  intros Gc Gk. unfold has_index.
  destruct (type_of cu); try discriminate.
  - destruct ku; try discriminate. destruct cu; try discriminate.
    destruct (index_of_num n); [destruct (_ <? _)%nat|]; discriminate.
  - destruct ku; try discriminate. destruct cu; try discriminate.
    destruct (assoc_get s l); discriminate.
  - destruct ku; try discriminate.
    destruct (index_of_num n); [destruct (_ <? _)%nat|]; discriminate.
Qed.

Lemma index_good coll key v ds :
  good coll = true -> good key = true -> index coll key = (v, ds) -> diag_ok ds = true -> good v = true.
Proof.
  intros Gc Gk E D. unfold index in E.
  destruct (is_null coll) eqn:Nc; [pair_bad E|].
  destruct (is_null key) eqn:Nk; [pair_bad E|].
  pose proof (good_not_null_type _ Gc Nc) as Tc. pose proof (good_not_null_type _ Gk Nk) as Tk.
  apply ty_eqb_neq in Tc, Tk. rewrite Tc, Tk in E. cbn [orb] in E.
  assert (Core : forall want,
            match conv key want with
            | CUnsupported => (dyn_val, [dunsupported])
            | CErr e => (dyn_val, [derr S_InvalidIndex [FConv e]])
            | COk key' =>
                let '(cu, cm) := unmark coll in
                let '(ku, km) := unmark key' in
                match has_index cu ku with
                | HUnknown =>
                    match type_of coll with
                    | TTuple _ => (with_marks (with_same_marks dyn_val coll) km, [])
                    | TList et | TMap et => (with_marks (with_same_marks (VUnk et rf_none) coll) km, [])
                    | _ => (dyn_val, [dunsupported])
                    end
                | HFalse => (dyn_val, [derr S_InvalidIndex []])
                | HTrue =>
                    match index_known cu ku with
                    | Some v => (with_marks (with_marks v cm) km, [])
                    | None => (dyn_val, [dunsupported])
                    end
                end
            end = (v, ds) -> good v = true).
  { intros want E'. destruct (conv key want) as [key'| |] eqn:Ek; try (pair_bad E').
    pose proof (conv_good _ _ _ Gk Ek) as Gk'.
    destruct (unmark coll) as [cu cm] eqn:Uc. destruct (unmark key') as [ku km] eqn:Uk.
    destruct (good_unmark _ _ _ Gc Uc) as [Gcu _]. destruct (good_unmark _ _ _ Gk' Uk) as [Gku _].
    destruct (has_index cu ku) eqn:Hi.
    - destruct (index_known cu ku) eqn:Ik; [|pair_bad E'].
      inversion E'; subst. apply good_with_marks, good_with_marks. apply (index_known_good _ _ _ Gcu Ik).
    - pair_bad E'.
    - exfalso. apply (has_index_good cu ku Gcu Gku Hi). }
  destruct (type_of coll) eqn:Tyc; try (pair_bad E).
  - apply (Core TNum). exact E.
  - apply (Core TStr). exact E.
  - apply (Core TNum). exact E.
  - (* object *)
    destruct (conv key TStr) as [key'| |] eqn:Ek; try (pair_bad E).
    pose proof (conv_good _ _ _ Gk Ek) as Gk'.
    rewrite (good_is_known _ Gk') in E. cbn [negb] in E.
    destruct (fst (unmark key')); try (pair_bad E).
    destruct (assoc_get s fs); [|pair_bad E].
    rewrite (good_is_known _ Gc) in E. cbn [negb] in E.
    destruct (unmark coll) as [cu cm] eqn:Uc. destruct (good_unmark _ _ _ Gc Uc) as [Gcu _].
    destruct cu; try (pair_bad E).
    destruct (assoc_get s l) eqn:Ea; [|pair_bad E].
    inversion E; subst. apply good_with_marks. apply good_VObj in Gcu.
    apply (assoc_get_good (fun v => good v = true) _ _ _ Gcu Ea).
Qed.

(* ---- hcl.GetAttr ------------------------------------------------------------------------- *)
Lemma get_attr_good obj name v ds :
  good obj = true -> get_attr obj name = (v, ds) -> diag_ok ds = true -> good v = true.
Proof.
  intros G E D. unfold get_attr in E.
  destruct (is_null obj) eqn:N; [pair_bad E|].
  pose proof (good_not_null_type _ G N) as T.
  destruct (type_of obj) eqn:Ty; try (pair_bad E); try congruence.
  - destruct t; pair_bad E.
  - destruct t; pair_bad E.
  - rewrite (good_is_known _ G) in E. cbn [negb] in E.
    destruct (unmark obj) as [ou om] eqn:U. destruct (good_unmark _ _ _ G U) as [Gou _].
    destruct ou; try (pair_bad E).
    destruct (assoc_get name l) eqn:Ea; [|pair_bad E].
    injection E as <- <-. apply good_with_marks. apply good_VMap in Gou.
    apply (assoc_get_good (fun v => good v = true) _ _ _ Gou Ea).
  - destruct (assoc_get name fs); [|pair_bad E].
    rewrite (good_is_known _ G) in E. cbn [negb] in E.
    destruct (unmark obj) as [ou om] eqn:U. destruct (good_unmark _ _ _ G U) as [Gou _].
    destruct ou; try (pair_bad E).
    destruct (assoc_get name l) eqn:Ea; [|pair_bad E].
    injection E as <- <-. apply good_with_marks. apply good_VObj in Gou.
    apply (assoc_get_good (fun v => good v = true) _ _ _ Gou Ea).
Qed.

(* ---- traversals -------------------------------------------------------------------------- *)
Lemma traverse_rel_acc_ok : forall steps v acc r ds,
  traverse_rel steps v acc = (r, ds) -> diag_ok ds = true -> diag_ok acc = true.
Proof.
  induction steps as [|s rest IH]; intros v acc r ds E D; simpl in E.
  - injection E as _ <-. assumption.
  - destruct (match s with SAttr n => get_attr v n | SIndex k => index v k end) as [v' sds].
    destruct (has_errors sds).
    + injection E as _ <-. rewrite diag_ok_app in D. apply andb_true_iff in D as [D _]. assumption.
    + apply IH in E; [|assumption]. rewrite diag_ok_app in E. apply andb_true_iff in E as [E _]. assumption.
Qed.

Lemma traverse_rel_good : forall steps v acc r ds,
  forallb step_ok steps = true -> good v = true ->
  traverse_rel steps v acc = (r, ds) -> diag_ok ds = true -> good r = true.
Proof.
  induction steps as [|s rest IH]; intros v acc r ds So G E D; simpl in E.
  - injection E as <- <-. assumption.
  - simpl in So. apply andb_true_iff in So as [So1 So2].
    destruct (match s with SAttr n => get_attr v n | SIndex k => index v k end) as [v' sds] eqn:Es.
    destruct (has_errors sds) eqn:He.
    + injection E as <- <-. rewrite diag_ok_app in D. apply andb_true_iff in D as [_ D].
      unfold diag_ok in D. rewrite He in D. discriminate.
    + pose proof (traverse_rel_acc_ok _ _ _ _ _ E D) as Dacc.
      rewrite diag_ok_app in Dacc. apply andb_true_iff in Dacc as [_ Ds].
      apply (IH v' (acc ++ sds) r ds So2); try assumption.
      destruct s as [n|k]; simpl in So1.
      * apply (get_attr_good v n v' sds G Es Ds).
      * apply (index_good v k v' sds G So1 Es Ds).
Qed.

Lemma lookup_var_good : forall c name b v b',
  ctx_good c -> lookup_var c name b = (Some v, b') -> good v = true.
Proof.
  induction c as [|fr r IH]; intros name b v b' C E; simpl in E; [discriminate|].
  inversion C as [|? ? Hf Hr]; subst.
  destruct (fvars fr) as [vs|] eqn:Ev.
  - destruct (assoc_get name vs) eqn:Ea.
    + injection E as <- _. destruct Hf as [Hv _].
      apply (assoc_get_good (fun v => good v = true) _ _ _ (Hv vs Ev) Ea).
    + apply (IH name true v b' Hr E).
  - apply (IH name b v b' Hr E).
Qed.

Lemma traverse_abs_good c root steps v ds :
  ctx_good c -> forallb step_ok steps = true ->
  traverse_abs c root steps = (v, ds) -> diag_ok ds = true -> good v = true.
Proof.
  intros C So E D. unfold traverse_abs in E.
  destruct (lookup_var c root false) as [[x|] [|]] eqn:El; try (pair_bad E).
  - apply (traverse_rel_good steps x [] v ds So (lookup_var_good _ _ _ _ _ C El) E D).
  - apply (traverse_rel_good steps x [] v ds So (lookup_var_good _ _ _ _ _ C El) E D).
Qed.

Lemma lookup_fn_known : forall c name b f b',
  ctx_good c -> lookup_fn c name b = (Some f, b') -> fn_known f.
Proof.
  induction c as [|fr r IH]; intros name b f b' C E; simpl in E; [discriminate|].
  inversion C as [|? ? Hf Hr]; subst.
  destruct (ffuncs fr) as [fs|] eqn:Ev.
  - destruct (assoc_get name fs) eqn:Ea.
    + injection E as <- _. destruct Hf as [_ Hv].
      apply (assoc_get_good fn_known _ _ _ (Hv fs Ev) Ea).
    + apply (IH name true f b' Hr E).
  - apply (IH name b f b' Hr E).
Qed.

(* ---- operators ---------------------------------------------------------------------------- *)
Lemma call_unop_good op u r :
  good u = true -> is_marked u = false -> type_of u = unop_param op ->
  call_unop op u = OOk r -> good r = true.
Proof.
  intros G M T E. destruct op; simpl in T.
  - destruct (good_bool_shape u G M T) as [[b ->]| ->]; simpl in E; inversion E; reflexivity.
  - destruct (good_num_shape u G M T) as [[n ->]| ->]; simpl in E; inversion E; reflexivity.
Qed.

(* the generic branch of [equals] (both operands known at top level, not null, not marked) *)
Definition all_eq (f : nat) (ps : list (val * val)) : ores :=
  fold_left (fun acc p =>
    match acc with
    | OOk (VBool true) =>
        match equals f (fst p) (snd p) with
        | OOk (VBool true) => OOk (VBool true)
        | other => other
        end
    | other => other
    end) ps (OOk (VBool true)).

Definition equals_gen (f : nat) (a b : val) : ores :=
  if negb (wholly_known a && wholly_known b) || has_dyn (type_of a) || has_dyn (type_of b)
  then
    (if ty_eqb (type_of a) (type_of b) && negb (has_dyn (type_of a)) then
       match a, b with
       | VTuple la, VTuple lb => if (length la =? length lb)%nat then all_eq f (combine la lb) else OOk (VBool false)
       | VList _ la, VList _ lb => if (length la =? length lb)%nat then all_eq f (combine la lb) else OOk (VBool false)
       | VObj la, VObj lb => all_eq f (combine (map snd la) (map snd lb))
       | VMap _ la, VMap _ lb =>
           if (length la =? length lb)%nat && list_eqb str_eqb (map fst la) (map fst lb)
           then all_eq f (combine (map snd la) (map snd lb)) else OOk (VBool false)
       | _, _ => OUnsupported
       end
     else OUnsupported)
  else if negb (ty_eqb (type_of a) (type_of b)) then OOk (VBool false)
  else OOk (VBool (val_eqb a b)).

Definition plain (v : val) : bool :=
  match v with VMark _ _ | VUnk _ _ | VNull _ => false | _ => true end.

Lemma equals_S_gen f a b : plain a = true -> plain b = true -> equals (S f) a b = equals_gen f a b.
Proof.
  intros Pa Pb. destruct a; try discriminate Pa; destruct b; try discriminate Pb; reflexivity.
Qed.

Lemma equals_good : forall f a b r,
  good a = true -> good b = true -> is_marked a = false -> is_marked b = false ->
  equals f a b = OOk r -> good r = true.
Proof.
  intros f a b r Ga Gb Ma Mb E. destruct f as [|f]; [discriminate|].
  destruct (plain a) eqn:Pa; [destruct (plain b) eqn:Pb|].
  - rewrite (equals_S_gen f a b Pa Pb) in E. unfold equals_gen in E.
    apply good_iff in Ga as [Wa _]. apply good_iff in Gb as [Wb _]. rewrite Wa, Wb in E.
    cbn [andb negb orb] in E.
    destruct (has_dyn (type_of a) || has_dyn (type_of b)) eqn:C1.
    + destruct (ty_eqb (type_of a) (type_of b)) eqn:C2; [|discriminate].
      destruct (has_dyn (type_of a)) eqn:C3; [discriminate|].
      apply ty_eqb_eq in C2. rewrite <- C2, C3 in C1. discriminate.
    + destruct (negb (ty_eqb (type_of a) (type_of b))); inversion E; reflexivity.
  - destruct b; try discriminate; destruct a; try discriminate; simpl in E; inversion E; reflexivity.
  - destruct a; try discriminate; destruct b; try discriminate; simpl in E; inversion E; reflexivity.
Qed.

Lemma lift_marks_good m o r : lift_marks m o = OOk r -> exists r', o = OOk r' /\ r = with_marks r' m.
Proof. destruct o; simpl; intros E; inversion E. eexists. split; reflexivity. Qed.

Local Strategy opaque [equals val_size unmark_deep deep_marks].
Definition eq_res (a b : val) : ores :=
  equals (S (val_size (unmark_deep a) + val_size (unmark_deep b))) (unmark_deep a) (unmark_deep b).
Lemma call_binop_eq a b :
  call_binop OpEq a b = lift_marks (marks_union (deep_marks a) (deep_marks b)) (eq_res a b).
Proof. reflexivity. Qed.
Lemma call_binop_ne a b :
  call_binop OpNe a b = lift_marks (marks_union (deep_marks a) (deep_marks b))
    (match eq_res a b with OOk (VBool x) => OOk (VBool (negb x)) | _ => eq_res a b end).
Proof. reflexivity. Qed.

Lemma call_binop_good op a b r :
  good a = true -> good b = true -> is_marked a = false -> is_marked b = false ->
  (binop_param op <> TDyn -> type_of a = binop_param op /\ type_of b = binop_param op) ->
  call_binop op a b = OOk r -> good r = true.
Proof.
  intros Ga Gb Ma Mb T E.
  assert (Heq : forall v, eq_res a b = OOk v -> good v = true).
  { intros v Ee. apply (equals_good _ _ _ _ (unmark_deep_good _ Ga) (unmark_deep_good _ Gb)
                          (unmark_deep_not_marked a) (unmark_deep_not_marked b) Ee). }
  destruct op.
  3: { rewrite call_binop_eq in E.
       destruct (eq_res a b) as [v|e|]; simpl in E; inversion E. apply good_with_marks, Heq. reflexivity. }
  3: { rewrite call_binop_ne in E.
       destruct (eq_res a b) as [v|e|]; [destruct v|..]; simpl in E; inversion E; apply good_with_marks;
         solve [apply Heq; reflexivity | reflexivity]. }
  all: destruct (T ltac:(simpl; discriminate)) as [Ta Tb]; simpl in Ta, Tb; clear Heq.
  1,2: destruct (good_bool_shape a Ga Ma Ta) as [[x ->]| ->];
       destruct (good_bool_shape b Gb Mb Tb) as [[y ->]| ->]; cbn [call_binop] in E; inversion E; reflexivity.
  all: destruct (good_num_shape a Ga Ma Ta) as [[x ->]| ->];
       destruct (good_num_shape b Gb Mb Tb) as [[y ->]| ->]; cbn [call_binop] in E; try discriminate;
       try (inversion E; reflexivity).
  all: match type of E with match ?o with _ => _ end = _ => destruct o end; inversion E; reflexivity.
Qed.

(* ---- the induction --------------------------------------------------------------------- *)
Local Strategy opaque [convert unify_n].
Notation ev_ := (eval_with index).

Definition KI (f : nat) : Prop := forall c anon e v ds,
  ctx_good c -> anon_good anon -> expr_ok (is_some anon) e = true ->
  ev_ f c anon e = (v, ds) -> diag_ok ds = true -> good v = true.

Lemma conv_prim_shape v t r :
  good v = true -> conv v t = COk r -> has_dyn t = false ->
  good (fst (unmark r)) = true /\ is_marked (fst (unmark r)) = false /\ type_of (fst (unmark r)) = t.
Proof.
  intros G E Hd. pose proof (conv_good _ _ _ G E) as Gr. pose proof (conv_type _ _ _ E Hd) as Tr.
  destruct (good_unmark_fst r Gr) as [G1 G2]. repeat split; try assumption.
  rewrite unmark_type. exact Tr.
Qed.

Lemma kiko_un f op e' : KI f -> forall c anon v ds,
  ctx_good c -> anon_good anon -> expr_ok (is_some anon) (EUn op e') = true ->
  ev_ (S f) c anon (EUn op e') = (v, ds) -> diag_ok ds = true -> good v = true.
Proof.
  intros IH c anon v ds C A Ok E D. cbn [eval_with] in E. simpl in Ok.
  destruct (ev_ f c anon e') as [gv eds] eqn:Ee.
  destruct (conv gv (unop_param op)) as [cv|ce|] eqn:Ec.
  - destruct (has_errors eds) eqn:He.
    + injection E as <- <-. unfold diag_ok in D. rewrite He in D. discriminate.
    + destruct (unmark cv) as [vu vm] eqn:Eu.
      destruct (call_unop op vu) as [r|oe|] eqn:Eo.
      * injection E as <- <-. apply good_with_marks.
        pose proof (IH c anon e' gv eds C A Ok Ee D) as Ggv.
        assert (Hd : has_dyn (unop_param op) = false) by (destruct op; reflexivity).
        destruct (conv_prim_shape _ _ _ Ggv Ec Hd) as [G1 [G2 G3]]. rewrite Eu in *. simpl in *.
        apply (call_unop_good op vu r G1 G2 G3 Eo).
      * injection E as <- <-. rewrite diag_ok_app in D. apply andb_true_iff in D as [_ D]. discriminate.
      * injection E as <- <-. rewrite diag_ok_app in D. apply andb_true_iff in D as [_ D]. discriminate.
  - injection E as <- <-. rewrite diag_ok_app in D. apply andb_true_iff in D as [_ D]. discriminate.
  - injection E as <- <-. rewrite diag_ok_app in D. apply andb_true_iff in D as [_ D]. discriminate.
Qed.

Lemma binop_param_nodyn op : binop_param op <> TDyn -> has_dyn (binop_param op) = false.
Proof. destruct op; simpl; congruence. Qed.

Lemma conv_operand_facts v op r u m :
  good v = true -> conv v (binop_param op) = COk r -> unmark r = (u, m) ->
  good u = true /\ is_marked u = false /\ (binop_param op <> TDyn -> type_of u = binop_param op).
Proof.
  intros G E U. pose proof (conv_good _ _ _ G E) as Gr.
  destruct (good_unmark _ _ _ Gr U) as [G1 G2]. repeat split; try assumption.
  intros Hd. pose proof (conv_type _ _ _ E (binop_param_nodyn op Hd)) as T.
  rewrite <- (unmark_type r), U in T. exact T.
Qed.

Lemma kiko_bin f op l r : KI f -> forall c anon v ds,
  ctx_good c -> anon_good anon -> expr_ok (is_some anon) (EBin op l r) = true ->
  ev_ (S f) c anon (EBin op l r) = (v, ds) -> diag_ok ds = true -> good v = true.
Proof.
  intros IH c anon v ds C A Ok E D. cbn [eval_with] in E. simpl in Ok.
  apply andb_true_iff in Ok as [Okl Okr].
  destruct (ev_ f c anon l) as [glv lds] eqn:El.
  destruct (ev_ f c anon r) as [grv rds] eqn:Er.
  destruct (has_unsupported lds || has_unsupported rds); [dead E D|].
  destruct (conv glv (binop_param op)) as [lv|lce|] eqn:Ecl.
  2,3: destruct (conv grv (binop_param op)); dead E D.
  destruct (conv grv (binop_param op)) as [rv|rce|] eqn:Ecr.
  2,3: dead E D.
  destruct (unmark lv) as [lu lm] eqn:Ul. destruct (unmark rv) as [ru rm] eqn:Ur.
  assert (Fl : diag_ok lds = true ->
               good lu = true /\ is_marked lu = false /\ (binop_param op <> TDyn -> type_of lu = binop_param op)).
  { intros Dl. apply (conv_operand_facts glv op lv lu lm (IH c anon l glv lds C A Okl El Dl) Ecl Ul). }
  assert (Fr : diag_ok rds = true ->
               good ru = true /\ is_marked ru = false /\ (binop_param op <> TDyn -> type_of ru = binop_param op)).
  { intros Dr. apply (conv_operand_facts grv op rv ru rm (IH c anon r grv rds C A Okr Er Dr) Ecr Ur). }
  assert (Full : (let ds0 := lds ++ rds in
                  if has_errors ds0 then (with_marks (VUnk (binop_type op) rf_none) (marks_union lm rm), ds0)
                  else match call_binop op lu ru with
                       | OOk res => (with_marks res (marks_union lm rm), ds0)
                       | OErr _ => (VUnk (binop_type op) rf_none, ds0 ++ [derr S_OperationFailed []])
                       | OUnsupported => (VUnk (binop_type op) rf_none, ds0 ++ [dunsupported])
                       end) = (v, ds) -> good v = true).
  { cbv zeta. intros E'. destruct (has_errors (lds ++ rds)) eqn:He.
    - injection E' as <- <-. rewrite (diag_ok_has_errors _ He) in D. discriminate.
    - destruct (call_binop op lu ru) as [res|oe|] eqn:Eo; [|dead E' D|dead E' D].
      injection E' as <- <-. rewrite diag_ok_app in D. apply andb_true_iff in D as [Dl Dr].
      destruct (Fl Dl) as [G1 [G2 G3]]. destruct (Fr Dr) as [G4 [G5 G6]].
      apply good_with_marks. apply (call_binop_good op lu ru res G1 G4 G2 G5); [|exact Eo].
      intros Hd. split; auto. }
  destruct op; try (apply Full; exact E).
  - (* OpOr *)
    destruct (is_known lu) eqn:Kl; destruct (is_known ru) eqn:Kr; cbn [negb andb] in E;
      repeat match type of E with
             | (match (if ?c then _ else _) with _ => _ end) = _ => destruct c eqn:?
             end;
      try (apply Full; exact E);
      injection E as <- <-; apply good_with_marks; try reflexivity; exfalso.
    all: try (destruct (Fl D) as [G _]; apply good_is_known in G; congruence).
    all: try (destruct (Fr D) as [G _]; apply good_is_known in G; congruence).
  - (* OpAnd *)
    destruct (is_known lu) eqn:Kl; destruct (is_known ru) eqn:Kr; cbn [negb andb] in E;
      repeat match type of E with
             | (match (if ?c then _ else _) with _ => _ end) = _ => destruct c eqn:?
             end;
      try (apply Full; exact E);
      injection E as <- <-; apply good_with_marks; try reflexivity; exfalso.
    all: try (destruct (Fl D) as [G _]; apply good_is_known in G; congruence).
    all: try (destruct (Fr D) as [G _]; apply good_is_known in G; congruence).
Qed.

Lemma kiko_cond f ce te fe : KI f -> forall c anon v ds,
  ctx_good c -> anon_good anon -> expr_ok (is_some anon) (ECond ce te fe) = true ->
  ev_ (S f) c anon (ECond ce te fe) = (v, ds) -> diag_ok ds = true -> good v = true.
Proof.
  intros IH c anon v ds C A Ok E D. cbn [eval_with] in E. simpl in Ok.
  apply andb_true_iff in Ok as [Ok Okf]. apply andb_true_iff in Ok as [Okc Okt].
  destruct (ev_ f c anon te) as [tv tds] eqn:Et.
  destruct (ev_ f c anon fe) as [fv fds] eqn:Ef.
  destruct (has_unsupported tds || has_unsupported fds); [dead E D|].
  match type of E with
  | match ?u with _ => _ end = _ => destruct u as [[[[rt tconv] fconv]|]|[|]]
  end; try (dead E D).
  destruct (ev_ f c anon ce) as [cv cds] eqn:Ec.
  destruct (is_null cv) eqn:Nc; [dead E D|].
  destruct (unmark cv) as [cu cm] eqn:Uc.
  destruct (unmark tv) as [tu tm] eqn:Ut.
  destruct (unmark fv) as [fu fm] eqn:Uf.
  destruct (is_known cu) eqn:Kc; cbn [negb] in E.
  - destruct (conv cu TBool) as [cb| |] eqn:Ecb; try (dead E D).
    assert (Pick : forall bv bds (nc : bool) bu bm, ev_ f c anon bv = (bu, bds) -> expr_ok (is_some anon) bv = true ->
              forall buu, unmark bu = (buu, bm) -> forall mk0,
              (if nc then
                 match conv buu rt with
                 | COk r => (with_marks r mk0, cds ++ bds)
                 | CErr ce0 => (with_marks (VUnk rt rf_none) mk0,
                                cds ++ bds ++ [derr S_InconsistentCond [FConv ce0]])
                 | CUnsupported => (dyn_val, cds ++ bds ++ [dunsupported])
                 end
               else (with_marks buu mk0, cds ++ bds)) = (v, ds) -> good v = true).
    { intros bv bds nc bu bm Eb Okb buu Ub mk0 E'.
      assert (Gb : diag_ok bds = true -> good buu = true).
      { intros Db. pose proof (IH c anon bv bu bds C A Okb Eb Db) as Gbu.
        apply (good_unmark _ _ _ Gbu Ub). }
      destruct nc.
      - destruct (conv buu rt) as [r| |] eqn:Er; try (dead E' D).
        injection E' as <- <-. rewrite diag_ok_app in D. apply andb_true_iff in D as [_ Db].
        apply good_with_marks. apply (conv_good _ _ _ (Gb Db) Er).
      - injection E' as <- <-. rewrite diag_ok_app in D. apply andb_true_iff in D as [_ Db].
        apply good_with_marks. apply (Gb Db). }
    destruct cb as [| |[|]| | | | | | | |]; try (dead E D).
    + apply (Pick te tds tconv tv tm Et Okt tu Ut _ E).
    + apply (Pick fe fds fconv fv fm Ef Okf fu Uf _ E).
  - exfalso.
    match type of E with
    | ?X = _ =>
        match X with
        | context [with_marks (VNull rt) ?m] => change X with (cond_unk rt cds m tu fu) in E
        end
    end.
    pose proof (f_equal snd E) as S. rewrite cond_unk_snd in S. simpl in S. subst ds.
    pose proof (IH c anon ce cv cds C A Okc Ec D) as Gcv.
    destruct (good_unmark _ _ _ Gcv Uc) as [Gcu _]. apply good_is_known in Gcu. congruence.
Qed.

Lemma kiko_tuple f es : KI f -> forall c anon v ds,
  ctx_good c -> anon_good anon -> expr_ok (is_some anon) (ETuple es) = true ->
  ev_ (S f) c anon (ETuple es) = (v, ds) -> diag_ok ds = true -> good v = true.
Proof.
  intros IH c anon v ds C A Ok E D. cbn [eval_with] in E. simpl in Ok.
  injection E as <- <-. apply good_VTuple. rewrite diag_ok_concat in D.
  rewrite forallb_Forall in Ok. rewrite forallb_Forall in D. rewrite Forall_forall in *.
  intros x Hx. apply in_map_iff in Hx as [[v' d'] [<- Hin]]. simpl.
  apply in_map_iff in Hin as [e [Ee Hin]].
  apply (IH c anon e v' d' C A (Ok e Hin) Ee). apply D.
  apply in_map_iff. exists (v', d'). split; [reflexivity|]. apply in_map_iff. exists e. split; assumption.
Qed.

Lemma kiko_index f a b : KI f -> forall c anon v ds,
  ctx_good c -> anon_good anon -> expr_ok (is_some anon) (EIndex a b) = true ->
  ev_ (S f) c anon (EIndex a b) = (v, ds) -> diag_ok ds = true -> good v = true.
Proof.
  intros IH c anon v ds C A Ok E D. cbn [eval_with] in E. simpl in Ok.
  apply andb_true_iff in Ok as [Oka Okb].
  destruct (ev_ f c anon a) as [cv cds] eqn:Ea.
  destruct (ev_ f c anon b) as [kv kds] eqn:Eb.
  destruct (index cv kv) as [r ids] eqn:Ei.
  injection E as <- <-. rewrite !diag_ok_app in D.
  apply andb_true_iff in D as [D1 D]. apply andb_true_iff in D as [D2 D3].
  apply (index_good cv kv r ids (IH c anon a cv cds C A Oka Ea D1) (IH c anon b kv kds C A Okb Eb D2) Ei D3).
Qed.

Lemma kiko_reltrav f src steps : KI f -> forall c anon v ds,
  ctx_good c -> anon_good anon -> expr_ok (is_some anon) (ERelTrav src steps) = true ->
  ev_ (S f) c anon (ERelTrav src steps) = (v, ds) -> diag_ok ds = true -> good v = true.
Proof.
  intros IH c anon v ds C A Ok E D. cbn [eval_with] in E. simpl in Ok.
  apply andb_true_iff in Ok as [Oks Okst].
  destruct (ev_ f c anon src) as [sv sds] eqn:Es.
  destruct (traverse_rel steps sv []) as [r rds] eqn:Et.
  injection E as <- <-. rewrite diag_ok_app in D. apply andb_true_iff in D as [D1 D2].
  apply (traverse_rel_good steps sv [] r rds Okst (IH c anon src sv sds C A Oks Es D1) Et D2).
Qed.

Lemma kiko_objkey f w force : KI f -> forall c anon v ds,
  ctx_good c -> anon_good anon -> expr_ok (is_some anon) (EObjKey w force) = true ->
  ev_ (S f) c anon (EObjKey w force) = (v, ds) -> diag_ok ds = true -> good v = true.
Proof.
  intros IH c anon v ds C A Ok E D. cbn [eval_with] in E. simpl in Ok.
  destruct force; cbn [negb] in E; [apply (IH c anon w v ds C A Ok E D)|].
  destruct w; try (destruct (literal_name _) eqn:L;
                   [injection E as <- <-; reflexivity|apply (IH c anon _ v ds C A Ok E D)]).
  destruct steps; [|dead E D].
  simpl in E. injection E as <- <-. reflexivity.
Qed.

(* ---- object constructor ------------------------------------------------------------------ *)
Lemma assoc_set_good k v (l : list (list Z * val)) :
  good v = true -> Forall (fun p => good (snd p) = true) l ->
  Forall (fun p => good (snd p) = true) (assoc_set k v l).
Proof.
  intros Gv. induction l as [|[k' v'] r IH]; intros F; simpl.
  - constructor; [exact Gv|constructor].
  - inversion F; subst. destruct (str_eqb k k'); [constructor; assumption|].
    destruct (str_ltb k k'); [constructor; [exact Gv|exact F]|]. constructor; auto.
Qed.

Definition obj_inv (st : list (list Z * val) * list marks * bool * list diag) : Prop :=
  let '(vals, mks, known, ds) := st in
  known = true /\ Forall (fun p => good (snd p) = true) vals.
Definition obj_ds (st : list (list Z * val) * list marks * bool * list diag) : list diag :=
  let '(_, _, _, ds) := st in ds.

Lemma fold_inv {S I} (step : S -> I -> S) (dsof : S -> list diag) (P : S -> Prop) :
  (forall st it, diag_ok (dsof (step st it)) = true -> diag_ok (dsof st) = true) ->
  forall items : list I,
  (forall st it, In it items -> diag_ok (dsof (step st it)) = true -> P st -> P (step st it)) ->
  forall st, diag_ok (dsof (fold_left step items st)) = true ->
  diag_ok (dsof st) = true /\ (P st -> P (fold_left step items st)).
Proof.
  intros Hd items. induction items as [|it r IH]; intros Hp st D; simpl in *.
  - split; [exact D|auto].
  - destruct (IH (fun st it Hin => Hp st it (or_intror Hin)) (step st it) D) as [D1 P1].
    split; [apply (Hd st it D1)|]. intros Pst. apply P1. apply Hp; auto.
Qed.

Lemma fold_ds_ok {S I} (step : S -> I -> S) (dsof : S -> list diag) :
  (forall st it, diag_ok (dsof (step st it)) = true -> diag_ok (dsof st) = true) ->
  forall (items : list I) st, diag_ok (dsof (fold_left step items st)) = true -> diag_ok (dsof st) = true.
Proof.
  intros Hd items. induction items as [|it r IH]; intros st D; simpl in *; [exact D|].
  apply (Hd st it). apply IH. exact D.
Qed.

Lemma kiko_obj f items : KI f -> forall c anon v ds,
  ctx_good c -> anon_good anon -> expr_ok (is_some anon) (EObj items) = true ->
  ev_ (S f) c anon (EObj items) = (v, ds) -> diag_ok ds = true -> good v = true.
Proof.
  intros IH c anon v ds C A Ok E D. cbn [eval_with] in E. simpl in Ok.
  match type of E with
  | context [fold_left ?stp items ?init] => set (step := stp) in *; set (st0 := init) in *
  end.
  assert (Hstep : forall st it, diag_ok (obj_ds (step st it)) = true ->
            diag_ok (obj_ds st) = true /\
            (expr_ok (is_some anon) (fst it) && expr_ok (is_some anon) (snd it) = true -> obj_inv st -> obj_inv (step st it))).
  { intros [[[vals mks] known] sds] [ke ve] Ds. unfold step in Ds |- *. cbn [fst snd] in *.
    destruct (ev_ f c anon ke) as [k kds] eqn:Ek. destruct (ev_ f c anon ve) as [vv vds] eqn:Ev.
    assert (Dall : diag_ok (sds ++ kds ++ vds) = true).
    { destruct (has_errors kds); [exact Ds|]. destruct (is_null k).
      - simpl in Ds. rewrite diag_ok_app in Ds. apply andb_true_iff in Ds as [Ds _]. exact Ds.
      - destruct (unmark k) as [ku km]. destruct (conv ku TStr) as [ks| |].
        + destruct ks; exact Ds.
        + simpl in Ds. rewrite diag_ok_app in Ds. apply andb_true_iff in Ds as [Ds _]. exact Ds.
        + simpl in Ds. rewrite diag_ok_app in Ds. apply andb_true_iff in Ds as [Ds _]. exact Ds. }
    rewrite !diag_ok_app in Dall. apply andb_true_iff in Dall as [D0 Dall].
    apply andb_true_iff in Dall as [Dk Dv]. split; [exact D0|].
    intros Oki [Kn Fv]. apply andb_true_iff in Oki as [Okk Okv].
    pose proof (IH c anon ke k kds C A Okk Ek Dk) as Gk.
    pose proof (IH c anon ve vv vds C A Okv Ev Dv) as Gvv.
    destruct (has_errors kds) eqn:Hek; [rewrite (diag_ok_has_errors _ Hek) in Dk; discriminate|].
    destruct (is_null k) eqn:Nk.
    { simpl in Ds. rewrite !diag_ok_app in Ds. rewrite andb_false_r in Ds. discriminate. }
    destruct (unmark k) as [ku km] eqn:Uk. destruct (good_unmark _ _ _ Gk Uk) as [Gku Mku].
    destruct (conv ku TStr) as [ks| |] eqn:Eks.
    - pose proof (conv_good _ _ _ Gku Eks) as Gks. pose proof (conv_type _ _ _ Eks eq_refl) as Tks.
      destruct ks; try discriminate; simpl.
      + split; [exact Kn|]. apply assoc_set_good; assumption.
      + exfalso. pose proof (conv_null_inv _ _ _ Eks Mku eq_refl) as Nu.
        rewrite (is_null_unmark _ _ _ Uk) in Nk. congruence.
      + exfalso. (* VMark: conv of an unmarked good value *)
        clear -Eks Mku Gks Tks Gku. unfold conv in Eks. apply convert_inv in Eks.
        inversion Eks; subst; try discriminate.
    - simpl in Ds. rewrite !diag_ok_app in Ds. rewrite andb_false_r in Ds. discriminate.
    - simpl in Ds. rewrite !diag_ok_app in Ds. rewrite andb_false_r in Ds. discriminate. }
  destruct (fold_left step items st0) as [[[vals mks] known] fds] eqn:Ef.
  assert (Dfin : diag_ok (obj_ds (fold_left step items st0)) = true).
  { rewrite Ef. simpl. destruct (negb known); injection E as _ <-; exact D. }
  destruct (fold_inv step obj_ds obj_inv (fun st it Ds => proj1 (Hstep st it Ds)) items) with (st := st0)
    as [_ Pf]; [|exact Dfin|].
  - intros st it Hin Ds Pst. apply (proj2 (Hstep st it Ds)); [|exact Pst].
    rewrite forallb_Forall in Ok. rewrite Forall_forall in Ok. apply (Ok it Hin).
  - rewrite Ef in Pf. destruct Pf as [Kn Fv]; [split; [reflexivity|constructor]|].
    subst known. cbn [negb] in E. injection E as <- <-. apply good_with_marks. apply good_VObj. exact Fv.
Qed.

(* ---- templates --------------------------------------------------------------------------- *)
Definition tmpl_ds (st : list Z * bool * marks * list diag) : list diag := let '(_, _, _, ds) := st in ds.
Definition tmpl_inv (st : list Z * bool * marks * list diag) : Prop := let '(_, known, _, _) := st in known = true.

Lemma conv_str_shape u ks : good u = true -> is_marked u = false -> null_shape u = false ->
  conv u TStr = COk ks -> exists s, ks = VStr s.
Proof.
  intros G M N E. pose proof (conv_good _ _ _ G E) as Gks. pose proof (conv_type _ _ _ E eq_refl) as Tks.
  destruct ks; try discriminate.
  - eexists. reflexivity.
  - pose proof (conv_null_inv _ _ _ E M eq_refl). congruence.
  - exfalso. unfold conv in E. apply convert_inv in E. inversion E; subst; try discriminate.
Qed.

Lemma kiko_tmpl f parts : KI f -> forall c anon v ds,
  ctx_good c -> anon_good anon -> expr_ok (is_some anon) (ETmpl parts) = true ->
  ev_ (S f) c anon (ETmpl parts) = (v, ds) -> diag_ok ds = true -> good v = true.
Proof.
  intros IH c anon v ds C A Ok E D. cbn [eval_with] in E. simpl in Ok.
  match type of E with
  | context [fold_left ?stp parts ?init] => set (step := stp) in *; set (st0 := init) in *
  end.
  assert (Hstep : forall st p, diag_ok (tmpl_ds (step st p)) = true ->
            diag_ok (tmpl_ds st) = true /\
            (expr_ok (is_some anon) p = true -> tmpl_inv st -> tmpl_inv (step st p))).
  { intros [[[buf known] mk] sds] p Ds. unfold step in Ds |- *.
    destruct (ev_ f c anon p) as [pv pds] eqn:Ep.
    assert (Dall : diag_ok (sds ++ pds) = true).
    { destruct (is_null pv).
      - cbn [tmpl_ds] in Ds. rewrite diag_ok_app in Ds. apply andb_true_iff in Ds as [Ds _]. exact Ds.
      - destruct (unmark pv) as [pu pm]. destruct (negb (is_known pv)); [exact Ds|].
        destruct (conv pu TStr) as [ks| |].
        + destruct ks; try (cbn [tmpl_ds] in Ds; rewrite diag_ok_app in Ds; apply andb_true_iff in Ds as [Ds _]; exact Ds).
          destruct (known && negb (has_errors (sds ++ pds))); exact Ds.
        + cbn [tmpl_ds] in Ds. rewrite diag_ok_app in Ds. apply andb_true_iff in Ds as [Ds _]. exact Ds.
        + cbn [tmpl_ds] in Ds. rewrite diag_ok_app in Ds. apply andb_true_iff in Ds as [Ds _]. exact Ds. }
    rewrite diag_ok_app in Dall. apply andb_true_iff in Dall as [D0 Dp]. split; [exact D0|].
    intros Okp Kn. simpl in Kn. subst known.
    pose proof (IH c anon p pv pds C A Okp Ep Dp) as Gpv.
    destruct (is_null pv) eqn:Np.
    { cbn [tmpl_ds] in Ds. rewrite !diag_ok_app in Ds. rewrite andb_false_r in Ds. discriminate. }
    destruct (unmark pv) as [pu pm] eqn:Up. destruct (good_unmark _ _ _ Gpv Up) as [Gpu Mpu].
    rewrite (good_is_known _ Gpv). cbn [negb].
    rewrite (is_null_unmark _ _ _ Up) in Np.
    destruct (conv pu TStr) as [ks| |] eqn:Eks.
    - destruct (conv_str_shape pu ks Gpu Mpu Np Eks) as [s ->].
      destruct (true && negb (has_errors (sds ++ pds))); reflexivity.
    - rewrite (good_is_known _ Gpv) in Ds. cbn [negb tmpl_ds] in Ds.
      rewrite !diag_ok_app in Ds. rewrite andb_false_r in Ds. discriminate.
    - rewrite (good_is_known _ Gpv) in Ds. cbn [negb tmpl_ds] in Ds.
      rewrite !diag_ok_app in Ds. rewrite andb_false_r in Ds. discriminate. }
  destruct (fold_left step parts st0) as [[[buf known] mk] fds] eqn:Ef.
  assert (Dfin : diag_ok (tmpl_ds (fold_left step parts st0)) = true).
  { rewrite Ef. simpl. injection E as _ <-. exact D. }
  destruct (fold_inv step tmpl_ds tmpl_inv (fun st it Ds => proj1 (Hstep st it Ds)) parts) with (st := st0)
    as [_ Pf]; [|exact Dfin|].
  - intros st it Hin Ds Pst. apply (proj2 (Hstep st it Ds)); [|exact Pst].
    rewrite forallb_Forall in Ok. rewrite Forall_forall in Ok. apply (Ok it Hin).
  - rewrite Ef in Pf. simpl in Pf. rewrite (Pf eq_refl) in E. cbn [negb] in E.
    injection E as <- <-. apply good_with_marks. reflexivity.
Qed.

(* ---- template join ------------------------------------------------------------------------- *)
Lemma for_shape f c anon kv vv coll key vl cond grp v ds :
  ev_ (S f) c anon (EFor kv vv coll key vl cond grp) = (v, ds) ->
  type_of v = TDyn -> is_known v = false.
Proof.
  intros E T. cbn [eval_with] in E.
  repeat destruct_head E.
  all: injection E as <- <-; rewrite ?is_known_with_marks, ?is_known_with_same_marks; try reflexivity;
       rewrite ?type_of_with_marks in T; discriminate T.
Qed.

Definition join_ds (st : (list Z * marks * list diag) + (val * list diag)) : list diag :=
  match st with inl (_, _, ds) => ds | inr (_, ds) => ds end.
Definition join_inv (st : (list Z * marks * list diag) + (val * list diag)) : Prop :=
  match st with inl _ => True | inr _ => False end.

Lemma kiko_join f te : KI f -> forall c anon v ds,
  ctx_good c -> anon_good anon -> expr_ok (is_some anon) (EJoin te) = true ->
  ev_ (S f) c anon (EJoin te) = (v, ds) -> diag_ok ds = true -> good v = true.
Proof.
  intros IH c anon v ds C A Ok E D. cbn [eval_with] in E. cbn [expr_ok] in Ok.
  apply andb_true_iff in Ok as [Ok IsFor].
  destruct (ev_ f c anon te) as [tv tds] eqn:Et.
  assert (Dt : diag_ok tds = true -> good tv = true /\ type_of tv <> TDyn).
  { intros Dt. pose proof (IH c anon te tv tds C A Ok Et Dt) as G. split; [exact G|].
    intros T. destruct te; try discriminate IsFor. destruct f as [|f'].
    - simpl in Et. injection Et as <- <-. discriminate.
    - pose proof (for_shape _ _ _ _ _ _ _ _ _ _ _ _ Et T) as K. rewrite (good_is_known _ G) in K. discriminate. }
  destruct (ty_eqb (type_of tv) TDyn) eqn:Ty.
  { exfalso. injection E as _ <-. destruct (Dt D) as [_ N]. apply ty_eqb_eq in Ty. contradiction. }
  destruct (negb (is_known tv)) eqn:Kt.
  { exfalso. injection E as _ <-. destruct (Dt D) as [G _]. rewrite (good_is_known _ G) in Kt. discriminate. }
  destruct (unmark tv) as [tu tm] eqn:Ut.
  destruct tu as [| | | | | | | |vs| |]; try (dead E D).
  match type of E with
  | context [fold_left ?stp vs ?init] => set (step := stp) in *; set (st0 := init) in *
  end.
  assert (Hstep : forall st x, diag_ok (join_ds (step st x)) = true ->
            diag_ok (join_ds st) = true /\ (good x = true -> join_inv st -> join_inv (step st x))).
  { intros [[[buf am] sds]|[rv rds]] x Ds; unfold step in Ds |- *; [|split; [exact Ds|auto]].
    assert (D0 : diag_ok sds = true).
    { destruct (is_null x); [cbn [join_ds] in Ds; rewrite diag_ok_app in Ds; apply andb_true_iff in Ds as [Ds _]; exact Ds|].
      destruct (ty_eqb (type_of x) TDyn); [exact Ds|].
      destruct (conv x TStr) as [sv| |];
        try (cbn [join_ds] in Ds; rewrite diag_ok_app in Ds; apply andb_true_iff in Ds as [Ds _]; exact Ds).
      destruct (negb (is_known x)); [exact Ds|]. destruct (unmark sv) as [su sm].
      destruct su; try exact Ds;
        cbn [join_ds] in Ds; rewrite diag_ok_app in Ds; apply andb_true_iff in Ds as [Ds _]; exact Ds. }
    split; [exact D0|]. intros Gx _.
    destruct (is_null x) eqn:Nx; [exact I|].
    destruct (ty_eqb (type_of x) TDyn) eqn:Tx.
    { apply ty_eqb_eq in Tx. rewrite (good_dyn_is_null _ Gx Tx) in Nx. discriminate. }
    destruct (conv x TStr) as [sv| |] eqn:Es; try exact I.
    rewrite (good_is_known _ Gx). cbn [negb].
    destruct (unmark sv) as [su sm]. destruct su; exact I. }
  destruct (fold_left step vs st0) as [[[buf am] fds]|[rv rds]] eqn:Ef.
  - injection E as <- <-. apply good_with_marks. reflexivity.
  - exfalso.
    assert (Dfin : diag_ok (join_ds (fold_left step vs st0)) = true).
    { rewrite Ef. simpl. injection E as _ <-. exact D. }
    pose proof (fold_ds_ok step join_ds (fun st it Ds => proj1 (Hstep st it Ds)) vs st0 Dfin) as D0.
    destruct (Dt D0) as [Gtv _]. destruct (good_unmark _ _ _ Gtv Ut) as [Gtu _].
    apply good_VTuple in Gtu. rewrite Forall_forall in Gtu.
    destruct (fold_inv step join_ds join_inv (fun st it Ds => proj1 (Hstep st it Ds)) vs) with (st := st0)
      as [_ Pf]; [|exact Dfin|].
    + intros st it Hin Ds Pst. apply (proj2 (Hstep st it Ds)); [|exact Pst]. apply (Gtu it Hin).
    + rewrite Ef in Pf. apply Pf. exact I.
Qed.

(* ---- function calls ------------------------------------------------------------------------ *)
Definition arg_ok (f : fn) (i : nat) (a : val) : Prop :=
  good a = true /\ (forall p, param_for f i = Some p -> type_of a = TDyn -> p_ty p = TDyn).

Lemma param_for_sane f i p : fn_known f -> param_for f i = Some p -> param_sane p.
Proof.
  intros [_ [Hp Hv]] E. unfold param_for in E.
  destruct (nth_opt (f_params f) i) eqn:En.
  - injection E as <-. apply nth_opt_In in En. rewrite Forall_forall in Hp. auto.
  - auto.
Qed.

Lemma call_check_not_ok f : forall args i r b, call_check f i args = (Some r, b) -> forall v, r <> CallOk v.
Proof.
  induction args as [|a rest IH]; intros i r b E v; cbn [call_check] in E; [discriminate|].
  destruct (param_for f i) as [p|]; [|injection E as <- _; discriminate].
  destruct (is_null a && negb (p_null p)); [injection E as <- _; discriminate|].
  destruct (ty_eqb (type_of a) TDyn).
  - destruct (negb (p_dyn p)); [discriminate|]. apply (IH _ _ _ E).
  - match type of E with (if ?c then _ else _) = _ => destruct c end;
      [injection E as <- _; discriminate|]. apply (IH _ _ _ E).
Qed.

Lemma call_check_nodyn f : fn_known f -> forall args i b,
  Forall2 (arg_ok f) (seq i (length args)) args -> call_check f i args = (None, b) -> b = false.
Proof.
  intros Kf. induction args as [|a rest IH]; intros i b F E; cbn [call_check] in E.
  - injection E as <-. reflexivity.
  - simpl in F. inversion F as [|? ? ? ? [Ga Ta] F']; subst.
    destruct (param_for f i) as [p|] eqn:Ep; [|discriminate].
    destruct (is_null a && negb (p_null p)) eqn:N1; [discriminate|].
    destruct (ty_eqb (type_of a) TDyn) eqn:Ty.
    + apply ty_eqb_eq in Ty. rewrite (good_dyn_is_null _ Ga Ty) in N1. cbn [andb] in N1.
      apply negb_false_iff in N1.
      rewrite (param_for_sane f i p Kf Ep (Ta p eq_refl Ty) N1) in E. cbn [negb] in E.
      apply (IH _ _ F' E).
    + match type of E with (if ?c then _ else _) = _ => destruct c end; [discriminate|].
      apply (IH _ _ F' E).
Qed.

Lemma Forall2_arg_good f i args : Forall2 (arg_ok f) (seq i (length args)) args -> Forall (fun a => good a = true) args.
Proof.
  revert i. induction args as [|a r IH]; intros i F; [constructor|].
  simpl in F. inversion F as [|? ? ? ? [Ga _] F']; subst. constructor; [exact Ga|apply (IH _ F')].
Qed.

Lemma fn_call_good f args v :
  fn_known f -> Forall2 (arg_ok f) (seq 0 (length args)) args -> fn_call f args = CallOk v -> good v = true.
Proof.
  intros Kf F E. unfold fn_call in E.
  destruct (call_check f 0 args) as [[r|] dynarg] eqn:Ec.
  - exfalso. apply (call_check_not_ok f args 0 r dynarg Ec v). exact E.
  - rewrite (call_check_nodyn f Kf args 0 dynarg F Ec) in E.
    pose proof (Forall2_arg_good f 0 args F) as Ga.
    match type of E with
    | match f_rettype f ?a with _ => _ end = _ => set (args' := a) in *
    end.
    destruct (f_rettype f args') as [rt|]; [|discriminate].
    match type of E with
    | (if ?u then _ else _) = _ => assert (Hu : u = false)
    end.
    { apply existsb_false_Forall. apply Forall_forall. intros [i a] Hin.
      apply in_combine_r in Hin. rewrite Forall_forall in Ga. simpl.
      destruct (param_for f i); [|reflexivity]. rewrite (good_is_known _ (Ga a Hin)). reflexivity. }
    rewrite Hu in E. destruct (f_impl f args' rt) as [r| |] eqn:Ei; try discriminate.
    injection E as <-. apply good_with_marks. destruct Kf as [Kimpl _]. apply (Kimpl args' rt r); [|exact Ei].
    unfold args'. apply Forall_forall. intros x Hx. apply in_map_iff in Hx as [[y m] [<- Hy]].
    apply in_map_iff in Hy as [[i a] [Hy Hin]]. apply in_combine_r in Hin. rewrite Forall_forall in Ga.
    simpl in *. destruct (param_for f i) as [p|].
    + destruct (p_marked p); injection Hy as <- _; [apply (Ga a Hin)|apply unmark_deep_good, (Ga a Hin)].
    + injection Hy as <- _. apply (Ga a Hin).
Qed.

Lemma Forall2_snoc {A B} (R : A -> B -> Prop) l1 l2 x y :
  Forall2 R l1 l2 -> R x y -> Forall2 R (l1 ++ [x]) (l2 ++ [y]).
Proof. intros F H. apply Forall2_app; [exact F|constructor; [exact H|constructor]]. Qed.

Lemma kiko_call f name args expand : KI f -> forall c anon v ds,
  ctx_good c -> anon_good anon -> expr_ok (is_some anon) (ECall name args expand) = true ->
  ev_ (S f) c anon (ECall name args expand) = (v, ds) -> diag_ok ds = true -> good v = true.
Proof.
  intros IH c anon v ds C A Ok E D. cbn [eval_with] in E. cbn [expr_ok] in Ok.
  rewrite forallb_Forall in Ok.
  destruct (lookup_fn c name false) as [[fnv|] sm] eqn:El; [|destruct sm; dead E D].
  pose proof (lookup_fn_known _ _ _ _ _ C El) as Kf.
  match type of E with
  | match ?x with inl p => @?K p | inr r => _ end = _ =>
      set (k := K) in *; set (expanded := x) in *;
      change (match expanded with inl p => k p | inr r => r end = (v, ds)) in E
  end.
  assert (HK : forall args' ds0 emk,
          (diag_ok ds0 = true -> Forall (fun e => expr_ok (is_some anon) e = true) args') ->
          k (args', ds0, emk) = (v, ds) -> good v = true).
  { intros args' ds0 emk Hargs Ek. unfold k in Ek.
    destruct (length args' <? length (f_params fnv))%nat; [dead Ek D|].
    match type of Ek with (if ?cnd then _ else _) = _ => destruct cnd end; [dead Ek D|].
    match type of Ek with
    | context [fold_left ?stp _ _] => set (stepf := stp) in *
    end.
    assert (Hfold : forall es k0 vals sds vals' ds',
              fold_left stepf (combine (seq k0 (length es)) es) (vals, sds) = (vals', ds') ->
              diag_ok ds' = true ->
              diag_ok sds = true /\
              (Forall (fun e => expr_ok (is_some anon) e = true) es -> length vals = k0 ->
               Forall2 (arg_ok fnv) (seq 0 k0) vals -> Forall2 (arg_ok fnv) (seq 0 (length vals')) vals')).
    { induction es as [|e es IHes]; intros k0 vals sds vals' ds' Ef Dd.
      - simpl in Ef. injection Ef as <- <-. split; [exact Dd|]. intros _ L F. rewrite L. exact F.
      - change (fold_left stepf (combine (seq (S k0) (length es)) es) (stepf (vals, sds) (k0, e)) = (vals', ds')) in Ef.
        destruct (stepf (vals, sds) (k0, e)) as [vals1 ds1] eqn:Est.
        destruct (IHes (S k0) vals1 ds1 vals' ds' Ef Dd) as [D1 F1].
        unfold stepf in Est. cbn [fst snd] in Est.
        destruct (ev_ f c anon e) as [av ads] eqn:Ea.
        assert (D0 : diag_ok (sds ++ ads) = true /\
                     (exists p v', param_for fnv k0 = Some p /\ conv av (p_ty p) = COk v' /\ vals1 = vals ++ [v'])).
        { destruct (param_for fnv k0) as [p|].
          - destruct (conv av (p_ty p)) as [v'| |] eqn:Ecv; injection Est as <- <-.
            + split; [exact D1|exists p, v'; auto].
            + rewrite diag_ok_app, andb_false_r in D1. discriminate.
            + rewrite diag_ok_app, andb_false_r in D1. discriminate.
          - injection Est as <- <-. rewrite diag_ok_app, andb_false_r in D1. discriminate. }
        destruct D0 as [D0 [p [v' [Ep [Ecv ->]]]]].
        rewrite diag_ok_app in D0. apply andb_true_iff in D0 as [D0 Da].
        split; [exact D0|]. intros Fe L F. inversion Fe as [|? ? Oke Fe']; subst.
        apply F1; [exact Fe'|rewrite app_length; simpl; lia|].
        rewrite seq_S. apply Forall2_snoc; [exact F|]. simpl.
        pose proof (IH c anon e av ads C A Oke Ea Da) as Gav.
        split; [apply (conv_good _ _ _ Gav Ecv)|].
        intros p' Ep' T. rewrite Ep in Ep'. injection Ep' as <-.
        unfold conv in Ecv. apply (convert_dyn_type _ _ _ _ Ecv T). }
    destruct (fold_left stepf (combine (seq 0 (length args')) args') ([], ds0)) as [argvals fds] eqn:Ef.
    destruct (has_errors fds) eqn:He; [injection Ek as _ <-; rewrite (diag_ok_has_errors _ He) in D; discriminate|].
    destruct (has_unsupported fds) eqn:Hu; [injection Ek as _ <-; rewrite (diag_ok_has_unsupported _ Hu) in D; discriminate|].
    destruct (fn_call fnv argvals) as [rv| | |] eqn:Efc; try (dead Ek D).
    injection Ek as <- <-.
    destruct (Hfold args' 0%nat [] ds0 argvals fds Ef D) as [D0 F0].
    apply good_with_marks.
    apply (fn_call_good fnv argvals rv Kf); [|exact Efc].
    apply F0; [apply (Hargs D0)|reflexivity|constructor]. }
  unfold expanded in E. destruct expand.
  2: { apply (HK args [] []); [intros _; exact Ok|exact E]. }
  destruct (rev args) as [|last init_rev] eqn:Er; [dead E D|].
  assert (Hsplit : args = rev init_rev ++ [last])
    by (rewrite <- (rev_involutive args), Er; reflexivity).
  rewrite Hsplit in Ok. apply Forall_app in Ok as [Okinit Oklast].
  inversion Oklast as [|? ? Okl _]; subst.
  destruct (ev_ f c anon last) as [xv xds] eqn:Ex.
  destruct (has_errors xds) eqn:Hex;
    [injection E as _ <-; rewrite (diag_ok_has_errors _ Hex) in D; discriminate|].
  assert (Gx : diag_ok xds = true -> good xv = true) by (intros Dx; apply (IH c anon last xv xds C A Okl Ex Dx)).
  assert (Fin : (if is_null xv then inr (dyn_val, xds ++ [derr S_InvalidExpand []])
                 else if negb (is_known xv) then inr (with_same_marks dyn_val xv, xds)
                 else let '(xu, xm) := unmark xv in
                      inl (rev init_rev ++ map (fun kv : val * val => ELit (with_marks (snd kv) xm)) (elements xu), xds,
                           match elements xu with [] => xm | _ => [] end))
                = expanded -> good v = true).
  { intros Eexp. fold expanded in E. rewrite <- Eexp in E.
    destruct (is_null xv) eqn:Nx; [dead E D|].
    destruct (negb (is_known xv)) eqn:Kx;
      [exfalso; injection E as _ <-; rewrite (good_is_known _ (Gx D)) in Kx; discriminate|].
    destruct (unmark xv) as [xu xm] eqn:Ux.
    apply (HK (rev init_rev ++ map (fun kv : val * val => ELit (with_marks (snd kv) xm)) (elements xu)) xds
              (match elements xu with [] => xm | _ => [] end)); [|exact E].
    intros Dx. specialize (Gx Dx). destruct (good_unmark _ _ _ Gx Ux) as [Gxu _].
    apply Forall_app. split; [exact Okinit|].
    apply Forall_forall. intros e He. apply in_map_iff in He as [[kk vv] [<- Hkv]].
    simpl. apply good_with_marks.
    clear -Gxu Hkv. destruct xu; simpl in Hkv; try contradiction.
    - apply good_VList in Gxu. revert Hkv. generalize 0. induction l as [|x r IHl]; intros z Hin; simpl in Hin; [contradiction|].
      inversion Gxu; subst. destruct Hin as [Hin|Hin]; [injection Hin as _ <-; assumption|apply (IHl H2 _ Hin)].
    - apply good_VSet in Gxu. apply in_map_iff in Hkv as [x [Hx Hin]]. injection Hx as _ <-.
      rewrite Forall_forall in Gxu. auto.
    - apply good_VMap in Gxu. apply in_map_iff in Hkv as [x [Hx Hin]]. injection Hx as _ <-.
      rewrite Forall_forall in Gxu. apply (Gxu x Hin).
    - apply good_VTuple in Gxu. revert Hkv. generalize 0. induction l as [|x r IHl]; intros z Hin; simpl in Hin; [contradiction|].
      inversion Gxu; subst. destruct Hin as [Hin|Hin]; [injection Hin as _ <-; assumption|apply (IHl H2 _ Hin)].
    - apply good_VObj in Gxu. apply in_map_iff in Hkv as [x [Hx Hin]]. injection Hx as _ <-.
      rewrite Forall_forall in Gxu. apply (Gxu x Hin). }
  destruct (type_of xv) eqn:Tx; try (dead E D); try (apply Fin; reflexivity).
  (* dynamic type *)
  destruct (is_null xv) eqn:Nx; [dead E D|].
  exfalso. injection E as _ <-. rewrite (good_dyn_is_null _ (Gx D) Tx) in Nx. discriminate.
Qed.

(* ---- splat -------------------------------------------------------------------------------- *)
Lemma index_from_good : forall l z kv, Forall (fun x => good x = true) l -> In kv (index_from z l) ->
  good (fst kv) = true /\ good (snd kv) = true.
Proof.
  induction l as [|x r IH]; intros z kv F Hin; simpl in Hin; [contradiction|].
  inversion F; subst. destruct Hin as [<-|Hin]; [split; [reflexivity|assumption]|apply (IH _ _ H2 Hin)].
Qed.

Lemma elements_good cu kv : good cu = true -> In kv (elements cu) -> good (fst kv) = true /\ good (snd kv) = true.
Proof.
  intros G Hin. destruct cu; simpl in Hin; try contradiction.
  - apply good_VList in G. apply (index_from_good _ _ _ G Hin).
  - apply good_VSet in G. apply in_map_iff in Hin as [x [<- Hin]]. rewrite Forall_forall in G. simpl. auto.
  - apply good_VMap in G. apply in_map_iff in Hin as [x [<- Hin]]. rewrite Forall_forall in G. simpl.
    split; [reflexivity|apply (G x Hin)].
  - apply good_VTuple in G. apply (index_from_good _ _ _ G Hin).
  - apply good_VObj in G. apply in_map_iff in Hin as [x [<- Hin]]. rewrite Forall_forall in G. simpl.
    split; [reflexivity|apply (G x Hin)].
Qed.

Lemma kiko_splat f src each : KI f -> forall c anon v ds,
  ctx_good c -> anon_good anon -> expr_ok (is_some anon) (ESplat src each) = true ->
  ev_ (S f) c anon (ESplat src each) = (v, ds) -> diag_ok ds = true -> good v = true.
Proof.
  intros IH c anon v ds C A Ok E D. cbn [eval_with] in E. cbn [expr_ok] in Ok.
  apply andb_true_iff in Ok as [Oks Oke].
  destruct (ev_ f c anon src) as [sv0 sds] eqn:Es.
  destruct (has_errors sds) eqn:Hes;
    [injection E as _ <-; rewrite (diag_ok_has_errors _ Hes) in D; discriminate|].
  assert (Gs : diag_ok sds = true -> good sv0 = true) by (intros Dx; apply (IH c anon src sv0 sds C A Oks Es Dx)).
  destruct (is_null sv0) eqn:Ns.
  { match type of E with (if ?a then _ else _) = _ => destruct a end; [|dead E D].
    injection E as <- <-. apply good_with_same_marks. reflexivity. }
  destruct (ty_eqb (type_of sv0) TDyn) eqn:Ts.
  { exfalso. injection E as _ <-. apply ty_eqb_eq in Ts.
    rewrite (good_dyn_is_null _ (Gs D) Ts) in Ns. discriminate. }
  match type of E with
  | context [unmark ?x] =>
      lazymatch x with
      | (if _ then with_same_marks (VTuple [sv0]) sv0 else sv0) => set (sv := x) in *
      end
  end.
  assert (Gsv : diag_ok sds = true -> good sv = true).
  { intros Dx. specialize (Gs Dx). unfold sv.
    match goal with |- good (if ?a then _ else _) = true => destruct a end; [|exact Gs].
    apply good_with_same_marks. apply good_VTuple. constructor; [exact Gs|constructor]. }
  destruct (negb (is_known sv)) eqn:Ksv.
  { exfalso. repeat destruct_head E; injection E as _ <-; rewrite diag_ok_app in D; apply andb_true_iff in D as [D _];
      rewrite (good_is_known _ (Gsv D)) in Ksv; discriminate. }
  destruct (unmark sv) as [su sm] eqn:Usv.
  match type of E with
  | context [map snd ?x] => set (rs := x) in *
  end.
  match type of E with
  | match ?u with _ => _ end = _ => destruct u as [[|]|] eqn:Euu
  end.
  - (* upgraded unknown: impossible for a known source *)
    exfalso. injection E as _ <-. rewrite diag_ok_app in D. apply andb_true_iff in D as [D _].
    rewrite (good_is_known _ (Gs D)) in Euu. cbn [negb] in Euu. rewrite andb_false_r in Euu. discriminate.
  - (* the normal case *)
    assert (Hall : diag_ok (sds ++ concat (map snd rs)) = true ->
                   good su = true /\ Forall (fun x => good x = true) (map fst rs)).
    { intros Da. rewrite diag_ok_app in Da. apply andb_true_iff in Da as [D1 D2].
      destruct (good_unmark _ _ _ (Gsv D1) Usv) as [Gsu _]. split; [exact Gsu|].
      rewrite diag_ok_concat in D2. rewrite forallb_Forall in D2. rewrite Forall_forall in *.
      intros x Hx. apply in_map_iff in Hx as [[v' d'] [<- Hr]]. simpl.
      assert (Dd : diag_ok d' = true) by (apply D2; apply in_map_iff; exists (v', d'); split; [reflexivity|exact Hr]).
      unfold rs in Hr. apply in_map_iff in Hr as [kv [Ekv Hkv]].
      destruct (elements_good su kv Gsu Hkv) as [_ Gel].
      apply (IH c (Some (snd kv)) each v' d' C); [|exact Oke|exact Ekv|exact Dd].
      intros a Ea. injection Ea as <-. exact Gel. }
    match type of E with
    | (if ?cnd then _ else _) = _ => destruct cnd eqn:Eall
    end.
    { exfalso. injection E as _ <-. apply negb_true_iff, negb_false_iff in Eall.
      apply existsb_exists in Eall as [[v' d'] [Hin He]]. simpl in He.
      rewrite diag_ok_app in D. apply andb_true_iff in D as [_ D]. rewrite diag_ok_concat in D.
      rewrite forallb_Forall in D. rewrite Forall_forall in D.
      assert (Dd : diag_ok d' = true) by (apply D; apply in_map_iff; exists (v', d'); split; [reflexivity|exact Hin]).
      rewrite (diag_ok_has_errors _ He) in Dd. discriminate. }
    destruct (type_of sv) eqn:Tsv.
    all: try (injection E as <- <-; destruct (Hall D) as [_ Gv]; apply good_with_marks; apply good_VTuple; exact Gv).
    all: destruct (map fst rs) as [|v0 rest] eqn:Evals.
    all: try (destruct_head E; injection E as <- <-; apply good_with_marks; reflexivity).
    all: match type of E with (if ?cnd then _ else _) = _ => destruct cnd end; [|dead E D].
    all: injection E as <- <-; destruct (Hall D) as [_ Gv]; apply good_with_marks; apply good_VList; exact Gv.
  - dead E D.
Qed.

(* ---- for expressions ------------------------------------------------------------------------ *)
Lemma ctx_good_child c vars :
  ctx_good c -> Forall (fun p : list Z * val => good (snd p) = true) vars -> ctx_good (child_ctx c vars).
Proof.
  intros C F. constructor; [|exact C]. split; simpl.
  - intros vs E. injection E as <-. exact F.
  - intros fs E. discriminate.
Qed.

Lemma bind_good (kvar vvar : list Z) (k v : val) :
  good k = true -> good v = true ->
  Forall (fun p : list Z * val => good (snd p) = true)
    ((if str_eqb kvar [] || str_eqb kvar vvar then [] else [(kvar, k)]) ++ [(vvar, v)]).
Proof.
  intros Gk Gv. apply Forall_app. split.
  - destruct (str_eqb kvar [] || str_eqb kvar vvar); constructor; [exact Gk|constructor].
  - constructor; [exact Gv|constructor].
Qed.

Definition ofor_state := (list (list Z * val) * list (list Z * list val) * list marks * bool * list diag)%type.
Definition ofor_ds (st : ofor_state) : list diag := let '(_, _, _, _, ds) := st in ds.
Definition ofor_inv (st : ofor_state) : Prop :=
  let '(vals, groups, _, known, _) := st in
  known = true /\ Forall (fun p => good (snd p) = true) vals /\
  Forall (fun p => Forall (fun x => good x = true) (snd p)) groups.

Definition tfor_state := (list val * list marks * bool * list diag)%type.
Definition tfor_ds (st : tfor_state) : list diag := let '(_, _, _, ds) := st in ds.
Definition tfor_inv (st : tfor_state) : Prop :=
  let '(vals, _, known, _) := st in known = true /\ Forall (fun x => good x = true) vals.

Ltac destruct_ds Ds :=
  match type of Ds with
  | diag_ok (_ (match ?y with _ => _ end)) = true => destruct_scrut y
  end.
Ltac ds_prefix Ds :=
  cbn [ofor_ds tfor_ds] in Ds |- *; repeat rewrite diag_ok_app in Ds;
  repeat match type of Ds with (_ && _ = true) => apply andb_true_iff in Ds as [Ds _] end; exact Ds.
Ltac ds_dead Ds :=
  cbn [ofor_ds tfor_ds] in Ds; repeat rewrite diag_ok_app in Ds;
  rewrite ?diag_ok_cons_err, ?diag_ok_cons_unsup in Ds; rewrite ?andb_false_r in Ds; discriminate Ds.
Ltac ds_parts Ds :=
  cbn [ofor_ds tfor_ds] in Ds; repeat rewrite diag_ok_app in Ds;
  repeat match type of Ds with
         | (_ && _ = true) => let D' := fresh "Dp" in apply andb_true_iff in Ds as [Ds D']
         end.

Lemma assoc_set_groups_good k (l : list val) (groups : list (list Z * list val)) :
  Forall (fun x => good x = true) l ->
  Forall (fun p => Forall (fun x => good x = true) (snd p)) groups ->
  Forall (fun p => Forall (fun x => good x = true) (snd p)) (assoc_set k l groups).
Proof.
  intros Gl. induction groups as [|[k' l'] r IH]; intros F; simpl.
  - constructor; [exact Gl|constructor].
  - inversion F; subst. destruct (str_eqb k k'); [constructor; assumption|].
    destruct (str_ltb k k'); [constructor; [exact Gl|exact F]|]. constructor; auto.
Qed.

Lemma conv_bool_shape u b : good u = true -> conv u TBool = COk b -> good b = true.
Proof. apply conv_good. Qed.

Lemma kiko_for f kvar vvar coll keye vale conde group : KI f -> forall c anon v ds,
  ctx_good c -> anon_good anon ->
  expr_ok (is_some anon) (EFor kvar vvar coll keye vale conde group) = true ->
  ev_ (S f) c anon (EFor kvar vvar coll keye vale conde group) = (v, ds) -> diag_ok ds = true -> good v = true.
Proof.
  intros IH c anon v ds C A Ok E D. cbn [eval_with] in E. cbn [expr_ok] in Ok.
  apply andb_true_iff in Ok as [Ok Okcond]. apply andb_true_iff in Ok as [Ok Okv].
  apply andb_true_iff in Ok as [Okc Okk].
  destruct (ev_ f c anon coll) as [cv0 ds0] eqn:Es.
  assert (G0 : diag_ok ds0 = true -> good cv0 = true) by (intros Dx; apply (IH c anon coll cv0 ds0 C A Okc Es Dx)).
  destruct (is_null cv0) eqn:Ns; [dead E D|].
  destruct (ty_eqb (type_of cv0) TDyn) eqn:Ts.
  { exfalso. injection E as _ <-. apply ty_eqb_eq in Ts. rewrite (good_dyn_is_null _ (G0 D) Ts) in Ns. discriminate. }
  destruct (unmark cv0) as [cv cmk] eqn:Uc.
  destruct (negb (can_iterate cv)); [dead E D|].
  match type of E with
  | match ?x with inl p => @?K p | inr r => _ end = _ =>
      set (k := K) in *; set (probe := x) in *;
      change (match probe with inl p => k p | inr r => r end = (v, ds)) in E
  end.
  assert (IHel : forall kv e v' d', In kv (elements cv) -> good cv = true ->
            expr_ok (is_some anon) e = true ->
            ev_ f (child_ctx c ((if str_eqb kvar [] || str_eqb kvar vvar then [] else [(kvar, fst kv)]) ++ [(vvar, snd kv)]))
                anon e = (v', d') -> diag_ok d' = true -> good v' = true).
  { intros kv e v' d' Hin Gcv Oke Ee Dd. destruct (elements_good cv kv Gcv Hin) as [Gk Gv].
    apply (IH _ anon e v' d' (ctx_good_child c _ C (bind_good kvar vvar _ _ Gk Gv)) A Oke Ee Dd). }
  assert (HK : forall condmk ds1, (diag_ok ds1 = true -> diag_ok ds0 = true) -> k (condmk, ds1) = (v, ds) -> good v = true).
  { intros condmk ds1 Hds Ek. unfold k in Ek.
    destruct (negb (is_known cv)) eqn:Kc.
    { exfalso. injection Ek as _ <-. destruct (good_unmark _ _ _ (G0 (Hds D)) Uc) as [Gcv _].
      rewrite (good_is_known _ Gcv) in Kc. discriminate. }
    destruct keye as [ke|].
    - (* object for *)
      match type of Ek with
      | context [fold_left ?stp _ ?init] => set (stepf := stp) in *; set (st0 := init) in *
      end.
      assert (Hmono : forall (st : ofor_state) kv, diag_ok (ofor_ds (stepf st kv)) = true -> diag_ok (ofor_ds st) = true).
      { intros [[[[vals groups] mks] known] sds] kv Ds. unfold stepf in Ds. destruct known; destruct group;
          repeat destruct_ds Ds; ds_prefix Ds. }
      assert (Hpres : forall (st : ofor_state) kv, In kv (elements cv) -> good cv = true ->
                diag_ok (ofor_ds (stepf st kv)) = true -> ofor_inv st -> ofor_inv (stepf st kv)).
      { intros [[[[vals groups] mks] known] sds] kv Hin Gcv Ds [Kn [Fv Fg]]. subst known.
        unfold stepf in Ds |- *. simpl in Okk.
        set (cc := child_ctx c ((if str_eqb kvar [] || str_eqb kvar vvar then [] else [(kvar, fst kv)]) ++ [(vvar, snd kv)])) in *.
        assert (Key : forall mks0 sds0,
          diag_ok (ofor_ds
            (let '(kraw, kds) := ev_ f cc anon ke in
             if is_null kraw then (vals, groups, mks0, false, (sds0 ++ kds) ++ [derr S_InvalidObjKey []])
             else if negb (is_known kraw) then (vals, groups, mks0 ++ [marks_of kraw], false, sds0 ++ kds)
             else match conv kraw TStr with
                  | COk kc =>
                      match fst (unmark kc) with
                      | VStr ks =>
                          let '(v1, vds) := ev_ f cc anon vale in
                          if group then (vals, assoc_set ks (match assoc_get ks groups with Some l => l | None => [] end ++ [v1]) groups,
                                         mks0 ++ [marks_of kraw], true, (sds0 ++ kds) ++ vds)
                          else match assoc_get ks vals with
                               | Some _ => (vals, groups, mks0 ++ [marks_of kraw], true,
                                            ((sds0 ++ kds) ++ vds) ++ [derr S_DuplicateKey (if existsb (fun m : list Z => negb (zlist_eqb m [])) (mks0 ++ [marks_of kraw]) then [] else [FStr ks []])])
                               | None => (assoc_set ks v1 vals, groups, mks0 ++ [marks_of kraw], true, (sds0 ++ kds) ++ vds)
                               end
                      | _ => (vals, groups, mks0 ++ [marks_of kraw], false, (sds0 ++ kds) ++ [dunsupported])
                      end
                  | CErr cer => (vals, groups, mks0 ++ [marks_of kraw], false, (sds0 ++ kds) ++ [derr S_InvalidObjKey [FConv cer]])
                  | CUnsupported => (vals, groups, mks0 ++ [marks_of kraw], false, (sds0 ++ kds) ++ [dunsupported])
                  end)) = true ->
          ofor_inv
            (let '(kraw, kds) := ev_ f cc anon ke in
             if is_null kraw then (vals, groups, mks0, false, (sds0 ++ kds) ++ [derr S_InvalidObjKey []])
             else if negb (is_known kraw) then (vals, groups, mks0 ++ [marks_of kraw], false, sds0 ++ kds)
             else match conv kraw TStr with
                  | COk kc =>
                      match fst (unmark kc) with
                      | VStr ks =>
                          let '(v1, vds) := ev_ f cc anon vale in
                          if group then (vals, assoc_set ks (match assoc_get ks groups with Some l => l | None => [] end ++ [v1]) groups,
                                         mks0 ++ [marks_of kraw], true, (sds0 ++ kds) ++ vds)
                          else match assoc_get ks vals with
                               | Some _ => (vals, groups, mks0 ++ [marks_of kraw], true,
                                            ((sds0 ++ kds) ++ vds) ++ [derr S_DuplicateKey (if existsb (fun m : list Z => negb (zlist_eqb m [])) (mks0 ++ [marks_of kraw]) then [] else [FStr ks []])])
                               | None => (assoc_set ks v1 vals, groups, mks0 ++ [marks_of kraw], true, (sds0 ++ kds) ++ vds)
                               end
                      | _ => (vals, groups, mks0 ++ [marks_of kraw], false, (sds0 ++ kds) ++ [dunsupported])
                      end
                  | CErr cer => (vals, groups, mks0 ++ [marks_of kraw], false, (sds0 ++ kds) ++ [derr S_InvalidObjKey [FConv cer]])
                  | CUnsupported => (vals, groups, mks0 ++ [marks_of kraw], false, (sds0 ++ kds) ++ [dunsupported])
                  end)).
        { intros mks0 sds0 Dk.
          destruct (ev_ f cc anon ke) as [kraw kds] eqn:Ek'.
          destruct (is_null kraw); [ds_dead Dk|].
          destruct (negb (is_known kraw)) eqn:Kk.
          { exfalso. ds_parts Dk. rewrite (good_is_known _ (IHel kv ke kraw kds Hin Gcv Okk Ek' Dp)) in Kk. discriminate. }
          destruct (conv kraw TStr) as [kc| |]; [|ds_dead Dk|ds_dead Dk].
          destruct (fst (unmark kc)); try (ds_dead Dk).
          destruct (ev_ f cc anon vale) as [v1 vds] eqn:Ev'.
          destruct group.
          - ds_parts Dk. pose proof (IHel kv vale v1 vds Hin Gcv Okv Ev' Dp) as Gv1.
            cbn [ofor_inv]. split; [reflexivity|]. split; [exact Fv|].
            apply assoc_set_groups_good; [|exact Fg].
            apply Forall_app. split; [|constructor; [exact Gv1|constructor]].
            destruct (assoc_get s groups) eqn:Eg; [|constructor].
            apply (assoc_get_good (fun l => Forall (fun x => good x = true) l) _ _ _ Fg Eg).
          - destruct (assoc_get s vals); [ds_dead Dk|].
            ds_parts Dk. pose proof (IHel kv vale v1 vds Hin Gcv Okv Ev' Dp) as Gv1.
            cbn [ofor_inv]. split; [reflexivity|]. split; [|exact Fg]. apply assoc_set_good; assumption. }
        destruct conde as [ce|]; [|apply Key; exact Ds].
        simpl in Okcond.
        destruct (ev_ f cc anon ce) as [inc cds] eqn:Ec'.
        destruct (is_null inc); [ds_dead Ds|].
        destruct (conv inc TBool) as [b| |] eqn:Ecb; [|ds_dead Ds|ds_dead Ds].
        destruct (negb (is_known b)) eqn:Kb.
        { exfalso. ds_parts Ds. pose proof (IHel kv ce inc cds Hin Gcv Okcond Ec' Dp) as Ginc.
          rewrite (good_is_known _ (conv_good _ _ _ Ginc Ecb)) in Kb. discriminate. }
        destruct (fst (unmark b)) as [| |[|]| | | | | | | |]; try (apply Key; exact Ds).
        cbn [ofor_inv]. auto. }
      destruct (fold_left stepf (elements cv) st0) as [[[[vals groups] mks] known] fds] eqn:Ef.
      assert (Dfin : diag_ok (ofor_ds (fold_left stepf (elements cv) st0)) = true).
      { rewrite Ef. cbn [ofor_ds]. destruct (negb known); injection Ek as _ <-; exact D. }
      pose proof (fold_ds_ok stepf ofor_ds Hmono (elements cv) st0 Dfin) as D1. unfold st0 in D1. cbn [ofor_ds] in D1.
      destruct (good_unmark _ _ _ (G0 (Hds D1)) Uc) as [Gcv _].
      destruct (fold_inv stepf ofor_ds ofor_inv Hmono (elements cv)) with (st := st0) as [_ Pf]; [|exact Dfin|].
      + intros st it Hin Ds Pst. apply (Hpres st it Hin Gcv Ds Pst).
      + rewrite Ef in Pf. destruct Pf as [Kn [Fv Fg]]; [unfold st0; cbn [ofor_inv]; repeat split; constructor|].
        subst known. cbn [negb] in Ek. injection Ek as <- <-. apply good_with_marks. apply good_VObj.
        destruct group; [|exact Fv].
        apply Forall_forall. intros p Hp. apply in_map_iff in Hp as [[k' l'] [<- Hin]]. simpl.
        apply good_VTuple. rewrite Forall_forall in Fg. apply (Fg _ Hin).
    - (* tuple for *)
      match type of Ek with
      | context [fold_left ?stp _ ?init] => set (stepf := stp) in *; set (st0 := init) in *
      end.
      assert (Hmono : forall (st : tfor_state) kv, diag_ok (tfor_ds (stepf st kv)) = true -> diag_ok (tfor_ds st) = true).
      { intros [[[vals mks] known] sds] kv Ds. unfold stepf in Ds. destruct known;
          repeat destruct_ds Ds; ds_prefix Ds. }
      assert (Hpres : forall (st : tfor_state) kv, In kv (elements cv) -> good cv = true ->
                diag_ok (tfor_ds (stepf st kv)) = true -> tfor_inv st -> tfor_inv (stepf st kv)).
      { intros [[[vals mks] known] sds] kv Hin Gcv Ds [Kn Fv]. subst known.
        unfold stepf in Ds |- *.
        set (cc := child_ctx c ((if str_eqb kvar [] || str_eqb kvar vvar then [] else [(kvar, fst kv)]) ++ [(vvar, snd kv)])) in *.
        assert (Val : forall mks0 sds0,
          diag_ok (tfor_ds
            (let '(v1, vds) := ev_ f cc anon vale in
             (vals ++ [v1], mks0, true, sds0 ++ vds))) = true ->
          tfor_inv
            (let '(v1, vds) := ev_ f cc anon vale in
             (vals ++ [v1], mks0, true, sds0 ++ vds))).
        { intros mks0 sds0 Dk. destruct (ev_ f cc anon vale) as [v1 vds] eqn:Ev'.
          ds_parts Dk. pose proof (IHel kv vale v1 vds Hin Gcv Okv Ev' Dp) as Gv1.
          cbn [tfor_inv]. split; [reflexivity|]. apply Forall_app. split; [exact Fv|constructor; [exact Gv1|constructor]]. }
        destruct conde as [ce|]; [|apply Val; exact Ds].
        simpl in Okcond.
        destruct (ev_ f cc anon ce) as [inc cds] eqn:Ec'.
        destruct (is_null inc); [ds_dead Ds|].
        destruct (negb (is_known inc)) eqn:Ki.
        { exfalso. ds_parts Ds. rewrite (good_is_known _ (IHel kv ce inc cds Hin Gcv Okcond Ec' Dp)) in Ki. discriminate. }
        destruct (conv inc TBool) as [b| |] eqn:Ecb; [|ds_dead Ds|ds_dead Ds].
        destruct (fst (unmark b)) as [| |[|]| | | | | | | |]; try (apply Val; exact Ds).
        cbn [tfor_inv]. auto. }
      destruct (fold_left stepf (elements cv) st0) as [[[vals mks] known] fds] eqn:Ef.
      assert (Dfin : diag_ok (tfor_ds (fold_left stepf (elements cv) st0)) = true).
      { rewrite Ef. cbn [tfor_ds]. destruct (negb known); injection Ek as _ <-; exact D. }
      pose proof (fold_ds_ok stepf tfor_ds Hmono (elements cv) st0 Dfin) as D1. unfold st0 in D1. cbn [tfor_ds] in D1.
      destruct (good_unmark _ _ _ (G0 (Hds D1)) Uc) as [Gcv _].
      destruct (fold_inv stepf tfor_ds tfor_inv Hmono (elements cv)) with (st := st0) as [_ Pf]; [|exact Dfin|].
      + intros st it Hin Ds Pst. apply (Hpres st it Hin Gcv Ds Pst).
      + rewrite Ef in Pf. destruct Pf as [Kn Fv]; [unfold st0; cbn [tfor_inv]; repeat split; constructor|].
        subst known. cbn [negb] in Ek. injection Ek as <- <-. apply good_with_marks. apply good_VTuple. exact Fv. }
  unfold probe in E. destruct conde as [ce|].
  - destruct (ev_ f _ anon ce) as [r cds].
    destruct (is_null r); [dead E D|].
    destruct (conv r TBool) as [b| |]; [|dead E D|dead E D].
    destruct (has_errors cds) eqn:Hec.
    + exfalso. injection E as _ <-. rewrite diag_ok_app in D. apply andb_true_iff in D as [_ D].
      rewrite (diag_ok_has_errors _ Hec) in D. discriminate.
    + apply (HK (marks_of r) (ds0 ++ cds)); [|exact E].
      intros Dx. rewrite diag_ok_app in Dx. apply andb_true_iff in Dx as [Dx _]. exact Dx.
  - apply (HK [] ds0); [auto|exact E].
Qed.

(* ---- the theorem ---------------------------------------------------------------------------- *)
Theorem kiko_all : forall f, KI f.
Proof.
  induction f as [|f IH]; intros c anon e v ds C A Ok E D.
  - simpl in E. injection E as <- <-. discriminate.
  - destruct e.
    + (* ELit *) cbn [eval_with] in E. injection E as <- <-. exact Ok.
    + (* EScopeTrav *) cbn [eval_with] in E. simpl in Ok. apply (traverse_abs_good c root steps v ds C Ok E D).
    + apply (kiko_reltrav f e steps IH c anon v ds C A Ok E D).
    + apply (kiko_call f name args expand IH c anon v ds C A Ok E D).
    + apply (kiko_cond f e1 e2 e3 IH c anon v ds C A Ok E D).
    + apply (kiko_index f e1 e2 IH c anon v ds C A Ok E D).
    + apply (kiko_tuple f es IH c anon v ds C A Ok E D).
    + apply (kiko_obj f items IH c anon v ds C A Ok E D).
    + apply (kiko_objkey f e force IH c anon v ds C A Ok E D).
    + apply (kiko_for f kv vv e1 key e2 cond group IH c anon v ds C A Ok E D).
    + apply (kiko_splat f e1 e2 IH c anon v ds C A Ok E D).
    + (* EAnon *) cbn [eval_with] in E. simpl in Ok. destruct anon as [a|]; [|discriminate Ok].
      injection E as <- <-. apply (A a eq_refl).
    + apply (kiko_bin f op e1 e2 IH c anon v ds C A Ok E D).
    + apply (kiko_un f op e IH c anon v ds C A Ok E D).
    + apply (kiko_tmpl f parts IH c anon v ds C A Ok E D).
    + apply (kiko_join f e IH c anon v ds C A Ok E D).
    + (* EWrap *) cbn [eval_with] in E. simpl in Ok. apply (IH c anon e v ds C A Ok E D).
    + (* EParen *) cbn [eval_with] in E. simpl in Ok. apply (IH c anon e v ds C A Ok E D).
Qed.

(* [mwf]: mark-normal form (no VMark directly inside a VMark), the invariant stated in Values.v. *)
Definition val_ok (v : val) : Prop := wholly_known v = true /\ mwf v = true.

Theorem known_in_known_out : forall fuel c anon e v ds,
  ctx_good c -> anon_good anon -> expr_ok (is_some anon) e = true ->
  eval fuel c anon e = (v, ds) -> has_errors ds = false -> has_unsupported ds = false ->
  wholly_known v = true.
Proof.
  intros fuel c anon e v ds C A Ok E He Hu.
  assert (G : good v = true) by (apply (kiko_all fuel c anon e v ds C A Ok E (diag_ok_intro ds He Hu))).
  apply good_iff in G. tauto.
Qed.

(* the mark-normal form is preserved as well *)
Theorem known_in_known_out_mwf : forall fuel c anon e v ds,
  ctx_good c -> anon_good anon -> expr_ok (is_some anon) e = true ->
  eval fuel c anon e = (v, ds) -> has_errors ds = false -> has_unsupported ds = false ->
  mwf v = true.
Proof.
  intros fuel c anon e v ds C A Ok E He Hu.
  assert (G : good v = true) by (apply (kiko_all fuel c anon e v ds C A Ok E (diag_ok_intro ds He Hu))).
  apply good_iff in G. tauto.
Qed.

(* hcl.Expression.Value: no anonymous symbol bound *)
Corollary value_known_in_known_out : forall c e v ds,
  ctx_good c -> expr_ok false e = true ->
  value c e = (v, ds) -> has_errors ds = false -> has_unsupported ds = false -> wholly_known v = true.
Proof.
  intros c e v ds C Ok E He Hu. unfold value in E.
  apply (known_in_known_out (S (expr_size e)) c None e v ds C); try assumption. intros a Ea. discriminate.
Qed.

(* ---- the six functions of the harness satisfy the contract ------------------------------------ *)
Lemma fn_upper_known : fn_known fn_upper.
Proof.
  split; [|split].
  - intros args rt v F E. simpl in E. destruct args as [|[] [|]]; try discriminate. injection E as <-. reflexivity.
  - repeat constructor; intros H; discriminate.
  - intros p E. discriminate.
Qed.

Lemma fn_sum_known : fn_known fn_sum.
Proof.
  split; [|split].
  - intros args rt v F E. simpl in E.
    assert (Q : forall args acc, fold_left (fun acc a =>
                  match acc, a with
                  | OOk (VNum x), VNum y => match num_add x y with Some n => OOk (VNum n) | None => OErr OEOther end
                  | OOk _, _ => OUnsupported
                  | o, _ => o
                  end) args acc = OOk v -> (forall w, acc = OOk w -> good w = true) -> good v = true).
    { clear. induction args as [|a r IH]; intros acc E H; simpl in E; [apply (H v E)|].
      apply (IH _ E). intros w Ew.
      destruct acc as [[]| |]; try discriminate; destruct a; try discriminate.
      destruct (num_add n n0); inversion Ew. reflexivity. }
    apply (Q args _ E). intros w Ew. inversion Ew. reflexivity.
  - constructor.
  - intros p E. injection E as <-. intros H. discriminate.
Qed.

Lemma fn_first_known : fn_known fn_first.
Proof.
  split; [|split].
  - intros args rt v F E. simpl in E. destruct args as [|a r]; [discriminate|]. injection E as <-.
    inversion F; assumption.
  - repeat constructor; intros _ _; reflexivity.
  - intros p E. injection E as <-. intros _ _. reflexivity.
Qed.

Lemma fn_fail_known : fn_known fn_fail.
Proof.
  split; [|split].
  - intros args rt v F E. discriminate.
  - repeat constructor; intros H; discriminate.
  - intros p E. discriminate.
Qed.

Lemma fn_isnull_known : fn_known fn_isnull.
Proof.
  split; [|split].
  - intros args rt v F E. simpl in E. destruct args as [|a [|]]; try discriminate. injection E as <-. reflexivity.
  - repeat constructor; intros _ _; reflexivity.
  - intros p E. discriminate.
Qed.

Lemma fn_pair_known : fn_known fn_pair.
Proof.
  split; [|split].
  - intros args rt v F E. simpl in E. destruct args as [|a [|b [|]]]; try discriminate. injection E as <-.
    inversion F as [|? ? Ga F']; subst. inversion F' as [|? ? Gb _]; subst.
    apply good_VTuple. repeat constructor; assumption.
  - repeat constructor; intros H; discriminate.
  - intros p E. discriminate.
Qed.

(* ---- what the hypotheses exclude (witnesses, by computation) ----------------------------------- *)
(* an anonymous symbol outside a splat evaluates to DynamicVal without any diagnostic
   (AnonSymbolExpr.Value with no value set); the parser never builds that *)
Lemma anon_unbound_unknown : value [] EAnon = (dyn_val, []).
Proof. reflexivity. Qed.

(* TemplateJoinExpr over a null tuple: Go panics ("TemplateJoinExpr got null tuple"), the model
   answers an unknown string without a diagnostic: the panic is not modelled *)
Lemma join_null_not_modelled : value [] (EJoin (ELit (VNull TDyn))) = (VUnk TStr rf_none, []).
Proof. reflexivity. Qed.

(* function.Call: a literal null given to a parameter of dynamic type that allows null but not
   dynamically typed arguments makes the call return DynamicVal without error *)
Definition fn_null_nodyn : fn :=
  mkFn [mkParam [118] TDyn true false false false] None (fun _ => Some TBool)
       (fun args _ => match args with [a] => OOk (VBool (is_null a)) | _ => OUnsupported end).
Lemma fn_null_dyn_refuted :
  value [mkFrame (Some []) (Some [([102], fn_null_nodyn)])] (ECall [102] [ELit (VNull TDyn)] false)
  = (dyn_val, []).
Proof. vm_compute. reflexivity. Qed.
