(* Eval/UnknownSound_Conv.v — C05: conversion (Cty/Convert.v [convert]) preserves the side
   invariant [inv] and is monotone for the strict concretisation relation [gsb]. *)
From Coq Require Import QArith Qreduction.
From HclV Require Import Base.Prelude Cty.Values Cty.Convert Cty.Ops Eval.Impl
                         Eval.UnknownSound_Base Eval.UnknownSound_Gamma.
Open Scope Z_scope.
Local Strategy opaque [equals val_size unmark_deep deep_marks unify_n].

(* ---- inv ------------------------------------------------------------------------------------------ *)
Lemma inv_repeat_unk et n : forallb (fun x => ty_eqb (type_of x) et && inv x) (repeatZ (VUnk et rf_none) n) = true.
Proof. induction n as [|n IH]; simpl; [reflexivity|]. rewrite ty_eqb_refl, IH. reflexivity. Qed.

Lemma inv_finish_unknown t x : canon_refn x = true -> inv (finish_unknown t x) = true.
Proof.
  intros C. unfold finish_unknown. destruct (negb (r_notnull x)); [exact C|].
  destruct t; try exact C.
  - pose proof C as C0. unfold canon_refn in C. apply andb_true_iff in C as [C1 C2].
    destruct (r_lo x) as [[a [|]]|] eqn:El; try exact C0.
    destruct (r_hi x) as [[b [|]]|] eqn:Eh; try exact C0.
    destruct (num_eqb a b); [exact C1|exact C0].
  - destruct (r_lenhi x); [|exact C]. destruct (r_lenlo x =? z); [|exact C]. simpl. apply inv_repeat_unk.
  - destruct (r_lenhi x); [|exact C]. destruct (r_lenlo x =? z); [|exact C].
    destruct (z =? 0); [reflexivity|]. destruct (z =? 1); [|exact C]. simpl. rewrite ty_eqb_refl. reflexivity.
  - destruct (r_lenhi x); [|exact C]. destruct ((r_lenlo x =? z) && (z =? 0)); [reflexivity|exact C].
Qed.

Lemma canon_conv_unknown_rf src r dst x : conv_unknown_rf src r dst = RExact x -> canon_refn x = true.
Proof.
  unfold conv_unknown_rf. destruct r as [|y]; [discriminate|].
  intros E. destruct src; destruct dst; try (injection E as <-; reflexivity).
  destruct (Z.of_nat (length ts) <=? 1); injection E as <-; reflexivity.
Qed.

Lemma canon_str_to_num s n : str_to_num s = Some n -> canon_num n = true.
Proof.
  unfold str_to_num. intros E.
  repeat match type of E with
         | match ?x with _ => _ end = _ => destruct x
         | (let '(_, _) := ?x in _) = _ => destruct x
         end; try discriminate; injection E as <-; apply canon_nq.
Qed.

Lemma Forall2_forallb_vs {A} (P : val -> bool) (R : A -> val -> Prop) l vs :
  Forall2 R l vs -> (forall x v, In x l -> R x v -> P v = true) -> forallb P vs = true.
Proof.
  intros F H. apply forallb_Forall. apply (Forall2_transfer R (fun v => P v = true) l vs F H).
Qed.

Lemma inv_elem_list t l x : inv (VList t l) = true -> In x l -> inv x = true /\ type_of x = t.
Proof.
  simpl. intros H Hin. rewrite forallb_Forall in H. rewrite Forall_forall in H. specialize (H x Hin).
  apply andb_true_iff in H as [H1 H2]. apply ty_eqb_eq in H1. auto.
Qed.
Lemma inv_elem_map t l k x : inv (VMap t l) = true -> In (k, x) l -> inv x = true /\ type_of x = t.
Proof.
  simpl. intros H Hin. rewrite forallb_Forall in H. rewrite Forall_forall in H. specialize (H _ Hin).
  simpl in H. apply andb_true_iff in H as [H1 H2]. apply ty_eqb_eq in H1. auto.
Qed.
Lemma inv_elem_tuple l x : inv (VTuple l) = true -> In x l -> inv x = true.
Proof. simpl. intros H Hin. rewrite forallb_Forall in H. rewrite Forall_forall in H. auto. Qed.
Lemma inv_elem_obj l k x : inv (VObj l) = true -> In (k, x) l -> inv x = true.
Proof. simpl. intros H Hin. rewrite forallb_Forall in H. rewrite Forall_forall in H. apply (H _ Hin). Qed.

Lemma convert_inv_pres : forall f v want r, inv v = true -> convert f v want = COk r -> inv r = true.
Proof.
  induction f as [|f IH]; intros v want r I E; [discriminate|].
  pose proof E as E0. apply convert_inv in E.
  destruct E as [m v want r' E|v want Hm Et|v Hm|t0 rf want P|t0 want P|n|b|s n En|s b Eb
                 |t0 l w vs P Hd F|t0 l w vs P Hd F|l w vs P Hd F|l ws vs P F
                 |t0 kvs w vs P Hd F|kvs w vs P Hd F|kvs ws vs P F];
    try exact I; try reflexivity; try discriminate.
  - destruct (conv_unknown_rf t0 rf want) as [|x] eqn:Ex; [reflexivity|].
    apply inv_finish_unknown. apply (canon_conv_unknown_rf _ _ _ _ Ex).
  - simpl. apply (canon_str_to_num _ _ En).
  - simpl. apply (Forall2_forallb_vs _ _ _ _ F). intros x v Hin Hc.
    rewrite (convert_type _ _ _ _ Hc Hd), ty_eqb_refl. simpl.
    apply (IH x w v); [|exact Hc]. apply (inv_elem_list _ _ _ I Hin).
  - simpl. apply (Forall2_forallb_vs _ _ _ _ F). intros x v Hin Hc.
    rewrite (convert_type _ _ _ _ Hc Hd), ty_eqb_refl. simpl.
    apply (IH x w v); [|exact Hc]. apply (inv_elem_list t0 _ _ I Hin).
  - simpl. apply (Forall2_forallb_vs _ _ _ _ F). intros x v Hin Hc.
    rewrite (convert_type _ _ _ _ Hc Hd), ty_eqb_refl. simpl.
    apply (IH x w v); [|exact Hc]. apply (inv_elem_tuple _ _ I Hin).
  - simpl. apply (Forall2_forallb_vs _ _ _ _ F). intros [x w] v Hin Hc. simpl in Hc.
    apply (IH x w v); [|exact Hc]. apply in_combine_l in Hin. apply (inv_elem_tuple _ _ I Hin).
  - simpl. apply forallb_Forall. apply Forall_forall. intros [k v] Hin. simpl.
    apply in_combine_r in Hin.
    assert (Q : Forall (fun v => ty_eqb (type_of v) w && inv v = true) vs).
    { apply (Forall2_transfer _ _ _ _ F). intros [k' x] v' Hin' Hc. simpl in Hc.
      rewrite (convert_type _ _ _ _ Hc Hd), ty_eqb_refl. simpl.
      apply (IH x w v'); [|exact Hc]. apply (inv_elem_map _ _ _ _ I Hin'). }
    rewrite Forall_forall in Q. apply (Q v Hin).
  - simpl. apply forallb_Forall. apply Forall_forall. intros [k v] Hin. simpl.
    apply in_combine_r in Hin.
    assert (Q : Forall (fun v => ty_eqb (type_of v) w && inv v = true) vs).
    { apply (Forall2_transfer _ _ _ _ F). intros [k' x] v' Hin' Hc. simpl in Hc.
      rewrite (convert_type _ _ _ _ Hc Hd), ty_eqb_refl. simpl.
      apply (IH x w v'); [|exact Hc]. apply (inv_elem_obj _ _ _ I Hin'). }
    rewrite Forall_forall in Q. apply (Q v Hin).
  - simpl. apply forallb_Forall. apply Forall_forall. intros [k v] Hin. simpl.
    apply in_combine_r in Hin.
    assert (Q : Forall (fun v => inv v = true) vs).
    { apply (Forall2_transfer _ _ _ _ F). intros [k' w] v' Hin' Hc. simpl in Hc.
      destruct (assoc_get k' kvs) as [x|] eqn:Ex; [|discriminate].
      apply assoc_get_In in Ex as [k'' Hk]. apply (IH x w v'); [|exact Hc]. apply (inv_elem_obj _ _ _ I Hk). }
    rewrite Forall_forall in Q. apply (Q v Hin).
Qed.

Lemma conv_inv_pres v want r : inv v = true -> conv v want = COk r -> inv r = true.
Proof. unfold conv. apply convert_inv_pres. Qed.

(* ---- conversion to the value's own type; independence of the fuel ------------------------------------ *)
Lemma convert_same_type f v want r :
  is_marked v = false -> type_of v = want -> convert f v want = COk r -> r = v.
Proof.
  intros M T E. destruct f as [|f]; [discriminate|]. apply convert_inv in E.
  assert (Et : ty_eqb (type_of v) want = true) by (apply ty_eqb_eq; exact T).
  destruct E; try reflexivity; try discriminate;
    try (match goal with P : conv_pre _ _ |- _ => destruct P as [P1 _]; rewrite Et in P1; discriminate end).
Qed.

Lemma Forall2_fun {A} (g1 g2 : A -> val -> Prop) l vs1 vs2 :
  Forall2 g1 l vs1 -> Forall2 g2 l vs2 ->
  (forall x v1 v2, In x l -> g1 x v1 -> g2 x v2 -> v1 = v2) -> vs1 = vs2.
Proof.
  intros F1. revert vs2. induction F1 as [|x v1 l vs1 H1 _ IH]; intros vs2 F2 H; inversion F2; subst; [reflexivity|].
  f_equal; [apply (H x); [left; reflexivity|assumption|assumption]|].
  apply IH; [assumption|]. intros x' a b Hin. apply H. right. exact Hin.
Qed.

Ltac pre_contra :=
  match goal with
  | P : conv_pre ?v ?w, Et : ty_eqb (type_of ?v) ?w = true |- _ => destruct P as [P1 _]; rewrite Et in P1; discriminate
  | P : conv_pre ?v ?w |- _ => destruct P as [P1 [P2 _]]; first [contradiction | (exfalso; apply P2; reflexivity) | (simpl in P1; rewrite ty_eqb_refl in P1; discriminate)]
  end.

Lemma convert_fuel : forall f1 f2 v t r1 r2,
  convert f1 v t = COk r1 -> convert f2 v t = COk r2 -> r1 = r2.
Proof.
  induction f1 as [|f1 IH]; intros f2 v t r1 r2 E1 E2; [discriminate|].
  destruct f2 as [|f2]; [discriminate|].
  apply convert_inv in E1. apply convert_inv in E2.
  destruct E1 as [m v want r' E|v want Hm Et|v Hm|t0 rf want P|t0 want P|n|b|s n En|s b Eb
                 |t0 l w vs P Hd F|t0 l w vs P Hd F|l w vs P Hd F|l ws vs P F
                 |t0 kvs w vs P Hd F|kvs w vs P Hd F|kvs ws vs P F];
    inversion E2; subst; try reflexivity; try discriminate; try congruence; try pre_contra.
  - f_equal. eapply IH; eassumption.
  - f_equal. eapply Forall2_fun; [exact F|eassumption|]. intros x v1 v2 _ Hc1 Hc2. cbv beta in Hc1, Hc2. apply (IH _ _ _ _ _ Hc1 Hc2).
  - f_equal. eapply Forall2_fun; [exact F|eassumption|]. intros x v1 v2 _ Hc1 Hc2. cbv beta in Hc1, Hc2. apply (IH _ _ _ _ _ Hc1 Hc2).
  - f_equal. eapply Forall2_fun; [exact F|eassumption|]. intros x v1 v2 _ Hc1 Hc2. cbv beta in Hc1, Hc2. apply (IH _ _ _ _ _ Hc1 Hc2).
  - f_equal. eapply Forall2_fun; [exact F|eassumption|]. intros x v1 v2 _ Hc1 Hc2. cbv beta in Hc1, Hc2. apply (IH _ _ _ _ _ Hc1 Hc2).
  - f_equal. f_equal. eapply Forall2_fun; [exact F|eassumption|]. intros x v1 v2 _ Hc1 Hc2. cbv beta in Hc1, Hc2. apply (IH _ _ _ _ _ Hc1 Hc2).
  - f_equal. f_equal. eapply Forall2_fun; [exact F|eassumption|]. intros x v1 v2 _ Hc1 Hc2. cbv beta in Hc1, Hc2. apply (IH _ _ _ _ _ Hc1 Hc2).
  - f_equal. f_equal. eapply Forall2_fun; [exact F|eassumption|]. intros [k w] v1 v2 _ Hc1 Hc2. simpl in *.
    destruct (assoc_get k kvs); [|discriminate]. eapply IH; eassumption.
Qed.

(* ---- an unknown abstract value ---------------------------------------------------------------------- *)
Lemma refn_ok_none c : refn_ok refn_none c = true.
Proof.
  destruct c; try reflexivity; simpl; unfold len_ok; simpl;
    apply andb_true_iff; split; try reflexivity; apply Z.leb_le; apply Nat2Z.is_nonneg.
Qed.

Lemma gsb_unk_none t c : wholly_known c = true -> conf (type_of c) t = true -> gsb (VUnk t rf_none) c = true.
Proof. intros W C. simpl. unfold conc. rewrite W, C. simpl. apply refn_ok_none. Qed.

Lemma gsb_dyn_val c : wholly_known c = true -> gsb dyn_val c = true.
Proof. intros W. apply gsb_unk_none; [exact W|]. destruct (type_of c); reflexivity. Qed.

Lemma wk_shape_list c et : wholly_known c = true -> is_marked c = false -> type_of c = TList et ->
  c = VNull (TList et) \/ exists l, c = VList et l.
Proof.
  intros W M T. destruct c; simpl in *; try discriminate.
  - left. congruence.
  - right. injection T as ->. eexists. reflexivity.
Qed.
Lemma wk_shape_set c et : wholly_known c = true -> is_marked c = false -> type_of c = TSet et ->
  c = VNull (TSet et) \/ exists l, c = VSet et l.
Proof.
  intros W M T. destruct c; simpl in *; try discriminate.
  - left. congruence.
  - right. injection T as ->. eexists. reflexivity.
Qed.
Lemma wk_shape_map c et : wholly_known c = true -> is_marked c = false -> type_of c = TMap et ->
  c = VNull (TMap et) \/ exists l, c = VMap et l.
Proof.
  intros W M T. destruct c; simpl in *; try discriminate.
  - left. congruence.
  - right. injection T as ->. eexists. reflexivity.
Qed.

Lemma all2_repeat_unk et (l : list val) :
  Forall (fun x => wholly_known x = true /\ type_of x = et) l ->
  all2 gsb (repeatZ (VUnk et rf_none) (length l)) l = true.
Proof.
  induction 1 as [|x r [W T] _ IH]; simpl; [reflexivity|].
  rewrite IH, andb_true_r. unfold conc. rewrite W, T, conf_refl. simpl. apply refn_ok_none.
Qed.

Lemma wk_inv_elems t l : wholly_known (VList t l) = true -> inv (VList t l) = true ->
  Forall (fun x => wholly_known x = true /\ type_of x = t) l.
Proof.
  simpl. intros W I. rewrite forallb_Forall in W, I. rewrite Forall_forall in *. intros x Hx.
  specialize (I x Hx). apply andb_true_iff in I as [I _]. apply ty_eqb_eq in I. auto.
Qed.

(* the result of finishing an unknown collection with length bounds *)
Lemma finish_len_gs want nn lo hi c' :
  is_collection want = true -> wholly_known c' = true -> inv c' = true -> type_of c' = want ->
  (null_shape c' = true -> nn = false) ->
  (null_shape c' = false ->
   (lo <=? length_int c') && (match hi with Some h => length_int c' <=? h | None => true end) = true) ->
  gsb (finish_unknown want (mkRefn nn [] None None lo hi)) c' = true.
Proof.
  intros Hc W I T Hn Hl. pose proof (inv_not_marked _ I) as M.
  assert (Unk : gsb (VUnk want (RExact (mkRefn nn [] None None lo hi))) c' = true).
  { simpl. unfold conc. rewrite W, T, conf_refl. simpl.
    destruct c'; try reflexivity; simpl in *.
    - destruct nn; [specialize (Hn eq_refl); discriminate|reflexivity].
    - unfold len_ok. simpl. apply (Hl eq_refl).
    - unfold len_ok. simpl. apply (Hl eq_refl).
    - unfold len_ok. simpl. apply (Hl eq_refl). }
  unfold finish_unknown. cbn [r_notnull r_lenhi r_lenlo].
  destruct nn; cbn [negb]; [|exact Unk].
  destruct want as [| | | |et|et|et| |]; try discriminate Hc.
  - destruct hi as [h|]; [|exact Unk]. cbv beta iota. destruct (lo =? h) eqn:Elh; [|exact Unk].
    destruct (wk_shape_list c' et W M T) as [->|[l ->]]; [specialize (Hn eq_refl); discriminate|].
    specialize (Hl eq_refl). simpl in Hl. apply andb_true_iff in Hl as [H1 H2].
    apply Z.eqb_eq in Elh. apply Z.leb_le in H1, H2.
    replace (Z.to_nat h) with (length l) by lia. simpl. rewrite ty_eqb_refl. simpl. apply all2_repeat_unk. apply (wk_inv_elems et l W I).
  - destruct hi as [h|]; [|exact Unk]. cbv beta iota. destruct (lo =? h) eqn:Elh; [|exact Unk].
    destruct (wk_shape_set c' et W M T) as [->|[l ->]]; [specialize (Hn eq_refl); discriminate|].
    specialize (Hl eq_refl). simpl in Hl. apply andb_true_iff in Hl as [H1 H2].
    apply Z.eqb_eq in Elh. apply Z.leb_le in H1, H2.
    destruct (h =? 0) eqn:E0.
    + apply Z.eqb_eq in E0. destruct l; [|simpl in H2; lia]. simpl. rewrite ty_eqb_refl. reflexivity.
    + destruct (h =? 1) eqn:E1; [|exact Unk].
      apply Z.eqb_eq in E1. destruct l as [|x [|y r]]; try (simpl in H1, H2; lia).
      simpl. rewrite ty_eqb_refl. simpl. rewrite andb_true_r.
      pose proof (wk_inv_elems et [x] W I) as F. inversion F as [|? ? [Wx Tx] _]; subst.
      unfold conc. rewrite Wx, conf_refl. simpl. apply refn_ok_none.
  - destruct hi as [h|]; [|exact Unk]. cbv beta iota. destruct ((lo =? h) && (h =? 0)) eqn:Elh; [|exact Unk].
    apply andb_true_iff in Elh as [Elh E0]. apply Z.eqb_eq in Elh, E0.
    destruct (wk_shape_map c' et W M T) as [->|[l ->]]; [specialize (Hn eq_refl); discriminate|].
    specialize (Hl eq_refl). simpl in Hl. apply andb_true_iff in Hl as [H1 H2]. apply Z.leb_le in H1, H2.
    destruct l; [|simpl in H2; lia]. simpl. rewrite ty_eqb_refl. reflexivity.
Qed.

Lemma unk_default_gs want nn c' :
  wholly_known c' = true -> type_of c' = want -> (null_shape c' = true -> nn = false) ->
  gsb (finish_unknown want (mkRefn nn [] None None 0 None)) c' = true.
Proof.
  intros W T Hn.
  assert (E : finish_unknown want (mkRefn nn [] None None 0 None) = VUnk want (RExact (mkRefn nn [] None None 0 None))).
  { unfold finish_unknown. simpl. destruct nn; simpl; [|reflexivity]. destruct want; reflexivity. }
  rewrite E. simpl. unfold conc. rewrite W, T, conf_refl. simpl.
  destruct c'; try reflexivity; simpl in *.
  - destruct nn; [specialize (Hn eq_refl); discriminate|reflexivity].
  - unfold len_ok. simpl. rewrite andb_true_r. apply Z.leb_le. apply Nat2Z.is_nonneg.
  - unfold len_ok. simpl. rewrite andb_true_r. apply Z.leb_le. apply Nat2Z.is_nonneg.
  - unfold len_ok. simpl. rewrite andb_true_r. apply Z.leb_le. apply Nat2Z.is_nonneg.
Qed.


Lemma wk_shape_tuple c ts : wholly_known c = true -> is_marked c = false -> type_of c = TTuple ts ->
  c = VNull (TTuple ts) \/ exists l, c = VTuple l /\ map type_of l = ts.
Proof.
  intros W M T. destruct c; simpl in *; try discriminate.
  - left. congruence.
  - right. injection T as <-. eexists. split; reflexivity.
Qed.
Lemma wk_shape_obj c fs : wholly_known c = true -> is_marked c = false -> type_of c = TObj fs ->
  c = VNull (TObj fs) \/ exists l, c = VObj l /\ map (fun p => (fst p, type_of (snd p))) l = fs.
Proof.
  intros W M T. destruct c; simpl in *; try discriminate.
  - left. congruence.
  - right. injection T as <-. eexists. split; reflexivity.
Qed.

Lemma convert_null_fwd f c want c' : convert (S f) c want = COk c' -> null_shape c = true -> null_shape c' = true.
Proof. intros E N. apply convert_inv in E. destruct E; try discriminate; try assumption; reflexivity. Qed.

(* conversions to a collection type keep the number of elements *)
Lemma convert_len_pres f c want c' :
  convert (S f) c want = COk c' -> is_collection want = true ->
  match c with VList _ _ | VSet _ _ | VMap _ _ | VTuple _ | VObj _ => true | _ => false end = true ->
  length_int c' = length_int c.
Proof.
  intros E Hc Sh. apply convert_inv in E.
  destruct E; try discriminate; try reflexivity; simpl.
  - rewrite (Forall2_length _ _ _ H1). reflexivity.
  - rewrite (Forall2_length _ _ _ H1). reflexivity.
  - rewrite (Forall2_length _ _ _ H1). reflexivity.
  - rewrite combine_length, map_length. rewrite (Forall2_length _ _ _ H1). rewrite Nat.min_id. reflexivity.
  - rewrite combine_length, map_length. rewrite (Forall2_length _ _ _ H1). rewrite Nat.min_id. reflexivity.
Qed.

Lemma conf_tuple_len h ts : conf h (TTuple ts) = true -> exists xs, h = TTuple xs /\ length xs = length ts.
Proof.
  destruct h; simpl; try discriminate. intros H. eexists. split; [reflexivity|]. apply (all2_length _ _ _ H).
Qed.
Lemma conf_obj_len h fs : conf h (TObj fs) = true -> exists xs, h = TObj xs /\ length xs = length fs.
Proof.
  destruct h; simpl; try discriminate. intros H. eexists. split; [reflexivity|]. apply (all2_length _ _ _ H).
Qed.
Lemma conf_coll_head h t : is_collection t = true -> conf h t = true ->
  match t, h with TList _, TList _ | TSet _, TSet _ | TMap _, TMap _ => True | _, _ => False end.
Proof. destruct t; try discriminate; destruct h; simpl; try discriminate; auto. Qed.

Lemma conv_unk_gs f2 t r c want c' :
  inv c = true -> conc t r c = true -> has_dyn want = false ->
  convert (S f2) c want = COk c' ->
  gsb (match conv_unknown_rf t r want with
       | RWild => VUnk want RWild
       | RExact x => finish_unknown want x end) c' = true.
Proof.
  intros I Cc Hd E.
  pose proof (conc_wk _ _ _ Cc) as W. pose proof (inv_good _ I W) as Gc. pose proof (inv_not_marked _ I) as M.
  pose proof (convert_good _ _ _ _ Gc E) as Gc'. apply good_iff in Gc' as [W' _].
  pose proof (convert_type _ _ _ _ E Hd) as T'. pose proof (convert_inv_pres _ _ _ _ I E) as I'.
  assert (Hn : null_shape c' = true -> null_shape c = true) by (apply (convert_null_inv _ _ _ _ E M)).
  assert (Hn' : null_shape c = true -> null_shape c' = true) by (apply (convert_null_fwd _ _ _ _ E)).
  unfold conc in Cc. apply andb_true_iff in Cc as [Cc Rr]. apply andb_true_iff in Cc as [_ Cf].
  destruct r as [|r0].
  { simpl. unfold conc. rewrite W', T', conf_refl. reflexivity. }
  assert (NN : null_shape c' = true -> r_notnull r0 = false).
  { intros N. specialize (Hn N). destruct c; try discriminate. simpl in Rr. apply negb_true_iff in Rr. exact Rr. }
  assert (Dflt : gsb (finish_unknown want (mkRefn (r_notnull r0) [] None None 0 None)) c' = true)
    by (apply unk_default_gs; assumption).
  assert (Wd : want <> TDyn) by (intros ->; discriminate).
  (* the collection-length cases *)
  assert (Len : forall lo hi, is_collection want = true ->
            (null_shape c = false ->
             match c with VList _ _ | VSet _ _ | VMap _ _ | VTuple _ | VObj _ => true | _ => false end = true /\
             (lo <=? length_int c) && (match hi with Some h => length_int c <=? h | None => true end) = true) ->
            gsb (finish_unknown want (mkRefn (r_notnull r0) [] None None lo hi)) c' = true).
  { intros lo hi Hc Hl. apply finish_len_gs; try assumption.
    intros N'. assert (Nc : null_shape c = false).
    { destruct (null_shape c) eqn:Nc; [|reflexivity]. rewrite (Hn' eq_refl) in N'. discriminate. }
    destruct (Hl Nc) as [Sh Hb]. rewrite (convert_len_pres _ _ _ _ E Hc Sh). exact Hb. }
  unfold conv_unknown_rf.
  destruct t as [| | | |te|te|te|ts|fs]; destruct want as [| | | |we|we|we|ws|ws]; try exact Dflt; try discriminate Hd.
  - (* list -> list *) apply Len; [reflexivity|]. intros Nc.
    destruct (type_of c) eqn:Tc; simpl in Cf; try discriminate.
    destruct (wk_shape_list c _ W M Tc) as [->|[l ->]]; [discriminate|]. split; [reflexivity|exact Rr].
  - (* list -> set *) apply Len; [reflexivity|]. intros Nc.
    destruct (type_of c) eqn:Tc; simpl in Cf; try discriminate.
    destruct (wk_shape_list c _ W M Tc) as [->|[l ->]]; [discriminate|]. split; [reflexivity|].
    simpl in Rr |- *. unfold len_ok in Rr. apply andb_true_iff in Rr as [R1 R2]. rewrite R2, andb_true_r.
    destruct (0 <? r_lenlo r0) eqn:E0; apply Z.leb_le; apply Z.leb_le in R1; [apply Z.ltb_lt in E0; lia|apply Nat2Z.is_nonneg].
  - (* list -> map *) apply Len; [reflexivity|]. intros Nc.
    destruct (type_of c) eqn:Tc; simpl in Cf; try discriminate.
    destruct (wk_shape_list c _ W M Tc) as [->|[l ->]]; [discriminate|]. split; [reflexivity|exact Rr].
  - (* set -> list *) apply Len; [reflexivity|]. intros Nc.
    destruct (type_of c) eqn:Tc; simpl in Cf; try discriminate.
    destruct (wk_shape_set c _ W M Tc) as [->|[l ->]]; [discriminate|]. split; [reflexivity|exact Rr].
  - (* set -> set *) apply Len; [reflexivity|]. intros Nc.
    destruct (type_of c) eqn:Tc; simpl in Cf; try discriminate.
    destruct (wk_shape_set c _ W M Tc) as [->|[l ->]]; [discriminate|]. split; [reflexivity|].
    simpl in Rr |- *. unfold len_ok in Rr. apply andb_true_iff in Rr as [R1 R2]. rewrite R2, andb_true_r.
    destruct (0 <? r_lenlo r0) eqn:E0; apply Z.leb_le; apply Z.leb_le in R1; [apply Z.ltb_lt in E0; lia|apply Nat2Z.is_nonneg].
  - (* set -> map *) apply Len; [reflexivity|]. intros Nc.
    destruct (type_of c) eqn:Tc; simpl in Cf; try discriminate.
    destruct (wk_shape_set c _ W M Tc) as [->|[l ->]]; [discriminate|]. split; [reflexivity|exact Rr].
  - (* map -> list *) apply Len; [reflexivity|]. intros Nc.
    destruct (type_of c) eqn:Tc; simpl in Cf; try discriminate.
    destruct (wk_shape_map c _ W M Tc) as [->|[l ->]]; [discriminate|]. split; [reflexivity|exact Rr].
  - (* map -> set *) apply Len; [reflexivity|]. intros Nc.
    destruct (type_of c) eqn:Tc; simpl in Cf; try discriminate.
    destruct (wk_shape_map c _ W M Tc) as [->|[l ->]]; [discriminate|]. split; [reflexivity|].
    simpl in Rr |- *. unfold len_ok in Rr. apply andb_true_iff in Rr as [R1 R2]. rewrite R2, andb_true_r.
    destruct (0 <? r_lenlo r0) eqn:E0; apply Z.leb_le; apply Z.leb_le in R1; [apply Z.ltb_lt in E0; lia|apply Nat2Z.is_nonneg].
  - (* map -> map *) apply Len; [reflexivity|]. intros Nc.
    destruct (type_of c) eqn:Tc; simpl in Cf; try discriminate.
    destruct (wk_shape_map c _ W M Tc) as [->|[l ->]]; [discriminate|]. split; [reflexivity|exact Rr].
  - (* tuple -> list *) apply Len; [reflexivity|]. intros Nc.
    destruct (conf_tuple_len _ _ Cf) as [xs [Tc Lx]].
    destruct (wk_shape_tuple c _ W M Tc) as [->|[l [-> Hl]]]; [discriminate|]. split; [reflexivity|].
    simpl. rewrite <- Lx, <- Hl, map_length, Z.leb_refl. reflexivity.
  - (* tuple -> set *)
    assert (Q : forall lo hi, gsb (finish_unknown (TSet we) (mkRefn (r_notnull r0) [] None None lo hi)) c' = true).
    { intros lo hi. apply Len; [reflexivity|]. intros Nc. exfalso.
      destruct (conf_tuple_len _ _ Cf) as [xs [Tc Lx]].
      destruct (wk_shape_tuple c _ W M Tc) as [->|[l [-> Hl]]]; [discriminate|].
      apply convert_inv in E. inversion E; subst; try discriminate. }
    destruct (Z.of_nat (length ts) <=? 1); apply Q.
  - (* object -> map *) apply Len; [reflexivity|]. intros Nc.
    destruct (conf_obj_len _ _ Cf) as [xs [Tc Lx]].
    destruct (wk_shape_obj c _ W M Tc) as [->|[l [-> Hl]]]; [discriminate|]. split; [reflexivity|].
    simpl. rewrite <- Lx, <- Hl, map_length, Z.leb_refl. reflexivity.
Qed.

